/-
  ExoModel.Par — the two models used by C09 ("parallel loops that compile are race-free").

  Part I  (event model of a parallel loop).  The body of one iteration is a finite sequence of
  atomic events on memory cells
        read c          -- the value of c is appended to the iteration's private values
        write c f       -- c := f (private values read so far by this iteration)
        reduce c f      -- c := c + f (private values)            (atomic here, see below)
  A *parallel execution* of the loop is given by a schedule: a list of iteration numbers; at each
  step the named iteration performs its next event (`stepAt`).  The schedules after which every
  iteration is finished (`AllDone`) are exactly the interleavings of the iterations' event
  sequences that preserve each iteration's own order (a pick of a finished iteration or of a
  number out of range does nothing, so such stutters are harmless).  The *sequential* execution
  runs the iterations one after the other (`seqRun`).  Memory is a total function `C → V`.
  A non-atomic reduction is the two events `read c; write c (last + v)` — the footprint condition
  of C09 treats its cell the same way, so the atomic event loses nothing.

  The event sequence of an iteration is fixed, i.e. *which* cells are accessed does not depend on
  the values read; values written do.  This is LoopIR's situation: indices and conditions are
  control values, which can depend on memory only through configuration fields, and a
  configuration field written by one iteration and read by another is itself a conflict.

  Part II (traversal).  A literal model of `ParallelAnalysis` (src/exo/backend/parallel_analysis.py)
  on top of `LoopIR_Rewrite` (src/exo/core/LoopIR.py) over statement trees
        leaf | loop par? body | ite body orelse | call callee
  and of the part of `compile_to_strings` / `find_all_subprocs` that decides which procedures are
  analysed.  `checked` is the list of loops handed to `Check_ParallelizeLoop`;  `parLoops` is the
  list of all loops marked `Par`.  `ParallelAnalysis.map_s` falls off its end (returns `None`)
  for every statement and never calls `super().map_s`, therefore `LoopIR_Rewrite._map_list`
  only ever presents the top-level statements of the procedure to it.  `checkedFix` models the
  candidate repair `return super().map_s(s)`.
-/
namespace Exo.Par

/-! ## Part I — events, interleavings, sequential order -/

section Events
variable {C V : Type}

inductive Event (C V : Type) where
  | read (c : C)
  | write (c : C) (f : List V → V)
  | reduce (c : C) (f : List V → V)

/-- an iteration in progress: the values it has read so far (most recent first) and the events
    it still has to perform -/
structure Thread (C V : Type) where
  locals : List V
  evs : List (Event C V)

abbrev Mem (C V : Type) := C → V

def upd [DecidableEq C] (m : Mem C V) (c : C) (v : V) : Mem C V :=
  fun x => if x = c then v else m x

/-- one atomic event of an iteration with private values `l` -/
def stepEv [DecidableEq C] [Add V] (m : Mem C V) (l : List V) : Event C V → Mem C V × List V
  | .read c => (m, m c :: l)
  | .write c f => (upd m c (f l), l)
  | .reduce c f => (upd m c (m c + f l), l)

/-- an iteration run alone to its end -/
def solo [DecidableEq C] [Add V] (m : Mem C V) (l : List V) : List (Event C V) → Mem C V
  | [] => m
  | e :: r => solo (stepEv m l e).1 (stepEv m l e).2 r

/-- the sequential loop: iterations in order -/
def seqRun [DecidableEq C] [Add V] (m : Mem C V) : List (Thread C V) → Mem C V
  | [] => m
  | t :: ts => seqRun (solo m t.locals t.evs) ts

/-- iteration number `k` performs its next event (nothing happens if it has none / does not exist) -/
def stepAt [DecidableEq C] [Add V] (m : Mem C V) :
    List (Thread C V) → Nat → Mem C V × List (Thread C V)
  | [], _ => (m, [])
  | t :: ts, 0 =>
      match t.evs with
      | [] => (m, t :: ts)
      | e :: r => ((stepEv m t.locals e).1, ⟨(stepEv m t.locals e).2, r⟩ :: ts)
  | t :: ts, k + 1 => ((stepAt m ts k).1, t :: (stepAt m ts k).2)

/-- a parallel execution following a schedule -/
def run [DecidableEq C] [Add V] (m : Mem C V) (ts : List (Thread C V)) :
    List Nat → Mem C V × List (Thread C V)
  | [] => (m, ts)
  | k :: ks => run (stepAt m ts k).1 (stepAt m ts k).2 ks

def AllDone (ts : List (Thread C V)) : Prop := ∀ t ∈ ts, t.evs = []

/-- the schedule that runs the iterations one after the other: iteration `k`, `k+1`, … each
    picked as many times as it has events -/
def seqScheduleFrom (k : Nat) : List (Thread C V) → List Nat
  | [] => []
  | t :: ts => List.replicate t.evs.length k ++ seqScheduleFrom (k + 1) ts

def seqSchedule (ts : List (Thread C V)) : List Nat := seqScheduleFrom 0 ts

/-! footprints -/

def Event.cell : Event C V → C
  | .read c => c
  | .write c _ => c
  | .reduce c _ => c

/-- cells written or reduced -/
def wr : List (Event C V) → List C
  | [] => []
  | .read _ :: r => wr r
  | .write c _ :: r => c :: wr r
  | .reduce c _ :: r => c :: wr r

/-- cells read, written or reduced -/
def acc (evs : List (Event C V)) : List C := evs.map Event.cell

/-- C09's condition on a loop: for any two different iterations, nothing that one writes or reduces
    is read, written or reduced by the other -/
def RaceFree (ts : List (Thread C V)) : Prop :=
  ∀ (i j : Nat) (hi : i < ts.length) (hj : j < ts.length), i ≠ j →
    ∀ c, c ∈ wr ts[i].evs → c ∉ acc ts[j].evs

end Events

/-! ### footprints as data (what the harness measures), and the executable check -/

/-- per-iteration footprint: cells read, written, reduced -/
structure FP where
  rd : List Nat
  wrt : List Nat
  red : List Nat
deriving Repr, DecidableEq, Inhabited

def fpOf {V : Type} : List (Event Nat V) → FP
  | [] => ⟨[], [], []⟩
  | .read c :: r => let f := fpOf r; ⟨c :: f.rd, f.wrt, f.red⟩
  | .write c _ :: r => let f := fpOf r; ⟨f.rd, c :: f.wrt, f.red⟩
  | .reduce c _ :: r => let f := fpOf r; ⟨f.rd, f.wrt, c :: f.red⟩

def FP.w (f : FP) : List Nat := f.wrt ++ f.red
def FP.all (f : FP) : List Nat := f.rd ++ f.wrt ++ f.red

/-- first cell of `a`'s write/reduce set that `b` touches -/
def clash (a b : FP) : Option Nat := a.w.find? (fun c => b.all.contains c)

/-- first conflict of iteration `i` (footprint `a`) with the iterations `j, j+1, …` -/
def clashWith (i : Nat) (a : FP) : Nat → List FP → Option (Nat × Nat × Nat)
  | _, [] => none
  | j, b :: r =>
      if i = j then clashWith i a (j + 1) r else
      match clash a b with
      | some c => some (i, j, c)
      | none => clashWith i a (j + 1) r

def conflictFrom (all : List FP) : Nat → List FP → Option (Nat × Nat × Nat)
  | _, [] => none
  | i, a :: r =>
      match clashWith i a 0 all with
      | some x => some x
      | none => conflictFrom all (i + 1) r

/-- `none` iff the footprints are pairwise conflict-free in the sense of `RaceFree`;
    otherwise `(i, j, c)`: iteration `i` writes/reduces cell `c` that iteration `j ≠ i` touches -/
def conflict (fps : List FP) : Option (Nat × Nat × Nat) := conflictFrom fps 0 fps

def raceFreeB {V : Type} (ts : List (Thread Nat V)) : Bool :=
  (conflict (ts.map (fun t => fpOf t.evs))).isNone

/-! ## Part II — which loops `ParallelAnalysis` hands to `Check_ParallelizeLoop` -/

mutual
inductive S where
  | leaf : S                                   -- Assign, Reduce, WriteConfig, Pass, Alloc, WindowStmt
  | loop (par : Bool) (body : List S) : S      -- For with loop_mode Par / Seq
  | ite (body orelse : List S) : S             -- If
  | call (f : P) : S                           -- Call (the callee is embedded, as in LoopIR)
inductive P where
  | mk (name : String) (instr : Bool) (body : List S) : P
end

def P.name : P → String | .mk n _ _ => n
def P.instr : P → Bool | .mk _ i _ => i
def P.body : P → List S | .mk _ _ b => b

/-- position of a statement in a procedure: index in the body; below a loop the index in its
    body; below an `if` first 0 (body) or 1 (orelse), then the index -/
abbrev Path := List Nat

/-! ### specification side: every loop marked Par -/
mutual
def parLoopsS (here : Path) : S → List Path
  | .leaf => []
  | .loop par body => (if par then [here] else []) ++ parLoopsL here 0 body
  | .ite b e => parLoopsL (here ++ [0]) 0 b ++ parLoopsL (here ++ [1]) 0 e
  | .call _ => []
def parLoopsL (pre : Path) (k : Nat) : List S → List Path
  | [] => []
  | s :: r => parLoopsS (pre ++ [k]) s ++ parLoopsL pre (k + 1) r
end

def parLoops (p : P) : List Path := parLoopsL [] 0 p.body

/-! ### `LoopIR_Rewrite._map_list`, `map_stmts`, `map_proc` and `ParallelAnalysis.map_s`, literally.
    A visit function returns the loops it handed to the check and what `map_s` returned
    (`none` = Python `None`, "no change"). -/

abbrev Visit := Path → S → List Path × Option (List S)

/-- `_map_list(fn, nodes)`: calls `fn` on each node of the block, in order; result
    `(visited, new_stmts, needs_update)` -/
def mapList (f : Visit) (pre : Path) : Nat → List S → List Path × List S × Bool
  | _, [] => ([], [], false)
  | k, s :: r =>
      let h := f (pre ++ [k]) s
      let t := mapList f pre (k + 1) r
      match h.2 with
      | none => (h.1 ++ t.1, s :: t.2.1, t.2.2)
      | some l => (h.1 ++ t.1, l ++ t.2.1, true)

/-- `map_stmts` = `_map_list(self.map_s, stmts)`; `None` when nothing changed -/
def mapStmts (f : Visit) (pre : Path) (ss : List S) : List Path × Option (List S) :=
  let r := mapList f pre 0 ss
  (r.1, if r.2.2 then some r.2.1 else none)

/-- `ParallelAnalysis.map_s`: a `For` whose mode is `Par` is checked; in every case control
    falls off the end of the method, i.e. it returns `None` and does not call `super().map_s` -/
def mapS : Visit
  | here, .loop true _ => ([here], none)
  | _, _ => ([], none)

/-- `ParallelAnalysis.run(p)` = `apply_proc` = `map_proc`: `map_stmts(p.body)` with the overridden
    `map_s` (arguments and predicates contain no statements) -/
def checked (p : P) : List Path := (mapStmts mapS [] p.body).1

/-! ### the candidate repair: `map_s` ends with `return super().map_s(s)`.
    `LoopIR_Rewrite.map_s` recurses into `If.body`, `If.orelse`, `For.body` through
    `self.map_stmts`, i.e. back into the overriding `map_s`. -/
mutual
def mapSFix (here : Path) : S → List Path
  | .leaf => []
  | .loop par body => (if par then [here] else []) ++ mapListFix here 0 body
  | .ite b e => mapListFix (here ++ [0]) 0 b ++ mapListFix (here ++ [1]) 0 e
  | .call _ => []
def mapListFix (pre : Path) (k : Nat) : List S → List Path
  | [] => []
  | s :: r => mapSFix (pre ++ [k]) s ++ mapListFix pre (k + 1) r
end

def checkedFix (p : P) : List Path := mapListFix [] 0 p.body

/-! ### which procedures are analysed: `find_all_subprocs` + the loop of `compile_to_strings`.
    `LoopIR_SubProcs` collects the callees at any depth of a non-instruction procedure; `walk`
    continues into each of them.  (Order and duplicates do not matter: the result is used as a set.) -/
mutual
def reachS : S → List P
  | .leaf => []
  | .loop _ body => reachL body
  | .ite b e => reachL b ++ reachL e
  | .call f => reachP f
def reachL : List S → List P
  | [] => []
  | s :: r => reachS s ++ reachL r
def reachP : P → List P
  | .mk n i body => P.mk n i body :: (if i then [] else reachL body)
end

def procList (roots : List P) : List P := roots.flatMap reachP

/-- the (procedure name, loop) pairs that the analysis of one procedure hands to the check, for a
    traversal `chk`; instruction procedures are not compiled, hence not analysed -/
def checkedOf (chk : P → List Path) (p : P) : List (String × Path) :=
  if p.instr then [] else (chk p).map (fun l => (p.name, l))

/-- all (procedure name, loop) pairs handed to `Check_ParallelizeLoop` when every procedure of
    `procList roots` is analysed (which is the case whenever compilation succeeds) -/
def checkedProg (roots : List P) : List (String × Path) :=
  (procList roots).flatMap (checkedOf checked)

def checkedProgFix (roots : List P) : List (String × Path) :=
  (procList roots).flatMap (checkedOf checkedFix)

/-! the loop of `compile_to_strings` as it runs: procedures in the order of their names
    (`sorted(find_all_subprocs(..), key=name)`); `ParallelAnalysis.run` visits the whole procedure,
    collecting errors, and raises at its end if a handed loop was rejected (`rej`), which aborts
    the compilation — later procedures are not analysed. -/
def insertByName (p : P) : List P → List P
  | [] => [p]
  | q :: r => if p.name < q.name then p :: q :: r else q :: insertByName p r

def sortByName : List P → List P
  | [] => []
  | p :: r => insertByName p (sortByName r)

def runAnalyses (chk : P → List Path) (rej : String × Path → Bool) : List P → List (String × Path)
  | [] => []
  | p :: r => if (checkedOf chk p).any rej then checkedOf chk p
              else checkedOf chk p ++ runAnalyses chk rej r

def checkedRun (rej : String × Path → Bool) (roots : List P) : List (String × Path) :=
  runAnalyses checked rej (sortByName (procList roots))

def checkedRunFix (rej : String × Path → Bool) (roots : List P) : List (String × Path) :=
  runAnalyses checkedFix rej (sortByName (procList roots))

/-! `LoopIR_SubProcs`: the callees occurring in a block at any statement depth -/
mutual
def calleesS : S → List P
  | .leaf => []
  | .loop _ body => calleesL body
  | .ite b e => calleesL b ++ calleesL e
  | .call f => [f]
def calleesL : List S → List P
  | [] => []
  | s :: r => calleesS s ++ calleesL r
end

/-- all (procedure name, Par loop) pairs of the procedures that are compiled -/
def parLoopsProg (roots : List P) : List (String × Path) :=
  (procList roots).flatMap (checkedOf parLoops)

end Exo.Par
