/-
  ExoModel/Analyses.lean — literal executable models of the DECISIONS of the backend analyses that run
  in `compile_to_strings` before / during code generation (property C15):

    PrecisionAnalysis   src/exo/backend/prec_analysis.py   (`precE/precArgs/precS/precB`, `precProc`)
    WindowAnalysis      src/exo/backend/win_analysis.py    (`promoteArg`, `winArgs/winS/winB`)
    MemoryAnalysis      src/exo/backend/mem_analysis.py    (`memArgs/memS/memB`) — call-boundary check
    Compiler            src/exo/backend/LoopIR_compiler.py (`gateE/gateS/gateB`) — `can_read()` /
                        `mem.write` / `mem.reduce` / `mem.alloc` gates and `static_memory_check`

  over a small annotated IR.  What is kept of a LoopIR node is exactly what these passes look at:
  the name of the accessed buffer, the *type annotation stored on the node* (`ann`, only its
  window-ness / rank matters: `WindowAnalysis` reads `a.type.is_win()` of the argument NODE, not of the
  declaration), declarations with precision / memory / shape, callee signatures.  Index / size / bool
  sub-expressions are the single leaf `Expr.ctrl`.

  Quirks kept on purpose:
    * the precision of an assignment's right-hand side is NOT compared with the left-hand side
      (the compiler inserts a C cast);
    * `Extern` takes the type of its LAST non-`R` argument;
    * `WindowAnalysis` trusts the annotation on the argument node (stale after `set_window`);
    * `PrecisionAnalysis._types` and `Compiler.mems` are flat dictionaries, `MemoryAnalysis.mem_env`
      is a `ChainMap` popped at the end of `for` / `if` bodies;
    * `zip` truncation of argument lists;
    * precision errors are collected, window / memory / codegen errors raise at the first one.

  Capability / subclass / default-precision facts come from `ExoModel.Gen.Tables15` (regenerated from
  the Python objects on every run).
-/
import ExoModel.Gen.Tables15

namespace Exo.Analyses
open Exo.Gen.Tables15

abbrev Name := String

/-- shape part of a LoopIR type: real scalar, `T.Tensor(is_window=False)`, or a window
    (`T.Tensor(is_window=True)` of an argument, `T.Window` of a window expression) -/
inductive Shape where
  | scalar
  | dense (n : Nat)
  | win (n : Nat)
  deriving DecidableEq, Repr, Inhabited

/-- `t.is_win()` -/
def Shape.isWin : Shape → Bool
  | .win _ => true
  | _ => false

/-- `isinstance(t, T.Tensor) and not t.is_win()` -/
def Shape.isDense : Shape → Bool
  | .dense _ => true
  | _ => false

def Shape.ndim : Shape → Nat
  | .scalar => 0
  | .dense n => n
  | .win n => n

/-- annotation of an argument / allocation -/
structure Decl where
  prec : Prec
  mem : Mem
  shape : Shape
  deriving DecidableEq, Repr, Inhabited

inductive PTy where
  | ctrl                 -- size / index / bool / stride argument
  | data (d : Decl)
  deriving DecidableEq, Repr, Inhabited

structure Param where
  name : Name
  ty : PTy
  deriving DecidableEq, Repr, Inhabited

mutual
inductive Expr where
  | ctrl                                   -- any non-numeric (index / bool / stride) expression
  | const (p : Prec)                       -- numeric literal: type `R` (or what a rewrite stored)
  | read (x : Name) (ann : Shape)          -- `x[i,…]` / `x`; `ann` = shape of the node's `.type`
  | window (x : Name) (ann : Shape)        -- `x[lo:hi,…]`
  | usub (e : Expr)
  | binop (l r : Expr)                     -- numeric `+ - * /`
  | extern (args : Args)
  deriving Repr
inductive Args where
  | nil
  | cons (e : Expr) (rest : Args)
  deriving Repr
end

/-- what the passes use of `s.f` -/
structure Callee where
  name : Name
  params : List Param
  /-- parameters in `get_writes_of_stmts(f.body)` -/
  writes : List Name
  instr : Bool
  deriving Repr, Inhabited

mutual
inductive Stmt where
  | pass
  | assign (x : Name) (rhs : Expr)
  | reduce (x : Name) (rhs : Expr)
  | call (f : Callee) (args : Args)
  | for_ (body : Block)
  | if_ (body orelse : Block)
  | alloc (x : Name) (d : Decl) (shp : AllocShape)
  | windowStmt (x : Name) (rhs : Expr)
  deriving Repr
inductive Block where
  | nil
  | cons (s : Stmt) (rest : Block)
  deriving Repr
end

structure Proc where
  name : Name
  params : List Param
  body : Block
  instr : Bool
  deriving Repr

/-! ## environments -/

abbrev Env := List (Name × Decl)

def lookup : Env → Name → Option Decl
  | [], _ => none
  | (y, d) :: r, x => if x = y then some d else lookup r x

def keys (Γ : Env) : List Name := Γ.map Prod.fst

/-- data parameters, later ones first (dict insertion: a later duplicate overwrites) -/
def paramEnv : List Param → Env → Env
  | [], acc => acc
  | ⟨x, .data d⟩ :: r, acc => paramEnv r ((x, d) :: acc)
  | ⟨_, .ctrl⟩ :: r, acc => paramEnv r acc

def Args.toList : Args → List Expr
  | .nil => []
  | .cons e r => e :: r.toList

/-- name of the buffer of a `Read` / `WindowExpr` (`get_e_mem` asserts on anything else) -/
def argName : Expr → Option Name
  | .read x _ => some x
  | .window x _ => some x
  | _ => none

/-- type bound to `w` by `w = rhs` : precision / memory of the base buffer, shape of the node -/
def aliasDecl (Γ : Env) : Expr → Option Decl
  | .read x ann => (lookup Γ x).map fun d => { d with shape := ann }
  | .window x ann => (lookup Γ x).map fun d => { d with shape := ann }
  | _ => none

/-- `R` is spliced to the default precision -/
def dflt (p : Prec) : Prec := if p = Prec.R then defaultPrec else p

/-! ## error classes -/

inductive Err where
  | precision (n : Nat)     -- TypeError "Errors occurred during precision checking" with n lines
  | window                  -- TypeError "expected a non-window tensor"
  | memory                  -- TypeError "expected argument in M but got an argument in M'"
  | read                    -- MemGenError "cannot read from buffer"
  | write                   -- MemGenError "cannot write to buffer"
  | reduce                  -- MemGenError "cannot reduce to buffer"
  | alloc                   -- MemGenError raised by `mem.alloc`
  | staticMem               -- MemGenError "Cannot generate static memory in non-leaf procs"
  | dupName                 -- TypeError "multiple procs named"
  | crash                   -- AssertionError / KeyError (ill-formed input)
  deriving DecidableEq, Repr, Inhabited

/-! ## PrecisionAnalysis -/

inductive ETy where
  | err                             -- T.err
  | ctrl
  | data (p : Prec) (s : Shape)
  deriving DecidableEq, Repr, Inhabited

inductive PErr where
  | binop        -- "cannot compute operation … between inconsistent precision types"
  | extern       -- "all extern arguments must have a same type"
  | call         -- "expected precision … but got …"
  | crash        -- assertion / KeyError
  deriving DecidableEq, Repr, Inhabited

/-- `t == T.err or t.is_real_scalar()` -/
def ETy.scalarOrErr : ETy → Bool
  | .err => true
  | .data _ .scalar => true
  | _ => false

def ETy.isR : ETy → Bool
  | .data .R .scalar => true
  | _ => false

/-- the `BinOp` case of `map_e` -/
def binTy (a b : ETy) : ETy × List PErr :=
  if !(a.scalarOrErr && b.scalarOrErr) then (.err, [.crash])
  else match a, b with
    | .data p _, .data q _ =>
        if p = .R ∧ q = .R then (.data .R .scalar, [])
        else if p = .R then (b, [])
        else if q = .R then (a, [])
        else if p ≠ q then (.err, [.binop])
        else (a, [])
    | _, _ => (.err, [])

/-- `typ = T.R; for a in args: if a.type != T.R: typ = a.type` -/
def externTy : List ETy → ETy → ETy
  | [], acc => acc
  | t :: r, acc => externTy r (if t.isR then acc else t)

/-- one error per argument whose type differs from `typ` and is not `R` -/
def externErrs (typ : ETy) : List ETy → List PErr
  | [] => []
  | t :: r => (if t ≠ typ ∧ !t.isR then [PErr.extern] else []) ++ externErrs typ r

mutual
def precE (Γ : Env) : Expr → ETy × List PErr
  | .ctrl => (.ctrl, [])
  | .const p => (.data p .scalar, [])
  | .read x ann =>
      match lookup Γ x with
      | some d => (.data (dflt d.prec) ann, [])
      | none => (.err, [.crash])
  | .window x ann =>
      match lookup Γ x with
      | some d => (.data (dflt d.prec) ann, [])
      | none => (.err, [.crash])
  | .usub e =>
      let r := precE Γ e
      if r.1.scalarOrErr then r else (.err, r.2 ++ [.crash])
  | .binop l r =>
      let a := precE Γ l
      let b := precE Γ r
      let t := binTy a.1 b.1
      (t.1, a.2 ++ b.2 ++ t.2)
  | .extern as =>
      let r := precArgs Γ as
      let typ := externTy r.1 (.data .R .scalar)
      (typ, r.2 ++ externErrs typ r.1)
def precArgs (Γ : Env) : Args → List ETy × List PErr
  | .nil => ([], [])
  | .cons e r =>
      let a := precE Γ e
      let b := precArgs Γ r
      (a.1 :: b.1, a.2 ++ b.2)
end

/-- `for call_a, sig_a in zip(args, s.f.args)`: `st.is_numeric() and st != ct` -/
def callErrs : List ETy → List Param → List PErr
  | t :: ts, ⟨_, .data d⟩ :: ps =>
      (match t with
       | .data p _ => if p = dflt d.prec then [] else [PErr.call]
       | _ => [PErr.call]) ++ callErrs ts ps
  | _ :: ts, ⟨_, .ctrl⟩ :: ps => callErrs ts ps
  | _, _ => []

/-- `set_type`: `assert name not in self._types` -/
def bindNew (Γ : Env) (x : Name) (d : Decl) : Env × List PErr :=
  if (lookup Γ x).isSome then ((x, d) :: Γ, [.crash]) else ((x, d) :: Γ, [])

mutual
def precS (Γ : Env) : Stmt → Env × List PErr
  | .pass => (Γ, [])
  | .assign x rhs =>
      let r := precE Γ rhs
      match lookup Γ x with
      | some d => (Γ, r.2 ++ (if dflt d.prec = .R then [PErr.crash] else []))
      | none => (Γ, r.2 ++ [.crash])
  | .reduce x rhs =>
      let r := precE Γ rhs
      match lookup Γ x with
      | some d => (Γ, r.2 ++ (if dflt d.prec = .R then [PErr.crash] else []))
      | none => (Γ, r.2 ++ [.crash])
  | .call f args =>
      let r := precArgs Γ args
      (Γ, r.2 ++ callErrs r.1 f.params)
  | .for_ b => precB Γ b
  | .if_ b1 b2 =>
      let r1 := precB Γ b1
      let r2 := precB r1.1 b2
      (r2.1, r1.2 ++ r2.2)
  | .alloc x d _ => bindNew Γ x d
  | .windowStmt x rhs =>
      let r := precE Γ rhs
      match aliasDecl Γ rhs with
      | some d =>
          let b := bindNew Γ x d
          (b.1, r.2 ++ b.2)
      | none => (Γ, r.2 ++ [.crash])
def precB (Γ : Env) : Block → Env × List PErr
  | .nil => (Γ, [])
  | .cons s r =>
      let a := precS Γ s
      let b := precB a.1 r
      (b.1, a.2 ++ b.2)
end

/-- `PrecisionAnalysis().run(p)` : the collected errors (a `crash` aborts immediately in Python);
    `map_fnarg` → `set_type` asserts that no argument name is bound twice -/
def precProc (p : Proc) : List PErr :=
  (if (keys (paramEnv p.params [])).Nodup then [] else [PErr.crash]) ++ (precB (paramEnv p.params []) p.body).2

def precVerdict (errs : List PErr) : Except Err Unit :=
  if errs.contains .crash then .error .crash
  else if errs.isEmpty then .ok ()
  else .error (.precision errs.length)

/-! ## WindowAnalysis -/

/-- `a.type.is_win()` of the argument node -/
def argIsWin : Expr → Bool
  | .read _ ann => ann.isWin
  | .window _ _ => true
  | _ => false

/-- `promote_arg` -/
def promoteArg (p : Param) (a : Expr) : Except Err Expr :=
  match p.ty with
  | .ctrl => .ok a
  | .data d =>
      if d.shape.isWin && !argIsWin a then
        match a with
        | .read x (.dense (n + 1)) => .ok (.window x (.win (n + 1)))
        | _ => .error .crash                 -- asserts of `promote_tensor`
      else if d.shape.isDense && argIsWin a then .error .window
      else .ok a

/-- `[promote_arg(a, sa) for a, sa in zip(args, s.f.args)]` -/
def winArgs : Args → List Param → Except Err Args
  | .cons a r, p :: ps => do
      let a' ← promoteArg p a
      let r' ← winArgs r ps
      pure (.cons a' r')
  | _, _ => pure .nil

mutual
def winS : Stmt → Except Err Stmt
  | .call f args => do
      let a ← winArgs args f.params
      pure (.call f a)
  | .for_ b => do
      let b' ← winB b
      pure (.for_ b')
  | .if_ b1 b2 => do
      let b1' ← winB b1
      let b2' ← winB b2
      pure (.if_ b1' b2')
  | s => pure s
def winB : Block → Except Err Block
  | .nil => pure .nil
  | .cons s r => do
      let s' ← winS s
      let r' ← winB r
      pure (.cons s' r')
end

/-! ## MemoryAnalysis (call-boundary check; `mem_env` is a ChainMap) -/

def memArgs (Γ : Env) : Args → List Param → Except Err Unit
  | .cons a r, ⟨_, .data d⟩ :: ps =>
      match argName a with
      | none => .error .crash
      | some x =>
          match lookup Γ x with
          | none => .error .crash
          | some dx => if dx.mem.subclass d.mem then memArgs Γ r ps else .error .memory
  | .cons _ r, ⟨_, .ctrl⟩ :: ps => memArgs Γ r ps
  | _, _ => .ok ()

mutual
/-- returns the environment of the CURRENT scope after the statement -/
def memS (Γ : Env) : Stmt → Except Err Env
  | .windowStmt x rhs =>
      match aliasDecl Γ rhs with
      | some d => .ok ((x, d) :: Γ)
      | none => .error .crash
  | .call f args => do
      memArgs Γ args f.params
      pure Γ
  | .for_ b => do
      let _ ← memB Γ b
      pure Γ
  | .if_ b1 b2 => do
      let _ ← memB Γ b1
      let _ ← memB Γ b2
      pure Γ
  | .alloc x d _ => .ok ((x, d) :: Γ)
  | _ => .ok Γ
def memB (Γ : Env) : Block → Except Err Env
  | .nil => .ok Γ
  | .cons s r => do
      let Γ' ← memS Γ s
      memB Γ' r
end

/-! ## Compiler : capability gates on direct accesses -/

mutual
/-- `comp_e` -/
def gateE (Γ : Env) : Expr → Except Err Unit
  | .ctrl => .ok ()
  | .const _ => .ok ()
  | .read x _ =>
      match lookup Γ x with
      | none => .error .crash
      | some d => if d.mem.canRead then .ok () else .error .read
  | .window x _ =>
      match lookup Γ x with
      | none => .error .crash
      | some _ => .ok ()
  | .usub e => gateE Γ e
  | .binop l r => do
      gateE Γ l
      gateE Γ r
  | .extern as => gateArgs Γ as
def gateArgs (Γ : Env) : Args → Except Err Unit
  | .nil => .ok ()
  | .cons e r => do
      gateE Γ e
      gateArgs Γ r
end

/-- `comp_fnarg` : whole buffers are passed by name, no `can_read` check -/
def gateCallArg (Γ : Env) : Expr → Except Err Unit
  | .read x _ =>
      match lookup Γ x with
      | none => .error .crash
      | some _ => .ok ()
  | e => gateE Γ e

def gateCallArgs (Γ : Env) : Args → Except Err Unit
  | .nil => .ok ()
  | .cons e r => do
      gateCallArg Γ e
      gateCallArgs Γ r

def paramIsWin (p : Param) : Bool :=
  match p.ty with
  | .ctrl => false
  | .data d => d.shape.isWin

/-- `assert all(a.type.is_win() == fna.type.is_win() for a, fna in zip(s.args, s.f.args))` -/
def winAgree : Args → List Param → Bool
  | .cons a r, p :: ps => (argIsWin a == paramIsWin p) && winAgree r ps
  | _, _ => true

mutual
def gateS (Γ : Env) : Stmt → Except Err Env
  | .pass => .ok Γ
  | .assign x rhs =>
      match lookup Γ x with
      | none => .error .crash
      | some d => do
          gateE Γ rhs
          if d.mem.canWrite then pure Γ else .error .write
  | .reduce x rhs =>
      match lookup Γ x with
      | none => .error .crash
      | some d => do
          gateE Γ rhs
          if d.mem.canReduce then pure Γ else .error .reduce
  | .call f args =>
      if !winAgree args f.params then .error .crash
      else do
        gateCallArgs Γ args
        pure Γ
  | .for_ b => gateB Γ b
  | .if_ b1 b2 => do
      let Γ1 ← gateB Γ b1
      gateB Γ1 b2
  | .alloc x d shp =>
      if d.mem.allocOk (dflt d.prec) shp then .ok ((x, d) :: Γ) else .error .alloc
  | .windowStmt x rhs =>
      match aliasDecl Γ rhs with
      | some d => .ok ((x, d) :: Γ)
      | none => .error .crash
def gateB (Γ : Env) : Block → Except Err Env
  | .nil => .ok Γ
  | .cons s r => do
      let Γ' ← gateS Γ s
      gateB Γ' r
end

/-! `static_memory_check` -/
mutual
def allocsStaticS : Stmt → Bool
  | .alloc _ d _ => d.mem.isStatic
  | .for_ b => allocsStaticB b
  | .if_ b1 b2 => allocsStaticB b1 || allocsStaticB b2
  | _ => false
def allocsStaticB : Block → Bool
  | .nil => false
  | .cons s r => allocsStaticS s || allocsStaticB r
end

mutual
def isLeafS : Stmt → Bool
  | .call f _ => f.instr
  | .for_ b => isLeafB b
  | .if_ b1 b2 => isLeafB b1 && isLeafB b2
  | _ => true
def isLeafB : Block → Bool
  | .nil => true
  | .cons s r => isLeafS s && isLeafB r
end

/-! ## the per-procedure pipeline of `compile_to_strings` -/

def precStage (p : Proc) : Except Err Unit := precVerdict (precProc p)
def winStage (p : Proc) : Except Err Block := winB p.body
def memStage (p : Proc) (b : Block) : Except Err Unit := (memB (paramEnv p.params []) b).map fun _ => ()
def gateStage (p : Proc) (b : Block) : Except Err Unit :=
  if allocsStaticB b && !isLeafB b then .error .staticMem
  else (gateB (paramEnv p.params []) b).map fun _ => ()

/-- PrecisionAnalysis → WindowAnalysis → MemoryAnalysis → Compiler, first error wins -/
def analyzeProc (p : Proc) : Except Err Unit :=
  if p.instr then .ok () else do
    precStage p
    let b ← winStage p
    memStage p b
    gateStage p b

/-- insertion sort by name (`sorted(find_all_subprocs(proc_list), key=lambda x: x.name)`, stable) -/
def insertByName (p : Proc) : List Proc → List Proc
  | [] => [p]
  | q :: r => if q.name < p.name then q :: insertByName p r else p :: q :: r

def sortByName : List Proc → List Proc
  | [] => []
  | p :: r => insertByName p (sortByName r)

inductive Verdict where
  | ok
  | err (proc : Name) (e : Err)
  deriving DecidableEq, Repr, Inhabited

def analyzeSorted : List Proc → List Name → Verdict
  | [], _ => .ok
  | p :: r, seen =>
      if seen.contains p.name then .err p.name .dupName
      else match analyzeProc p with
        | .ok _ => analyzeSorted r (p.name :: seen)
        | .error e => .err p.name e

/-- the verdict of `compile_to_strings` on the call-graph closure `ps` -/
def analyses (ps : List Proc) : Verdict := analyzeSorted (sortByName ps) []

/-! ## window struct types (fragment of code generation used by part (a)) -/

/-- `_window_struct(...).name` -/
def structName (short : String) (ndims : Nat) (isConst : Bool) : String :=
  "exo_win_" ++ toString ndims ++ short ++ (if isConst then "c" else "")

/-- the `Call` case of `GetWrites.do_s` -/
def callWrites (wd : List (Name × Name)) : Args → List Param → List Name → List Name
  | .cons a r, p :: ps, ws =>
      (if ws.contains p.name then
        match argName a with
        | some x => [(wd.lookup x).getD x]
        | none => []
       else []) ++ callWrites wd r ps ws
  | _, _, _ => []

mutual
/-- `get_writes_of_stmts`: buffers written (window names translated to the base buffer) -/
def writesS (wd : List (Name × Name)) : Stmt → List Name × List (Name × Name)
  | .assign x _ => ([(wd.lookup x).getD x], wd)
  | .reduce x _ => ([(wd.lookup x).getD x], wd)
  | .call f args => (callWrites wd args f.params f.writes, wd)
  | .windowStmt w rhs =>
      match argName rhs with
      | some b => ([], (w, (wd.lookup b).getD b) :: wd)
      | none => ([], wd)
  | .for_ b => writesB wd b
  | .if_ b1 b2 =>
      let r1 := writesB wd b1
      let r2 := writesB r1.2 b2
      (r1.1 ++ r2.1, r2.2)
  | _ => ([], wd)
def writesB (wd : List (Name × Name)) : Block → List Name × List (Name × Name)
  | .nil => ([], wd)
  | .cons s r =>
      let a := writesS wd s
      let b := writesB a.2 r
      (a.1 ++ b.1, b.2)
end

def procWrites (p : Proc) : List Name := (writesB [] p.body).1

/-- struct type of a window PARAMETER `p` of a procedure whose write set is `writes`
    (`Compiler.__init__` : `get_window_type(a)`, const iff `a.name not in self.non_const`) -/
def paramStruct (writes : List Name) (p : Param) : Option String :=
  match p.ty with
  | .data d => (dflt d.prec).winShort.map fun s => structName s d.shape.ndim (!writes.contains p.name)
  | .ctrl => none

/-- struct type of the compound literal emitted for a `WindowExpr` ARGUMENT `x[…]` at a call of `f`
    (`comp_fnarg` : const iff the callee does not write the parameter) -/
def windowArgStruct (Γ : Env) (f : Callee) (p : Param) (x : Name) (ann : Shape) : Option String :=
  (lookup Γ x).bind fun d =>
    (dflt d.prec).winShort.map fun s => structName s ann.ndim (!f.writes.contains p.name)

end Exo.Analyses
