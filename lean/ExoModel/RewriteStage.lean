/-
  ExoModel.RewriteStage — the pieces `DoStageMem` builds (src/exo/rewrite/LoopIR_scheduling.py):
  the index arithmetic of the staged accesses (`rewrite_idx`, `rewrite_win`), the shape of the
  staging buffer, the copy-in / copy-out loop nests, and the block with EVERY access to the buffer
  redirected to the staging buffer (`stageL`; the real code decides per access with an SMT query
  whether it lies in the window — always: redirect, never: leave, otherwise: error).
  The `Local` (block length, which nests exist, safety guards, per-access decisions read off the
  output) is in ExoModel/RewriteStorage.lean.
-/
import ExoModel.Rewrite

namespace Exo.Rw
open Exo

/-- `rewrite_idx`: `[i - lo  for (i, w) in zip(idx, w_exprs) if w is an interval]` -/
def stageIdx : List WAcc → List Expr → List Expr
  | .interval lo _ :: w, i :: idx => .binop .sub i lo :: stageIdx w idx
  | .point _ :: w, _ :: idx => stageIdx w idx
  | _, _ => []

/-- extents of the staging buffer: `hi - lo` per interval dimension (none: a scalar) -/
def stageShape : List WAcc → List Expr
  | .interval lo hi :: w => .binop .sub hi lo :: stageShape w
  | .point _ :: w => stageShape w
  | [] => []

/-- `rewrite_win`: every coordinate of a window expression of the buffer is shifted by the lower
    end (resp. the point) of the staged window in that dimension — ALL coordinates are kept -/
def stageWin : List WAcc → List WAcc → List WAcc
  | we :: w, wi :: acc =>
    let off : Expr := match we with | .interval lo _ => lo | .point p => p
    (match wi with
     | .interval a b => WAcc.interval (.binop .sub a off) (.binop .sub b off)
     | .point a => WAcc.point (.binop .sub a off)) :: stageWin w acc
  | _, _ => []

/-- `load_ridx` / `store_widx`: `i_k + lo` in interval dimensions, the point itself otherwise -/
def stageRIdx : List WAcc → List Sym → List Expr
  | .interval lo _ :: w, i :: is => .binop .add (.read i []) lo :: stageRIdx w is
  | .point e :: w, is => e :: stageRIdx w is
  | _, _ => []

/-- `for i_0 in seq(0, n_0): … for i_k in seq(0, n_k): inner` (outermost = first dimension) -/
def loopNest : List Sym → List Expr → List Stmt → List Stmt
  | i :: is, n :: ns, inner => [.loop i (.lit (.int 0)) n (loopNest is ns inner) false]
  | _, _, inner => inner

/-- `insert_safety_guards`: the innermost statement wrapped in `if cond:` when the bounds of the
    access to the original buffer could not be proved -/
def guarded (g : Option Expr) (s : Stmt) : List Stmt :=
  match g with
  | some c => [.ite c [s] []]
  | none => [s]

def iterReads (iters : List Sym) : List Expr := iters.map (fun i => .read i [])

/-- copy-in nest: `xs[i…] = x[i… + lo]` (`accum`: `xs[i…] = 0.0`) -/
def stageLoad (x xs : Sym) (w : List WAcc) (iters : List Sym) (accum : Bool) (g : Option Expr) :
    List Stmt :=
  loopNest iters (stageShape w)
    (guarded g (.assign xs (iterReads iters)
      (if accum then .lit (.data 0 1) else .read x (stageRIdx w iters))))

/-- copy-out nest: `x[i… + lo] = xs[i…]` (`accum`: `+=`) -/
def stageStore (x xs : Sym) (w : List WAcc) (iters : List Sym) (accum : Bool) (g : Option Expr) :
    List Stmt :=
  loopNest iters (stageShape w)
    (guarded g ((if accum then Stmt.reduce else Stmt.assign) x (stageRIdx w iters)
      (.read xs (iterReads iters))))

mutual
/-- every access to `x` redirected to `xs` -/
def stageE (x xs : Sym) (w : List WAcc) : Expr → Expr
  | .read y idx =>
    if y == x then .read xs (stageIdx w (stageEs x xs w idx)) else .read y (stageEs x xs w idx)
  | .lit c => .lit c
  | .usub a => .usub (stageE x xs w a)
  | .binop o a b => .binop o (stageE x xs w a) (stageE x xs w b)
  | .extern f args => .extern f (stageEs x xs w args)
  | .win y acc =>
    if y == x then .win xs (stageWin w (stageWs x xs w acc)) else .win y (stageWs x xs w acc)
  | .stride y d => .stride y d
  | .readcfg c f => .readcfg c f
def stageEs (x xs : Sym) (w : List WAcc) : List Expr → List Expr
  | [] => []
  | a :: r => stageE x xs w a :: stageEs x xs w r
def stageW (x xs : Sym) (w : List WAcc) : WAcc → WAcc
  | .interval a b => .interval (stageE x xs w a) (stageE x xs w b)
  | .point a => .point (stageE x xs w a)
def stageWs (x xs : Sym) (w : List WAcc) : List WAcc → List WAcc
  | [] => []
  | a :: r => stageW x xs w a :: stageWs x xs w r
end

mutual
def stageS (x xs : Sym) (w : List WAcc) : Stmt → Stmt
  | .assign y idx rhs =>
    if y == x then .assign xs (stageIdx w (stageEs x xs w idx)) (stageE x xs w rhs)
    else .assign y (stageEs x xs w idx) (stageE x xs w rhs)
  | .reduce y idx rhs =>
    if y == x then .reduce xs (stageIdx w (stageEs x xs w idx)) (stageE x xs w rhs)
    else .reduce y (stageEs x xs w idx) (stageE x xs w rhs)
  | .writecfg c f rhs d => .writecfg c f (stageE x xs w rhs) d
  | .pass => .pass
  | .ite c t el => .ite (stageE x xs w c) (stageL x xs w t) (stageL x xs w el)
  | .loop i lo hi b par => .loop i (stageE x xs w lo) (stageE x xs w hi) (stageL x xs w b) par
  | .alloc y sh => .alloc y sh
  | .free y => .free y
  | .call f args => .call f (stageEs x xs w args)
  | .window y rhs => .window y (stageE x xs w rhs)
def stageL (x xs : Sym) (w : List WAcc) : List Stmt → List Stmt
  | [] => []
  | s :: r => stageS x xs w s :: stageL x xs w r
end

/-- the staged block when every access is redirected: allocation, optional copy-in, the block
    (first `n` statements of the suffix) redirected, optional copy-out, the rest unchanged -/
def stageMemAll (x xs : Sym) (w : List WAcc) (n : Nat) (iters : List Sym) (accum : Bool)
    (load store : Bool) (gl gs : Option Expr) : Local := fun ss =>
  some (.alloc xs (stageShape w) ::
    ((if load then stageLoad x xs w iters accum gl else []) ++ stageL x xs w (ss.take n) ++
     (if store then stageStore x xs w iters accum gs else []) ++ ss.drop n))

end Exo.Rw
