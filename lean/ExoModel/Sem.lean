/-
  ExoModel.Sem — reference semantics of LoopIR (the repository has no interpreter; this is the
  specification of "behaves" used by C01–C05, C08–C10, C12, C17, C19, and at the same time the
  executable oracle run by the driver).

  * data values: an abstract type `V` with ring-like operations (`DataAlg`); `Option V` with
    `none` = uninitialised (poison; propagates, never an error)
  * control values: `Int` (booleans are 0/1); `/` and `%` are Lean's floor division / modulo
  * every tensor, window, scalar is a `View` into a heap buffer
  * allocation is scoped: a block pops what it pushed (`State.leave`)
  * monitors are the constructors of `Err`
-/
import ExoModel.Syntax

namespace Exo

class DataAlg (V : Type) where
  ofRat : Int → Nat → V
  add : V → V → V
  sub : V → V → V
  mul : V → V → V
  div : V → V → V
  neg : V → V

inductive Err
  | oob | assertFail | badLoop | nonPosSize | shapeMismatch | alias | scope | unsupported | divZero
deriving DecidableEq, Repr, Inhabited

instance : ToString Err := ⟨fun e => match e with
  | .oob => "oob" | .assertFail => "assertFail" | .badLoop => "badLoop"
  | .nonPosSize => "nonPosSize" | .shapeMismatch => "shapeMismatch" | .alias => "alias"
  | .scope => "scope" | .unsupported => "unsupported" | .divZero => "divZero"⟩

/-- a strided view into heap buffer `buf`; `dims` = (extent, stride) per dimension -/
structure View where
  buf : Nat
  off : Int
  dims : List (Int × Int)
deriving DecidableEq, Repr, Inhabited

inductive CfgVal (V : Type)
  | ctrl (n : Int)
  | data (v : Option V)
deriving Inhabited

structure State (V : Type) where
  env : List (Sym × Int)
  views : List (Sym × View)
  heap : List (List (Option V))
  cfg : List ((String × String) × CfgVal V)

variable {V : Type}

def lookupSym {α : Type} (x : Sym) : List (Sym × α) → Option α
  | [] => none
  | (y, v) :: r => if x = y then some v else lookupSym x r

def lookupCfg {α : Type} (k : String × String) : List ((String × String) × α) → Option α
  | [] => none
  | (k', v) :: r => if k = k' then some v else lookupCfg k r

def setCfg {α : Type} (k : String × String) (v : α) :
    List ((String × String) × α) → List ((String × String) × α)
  | [] => [(k, v)]
  | (k', v') :: r => if k = k' then (k, v) :: r else (k', v') :: setCfg k v r

def State.bind (σ : State V) (x : Sym) (v : Int) : State V := { σ with env := (x, v) :: σ.env }
def State.bindView (σ : State V) (x : Sym) (v : View) : State V :=
  { σ with views := (x, v) :: σ.views }

/-- leave a scope entered in state `σin`: names and buffers introduced since are dropped,
    contents of the surviving buffers and the configuration are kept -/
def State.leave (σin σout : State V) : State V :=
  { env := σin.env, views := σin.views, heap := σout.heap.take σin.heap.length, cfg := σout.cfg }

def b2i (b : Bool) : Int := if b then 1 else 0

def ctrlOp (op : BinOp) (x y : Int) : Except Err Int :=
  match op with
  | .add => pure (x + y)
  | .sub => pure (x - y)
  | .mul => pure (x * y)
  | .div => if y ≤ 0 then throw .divZero else pure (x / y)
  | .mod => if y ≤ 0 then throw .divZero else pure (x % y)
  | .lt => pure (b2i (x < y))
  | .gt => pure (b2i (x > y))
  | .le => pure (b2i (x ≤ y))
  | .ge => pure (b2i (x ≥ y))
  | .eq => pure (b2i (x = y))
  | .and => pure (b2i (x ≠ 0 ∧ y ≠ 0))
  | .or => pure (b2i (x ≠ 0 ∨ y ≠ 0))

/-- control evaluation -/
def evalC (σ : State V) : Expr → Except Err Int
  | .read x [] => match lookupSym x σ.env with
      | some v => pure v
      | none => throw .scope
  | .read _ (_ :: _) => throw .unsupported
  | .lit (.int n) => pure n
  | .lit (.bool b) => pure (b2i b)
  | .lit (.data _ _) => throw .unsupported
  | .usub e => do let v ← evalC σ e; pure (-v)
  | .binop op a b => do
      let x ← evalC σ a
      let y ← evalC σ b
      ctrlOp op x y
  | .stride x d => match lookupSym x σ.views with
      | some v => match v.dims[d]? with
          | some (_, s) => pure s
          | none => throw .unsupported
      | none => throw .scope
  | .readcfg c f => match lookupCfg (c, f) σ.cfg with
      | some (.ctrl n) => pure n
      | some (.data _) => throw .unsupported
      | none => throw .scope
  | .extern _ _ => throw .unsupported
  | .win _ _ => throw .unsupported

def evalCs (σ : State V) : List Expr → Except Err (List Int)
  | [] => pure []
  | e :: r => do let v ← evalC σ e; let vs ← evalCs σ r; pure (v :: vs)

/-- linear offset of an index tuple in a view (bounds-checked per dimension) -/
def viewOffset : List (Int × Int) → List Int → Int → Except Err Int
  | [], [], acc => pure acc
  | (ext, st) :: ds, i :: is, acc =>
      if 0 ≤ i ∧ i < ext then viewOffset ds is (acc + i * st) else throw .oob
  | _, _, _ => throw .unsupported

def cellOf (heap : List (List (Option V))) (v : View) (is : List Int) : Except Err (Nat × Nat) := do
  let o ← viewOffset v.dims is v.off
  match heap[v.buf]? with
  | none => throw .scope
  | some b => if 0 ≤ o ∧ o < b.length then pure (v.buf, o.toNat) else throw .oob

def heapGet (heap : List (List (Option V))) (c : Nat × Nat) : Option V :=
  match heap[c.1]? with
  | some b => (b[c.2]?).join
  | none => none

def heapSet (heap : List (List (Option V))) (c : Nat × Nat) (v : Option V) :
    List (List (Option V)) :=
  heap.modify c.1 (fun b => b.set c.2 v)

def lift2 (f : V → V → V) : Option V → Option V → Option V
  | some a, some b => some (f a b)
  | _, _ => none

def allSome : List (Option V) → Option (List V)
  | [] => some []
  | none :: _ => none
  | some v :: r => (allSome r).map (v :: ·)

section
variable [DataAlg V] (ext : String → List V → V)

def dataOp (op : BinOp) (x y : Option V) : Except Err (Option V) :=
  match op with
  | .add => pure (lift2 DataAlg.add x y)
  | .sub => pure (lift2 DataAlg.sub x y)
  | .mul => pure (lift2 DataAlg.mul x y)
  | .div => pure (lift2 DataAlg.div x y)
  | _ => throw .unsupported

mutual
/-- data evaluation (`none` = poison) -/
def evalD (σ : State V) : Expr → Except Err (Option V)
  | .read x idx => match lookupSym x σ.views with
      | some v => do
          let is ← evalCs σ idx
          let c ← cellOf σ.heap v is
          pure (heapGet σ.heap c)
      | none => throw .scope
  | .lit (.data n d) => pure (some (DataAlg.ofRat n d))
  | .lit (.int n) => pure (some (DataAlg.ofRat n 1))
  | .lit (.bool _) => throw .unsupported
  | .usub e => do let v ← evalD σ e; pure (v.map DataAlg.neg)
  | .binop op a b => do
      let x ← evalD σ a
      let y ← evalD σ b
      dataOp op x y
  | .extern f args => do
      let vs ← evalDs σ args
      pure ((allSome vs).map (ext f))
  | .readcfg c f => match lookupCfg (c, f) σ.cfg with
      | some (.data v) => pure v
      | some (.ctrl _) => throw .unsupported
      | none => throw .scope
  | .win _ _ => throw .unsupported
  | .stride _ _ => throw .unsupported
def evalDs (σ : State V) : List Expr → Except Err (List (Option V))
  | [] => pure []
  | e :: r => do let v ← evalD σ e; let vs ← evalDs σ r; pure (v :: vs)
end

/-- apply window accesses to the dimensions of a view -/
def applyAcc (σ : State V) : List WAcc → List (Int × Int) → Int →
    Except Err (Int × List (Int × Int))
  | [], [], off => pure (off, [])
  | .point e :: as, (ext, st) :: ds, off => do
      let i ← evalC σ e
      if 0 ≤ i ∧ i < ext then applyAcc σ as ds (off + i * st) else throw .oob
  | .interval lo hi :: as, (ext, st) :: ds, off => do
      let l ← evalC σ lo
      let h ← evalC σ hi
      if 0 ≤ l ∧ l ≤ h ∧ h ≤ ext then do
        let (o, r) ← applyAcc σ as ds (off + l * st)
        pure (o, (h - l, st) :: r)
      else throw .oob
  | _, _, _ => throw .unsupported

/-- a numeric call argument / window right-hand side denotes a view -/
def evalView (σ : State V) : Expr → Except Err View
  | .read x [] => match lookupSym x σ.views with
      | some v => pure v
      | none => throw .scope
  | .read x idx => match lookupSym x σ.views with
      | some v => do
          let is ← evalCs σ idx
          let o ← viewOffset v.dims is v.off
          pure { buf := v.buf, off := o, dims := [] }
      | none => throw .scope
  | .win x acc => match lookupSym x σ.views with
      | some v => do
          let (o, ds) ← applyAcc σ acc v.dims v.off
          pure { buf := v.buf, off := o, dims := ds }
      | none => throw .scope
  | _ => throw .unsupported

def denseDims : List Int → List (Int × Int)
  | [] => []
  | e :: r => let ds := denseDims r
              (e, (r.foldl (· * ·) 1)) :: ds

def checkSizes : List Int → Except Err Unit
  | [] => pure ()
  | e :: r => if e ≤ 0 then throw .nonPosSize else checkSizes r

/-- bind actuals to formals: control values first into `cenv`, views into `cviews` -/
def bindArgs (σ : State V) : List FnArg → List Expr → List (Sym × Int) → List (Sym × View) →
    Except Err (List (Sym × Int) × List (Sym × View))
  | [], [], ce, cv => pure (ce, cv)
  | ⟨x, .ctrl k⟩ :: fs, a :: as, ce, cv => do
      let v ← evalC σ a
      if k = .size ∧ v ≤ 0 then throw .nonPosSize
      bindArgs σ fs as ((x, v) :: ce) cv
  | ⟨x, _⟩ :: fs, a :: as, ce, cv => do
      let v ← evalView σ a
      bindArgs σ fs as ce ((x, v) :: cv)
  | _, _, _, _ => throw .unsupported

/-- declared shapes of tensor formals must equal the extents of the bound views -/
def checkShapes (σc : State V) : List FnArg → Except Err Unit
  | [] => pure ()
  | ⟨x, .tensor shape _⟩ :: fs => do
      let sh ← evalCs σc shape
      match lookupSym x σc.views with
      | some v => if v.dims.map (·.1) = sh then checkShapes σc fs else throw .shapeMismatch
      | none => throw .scope
  | ⟨x, .scalar⟩ :: fs =>
      match lookupSym x σc.views with
      | some v => if v.dims = [] then checkShapes σc fs else throw .shapeMismatch
      | none => throw .scope
  | _ :: fs => checkShapes σc fs

def checkPreds (σc : State V) : List Expr → Except Err Unit
  | [] => pure ()
  | p :: ps => do
      let v ← evalC σc p
      if v = 0 then throw .assertFail else checkPreds σc ps

def noAlias : List (Sym × View) → Bool
  | [] => true
  | (_, v) :: r => r.all (fun w => w.2.buf ≠ v.buf) && noAlias r

def writeCell (σ : State V) (x : Sym) (idx : List Expr) (f : Option V → Option V) :
    Except Err (State V) :=
  match lookupSym x σ.views with
  | some v => do
      let is ← evalCs σ idx
      let c ← cellOf σ.heap v is
      pure { σ with heap := heapSet σ.heap c (f (heapGet σ.heap c)) }
  | none => throw .scope

/-- run `f lo`, `f (lo+1)`, …, `f (lo+n-1)` in sequence -/
def iterate (f : Int → State V → Except Err (State V)) : Nat → Int → State V → Except Err (State V)
  | 0, _, σ => pure σ
  | n + 1, lo, σ => do
      let σ' ← f lo σ
      iterate f n (lo + 1) σ'

mutual
def execS : Stmt → State V → Except Err (State V)
  | .assign x idx rhs, σ => do
      let v ← evalD ext σ rhs
      writeCell σ x idx (fun _ => v)
  | .reduce x idx rhs, σ => do
      let v ← evalD ext σ rhs
      writeCell σ x idx (fun old => lift2 DataAlg.add old v)
  | .writecfg c f rhs isData, σ =>
      if isData then do
        let v ← evalD ext σ rhs
        pure { σ with cfg := setCfg (c, f) (.data v) σ.cfg }
      else do
        let v ← evalC σ rhs
        pure { σ with cfg := setCfg (c, f) (.ctrl v) σ.cfg }
  | .pass, σ => pure σ
  | .ite c t e, σ => do
      let b ← evalC σ c
      if b ≠ 0 then (execL t σ).map (State.leave σ) else (execL e σ).map (State.leave σ)
  | .loop i lo hi body _, σ => do
      let l ← evalC σ lo
      let h ← evalC σ hi
      if h < l then throw .badLoop
      iterate (fun v s => (execL body (s.bind i v)).map (State.leave s)) (h - l).toNat l σ
  | .alloc x shape, σ => do
      let sh ← evalCs σ shape
      checkSizes sh
      let n := (sh.foldl (· * ·) 1).toNat
      pure { σ with heap := σ.heap ++ [List.replicate n none],
                    views := (x, { buf := σ.heap.length, off := 0, dims := denseDims sh }) :: σ.views }
  | .free _, σ => pure σ
  | .call f args, σ => execP f args σ
  | .window x rhs, σ => do
      let v ← evalView σ rhs
      pure (σ.bindView x v)
def execL : List Stmt → State V → Except Err (State V)
  | [], σ => pure σ
  | s :: r, σ => do
      let σ' ← execS s σ
      execL r σ'
def execP : Proc → List Expr → State V → Except Err (State V)
  | .mk _ fargs preds body, args, σ => do
      let (ce, cv) ← bindArgs σ fargs args [] []
      if !noAlias cv then throw .alias
      let σc : State V := { env := ce, views := cv, heap := σ.heap, cfg := σ.cfg }
      checkShapes σc fargs
      checkPreds σc preds
      let σ' ← execL body σc
      pure (State.leave σ σ')
end

/-- run a block in a fresh scope -/
def execB (ss : List Stmt) (σ : State V) : Except Err (State V) :=
  (execL ext ss σ).map (State.leave σ)

end

end Exo
