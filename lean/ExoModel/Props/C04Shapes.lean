/-
  Property C04 (a), continued — static well-formedness is preserved by EVERY modelled rewrite
  shape of ExoModel/Rewrite.lean and ExoModel/RewriteMore.lean, applied at any address of a
  well-formed body, under explicit syntactic hypotheses on the rewrite site; every hypothesis is
  shown to be needed by a kernel-checked counter-example.  Also: a well-formed program never
  fails on scoping when the configuration state holds every field it reads (`wf_noScope_cfg`).

  Conventions.  `siteAt path Γ body = some (Γs, site)`: the path addresses the block suffix
  `site`, whose static environment is `Γs`.  `…Ok Γs site` is the decidable side condition of the
  shape (definitions in Lemmas/WfShapes1.lean, Lemmas/WfShapes2.lean).  After each theorem,
  `hyps … = true` instantiates ALL its hypotheses on a concrete program (non-vacuity), and
  `breaks … = true` exhibits a well-formed program on which the rewrite applies but returns an
  ill-formed body when the named hypothesis is dropped.
-/
import ExoModel.Props.C04
import ExoModel.Lemmas.WfShapes5
import ExoModel.Lemmas.WfTieSound
import ExoModel.Lemmas.WfShapesAlpha
import ExoModel.Lemmas.WfCfg

set_option linter.unusedSectionVars false
namespace Exo.C04
open Exo Exo.Wf Exo.Rw Exo.WfShapes

/-! ### the lifting theorem -/

/-- a shape whose local result is well formed under the site condition `Ok` preserves
    well-formedness of the whole body when applied at any path whose site satisfies `Ok` -/
theorem shape_wf_anywhere (f : Local) (Ok : Env → List Stmt → Bool)
    (hloc : ∀ Γ ss r, f ss = some r → Ok Γ ss = true → (wfL Γ ss).isSome = true →
      (wfL Γ r).isSome = true)
    (path : Path) (Γ Γs : Env) (body body' site : List Stmt)
    (h : rewriteAt f path body = some body') (hw : (wfL Γ body).isSome = true)
    (hs : siteAt path Γ body = some (Γs, site)) (hok : Ok Γs site = true) :
    (wfL Γ body').isSome = true :=
  rewriteAt_wf_of_site f path Γ Γs body body' site h hw hs (fun r hr hsw => hloc Γs site r hr hok hsw)

/-- … and the procedure with the rewritten body is well formed -/
theorem proc_wf_of_body (n : String) (args : List FnArg) (preds : List Expr) (body body' : List Stmt)
    (hp : wfP (.mk n args preds body) = true)
    (hb : (wfL (formalsEnv args) body').isSome = true) : wfP (.mk n args preds body') = true := by
  simp only [wfP, Bool.and_eq_true] at hp ⊢
  exact ⟨hp.1, hb⟩

/-- all hypotheses of a `…_wf_anywhere` theorem, as one decidable check -/
def hyps (f : Local) (Ok : Env → List Stmt → Bool) (path : Path) (Γ : Env) (body : List Stmt) : Bool :=
  (rewriteAt f path body).isSome && (wfL Γ body).isSome &&
    match siteAt path Γ body with
    | some (Γs, site) => Ok Γs site
    | none => false

/-- the rewrite applies to a well-formed body and returns an ill-formed one -/
def breaks (f : Local) (path : Path) (Γ : Env) (body : List Stmt) : Bool :=
  (wfL Γ body).isSome &&
    match rewriteAt f path body with
    | some body' => !(wfL Γ body').isSome
    | none => false

/-- `hyps` is exactly the conjunction of the hypotheses -/
theorem wf_of_hyps (f : Local) (Ok : Env → List Stmt → Bool)
    (hloc : ∀ Γ ss r, f ss = some r → Ok Γ ss = true → (wfL Γ ss).isSome = true →
      (wfL Γ r).isSome = true)
    (path : Path) (Γ : Env) (body : List Stmt) (h : hyps f Ok path Γ body = true) :
    ∃ body', rewriteAt f path body = some body' ∧ (wfL Γ body').isSome = true := by
  simp only [hyps, Bool.and_eq_true] at h
  obtain ⟨⟨h1, h2⟩, h3⟩ := h
  obtain ⟨body', hb⟩ := Option.isSome_iff_exists.1 h1
  split at h3
  · rename_i Γs site hs
    exact ⟨body', hb, shape_wf_anywhere f Ok hloc path Γ Γs body body' site hb h2 hs h3⟩
  · cases h3

/-! ### concrete programs used by the examples

    `n` a size, `a`, `y` one-dimensional buffers; loops `i`, `j`; `x`, `t` local buffers. -/

def sN : Sym := ⟨"n", 1⟩
def sA : Sym := ⟨"a", 2⟩
def sY : Sym := ⟨"y", 3⟩
def sI : Sym := ⟨"i", 4⟩
def sJ : Sym := ⟨"j", 5⟩
def sX : Sym := ⟨"x", 6⟩
def sW : Sym := ⟨"w", 7⟩
def sIo : Sym := ⟨"io", 8⟩
def sIi : Sym := ⟨"ii", 9⟩
def sI3 : Sym := ⟨"i3", 10⟩
def sK : Sym := ⟨"k", 11⟩
def sT : Sym := ⟨"t", 12⟩

def Γ0 : Env := [(sN, none), (sA, some 1), (sY, some 1)]
def rd (x : Sym) : Expr := .read x []
def num (k : Int) : Expr := .lit (.int k)
def one : Expr := .lit (.data 1 1)

/-- `t : f32[i+1]; w = a[i:i+2]; t[0] = w[1]; y[i] = t[0]` — a body with an allocation whose
    extent mentions the iterator and a window whose interval mentions it -/
def richBody (i : Sym) : List Stmt :=
  [.alloc sT [.binop .add (rd i) (num 1)],
   .window sW (.win sA [.interval (rd i) (.binop .add (rd i) (num 2))]),
   .assign sT [num 0] (.read sW [num 1]),
   .assign sY [rd i] (.read sT [num 0])]

/-- `y[i] = 1.0` -/
def plainBody (i : Sym) : List Stmt := [.assign sY [rd i] one]

/-- non-vacuity of `proc_wf_of_body`: a procedure `p(n : size, a : f32[n], y : f32[n])` -/
example : formalsEnv [⟨sN, .ctrl .size⟩, ⟨sA, .tensor [rd sN] false⟩, ⟨sY, .tensor [rd sN] false⟩] = Γ0 ∧
    wfP (.mk "p" [⟨sN, .ctrl .size⟩, ⟨sA, .tensor [rd sN] false⟩, ⟨sY, .tensor [rd sN] false⟩]
      [.binop .gt (rd sN) (num 0)] [.loop sI (num 0) (rd sN) (richBody sI) false]) = true := by decide

/-! ### join_loops — no side condition, same names in scope afterwards -/

/-- `join_loops` at any address keeps the body well formed -/
theorem join_loops_wf_anywhere (path : Path) (Γ Γ' : Env) (body body' : List Stmt)
    (h : rewriteAt joinLoops path body = some body') (hw : wfL Γ body = some Γ') :
    wfL Γ body' = some Γ' :=
  rewrite_at_address_wf joinLoops joinLoops_wfLocal path Γ Γ' body body' h hw

example : (rewriteAt joinLoops [.body 0, .body 0]
      [.ite (.binop .gt (rd sN) (num 0))
        [.loop sI (num 0) (num 4) (richBody sI) false,
         .loop sJ (num 4) (rd sN) (richBody sJ) false] []]).isSome = true ∧
    (wfL Γ0 [.ite (.binop .gt (rd sN) (num 0))
        [.loop sI (num 0) (num 4) (richBody sI) false,
         .loop sJ (num 4) (rd sN) (richBody sJ) false] []]).isSome = true := by decide

/-! ### eliminate_dead_code -/

/-- hypothesis: no name the kept branch defines at top level is bound again in the statements
    that follow the `if` (it would be declared twice once the branch is spliced) -/
theorem dead_code_wf_anywhere (keepThen : Bool) (path : Path) (Γ Γs : Env)
    (body body' site : List Stmt) (h : rewriteAt (deadCode keepThen) path body = some body')
    (hw : (wfL Γ body).isSome = true) (hs : siteAt path Γ body = some (Γs, site))
    (hok : deadCodeOk keepThen site = true) : (wfL Γ body').isSome = true :=
  shape_wf_anywhere _ (fun _ => deadCodeOk keepThen)
    (fun Γ ss r hr ho hw => deadCode_local keepThen Γ ss r hr ho hw) path Γ Γs body body' site h hw hs hok

example : hyps (deadCode true) (fun _ => deadCodeOk true) [.body 0, .body 0] Γ0
    [.loop sI (num 0) (rd sN)
      [.ite (.binop .lt (rd sI) (rd sN)) (richBody sI) [.pass], .assign sY [rd sI] one] false] = true := by
  decide

/-- needed: the branch defines `x`, a later sibling loop allocates the same `x` -/
example : breaks (deadCode true) [.body 0] Γ0
    [.ite (.binop .gt (rd sN) (num 0)) [.alloc sX []] [],
     .loop sI (num 0) (rd sN) [.alloc sX []] false] = true := by decide

/-! ### remove_loop -/

/-- hypotheses: the iterator does not occur in the body; for the unguarded form, no name the
    body defines at top level is bound again in the statements after the loop -/
theorem remove_loop_wf_anywhere (guarded : Bool) (path : Path) (Γ Γs : Env)
    (body body' site : List Stmt) (h : rewriteAt (removeLoop guarded) path body = some body')
    (hw : (wfL Γ body).isSome = true) (hs : siteAt path Γ body = some (Γs, site))
    (hok : removeLoopOk guarded site = true) : (wfL Γ body').isSome = true :=
  shape_wf_anywhere _ (fun _ => removeLoopOk guarded)
    (fun Γ ss r hr ho hw => removeLoop_local guarded Γ ss r hr ho hw) path Γ Γs body body' site h hw hs hok

example : hyps (removeLoop false) (fun _ => removeLoopOk false) [.body 0, .body 0] Γ0
    [.loop sJ (num 0) (rd sN) [.loop sI (num 0) (rd sN) (richBody sJ) false, .pass] false] = true := by
  decide
example : hyps (removeLoop true) (fun _ => removeLoopOk true) [.body 0, .body 0] Γ0
    [.loop sJ (num 0) (rd sN) [.loop sI (num 0) (rd sN) (richBody sJ) false, .pass] false] = true := by
  decide

/-- needed: the iterator occurs in the body (here in an allocation extent and a window) -/
example : breaks (removeLoop false) [.body 0] Γ0 [.loop sI (num 0) (rd sN) (richBody sI) false] = true := by
  decide
example : breaks (removeLoop true) [.body 0] Γ0 [.loop sI (num 0) (rd sN) (richBody sI) false] = true := by
  decide
/-- needed (unguarded): the body allocates `x`, a later sibling loop allocates the same `x` -/
example : breaks (removeLoop false) [.body 0] Γ0
    [.loop sI (num 0) (rd sN) [.alloc sX []] false,
     .loop sJ (num 0) (rd sN) [.alloc sX []] false] = true := by decide

/-! ### add_loop -/

/-- hypotheses: the new iterator is fresh in the site's environment and not bound inside the
    wrapped statement, the bound is a well-formed control expression, and the statements AFTER the
    wrapped one are well formed without what it defines (the new loop closes the scope of an
    allocation or window statement) — by `add_loop_rest_condition_exact` this holds iff they
    mention no name the wrapped statement defines -/
theorem add_loop_wf_anywhere (i : Sym) (hi : Expr) (guard : Bool) (path : Path) (Γ Γs : Env)
    (body body' site : List Stmt) (h : rewriteAt (addLoop i hi guard) path body = some body')
    (hw : (wfL Γ body).isSome = true) (hs : siteAt path Γ body = some (Γs, site))
    (hok : addLoopOk Γs i hi site = true) : (wfL Γ body').isSome = true :=
  shape_wf_anywhere _ (fun Γ => addLoopOk Γ i hi)
    (fun Γ ss r hr ho hw => addLoop_local i hi guard Γ ss r hr ho hw) path Γ Γs body body' site h hw hs hok

/-- the last hypothesis of `add_loop_wf_anywhere` / `specialize_wf_anywhere` in syntactic form,
    and it is exact: the statements after `s` are well formed without `s`'s definition iff they
    mention no name `s` defines -/
theorem add_loop_rest_condition_exact (Γ : Env) (s : Stmt) (rest : List Stmt)
    (hw : (wfL Γ (s :: rest)).isSome = true) :
    (wfL Γ rest).isSome = true ↔ disj (defName s) (symsL rest) = true :=
  addLoop_rest_iff hw

/-- wrapping a DEFINITION is fine when nothing after it mentions the name (here: the last
    allocation of a block) -/
example : hyps (addLoop sK (rd sN) false) (fun Γ => addLoopOk Γ sK (rd sN)) [.body 0, .body 1] Γ0
    [.loop sI (num 0) (rd sN) [.assign sY [rd sI] one, .alloc sX [rd sI]] false] = true := by decide

example : hyps (addLoop sK (rd sN) false) (fun Γ => addLoopOk Γ sK (rd sN)) [.body 0, .body 2] Γ0
    [.loop sI (num 0) (rd sN) (richBody sI) false] = true := by decide
example : hyps (addLoop sK (rd sI) true) (fun Γ => addLoopOk Γ sK (rd sI)) [.body 0, .body 2] Γ0
    [.loop sI (num 0) (rd sN) (richBody sI) false] = true := by decide

/-- needed: wrapping the ALLOCATION (or the window statement) hides it from its later uses —
    the real `add_loop` accepts this (the recorded finding `add_loop:wraps-definition-used-later`) -/
example : breaks (addLoop sK (num 4) false) [.body 0, .body 0] Γ0
    [.loop sI (num 0) (rd sN) (richBody sI) false] = true := by decide
example : breaks (addLoop sK (num 4) true) [.body 0, .body 1] Γ0
    [.loop sI (num 0) (rd sN) (richBody sI) false] = true := by decide
/-- needed: the iterator must be fresh (here `i` is re-used inside its own loop) -/
example : breaks (addLoop sI (num 4) false) [.body 0, .body 3] Γ0
    [.loop sI (num 0) (rd sN) (richBody sI) false] = true := by decide
/-- needed: the new iterator must not be bound inside the wrapped statement -/
example : breaks (addLoop sK (num 4) false) [.body 0] Γ0
    [.loop sK (num 0) (rd sN) (plainBody sK) false] = true := by decide
/-- needed: the bound must be well formed where the loop is put (`j` is not in scope) -/
example : breaks (addLoop sK (rd sJ) false) [.body 0, .body 3] Γ0
    [.loop sI (num 0) (rd sN) (richBody sI) false] = true := by decide

/-! ### fission -/

/-- hypotheses: the second iterator is fresh in the site's environment and the second loop's body
    (a parameter: the tail of the body with the iterator renamed) is well formed under it -/
theorem fission_wf_anywhere (k : Nat) (i2 : Sym) (second : List Stmt) (path : Path) (Γ Γs : Env)
    (body body' site : List Stmt) (h : rewriteAt (fissionLoop k i2 second) path body = some body')
    (hw : (wfL Γ body).isSome = true) (hs : siteAt path Γ body = some (Γs, site))
    (hok : fissionLoopOk Γs i2 second site = true) : (wfL Γ body').isSome = true :=
  shape_wf_anywhere _ (fun Γ => fissionLoopOk Γ i2 second)
    (fun Γ ss r hr ho hw => fissionLoop_local k i2 second Γ ss r hr ho hw) path Γ Γs body body' site h hw hs hok

/-- the body the real primitive gives the second loop — the tail with the iterator renamed — is
    well formed **iff-style condition**: as soon as the tail alone is well formed in the loop's
    environment, i.e. it uses NOTHING THE HEAD DEFINES (allocation or window) -/
theorem fission_second_ok (Γ : Env) (i i2 : Sym) (b : List Stmt) (k : Nat)
    (htail : (wfL ((i, none) :: Γ) (b.drop k)).isSome = true) (hi2 : lookup i2 Γ = none)
    (hb : i2 ∉ bindL (b.drop k)) :
    (wfL ((i2, none) :: Γ) (substL i (.read i2 []) (b.drop k))).isSome = true :=
  fission_second_wf k htail hi2 hb

example : (wfL ((sI, none) :: Γ0) ((plainBody sI ++ plainBody sI).drop 1)).isSome = true ∧
    lookup sJ Γ0 = none ∧ sJ ∉ bindL ((plainBody sI ++ plainBody sI).drop 1) := by decide

example : hyps (fissionLoop 1 sJ (substL sI (rd sJ) [.assign sY [rd sI] one]))
    (fun Γ => fissionLoopOk Γ sJ (substL sI (rd sJ) [.assign sY [rd sI] one])) [.body 0, .body 0] Γ0
    [.ite (.binop .gt (rd sN) (num 0))
      [.loop sI (num 0) (rd sN) [.assign sA [rd sI] one, .assign sY [rd sI] one] false] []] = true := by
  decide
example : (wfL ((sI, none) :: Γ0) ((richBody sI).drop 3)).isSome = false ∧
    (wfL ((sI, none) :: Γ0) ((plainBody sI ++ plainBody sI).drop 1)).isSome = true := by decide

/-- needed: the head defines the window `w` (and the buffer `t`) that the tail uses — the real
    `fission` accepts the window case (NEW finding `fission:window-defined-in-first-part-used-in-second`) -/
example : breaks (fissionLoop 2 sJ (substL sI (rd sJ) ((richBody sI).drop 2))) [.body 0] Γ0
    [.loop sI (num 0) (rd sN) (richBody sI) false] = true := by decide

/-- needed: the second iterator must be fresh at the loop (`n` is a size in scope) -/
example : breaks (fissionLoop 1 sN [.assign sY [rd sN] one]) [.body 0] Γ0
    [.loop sI (num 0) (rd sN) [.assign sA [rd sI] one, .assign sY [rd sI] one] false] = true := by decide

/-! ### fuse -/

/-- hypotheses (loops): the appended body (a parameter: the second body with its iterator replaced
    by the first loop's) is well formed under the first iterator and binds none of the names the
    first body defines at top level -/
theorem fuse_loops_wf_anywhere (body2 : List Stmt) (path : Path) (Γ Γs : Env)
    (body body' site : List Stmt) (h : rewriteAt (fuseLoops body2) path body = some body')
    (hw : (wfL Γ body).isSome = true) (hs : siteAt path Γ body = some (Γs, site))
    (hok : fuseLoopsOk Γs body2 site = true) : (wfL Γ body').isSome = true :=
  shape_wf_anywhere _ (fun Γ => fuseLoopsOk Γ body2)
    (fun Γ ss r hr ho hw => fuseLoops_local body2 Γ ss r hr ho hw) path Γ Γs body body' site h hw hs hok

/-- for the body the real primitive appends the side condition follows from: the first iterator
    is not bound in the second body, and the second body binds none of the first body's
    top-level definitions -/
theorem fuse_loops_real_ok (Γ : Env) (i i2 : Sym) (lo hi lo2 hi2 : Expr) (b b2 rest : List Stmt)
    (par par2 : Bool)
    (hw : (wfL Γ (.loop i lo hi b par :: .loop i2 lo2 hi2 b2 par2 :: rest)).isSome = true)
    (hib : i ∉ bindL b2) (hd : disj (defNames b) (bindL b2) = true) :
    fuseLoopsOk Γ (substL i2 (.read i []) b2)
      (.loop i lo hi b par :: .loop i2 lo2 hi2 b2 par2 :: rest) = true :=
  fuse_body2_ok hw hib hd

example : (wfL Γ0 [.loop sI (num 0) (rd sN) (richBody sI) false,
      .loop sJ (num 0) (rd sN) (plainBody sJ) false]).isSome = true ∧
    sI ∉ bindL (plainBody sJ) ∧ disj (defNames (richBody sI)) (bindL (plainBody sJ)) = true := by decide

example : hyps (fuseLoops (substL sJ (rd sI) (plainBody sJ)))
    (fun Γ => fuseLoopsOk Γ (substL sJ (rd sI) (plainBody sJ))) [.body 0] Γ0
    [.loop sI (num 0) (rd sN) (richBody sI) false, .loop sJ (num 0) (rd sN) (plainBody sJ) false] = true := by
  decide

/-- needed: both bodies allocate the same `t` / `w` (a body fused with a copy of itself) -/
example : breaks (fuseLoops (substL sJ (rd sI) (richBody sJ))) [.body 0] Γ0
    [.loop sI (num 0) (rd sN) (richBody sI) false, .loop sJ (num 0) (rd sN) (richBody sJ) false] = true := by
  decide

/-- hypotheses (ifs): the second `then`/`else` block binds none of the names the first one
    defines at top level -/
theorem fuse_ifs_wf_anywhere (path : Path) (Γ Γs : Env) (body body' site : List Stmt)
    (h : rewriteAt fuseIfs path body = some body') (hw : (wfL Γ body).isSome = true)
    (hs : siteAt path Γ body = some (Γs, site)) (hok : fuseIfsOk site = true) :
    (wfL Γ body').isSome = true :=
  shape_wf_anywhere _ (fun _ => fuseIfsOk)
    (fun Γ ss r hr ho hw => fuseIfs_local Γ ss r hr ho hw) path Γ Γs body body' site h hw hs hok

example : hyps fuseIfs (fun _ => fuseIfsOk) [.body 0, .body 0] Γ0
    [.loop sI (num 0) (rd sN)
      [.ite (.binop .lt (rd sI) (num 2)) (richBody sI) [],
       .ite (.binop .lt (rd sI) (num 2)) (plainBody sI) [.pass]] false] = true := by decide
example : breaks fuseIfs [.body 0] Γ0
    [.ite (.binop .lt (rd sN) (num 2)) [.alloc sX []] [],
     .ite (.binop .lt (rd sN) (num 2)) [.alloc sX []] []] = true := by decide

/-! ### shift_loop -/

/-- hypothesis: the new lower bound is a well-formed control expression at the loop.  The
    substitution `i ↦ i + (lo - nlo)` reaches extents, windows and nested statements
    (`wfL_tr`). -/
theorem shift_loop_wf_anywhere (nlo : Expr) (path : Path) (Γ Γs : Env)
    (body body' site : List Stmt) (h : rewriteAt (shiftLoop nlo) path body = some body')
    (hw : (wfL Γ body).isSome = true) (hs : siteAt path Γ body = some (Γs, site))
    (hok : shiftLoopOk Γs nlo site = true) : (wfL Γ body').isSome = true :=
  shape_wf_anywhere _ (fun Γ => shiftLoopOk Γ nlo)
    (fun Γ ss r hr ho hw => shiftLoop_local nlo Γ ss r hr ho hw) path Γ Γs body body' site h hw hs hok

example : hyps (shiftLoop (rd sJ)) (fun Γ => shiftLoopOk Γ (rd sJ)) [.body 0, .body 0] Γ0
    [.loop sJ (num 0) (rd sN) [.loop sI (num 1) (rd sN) (richBody sI) false] false] = true := by decide
/-- needed: the new bound mentions a name that is not in scope at the loop -/
example : breaks (shiftLoop (rd sJ)) [.body 0] Γ0
    [.loop sI (num 1) (rd sN) (richBody sI) false] = true := by decide

/-! ### divide_loop, four tail strategies -/

/-- hypotheses: `io`, `ii` fresh in the site's environment, distinct, not bound in the body;
    perfect: the outer bound is a well-formed control expression; cut / cut_and_guard: `i3` fresh
    and not bound in the copy, the copy (a parameter: the renamed body) well formed under the old
    iterator.  The substitutions `i ↦ q*io+ii` and `i ↦ i3 + hi/q*q` reach every control position
    of the body, allocation extents included. -/
theorem divide_loop_wf_anywhere (q tail : Nat) (io ii i3 : Sym) (ohi : Expr) (copy : List Stmt)
    (path : Path) (Γ Γs : Env) (body body' site : List Stmt)
    (h : rewriteAt (divideLoop q tail io ii i3 ohi copy) path body = some body')
    (hw : (wfL Γ body).isSome = true) (hs : siteAt path Γ body = some (Γs, site))
    (hok : divideLoopOk Γs tail io ii i3 ohi copy site = true) : (wfL Γ body').isSome = true :=
  shape_wf_anywhere _ (fun Γ => divideLoopOk Γ tail io ii i3 ohi copy)
    (fun Γ ss r hr ho hw => divideLoop_local q tail io ii i3 ohi copy Γ ss r hr ho hw)
    path Γ Γs body body' site h hw hs hok

/-- the renamed copy of `richBody` used by the tail loop (fresh names for `t` and `w`) -/
def richCopy (i : Sym) : List Stmt :=
  [.alloc ⟨"t", 20⟩ [.binop .add (rd i) (num 1)],
   .window ⟨"w", 21⟩ (.win sA [.interval (rd i) (.binop .add (rd i) (num 2))]),
   .assign ⟨"t", 20⟩ [num 0] (.read ⟨"w", 21⟩ [num 1]),
   .assign sY [rd i] (.read ⟨"t", 20⟩ [num 0])]

def divBody : List Stmt :=
  [.loop sJ (num 0) (rd sN) [.loop sI (num 0) (rd sN) (richBody sI) false, .pass] false]

example : hyps (divideLoop 4 0 sIo sIi sI3 (.binop .div (rd sN) (num 4)) (richCopy sI))
    (fun Γ => divideLoopOk Γ 0 sIo sIi sI3 (.binop .div (rd sN) (num 4)) (richCopy sI))
    [.body 0, .body 0] Γ0 divBody = true := by decide
example : hyps (divideLoop 4 1 sIo sIi sI3 (num 0) (richCopy sI))
    (fun Γ => divideLoopOk Γ 1 sIo sIi sI3 (num 0) (richCopy sI)) [.body 0, .body 0] Γ0 divBody = true := by
  decide
example : hyps (divideLoop 4 2 sIo sIi sI3 (num 0) (richCopy sI))
    (fun Γ => divideLoopOk Γ 2 sIo sIi sI3 (num 0) (richCopy sI)) [.body 0, .body 0] Γ0 divBody = true := by
  decide
example : hyps (divideLoop 4 3 sIo sIi sI3 (num 0) (richCopy sI))
    (fun Γ => divideLoopOk Γ 3 sIo sIi sI3 (num 0) (richCopy sI)) [.body 0, .body 0] Γ0 divBody = true := by
  decide

/-- needed: `io` must be fresh (here the enclosing iterator `j` is re-used) -/
example : breaks (divideLoop 4 1 sJ sIi sI3 (num 0) (richCopy sI)) [.body 0, .body 0] Γ0 divBody = true := by
  decide
/-- needed: `io ≠ ii` -/
example : breaks (divideLoop 4 1 sIo sIo sI3 (num 0) (richCopy sI)) [.body 0, .body 0] Γ0 divBody = true := by
  decide
/-- needed: `io` must not be bound in the body (the body has its own loop over `io`) -/
example : breaks (divideLoop 4 1 sIo sIi sI3 (num 0) []) [.body 0] Γ0
    [.loop sI (num 0) (rd sN) [.loop sIo (num 0) (rd sI) (plainBody sIo) false] false] = true := by decide
/-- needed (cut): `i3` must be fresh at the loop -/
example : breaks (divideLoop 4 2 sIo sIi sN (num 0) (richCopy sI)) [.body 0, .body 0] Γ0 divBody = true := by
  decide
/-- needed (perfect): the outer bound must be well formed at the loop -/
example : breaks (divideLoop 4 0 sIo sIi sI3 (rd sI) (richCopy sI)) [.body 0, .body 0] Γ0 divBody = true := by
  decide
/-- needed (cut): the copy must be well formed under the old iterator (here it mentions `io`,
    which is not in scope in the tail loop) -/
example : breaks (divideLoop 4 2 sIo sIi sI3 (num 0) (plainBody sIo)) [.body 0, .body 0] Γ0 divBody = true := by
  decide

/-- what the defect of the real code amounted to: substituting everywhere EXCEPT in allocation
    extents leaves the old iterator unbound — the block below is the divided `richBody` with the
    extent of `t` left as `i + 1` -/
example :
    (wfL ((sIi, none) :: (sIo, none) :: Γ0) (substL sI (dividedIdx 4 sIo sIi) (richBody sI))).isSome = true ∧
    (wfL ((sIi, none) :: (sIo, none) :: Γ0)
      (.alloc sT [.binop .add (rd sI) (num 1)] ::
        (substL sI (dividedIdx 4 sIo sIi) (richBody sI)).drop 1)).isSome = false := by decide

/-! ### unroll_loop -/

/-- hypothesis: the body defines nothing at top level.  `Rw.unrollLoop` does NOT rename the
    copies, so with a top-level allocation or window the copies would declare the same name
    again and again; the real primitive alpha-renames every copy (and the C01 tie compares up
    to renaming), so for such bodies the model output is ill formed while the real one is not —
    well-formedness of the real output then follows from `alpha_wfL` only for bodies without
    top-level definitions. -/
theorem unroll_loop_wf_anywhere (path : Path) (Γ Γs : Env) (body body' site : List Stmt)
    (h : rewriteAt unrollLoop path body = some body') (hw : (wfL Γ body).isSome = true)
    (hs : siteAt path Γ body = some (Γs, site)) (hok : unrollLoopOk site = true) :
    (wfL Γ body').isSome = true :=
  shape_wf_anywhere _ (fun _ => unrollLoopOk)
    (fun Γ ss r hr ho hw => unrollLoop_local Γ ss r hr ho hw) path Γ Γs body body' site h hw hs hok

example : hyps unrollLoop (fun _ => unrollLoopOk) [.body 0, .body 0] Γ0
    [.loop sJ (num 0) (rd sN)
      [.loop sI (num 1) (num 4) [.loop sK (num 0) (rd sI) (richBody sK) false] false] false] = true := by
  decide
/-- needed: two copies of a body that allocates `t` at top level declare `t` twice -/
example : breaks unrollLoop [.body 0] Γ0 [.loop sI (num 0) (num 2) (richBody sI) false] = true := by
  decide

/-! ### reorder_loops -/

/-- hypothesis: the bounds of the inner loop do not mention the outer iterator -/
theorem reorder_loops_wf_anywhere (path : Path) (Γ Γs : Env) (body body' site : List Stmt)
    (h : rewriteAt reorderLoops path body = some body') (hw : (wfL Γ body).isSome = true)
    (hs : siteAt path Γ body = some (Γs, site)) (hok : reorderLoopsOk site = true) :
    (wfL Γ body').isSome = true :=
  shape_wf_anywhere _ (fun _ => reorderLoopsOk)
    (fun Γ ss r hr ho hw => reorderLoops_local Γ ss r hr ho hw) path Γ Γs body body' site h hw hs hok

example : hyps reorderLoops (fun _ => reorderLoopsOk) [.body 0, .body 0] Γ0
    [.ite (.binop .gt (rd sN) (num 0))
      [.loop sI (num 0) (rd sN) [.loop sJ (num 0) (rd sN) (richBody sI) false] false] []] = true := by
  decide
/-- needed: a triangular nest `for i in (0,n): for j in (0,i)` -/
example : breaks reorderLoops [.body 0] Γ0
    [.loop sI (num 0) (rd sN) [.loop sJ (num 0) (rd sI) (plainBody sJ) false] false] = true := by decide

/-! ### reorder_stmts -/

/-- hypotheses: the second statement is well formed BEFORE the first (it uses no name the first
    one defines), and the name it defines is not bound inside the first -/
theorem reorder_stmts_wf_anywhere (path : Path) (Γ Γs : Env) (body body' site : List Stmt)
    (h : rewriteAt reorderStmts path body = some body') (hw : (wfL Γ body).isSome = true)
    (hs : siteAt path Γ body = some (Γs, site)) (hok : reorderStmtsOk Γs site = true) :
    (wfL Γ body').isSome = true :=
  shape_wf_anywhere _ reorderStmtsOk
    (fun Γ ss r hr ho hw => reorderStmts_local Γ ss r hr ho hw) path Γ Γs body body' site h hw hs hok

/-- swapping two DEFINITIONS that do not depend on each other (the rest uses both) -/
example : hyps reorderStmts reorderStmtsOk [.body 0, .body 0] Γ0
    [.loop sI (num 0) (rd sN) (richBody sI) false] = true := by decide
/-- needed — the recorded finding `reorder_stmts:window-definition-moved-after-its-use`:
    `w = a[i:i+2]; t[0] = w[1]` swapped -/
example : breaks reorderStmts [.body 0, .body 1] Γ0
    [.loop sI (num 0) (rd sN) (richBody sI) false] = true := by decide
/-- needed: the second statement defines a name that is bound inside the first -/
example : breaks reorderStmts [.body 0] Γ0
    [.loop sI (num 0) (rd sN) [.alloc sX []] false, .alloc sX [], .assign sX [] one] = true := by decide

/-! ### mult_loops -/

/-- hypotheses: the new iterator is fresh in the site's environment and not bound in the body -/
theorem mult_loops_wf_anywhere (k : Sym) (path : Path) (Γ Γs : Env) (body body' site : List Stmt)
    (h : rewriteAt (multLoops k) path body = some body') (hw : (wfL Γ body).isSome = true)
    (hs : siteAt path Γ body = some (Γs, site)) (hok : multLoopsOk Γs k site = true) :
    (wfL Γ body').isSome = true :=
  shape_wf_anywhere _ (fun Γ => multLoopsOk Γ k)
    (fun Γ ss r hr ho hw => multLoops_local k Γ ss r hr ho hw) path Γ Γs body body' site h hw hs hok

/-- `for i in (0,n): for j in (0,4): t : f32[i+1]; w = a[j:j+2]; …` -/
def multBody : List Stmt :=
  [.loop sI (num 0) (rd sN) [.loop sJ (num 0) (num 4)
    [.alloc sT [.binop .add (rd sI) (num 1)],
     .window sW (.win sA [.interval (rd sJ) (.binop .add (rd sJ) (num 2))]),
     .assign sT [num 0] (.read sW [num 1])] false] false]

example : hyps (multLoops sK) (fun Γ => multLoopsOk Γ sK) [.body 0, .body 0] Γ0
    [.ite (.binop .gt (rd sN) (num 0)) multBody []] = true := by decide
/-- needed: the new iterator clashes with a name in scope (`n`) -/
example : breaks (multLoops sN) [.body 0] Γ0 multBody = true := by decide

/-- needed: the new iterator must not be bound in the body -/
example : breaks (multLoops sK) [.body 0] Γ0
    [.loop sI (num 0) (rd sN) [.loop sJ (num 0) (num 4)
      [.loop sK (num 0) (rd sJ) (plainBody sK) false] false] false] = true := by decide

/-! ### lift_scope: the four shapes other than loop-in-loop (= `reorderLoops`) -/

/-- `if a: (if b: A else: B) else: C ↦ if b: (if a: A else: C) else: (if a: B else: C)` — no side
    condition (the outer `else` block is COPIED into both branches: the scopes stay disjoint, so
    `wfL` holds, but the binders of `C` are no longer distinct `Sym`s — the real `DoLiftScope` does
    not rename either, see docs/C04Shapes.md) -/
theorem lift_if_then_wf_anywhere (path : Path) (Γ Γs : Env) (body body' site : List Stmt)
    (h : rewriteAt liftIfThen path body = some body') (hw : (wfL Γ body).isSome = true)
    (hs : siteAt path Γ body = some (Γs, site)) : (wfL Γ body').isSome = true :=
  shape_wf_anywhere _ WfTie.always (fun Γ ss r hr _ hw => liftIfThen_local Γ ss r hr hw)
    path Γ Γs body body' site h hw hs rfl

/-- `if a: A else: (if b: B else: C) ↦ if b: (if a: A else: B) else: (if a: A else: C)` -/
theorem lift_if_else_wf_anywhere (path : Path) (Γ Γs : Env) (body body' site : List Stmt)
    (h : rewriteAt liftIfElse path body = some body') (hw : (wfL Γ body).isSome = true)
    (hs : siteAt path Γ body = some (Γs, site)) : (wfL Γ body').isSome = true :=
  shape_wf_anywhere _ WfTie.always (fun Γ ss r hr _ hw => liftIfElse_local Γ ss r hr hw)
    path Γ Γs body body' site h hw hs rfl

/-- `if c: for i: A ↦ for i: if c: A` — no side condition -/
theorem lift_for_out_of_if_wf_anywhere (path : Path) (Γ Γs : Env) (body body' site : List Stmt)
    (h : rewriteAt liftForOutOfIf path body = some body') (hw : (wfL Γ body).isSome = true)
    (hs : siteAt path Γ body = some (Γs, site)) : (wfL Γ body').isSome = true :=
  shape_wf_anywhere _ WfTie.always (fun Γ ss r hr _ hw => liftForOutOfIf_local Γ ss r hr hw)
    path Γ Γs body body' site h hw hs rfl

/-- `for i: (if c: A else: B) ↦ if c: (for i: A) else: (for i: B)` — hypothesis: the condition does
    not mention the iterator -/
theorem lift_if_out_of_loop_wf_anywhere (path : Path) (Γ Γs : Env) (body body' site : List Stmt)
    (h : rewriteAt liftIfOutOfLoop path body = some body') (hw : (wfL Γ body).isSome = true)
    (hs : siteAt path Γ body = some (Γs, site)) (hok : liftIfOutOfLoopOk site = true) :
    (wfL Γ body').isSome = true :=
  shape_wf_anywhere _ (fun _ => liftIfOutOfLoopOk)
    (fun Γ ss r hr ho hw => liftIfOutOfLoop_local Γ ss r hr ho hw) path Γ Γs body body' site h hw hs hok

example : hyps liftIfThen WfTie.always [.body 0, .body 0] Γ0
    [.loop sI (num 0) (rd sN)
      [.ite (.binop .lt (rd sI) (num 2)) [.ite (.binop .gt (rd sN) (num 3)) (plainBody sI) [.pass]]
        (richBody sI)] false] = true := by decide
example : hyps liftIfElse WfTie.always [.body 0, .body 0] Γ0
    [.loop sI (num 0) (rd sN)
      [.ite (.binop .lt (rd sI) (num 2)) (richBody sI)
        [.ite (.binop .gt (rd sN) (num 3)) (plainBody sI) []]] false] = true := by decide
example : hyps liftForOutOfIf WfTie.always [.body 0] Γ0
    [.ite (.binop .gt (rd sN) (num 3)) [.loop sI (num 0) (rd sN) (richBody sI) false] []] = true := by
  decide
example : hyps liftIfOutOfLoop (fun _ => liftIfOutOfLoopOk) [.body 0] Γ0
    [.loop sI (num 0) (rd sN) [.ite (.binop .gt (rd sN) (num 3)) (richBody sI) (plainBody sI)] false] = true := by
  decide
/-- needed: the condition mentions the iterator -/
example : breaks liftIfOutOfLoop [.body 0] Γ0
    [.loop sI (num 0) (rd sN) [.ite (.binop .lt (rd sI) (num 3)) (richBody sI) []] false] = true := by
  decide

/-! ### cut_loop and specialize with general parameters -/

/-- hypotheses: second iterator fresh, cut point well formed at the loop, second body (a
    parameter: the renamed body) well formed under the second iterator -/
theorem cut_loop_wf_anywhere (i2 : Sym) (mid : Expr) (body2 : List Stmt) (path : Path)
    (Γ Γs : Env) (body body' site : List Stmt)
    (h : rewriteAt (cutLoop i2 mid body2) path body = some body') (hw : (wfL Γ body).isSome = true)
    (hs : siteAt path Γ body = some (Γs, site)) (hok : cutLoopOk Γs i2 mid body2 site = true) :
    (wfL Γ body').isSome = true :=
  shape_wf_anywhere _ (fun Γ => cutLoopOk Γ i2 mid body2)
    (fun Γ ss r hr ho hw => cutLoop_local i2 mid body2 Γ ss r hr ho hw) path Γ Γs body body' site h hw hs hok

example : hyps (cutLoop sK (num 2) (richCopy sK)) (fun Γ => cutLoopOk Γ sK (num 2) (richCopy sK))
    [.body 0, .body 0] Γ0 divBody = true := by decide
example : breaks (cutLoop sK (rd sI) (richCopy sK)) [.body 0, .body 0] Γ0 divBody = true := by decide

/-- hypotheses: condition well formed, the copy well formed, the statements after the wrapped one
    well formed without what it defines (`add_loop_rest_condition_exact`) -/
theorem specialize_wf_anywhere (c : Expr) (copy : List Stmt) (path : Path) (Γ Γs : Env)
    (body body' site : List Stmt) (h : rewriteAt (specialize c copy) path body = some body')
    (hw : (wfL Γ body).isSome = true) (hs : siteAt path Γ body = some (Γs, site))
    (hok : specializeOk Γs c copy site = true) : (wfL Γ body').isSome = true :=
  shape_wf_anywhere _ (fun Γ => specializeOk Γ c copy)
    (fun Γ ss r hr ho hw => specialize_local c copy Γ ss r hr ho hw) path Γ Γs body body' site h hw hs hok

example : hyps (specialize (.binop .lt (rd sI) (num 2)) [.assign sT [num 0] (.read sW [num 1])])
    (fun Γ => specializeOk Γ (.binop .lt (rd sI) (num 2)) [.assign sT [num 0] (.read sW [num 1])])
    [.body 0, .body 2] Γ0 [.loop sI (num 0) (rd sN) (richBody sI) false] = true := by decide
/-- needed — the recorded finding `specialize:block-defines-window-used-later` -/
example : breaks (specialize (.binop .lt (rd sI) (num 2))
      [.window sW (.win sA [.interval (rd sI) (.binop .add (rd sI) (num 2))])])
    [.body 0, .body 1] Γ0 [.loop sI (num 0) (rd sN) (richBody sI) false] = true := by decide

/-! ### syntactic forms of the side conditions; exactness for fission -/

/-- **the side condition of fission is exact**: for a loop body `b` that is well formed under its
    iterator, the tail `b.drop k` is well formed on its own (which is what the second loop needs,
    `fission_second_ok`) IF AND ONLY IF the tail mentions no name — allocation OR WINDOW — that
    the head `b.take k` defines at top level.  (The real `fission` checks allocations only.) -/
theorem fission_condition_exact (Γ : Env) (i : Sym) (b : List Stmt) (k : Nat)
    (hb : (wfL ((i, none) :: Γ) b).isSome = true) :
    (wfL ((i, none) :: Γ) (b.drop k)).isSome = true ↔
      disj (defNames (b.take k)) (symsL (b.drop k)) = true :=
  fission_tail_iff k hb

example : (wfL ((sI, none) :: Γ0) (richBody sI)).isSome = true ∧
    disj (defNames ((richBody sI).take 2)) (symsL ((richBody sI).drop 2)) = false ∧
    disj (defNames ((plainBody sI ++ richBody sI).take 1)) (symsL ((plainBody sI ++ richBody sI).drop 1)) = true := by
  decide

/-- `reorder_stmts`: the semantic half of the side condition (`the second statement is well
    formed before the first`) follows from the syntactic one: it mentions no name the first
    statement defines -/
theorem reorder_stmts_syntactic_ok (Γ : Env) (a b : Stmt) (rest : List Stmt)
    (hw : (wfL Γ (a :: b :: rest)).isSome = true) (hd : disj (defName a) (symsS b) = true)
    (hd2 : disj (defName b) (bindS a) = true) : reorderStmtsOk Γ (a :: b :: rest) = true := by
  simp only [reorderStmtsOk, Bool.and_eq_true]
  exact ⟨reorder_second_wf hw hd, hd2⟩

example : (wfL ((sI, none) :: Γ0) (richBody sI)).isSome = true ∧
    disj (defName (.alloc sT [.binop .add (rd sI) (num 1)]))
      (symsS (.window sW (.win sA [.interval (rd sI) (.binop .add (rd sI) (num 2))]))) = true := by
  decide

/-! ### the "declared twice" side conditions follow from exo's distinct-`Sym` discipline -/

/-- if all binders of the body are distinct `Sym`s (what exo's front end establishes and its
    copying rewrites maintain by alpha-renaming), `eliminate_dead_code` needs no side condition -/
theorem dead_code_wf_of_distinct_binders (keepThen : Bool) (path : Path) (Γ Γs : Env)
    (body body' site : List Stmt) (h : rewriteAt (deadCode keepThen) path body = some body')
    (hw : (wfL Γ body).isSome = true) (hs : siteAt path Γ body = some (Γs, site))
    (hn : (bindL body).Nodup) : (wfL Γ body').isSome = true :=
  dead_code_wf_anywhere keepThen path Γ Γs body body' site h hw hs
    (deadCodeOk_of_nodup keepThen site (site_nodup path Γ Γs body site hs hn))

/-- … `fuse` of two `if`s needs none either -/
theorem fuse_ifs_wf_of_distinct_binders (path : Path) (Γ Γs : Env) (body body' site : List Stmt)
    (h : rewriteAt fuseIfs path body = some body') (hw : (wfL Γ body).isSome = true)
    (hs : siteAt path Γ body = some (Γs, site)) (hn : (bindL body).Nodup) :
    (wfL Γ body').isSome = true :=
  fuse_ifs_wf_anywhere path Γ Γs body body' site h hw hs
    (fuseIfsOk_of_nodup site (site_nodup path Γ Γs body site hs hn))

/-- … and `remove_loop` needs only "the iterator does not occur in the body" -/
theorem remove_loop_wf_of_distinct_binders (guarded : Bool) (path : Path) (Γ Γs : Env)
    (body body' : List Stmt) (i : Sym) (lo hi : Expr) (b : List Stmt) (par : Bool) (r : List Stmt)
    (h : rewriteAt (removeLoop guarded) path body = some body') (hw : (wfL Γ body).isSome = true)
    (hs : siteAt path Γ body = some (Γs, .loop i lo hi b par :: r)) (ho : occL i b = false)
    (hn : (bindL body).Nodup) : (wfL Γ body').isSome = true :=
  remove_loop_wf_anywhere guarded path Γ Γs body body' _ h hw hs
    (removeLoopOk_of_nodup guarded i lo hi b par r ho (site_nodup path Γ Γs body _ hs hn))

example : (bindL [.loop sJ (num 0) (rd sN)
      [.ite (.binop .lt (rd sJ) (rd sN)) (richBody sJ) [.pass], .assign sY [rd sJ] one] false]).Nodup := by
  decide

/-! ### alpha-renaming preserves well-formedness (Task: real output alpha-equal to a wf model output) -/

/-- **alpha-renaming preserves well-formedness**: if `B'` is alpha-equal (`blockEq'`, the corrected
    comparison of ExoModel/AlphaEq.lean) to a block `B` that is well formed in `Γ`, the
    environments correspond through the renamings (`EnvRen`), and no binder of `B'` (callee bodies
    included) shadows a name in scope (`scopeL`, a check on `B'` alone that every well-formed block
    passes: `scope_of_wf`), then `B'` is well formed in `Γ'`. -/
theorem alpha_preserves_wf (ρc ρv : Ren) (Γ Γ' Γ₁ : Env) (B B' : List Stmt)
    (hren : EnvRen ρc ρv Γ Γ') (hα : blockEq' ρc ρv B B' = true) (hw : wfL Γ B = some Γ₁)
    (hsc : (scopeL (Γ'.map Prod.fst) B').isSome = true) : (wfL Γ' B').isSome = true :=
  alpha_wfL ρc ρv Γ Γ' Γ₁ B B' hren hα hw hsc

/-- the instance the tie uses, as an equivalence: for a real output alpha-equal to a well-formed
    model output, being well formed IS passing the shadowing check -/
theorem alpha_wf_iff_scope (Γ Γ₁ : Env) (B B' : List Stmt) (hα : alphaEqBlocks' B B' = true)
    (hw : wfL Γ B = some Γ₁) :
    (wfL Γ B').isSome = true ↔ (scopeL (Γ.map Prod.fst) B').isSome = true :=
  alpha_wfL_iff Γ Γ₁ B B' hα hw

/-- non-vacuity: `for i in (0,n): x : R[n]; x[i] = 1` against the same block with the iterator
    named `y` and the buffer named `i` -/
example : alphaEqBlocks' AlphaWfEx.B AlphaWfEx.B' = true ∧
    (wfL AlphaWfEx.Γ AlphaWfEx.B).isSome = true ∧
    (scopeL (AlphaWfEx.Γ.map Prod.fst) AlphaWfEx.B').isSome = true := by decide +kernel

/-- the shadowing hypothesis is needed: alpha-equality alone does not give well-formedness
    (`for i: pass` ~ `for n: pass` where `n` is already a size) -/
example :
    alphaEqBlocks' [.loop AlphaWfEx.i (.lit (.int 0)) AlphaWfEx.one [.pass] false]
      [.loop AlphaWfEx.n (.lit (.int 0)) AlphaWfEx.one [.pass] false] = true ∧
    (wfL AlphaWfEx.Γ [.loop AlphaWfEx.i (.lit (.int 0)) AlphaWfEx.one [.pass] false]).isSome = true ∧
    (wfL AlphaWfEx.Γ [.loop AlphaWfEx.n (.lit (.int 0)) AlphaWfEx.one [.pass] false]).isSome = false :=
  ⟨alpha_wf_needs_scope.1, alpha_wf_needs_scope.2.1, alpha_wf_needs_scope.2.2.1⟩

/-- **the real output of a modelled rewrite is well formed**: under the shape's side condition,
    any block that is alpha-equal to the model output and shadows nothing is well formed -/
theorem shape_real_output_wf (f : Local) (Ok : Env → List Stmt → Bool)
    (hloc : ∀ Γ ss r, f ss = some r → Ok Γ ss = true → (wfL Γ ss).isSome = true →
      (wfL Γ r).isSome = true)
    (path : Path) (Γ Γs : Env) (body body' site real : List Stmt)
    (h : rewriteAt f path body = some body') (hw : (wfL Γ body).isSome = true)
    (hs : siteAt path Γ body = some (Γs, site)) (hok : Ok Γs site = true)
    (hα : alphaEqBlocks' body' real = true)
    (hsc : (scopeL (Γ.map Prod.fst) real).isSome = true) : (wfL Γ real).isSome = true := by
  obtain ⟨Γ₁, hΓ₁⟩ := Option.isSome_iff_exists.1
    (shape_wf_anywhere f Ok hloc path Γ Γs body body' site h hw hs hok)
  exact alpha_wfL_top Γ Γ₁ body' real hα hΓ₁ hsc

/-! ### soundness of the tie (ExoModel/WfTie.lean, driver op `wfok`) -/

/-- **the well-formedness tie is sound**: for a real rewrite `before ↦ after` filed under the
    primitive `name` (conventions of `Rw.check'`), if the site condition the tie evaluates holds
    (`Rw.wfOk = ok true`), the output is the model rewrite up to renaming (`Rw.wfMatch = ok true`),
    no binder of the output shadows a name in scope (`Rw.wfScope`) and the input is well formed,
    then the output is well formed.  So in the tie `ok ∧ match ∧ scope ∧ wf_before ∧ ¬wf_after`
    can only mean a broken exporter/driver, never a property of exo. -/
theorem wf_tie_sound (name : String) (path : Path) (k : Nat) (flag : Bool) (before after : List Stmt)
    (Γ : Env) (hok : Rw.wfOk name path k flag before after Γ = .ok true)
    (hm : Rw.wfMatch name path k flag before after = .ok true)
    (hsc : Rw.wfScope Γ after = true) (hw : (wfL Γ before).isSome = true) :
    (wfL Γ after).isSome = true :=
  WfTie.wfOk_sound name path k flag before after Γ hok hm hsc hw

instance instDecEqTieAnswer : DecidableEq (Except String Bool) := fun a b =>
  match a, b with
  | .ok x, .ok y => if h : x = y then isTrue (by rw [h]) else isFalse (by intro e; cases e; exact h rfl)
  | .error x, .error y =>
    if h : x = y then isTrue (by rw [h]) else isFalse (by intro e; cases e; exact h rfl)
  | .ok _, .error _ => isFalse (by intro e; cases e)
  | .error _, .ok _ => isFalse (by intro e; cases e)

def tieBefore1 : List Stmt :=
  [.loop sJ (num 0) (rd sN) [.loop sI (num 0) (rd sN) (richBody sJ) false] false]
def tieAfter1 : List Stmt := [.loop sK (num 0) (rd sN) (richCopy sK) false]
def tieBefore2 : List Stmt := [.loop sI (num 0) (rd sN) (richBody sI) false]
def tieAfter2 : List Stmt := [.loop sI (num 0) (rd sN)
  (.loop sK (num 0) (num 4) [.alloc sT [.binop .add (rd sI) (num 1)]] false :: (richBody sI).drop 1) false]

/-- non-vacuity: `remove_loop` of a loop whose body does not mention the iterator, against an
    output with renamed binders -/
example :
    Rw.wfOk "remove_loop" [.body 0, .body 0] 0 false tieBefore1 tieAfter1 Γ0 = .ok true ∧
    Rw.wfMatch "remove_loop" [.body 0, .body 0] 0 false tieBefore1 tieAfter1 = .ok true ∧
    Rw.wfScope Γ0 tieAfter1 = true ∧ (wfL Γ0 tieBefore1).isSome = true := by decide +kernel
/-- the tie's verdict on the recorded `add_loop` finding: the output is the model rewrite, the
    site condition is false, the output is ill formed -/
example :
    Rw.wfOk "add_loop" [.body 0, .body 0] 0 false tieBefore2 tieAfter2 Γ0 = .ok false ∧
    Rw.wfMatch "add_loop" [.body 0, .body 0] 0 false tieBefore2 tieAfter2 = .ok true ∧
    (wfL Γ0 tieAfter2).isSome = false := by decide +kernel

/-! ### the substitution lemma, stated on its own -/

/-- **substituting a control variable by a control expression preserves well-formedness**: a
    block well formed where `x` is a control variable is well formed, after `x := e`, in any
    environment `Γ₂` that (a) gives every other name of `Γ₁` the same meaning, (b) adds only
    names of `N`, none of which is bound in the block, and (c) makes `e` a well-formed control
    expression.  Covers expressions, window coordinates, allocation extents, call arguments and
    nested statements; the definitions of the block are the same on both sides. -/
theorem subst_preserves_wf (x : Sym) (e : Expr) (N : List Sym) (Γ₁ Γ₂ Γ₁' : Env) (ss : List Stmt)
    (hkeep : ∀ y k, y ≠ x → lookup y Γ₁ = some k → lookup y Γ₂ = some k)
    (hnew : ∀ y, y ∉ N → lookup y Γ₁ = none → lookup y Γ₂ = none)
    (hx : lookup x Γ₁ = some none) (he : wfC Γ₂ e = true)
    (hw : wfL Γ₁ ss = some Γ₁') (hb : ∀ z ∈ bindL ss, z ∉ N) :
    ∃ D, Γ₁' = D ++ Γ₁ ∧ wfL Γ₂ (substL x e ss) = some (D ++ Γ₂) := by
  have hrel : Rel (some (x, e)) N Γ₁ Γ₂ :=
    ⟨fun y k hne hy => hkeep y k (hne x e rfl) hy, hnew, fun x' e' hm => by cases hm; exact ⟨hx, he⟩⟩
  obtain ⟨D, h1, h2, _⟩ := wfL_tr _ N ss Γ₁ Γ₂ Γ₁' hrel hw hb
  exact ⟨D, h1, by simpa [tL] using h2⟩

example :
    (∀ y k, y ≠ sI → lookup y ((sI, none) :: Γ0) = some k →
      lookup y ((sIi, none) :: (sIo, none) :: Γ0) = some k) ∧
    (∀ y, y ∉ [sIi, sIo] → lookup y ((sI, none) :: Γ0) = none →
      lookup y ((sIi, none) :: (sIo, none) :: Γ0) = none) ∧
    lookup sI ((sI, none) :: Γ0) = some none ∧
    wfC ((sIi, none) :: (sIo, none) :: Γ0) (dividedIdx 4 sIo sIi) = true ∧
    (wfL ((sI, none) :: Γ0) (richBody sI)).isSome = true ∧
    (∀ z ∈ bindL (richBody sI), z ∉ [sIi, sIo]) := by
  refine ⟨?_, ?_, by decide, by decide, by decide, by decide⟩
  · intro y k hy h
    simp only [WfShapes.lookup_cons, hy, if_false] at h
    have e1 : lookup sIi Γ0 = none := by decide
    have e2 : lookup sIo Γ0 = none := by decide
    simp only [WfShapes.lookup_cons]
    by_cases h1 : y = sIi
    · rw [h1, e1] at h; cases h
    · by_cases h2 : y = sIo
      · rw [h2, e2] at h; cases h
      · simp only [h1, h2, if_false]; exact h
  · intro y hy h
    simp only [List.mem_cons, List.not_mem_nil, or_false, not_or] at hy
    simp only [WfShapes.lookup_cons] at h ⊢
    simp only [hy.1, hy.2, if_false]
    by_cases h3 : y = sI
    · simp [h3] at h
    · simpa [h3] using h

/-! ### scoping soundness with configuration reads (extends `wf_noScope_partial`) -/

/-- **static scoping is sound, configuration reads included**: if the body (with all its callees)
    is well formed in `Γ`, the initial state provides what `Γ` promises, and the initial
    configuration state holds a value for every field of `F`, where `F` contains every field the
    program reads (callees, their shapes and assertions included), the run never fails with
    `Err.scope`.  (`wf_noScope_partial` is the case `F = []`.) -/
theorem wf_noScope_cfg (V : Type) [DataAlg V] (ext : String → List V → V) (F : Fields)
    (Γ Γ' : Env) (body : List Stmt) (σ : State V) (hA : Agree Γ σ) (hF : CfgHas F σ)
    (hw : wfL Γ body = some Γ') (hr : readsInL F body = true) :
    execB ext body σ ≠ .error .scope :=
  wf_noScope_cfg_core V ext F Γ Γ' body σ hA hF hw hr

/-- with `F` computed from the program: the state holds every field the program reads -/
theorem wf_noScope_cfg_reads (V : Type) [DataAlg V] (ext : String → List V → V)
    (Γ Γ' : Env) (body : List Stmt) (σ : State V) (hA : Agree Γ σ)
    (hF : CfgHas (cfgReadsL body) σ) (hw : wfL Γ body = some Γ') :
    execB ext body σ ≠ .error .scope :=
  wf_noScope_cfgReads V ext Γ Γ' body σ hA hF hw

/-- the configuration-free fragment of `wf_noScope_partial` is the instance `F = []` -/
theorem simple_reads_nothing (body : List Stmt) (h : simpleL body = true) :
    readsInL [] body = true := simpleL_readsInL_nil body h

/-- non-vacuity: a loop bounded by a configuration field that assigns another one -/
example :
    let Γ : Env := [(⟨"x", 2⟩, some 1)]
    let body : List Stmt := [.loop ⟨"i", 3⟩ (.lit (.int 0)) (.readcfg "cfg" "n")
      [.assign ⟨"x", 2⟩ [.read ⟨"i", 3⟩ []] (.readcfg "cfg" "v")] false]
    (wfL Γ body).isSome = true ∧ readsInL [("cfg", "n"), ("cfg", "v")] body = true ∧
      simpleL body = false ∧ cfgReadsL body = [("cfg", "n"), ("cfg", "v")] := by decide

end Exo.C04
