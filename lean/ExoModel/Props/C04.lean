/-
  Property C04 — scheduling never breaks safety or well-formedness.
  (a) static well-formedness `Wf.wfP` is preserved by the modelled rewrites;
  (b) safety preservation is the error direction of `BlockLe`/`Equiv` (Props/C01): a block that
      does at least what the original does trips no monitor the original does not trip.
-/
import ExoModel.Wf
import ExoModel.Rewrite
import ExoModel.Equiv
import ExoModel.Lemmas.Rewrites
import ExoModel.Lemmas.WfRewrite
import ExoModel.Lemmas.WfSound

set_option linter.unusedSectionVars false
namespace Exo.C04
open Exo Exo.Wf

/-- (b) `Equiv` forbids new failures: whenever the original procedure runs to completion from a
    state, the derived procedure does too (no new out-of-bounds access, failed assertion, shape
    mismatch, aliasing, negative trip count or unbound name) -/
theorem equiv_no_new_failure {K : String × String → Prop} {p p' : Proc} (h : Equiv K p p')
    (V : Type) [DataAlg V] (ext : String → List V → V) (σ : State V)
    (hok : ∃ o, execB ext p.body σ = .ok o) : ∃ o', execB ext p'.body σ = .ok o' := by
  obtain ⟨o, ho⟩ := hok
  obtain ⟨o', ho', _⟩ := h V ext σ o ho
  exact ⟨o', ho'⟩

/-- … and no new uninitialised value in an observable cell: a cell that is defined after the
    original run is defined, with the same value, after the derived run -/
theorem equiv_no_new_poison {K : String × String → Prop} {p p' : Proc} (h : Equiv K p p')
    (V : Type) [DataAlg V] (ext : String → List V → V) (σ o : State V)
    (ho : execB ext p.body σ = .ok o) (c : Nat × Nat) (v : V) (hv : heapGet o.heap c = some v) :
    ∃ o', execB ext p'.body σ = .ok o' ∧ heapGet o'.heap c = some v := by
  obtain ⟨o', ho', r⟩ := h V ext σ o ho
  refine ⟨o', ho', ?_⟩
  rcases r.cells c with hn | he
  · rw [hv] at hn; cases hn
  · rw [← he]; exact hv

/-! ### (a) well-formedness of the results of the modelled rewrites -/

/-- a well-formed statement does not change the kinds of the names already in scope, it can only
    add definitions in front -/
theorem wfL_pass (Γ : Env) (ss : List Stmt) : wfL Γ (.pass :: ss) = wfL Γ ss := by
  simp [wfL, wfS]

/-- `insert_pass` keeps well-formedness -/
theorem insert_pass_wf (Γ : Env) (s : Stmt) (r : List Stmt) :
    wfL Γ (.pass :: s :: r) = wfL Γ (s :: r) := wfL_pass Γ (s :: r)

/-- wrapping a NON-defining statement in `if c: s else: s` keeps well-formedness (`specialize`);
    for a defining statement (`alloc`, `window`) it does not — the recorded findings
    `specialize:block-defines-window-used-later` -/
theorem specialize_wf (Γ : Env) (c : Expr) (s : Stmt) (r : List Stmt) (hc : wfC Γ c = true)
    (hs : wfS Γ s = some Γ) :
    wfL Γ (.ite c [s] [s] :: r) = wfL Γ (s :: r) := by
  simp [wfL, wfS, hc, hs]

/-- the same wrapping of a window definition is NOT well formed when the window is used later -/
example :
    let Γ : Env := [(⟨"a", 1⟩, some 1), (⟨"y", 2⟩, some 1)]
    let w : Stmt := .window ⟨"w", 3⟩ (.win ⟨"a", 1⟩ [.interval (.lit (.int 0)) (.lit (.int 4))])
    let use : Stmt := .assign ⟨"y", 2⟩ [.lit (.int 0)] (.read ⟨"w", 3⟩ [.lit (.int 0)])
    (wfL Γ [w, use]).isSome = true ∧
    (wfL Γ [.ite (.lit (.bool true)) [w] [w], use]).isSome = false := by
  decide

/-- cutting a loop keeps well-formedness when the cut expression is a well-formed control
    expression in the loop's context -/
theorem cut_loop_wf (Γ : Env) (i : Sym) (lo mid hi : Expr) (b : List Stmt) (par : Bool)
    (r : List Stmt) (hm : wfC Γ mid = true)
    (h : (wfS Γ (.loop i lo hi b par)).isSome = true) :
    wfL Γ (.loop i lo mid b par :: .loop i mid hi b par :: r) = wfL Γ r := by
  simp only [wfS] at h
  split at h
  · rename_i hcond
    simp only [Bool.and_eq_true] at hcond
    obtain ⟨⟨⟨hf, hlo⟩, hhi⟩, hb⟩ := hcond
    simp [wfL, wfS, hf, hlo, hhi, hb, hm]
  · cases h

/-- **well-formedness under path-addressed rewriting**: a local rewrite that maps well-formed
    block suffixes to well-formed suffixes (with the same names in scope afterwards), applied at
    ANY address inside loops and branches of a well-formed procedure body, gives a well-formed
    body -/
theorem rewrite_at_address_wf (f : Rw.Local) (hf : WfLocal f) (path : Rw.Path) (Γ Γ' : Env)
    (body body' : List Stmt) (h : Rw.rewriteAt f path body = some body')
    (hw : wfL Γ body = some Γ') : wfL Γ body' = some Γ' :=
  rewriteAt_wf f hf path Γ Γ' body body' h hw

/-- `insert_pass` at any gap keeps any procedure well formed -/
theorem insert_pass_wf_anywhere (before : Bool) (path : Rw.Path) (Γ Γ' : Env) (body body' : List Stmt)
    (h : Rw.rewriteAt (if before then Rw.insertPassBefore else Rw.insertPassAfter) path body = some body')
    (hw : wfL Γ body = some Γ') : wfL Γ body' = some Γ' := by
  refine rewrite_at_address_wf _ ?_ path Γ Γ' body body' h hw
  intro Δ Δ' ss r hr hws
  cases before
  · cases ss with
    | nil => simp [Rw.insertPassAfter] at hr
    | cons s t =>
      simp only [Rw.insertPassAfter, if_false, Bool.false_eq_true, Option.some.injEq] at hr
      subst hr
      simp only [wfL] at hws ⊢
      cases h1 : wfS Δ s with
      | none => rw [h1] at hws; cases hws
      | some Δ1 => rw [h1] at hws; simpa [wfS, wfL] using hws
  · cases ss with
    | nil => simp [Rw.insertPassBefore] at hr
    | cons s t =>
      simp only [Rw.insertPassBefore, if_true, Option.some.injEq] at hr
      subst hr
      simpa [wfL, wfS] using hws

/-- **static scoping is sound**: if the body (with all its callees) is well formed in the static
    environment `Γ` and the initial state provides what `Γ` promises (a value for every control
    name, a view of the declared rank into an existing buffer for every buffer name), the run never
    fails with `Err.scope` — no use of an unbound name or of a non-existent buffer, at any call
    depth, for every data algebra and every input.  `_partial`: programs that READ configuration
    state are not covered (the semantics reports a missing configuration field as `scope`, and
    which fields exist is a property of the input, not of the program). -/
theorem wf_noScope_partial (V : Type) [DataAlg V] (ext : String → List V → V) (Γ Γ' : Env)
    (body : List Stmt) (σ : State V) (hA : Agree Γ σ) (hw : wfL Γ body = some Γ')
    (hs : simpleL body = true) : execB ext body σ ≠ .error .scope := by
  have h := (execL_noScope ext body Γ Γ' σ hA hw hs).1
  unfold execB
  cases h1 : execL ext body σ with
  | error e => intro h2; simp [Except.map] at h2; subst h2; exact h h1
  | ok s => intro h2; cases h2

/-- the hypotheses are satisfiable: a loop writing `x[i]` over a one-dimensional buffer -/
example :
    let Γ : Env := [(⟨"n", 1⟩, none), (⟨"x", 2⟩, some 1)]
    let body : List Stmt := [.loop ⟨"i", 3⟩ (.lit (.int 0)) (.read ⟨"n", 1⟩ [])
      [.assign ⟨"x", 2⟩ [.read ⟨"i", 3⟩ []] (.lit (.data 1 1))] false]
    (wfL Γ body).isSome = true ∧ simpleL body = true := by decide

end Exo.C04
