/-
  C17, statement level — the printed procedure (header, assertions, body) read back through the
  front end is the procedure, up to the expression normalisation (a negative literal `-3` is read
  as `-(3)`).

  Model: `ExoModel.PrintStmt` (`ppStmt`/`ppBlock`/`ppProc` = `_print_stmt`/`_print_block`/
  `_print_proc` as token lines; `parseBlock`/`parseLines`/`parseProc` = Python's
  indentation-based block structure + `pyparser.parse_stmt_block`/`parse_fdef` on the printed
  sub-language) over the expressions of `ExoModel.PrintExprX` (`XExpr` = the expressions of C17(b)
  plus the atoms `Cfg.field`, `stride(x, d)`, extern calls `f(a, …)`; `ppX`/`parseExprX`).
  Names are already resolved (part (a) of C17).

  Covered: every expression form `_print_expr` emits inside a procedure (`Read`, `Const`, `USub`,
  `BinOp`, `ReadConfig`, `StrideExpr`, `Extern`; `WindowExpr` as right-hand side of a window
  statement and as call argument); the statements `pass`, `x[…] = e`, `x[…] += e`, `Cfg.f = e`,
  `x : T[…] @ MEM` (T ∈ R f16 f32 f64 i8 i32 ui8 ui16; scalar or tensor; with/without memory),
  `w = x[lo:hi, pt, …]`, `for i in seq(lo, hi):` / `par`, `if c:` with and without `else:`
  (a nested `if` in an `else` is printed as `else:` + indented `if`, never `elif`),
  `f(e, x[lo:hi, …], …)`; the header `def name(args):` and the `assert e` lines after it;
  arbitrary nesting, any indentation step `w > 0` (`_print_*`: 2; after yapf: 4), any column.

  NOT covered: `free(x)` (never present before compilation), the `# @instr` comment (a comment:
  not syntax, not read back), `Window(...)` types (never printed in a procedure), and — the
  recorded finding — `bool`/`stride` arguments, which the real printer annotates with a memory.

  The theorems are on TOKEN lines; that the characters (`ppBlockS`, in both styles) lex to these
  tokens is checked by the correspondence run (driver `Drivers/C17S.lean`, `harness/printstmt.py`)
  on every compared procedure, not proved.  Identifier validity (`identOK`) is therefore not a
  hypothesis of the token-level theorems; it is what the lexer needs (`ident_lexes_back`).
-/
import ExoModel.Lemmas.PrintStmtProc
import ExoModel.Lemmas.PrintStmtNorm
import ExoModel.Lemmas.PrintExprXEmbed

namespace Exo.PrintStmt.C17Stmt
open Exo Exo.Print Exo.PrintStmt

/-! ## the concrete program used for non-vacuity -/

private def v (s : String) : XExpr := .var s []
private def n0 : XExpr := .const false "0"

/-- loop nest with if/else (nested `if` in the `else`), allocations, a window statement, a
    reduction with a negative literal, config read and write, `stride(…)`, extern calls (nested,
    without arguments, under a unary minus), and a call with a window argument -/
def demo : List PStmt := [
  .alloc "tmp" .f32 [.bin .add (v "n") (.const false "1"), .const false "2"] (some "DRAM"),
  .alloc "t" .R [] none,
  .loop false "i" n0 (v "n") [
    .loop true "jj" (.const false "1") (.bin .sub (v "m") (.const false "1")) [
      .ite (.bin .and (.bin .lt (v "i") (.const false "3")) (.bin .eq (v "jj") (.cfg "Cfg" "k")))
        [.assign "x" [v "i", v "jj"]
          (.bin .mul (.const false "2.0") (.call "relu" [.var "x" [v "i", v "jj"]]))]
        [.ite (v "b") [.reduce "x" [v "i", v "jj"] (.const true "1.5")] [.pass]],
      .ite (.bin .eq (.call "stride" [v "x", n0]) (.const false "1"))
        [.assign "t" [] (.neg (.call "select" [.var "x" [v "i", v "jj"], .cfg "Cfg" "a",
            .bin .add (v "s") (.const true "2.0"), .call "zero" []]))] []],
    .window "w" "x" [.iv n0 (v "n"), .pt (.bin .sub (v "i") (.const true "1"))],
    .call "callee" [.e (v "n"), .win "x" [.pt (v "i"), .iv n0 (v "n")],
      .e (.bin .mul (.cfg "Cfg" "a") (v "s"))]],
  .writeCfg "Cfg" "a" (.bin .add (.cfg "Cfg" "a") (v "s")),
  .call "noargs" []]

def demoProc : PProc :=
  ⟨"foo", [⟨"n", .size⟩, ⟨"m", .size⟩, ⟨"b", .ctrl .bool none⟩,
           ⟨"x", .num .f32 [v "n", v "m"] false (some "DRAM")⟩,
           ⟨"w0", .num .f32 [.bin .add (v "n") (.const true "1")] true (some "DRAM")⟩,
           ⟨"s", .num .f32 [] false (some "DRAM")⟩, ⟨"j", .index⟩],
   [.bin .eq (.bin .mod (v "n") (.const false "4")) n0,
    .bin .eq (.call "stride" [v "w0", n0]) (.const false "1")], demo⟩

/-- the characters the real `str(p)` shows for it (style `fmt`) -/
example : ppProcS .fmt 0 demoProc = [
    "def foo(n: size, m: size, b: bool, x: f32[n, m] @ DRAM, w0: [f32][n + -1] @ DRAM, s: f32 @ DRAM, j: index):",
    "    assert n % 4 == 0",
    "    assert stride(w0, 0) == 1",
    "    tmp: f32[n + 1, 2] @ DRAM",
    "    t: R",
    "    for i in seq(0, n):",
    "        for jj in par(1, m - 1):",
    "            if i < 3 and jj == Cfg.k:",
    "                x[i, jj] = 2.0 * relu(x[i, jj])",
    "            else:",
    "                if b:",
    "                    x[i, jj] += -1.5",
    "                else:",
    "                    pass",
    "            if stride(x, 0) == 1:",
    "                t = -select(x[i, jj], Cfg.a, s + -2.0, zero())",
    "        w = x[0:n, i - -1]",
    "        callee(n, x[i, 0:n], Cfg.a * s)",
    "    Cfg.a = Cfg.a + s",
    "    noargs()"] := by decide

/-- … and the characters `_print_proc` returns (style `raw`), first lines -/
example : (ppProcS .raw 0 demoProc).take 4 = [
    "def foo(n : size, m : size, b : bool, x : f32[n, m] @DRAM, w0 : [f32][n + -1] @DRAM, s : f32 @DRAM, j : index):",
    "  assert n % 4 == 0",
    "  assert stride(w0, 0) == 1",
    "  tmp : f32[n + 1, 2] @DRAM"] := by decide

/-! ## the extended expressions -/

/-- **Expression round trip, extended** (C17(b) with the atoms `Cfg.f`, `stride(x, d)`,
    `f(a, …)`): for every `e` in which no comparison is the direct left operand of a comparison,
    the printed tokens parse back to `e`, negative literals becoming `-` applied to the literal. -/
theorem parse_print_x (e : XExpr) (h : wfX e = true) : parseX (ppX 0 e) = some (normX e) :=
  parseX_ppX e h

/-- … and to `e` itself when it has no negative literal -/
theorem parse_print_x_exact (e : XExpr) (h : wfX e = true) (hn : noNegX e = true) :
    parseX (ppX 0 e) = some e := by
  rw [parseX_ppX e h, normX_id e hn]

example : ppXS 0 (.bin .mul (.neg (.call "select" [.var "x" [v "i"], .cfg "Cfg" "a",
      .bin .add (v "s") (.const true "2.0"), .call "zero" []]))
      (.bin .sub (.call "stride" [v "x", n0]) (.bin .sub (.cfg "C" "k") (.call "relu" [v "y"]))))
    = "-select(x[i], Cfg.a, s + -2.0, zero()) * (stride(x, 0) - (C.k - relu(y)))" := by decide
example : parseX (ppX 0 (.bin .mul (.neg (.call "select" [.var "x" [v "i"], .cfg "Cfg" "a",
      .bin .add (v "s") (.const true "2.0"), .call "zero" []]))
      (.bin .sub (.call "stride" [v "x", n0]) (.bin .sub (.cfg "C" "k") (.call "relu" [v "y"])))))
    = some (.bin .mul (.neg (.call "select" [.var "x" [v "i"], .cfg "Cfg" "a",
      .bin .add (v "s") (.neg (.const false "2.0")), .call "zero" []]))
      (.bin .sub (.call "stride" [v "x", n0]) (.bin .sub (.cfg "C" "k") (.call "relu" [v "y"])))) :=
  parse_print_x _ (by decide)
/-- the extension is conservative: on the expressions of C17(b) (embedded by `ofPExpr`) the
    extended printer emits the same tokens and the extended parser reads them back as the
    embedded `norm e` — the statement of `Exo.Print.C17.parse_print` -/
theorem parse_print_x_extends (e : PExpr) (h : wf e = true) :
    ppX 0 (ofPExpr e) = (ppT 0 e).map STok.t ∧
    parseX ((ppT 0 e).map STok.t) = some (ofPExpr (norm e)) := by
  refine ⟨ppX_ofPExpr 0 e, ?_⟩
  rw [← ppX_ofPExpr 0 e, parse_print_x _ (by rw [wfX_ofPExpr]; exact h), normX_ofPExpr]

example : wf (.bin .sub (.var "a" []) (.const true "3")) = true ∧
    parseX ((ppT 0 (.bin .sub (.var "a" []) (.const true "3"))).map STok.t)
      = some (.bin .sub (.var "a" []) (.neg (.const false "3"))) :=
  ⟨by decide, (parse_print_x_extends _ (by decide)).2⟩

/-- `stride(x, 0)` is the call form with callee `stride`; `parse_expr`'s shape test -/
example : isStrideForm (.call "stride" [v "x", n0]) = true ∧
    isStrideForm (.call "stride" [.var "x" [n0], n0]) = false ∧
    isStrideForm (.call "relu" [v "x", n0]) = false := by decide

/-! ## the round trip of a statement block -/

/-- **Statement-level round trip.**  For every statement list `ss` that is well-formed
    (`wfS`: every expression is `wfX`, i.e. `wf` as in `parse_print`; every `for`/`if` body is non-empty;
    every window expression has at least one interval), every indentation step `w > 0` and every
    start column `ind`: the printed token lines parse back to `ss` with the expression
    normalisation applied inside. -/
theorem parse_print_stmt (w : Nat) (hw : 0 < w) (ind : Nat) (ss : List PStmt)
    (h : wfS ss = true) : parseLines (ppBlock w ind ss) = some (normS ss) :=
  parseLines_ppBlock w hw ind ss h

example : wfS demo = true := by decide
example : parseLines (ppBlock 4 4 demo) = some (normS demo) :=
  parse_print_stmt 4 (by decide) 4 demo (by decide)
example : parseLines (ppBlock 2 2 demo) = some (normS demo) :=
  parse_print_stmt 2 (by decide) 2 demo (by decide)
/-- the normalisation is not the identity on `demo` (negative literals are re-read as `-(…)`) -/
example : (normS demo).length = 5 ∧
    (match normS demo with
     | _ :: _ :: .loop _ _ _ _ [_, .window _ _ [_, .pt (.bin .sub _ (.neg (.const false "1")))], _]
        :: _ => true
     | _ => false) = true := by decide

/-- … and to `ss` itself when no literal is negative -/
theorem parse_print_stmt_exact (w : Nat) (hw : 0 < w) (ind : Nat) (ss : List PStmt)
    (h : wfS ss = true) (hn : noNegS ss = true) : parseLines (ppBlock w ind ss) = some ss := by
  rw [parse_print_stmt w hw ind ss h, normS_id ss hn]

example : parseLines (ppBlock 4 0
    [.loop false "i" n0 (v "n") [.ite (.bin .lt (v "i") (.const false "2"))
      [.window "w" "x" [.iv n0 (v "n")], .call "f" [.e (v "w")]] [.alloc "t" .i8 [v "n"] none]]])
    = some [.loop false "i" n0 (v "n") [.ite (.bin .lt (v "i") (.const false "2"))
      [.window "w" "x" [.iv n0 (v "n")], .call "f" [.e (v "w")]] [.alloc "t" .i8 [v "n"] none]]] :=
  parse_print_stmt_exact 4 (by decide) 0 _ (by decide) (by decide)

/-- the same inside a larger text: a printed block followed by anything shallower (or nothing) is
    read up to exactly that point, with any sufficient fuel -/
theorem parse_print_block_prefix (w : Nat) (hw : 0 < w) (col : Nat) (ss : List PStmt)
    (h : wfS ss = true) (rest : List Line) (hr : RestOK col rest) (f : Nat)
    (hf : needB ss ≤ f) :
    parseBlock f col (ppBlock w col ss ++ rest) = some (normS ss, rest) :=
  blockRT_all w hw ss h col f rest hf hr

example : RestOK 8 [⟨4, [.kwPass]⟩] ∧ needB demo ≤ 100 := ⟨by show 4 < 8; decide, by decide⟩
example : parseBlock 100 8 (ppBlock 4 8 demo ++ [⟨4, [.kwPass]⟩]) = some (normS demo, [⟨4, [.kwPass]⟩]) :=
  parse_print_block_prefix 4 (by decide) 8 demo (by decide) _ (by show 4 < 8; decide) 100 (by decide)

/-! ## the hypotheses are needed (each is a point where printed text is NOT read back) -/

/-- a `WindowStmt` whose accesses are all points is printed `w = x[i, 0]`, which is read as an
    ASSIGNMENT of the element `x[i, 0]` -/
theorem window_points_only_misread :
    wfS [.window "w" "x" [.pt (v "i"), .pt n0]] = false ∧
    ppBlockS .fmt 0 [.window "w" "x" [.pt (v "i"), .pt n0]] = ["w = x[i, 0]"] ∧
    parseLines (ppBlock 4 0 [.window "w" "x" [.pt (v "i"), .pt n0]])
      = some [.assign "w" [] (.var "x" [v "i", n0])] := by
  refine ⟨by decide, by decide, rfl⟩

/-- a window ARGUMENT whose accesses are all points is read as an ordinary read -/
theorem window_arg_points_only_misread :
    parseLines (ppBlock 4 0 [.call "f" [.win "x" [.pt (v "i")]]])
      = some [.call "f" [.e (.var "x" [v "i"])]] := rfl

/-- an empty loop body: the header alone is printed, which is not a block (Python: "expected an
    indented block"; the real `str(p)` raises inside yapf) -/
theorem empty_body_not_read_back :
    ppBlockS .raw 0 [.loop false "i" n0 (v "n") [], .pass] = ["for i in seq(0, n):", "pass"] ∧
    parseLines (ppBlock 2 0 [.loop false "i" n0 (v "n") [], .pass]) = none := by
  refine ⟨by decide, rfl⟩

/-- an `If` with an empty body and a non-empty `orelse` likewise -/
theorem empty_if_body_not_read_back :
    parseLines (ppBlock 2 0 [.ite (v "b") [] [.pass]]) = none := rfl

/-- a comparison that is the left operand of a comparison (excluded by `wf`, see
    `Exo.Print.C17.comparison_chain_misread`) is mis-read at statement level too -/
theorem comparison_chain_misread_stmt :
    parseLines (ppBlock 4 0 [.assign "y" [] (.bin .lt (.bin .lt (v "a") (v "b")) (v "c"))])
      = some [.assign "y" [] (.bin .and (.bin .lt (v "a") (v "b")) (.bin .lt (v "b") (v "c")))] :=
  rfl

/-! ## the procedure header -/

/-- **Procedure round trip.**  `def name(args):` (`n: size`, `i: index`, `b: bool`,
    `x: T[…] @ MEM`, `w: [T][…] @ MEM`, scalars), the `assert e` lines, and the body: for every
    procedure satisfying `wfProc` (argument types other than `bool`/`stride`-with-memory; window
    arguments have a shape; well-formed assertions and body; assertions and body not both empty)
    the printed token lines parse back to the procedure.
    Not a `_partial`: what remains outside is (1) the recorded finding — the real `_print_fnarg`
    prints `bool @MEM`/`stride @MEM`, which is NOT read back (`ctrl_arg_with_memory_rejected`,
    `bool_arg_not_read_back`), so the statement is false there — and (2) the `# @instr` comment,
    which is not syntax. -/
theorem parse_print_proc (w : Nat) (hw : 0 < w) (ind : Nat) (p : PProc)
    (h : wfProc p = true) : parseProc (ppProc w ind p) = some (normProc p) :=
  parseProc_rt w hw ind p h

example : wfProc demoProc = true := by decide
example : parseProc (ppProc 4 0 demoProc) = some (normProc demoProc) :=
  parse_print_proc 4 (by decide) 0 demoProc (by decide)

/-- the recorded defect (`reparse:rejected:ParseError:size types should not be annotated with
    memory locations`), in general: whatever follows, an argument type printed as `bool @MEM` or
    `stride @MEM` is rejected -/
theorem ctrl_arg_with_memory_rejected (k : CtrlK) (m : String) (ts : List STok) :
    parseFnTy (fnTyT (.ctrl k (some m)) ++ ts) = none :=
  parseFnTy_ctrl_mem k m ts

/-- what the real printer emits for a `bool` argument -/
def boolProc : PProc := ⟨"f", [⟨"n", .size⟩, ⟨"b", .ctrl .bool (some "DRAM")⟩], [], [.pass]⟩

/-- kernel-checked witness: `def f(n: size, b: bool @ DRAM): pass` is printed and NOT read back;
    without the annotation it is -/
theorem bool_arg_not_read_back :
    ppProcS .fmt 0 boolProc = ["def f(n: size, b: bool @ DRAM):", "    pass"] ∧
    parseProc (ppProc 4 0 boolProc) = none ∧
    parseProc (ppProc 4 0 ⟨"f", [⟨"n", .size⟩, ⟨"b", .ctrl .bool none⟩], [], [.pass]⟩)
      = some ⟨"f", [⟨"n", .size⟩, ⟨"b", .ctrl .bool none⟩], [], [.pass]⟩ := by
  refine ⟨by decide, rfl, rfl⟩

/-- an empty procedure body without assertions is not read back (excluded by `wfProc`) … -/
theorem empty_proc_body_not_read_back : parseProc (ppProc 4 0 ⟨"f", [], [], []⟩) = none := rfl

/-- … but assertions alone are a block: a procedure with assertions and an empty body IS read
    back (Python accepts `def f(n: size): assert n > 0`, `parse_fdef` splits the assertions off) -/
example : parseProc (ppProc 4 0 ⟨"f", [⟨"n", .size⟩], [.bin .gt (v "n") n0], []⟩)
    = some ⟨"f", [⟨"n", .size⟩], [.bin .gt (v "n") n0], []⟩ :=
  parse_print_proc 4 (by decide) 0 _ (by decide)

/-- an `assert` after a statement is not part of the language (`parse_stmt_block`: "predicate
    assert should happen at the beginning of a function") -/
theorem assert_after_statement_rejected :
    parseProc [⟨0, defHeadT "f" [⟨"n", .size⟩]⟩, ⟨4, [.kwPass]⟩,
      ⟨4, .kwAssert :: ppX 0 (.bin .gt (v "n") n0)⟩] = none := rfl

/-! ## text level: what the lexer needs of an identifier -/

/-- a valid identifier that is not a keyword is read back as that identifier (a name such as
    `for`, `in`, `and`, `True` would be read as a keyword/operator/literal) -/
theorem ident_lexes_back (x : String) (h : identOK x = true) : wordSTok x = .t (.id x) := by
  unfold identOK at h
  split at h
  · simp at h
  · simp only [Bool.and_eq_true, Bool.not_eq_true'] at h
    have hr := h.2
    simp only [reservedWords, List.contains_cons, List.contains_nil, Bool.or_false,
      Bool.or_eq_false_iff] at hr
    obtain ⟨h1, h2, h3, h4, h5, h6, h7, h8, h9, h10, _, _, _, _, _, _, h17, _⟩ := hr
    simp [wordSTok, keywordTok, wordTok, h1, h2, h3, h4, h5, h6, h7, h8, h9, h10, h17]

example : identOK "x_1" = true ∧ identOK "for" = false ∧ identOK "1x" = false ∧
    identOK "" = false ∧ identOK "True" = false := by decide
example : wordSTok "for" = .kwFor ∧ wordSTok "and" = .t (.op .and) := by decide

end Exo.PrintStmt.C17Stmt
