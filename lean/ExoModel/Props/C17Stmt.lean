/-
  C17, statement level — the printed procedure BODY (and header) read back through the front end
  is the procedure, up to the expression normalisation `norm` (a negative literal `-3` is read
  as `-(3)`).

  Model: `ExoModel.PrintStmt` (`ppStmt`/`ppBlock`/`ppProc` = `_print_stmt`/`_print_block`/
  `_print_proc` as token lines; `parseBlock`/`parseLines`/`parseProc` = Python's
  indentation-based block structure + `pyparser.parse_stmt_block`/`parse_fdef` on the printed
  sub-language).  Names are already resolved (that is part (a) of C17), expressions are part (b)
  (`Exo.Print.C17.parse_print`), which is used here as a lemma.

  Covered statement forms: `pass`, `x[…] = e`, `x[…] += e`, `Cfg.f = e`,
  `x : T[…] @ MEM` (T ∈ R f16 f32 f64 i8 i32 ui8 ui16; scalar or tensor; with/without memory),
  `w = x[lo:hi, pt, …]`, `for i in seq(lo, hi):` / `par`, `if c:` with and without `else:`
  (a nested `if` in an `else` is printed as `else:` + indented `if`, never `elif`),
  `f(e, x[lo:hi, …], …)`; arbitrary nesting, any indentation step `w > 0` (`_print_*`: 2;
  after yapf: 4), any start column.

  NOT covered (no constructor in `PStmt`/`PExpr`; the tie counts procedures that use them):
  `free(x)` (never present before compilation), `stride(x, d)`, extern calls and `Cfg.f` reads
  inside expressions, `assert` lines and the `# @instr` comment of the header, `Window(...)`
  types (never printed in a procedure).

  The theorems are on TOKEN lines; that the characters (`ppBlockS`, in both styles) lex to these
  tokens is checked by the correspondence run (driver `Drivers/C17S.lean`, `harness/printstmt.py`)
  on every compared procedure, not proved.  Identifier validity (`identOK`) is therefore not a
  hypothesis of the token-level theorems; it is what the lexer needs (`ident_lexes_back`).
-/
import ExoModel.Lemmas.PrintStmtProc
import ExoModel.Lemmas.PrintStmtNorm

namespace Exo.PrintStmt.C17Stmt
open Exo Exo.Print Exo.PrintStmt

/-! ## the concrete program used for non-vacuity -/

private def v (s : String) : PExpr := .var s []
private def n0 : PExpr := .const false "0"

/-- loop nest with if/else (nested `if` in the `else`), allocations, a window statement, a
    reduction with a negative literal, a config write, and a call with a window argument -/
def demo : List PStmt := [
  .alloc "tmp" .f32 [.bin .add (v "n") (.const false "1"), .const false "2"] (some "DRAM"),
  .alloc "t" .R [] none,
  .loop false "i" n0 (v "n") [
    .loop true "jj" (.const false "1") (.bin .sub (v "m") (.const false "1")) [
      .ite (.bin .and (.bin .lt (v "i") (.const false "3")) (.bin .eq (v "jj") (.const false "2")))
        [.assign "x" [v "i", v "jj"] (.bin .mul (.const false "2.0") (v "s"))]
        [.ite (v "b") [.reduce "x" [v "i", v "jj"] (.const true "1.5")] [.pass]],
      .ite (.bin .lt (v "jj") (v "i")) [.assign "t" [] (.neg (.var "x" [v "i", v "jj"]))] []],
    .window "w" "x" [.iv n0 (v "n"), .pt (.bin .sub (v "i") (.const true "1"))],
    .call "callee" [.e (v "n"), .win "x" [.pt (v "i"), .iv n0 (v "n")], .e (v "s")]],
  .writeCfg "Cfg" "a" (v "s"),
  .call "noargs" []]

def demoProc : PProc :=
  ⟨"foo", [⟨"n", .size⟩, ⟨"m", .size⟩, ⟨"b", .ctrl .bool none⟩,
           ⟨"x", .num .f32 [v "n", v "m"] false (some "DRAM")⟩,
           ⟨"w0", .num .f32 [.bin .add (v "n") (.const true "1")] true (some "DRAM")⟩,
           ⟨"s", .num .f32 [] false (some "DRAM")⟩, ⟨"j", .index⟩], demo⟩

/-- the characters the real `str(p)` shows for it (style `fmt`) -/
example : ppProcS .fmt 0 demoProc = [
    "def foo(n: size, m: size, b: bool, x: f32[n, m] @ DRAM, w0: [f32][n + -1] @ DRAM, s: f32 @ DRAM, j: index):",
    "    tmp: f32[n + 1, 2] @ DRAM",
    "    t: R",
    "    for i in seq(0, n):",
    "        for jj in par(1, m - 1):",
    "            if i < 3 and jj == 2:",
    "                x[i, jj] = 2.0 * s",
    "            else:",
    "                if b:",
    "                    x[i, jj] += -1.5",
    "                else:",
    "                    pass",
    "            if jj < i:",
    "                t = -x[i, jj]",
    "        w = x[0:n, i - -1]",
    "        callee(n, x[i, 0:n], s)",
    "    Cfg.a = s",
    "    noargs()"] := by decide

/-- … and the characters `_print_proc` returns (style `raw`), first lines -/
example : (ppProcS .raw 0 demoProc).take 3 = [
    "def foo(n : size, m : size, b : bool, x : f32[n, m] @DRAM, w0 : [f32][n + -1] @DRAM, s : f32 @DRAM, j : index):",
    "  tmp : f32[n + 1, 2] @DRAM",
    "  t : R"] := by decide

/-! ## the round trip of a statement block -/

/-- **Statement-level round trip.**  For every statement list `ss` that is well-formed
    (`wfS`: every expression is `wf` as in `parse_print`; every `for`/`if` body is non-empty;
    every window expression has at least one interval), every indentation step `w > 0` and every
    start column `ind`: the printed token lines parse back to `ss` with the expression
    normalisation applied inside. -/
theorem parse_print_stmt (w : Nat) (hw : 0 < w) (ind : Nat) (ss : List PStmt)
    (h : wfS ss = true) : parseLines (ppBlock w ind ss) = some (normS ss) :=
  parseLines_ppBlock w hw ind ss h

example : wfS demo = true := by decide
example : parseLines (ppBlock 4 4 demo) = some (normS demo) :=
  parse_print_stmt 4 (by decide) 4 demo (by decide)
example : parseLines (ppBlock 2 2 demo) = some (normS demo) :=
  parse_print_stmt 2 (by decide) 2 demo (by decide)
/-- the normalisation is not the identity on `demo` (negative literals are re-read as `-(…)`) -/
example : (normS demo).length = 5 ∧
    (match normS demo with
     | _ :: _ :: .loop _ _ _ _ [_, .window _ _ [_, .pt (.bin .sub _ (.neg (.const false "1")))], _]
        :: _ => true
     | _ => false) = true := by decide

/-- … and to `ss` itself when no literal is negative -/
theorem parse_print_stmt_exact (w : Nat) (hw : 0 < w) (ind : Nat) (ss : List PStmt)
    (h : wfS ss = true) (hn : noNegS ss = true) : parseLines (ppBlock w ind ss) = some ss := by
  rw [parse_print_stmt w hw ind ss h, normS_id ss hn]

example : parseLines (ppBlock 4 0
    [.loop false "i" n0 (v "n") [.ite (.bin .lt (v "i") (.const false "2"))
      [.window "w" "x" [.iv n0 (v "n")], .call "f" [.e (v "w")]] [.alloc "t" .i8 [v "n"] none]]])
    = some [.loop false "i" n0 (v "n") [.ite (.bin .lt (v "i") (.const false "2"))
      [.window "w" "x" [.iv n0 (v "n")], .call "f" [.e (v "w")]] [.alloc "t" .i8 [v "n"] none]]] :=
  parse_print_stmt_exact 4 (by decide) 0 _ (by decide) (by decide)

/-- the same inside a larger text: a printed block followed by anything shallower (or nothing) is
    read up to exactly that point, with any sufficient fuel -/
theorem parse_print_block_prefix (w : Nat) (hw : 0 < w) (col : Nat) (ss : List PStmt)
    (h : wfS ss = true) (rest : List Line) (hr : RestOK col rest) (f : Nat)
    (hf : needB ss ≤ f) :
    parseBlock f col (ppBlock w col ss ++ rest) = some (normS ss, rest) :=
  blockRT_all w hw ss h col f rest hf hr

example : RestOK 8 [⟨4, [.kwPass]⟩] ∧ needB demo ≤ 100 := ⟨by show 4 < 8; decide, by decide⟩
example : parseBlock 100 8 (ppBlock 4 8 demo ++ [⟨4, [.kwPass]⟩]) = some (normS demo, [⟨4, [.kwPass]⟩]) :=
  parse_print_block_prefix 4 (by decide) 8 demo (by decide) _ (by show 4 < 8; decide) 100 (by decide)

/-! ## the hypotheses are needed (each is a point where printed text is NOT read back) -/

/-- a `WindowStmt` whose accesses are all points is printed `w = x[i, 0]`, which is read as an
    ASSIGNMENT of the element `x[i, 0]` -/
theorem window_points_only_misread :
    wfS [.window "w" "x" [.pt (v "i"), .pt n0]] = false ∧
    ppBlockS .fmt 0 [.window "w" "x" [.pt (v "i"), .pt n0]] = ["w = x[i, 0]"] ∧
    parseLines (ppBlock 4 0 [.window "w" "x" [.pt (v "i"), .pt n0]])
      = some [.assign "w" [] (.var "x" [v "i", n0])] := by
  refine ⟨by decide, by decide, rfl⟩

/-- a window ARGUMENT whose accesses are all points is read as an ordinary read -/
theorem window_arg_points_only_misread :
    parseLines (ppBlock 4 0 [.call "f" [.win "x" [.pt (v "i")]]])
      = some [.call "f" [.e (.var "x" [v "i"])]] := rfl

/-- an empty loop body: the header alone is printed, which is not a block (Python: "expected an
    indented block"; the real `str(p)` raises inside yapf) -/
theorem empty_body_not_read_back :
    ppBlockS .raw 0 [.loop false "i" n0 (v "n") [], .pass] = ["for i in seq(0, n):", "pass"] ∧
    parseLines (ppBlock 2 0 [.loop false "i" n0 (v "n") [], .pass]) = none := by
  refine ⟨by decide, rfl⟩

/-- an `If` with an empty body and a non-empty `orelse` likewise -/
theorem empty_if_body_not_read_back :
    parseLines (ppBlock 2 0 [.ite (v "b") [] [.pass]]) = none := rfl

/-- a comparison that is the left operand of a comparison (excluded by `wf`, see
    `Exo.Print.C17.comparison_chain_misread`) is mis-read at statement level too -/
theorem comparison_chain_misread_stmt :
    parseLines (ppBlock 4 0 [.assign "y" [] (.bin .lt (.bin .lt (v "a") (v "b")) (v "c"))])
      = some [.assign "y" [] (.bin .and (.bin .lt (v "a") (v "b")) (.bin .lt (v "b") (v "c")))] :=
  rfl

/-! ## the procedure header -/

/-- PARTIAL (missing w.r.t. "the printed procedure denotes the procedure": `assert` lines and the
    `# @instr` comment are not modelled; `wfProc` excludes `bool`/`stride` arguments that carry a
    memory annotation — which the real `_print_fnarg` ALWAYS prints for them, see below — so for
    real procedures with a `bool` argument the hypothesis does not hold; full statement:
    `∀ p, parseProc (ppProc w ind p) = some (normProc p)`).
    `def name(args):` with `n: size`, `i: index`, `b: bool`, `x: T[…] @ MEM`, `w: [T][…] @ MEM`,
    scalars, followed by a well-formed non-empty body, is read back. -/
theorem parse_print_proc_partial (w : Nat) (hw : 0 < w) (ind : Nat) (p : PProc)
    (h : wfProc p = true) : parseProc (ppProc w ind p) = some (normProc p) :=
  parseProc_rt w hw ind p h

example : wfProc demoProc = true := by decide
example : parseProc (ppProc 4 0 demoProc) = some (normProc demoProc) :=
  parse_print_proc_partial 4 (by decide) 0 demoProc (by decide)

/-- the recorded defect (`reparse:rejected:ParseError:size types should not be annotated with
    memory locations`), in general: whatever follows, an argument type printed as `bool @MEM` or
    `stride @MEM` is rejected -/
theorem ctrl_arg_with_memory_rejected (k : CtrlK) (m : String) (ts : List STok) :
    parseFnTy (fnTyT (.ctrl k (some m)) ++ ts) = none :=
  parseFnTy_ctrl_mem k m ts

/-- what the real printer emits for a `bool` argument -/
def boolProc : PProc := ⟨"f", [⟨"n", .size⟩, ⟨"b", .ctrl .bool (some "DRAM")⟩], [.pass]⟩

/-- kernel-checked witness: `def f(n: size, b: bool @ DRAM): pass` is printed and NOT read back;
    without the annotation it is -/
theorem bool_arg_not_read_back :
    ppProcS .fmt 0 boolProc = ["def f(n: size, b: bool @ DRAM):", "    pass"] ∧
    parseProc (ppProc 4 0 boolProc) = none ∧
    parseProc (ppProc 4 0 ⟨"f", [⟨"n", .size⟩, ⟨"b", .ctrl .bool none⟩], [.pass]⟩)
      = some ⟨"f", [⟨"n", .size⟩, ⟨"b", .ctrl .bool none⟩], [.pass]⟩ := by
  refine ⟨by decide, rfl, rfl⟩

/-- an empty procedure body is not read back either (excluded by `wfProc`) -/
theorem empty_proc_body_not_read_back : parseProc (ppProc 4 0 ⟨"f", [], []⟩) = none := rfl

/-! ## text level: what the lexer needs of an identifier -/

/-- a valid identifier that is not a keyword is read back as that identifier (a name such as
    `for`, `in`, `and`, `True` would be read as a keyword/operator/literal) -/
theorem ident_lexes_back (x : String) (h : identOK x = true) : wordSTok x = .t (.id x) := by
  unfold identOK at h
  split at h
  · simp at h
  · simp only [Bool.and_eq_true, Bool.not_eq_true'] at h
    have hr := h.2
    simp only [reservedWords, List.contains_cons, List.contains_nil, Bool.or_false,
      Bool.or_eq_false_iff] at hr
    obtain ⟨h1, h2, h3, h4, h5, h6, h7, h8, h9, h10, _⟩ := hr
    simp [wordSTok, keywordTok, wordTok, h1, h2, h3, h4, h5, h6, h7, h8, h9, h10]

example : identOK "x_1" = true ∧ identOK "for" = false ∧ identOK "1x" = false ∧
    identOK "" = false ∧ identOK "True" = false := by decide
example : wordSTok "for" = .kwFor ∧ wordSTok "and" = .t (.op .and) := by decide

end Exo.PrintStmt.C17Stmt
