/-
  Property C19 — signature- and annotation-changing utilities keep the loop nest.

  Property theorems only (models: ExoModel/SigOps.lean, substitution: ExoModel/Subst.lean, lemmas:
  ExoModel/Lemmas/Subst.lean, ExoModel/Lemmas/SigOps.lean, ExoModel/Lemmas/Transpose.lean).
  Every theorem quantifies over all procedures, all data algebras `V`, all interpretations `ext`
  of extern functions and all states.  "Behaviour" is `run` (what the reference driver does with a
  procedure and an initial state: shape check, assertions, aliasing check, body in its own scope),
  and results are compared *exactly* (same final state or the same monitor), except for `transpose`
  where the identity of a tripping monitor may differ (`ExEq`).
-/
import ExoModel.SigOps
import ExoModel.Lemmas.Subst
import ExoModel.Lemmas.SigOps
import ExoModel.Lemmas.Transpose
import ExoModel.DataLaws

set_option linter.unusedSectionVars false
set_option linter.unusedVariables false
set_option linter.unusedSimpArgs false
namespace Exo.C19
open Exo Exo.SigOps

variable {V : Type} [DataAlg V] (ext : String → List V → V)

/-- the refusal of a model answer, for the examples -/
def rejOf {α} : Except Rej α → Option Rej
  | .error e => some e
  | .ok _ => none

/-- the monitor that tripped, for the examples -/
def errOf {α} : Except Err α → Option Err
  | .error e => some e
  | .ok _ => none

/-! ## (i) substitution and `partial_eval` -/

/-- **substitution lemma (control expressions)**: if `r` has value `v` in `σ`, then `e[r/x]`
    evaluated in `σ` is `e` evaluated in `σ` extended by `x ↦ v`.  No side condition. -/
theorem subst_evalC (x : Sym) (r : Expr) (v : Int) (e : Expr) (σ : State V)
    (hr : evalC σ r = .ok v) : evalC σ (Expr.substC x r e) = evalC (σ.bind x v) e :=
  evalC_subst x r v e σ hr

example : (evalC (V := Int) ⟨[(⟨"n", 1⟩, 5)], [], [], []⟩
    (Expr.substC ⟨"k", 2⟩ (.binop .add (.read ⟨"n", 1⟩ []) (.lit (.int 1)))
      (.binop .mul (.read ⟨"k", 2⟩ []) (.read ⟨"k", 2⟩ [])))).toOption = some 36 := by decide

/-- substitution lemma, data expressions (the indices of reads are the control positions) -/
theorem subst_evalD (x : Sym) (r : Expr) (v : Int) (e : Expr) (σ : State V)
    (hr : evalC σ r = .ok v) : evalD ext σ (Expr.substD x r e) = evalD ext (σ.bind x v) e :=
  evalD_subst ext x r v e σ hr

/-- **substitution lemma (statements)**: for an environment-only `r` (variables, literals,
    operators) with value `v` in `σ`, none of whose variables is re-bound by a loop of `s`,
    `s[r/x]` run from `σ` does what `s` does from `σ` extended by `x ↦ v`; the substitution itself
    stops at loops that re-bind `x`. -/
theorem subst_execS (x : Sym) (r : Expr) (v : Int) (hre : r.envOnly = true) (s : Stmt) (σ : State V)
    (hr : evalC σ r = .ok v) (hfresh : ∀ i ∈ s.loopVars, r.occC i = false) :
    execS ext (Stmt.subst x r s) σ = (execS ext s (σ.bind x v)).map (·.withEnv σ.env) :=
  execS_subst ext x r v hre s σ hr hfresh

theorem subst_execL (x : Sym) (r : Expr) (v : Int) (hre : r.envOnly = true) (ss : List Stmt)
    (σ : State V) (hr : evalC σ r = .ok v) (hfresh : ∀ i ∈ loopVarsL ss, r.occC i = false) :
    execL ext (substL x r ss) σ = (execL ext ss (σ.bind x v)).map (·.withEnv σ.env) :=
  execL_subst ext x r v hre ss σ hr hfresh

/-- the freshness condition is needed: a loop that binds a variable of `r` captures it -/
example :
    let i : Sym := ⟨"i", 1⟩; let k : Sym := ⟨"k", 2⟩
    let s : Stmt := .loop i (.lit (.int 0)) (.lit (.int 2)) [.writecfg "c" "f" (.read k []) false] false
    (execS (V := Int) (fun _ _ => 0) (Stmt.subst k (.read i []) s) ⟨[(i, 7)], [], [], []⟩).toOption.map (·.cfg.length)
      = some 1 ∧
    ∃ j ∈ s.loopVars, (Expr.read i []).occC j = true := by
  refine ⟨by decide, ⟨"i", 1⟩, by decide, by decide⟩

/-- **coincidence**: execution depends on the control environment only through the free control
    variables of the block -/
theorem env_coincidence (ss : List Stmt) (σ : State V) (E' : List (Sym × Int))
    (h : ∀ y, occL y ss = true → lookupSym y E' = lookupSym y σ.env) :
    execL ext ss (σ.withEnv E') = (execL ext ss σ).map (·.withEnv E') :=
  execL_env ext ss σ E' h

/-- **weakening**: a binding of a variable that does not occur free may be added or dropped -/
theorem env_weakening (ss : List Stmt) (σ : State V) (x : Sym) (v : Int) (hx : occL x ss = false) :
    execL ext ss (σ.bind x v) = (execL ext ss σ).map (·.withEnv ((x, v) :: σ.env)) :=
  execL_weaken ext ss σ x v hx

example : occL ⟨"k", 2⟩ [Stmt.loop ⟨"k", 2⟩ (.lit (.int 0)) (.read ⟨"n", 1⟩ [])
    [.writecfg "c" "f" (.read ⟨"k", 2⟩ []) false] false] = false := by decide

/-- the body of `partial_eval`'s result, run without the fixed arguments, does what the original
    body does with them bound -/
theorem partial_eval_body (p : Proc) (lits : List (Sym × Expr))
    (hl : ∀ xl ∈ lits, xl.2.isCtrlLit = true) (σ : State V) :
    execB ext (partialEvalLits p lits).body σ
      = (execB ext p.body (σ.bindAll (litVals lits))).map (·.withEnv σ.env) := by
  show execB ext (substAll lits p).body σ = _
  exact execB_substAll ext σ lits p hl

/-- the admissible inputs of the result are those of the original with the arguments fixed -/
theorem partial_eval_valid (p : Proc) (lits : List (Sym × Expr))
    (hl : ∀ xl ∈ lits, xl.2.isCtrlLit = true)
    (hd : ∀ a ∈ p.args, lits.any (fun xl => xl.1 = a.name) = true → ∃ k, a.ty = .ctrl k)
    (σ : State V) :
    ValidIn (partialEvalLits p lits) V σ ↔ ValidIn p V (σ.bindAll (litVals lits)) := by
  have hs : checkShapes σ (partialEvalLits p lits).args
      = checkShapes (σ.bindAll (litVals lits)) p.args := by
    show checkShapes σ (dropArgs lits (substAll lits p).args) = _
    unfold dropArgs
    rw [checkShapes_filter_ctrl σ _ _ (fun a ha hk => by
      have := substAll_args_ctrl lits p (fun n => !(lits.any (fun xl => xl.1 = n)))
        (fun b hb hkb => hd b hb (by simpa using hkb)) a ha hk
      exact this)]
    exact checkShapes_substAll σ lits p hl
  have hp : checkPreds σ (partialEvalLits p lits).preds
      = checkPreds (σ.bindAll (litVals lits)) p.preds := by
    show checkPreds σ (if _ then _ else _) = _
    split
    · rw [checkPreds_filter]; exact checkPreds_substAll σ lits p hl
    · exact checkPreds_substAll σ lits p hl
  unfold ValidIn
  rw [hs, hp]
  rfl

/-- **`partial_eval`, fixed literals**: `run (pe p lits) ι = run p (ι ⊕ lits)` -/
theorem partial_eval_lits_run (p : Proc) (lits : List (Sym × Expr))
    (hl : ∀ xl ∈ lits, xl.2.isCtrlLit = true)
    (hd : ∀ a ∈ p.args, lits.any (fun xl => xl.1 = a.name) = true → ∃ k, a.ty = .ctrl k)
    (σ : State V) :
    run ext (partialEvalLits p lits) σ
      = (run ext p (σ.bindAll (litVals lits))).map (·.withEnv σ.env) := by
  have hs : checkShapes σ (partialEvalLits p lits).args
      = checkShapes (σ.bindAll (litVals lits)) p.args := by
    show checkShapes σ (dropArgs lits (substAll lits p).args) = _
    unfold dropArgs
    rw [checkShapes_filter_ctrl σ _ _ (fun a ha hk => by
      have := substAll_args_ctrl lits p (fun n => !(lits.any (fun xl => xl.1 = n)))
        (fun b hb hkb => hd b hb (by simpa using hkb)) a ha hk
      exact this)]
    exact checkShapes_substAll σ lits p hl
  have hp : checkPreds σ (partialEvalLits p lits).preds
      = checkPreds (σ.bindAll (litVals lits)) p.preds := by
    show checkPreds σ (if _ then _ else _) = _
    split
    · rw [checkPreds_filter]; exact checkPreds_substAll σ lits p hl
    · exact checkPreds_substAll σ lits p hl
  unfold run
  rw [hs, hp, partial_eval_body ext p lits hl σ]
  cases checkShapes (σ.bindAll (litVals lits)) p.args with
  | error e => rfl
  | ok _ =>
    cases checkPreds (σ.bindAll (litVals lits)) p.preds with
    | error e => rfl
    | ok _ =>
      simp only [bind, Except.bind, bindAll_views]
      by_cases hc : (!noAlias σ.views) = true <;> simp only [hc, if_true, if_false] <;> rfl

/-- **`partial_eval`**: whenever the model of `p.partial_eval(vals)` answers `q` (the argument
    names of `p` being distinct, as exo guarantees), running `q` on an input without the fixed
    arguments is running `p` on that input with them bound to the given values (booleans as 0/1)
    — same final buffers and configuration, or the same monitor. -/
theorem partial_eval_run (p q : Proc) (vals : List (Sym × Int))
    (hnd : (p.args.map (·.name)).Nodup) (h : partialEval p vals = .ok q) (σ : State V) :
    run ext q σ = (run ext p (σ.bindAll (normVals p.args vals))).map (·.withEnv σ.env) := by
  unfold partialEval at h
  cases h1 : resolveNames p.args vals with
  | error e => simp [h1, bind, Except.bind] at h
  | ok named =>
    simp only [h1, bind, Except.bind] at h
    cases h2 : chooseLits named with
    | error e => simp [h2] at h
    | ok lits =>
      simp only [h2, pure, Except.pure, Except.ok.injEq] at h
      subst h
      obtain ⟨f1, f2, f3⟩ := choose_facts p.args hnd vals named lits h1 h2
      rw [← f2]
      exact partial_eval_lits_run ext p lits f1 f3 σ

/-- non-vacuity: a procedure with a size and a boolean argument, both fixed; the shape `[n]`, the
    assertion `n > 1`, the loop bound and the `if` are specialised and the arguments dropped -/
def pe_demo : Proc :=
  let n : Sym := ⟨"n", 1⟩; let b : Sym := ⟨"b", 2⟩; let x : Sym := ⟨"x", 3⟩; let i : Sym := ⟨"i", 4⟩
  .mk "demo" [⟨n, .ctrl .size⟩, ⟨b, .ctrl .bool⟩, ⟨x, .tensor [.read n []] false⟩]
    [.binop .gt (.read n []) (.lit (.int 1)), .read b []]
    [.loop i (.lit (.int 0)) (.read n []) [.ite (.read b []) [.assign x [.read i []] (.lit (.data 1 1))] []] false]

example : (partialEval pe_demo [(⟨"n", 1⟩, 3), (⟨"b", 2⟩, 1)]).toOption.map
    (fun q => (q.args.length, q.preds.length)) = some (1, 1) := by decide

example : (pe_demo.args.map (·.name)).Nodup := by decide

/-- near misses are refused: numeric arguments, unknown names, `stride` arguments -/
example : rejOf (partialEval pe_demo [(⟨"x", 3⟩, 3)]) = some .notControl := by decide
example : rejOf (partialEval pe_demo [(⟨"zz", 9⟩, 3)]) = some .unknownArg := by decide

/-! ## (ii) annotations: `parallelize_loop`, `rename`, `make_instr`, `set_precision`,
       `set_memory`, `set_window` -/

/-- the sequential semantics does not look at the `par` flag -/
theorem par_flag_ignored (i : Sym) (lo hi : Expr) (b : List Stmt) (σ : State V) :
    execS ext (.loop i lo hi b true) σ = execS ext (.loop i lo hi b false) σ := rfl

/-- … at any depth of loops and branches, with any statements around it (congruence theorem) -/
theorem par_flag_in_context (C : Ctx) (i : Sym) (lo hi : Expr) (b : List Stmt) (par : Bool) :
    BlockEq (C.fill [.loop i lo hi b true]) (C.fill [.loop i lo hi b par]) :=
  ctx_congr (fun V _ ext σ => by cases par <;> exact ExEq.refl _) C

example : BlockEq
    ((Ctx.loop ⟨"j", 1⟩ (.lit (.int 0)) (.lit (.int 3)) false (.seq [.pass] .hole [.pass])).fill
      [.loop ⟨"i", 2⟩ (.lit (.int 0)) (.lit (.int 2)) [.pass] true])
    ((Ctx.loop ⟨"j", 1⟩ (.lit (.int 0)) (.lit (.int 3)) false (.seq [.pass] .hole [.pass])).fill
      [.loop ⟨"i", 2⟩ (.lit (.int 0)) (.lit (.int 2)) [.pass] false]) :=
  par_flag_in_context _ _ _ _ _ _

/-- **`parallelize_loop`**: the result runs exactly like the original from every state -/
theorem parallelize_loop_run (p q : Proc) (path : List (Bool × Nat))
    (h : setLoopPar p path = .ok q) (σ : State V) : run ext q σ = run ext p σ := by
  cases p with
  | mk nm args preds body =>
  unfold setLoopPar at h
  simp only [Proc.body, Proc.name, Proc.args, Proc.preds] at h
  cases hb : setParL path body with
  | none => simp [hb] at h
  | some b =>
    simp only [hb, pure, Except.pure, Except.ok.injEq] at h
    subst h
    have := execL_setParL ext path body b hb
    unfold run execB
    simp only [Proc.args, Proc.preds, Proc.body, this]

/-- and is `Equiv` to it in both directions with no configuration field excepted -/
theorem parallelize_loop_equiv (p q : Proc) (path : List (Bool × Nat))
    (h : setLoopPar p path = .ok q) :
    Equiv (fun _ => False) p q ∧ Equiv (fun _ => False) q p := by
  cases p with
  | mk nm args preds body =>
  unfold setLoopPar at h
  simp only [Proc.body, Proc.name, Proc.args, Proc.preds] at h
  cases hb : setParL path body with
  | none => simp [hb] at h
  | some b =>
    simp only [hb, pure, Except.pure, Except.ok.injEq] at h
    subst h
    constructor
    · intro V _ ext σ o ho
      refine ⟨o, ?_, Refines.refl o⟩
      simp only [execB, Proc.body] at ho ⊢
      rw [execL_setParL ext path body b hb σ]; exact ho
    · intro V _ ext σ o ho
      refine ⟨o, ?_, Refines.refl o⟩
      simp only [execB, Proc.body] at ho ⊢
      rw [← execL_setParL ext path body b hb σ]; exact ho

example : (setLoopPar pe_demo [(false, 0)]).toOption.map (fun q => q.body.length) = some 1 := by
  decide
/-- a path that does not lead to a loop is refused -/
example : rejOf (setLoopPar pe_demo [(false, 0), (false, 0)]) = some .badPath := by decide

/-- **`rename`**: neither running the procedure nor calling it looks at its name -/
theorem rename_run (p : Proc) (nm : String) (σ : State V) :
    run ext (rename p nm) σ = run ext p σ := rfl

theorem rename_call (p : Proc) (nm : String) (args : List Expr) (σ : State V) :
    execP ext (rename p nm) args σ = execP ext p args σ := by
  cases p; rfl

example : (rename pe_demo "other").name = "other" ∧ (rename pe_demo "other").body = pe_demo.body :=
  ⟨rfl, rfl⟩

/-- **`make_instr`, `set_precision`, `set_memory`**: the instruction template, the base types of
    buffers and their memories are not part of the mirror `ExoModel.Syntax` at all — the semantics
    is over an abstract commutative ring (real-number semantics; rounding is outside it) and has one
    flat heap — and the exporter drops them.  The statement is therefore true by construction;
    what ties it to exo is the per-run check that the *exported procedure is unchanged* by these
    three utilities (and that only the targeted declaration's annotation changed). -/
theorem annotations_not_in_model (p : Proc) (σ : State V) : run ext (annotId p) σ = run ext p σ := rfl

example : annotId pe_demo = pe_demo := rfl

/-- **`set_window`**: the shape check does not look at the window flag of a tensor argument -/
theorem set_window_run (p q : Proc) (a : Sym) (w : Bool) (h : setWindow p a w = .ok q)
    (σ : State V) : run ext q σ = run ext p σ := by
  cases p with
  | mk nm pargs preds body =>
  unfold setWindow at h
  simp only [Proc.args, Proc.name, Proc.preds, Proc.body] at h
  split at h
  · cases h
  · cases ha : setWinArgs a w pargs with
    | none => simp [ha] at h
    | some args =>
      simp only [ha, pure, Except.pure, Except.ok.injEq] at h
      subst h
      unfold run
      simp only [Proc.args, Proc.preds, Proc.body, checkShapes_setWin a w σ pargs args ha]

/-- … and neither does argument binding, so calls of the procedure are unaffected -/
theorem set_window_call (p q : Proc) (a : Sym) (w : Bool) (h : setWindow p a w = .ok q)
    (args : List Expr) (σ : State V) : execP ext q args σ = execP ext p args σ := by
  cases p with
  | mk nm pargs preds body =>
  unfold setWindow at h
  simp only [Proc.args, Proc.name, Proc.preds, Proc.body] at h
  split at h
  · cases h
  · cases ha : setWinArgs a w pargs with
    | none => simp [ha] at h
    | some fargs =>
      simp only [ha, pure, Except.pure, Except.ok.injEq] at h
      subst h
      simp only [execP, bindArgs_setWin a w σ pargs fargs ha]
      refine bind_congr (fun cecv => ?_)
      split
      · rfl
      · rw [checkShapes_setWin a w _ pargs fargs ha]

example : (setWindow pe_demo ⟨"x", 3⟩ true).toOption.map (fun q => q.args.length) = some 3 := by
  decide
/-- `set_window(…, False)` crashes in exo (`elif win:`), a control argument is refused -/
example : rejOf (setWindow pe_demo ⟨"x", 3⟩ false) = some .crash := by decide
example : rejOf (setWindow pe_demo ⟨"n", 1⟩ true) = some .badPath := by decide

/-! ## (iii) `add_assertion` -/

/-- the admissible inputs can only shrink -/
theorem add_assertion_narrows (p : Proc) (e : Expr) (σ : State V)
    (h : ValidIn (addAssertion p e) V σ) : ValidIn p V σ := by
  cases p with
  | mk nm pargs preds body =>
  obtain ⟨hp, hs, ha⟩ := h
  refine ⟨?_, hs, ha⟩
  simp only [addAssertion, Proc.preds] at hp
  rw [checkPreds_append] at hp
  cases h1 : checkPreds σ preds with
  | error e => rw [h1] at hp; cases hp
  | ok u => exact h1

/-- the loop nest is the same -/
theorem add_assertion_body (p : Proc) (e : Expr) : (addAssertion p e).body = p.body := rfl

/-- every successful run of the result is a run of the original -/
theorem add_assertion_run_le (p : Proc) (e : Expr) (σ : State V) :
    ExLe (run ext (addAssertion p e) σ) (run ext p σ) := by
  cases p with
  | mk nm pargs preds body =>
  intro o ho
  unfold run at ho ⊢
  simp only [addAssertion, Proc.args, Proc.preds, Proc.body, Proc.name] at ho ⊢
  rw [checkPreds_append] at ho
  cases h0 : checkShapes σ pargs with
  | error e => rw [h0] at ho; cases ho
  | ok _ =>
    rw [h0] at ho
    cases h1 : checkPreds σ preds with
    | error e => rw [h1] at ho; cases ho
    | ok _ =>
      rw [h1] at ho
      cases h2 : checkPreds σ [e] with
      | error e => rw [h2] at ho; cases ho
      | ok _ => rw [h2] at ho; exact ho

/-- on every input that satisfies the new assertion the behaviour is unchanged (exactly) -/
theorem add_assertion_run_eq (p : Proc) (e : Expr) (σ : State V) (v : Int)
    (he : evalC σ e = .ok v) (hv : v ≠ 0) : run ext (addAssertion p e) σ = run ext p σ := by
  cases p with
  | mk nm pargs preds body =>
  unfold run
  simp only [addAssertion, Proc.args, Proc.preds, Proc.body, Proc.name]
  rw [checkPreds_append]
  have h2 : checkPreds σ [e] = .ok () := by
    simp [checkPreds, he, hv, bind, Except.bind, pure, Except.pure]
  rw [h2]
  cases checkShapes σ pargs with
  | error e => rfl
  | ok _ =>
    cases checkPreds σ preds with
    | error e => rfl
    | ok _ => rfl

/-- non-vacuity: an input admissible for `demo` (n = 2, b = true) that the added assertion
    `n > 2` excludes, and one (n = 3) that it keeps -/
example :
    let e : Expr := .binop .gt (.read ⟨"n", 1⟩ []) (.lit (.int 2))
    let σ (n : Int) : State Int := ⟨[(⟨"n", 1⟩, n), (⟨"b", 2⟩, 1)], [(⟨"x", 3⟩, ⟨0, 0, [(n, 1)]⟩)],
      [List.replicate n.toNat none], []⟩
    (checkPreds (σ 2) pe_demo.preds).toOption = some () ∧
    errOf (checkPreds (σ 2) (addAssertion pe_demo e).preds) = some .assertFail ∧
    (checkPreds (σ 3) (addAssertion pe_demo e).preds).toOption = some () := by
  refine ⟨by decide, by decide, by decide⟩

/-! ## (iv) `transpose` -/

/-- **access level**: the cell addressed by `[i, j]` in a 2-D view is the cell addressed by
    `[j, i]` in the view with extents and strides swapped — same offset, same bounds monitor -/
theorem transpose_access (d0 d1 : Int × Int) (i j off : Int) :
    viewOffset [d1, d0] [j, i] off = viewOffset [d0, d1] [i, j] off :=
  viewOffset_swap d0 d1 i j off

example : (viewOffset [(3, 1), (2, 3)] [2, 1] 0).toOption = some 5 ∧
    (viewOffset [(2, 3), (3, 1)] [1, 2] 0).toOption = some 5 := by
  decide

/-- reading `a[j', i']` in the transposed state is reading `a[i, j]` in the original state (the
    primed indices are the originals with `stride(a, d)` renumbered): same value, or both reads trip
    a monitor -/
theorem transpose_read (a : Sym) (σ : State V) (h2 : Is2D a σ.views) (idx : List Expr) :
    ExEq (evalD ext (σ.tr a) (.read a (swap2 (trCs a idx)))) (evalD ext σ (.read a idx)) :=
  read_tr ext a σ h2 idx

/-- a window of `a` with at most one interval coordinate denotes the same view after swapping
    the coordinates (which is why `DoRearrangeDim` refuses windows with two intervals) -/
theorem transpose_window (σ : State V) (d0 d1 : Int × Int) (off : Int) (a0 a1 : WAcc)
    (h : (a0.isInterval && a1.isInterval) = false) :
    ExEq (applyAcc σ [a1, a0] [d1, d0] off) (applyAcc σ [a0, a1] [d0, d1] off) :=
  applyAcc_swap σ d0 d1 off a0 a1 h

/-- **`transpose`, body**: for a block that does not re-declare `a`, does not pass `a` to a
    callee and does not take a two-interval window of it, in every state in which `a` is bound to
    a 2-D view: the rewritten block run on the transposed view of the same buffer ends with the
    same heap and configuration (and the views of the transposed state), or both runs trip a
    monitor. -/
theorem transpose_body (a : Sym) (B : List Stmt) (hdef : defsL a B = false)
    (hpass : passedL a B = false) (hwin : badWinL a B = false) (σ : State V) (h2 : Is2D a σ.views) :
    ExEq (execL ext (trL a B) (σ.tr a)) ((execL ext B σ).map (·.tr a)) :=
  execL_tr ext a B σ hdef hpass hwin h2

/-- the shape check of the transposed signature on the transposed state -/
theorem transpose_shapes (p : Proc) (a : Sym) (args' : List FnArg)
    (h : trArgList a p.args = some args') (hnd : (p.args.map (·.name)).Nodup)
    (hsig : ∀ b ∈ p.args, ∀ e ∈ b.ty.shape, strideFree a e = true) (σ : State V) :
    ExEq (checkShapes (σ.tr a) args') (checkShapes σ p.args) :=
  checkShapes_trArgList a σ p.args args' h hnd hsig

/-- **`transpose`** (`_partial`: assertions).  If no assertion (and no extent) of `p` mentions
    `stride(a, ·)` — and `a` is not declared again in the body, which exo's unique `Sym`s
    guarantee — then for every state: running `p.transpose(a)` on the state whose view of `a` is
    transposed is running `p` on the original state: same final heap and configuration, or both
    trip a monitor.
    What is missing for the full property: `DoRearrangeDim` does not rewrite the predicates, so
    for procedures that assert something about `stride(a, d)` the statement is false
    (`transpose_preds_stale`). -/
theorem transpose_run_partial (p q : Proc) (a : Sym) (hnd : (p.args.map (·.name)).Nodup)
    (hsig : ∀ b ∈ p.args, ∀ e ∈ b.ty.shape, strideFree a e = true)
    (hdef : defsL a p.body = false) (hpreds : ∀ e ∈ p.preds, strideFree a e = true)
    (h : transposeArg p a = .ok q) (σ : State V) :
    ExEq (run ext q (σ.tr a)) ((run ext p σ).map (·.tr a)) :=
  run_tr ext p q a hnd hsig hdef hpreds h σ

/-- non-vacuity: the hypotheses hold for a procedure that reads and writes a 2-D window
    argument, and the model answers -/
def tr_ok_demo : Proc :=
  let n : Sym := ⟨"n", 1⟩; let A : Sym := ⟨"A", 2⟩; let i : Sym := ⟨"i", 3⟩; let w : Sym := ⟨"w", 4⟩
  .mk "demo" [⟨n, .ctrl .size⟩, ⟨A, .tensor [.read n [], .lit (.int 2)] true⟩]
    [.binop .gt (.read n []) (.lit (.int 0))]
    [.window w (.win A [.interval (.lit (.int 0)) (.read n []), .point (.lit (.int 1))]),
     .loop i (.lit (.int 0)) (.read n [])
       [.assign A [.read i [], .lit (.int 0)] (.binop .add (.read w [.read i []]) (.lit (.data 1 1)))] false]

example : (transposeArg tr_ok_demo ⟨"A", 2⟩).toOption.isSome = true ∧
    (tr_ok_demo.args.map (·.name)).Nodup ∧ defsL ⟨"A", 2⟩ tr_ok_demo.body = false ∧
    (∀ e ∈ tr_ok_demo.preds, strideFree ⟨"A", 2⟩ e = true) := by
  refine ⟨by decide, by decide, by decide, by decide⟩

/-- the defect: `transpose` leaves `assert stride(A, 1) == 1` as it is, so the row-major input
    that the original accepts is rejected, in its transposed form, by the result -/
def tr_demo : Proc :=
  let n : Sym := ⟨"n", 1⟩; let A : Sym := ⟨"A", 2⟩; let i : Sym := ⟨"i", 3⟩
  .mk "demo" [⟨n, .ctrl .size⟩, ⟨A, .tensor [.read n [], .lit (.int 2)] true⟩]
    [.binop .eq (.stride A 1) (.lit (.int 1))]
    [.loop i (.lit (.int 0)) (.read n []) [.assign A [.read i [], .lit (.int 1)] (.lit (.data 1 1))] false]

theorem transpose_preds_stale :
    let σ : State Int := ⟨[(⟨"n", 1⟩, 3)], [(⟨"A", 2⟩, ⟨0, 0, [(3, 2), (2, 1)]⟩)],
      [List.replicate 6 none], []⟩
    ∃ q, transposeArg tr_demo ⟨"A", 2⟩ = .ok q ∧
      (run (fun _ _ => 0) tr_demo σ).toOption.isSome = true ∧
      errOf (run (fun _ _ => 0) q (σ.tr ⟨"A", 2⟩)) = some .assertFail := by
  refine ⟨_, rfl, by decide, by decide⟩

/-- near misses: a 1-D argument, an unknown name, an argument passed to a callee, a window with
    two intervals -/
example : rejOf (transposeArg pe_demo ⟨"x", 3⟩) = some .notTensor2D := by decide
example : rejOf (transposeArg pe_demo ⟨"zz", 0⟩) = some .unknownArg := by decide
example :
    let A : Sym := ⟨"A", 2⟩
    rejOf (transposeArg (.mk "c" [⟨A, .tensor [.lit (.int 2), .lit (.int 2)] false⟩] []
      [.call (.mk "f" [⟨⟨"B", 5⟩, .tensor [.lit (.int 2), .lit (.int 2)] false⟩] [] [.pass]) [.read A []]]) A)
      = some .passedToCall := by decide
example :
    let A : Sym := ⟨"A", 2⟩
    rejOf (transposeArg (.mk "c" [⟨A, .tensor [.lit (.int 2), .lit (.int 2)] false⟩] []
      [.window ⟨"w", 7⟩ (.win A [.interval (.lit (.int 0)) (.lit (.int 1)), .interval (.lit (.int 0)) (.lit (.int 2))])]) A)
      = some .windowIntervals := by decide

end Exo.C19
