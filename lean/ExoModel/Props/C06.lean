import ExoModel.Cursor
namespace Exo.Cursor
theorem stub_c06 : True := trivial
end Exo.Cursor
