/-
  C06 — forwarded cursors denote the same code or are invalid.

  For every tree, every location of an atomic edit of `internal_cursors.py` and every valid cursor
  of the old tree, with `(t', fwd) = edit t`:
    * statement cursors (`NodeCoh`): `fwd c` is `invalid` or a node of `t'` with the same lineage
      label — never a dangling path, never a crash; `invalid` exactly for the deleted statements;
    * gap cursors (`GapCoh`): forwarded through the anchor, type kept;
    * block cursors (`BlockCoh`): `invalid`, or a valid non-empty block of `t'` that covers exactly
      the forwards of the statements the old block covered;
    * composition: coherence is closed under `fwd₂ ∘ fwd₁`.
  Where the Python code does something else (see docs/C06.md) the theorem is named `…_partial`
  and a `…_counterexample` theorem exhibits the deviation on a concrete tree.
-/
import ExoModel.CursorSpec
import ExoModel.Lemmas.CursorEdits
import ExoModel.Lemmas.CursorMoveTree

namespace Exo.Cursor

/-! ### example trees -/

def leaf (l : Nat) : Tree := .mk l 3 [] []

/-- `proc: [for(1): [s2; s3; s4]; if(5): [s6] else [s7; s8]; s9]` -/
def exT : Tree :=
  .mk 0 0 [.mk 1 1 [leaf 2, leaf 3, leaf 4] [], .mk 5 2 [leaf 6] [leaf 7, leaf 8], leaf 9] []

/-- a `For` wrapper that takes the block as its body -/
def forCtor (l : Nat) : List Tree → Tree := fun nodes => .mk l 1 nodes []

/-- a NON-direct wrapper, `For(body=[If(cond, block)])` — what `DoAddLoop(guard=True)` passes to its
    single `_wrap` (F16) -/
def guardCtor (l : Nat) : List Tree → Tree := fun nodes => .mk l 1 [.mk (l + 1) 2 nodes []] []

theorem forCtor_direct (l : Nat) : WrapDirect (forCtor l) .body := fun _ => rfl

/-- an `If` wrapper that takes the block as its body (the guard of `add_loop(guard=True)`) -/
def ifCtor (l : Nat) : List Tree → Tree := fun nodes => .mk l 2 nodes []

theorem ifCtor_direct (l : Nat) : WrapDirect (ifCtor l) .body := fun _ => rfl

/-! ### (d) composition -/

/-- coherence (statement and gap cursors) is closed under error-propagating composition -/
theorem compose_coherent {t t' t'' : Tree} {fwd₁ fwd₂ : Fwd}
    (h₁ : Coherent t t' fwd₁) (h₂ : Coherent t' t'' fwd₂) : Coherent t t'' (fwd₂.comp fwd₁) := by
  constructor
  · intro p n hp
    rcases h₁.node p n hp with hinv | ⟨p', n', hf, hg, hl, hne⟩
    · left; simp [Fwd.comp, hinv]
    · rcases h₂.node p' n' hg with hinv | ⟨p'', n'', hf2, hg2, hl2, hne2⟩
      · left; simp [Fwd.comp, hf, hinv]
      · right
        exact ⟨p'', n'', by simp [Fwd.comp, hf, hf2], hg2, by rw [hl2, hl], fun h => hne2 (hne h)⟩
  · intro p ty
    obtain ⟨a1, a2⟩ := h₁.gap p ty
    cases hf : fwd₁ (.node p) with
    | error e =>
      have hgp := a1 e hf
      constructor
      · intro e' he'; simp only [Fwd.comp, hf] at he'; cases he'; simp [Fwd.comp, hgp]
      · intro c hc; simp [Fwd.comp, hf] at hc
    | ok c =>
      obtain ⟨p', rfl, hgp⟩ := a2 c hf
      obtain ⟨b1, b2⟩ := h₂.gap p' ty
      constructor
      · intro e' he'
        simp only [Fwd.comp, hf] at he'
        simp [Fwd.comp, hgp, b1 e' he']
      · intro c hc
        simp only [Fwd.comp, hf] at hc
        obtain ⟨p'', rfl, hgp2⟩ := b2 c hc
        exact ⟨p'', rfl, by simp [Fwd.comp, hgp, hgp2]⟩

/-- … and so is coherence of block cursors -/
theorem compose_coherentB {t t' t'' : Tree} {fwd₁ fwd₂ : Fwd}
    (h₁ : CoherentB t t' fwd₁) (h₂ : CoherentB t' t'' fwd₂) : CoherentB t t'' (fwd₂.comp fwd₁) := by
  refine { toCoherent := compose_coherent h₁.toCoherent h₂.toCoherent, block := ?_ }
  intro anchor a lo hi hv
  rcases h₁.block anchor a lo hi hv with hinv | ⟨an', a', lo', hi', hf, hv', hiff⟩
  · left; simp [Fwd.comp, hinv]
  · rcases h₂.block an' a' lo' hi' hv' with hinv | ⟨an'', a'', lo'', hi'', hf2, hv'', hiff2⟩
    · left; simp [Fwd.comp, hf, hinv]
    · right
      refine ⟨an'', a'', lo'', hi'', by simp [Fwd.comp, hf, hf2], hv'', ?_⟩
      intro q q'' hq hfq
      obtain ⟨n, hn⟩ := Option.isSome_iff_exists.mp hq
      rcases h₁.node q n hn with hinv | ⟨q', n', hfq1, hg, _, _⟩
      · simp [Fwd.comp, hinv] at hfq
      · simp only [Fwd.comp, hfq1] at hfq
        rw [hiff2 q' q'' (by simp [ValidNode, hg]) hfq, hiff q q' hq hfq1]

/-- a chain of two edits of the example tree (what `_compose` builds inside a primitive) -/
def exChain1 : Tree × Fwd := insert exT [(.body, 0), (.body, 1)] .before [leaf 20]
def exChain2 : Tree × Fwd := wrap exChain1.1 [(.body, 0)] .body 1 3 (forCtor 30) .body

example :
    (exChain2.2.comp exChain1.2) (.node [(.body, 0), (.body, 1)]) = .ok (.node [(.body, 0), (.body, 1), (.body, 1)]) ∧
    labelAt exChain2.1 [(.body, 0), (.body, 1), (.body, 1)] = labelAt exT [(.body, 0), (.body, 1)] := by
  decide

/-! ### `touch`: edits below a statement -/

theorem touch_coherent (t : Tree) (p : Path) : CoherentB t (touch t p).1 (touch t p).2 := by
  refine { node := ?_, gap := ?_, block := ?_ }
  · intro q n hq; exact Or.inr ⟨q, n, rfl, hq, rfl, id⟩
  · intro q ty
    simp [touch, Fwd.id]
  · intro anchor a lo hi hv
    refine Or.inr ⟨anchor, a, lo, hi, rfl, hv, ?_⟩
    intro q q' _ h
    simp only [touch, Fwd.id, Except.ok.injEq, Cursor.node.injEq] at h
    subst h
    exact Iff.rfl

/-! ### `Gap._insert` -/

/-- (a)–(c) for insertion at any gap of any tree: fully coherent, nothing is invalidated -/
theorem insert_coherent (t : Tree) (anchor : Path) (ty : GapType) (stmts : List Tree)
    (hne : anchor ≠ []) (hv : ValidNode t anchor) :
    CoherentB t (insert t anchor ty stmts).1 (insert t anchor ty stmts).2 :=
  insert_coherent_aux t anchor ty stmts hne hv

/-- insertion never invalidates a statement cursor -/
theorem insert_never_invalid (anchor : Path) (ty : GapType) (len : Nat) (hne : anchor ≠ []) (p : Path) :
    ∃ p', forwardInsert anchor ty len (.node p) = .ok (.node p') := by
  obtain ⟨E, a, i, rfl⟩ := exists_snoc_of_ne_nil hne
  rw [forwardInsert_eq]
  simp only [localForward]
  cases h : lfNode E a (insFn (insertionIndex (E ++ [(a, i)]) ty) len) p with
  | ok p' => exact ⟨p', rfl⟩
  | error e =>
    obtain ⟨j, rest, _, hf⟩ := (lfNode_error_iff _ _ _ _ _).mp h
    simp [insFn] at hf

example : CoherentB exT (insert exT [(.body, 0), (.body, 1)] .before [leaf 20, leaf 21]).1
    (insert exT [(.body, 0), (.body, 1)] .before [leaf 20, leaf 21]).2 :=
  insert_coherent _ _ _ _ (by decide) rfl

example : (insert exT [(.body, 0), (.body, 1)] .before [leaf 20, leaf 21]).2 (.node [(.body, 0), (.body, 2)])
    = .ok (.node [(.body, 0), (.body, 4)]) := by decide

/-! ### `Block._replace` / `Block._delete` -/

/-- (a), (c) for replacing any (possibly empty) range of any block by any statements -/
theorem replace_coherent (t n : Tree) (bp : Path) (a : Attr) (lo hi : Nat) (nodes ed : List Tree)
    (hv : t.get? bp = some n) (hlo : lo ≤ hi) (hhi : hi ≤ (n.children a).length) :
    Coherent t (replaceBlock t bp a lo hi nodes ed).1 (replaceBlock t bp a lo hi nodes ed).2 :=
  replace_coherent_aux t n bp a lo hi nodes ed hv hlo hhi

/-- a statement cursor is invalidated by replace/delete exactly when it points into the replaced
    range (the statement itself or anything below it) -/
theorem replace_invalid_iff (bp : Path) (a : Attr) (lo hi nIns : Nat) (p : Path) (e : Err) :
    forwardReplace bp a lo hi nIns (.node p) = .error e ↔
      e = .invalid ∧ ∃ i rest, p = bp ++ (a, i) :: rest ∧ lo ≤ i ∧ i < hi := by
  rw [forwardReplace_eq]
  simp only [localForward]
  constructor
  · intro h
    cases hl : lfNode bp a (replFn lo hi nIns) p with
    | ok p' => simp [hl] at h
    | error e' =>
      simp only [hl, Except.error.injEq] at h
      subst h
      obtain ⟨i, rest, hp, hf⟩ := (lfNode_error_iff _ _ _ _ _).mp hl
      simp only [replFn] at hf
      split at hf
      · rename_i hin
        simp only [Except.error.injEq] at hf
        exact ⟨hf.symm, i, rest, hp, hin.1, hin.2⟩
      · simp at hf
  · rintro ⟨rfl, i, rest, rfl, h1, h2⟩
    have : lfNode bp a (replFn lo hi nIns) (bp ++ (a, i) :: rest) = .error .invalid :=
      (lfNode_error_iff _ _ _ _ _).mpr ⟨i, rest, rfl, by simp [replFn, h1, h2]⟩
    simp [this]

/-- (b) block cursors under replace, at every block except the one equal to the replaced range
    when nothing is inserted -/
theorem replace_blockCohAt (t n : Tree) (bp : Path) (a : Attr) (lo hi : Nat) (nodes ed : List Tree)
    (hv : t.get? bp = some n) (hlo : lo ≤ hi) (hhi : hi ≤ (n.children a).length)
    (anchor : Path) (b : Attr) (blo bhi : Nat) (hvb : ValidBlock t anchor b blo bhi)
    (hgood : ¬ (anchor = bp ∧ b = a ∧ blo = lo ∧ bhi = hi ∧ nodes = [])) :
    BlockCohAt t (replaceBlock t bp a lo hi nodes ed).1 (replaceBlock t bp a lo hi nodes ed).2
      anchor b blo bhi := by
  rw [replaceBlock_tree_eq a lo hi nodes ed (by simp [hv])]
  show BlockCohAt t _ (forwardReplace bp a lo hi nodes.length) _ _ _ _
  rw [forwardReplace_eq]
  exact localForward_blockCohAt hv (replace_nodeSpec n a lo hi nodes ed hlo hhi)
    (replace_nodeInj n a lo hi _ hlo) (replace_blockSpec n a lo hi nodes ed hlo hhi) hvb
    (fun h1 h2 h3 => hgood ⟨h1, h2, h3.1, h3.2.1, h3.2.2⟩)

/-- replacing by at least one statement: fully coherent, blocks included -/
theorem replace_coherentB (t n : Tree) (bp : Path) (a : Attr) (lo hi : Nat) (nodes ed : List Tree)
    (hv : t.get? bp = some n) (hlo : lo ≤ hi) (hhi : hi ≤ (n.children a).length) (hne : nodes ≠ []) :
    CoherentB t (replaceBlock t bp a lo hi nodes ed).1 (replaceBlock t bp a lo hi nodes ed).2 :=
  { toCoherent := replace_coherent t n bp a lo hi nodes ed hv hlo hhi
    block := fun anchor b blo bhi hvb =>
      replace_blockCohAt t n bp a lo hi nodes ed hv hlo hhi anchor b blo bhi hvb (fun h => hne h.2.2.2.2) }

/-- deletion: statement and gap cursors coherent; block cursors coherent except the block equal
    to the deleted range (the emptied list gets a `pass`) -/
theorem delete_coherent (t n : Tree) (bp : Path) (a : Attr) (lo hi : Nat) (pass : Tree)
    (hv : t.get? bp = some n) (hlo : lo ≤ hi) (hhi : hi ≤ (n.children a).length) :
    Coherent t (deleteBlock t bp a lo hi pass).1 (deleteBlock t bp a lo hi pass).2 :=
  replace_coherent t n bp a lo hi [] [pass] hv hlo hhi

theorem delete_blockCoh_partial (t n : Tree) (bp : Path) (a : Attr) (lo hi : Nat) (pass : Tree)
    (hv : t.get? bp = some n) (hlo : lo ≤ hi) (hhi : hi ≤ (n.children a).length)
    (anchor : Path) (b : Attr) (blo bhi : Nat) (hvb : ValidBlock t anchor b blo bhi)
    -- missing: the block cursor equal to the deleted range
    (hne : ¬ (anchor = bp ∧ b = a ∧ blo = lo ∧ bhi = hi)) :
    BlockCohAt t (deleteBlock t bp a lo hi pass).1 (deleteBlock t bp a lo hi pass).2 anchor b blo bhi :=
  replace_blockCohAt t n bp a lo hi [] [pass] hv hlo hhi anchor b blo bhi hvb
    (fun h => hne ⟨h.1, h.2.1, h.2.2.1, h.2.2.2.1⟩)

/-- what Python does there: the block cursor equal to the deleted range is forwarded to the
    EMPTY range at its old start instead of being invalidated (`lift_cursor` then asserts) -/
theorem delete_block_eq_forwards_empty (t : Tree) (bp : Path) (a : Attr) (lo hi : Nat) (pass : Tree)
    (h : lo < hi) :
    (deleteBlock t bp a lo hi pass).2 (.block bp a lo hi) = .ok (.block bp a lo lo) := by
  show forwardReplace bp a lo hi 0 (.block bp a lo hi) = _
  have h1 : intersectsPartially lo hi lo hi = false := by
    simp [intersectsPartially]
  have h2 : isSubRange lo hi lo hi = false := by
    simp [isSubRange, rangeEq]
  simp only [forwardReplace, localForward, and_self, if_true, h1, h2, Bool.or_self, Bool.false_eq_true,
    if_false, replUpd, List.append_nil]
  have : ¬ lo ≥ hi := by omega
  simp [this]
  omega

example : Coherent exT (deleteBlock exT [(.body, 0)] .body 1 3 (leaf 99)).1
    (deleteBlock exT [(.body, 0)] .body 1 3 (leaf 99)).2 :=
  delete_coherent exT (.mk 1 1 [leaf 2, leaf 3, leaf 4] []) _ _ _ _ _ rfl (by decide) (by decide)

example : (deleteBlock exT [(.body, 0)] .body 1 3 (leaf 99)).2 (.node [(.body, 0), (.body, 1)]) = .error .invalid ∧
    (deleteBlock exT [(.body, 0)] .body 0 2 (leaf 99)).2 (.node [(.body, 0), (.body, 2)]) = .ok (.node [(.body, 0), (.body, 0)]) ∧
    (deleteBlock exT [(.body, 0)] .body 1 3 (leaf 99)).2 (.block [(.body, 0)] .body 1 3) = .ok (.block [(.body, 0)] .body 1 1) := by
  decide

example : CoherentB exT (replaceBlock exT [(.body, 1)] .orelse 0 1 [leaf 20, leaf 21] []).1
    (replaceBlock exT [(.body, 1)] .orelse 0 1 [leaf 20, leaf 21] []).2 :=
  replace_coherentB exT (.mk 5 2 [leaf 6] [leaf 7, leaf 8]) _ _ _ _ _ _ rfl (by decide) (by decide) (by simp)

/-! ### `Block._wrap` -/

/-- (a), (c) for wrapping any non-empty range — under the hypothesis `WrapDirect` that the wrapper
    constructor puts the wrapped statements directly into its `wrapAttr` block -/
theorem wrap_coherent (t n : Tree) (bp : Path) (a : Attr) (lo hi : Nat) (ctor : List Tree → Tree)
    (wa : Attr) (hd : WrapDirect ctor wa)
    (hv : t.get? bp = some n) (hlo : lo ≤ hi) (hhi : hi ≤ (n.children a).length) :
    Coherent t (wrap t bp a lo hi ctor wa).1 (wrap t bp a lo hi ctor wa).2 := by
  rw [wrap_tree_eq a lo hi ctor wa (by simp [hv])]
  show Coherent t _ (forwardWrap bp a lo hi wa)
  rw [forwardWrap_eq]
  exact localForward_coherent _ hv (wrap_nodeSpec n a lo hi ctor wa hd hlo hhi)

/-- wrapping never invalidates a statement cursor -/
theorem wrap_never_invalid (bp : Path) (a : Attr) (lo hi : Nat) (wa : Attr) (p : Path) :
    ∃ p', forwardWrap bp a lo hi wa (.node p) = .ok (.node p') := by
  rw [forwardWrap_eq]
  simp only [localForward]
  cases h : lfNode bp a (wrapFn lo hi wa) p with
  | ok p' => exact ⟨p', rfl⟩
  | error e =>
    obtain ⟨j, rest, _, hf⟩ := (lfNode_error_iff _ _ _ _ _).mp h
    simp only [wrapFn] at hf
    split at hf <;> (try split at hf) <;> simp at hf

/-- (b) block cursors under wrap (since edf685fb: the wrapper index is `rng.start`) — every block -/
theorem wrap_blockCoh (t n : Tree) (bp : Path) (a : Attr) (lo hi : Nat) (ctor : List Tree → Tree)
    (wa : Attr) (hd : WrapDirect ctor wa)
    (hv : t.get? bp = some n) (hlo : lo < hi) (hhi : hi ≤ (n.children a).length) :
    BlockCoh t (wrap t bp a lo hi ctor wa).1 (wrap t bp a lo hi ctor wa).2 := by
  intro anchor b blo bhi hvb
  rw [wrap_tree_eq a lo hi ctor wa (by simp [hv])]
  show BlockCohAt t _ (forwardWrap bp a lo hi wa) _ _ _ _
  rw [forwardWrap_eq]
  exact localForward_blockCohAt hv (wrap_nodeSpec n a lo hi ctor wa hd (Nat.le_of_lt hlo) hhi)
    (wrap_nodeInj n a lo hi wa (Nat.le_of_lt hlo)) (wrap_blockSpec n a lo hi ctor wa hd hlo hhi) hvb
    (fun _ _ => trivial)

/-- wrapping a non-empty range with a direct wrapper: fully coherent, blocks included -/
theorem wrap_coherentB (t n : Tree) (bp : Path) (a : Attr) (lo hi : Nat) (ctor : List Tree → Tree)
    (wa : Attr) (hd : WrapDirect ctor wa)
    (hv : t.get? bp = some n) (hlo : lo < hi) (hhi : hi ≤ (n.children a).length) :
    CoherentB t (wrap t bp a lo hi ctor wa).1 (wrap t bp a lo hi ctor wa).2 :=
  { toCoherent := wrap_coherent t n bp a lo hi ctor wa hd hv (Nat.le_of_lt hlo) hhi
    block := wrap_blockCoh t n bp a lo hi ctor wa hd hv hlo hhi }

/-- the REPAIRED construction of `add_loop(guard=True)` would be coherent: wrap the statement in the
    guard `if`, then wrap that `if` (same position) in the loop, compose the two forwardings —
    coherent for every cursor, by `wrap_coherentB` twice and `compose_coherentB`.  (Not what the code
    does: the repair changes a golden test output and was not admitted; see
    `wrap_not_direct_counterexample` for the current behaviour.) -/
theorem addLoopGuard_coherent (t n : Tree) (bp : Path) (a : Attr) (i : Nat) (lIf lFor : Nat)
    (hv : t.get? bp = some n) (hi : i < (n.children a).length) :
    CoherentB t
      (wrap (wrap t bp a i (i + 1) (ifCtor lIf) .body).1 bp a i (i + 1) (forCtor lFor) .body).1
      ((wrap (wrap t bp a i (i + 1) (ifCtor lIf) .body).1 bp a i (i + 1) (forCtor lFor) .body).2.comp
        (wrap t bp a i (i + 1) (ifCtor lIf) .body).2) := by
  have c₁ := wrap_coherentB t n bp a i (i + 1) (ifCtor lIf) .body (ifCtor_direct lIf) hv (by omega) (by omega)
  have hv₁ : (wrap t bp a i (i + 1) (ifCtor lIf) .body).1.get? bp =
      some (n.setChildren a (wrapList (n.children a) i (i + 1) (ifCtor lIf))) := by
    rw [wrap_tree_eq a i (i + 1) (ifCtor lIf) .body (by simp [hv])]
    exact Tree.get?_modBlock_self hv
  have hlen : i + 1 ≤ ((n.setChildren a (wrapList (n.children a) i (i + 1) (ifCtor lIf))).children a).length := by
    rw [Tree.children_setChildren_same, wrapList, length_splice _ _ _ _ (by omega) (by omega)]
    simp
  exact compose_coherentB c₁
    (wrap_coherentB _ _ bp a i (i + 1) (forCtor lFor) .body (forCtor_direct lFor) hv₁ (by omega) hlen)

example : Coherent exT (wrap exT [(.body, 0)] .body 0 3 (forCtor 30) .body).1
    (wrap exT [(.body, 0)] .body 0 3 (forCtor 30) .body).2 :=
  wrap_coherent exT (.mk 1 1 [leaf 2, leaf 3, leaf 4] []) _ _ _ _ _ _ (forCtor_direct 30) rfl (by decide) (by decide)

def exWrapAll : Tree × Fwd := wrap exT [(.body, 0)] .body 0 3 (forCtor 30) .body

/-- wrap `[s2; s3; s4]`: the block cursor `[s3; s4]` is found below the wrapper (index 0 of the loop
    body), at `[1,3)` of the wrapper's body.  (Before edf685fb it was sent below index
    `blk_rng.start = 1`, a node that no longer exists.) -/
example :
    exWrapAll.2 (.block [(.body, 0)] .body 1 3) = .ok (.block [(.body, 0), (.body, 0)] .body 1 3) ∧
    validCursorB exWrapAll.1 (.block [(.body, 0), (.body, 0)] .body 1 3) = true := by
  decide

example : CoherentB exT exWrapAll.1 exWrapAll.2 :=
  wrap_coherentB exT (.mk 1 1 [leaf 2, leaf 3, leaf 4] []) _ _ _ _ _ _ (forCtor_direct 30) rfl (by decide) (by decide)

/-- the repaired `add_loop(s3, guard=True)` in the example tree -/
example : CoherentB exT
    (wrap (wrap exT [(.body, 0)] .body 1 2 (ifCtor 31) .body).1 [(.body, 0)] .body 1 2 (forCtor 30) .body).1
    ((wrap (wrap exT [(.body, 0)] .body 1 2 (ifCtor 31) .body).1 [(.body, 0)] .body 1 2 (forCtor 30) .body).2.comp
      (wrap exT [(.body, 0)] .body 1 2 (ifCtor 31) .body).2) :=
  addLoopGuard_coherent exT (.mk 1 1 [leaf 2, leaf 3, leaf 4] []) [(.body, 0)] .body 1 31 30 rfl (by decide)

def exWrapGuard : Tree × Fwd := wrap exT [(.body, 0)] .body 1 2 (guardCtor 30) .body

/-- `WrapDirect` is necessary, and `DoAddLoop(guard=True)` violates it (DESIGN F16, current
    behaviour, recorded finding): its wrapper nests the block one level deeper, and the cursor of the
    wrapped statement `s3` lands on the inner `if` (label 31), not on `s3`.  The harness checks
    `WrapDirect` on every `_wrap` the primitives perform; `add_loop(guard=True)` is the only one
    that fails it. -/
theorem wrap_not_direct_counterexample :
    exWrapGuard.2 (.node [(.body, 0), (.body, 1)]) = .ok (.node [(.body, 0), (.body, 1), (.body, 0)]) ∧
    labelAt exWrapGuard.1 [(.body, 0), (.body, 1), (.body, 0)] = some 31 ∧
    labelAt exT [(.body, 0), (.body, 1)] = some 3 ∧
    ¬ NodeCoh exT exWrapGuard.1 exWrapGuard.2 := by
  have h2 : exWrapGuard.2 (.node [(.body, 0), (.body, 1)])
      = .ok (.node [(.body, 0), (.body, 1), (.body, 0)]) := by decide
  refine ⟨h2, by decide, by decide, ?_⟩
  intro h
  rcases h [(.body, 0), (.body, 1)] (leaf 3) rfl with hinv | ⟨p', n', hf, hg, hl, _⟩
  · rw [h2] at hinv; cases hinv
  · rw [h2] at hf
    cases hf
    have h3 : exWrapGuard.1.get? [(.body, 0), (.body, 1), (.body, 0)]
        = some (.mk 31 2 [leaf 3] []) := rfl
    rw [h3] at hg
    cases hg
    exact absurd hl (by decide)

/-! ### `Node._replace` (single node) -/

/-- what Python does: every cursor that does not go through the replaced node's list is kept and
    coherent; the cursor of the replaced node stays where it is (it now denotes `ast`) -/
theorem nodeReplace_partial (t n : Tree) (E : Path) (a : Attr) (i : Nat) (ast c : Tree)
    (hE : t.get? E = some n) (hc : (n.children a)[i]? = some c) :
    -- missing: siblings of the replaced node (all sent to the replaced node) and its descendants
    (∀ p m, t.get? p = some m → (¬ ∃ j rest, p = E ++ (a, j) :: rest) →
      (nodeReplace t (E ++ [(a, i)]) ast).2 (.node p) = .ok (.node p) ∧
      ∃ m', (nodeReplace t (E ++ [(a, i)]) ast).1.get? p = some m' ∧ m'.label = m.label) ∧
    (nodeReplace t (E ++ [(a, i)]) ast).2 (.node (E ++ [(a, i)])) = .ok (.node (E ++ [(a, i)])) ∧
    (nodeReplace t (E ++ [(a, i)]) ast).1.get? (E ++ [(a, i)]) = some ast := by
  have hv : (t.get? (E ++ [(a, i)])).isSome := by
    rw [Tree.get?_append_of_get? hE, Tree.get?_cons, hc]; simp
  have htree : (nodeReplace t (E ++ [(a, i)]) ast).1 = t.modBlock (spliceAt (fun _ => [ast]) i) a E := by
    simp [nodeReplace, Tree.rewriteRoot, rewrite_snoc _ t E a i hv]
  have hfwd : (nodeReplace t (E ++ [(a, i)]) ast).2 =
      localForward E a (fun _ _ => .ok [(a, i)]) (fun a lo hi => .ok ([], a, lo, hi)) := by
    simp [nodeReplace, forwardNodeReplace]
  refine ⟨?_, ?_, ?_⟩
  · intro p m hp hnot
    have hl : lfNode E a (fun _ _ => Except.ok [(a, i)]) p = .ok p := by
      rw [lfNode_congr_offlist E a p hnot _ (fun a j => Except.ok [(a, j)]), lfNode_id]
    refine ⟨by rw [hfwd]; simp [localForward, hl], ?_⟩
    rw [htree]
    rcases path_trichotomy p E with ⟨s, rfl⟩ | ⟨s, _, rfl⟩ | ⟨c0, x, y, p', E', hxy, rfl, rfl⟩
    · rw [Tree.get?_modBlock_append hE]
      cases s with
      | nil =>
        simp only [List.append_nil] at hp
        rw [hE] at hp; cases hp
        exact ⟨_, rfl, by simp⟩
      | cons st rest =>
        obtain ⟨b, j⟩ := st
        have hb : b ≠ a := fun hb => hnot ⟨j, rest, by simp [hb]⟩
        refine ⟨m, ?_, rfl⟩
        rw [Tree.get?_cons, Tree.children_setChildren_ne _ hb, ← Tree.get?_cons,
          ← Tree.get?_append_of_get? hE]
        exact hp
    · rw [Tree.get?_modBlock_prefix hp]
      exact ⟨_, rfl, by simp⟩
    · rw [Tree.get?_modBlock_diverge _ _ _ _ _ _ hxy]
      exact ⟨m, hp, rfl⟩
  · rw [hfwd]
    have := lfNode_self_const E a i
    simp [localForward, this]
  · rw [htree, Tree.get?_modBlock_append hE, Tree.get?_cons, Tree.children_setChildren_same]
    have hi := getElem?_lt_length hc
    have : (spliceAt (fun _ => [ast]) i (n.children a))[i]? = some ast := by
      simp only [spliceAt, hc]
      have := getElem?_splice_mid (n.children a) [ast] ((n.children a).drop (i + 1)) i 0 (by omega)
      simpa using this
    rw [this]; rfl

/-- the deviation: replacing `s3` (a statement inside a block) by a single node sends the cursors
    of its siblings `s2` and `s4` to the replaced node -/
def exNodeRepl : Tree × Fwd := nodeReplace exT [(.body, 0), (.body, 1)] (leaf 40)

theorem nodeReplace_sibling_counterexample :
    exNodeRepl.2 (.node [(.body, 0), (.body, 2)]) = .ok (.node [(.body, 0), (.body, 1)]) ∧
    labelAt exNodeRepl.1 [(.body, 0), (.body, 1)] = some 40 ∧ labelAt exT [(.body, 0), (.body, 2)] = some 4 := by
  decide

/-! ### `Block._move` -/

/-- (a), (c) for moving any non-empty range of any block to any gap of the tree, for EVERY statement
    and gap cursor — provided
      * `hP1`: the gap's anchor is not one of the moved statements and not inside one
        (`target in self` is replaced by `self.before()` in Python; a gap inside a moved statement
        makes `_move` itself meaningless);
      * `hbug`: not the case `moveBug` in which `_forward_move` adjusts the gap path at the wrong
        level (see `move_gap_path_counterexample`).
    Nothing is invalidated: every statement is forwarded, moved ones to their new place. -/
theorem move_coherent (t n : Tree) (bp : Path) (ba : Attr) (lo hi : Nat) (gp : Path) (ga : Attr) (gj : Nat)
    (gTy : GapType) (pass : Tree)
    (hn : t.get? bp = some n) (hlt : lo < hi) (hhi : hi ≤ (n.children ba).length)
    (hg : ValidNode t (gp ++ [(ga, gj)]))
    (hP1 : ∀ i s, lo ≤ i → i < hi → gp ++ [(ga, gj)] ≠ bp ++ (ba, i) :: s)
    (hbug : moveBug (bp ++ [(ba, lo)]) (gapPathOf (gp ++ [(ga, gj)]) gTy) = false) :
    Coherent t (move t bp ba lo hi (gp ++ [(ga, gj)]) gTy pass).1
      (move t bp ba lo hi (gp ++ [(ga, gj)]) gTy pass).2 :=
  { node := move_nodeCoh gTy pass hn hlt hhi hg hP1 hbug
    gap := by
      have hns := move_not_inSelf hP1
      simp only [move, hns, Bool.false_eq_true, if_false]
      exact forwardMove_gapCoh _ _ _ _ _ }

/-- moving never invalidates a statement cursor -/
theorem move_never_invalid (bp : Path) (ba : Attr) (lo hi : Nat) (gapPath : Path) (p : Path) :
    ∃ p', forwardMove bp ba lo hi gapPath (.node p) = .ok (.node p') := ⟨_, rfl⟩

/-- `reorder_stmts`-like: move `s4` before `s2` inside the loop -/
example : Coherent exT (move exT [(.body, 0)] .body 2 3 [(.body, 0), (.body, 0)] .before (leaf 99)).1
    (move exT [(.body, 0)] .body 2 3 [(.body, 0), (.body, 0)] .before (leaf 99)).2 :=
  move_coherent exT (.mk 1 1 [leaf 2, leaf 3, leaf 4] []) [(.body, 0)] .body 2 3 [(.body, 0)] .body 0 .before
    (leaf 99) rfl (by decide) (by decide) rfl
    (by intro i s h1 h2 h; simp at h; omega) (by decide)

/-- `fission`/`lift_alloc`-like: move `[s3; s4]` out of the loop, after it (block deeper than gap) -/
example : Coherent exT (move exT [(.body, 0)] .body 1 3 [(.body, 0)] .after (leaf 99)).1
    (move exT [(.body, 0)] .body 1 3 [(.body, 0)] .after (leaf 99)).2 :=
  move_coherent exT (.mk 1 1 [leaf 2, leaf 3, leaf 4] []) [(.body, 0)] .body 1 3 [] .body 0 .after
    (leaf 99) rfl (by decide) (by decide) rfl
    (by intro i s h1 h2 h; simp at h) (by decide)

def exMoveOut : Tree × Fwd := move exT [(.body, 0)] .body 1 3 [(.body, 0)] .after (leaf 99)

example :
    exMoveOut.2 (.node [(.body, 0), (.body, 2)]) = .ok (.node [(.body, 2)]) ∧
    labelAt exMoveOut.1 [(.body, 2)] = some 4 ∧
    exMoveOut.2 (.node [(.body, 2)]) = .ok (.node [(.body, 4)]) ∧
    labelAt exMoveOut.1 [(.body, 4)] = some 9 := by decide

/-- the deviation `moveBug`: move `s2` from the loop (first child) into the `else` branch of the
    `if` (second child), after `s7`.  `new_gap_path` subtracts the block length from the index of
    the `if` (position 0 of the path, above the block's list): the cursor of `s2` is sent to
    `[(body,0),(orelse,1)]` — a path that does not exist — instead of `[(body,1),(orelse,1)]`. -/
def exMoveBug : Tree × Fwd := move exT [(.body, 0)] .body 0 1 [(.body, 1), (.orelse, 0)] .after (leaf 99)

theorem move_gap_path_counterexample :
    moveBug ([(.body, 0)] ++ [(.body, 0)]) (gapPathOf [(.body, 1), (.orelse, 0)] .after) = true ∧
    exMoveBug.2 (.node [(.body, 0), (.body, 0)]) = .ok (.node [(.body, 0), (.orelse, 1)]) ∧
    labelAt exMoveBug.1 [(.body, 0), (.orelse, 1)] = none ∧
    labelAt exMoveBug.1 [(.body, 1), (.orelse, 1)] = some 2 := by decide

/-! ### block cursors under `Block._move` -/

/-- what Python does: a block cursor is forwarded through its first and last member; the result
    (when the asserts hold) is the range between their forwards, with the OLD attribute name -/
theorem move_block_partial (bp : Path) (ba : Attr) (lo hi : Nat) (gapPath : Path)
    (anchor : Path) (a : Attr) (rlo rhi : Nat) (anchor' : Path) (a' : Attr) (lo' hi' : Nat)
    -- missing: that the forwarded block covers exactly the forwards of the old members; false
    -- whenever the block overlaps the moved range without being inside it, or is moved to a
    -- list with another attribute (see the counterexamples)
    (h : forwardMove bp ba lo hi gapPath (.block anchor a rlo rhi) = .ok (.block anchor' a' lo' hi')) :
    a' = a ∧
    anchor' = parentPath (fwdMoveNode bp ba lo hi gapPath (anchor ++ [(a, rlo)])) ∧
    anchor' = parentPath (fwdMoveNode bp ba lo hi gapPath (anchor ++ [(a, rhi - 1)])) ∧
    lo' = lastIdx (fwdMoveNode bp ba lo hi gapPath (anchor ++ [(a, rlo)])) ∧
    hi' = lastIdx (fwdMoveNode bp ba lo hi gapPath (anchor ++ [(a, rhi - 1)])) + 1 := by
  simp only [forwardMove] at h
  split at h
  · cases h
  · split at h
    · cases h
    · split at h
      · cases h
      · split at h
        · cases h
        · rename_i h1 h2 h3
          simp only [Except.ok.injEq, Cursor.block.injEq] at h
          obtain ⟨h4, h5, h6, h7⟩ := h
          refine ⟨h5.symm, h4.symm, ?_, h6.symm, h7.symm⟩
          rw [← h4]
          exact Classical.not_not.mp h1

/-- `reorder_stmts` on `[s3; s4]`: the block cursor `[s2; s3; s4]` overlaps the moved range `[s4]`
    and is forwarded to `[s2; s4]` — it loses `s3`, which is still there -/
def exMoveSwap : Tree × Fwd := move exT [(.body, 0)] .body 2 3 [(.body, 0), (.body, 1)] .before (leaf 99)

theorem move_block_overlap_counterexample :
    exMoveSwap.2 (.block [(.body, 0)] .body 0 3) = .ok (.block [(.body, 0)] .body 0 2) ∧
    exMoveSwap.2 (.node [(.body, 0), (.body, 1)]) = .ok (.node [(.body, 0), (.body, 2)]) ∧
    -- and the block cursor `[s3; s4]` (both statements of the swap) crashes (AssertionError)
    exMoveSwap.2 (.block [(.body, 0)] .body 1 3) = .error .crash := by decide

/-- `eliminate_dead_code`-like: the `else` block `[s7; s8]` is moved in front of the `if`
    (into a `body` list); the forwarded block cursor keeps the attribute `orelse` and does not
    denote a block of the new tree -/
def exMoveElse : Tree × Fwd := move exT [(.body, 1)] .orelse 0 2 [(.body, 1)] .before (leaf 99)

theorem move_block_attr_counterexample :
    exMoveElse.2 (.block [(.body, 1)] .orelse 0 2) = .ok (.block [] .orelse 1 3) ∧
    validCursorB exMoveElse.1 (.block [] .orelse 1 3) = false ∧
    validCursorB exMoveElse.1 (.block [] .body 1 3) = true := by decide

end Exo.Cursor
