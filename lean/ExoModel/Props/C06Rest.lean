/-
  Property C06 — the two remaining `_partial` theorems of Props/C06.lean, completed by exact
  characterisations of what the real forwarding does in the excluded cases (real behaviour:
  repro/c06rest/rest.py; both are recorded findings in known_findings.json).

  * `Block._delete`: `delete_block_coh_iff` — a valid block cursor is forwarded coherently IF AND
    ONLY IF it is not the deleted range itself; that one is forwarded to the EMPTY range at its old
    start (`delete:block-cursor-equal-to-deleted-range:forwards-to-empty-block`).
  * `Node._replace`: `nodeReplace_through` — EVERY cursor that goes through the replaced node's
    list is sent below the replaced node, whatever its own index: siblings (and what is below
    them) land on the replacement (`node_replace:sibling-forwards-to-replaced-node`);
    `nodeReplace_sibling_incoherent` — hence `NodeCoh` fails as soon as the node has a sibling
    whose lineage differs from the replacement's.
-/
import ExoModel.CursorSpec
import ExoModel.Props.C06
import ExoModel.Lemmas.CursorMove

namespace Exo.Cursor

/-! ### `Block._delete`, the block equal to the deleted range -/

/-- the block cursor equal to the deleted range is NOT forwarded coherently: the answer is
    neither `invalid` nor a valid (non-empty) block -/
theorem delete_block_eq_incoherent (t : Tree) (bp : Path) (a : Attr) (lo hi : Nat) (pass : Tree)
    (h : lo < hi) :
    ¬ BlockCohAt t (deleteBlock t bp a lo hi pass).1 (deleteBlock t bp a lo hi pass).2 bp a lo hi := by
  have hf := delete_block_eq_forwards_empty t bp a lo hi pass h
  rintro (hinv | ⟨anchor', a', lo', hi', h1, hv, _⟩)
  · rw [hf] at hinv; cases hinv
  · rw [hf] at h1
    simp only [Except.ok.injEq, Cursor.block.injEq] at h1
    obtain ⟨rfl, rfl, rfl, rfl⟩ := h1
    obtain ⟨_, _, hlt, _⟩ := hv
    omega

/-- **block cursors under `_delete`, complete**: a valid block cursor is forwarded coherently iff it
    is not the deleted range itself -/
theorem delete_block_coh_iff (t n : Tree) (bp : Path) (a : Attr) (lo hi : Nat) (pass : Tree)
    (hv : t.get? bp = some n) (hlo : lo ≤ hi) (hhi : hi ≤ (n.children a).length)
    (anchor : Path) (b : Attr) (blo bhi : Nat) (hvb : ValidBlock t anchor b blo bhi) :
    BlockCohAt t (deleteBlock t bp a lo hi pass).1 (deleteBlock t bp a lo hi pass).2 anchor b blo bhi ↔
      ¬ (anchor = bp ∧ b = a ∧ blo = lo ∧ bhi = hi) := by
  constructor
  · rintro hc ⟨rfl, rfl, rfl, rfl⟩
    obtain ⟨_, _, hlt, _⟩ := hvb
    exact delete_block_eq_incoherent t anchor b blo bhi pass hlt hc
  · exact delete_blockCoh_partial t n bp a lo hi pass hv hlo hhi anchor b blo bhi hvb

/-- non-vacuity / the finding: deleting `[s3; s4]` of `for: [s2; s3; s4]` -/
example : (deleteBlock exT [(.body, 0)] .body 1 3 (leaf 99)).2 (.block [(.body, 0)] .body 1 3)
      = .ok (.block [(.body, 0)] .body 1 1) ∧
    validCursorB (deleteBlock exT [(.body, 0)] .body 1 3 (leaf 99)).1 (.block [(.body, 0)] .body 1 1) = false ∧
    (deleteBlock exT [(.body, 0)] .body 1 3 (leaf 99)).2 (.block [(.body, 0)] .body 0 3)
      = .ok (.block [(.body, 0)] .body 0 1) ∧
    (deleteBlock exT [(.body, 0)] .body 1 3 (leaf 99)).2 (.block [(.body, 0)] .body 1 2)
      = .error .invalid := by decide

example : ¬ BlockCohAt exT (deleteBlock exT [(.body, 0)] .body 1 3 (leaf 99)).1
    (deleteBlock exT [(.body, 0)] .body 1 3 (leaf 99)).2 [(.body, 0)] .body 1 3 :=
  delete_block_eq_incoherent exT _ _ 1 3 _ (by decide)

/-! ### `Node._replace`, cursors through the replaced node's list -/

/-- **what `Node._forward_replace` does to a cursor through the node's list**: the index in the list
    is overwritten by the replaced node's index — the node itself and what is below it stay
    (pointing into the replacement), every sibling and what is below it is sent to the
    corresponding place below the replacement -/
theorem nodeReplace_through (t : Tree) (E : Path) (a : Attr) (i j : Nat) (rest : Path) (ast : Tree) :
    (nodeReplace t (E ++ [(a, i)]) ast).2 (.node (E ++ (a, j) :: rest)) =
      .ok (.node (E ++ (a, i) :: rest)) := by
  have hfwd : (nodeReplace t (E ++ [(a, i)]) ast).2 =
      localForward E a (fun _ _ => .ok [(a, i)]) (fun a lo hi => .ok ([], a, lo, hi)) := by
    simp [nodeReplace, forwardNodeReplace]
  rw [hfwd]
  simp only [localForward, lfNode_view, viewThrough_append, List.append_assoc, List.singleton_append]

/-- … and the same for gaps (they are forwarded through their anchors) -/
theorem nodeReplace_through_gap (t : Tree) (E : Path) (a : Attr) (i j : Nat) (rest : Path)
    (ast : Tree) (ty : GapType) :
    (nodeReplace t (E ++ [(a, i)]) ast).2 (.gap (E ++ (a, j) :: rest) ty) =
      .ok (.gap (E ++ (a, i) :: rest) ty) := by
  have hfwd : (nodeReplace t (E ++ [(a, i)]) ast).2 =
      localForward E a (fun _ _ => .ok [(a, i)]) (fun a lo hi => .ok ([], a, lo, hi)) := by
    simp [nodeReplace, forwardNodeReplace]
  rw [hfwd]
  simp only [localForward, lfNode_view, viewThrough_append, List.append_assoc, List.singleton_append]

/-- **`Node._replace` is incoherent as soon as the node has a sibling of another lineage**: the
    sibling's cursor is forwarded to the replacement -/
theorem nodeReplace_sibling_incoherent (t n : Tree) (E : Path) (a : Attr) (i j : Nat)
    (ast c cj : Tree) (hE : t.get? E = some n) (hc : (n.children a)[i]? = some c)
    (hcj : (n.children a)[j]? = some cj) (hl : cj.label ≠ ast.label) :
    ¬ NodeCoh t (nodeReplace t (E ++ [(a, i)]) ast).1 (nodeReplace t (E ++ [(a, i)]) ast).2 := by
  intro hcoh
  have hp : t.get? (E ++ [(a, j)]) = some cj := by
    rw [Tree.get?_append_of_get? hE, Tree.get?_cons, hcj]; simp
  have hf := nodeReplace_through t E a i j [] ast
  obtain ⟨_, _, hast⟩ := nodeReplace_partial t n E a i ast c hE hc
  rcases hcoh _ cj hp with hinv | ⟨p', n', h1, h2, h3, _⟩
  · rw [hf] at hinv; cases hinv
  · rw [hf] at h1
    simp only [Except.ok.injEq, Cursor.node.injEq] at h1
    subst h1
    rw [hast] at h2
    simp only [Option.some.injEq] at h2
    subst h2
    exact hl h3.symm

/-- non-vacuity / the finding: replacing `s3` of `for: [s2; s3; s4]` by a node of lineage 40 -/
example : ¬ NodeCoh exT (nodeReplace exT ([(.body, 0)] ++ [(.body, 1)]) (leaf 40)).1
    (nodeReplace exT ([(.body, 0)] ++ [(.body, 1)]) (leaf 40)).2 :=
  nodeReplace_sibling_incoherent exT (.mk 1 1 [leaf 2, leaf 3, leaf 4] []) [(.body, 0)] .body 1 2
    (leaf 40) (leaf 3) (leaf 4) rfl rfl rfl (by decide)

example :
    (nodeReplace exT [(.body, 0), (.body, 1)] (leaf 40)).2 (.node [(.body, 0), (.body, 0)])
      = .ok (.node [(.body, 0), (.body, 1)]) ∧
    (nodeReplace exT [(.body, 0), (.body, 1)] (leaf 40)).2 (.node [(.body, 0), (.body, 2)])
      = .ok (.node [(.body, 0), (.body, 1)]) ∧
    (nodeReplace exT [(.body, 0), (.body, 1)] (leaf 40)).2 (.node [(.body, 0), (.body, 1)])
      = .ok (.node [(.body, 0), (.body, 1)]) := by decide

end Exo.Cursor
