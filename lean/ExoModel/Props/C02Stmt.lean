/-
  C02 wave 2 — the statement level: running the C that `comp_s` emits simulates the procedure.

  Model:      ExoModel.CSem (mini-C + `execC`), ExoModel.CompileS (`compS` / `compL` = `comp_s` /
              `comp_stmts`, literal transcription; printer for the tie)
  Reference:  ExoModel.Sem (`execS` / `execL`), ExoModel.Range (the compiler's range analysis; its
              soundness theorems from C13 are USED here, so "sound non-negativity flags" is not a
              hypothesis but a consequence of `Inside`, the run-time valuation lying inside the
              compiler's range environment)
  Lemmas:     ExoModel/Lemmas/CSim{Expr,Rep,Access,Ctrl,Static,Pres,Win,Stmt,Mon}.lean

  THE STATEMENT AT FULL STRENGTH (not proved in this form):

      theorem compL_simulation (ext) : compL Γ ss = .ok (cs, Γ') → Γ.renv ≠ [] →
          Fresh (bindersL ss) Γ σ → Rep Γ σ c → execL ext ss σ = .ok σ' →
          ∃ c', execCL true cs c = .ok c' ∧ Rep Γ' σ' c'

  It is FALSE as it stands, for two reasons that are findings about the real backend:
    F6  `%` is emitted verbatim: with a possibly-negative numerator C computes another cell
        (`compL_mod_witness` below).  Hypothesis kept explicit: `Γ'.modOK = true` (the compiler's
        own range analysis proves every `%` numerator non-negative) — hence `…_partial`.
    F7  `MemoryAnalysis` may put `free(x)` before a use of `x` through a window alias: with the
        monitors on, `execCL true` answers `useAfterFree` where the reference run succeeds
        (`free_alias_witness` below).
  What is proved:
    * `compL_simulation_partial` — the simulation for the whole covered fragment (Pass, Assign,
      Reduce, WriteConfig, If, For, Alloc, Free, WindowStmt; tensors, windows, scalars by value
      and by reference, strides, config) with the allocation-status monitors switched off
      (`execCL false`): `oobC`, `divZeroC`, `stuck` are still monitored and do not trip.
    * `compL_simulation_monitored_partial` — with ALL monitors on, for programs whose compiled code
      contains no `malloc` / `free` (tensor allocations; scalar allocations `T x;` are covered).
    * `freeOK_sound_c`, `compL_simulation_monitored_full_partial` — with ALL monitors on and
      WITH tensor allocations, under the explicit, decidable static discipline `FreeOK`
      (CompileS.lean: per block, `free(x)` only of a pointer `malloc`ed in the same block, once;
      no dereference of a pointer / window whose alias root has been freed; every `malloc` of the
      block freed at the brace; names declared once while visible).  `FreeOK` holds of the
      example program and FAILS on the F7 program (`freeOK_f7_fails`): it is exactly what
      `MemoryAnalysis` does not establish through window aliases.
    STILL MISSING: `FreeOK (output of the MemoryAnalysis model memL)` from `Balanced` + the
    no-alias hypothesis of Props/C08.lean (different statement abstraction, `MStmt`); the tie
    reports `freeOK` for every compiled procedure instead.
    * CALLS (wave 3): every theorem above covers statement lists with calls of non-instruction
      sub-procedures (all argument kinds: size / index, dense tensors, windows — variables and
      window expressions —, scalars by reference `x` / `&x`), under `CallsOKL` (see
      `compL_simulation_partial`); example `ex3Body` below.
  Every theorem is followed by an `example` on a concrete program.
-/
import ExoModel.Lemmas.CSimFreeStmt

namespace Exo.CompileS.C02Stmt
open Exo Exo.CIndex Exo.CSem Exo.CompileS
open Exo.Range (IExpr Op Val Inside)

/-! ## the theorems -/

/-- **forward simulation** (allocation-status monitors off).  For every statement list of the
    covered fragment (`compL` succeeds), every reference state `σ` and C state `c` related by
    `Rep Γ σ c`, if the reference semantics runs to `σ'` then the emitted C runs — without
    `oobC`, `divZeroC`, `stuck` — to a state `c'` that represents `σ'` under the compiler's final
    environment.
    PARTIAL: (1) hypothesis `Γ'.modOK = true`, i.e. no `%` with a possibly-negative numerator
    (finding F6); (2) `execCL false`: `useAfterFree` / `doubleFree` / `badFree` / `leak` are not
    monitored (finding F7 makes the monitored statement false without a further hypothesis).
    `Fresh`: the binders of `ss` are distinct and new (true of front-end output; needed because
    `envtyp` is a flat dict and shapes are re-evaluated at every access).
    CALLS of non-instruction sub-procedures are covered: `execP` (bindArgs, noAlias, checkShapes,
    checkPreds, body, leave) is simulated by the C call `f(ctxt,…)` of the callee compiled with ITS
    environment; `modOK` includes the callees.  `CallsOKL`: for every call site (at any depth)
    `FormalsOK` (distinct formals, shapes are index arithmetic, the callee's binders are new) and
    `BoundsOK` (the bounds the callee's range environment holds for its size arguments — SMT
    derived from its preconditions in the real code — are true whenever the arguments are bound
    and `checkPreds` succeeded).  `checkPreds` success is what makes the folded `_known_strides` the
    actual strides (`known_sound`); a call whose callee assertion does NOT hold (finding F13:
    `replace` does not establish callee assertions) makes the reference run fail with
    `assertFail`, so it is outside the hypothesis `execL … = ok` — nothing is claimed for it. -/
theorem compL_simulation_partial {V : Type} [DataAlg V] (ext : String → List V → V)
    {Γ Γ' : CEnv} {ss : List Stmt} {cs : List CStmt} {σ σ' : State V} {c : CState V}
    (hc : compL Γ ss = .ok (cs, Γ')) (hmod : Γ'.modOK = true) (hne : Γ.renv ≠ [])
    (hfresh : Fresh (bindersL ss) Γ σ) (hcalls : CallsOKL V Γ.cb ss) (hrep : Rep Γ σ c) (hex : execL ext ss σ = .ok σ') :
    ∃ c', execCL false cs c = .ok c' ∧ Rep Γ' σ' c' := by
  obtain ⟨c', h1, h2, _, _⟩ := simL ext Γ.cb ss hc hmod hne hex hrep hfresh rfl hcalls
  exact ⟨c', h1, h2⟩

/-- hence: equal final heaps and configuration -/
theorem compL_final_state_partial {V : Type} [DataAlg V] (ext : String → List V → V)
    {Γ Γ' : CEnv} {ss : List Stmt} {cs : List CStmt} {σ σ' : State V} {c : CState V}
    (hc : compL Γ ss = .ok (cs, Γ')) (hmod : Γ'.modOK = true) (hne : Γ.renv ≠ [])
    (hfresh : Fresh (bindersL ss) Γ σ) (hcalls : CallsOKL V Γ.cb ss) (hrep : Rep Γ σ c) (hex : execL ext ss σ = .ok σ') :
    ∃ c', execCL false cs c = .ok c' ∧ c'.heap = σ'.heap ∧ c'.cfg = σ'.cfg ∧ c'.ints = σ'.env := by
  obtain ⟨c', h1, h2⟩ := compL_simulation_partial ext hc hmod hne hfresh hcalls hrep hex
  exact ⟨c', h1, h2.heap, h2.cfg, h2.ints⟩

/-- the procedure body as a block (`execB` / `execCB`): the final C state is the final reference
    state, scope left on both sides -/
theorem body_simulation_partial {V : Type} [DataAlg V] (ext : String → List V → V)
    {Γ Γ' : CEnv} {ss : List Stmt} {cs : List CStmt} {σ σ' : State V} {c : CState V}
    (hc : compL Γ ss = .ok (cs, Γ')) (hmod : Γ'.modOK = true) (hne : Γ.renv ≠ [])
    (hfresh : Fresh (bindersL ss) Γ σ) (hcalls : CallsOKL V Γ.cb ss) (hrep : Rep Γ σ c) (hex : execB ext ss σ = .ok σ') :
    ∃ c', execCB false cs c = .ok c' ∧ Rep Γ' σ' c' := by
  obtain ⟨σ1, hs1, rfl⟩ := map_ok hex
  obtain ⟨c1, h1, h2⟩ := compL_simulation_partial ext hc hmod hne hfresh hcalls hrep hs1
  have hb : execCB false cs c = .ok (⟨c.ints, c.vals, c1.heap.take c.heap.length,
      c1.stat.take c.heap.length, c1.cfg⟩ : CState V) := by
    simp only [execCB, h1, ok_bind, leaveC, Bool.false_and, Bool.false_eq_true, if_false]; rfl
  exact ⟨_, hb, block_sim hrep (compL_static ss hc hne) hfresh.views h2⟩

/-- C08, what falls out: in a simulated run neither the bounds monitor nor the division monitor
    trips and the program is not stuck -/
theorem simulated_run_no_oob_no_divzero_partial {V : Type} [DataAlg V]
    (ext : String → List V → V) {Γ Γ' : CEnv} {ss : List Stmt} {cs : List CStmt}
    {σ σ' : State V} {c : CState V}
    (hc : compL Γ ss = .ok (cs, Γ')) (hmod : Γ'.modOK = true) (hne : Γ.renv ≠ [])
    (hfresh : Fresh (bindersL ss) Γ σ) (hcalls : CallsOKL V Γ.cb ss) (hrep : Rep Γ σ c) (hex : execL ext ss σ = .ok σ') :
    execCL false cs c ≠ .error .oobC ∧ execCL false cs c ≠ .error .divZeroC ∧
    execCL false cs c ≠ .error .stuck := by
  obtain ⟨c', h1, _⟩ := compL_simulation_partial ext hc hmod hne hfresh hcalls hrep hex
  rw [h1]; exact ⟨by simp, by simp, by simp⟩

/-- **all monitors on**, for compiled code without `malloc` / `free` (no tensor allocation;
    scalar allocations, windows, config, loops, branches are covered): the monitored run succeeds
    with the same final state — no `useAfterFree`, `doubleFree`, `badFree`, `leak`, `oobC`,
    `divZeroC`.  `AllStack c`: every block that exists at entry is owned by the caller.
    PARTIAL: sub-fragment (`NoMalloc cs`), and hypothesis `modOK` (F6). -/
theorem compL_simulation_monitored_partial {V : Type} [DataAlg V] (ext : String → List V → V)
    {Γ Γ' : CEnv} {ss : List Stmt} {cs : List CStmt} {σ σ' : State V} {c : CState V}
    (hc : compL Γ ss = .ok (cs, Γ')) (hmod : Γ'.modOK = true) (hne : Γ.renv ≠ [])
    (hfresh : Fresh (bindersL ss) Γ σ) (hcalls : CallsOKL V Γ.cb ss) (hrep : Rep Γ σ c) (hex : execL ext ss σ = .ok σ')
    (hnm : noMallocL cs = true) (hst : AllStack c) :
    ∃ c', execCL true cs c = .ok c' ∧ Rep Γ' σ' c' ∧ AllStack c' := by
  obtain ⟨c', h1, h2⟩ := compL_simulation_partial ext hc hmod hne hfresh hcalls hrep hex
  obtain ⟨h3, h4⟩ := monL_eq cs hnm hst h1
  exact ⟨c', h3, h2, h4⟩


/-- **soundness of the static `free` discipline** (C08): C code that satisfies `freeOK`, started
    in a state where nothing has been freed and all pointers are among `vis0` and point into the
    heap, and that runs as a block with the status monitors off, runs identically with all monitors
    on: no `useAfterFree`, no `doubleFree`, no `badFree`, and no `leak` at any closing brace. -/
theorem freeOK_sound_c {V : Type} [DataAlg V] {vis0 : List Sym} {cs : List CStmt}
    {c c' : CState V} (hok : freeOK vis0 cs = true) (hentry : Entry vis0 c)
    (h : execCB false cs c = .ok c') : execCB true cs c = .ok c' :=
  freeOK_sound hok hentry h

/-- **all monitors on, with tensor allocations.**  For a statement list (after MemoryAnalysis) that
    compiles, satisfies the static discipline `FreeOK` and whose reference run (as a block)
    succeeds from a represented state: the fully monitored C run of the compiled body succeeds and
    ends in the state that represents the reference result.
    PARTIAL only because of `modOK` (F6) and the constructs `compS` does not cover. -/
theorem compL_simulation_monitored_full_partial {V : Type} [DataAlg V]
    (ext : String → List V → V) {Γ Γ' : CEnv} {ss : List Stmt} {cs : List CStmt}
    {σ σ' : State V} {c : CState V} {vis0 : List Sym}
    (hc : compL Γ ss = .ok (cs, Γ')) (hmod : Γ'.modOK = true) (hne : Γ.renv ≠ [])
    (hfresh : Fresh (bindersL ss) Γ σ) (hcalls : CallsOKL V Γ.cb ss) (hrep : Rep Γ σ c) (hex : execB ext ss σ = .ok σ')
    (hfree : FreeOK Γ vis0 ss = true) (hentry : Entry vis0 c) :
    ∃ c', execCB true cs c = .ok c' ∧ Rep Γ' σ' c' := by
  obtain ⟨c', h1, h2⟩ := body_simulation_partial ext hc hmod hne hfresh hcalls hrep hex
  have hf : freeOK vis0 cs = true := by
    simp only [FreeOK, hc] at hfree; exact hfree
  exact ⟨c', freeOK_sound hf hentry h1, h2⟩

/-! ## non-vacuity: a concrete program

    for i in seq(0, n):          -- n = 3, x = [1,2,3], y = [10,20,30]
        t : f32[2]
        w = x[i:i+1]
        t[0] = w[0]
        y[i] += t[0] * 2.0
        free t                   -- as MemoryAnalysis inserts it

  compiled by the model to
    for (int_fast32_t i = 0; i < n; i++) { float *t = (float*) malloc(2 * sizeof(*t));
      struct exo_win_1f32 w = (struct exo_win_1f32){ &x[i], { 1 } };
      t[0] = w.data[0];  y[i] += t[0] * 2.0f;  free(t); } -/

instance : DataAlg Int where
  ofRat n d := n / d
  add := (· + ·)
  sub := (· - ·)
  mul := (· * ·)
  div := (· / ·)
  neg := (- ·)

def extI : String → List Int → Int := fun _ _ => 0
def n : Sym := ⟨"n", 1⟩
def x : Sym := ⟨"x", 2⟩
def y : Sym := ⟨"y", 3⟩
def i : Sym := ⟨"i", 4⟩
def t : Sym := ⟨"t", 5⟩
def w : Sym := ⟨"w", 6⟩
def rd (a : Sym) : Expr := .read a []
def li (k : Int) : Expr := .lit (.int k)
def exBody : List Stmt :=
  [.loop i (li 0) (rd n)
    [.alloc t [li 2],
     .window w (.win x [.interval (rd i) (.binop .add (rd i) (li 1))]),
     .assign t [li 0] (.read w [li 0]),
     .reduce y [rd i] (.binop .mul (.read t [li 0]) (.lit (.data 2 1))),
     .free t] false]
def exProc : Proc := .mk "ex" [⟨n, .ctrl .size⟩, ⟨x, .tensor [rd n] false⟩, ⟨y, .tensor [rd n] false⟩] [] exBody
def exΓ : CEnv := initEnv exProc [(n, (some 1, none))]
def exOut := compL exΓ exBody
def exCs : List CStmt := match exOut with | .ok r => r.1 | .error _ => []
def exΓ' : CEnv := match exOut with | .ok r => r.2 | .error _ => exΓ
set_option maxRecDepth 100000 in
theorem exHc : compL exΓ exBody = .ok (exCs, exΓ') := by rfl

def exσ : State Int :=
  { env := [(n, 3)], views := [(y, ⟨1, 0, denseDims [3]⟩), (x, ⟨0, 0, denseDims [3]⟩)],
    heap := [[some 1, some 2, some 3], [some 10, some 20, some 30]], cfg := [] }
def exC : CState Int :=
  { ints := [(n, 3)], vals := [(y, .ptr 1 0), (x, .ptr 0 0)],
    heap := [[some 1, some 2, some 3], [some 10, some 20, some 30]], stat := [.stack, .stack], cfg := [] }

def exRun := execL extI exBody exσ
def exσ' : State Int := match exRun with | .ok s => s | .error _ => exσ
theorem exHex : execL extI exBody exσ = .ok exσ' := by
  have h : (match exRun with | .ok _ => true | .error _ => false) = true := by decide +kernel
  unfold exσ'
  cases hr : exRun with
  | error e => rw [hr] at h; cases h
  | ok s => exact hr
theorem exHeap : exσ'.heap = [[some 1, some 2, some 3], [some 12, some 24, some 36]] := by
  decide +kernel

theorem repVal_tensor {Γ : CEnv} {env : List (Sym × Int)} {a : Sym} {v : View} {sh : List IExpr}
    (hty : lookupSym a Γ.typ = some (.tensor sh)) (hd : DimsOK v.dims)
    (hrefs : Γ.refs.contains a = false)
    (hsh : ∀ e ∈ sh, PosDivisorsE (ρOfL env) e ∧ ∀ z ∈ e.vars, (lookupSym z env).isSome = true)
    (hdims : v.dims = denseDims (sh.map (fun e => Range.eval e (ρOfL env)))) :
    RepVal Γ env a v (.ptr v.buf v.off) := by
  unfold RepVal
  rw [hty]
  refine ⟨hd, fun h => ?_, rfl, hsh, hdims⟩
  rw [hrefs] at h; cases h

theorem exMod : exΓ'.modOK = true := by decide +kernel
theorem exNe : exΓ.renv ≠ [] := by simp [exΓ, initEnv, initEnvOf, Range.Env.initWith]
theorem exCalls : CallsOKL Int exΓ.cb exBody := by simp [exBody, CallsOKL, CallsOKS]
theorem exFresh : Fresh (bindersL exBody) exΓ exσ :=
  ⟨by decide, by decide, by decide, by decide, by decide⟩
theorem exRng : Range.Inside (ρS exσ) exΓ.renv.lookup := by
  apply Range.inside_initWith
  intro a b h
  simp only [List.mem_singleton, Prod.mk.injEq] at h
  obtain ⟨rfl, rfl⟩ := h
  exact ⟨fun l hl => by simp only [Option.some.injEq] at hl; subst hl; decide, fun h hh => by cases hh⟩
theorem exDims : DimsOK (denseDims [3]) := by
  intro d hd; simp [denseDims] at hd; subst hd; decide
theorem exShape : ∀ e ∈ [IExpr.var n], PosDivisorsE (ρOfL exσ.env) e ∧
    ∀ z ∈ e.vars, (lookupSym z exσ.env).isSome = true := by
  intro e he; simp only [List.mem_singleton] at he; subst he
  exact ⟨trivial, by decide⟩
theorem exRep : Rep exΓ exσ exC := by
  refine ⟨rfl, rfl, rfl, ?_, exRng⟩
  intro a v h
  by_cases hy : a = y
  · subst hy
    have hv : v = ⟨1, 0, denseDims [3]⟩ := by
      simp [exσ, lookupSym] at h; exact h.symm
    subst hv
    exact ⟨.ptr 1 0, by decide, repVal_tensor (sh := [.var n]) (by rfl) exDims (by decide) exShape (by decide)⟩
  · by_cases hx : a = x
    · subst hx
      have hv : v = ⟨0, 0, denseDims [3]⟩ := by
        simp [exσ, lookupSym, hy] at h; exact h.symm
      subst hv
      exact ⟨.ptr 0 0, by decide, repVal_tensor (sh := [.var n]) (by rfl) exDims (by decide) exShape (by decide)⟩
    · simp [exσ, lookupSym, hy, hx] at h

example : ∃ c', execCL false exCs exC = .ok c' ∧ Rep exΓ' exσ' c' :=
  compL_simulation_partial extI exHc exMod exNe exFresh exCalls exRep exHex
example : ∃ c', execCL false exCs exC = .ok c' ∧
    c'.heap = [[some 1, some 2, some 3], [some 12, some 24, some 36]] := by
  obtain ⟨c', h1, h2, _, _⟩ := compL_final_state_partial extI exHc exMod exNe exFresh exCalls exRep exHex
  exact ⟨c', h1, by rw [h2]; exact exHeap⟩
/-- the monitored run of the same compiled program, evaluated -/
example : (match execCB true exCs exC with | .ok c' => c'.heap == [[some 1, some 2, some 3], [some 12, some 24, some 36]] | .error _ => false) = true := by
  decide +kernel

example : ∃ c', execCB false exCs exC = .ok c' ∧ Rep exΓ' (State.leave exσ exσ') c' :=
  body_simulation_partial extI exHc exMod exNe exFresh exCalls exRep (by rw [execB, exHex]; rfl)
example : execCL false exCs exC ≠ .error .oobC ∧ execCL false exCs exC ≠ .error .divZeroC ∧
    execCL false exCs exC ≠ .error .stuck :=
  simulated_run_no_oob_no_divzero_partial extI exHc exMod exNe exFresh exCalls exRep exHex

/-- the example satisfies the static `free` discipline … -/
theorem exFreeOK : FreeOK exΓ [n, x, y] exBody = true := by decide +kernel
theorem exEntry : Entry [n, x, y] exC := by
  refine ⟨rfl, by decide, ?_, ?_⟩
  · intro a h
    by_cases h1 : a = y
    · simp [h1]
    · by_cases h2 : a = x
      · simp [h2]
      · simp [exC, lookupSym, h1, h2] at h
  · intro a cv h
    by_cases h1 : a = y
    · subst h1; simp [exC, lookupSym] at h; subst h; decide
    · by_cases h2 : a = x
      · subst h2; simp [exC, lookupSym, h1] at h; subst h; decide
      · simp [exC, lookupSym, h1, h2] at h

example : execCB true exCs exC = execCB false exCs exC := by
  obtain ⟨c', h1, _⟩ := body_simulation_partial extI exHc exMod exNe exFresh exCalls exRep
    (show execB extI exBody exσ = .ok (State.leave exσ exσ') by rw [execB, exHex]; rfl)
  rw [h1, freeOK_sound_c (by simpa [FreeOK, exHc] using exFreeOK) exEntry h1]

/-- … hence the fully monitored run of the compiled loop nest (malloc, window, reduce, free)
    succeeds and represents the reference result -/
example : ∃ c', execCB true exCs exC = .ok c' ∧ Rep exΓ' (State.leave exσ exσ') c' :=
  compL_simulation_monitored_full_partial extI exHc exMod exNe exFresh exCalls exRep
    (by rw [execB, exHex]; rfl) exFreeOK exEntry

/-! ### the same loop with a scalar instead of the tensor allocation: all monitors on -/

def s : Sym := ⟨"s", 7⟩
def ex2Body : List Stmt :=
  [.loop i (li 0) (rd n)
    [.alloc s [],
     .window w (.win x [.interval (rd i) (.binop .add (rd i) (li 1))]),
     .assign s [] (.read w [li 0]),
     .reduce y [rd i] (.binop .mul (.read s []) (.lit (.data 2 1))),
     .free s] false]
def ex2Out := compL exΓ ex2Body
def ex2Cs : List CStmt := match ex2Out with | .ok r => r.1 | .error _ => []
def ex2Γ' : CEnv := match ex2Out with | .ok r => r.2 | .error _ => exΓ
set_option maxRecDepth 100000 in
theorem ex2Hc : compL exΓ ex2Body = .ok (ex2Cs, ex2Γ') := by rfl
def ex2Run := execL extI ex2Body exσ
def ex2σ' : State Int := match ex2Run with | .ok s => s | .error _ => exσ
theorem ex2Hex : execL extI ex2Body exσ = .ok ex2σ' := by
  have h : (match ex2Run with | .ok _ => true | .error _ => false) = true := by decide +kernel
  unfold ex2σ'
  cases hr : ex2Run with
  | error e => rw [hr] at h; cases h
  | ok s => exact hr
theorem ex2Fresh : Fresh (bindersL ex2Body) exΓ exσ :=
  ⟨by decide, by decide, by decide, by decide, by decide⟩

example : ∃ c', execCL true ex2Cs exC = .ok c' ∧ Rep ex2Γ' ex2σ' c' ∧ AllStack c' :=
  compL_simulation_monitored_partial extI ex2Hc (by decide +kernel) exNe ex2Fresh (by simp [ex2Body, CallsOKL, CallsOKS]) exRep ex2Hex
    (by decide +kernel) (by intro s hs; simp [exC] at hs; exact hs)
example : ex2σ'.heap = [[some 1, some 2, some 3], [some 12, some 24, some 36]] := by decide +kernel

/-! ## the two excluded cases are reachable (findings about the real backend) -/

/-- F7 at the statement level: `t : f32[4]; w = t[0:4]; free t; y[0] = w[0]` — this is where
    `MemoryAnalysis` puts the `Free` (after the last *textual* use of `t`; Props/C08.lean
    `memL_alias_witness`).  The reference run and the unmonitored C run succeed; with the monitors
    on the C run reports `useAfterFree`. -/
def f7Body : List Stmt :=
  [.alloc t [li 4], .window w (.win t [.interval (li 0) (li 4)]), .free t,
   .assign y [li 0] (.read w [li 0])]
def f7Cs : List CStmt := match compL exΓ f7Body with | .ok r => r.1 | .error _ => []

theorem free_alias_witness :
    (match compL exΓ f7Body with | .ok r => r.2.modOK | .error _ => false) = true ∧
    (match execL extI f7Body exσ with | .ok _ => true | .error _ => false) = true ∧
    (match execCB false f7Cs exC with | .ok _ => true | .error _ => false) = true ∧
    (match execCB true f7Cs exC with | .error e => e == .useAfterFree | .ok _ => false) = true := by
  refine ⟨by decide +kernel, by decide +kernel, by decide +kernel, by decide +kernel⟩

/-- the static discipline REJECTS the F7 program (the `Free` placement of `MemoryAnalysis`
    through a window alias), and the rejection is necessary: see `free_alias_witness` -/
theorem freeOK_f7_fails : FreeOK exΓ [n, x, y] f7Body = false := by decide +kernel

/-- F6 at the statement level: `for i in seq(0, 3): y[i] = x[(i - 1) % 3]`.  The compiler's range
    analysis cannot prove `i - 1 ≥ 0` (`modOK = false`), `%` is emitted verbatim, and at `i = 0` the C
    program reads `x[-1]` (`oobC`) where the procedure means `x[2]`. -/
def f6Body : List Stmt :=
  [.loop i (li 0) (li 3)
    [.assign y [rd i] (.read x [.binop .mod (.binop .sub (rd i) (li 1)) (li 3)])] false]
def f6Cs : List CStmt := match compL exΓ f6Body with | .ok r => r.1 | .error _ => []

theorem compL_mod_witness :
    (match compL exΓ f6Body with | .ok r => r.2.modOK | .error _ => true) = false ∧
    (match execL extI f6Body exσ with
      | .ok s => s.heap == [[some 1, some 2, some 3], [some 3, some 1, some 2]] | .error _ => false) = true ∧
    (match execCB false f6Cs exC with | .error e => e == .oobC | .ok _ => false) = true := by
  refine ⟨by decide +kernel, by decide +kernel, by decide +kernel⟩

/-- the printer is `comp_cir`'s text: printing the tree `compAst` builds gives `comp` -/
theorem printCE_compAst (env : Sym → String) : ∀ (k : CIR) (prec : Nat),
    printCE env (compAst k) prec = comp env k prec
  | .read _ _, _ => rfl
  | .const _, _ => rfl
  | .stride _ _, _ => rfl
  | .usub a _, _ => by simp [compAst, printCE, comp, printCE_compAst env a]
  | .bin op a b _, prec => by
      by_cases hd : op = .div
      · subst hd
        by_cases hl : divLhsNonNeg a = true
        · simp [compAst, printCE, comp, hl, printCE_compAst env a, printCE_compAst env b, opPrec]
        · simp [compAst, printCE, comp, hl, printCE_compAst env a, printCE_compAst env b, opPrec]
      · simp [compAst, printCE, comp, hd, printCE_compAst env a, printCE_compAst env b]

example : printCE (fun s => s.name) (compAst (.bin .div (.bin .sub (.read i false) (.const 3) false)
    (.const 2) false)) 0 = "exo_floor_div((i - 3), 2)" := by decide

/-! ### a call: window literal, dense pointer, local scalar by reference, size -/

def m : Sym := ⟨"m", 10⟩
def src : Sym := ⟨"src", 11⟩
def dst : Sym := ⟨"dst", 12⟩
def acc : Sym := ⟨"acc", 13⟩
def j : Sym := ⟨"j", 14⟩
/-- `def scale2(m: size, src: [f32][m], dst: f32[m], acc: f32):
       for j in seq(0, m): dst[j] = src[j] * 2.0; acc += src[j]` -/
def scale2 : Proc :=
  .mk "scale2" [⟨m, .ctrl .size⟩, ⟨src, .tensor [rd m] true⟩, ⟨dst, .tensor [rd m] false⟩, ⟨acc, .scalar⟩] []
    [.loop j (li 0) (rd m)
      [.assign dst [rd j] (.binop .mul (.read src [rd j]) (.lit (.data 2 1))),
       .reduce acc [] (.read src [rd j])] false]
/-- `s: f32; s = 0.0; scale2(n, x[0:n], y, s); y[0] += s` -/
def ex3Body : List Stmt :=
  [.alloc s [], .assign s [] (.lit (.data 0 1)),
   .call scale2 [rd n, .win x [.interval (li 0) (rd n)], rd y, rd s],
   .reduce y [li 0] (.read s []), .free s]
def ex3Cb : List (String × List (Sym × Range.Bound)) := [("scale2", [(m, (some 1, none))])]
def ex3Γ : CEnv := initEnv exProc [(n, (some 1, none))] ex3Cb
def ex3Out := compL ex3Γ ex3Body
def ex3Cs : List CStmt := match ex3Out with | .ok r => r.1 | .error _ => []
def ex3Γ' : CEnv := match ex3Out with | .ok r => r.2 | .error _ => ex3Γ
set_option maxRecDepth 100000 in
theorem ex3Hc : compL ex3Γ ex3Body = .ok (ex3Cs, ex3Γ') := by rfl
def ex3Run := execL extI ex3Body exσ
def ex3σ' : State Int := match ex3Run with | .ok s => s | .error _ => exσ
theorem ex3Hex : execL extI ex3Body exσ = .ok ex3σ' := by
  have h : (match ex3Run with | .ok _ => true | .error _ => false) = true := by decide +kernel
  unfold ex3σ'
  cases hr : ex3Run with
  | error e => rw [hr] at h; cases h
  | ok s => exact hr
theorem ex3Fresh : Fresh (bindersL ex3Body) ex3Γ exσ :=
  ⟨by decide, by decide, by decide, by decide, by decide⟩
theorem ex3Rep : Rep ex3Γ exσ exC := exRep.change (fun _ _ _ => rfl) rfl rfl exRep.rng
theorem ex3Ne : ex3Γ.renv ≠ [] := by simp [ex3Γ, initEnv, initEnvOf, Range.Env.initWith]

theorem ex3Calls : CallsOKL Int ex3Γ.cb ex3Body := by
  simp only [ex3Body, scale2, CallsOKL, CallsOKS, and_true, true_and]
  refine ⟨⟨by decide, by decide, by decide, by decide⟩, ?_⟩
  intro σc hint hbound _
  apply Range.inside_initWith
  intro a b h
  have hb : (a, b) = (m, ((some 1, none) : Range.Bound)) := by
    simpa [ex3Γ, initEnv, initEnvOf, ex3Cb, cbLookup] using h
  simp only [Prod.mk.injEq] at hb
  obtain ⟨rfl, rfl⟩ := hb
  have hs := hbound ⟨m, .ctrl .size⟩ (by simp) .size rfl
  cases hl : lookupSym m σc.env with
  | none => rw [hl] at hs; cases hs
  | some v =>
      obtain ⟨fa, k, hmem, hname, hty, hpos⟩ := hint m v hl
      have hk : k = .size := by
        simp only [List.mem_cons, List.not_mem_nil, or_false] at hmem
        rcases hmem with rfl | rfl | rfl | rfl
        · simpa using hty.symm
        · exact absurd hname (by decide)
        · exact absurd hname (by decide)
        · exact absurd hname (by decide)
      refine ⟨fun l hl' => ?_, fun h hh => by cases hh⟩
      simp only [Option.some.injEq] at hl'; subst hl'
      have := hpos hk
      simp only [ρS, ρOfL, hl, Option.getD_some]
      omega

theorem ex3FreeOK : FreeOK ex3Γ [n, x, y] ex3Body = true := by decide +kernel

/-- the caller's monitored C run of `s = 0; scale2(ctxt,n,(struct exo_win_1f32){ &x[0], { 1 } },y,&s);
    y[0] += s;` represents the reference result -/
example : ∃ c', execCB true ex3Cs exC = .ok c' ∧ Rep ex3Γ' (State.leave exσ ex3σ') c' :=
  compL_simulation_monitored_full_partial extI ex3Hc (by decide +kernel) ex3Ne ex3Fresh ex3Calls
    ex3Rep (by rw [execB, ex3Hex]; rfl) ex3FreeOK exEntry
example : (State.leave exσ ex3σ').heap = [[some 1, some 2, some 3], [some 8, some 4, some 6]] := by
  decide +kernel
example : (match printL ⟨"float", "f32"⟩ [⟨[], [(n, "n"), (x, "x"), (y, "y")]⟩] ex3Cs with
    | .ok r => r.1 | .error e => [e]) =
    ["float s;", "s = lit(0/1);", "scale2(ctxt,n,(struct exo_win_1f32){ &x[0], { 1 } },y,&s);",
     "y[0] += s;"] := by decide +kernel


end Exo.CompileS.C02Stmt
