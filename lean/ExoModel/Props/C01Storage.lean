/-
  Property C01, wave 2 — `reorder_stmts` under a semantic commutation side condition (dynamic
  footprints), allocation motion (`lift_alloc`, `sink_alloc`, `delete_buffer`) and `delete_pass`.
  Property theorems only (helper lemmas live in ExoModel/Lemmas/Footprint*.lean and
  ExoModel/Lemmas/Storage*.lean; the shapes the real primitives build are in
  ExoModel/RewriteStorage.lean).  Every theorem quantifies over all data algebras `V`, all
  interpretations `ext` of extern functions and all states.
-/
import ExoModel.Equiv
import ExoModel.DataLaws
import ExoModel.Footprint
import ExoModel.Rewrite
import ExoModel.RewriteStorage
import ExoModel.Lemmas.Exec
import ExoModel.Lemmas.Rewrites
import ExoModel.Lemmas.Reach
import ExoModel.Lemmas.FootprintFrame
import ExoModel.Lemmas.StoragePass
import ExoModel.Lemmas.StorageLocal
import ExoModel.Lemmas.StorageAlloc3
import ExoModel.Lemmas.StorageReach
import ExoModel.Lemmas.StorageBind
import ExoModel.Lemmas.StorageSinkIf
import ExoModel.Lemmas.StorageSink
import ExoModel.Lemmas.StorageExpand
import ExoModel.Lemmas.StorageDims
import ExoModel.Lemmas.StorageReorderAlloc
import ExoModel.Lemmas.StorageStage3
import ExoModel.Lemmas.StorageReuse
import ExoModel.Lemmas.StorageStage8
import ExoModel.Lemmas.StorageStageWO
import ExoModel.Lemmas.StorageStageAcc1
import ExoModel.Lemmas.StorageUnroll

set_option linter.unusedSectionVars false
namespace Exo.C01S
open Exo Exo.Fp

/-! ## Part 1 — `reorder_stmts`: the frame / commutation theorem -/

section
variable {V : Type} [DataAlg V] [DataLaws V] (ext : String → List V → V)

/-- the event list that defines the footprint is faithful: a successful run changes the buffers that
    existed before and the configuration exactly as the events say (cell by cell) -/
theorem footprint_replay (B : List Stmt) (σ σ' : State V) (h : execL ext B σ = .ok σ') :
    (∀ c : Cell, c.1 < σ.heap.length →
        heapGet σ'.heap c = cellEff (evL ext B σ) c (heapGet σ.heap c)) ∧
    σ'.cfg = cfgEff (evL ext B σ) σ.cfg :=
  ⟨(replayL ext B σ σ' h).cells, (replayL ext B σ σ' h).cfg⟩

/-- determinacy on the footprint (the frame property): a state `σ'` with the same scope and heap
    shape that agrees with `σ` on every cell and configuration field the run from `σ` reads
    produces the same events and fails / succeeds like the run from `σ` -/
theorem footprint_determinacy (B : List Stmt) (σ σ' : State V) (P : Cell → Prop) (Pk : Key → Prop)
    (hA : Agree P Pk σ σ') (hR : ReadsIn P Pk (evL ext B σ)) :
    evL ext B σ' = evL ext B σ ∧ LockA P Pk (execL ext B σ) (execL ext B σ') :=
  detL ext B σ σ' hA hR

/-- **commutation**: two blocks that define no name (`noDefs`) and whose dynamic footprints in `σ`
    satisfy `commuteAt` — cells written by one are not accessed by the other, cells reduced by one
    are not read or written by the other (reduce/reduce overlap on a cell IS allowed: addition is
    commutative and associative, `DataLaws`), same for configuration fields, and every written
    field is already bound — can be executed in either order: both orders fail, or both succeed in
    the same state -/
theorem reorder_blocks (A B : List Stmt) (σ : State V) (hA : noDefs A = true) (hB : noDefs B = true)
    (hc : commuteAt ext A B σ = true) :
    ExEq (execL ext (A ++ B) σ) (execL ext (B ++ A) σ) :=
  commute_blocks ext A B σ hA hB hc

/-- `reorder_stmts` (`DoReorderStmt`, shape `Rw.reorderStmts`): `a ; b` = `b ; a` in every state in
    which the footprints commute (what `Check_ReorderStmts` is asked to establish) -/
theorem reorder_stmts (a b : Stmt) (σ : State V) (ha : a.isDef = false) (hb : b.isDef = false)
    (hc : commuteAt ext [a] [b] σ = true) :
    ExEq (execL ext [a, b] σ) (execL ext [b, a] σ) :=
  commute_stmts ext a b σ ha hb hc

end

/-! non-vacuity: two reductions into the same cell `x[0]` (one of them reading `y[0]`) commute … -/

def exX : Sym := ⟨"x", 1⟩
def exY : Sym := ⟨"y", 2⟩
def exσ : State Int :=
  { env := [], views := [(exX, ⟨0, 0, [(2, 1)]⟩), (exY, ⟨1, 0, [(2, 1)]⟩)],
    heap := [[some 1, some 2], [some 3, some 4]], cfg := [] }
def exRedY : Stmt := .reduce exX [.lit (.int 0)] (.read exY [.lit (.int 0)])
def exRed5 : Stmt := .reduce exX [.lit (.int 0)] (.lit (.data 5 1))
def exSet7 : Stmt := .assign exX [.lit (.int 0)] (.lit (.data 7 1))
def exCopy : Stmt := .assign exY [.lit (.int 0)] (.read exX [.lit (.int 0)])

example : commuteAt (fun _ _ => (0 : Int)) [exRedY] [exRed5] exσ = true := by decide

example : ExEq (execL (fun _ _ => (0 : Int)) [exRedY, exRed5] exσ)
               (execL (fun _ _ => (0 : Int)) [exRed5, exRedY] exσ) :=
  reorder_stmts _ exRedY exRed5 exσ rfl rfl (by decide)

/-- … and the side condition is needed: `x[0] = 7 ; y[0] = x[0]` does not commute (write/read on
    one cell — the first near-miss family of Appendix B), the footprints say so, and the two orders
    really end in different states -/
theorem reorder_stmts_needs_commute :
    commuteAt (fun _ _ => (0 : Int)) [exSet7] [exCopy] exσ = false ∧
    ¬ ExEq (execL (fun _ _ => (0 : Int)) [exSet7, exCopy] exσ)
           (execL (fun _ _ => (0 : Int)) [exCopy, exSet7] exσ) := by
  refine ⟨by decide, fun h => ?_⟩
  have := congrArg (fun r => r.map (·.heap)) h
  revert this
  decide

/-- `reorder_stmts` anywhere in a procedure: if in every state that reaches the two statements
    their footprints commute, the procedure with the statements swapped is equivalent to the
    original, for every data algebra satisfying the ring laws (`EquivLaws`; re-associating a
    reduction is only sound "up to real-number algebra") -/
theorem reorder_stmts_in_context (C : Ctx) (a b : Stmt) (nm : String) (args : List FnArg)
    (preds : List Expr) (ha : a.isDef = false) (hb : b.isDef = false)
    (side : ∀ (V : Type) [DataAlg V] [DataLaws V] (ext : String → List V → V) (σ₀ σ : State V),
        Reach ext C [a, b] σ₀ σ → commuteAt ext [a] [b] σ = true) :
    EquivLaws (fun _ => False)
      (.mk nm args preds (C.fill [a, b])) (.mk nm args preds (C.fill [b, a])) := by
  refine equivLaws_of_reach_le C _ _ nm args preds (fun V _ _ ext σ₀ σ hr => ?_)
  exact (commute_stmts ext a b σ ha hb (side V ext σ₀ σ hr)).le

/-- the shape: `Rw.reorderStmts` applied at the hole of a sequence context is that swap -/
example (a b : Stmt) (r : List Stmt) : Rw.reorderStmts (a :: b :: r) = some (b :: a :: r) := rfl

example : EquivLaws (fun _ => False)
    (.mk "p" [] [] ((Ctx.seq [] .hole [.pass]).fill [.pass, .free exX]))
    (.mk "p" [] [] ((Ctx.seq [] .hole [.pass]).fill [.free exX, .pass])) :=
  reorder_stmts_in_context _ _ _ _ _ _ rfl rfl (fun V _ _ ext σ₀ σ _ => by
    simp [commuteAt, footprint, evL, evS, execS, onOk, visible, commutesB, modsAvoid, disj, cfgBound,
      writes, reduces, reads, cfgWrites, cfgReads, pure, Except.pure])

/-! ## Part 2 — allocation motion: `lift_alloc`, `sink_alloc`, `delete_buffer`, `delete_pass`

States are compared by `Ref` (same scope and heap layout after the block is left; undefined cells
may be defined on the right) — the relation behind `Refines`/`Equiv`.  `WRef` is `Ref` between
states in which every view in scope points into the heap (`ViewsOk`; an invariant of execution,
and a fact about every state the harness or a caller can produce, but not implied by `ValidIn`). -/

section
variable {V : Type} [DataAlg V] (ext : String → List V → V)

/-- the general simulation theorem behind this part: a statement that mentions no name of `X` runs
    in lock step (both fail, or both succeed in related states) from two states that differ by `k`
    extra buffers inserted at heap position `N`, extra bindings of names in `X`, and cell contents
    related by any relation `R` closed under the data operations (`Eq`, poison refinement, …) -/
theorem exec_simulation {R : Option V → Option V → Prop} (hR : CellRel R) (B : List Stmt)
    (N k : Nat) (X : Sym → Prop) (s s' : State V) (hX : ∀ y ∈ namesL B, ¬ X y)
    (h : Sim R N k X s s') : Lock (Sim R N k X) (execL ext B s) (execL ext B s') :=
  execL_sim ext hR B N k X s s' hX h

/-- monotonicity of the semantics in the poison order -/
theorem exec_monotone (B : List Stmt) (s s' : State V) (h : Ref s s') :
    Lock Ref (execL ext B s) (execL ext B s') := exec_mono ext B h

/-- **`lift_alloc` out of a `for`** (`DoLiftAllocSimple`, one level, allocation at the head of the
    body): `for i: (x : T[sh]; B) ; rest`  ⊑  `x : T[sh]; for i: B ; rest`.
    Side conditions: the extents evaluate to positive sizes in the current state (NOT implied by the
    original running: a zero-trip loop never evaluates them — see `lift_alloc_needs_positive_extent`),
    do not mention `i` and do not read configuration state (`shapeStable`: the syntactic guard of
    `DoLiftAllocSimple` plus `cfgFree`), and `x` is not mentioned by the bounds or after the loop.
    NO condition on `B`: where the original reads a fresh poison cell the lifted program reads the
    value left by the previous iteration, and poison is refined by anything. -/
theorem lift_alloc_for (x i : Sym) (lo hi : Expr) (sh : List Expr) (B rest : List Stmt) (par : Bool)
    (σ σ' : State V) (h : WRef σ σ') (szs : List Int)
    (hsz : evalCs σ sh = .ok szs) (hpos : checkSizes szs = .ok ()) (hst : shapeStable i sh = true)
    (hx : ∀ y ∈ lo.names ++ hi.names ++ namesL rest, y ≠ x) :
    Lock Ref (execB ext (.loop i lo hi (.alloc x sh :: B) par :: rest) σ)
             (execB ext (.alloc x sh :: .loop i lo hi B par :: rest) σ') :=
  lift_for_lock ext CellRel.refines (fun _ => Or.inl rfl) x i lo hi sh B rest par σ σ' h.ref.sim h.ok
    szs hsz hpos (fun s v he hv => by rw [evalCs_stable i sh hst σ s v he hv]; exact hsz) hx

/-- **`lift_alloc` out of an `if`** (allocation at the head of the `then` branch) -/
theorem lift_alloc_if (x : Sym) (c : Expr) (sh : List Expr) (B E rest : List Stmt)
    (σ σ' : State V) (h : WRef σ σ') (szs : List Int)
    (hsz : evalCs σ sh = .ok szs) (hpos : checkSizes szs = .ok ())
    (hx : ∀ y ∈ c.names ++ namesL E ++ namesL rest, y ≠ x) :
    Lock Ref (execB ext (.ite c (.alloc x sh :: B) E :: rest) σ)
             (execB ext (.alloc x sh :: .ite c B E :: rest) σ') :=
  lift_if_lock ext CellRel.refines x c sh B E rest σ σ' h.ref.sim h.ok szs hsz hpos hx

end

section
variable {V : Type} [DataAlg V] (ext : String → List V → V)

/-- … and for an allocation in the middle of the loop body, after statements `A` that define no
    name and do not mention `x`: `for i: (A; x : T[sh]; B) ; rest`  ⊑  `x : T[sh]; for i: (A; B) ; rest` -/
theorem lift_alloc_for_mid (x i : Sym) (lo hi : Expr) (sh : List Expr) (A B rest : List Stmt)
    (par : Bool) (σ σ' : State V) (h : WRef σ σ') (szs : List Int)
    (hA : noDefs A = true) (hxA : ∀ y ∈ namesL A, y ≠ x)
    (hsz : evalCs σ sh = .ok szs) (hpos : checkSizes szs = .ok ()) (hst : shapeStable i sh = true)
    (hx : ∀ y ∈ lo.names ++ hi.names ++ namesL rest, y ≠ x) :
    Lock Ref (execB ext (.loop i lo hi (A ++ .alloc x sh :: B) par :: rest) σ)
             (execB ext (.alloc x sh :: .loop i lo hi (A ++ B) par :: rest) σ') :=
  lift_for_mid_lock ext CellRel.refines (fun _ => Or.inl rfl) x i lo hi sh A B rest par σ σ'
    h.ref.sim h.ok szs hA hxA hsz hpos
    (fun s v he hv => by rw [evalCs_stable' i sh hst σ s v he hv]; exact hsz) hx

end

/-- **conditional congruence for refinement**: a rewrite of a block SUFFIX (`C.tail`: the hole is at
    the end of every block on the way down) that is refinement-sound between well-scoped states on
    the states in which control reaches it, yields an equivalent procedure on well-scoped inputs -/
theorem rewrite_in_context_ref (C : Ctx) (hC : C.tail = true) (B B' : List Stmt) (nm : String)
    (args : List FnArg) (preds : List Expr)
    (h : ∀ (V : Type) [DataAlg V] (ext : String → List V → V) (σ₀ σ σ' : State V),
        Reach ext C B σ₀ σ → WRef σ σ' → Fwd WRef (execB ext B σ) (execB ext B' σ')) :
    EquivOn WellScoped (fun _ => False)
      (.mk nm args preds (C.fill B)) (.mk nm args preds (C.fill B')) :=
  equivOn_of_reach_refW C hC B B' nm args preds h

/-- `lift_alloc` out of a loop with SYMBOLIC extents, anywhere in a procedure (the loop and what
    follows it being the end of their block): if in every state that reaches the loop the extents
    evaluate to positive sizes, the procedure with the allocation lifted is equivalent -/
theorem lift_alloc_for_in_context (C : Ctx) (hC : C.tail = true) (x i : Sym) (lo hi : Expr)
    (sh : List Expr) (A B rest : List Stmt) (par : Bool) (nm : String) (args : List FnArg)
    (preds : List Expr) (hA : noDefs A = true) (hxA : ∀ y ∈ namesL A, y ≠ x)
    (hst : shapeStable i sh = true)
    (hx : ∀ y ∈ lo.names ++ hi.names ++ namesL rest, y ≠ x)
    (side : ∀ (V : Type) [DataAlg V] (ext : String → List V → V) (σ₀ σ : State V),
        Reach ext C (.loop i lo hi (A ++ .alloc x sh :: B) par :: rest) σ₀ σ →
        ∃ szs, evalCs σ sh = .ok szs ∧ checkSizes szs = .ok ()) :
    EquivOn WellScoped (fun _ => False)
      (.mk nm args preds (C.fill (.loop i lo hi (A ++ .alloc x sh :: B) par :: rest)))
      (.mk nm args preds (C.fill (.alloc x sh :: .loop i lo hi (A ++ B) par :: rest))) := by
  refine rewrite_in_context_ref C hC _ _ nm args preds (fun V _ ext σ₀ σ σ' hre hw => ?_)
  obtain ⟨szs, h1, h2⟩ := side V ext σ₀ σ hre
  intro t ht
  obtain ⟨t', ht', htt⟩ :=
    (lift_alloc_for_mid ext x i lo hi sh A B rest par σ σ' hw szs hA hxA h1 h2 hst hx).ok_left ht
  obtain ⟨t1, h1', rfl⟩ := execB_ok_inv ext ht
  exact ⟨t', ht', htt, hw.ok.leave (execL_scope ext _ σ t1 h1').2.1⟩

/-- the guarded shape at any position `k` of a loop body (`Rw.liftAllocAt k` = `Rw.liftAlloc
    [.body 0, .body k]` under `liftAllocGuardAt k`), applied anywhere in a procedure -/
theorem lift_alloc_at_partial (k : Nat) (path : Rw.Path) (nm : String) (args : List FnArg)
    (preds : List Expr) (body body' : List Stmt)
    (h : Rw.rewriteAt (Rw.liftAllocAt k) path body = some body') :
    EquivOn WellScoped (fun _ => False) (.mk nm args preds body) (.mk nm args preds body') :=
  equivOn_of_blockRefW (rewriteAt_refW _ (Rw.liftAllocAt_sound k) path body body' h) nm args preds

/-- all of these are for ONE level and for an allocation in front of which no name is defined;
    `DoLiftAllocSimple` also lifts over `n_lifts` levels and past other allocations
    (`Rw.liftAlloc rel`): not proved (needs a permutation of buffer ids, not only an insertion) -/
theorem lift_alloc_partial (path : Rw.Path) (nm : String) (args : List FnArg) (preds : List Expr)
    (body body' : List Stmt) (h : Rw.rewriteAt Rw.liftAllocHead path body = some body') :
    EquivOn WellScoped (fun _ => False) (.mk nm args preds body) (.mk nm args preds body') :=
  equivOn_of_blockRefW (rewriteAt_refW _ Rw.liftAllocHead_sound path body body' h) nm args preds

/-! non-vacuity, and why refinement (not equality) is the right statement:
    `for i in 0..2: (t : R ; y[i] = t ; t = a[i])` — the original leaves `y = [⊥, ⊥]`, the lifted
    program `y = [⊥, a[0]]` -/

def lT : Sym := ⟨"t", 3⟩
def lA : Sym := ⟨"a", 1⟩
def lY : Sym := ⟨"y", 2⟩
def lI : Sym := ⟨"i", 4⟩
def liftBody : List Stmt :=
  [.assign lY [.read lI []] (.read lT []), .assign lT [] (.read lA [.read lI []])]
def liftBefore : List Stmt :=
  [.loop lI (.lit (.int 0)) (.lit (.int 2)) (.alloc lT [] :: liftBody) false]
def liftAfter : List Stmt :=
  [.alloc lT [], .loop lI (.lit (.int 0)) (.lit (.int 2)) liftBody false]
def liftσ : State Int :=
  { env := [], views := [(lA, ⟨0, 0, [(2, 1)]⟩), (lY, ⟨1, 0, [(2, 1)]⟩)],
    heap := [[some 5, some 6], [none, none]], cfg := [] }

example : Rw.rewriteAt Rw.liftAllocHead [.body 0] liftBefore = some liftAfter := by rfl

example : Rw.liftAllocHead liftBefore = Rw.liftAlloc [.body 0, .body 0] liftBefore := by rfl

example : EquivOn WellScoped (fun _ => False) (.mk "p" [] [] liftBefore) (.mk "p" [] [] liftAfter) :=
  lift_alloc_partial [.body 0] _ _ _ _ _ (by rfl)

/-- allocation in the middle of the body: `for i: (y[i] = a[i]; t : R; t = a[i])` -/
example : Rw.rewriteAt (Rw.liftAllocAt 1) [.body 0]
    [.loop lI (.lit (.int 0)) (.lit (.int 2))
      [.assign lY [.read lI []] (.read lA [.read lI []]), .alloc lT [],
       .assign lT [] (.read lA [.read lI []])] false]
    = some [.alloc lT [], .loop lI (.lit (.int 0)) (.lit (.int 2))
      [.assign lY [.read lI []] (.read lA [.read lI []]),
       .assign lT [] (.read lA [.read lI []])] false] := by
  simp [Rw.rewriteAt, Rw.liftAllocAt, Rw.liftAllocGuardAt, Rw.liftAlloc, Rw.removeAt, Rw.Step.idx,
    Rw.fillPass, posLits, noDefs, Stmt.isDef, Rw.notIn, namesL, Stmt.names, Expr.names, namesEs,
    lT, lI, lA, lY]

/-- the lifted program is strictly more defined: `lift_alloc` is NOT an equality of behaviours -/
theorem lift_alloc_strict :
    (execB (fun _ _ => (0 : Int)) liftBefore liftσ).toOption.map (·.heap)
      = some [[some 5, some 6], [none, none]] ∧
    (execB (fun _ _ => (0 : Int)) liftAfter liftσ).toOption.map (·.heap)
      = some [[some 5, some 6], [none, some 5]] := by
  constructor <;> decide

/-- the positivity side condition is needed: lifting `t : f32[n-1]` out of `if n > 1:` makes the
    procedure fail (`nonPosSize`) for `n = 1`, where the original runs.  The real `lift_alloc`
    accepts this (replayed on /repo: `lift_alloc` of `t` in
    `def g(n: size, …): if n > 1: t: f32[n - 1]; …` gives `t: f32[n - 1]` in front of the `if`). -/
def zN : Sym := ⟨"n", 1⟩
def zT : Sym := ⟨"t", 2⟩
def zBefore : List Stmt :=
  [.ite (.binop .gt (.read zN []) (.lit (.int 1)))
     [.alloc zT [.binop .sub (.read zN []) (.lit (.int 1))], .pass] []]
def zAfter : List Stmt :=
  [.alloc zT [.binop .sub (.read zN []) (.lit (.int 1))],
   .ite (.binop .gt (.read zN []) (.lit (.int 1))) [.pass] []]
def zσ : State Int := { env := [(zN, 1)], views := [], heap := [], cfg := [] }

example : Rw.rewriteAt (Rw.liftAlloc [.body 0, .body 0]) [.body 0] zBefore = some zAfter := by rfl

theorem lift_alloc_needs_positive_extent :
    ¬ EquivOn WellScoped (fun _ => False) (.mk "g" [] [] zBefore) (.mk "g" [] [] zAfter) := by
  intro h
  have h1 : (execB (fun _ _ => (0 : Int)) zBefore zσ).toOption.isSome = true := by decide
  have h2 : (execB (fun _ _ => (0 : Int)) zAfter zσ).toOption.isSome = false := by decide
  cases ho : execB (fun _ _ => (0 : Int)) zBefore zσ with
  | error e => rw [ho] at h1; simp [Except.toOption] at h1
  | ok o =>
    obtain ⟨o', ho', _⟩ := h Int (fun _ _ => 0) zσ o (by intro p hp; cases hp) ho
    simp only [Proc.body] at ho'
    rw [ho'] at h2
    simp [Except.toOption] at h2

/-! ### `sink_alloc` is the converse and is NOT sound (recorded defects: loop-carried values; the
    `else` copy is renamed but the branch is not) -/

def sT : Sym := ⟨"t", 3⟩
def sX : Sym := ⟨"x", 1⟩
def sY : Sym := ⟨"y", 2⟩
def sI : Sym := ⟨"i", 4⟩
def sinkBody : List Stmt :=
  [.ite (.binop .eq (.read sI []) (.lit (.int 0))) [.assign sT [] (.read sX [.lit (.int 0)])] [],
   .assign sY [.read sI []] (.read sT [])]
def sinkBefore : Proc :=
  .mk "p" [⟨sX, .tensor [.lit (.int 2)] false⟩, ⟨sY, .tensor [.lit (.int 2)] false⟩] []
    [.alloc sT [], .loop sI (.lit (.int 0)) (.lit (.int 2)) sinkBody false]
def sinkAfter : Proc :=
  .mk "p" [⟨sX, .tensor [.lit (.int 2)] false⟩, ⟨sY, .tensor [.lit (.int 2)] false⟩] []
    [.loop sI (.lit (.int 0)) (.lit (.int 2)) (.alloc sT [] :: sinkBody) false]
def sinkσ : State Int :=
  { env := [], views := [(sX, ⟨0, 0, [(2, 1)]⟩), (sY, ⟨1, 0, [(2, 1)]⟩)],
    heap := [[some 5, some 6], [some 0, some 0]], cfg := [] }

example : Rw.rewriteAt (Rw.sinkAlloc sT) [.body 0] sinkBefore.body = some sinkAfter.body := by rfl

/-- `t: R; for i in 0..2: (if i == 0: t = x[0]); y[i] = t` — after `sink_alloc` the second
    iteration reads a fresh buffer: `y[1]` was `x[0]` and becomes poison (on a well-scoped, valid
    input).  The real `sink_alloc` accepts this program. -/
theorem sink_alloc_unsound : ¬ EquivOn WellScoped (fun _ => False) sinkBefore sinkAfter := by
  intro h
  have h1 : (execB (fun _ _ => (0 : Int)) sinkBefore.body sinkσ).toOption.map (·.heap)
      = some [[some 5, some 6], [some 5, some 5]] := by decide
  have h2 : (execB (fun _ _ => (0 : Int)) sinkAfter.body sinkσ).toOption.map (·.heap)
      = some [[some 5, some 6], [some 5, none]] := by decide
  cases ho : execB (fun _ _ => (0 : Int)) sinkBefore.body sinkσ with
  | error e => rw [ho] at h1; simp [Except.toOption] at h1
  | ok o =>
    obtain ⟨o', ho', r⟩ := h Int (fun _ _ => 0) sinkσ o (by unfold WellScoped ViewsOk; decide) ho
    rw [ho] at h1
    rw [ho'] at h2
    simp only [Except.toOption, Option.map_some, Option.some.injEq] at h1 h2
    have := r.cells (1, 1)
    rw [h1, h2] at this
    revert this
    unfold CellRefines heapGet
    decide

/-- `u: R; if c: (u = 1; y[0] = u) else: (u = 3; y[0] = u)` — `DoSinkAlloc` gives the `else` branch
    an allocation under a fresh name but leaves the branch's statements on the old name, which is
    no longer in scope there: the procedure fails with a scope error when `c` is false -/
def eU : Sym := ⟨"u", 3⟩
def eU' : Sym := ⟨"u", 9⟩
def eK : Sym := ⟨"k", 4⟩
def eUse (v : Int) : List Stmt :=
  [.assign eU [] (.lit (.data v 1)), .assign sY [.lit (.int 0)] (.read eU [])]
def elseBefore : List Stmt :=
  [.alloc eU [], .ite (.binop .lt (.read eK []) (.lit (.int 2))) (eUse 1) (eUse 3)]
def elseAfter : List Stmt :=
  [.ite (.binop .lt (.read eK []) (.lit (.int 2))) (.alloc eU [] :: eUse 1) (.alloc eU' [] :: eUse 3)]
def elseσ : State Int :=
  { env := [(eK, 5)], views := [(sY, ⟨0, 0, [(2, 1)]⟩)], heap := [[some 0, some 0]], cfg := [] }

example : Rw.rewriteAt (Rw.sinkAlloc eU') [.body 0] elseBefore = some elseAfter := by rfl

theorem sink_alloc_else_unsound :
    ¬ EquivOn WellScoped (fun _ => False) (.mk "p" [] [] elseBefore) (.mk "p" [] [] elseAfter) := by
  intro h
  have h1 : (execB (fun _ _ => (0 : Int)) elseBefore elseσ).toOption.isSome = true := by decide
  have h2 : (execB (fun _ _ => (0 : Int)) elseAfter elseσ).toOption.isSome = false := by decide
  cases ho : execB (fun _ _ => (0 : Int)) elseBefore elseσ with
  | error e => rw [ho] at h1; simp [Except.toOption] at h1
  | ok o =>
    obtain ⟨o', ho', _⟩ := h Int (fun _ _ => 0) elseσ o (by unfold WellScoped ViewsOk; decide) ho
    simp only [Proc.body] at ho'
    rw [ho'] at h2
    simp [Except.toOption] at h2

/-- **`sink_alloc` into a `for` under the hypothesis that makes it true**: if in every iteration the
    body has no UPWARD-EXPOSED read of a cell of the buffer (`WritesFirst`: every read of a cell of
    `x` is preceded, in the dynamic footprint of that iteration, by a write to that cell —
    "initialises before reading"), the loop with the allocation inside and the loop with the
    allocation in front behave the same: both fail, or both succeed in EQUAL states -/
theorem sink_alloc_for {V : Type} [DataAlg V] (ext : String → List V → V)
    (x i : Sym) (lo hi : Expr) (sh : List Expr) (B rest : List Stmt) (par : Bool)
    (σ : State V) (hv : ViewsOk σ) (szs : List Int)
    (hsz : evalCs σ sh = .ok szs) (hpos : checkSizes szs = .ok ()) (hst : shapeStable i sh = true)
    (hx : ∀ y ∈ lo.names ++ hi.names ++ namesL rest, y ≠ x)
    (hwf : WritesFirst ext x i sh B σ.env σ.views σ.heap.length) :
    ExEq (execB ext (.alloc x sh :: .loop i lo hi B par :: rest) σ)
         (execB ext (.loop i lo hi (.alloc x sh :: B) par :: rest) σ) :=
  (sink_for_eq ext x i lo hi sh B rest par σ hv szs hsz hpos
    (fun s v he hv' => by rw [evalCs_stable i sh hst σ s v he hv']; exact hsz) hx hwf).symm

/-- … as a refinement between well-scoped states, anywhere in a procedure (the shape
    `Rw.sinkAlloc x'` builds for a `for`), for positive literal extents -/
theorem sink_alloc_for_in_context (C : Ctx) (hC : C.tail = true) (x i : Sym) (lo hi : Expr)
    (sh : List Expr) (B rest : List Stmt) (par : Bool) (nm : String) (args : List FnArg)
    (preds : List Expr) (hlit : posLits sh = true)
    (hx : ∀ y ∈ lo.names ++ hi.names ++ namesL rest, y ≠ x) (hwf : WritesFirstAll x i sh B) :
    EquivOn WellScoped (fun _ => False)
      (.mk nm args preds (C.fill (.alloc x sh :: .loop i lo hi B par :: rest)))
      (.mk nm args preds (C.fill (.loop i lo hi (.alloc x sh :: B) par :: rest))) :=
  rewrite_in_context_ref C hC _ _ nm args preds (fun V _ ext _ σ σ' _ hw t ht =>
    sink_for_refW x i lo hi sh B rest par hlit hx hwf V ext σ σ' t hw ht)

/-- `t = a[i]; y[i] = t` initialises before reading; the body of `sink_alloc_unsound` does not -/
example : WritesFirstAll SinkEx.t SinkEx.i [] SinkEx.body := SinkEx.body_writesFirst

example : EquivOn WellScoped (fun _ => False)
    (.mk "p" [] [] ((Ctx.hole).fill
      [.alloc SinkEx.t [], .loop SinkEx.i (.lit (.int 0)) (.lit (.int 2)) SinkEx.body false]))
    (.mk "p" [] [] ((Ctx.hole).fill
      [.loop SinkEx.i (.lit (.int 0)) (.lit (.int 2)) (.alloc SinkEx.t [] :: SinkEx.body) false])) :=
  sink_alloc_for_in_context .hole rfl _ _ _ _ _ _ [] _ _ _ _ rfl (fun _ h => by cases h)
    SinkEx.body_writesFirst

theorem sink_alloc_counterexample_not_writesFirst :
    ¬ WritesFirstAll SinkEx.t SinkEx.i [] SinkEx.badBody := SinkEx.badBody_not_writesFirst

/-- `sink_alloc` into an `if` IS sound when the `else` branch does not mention the buffer (what the
    real code fails to check) and the extents are positive literals: converse of `lift_alloc_if`
    (which holds for the converse of poison refinement too) plus a dead allocation in the `else`
    branch; shape `Rw.sinkAlloc x'` under `Rw.sinkIfGuard x'`, anywhere in a procedure -/
theorem sink_alloc_if (x' : Sym) (path : Rw.Path) (nm : String) (args : List FnArg)
    (preds : List Expr) (body body' : List Stmt)
    (h : Rw.rewriteAt (Rw.sinkAllocIf x') path body = some body') :
    EquivOn WellScoped (fun _ => False) (.mk nm args preds body) (.mk nm args preds body') :=
  equivOn_of_blockRefW (rewriteAt_refW _ (Rw.sinkAllocIf_sound x') path body body' h) nm args preds

example : Rw.rewriteAt (Rw.sinkAllocIf eU') [.body 0]
    [.alloc eU [], .ite (.binop .lt (.read eK []) (.lit (.int 2))) (eUse 1) [.pass]]
    = some [.ite (.binop .lt (.read eK []) (.lit (.int 2))) (.alloc eU [] :: eUse 1)
              [.alloc eU' [], .pass]] := by
  simp [Rw.rewriteAt, Rw.sinkAllocIf, Rw.sinkIfGuard, Rw.sinkAlloc, Rw.Step.idx, posLits, Rw.notIn,
    namesL, Stmt.names, Expr.names, namesEs, eU, eU', eK, eUse, sY]

/-! ### `delete_buffer`, `delete_pass` -/

/-- `delete_buffer` (`DoDeleteBuffer`, shape `Rw.deleteBuffer`): an allocation whose name is not
    mentioned by the rest of its block can be deleted, anywhere in a procedure -/
theorem delete_buffer (fill : Bool) (path : Rw.Path) (nm : String) (args : List FnArg)
    (preds : List Expr) (body body' : List Stmt)
    (h : Rw.rewriteAt (Rw.deleteBufferDead fill) path body = some body') :
    EquivOn WellScoped (fun _ => False) (.mk nm args preds body) (.mk nm args preds body') :=
  equivOn_of_blockRefW (rewriteAt_refW _ (Rw.deleteBufferDead_sound fill) path body body' h)
    nm args preds

example : Rw.rewriteAt (Rw.deleteBufferDead false) [.body 0, .body 0]
    [.loop lI (.lit (.int 0)) (.lit (.int 2)) [.alloc lT [.read lI []], .pass] false]
    = some [.loop lI (.lit (.int 0)) (.lit (.int 2)) [.pass] false] := by rfl

/-- the block-level statement (no side condition on the extents: if the original runs, the
    allocation succeeded) -/
theorem dead_alloc (x : Sym) (sh : List Expr) (rest : List Stmt) (hx : ∀ y ∈ namesL rest, y ≠ x) :
    BlockRefW (.alloc x sh :: rest) rest := dead_alloc_refW x sh rest hx

/-- `delete_pass` (`DoDeletePass`, shape `Rw.deletePass`): every `pass` is removed, loops whose
    body disappears are removed with it, emptied `if` branches are refilled — the result does at
    least what the original does (a removed loop with inverted bounds failed in the original) -/
theorem delete_pass (nm : String) (args : List FnArg) (preds : List Expr) (body : List Stmt) :
    Equiv (fun _ => False) (.mk nm args preds body) (.mk nm args preds (Rw.deletePass body)) :=
  equiv_of_blockLe (deletePass_le body) nm args preds

example : Rw.deletePass
    [.loop lI (.lit (.int 0)) (.lit (.int 2)) [.pass, .loop lT (.lit (.int 0)) (.lit (.int 2)) [.pass] false] false,
     .ite (.lit (.bool true)) [.pass] []] = [.ite (.lit (.bool true)) [.pass] []] := by rfl

/-- the converse inclusion does not hold: the deleted loop `for i in seq(2, 0): pass` fails -/
theorem delete_pass_not_eq :
    ¬ BlockEq [.loop lI (.lit (.int 2)) (.lit (.int 0)) [.pass] false, .pass]
              (Rw.deletePass [.loop lI (.lit (.int 2)) (.lit (.int 0)) [.pass] false, .pass]) := by
  intro h
  have := h Int (fun _ _ => 0) ⟨[], [], [], []⟩
  have h1 : (execL (fun _ _ => (0 : Int))
      [.loop lI (.lit (.int 2)) (.lit (.int 0)) [.pass] false, .pass] ⟨[], [], [], []⟩).toOption.isSome
        = false := by decide
  have h2 : (execL (fun _ _ => (0 : Int))
      (Rw.deletePass [.loop lI (.lit (.int 2)) (.lit (.int 0)) [.pass] false, .pass])
        ⟨[], [], [], []⟩).toOption.isSome = true := by decide
  unfold ExEq at this
  rw [this] at h1
  rw [h1] at h2
  cases h2

/-! ## Part 3 — `bind_expr` (`DoBindExpr`, one expression cursor, shape `Rw.bindExpr t e s'`) -/

/-- `s ; r`  ⊑  `t : R ; t = e ; s[e ↦ t] ; r` for `s` an assignment, a reduction or a data
    configuration write in which at least one occurrence of `e` was replaced (`replS`, `t`
    mentioned in `s'`), `t` fresh (`bindExprGuard`).  The two blocks run in lock step.  Nothing
    else is needed: `e` is evaluated immediately before `s'`, in a state that differs from the
    original one only by the new buffer. -/
theorem bind_expr (t : Sym) (e : Expr) (s s' : Stmt) (r : List Stmt)
    (hg : Rw.bindExprGuard t e s s' r = true) (hrepl : Rw.replS t e s s' = true) :
    BlockRefW (s :: r) (.alloc t [] :: .assign t [] e :: s' :: r) :=
  bind_expr_refW t e s s' r hg hrepl

/-- … applied at any address of any procedure -/
theorem bind_expr_in_procedure (t : Sym) (e : Expr) (s' : Stmt) (path : Rw.Path) (nm : String)
    (args : List FnArg) (preds : List Expr) (body body' : List Stmt)
    (h : Rw.rewriteAt (Rw.bindExprChecked t e s') path body = some body') :
    EquivOn WellScoped (fun _ => False) (.mk nm args preds body) (.mk nm args preds body') :=
  bind_expr_anywhere t e s' path nm args preds body body' h

example : EquivOn WellScoped (fun _ => False)
    (.mk "p" [] [] BindExamples.before) (.mk "p" [] [] BindExamples.after) :=
  bind_expr_in_procedure BindExamples.sT BindExamples.eSq BindExamples.s1 [.body 0, .body 0] _ _ _ _ _
    BindExamples.ex_rewrite

/-- call arguments are excluded, and have to be: `sc(a); y[0] = a` with a callee that writes its
    scalar argument becomes `bnd = a; sc(bnd); y[0] = a` — the write goes to `bnd`.  The real
    `bind_expr` accepts this (finding D4). -/
theorem bind_expr_call_unsound :
    Rw.bindExpr BindExamples.sB (.read BindExamples.sA []) (.call BindExamples.sc [.read BindExamples.sB []])
        BindExamples.callBefore = some BindExamples.callAfter ∧
    ¬ BlockRefW BindExamples.callBefore BindExamples.callAfter := by
  refine ⟨?_, BindExamples.bind_expr_call_unsound⟩
  simp [Rw.bindExpr, Rw.replS, Rw.replEs, Rw.replE, Rw.procEq, Rw.exprEq, Rw.exprsEq, Rw.symEq,
    BindExamples.callBefore, BindExamples.callAfter, BindExamples.sc, Proc.name, Proc.args,
    BindExamples.sA, BindExamples.sB]

/-! ## Part 4 — `expand_dim` of a local buffer (`DoExpandDim`, shape `Rw.expandDim n e`)

`x : T[sh] ; rest`  ↦  `x : T[n, sh] ; rest[x[idx] ↦ x[e, idx]]`: cell `o` of the original buffer
corresponds to cell `e·m + o` of the expanded one (`m = Π sh`) — an instance of re-indexing a local
buffer through an injective map (here a shift; simulation relation `Exp`/`ExpW`, statement-level
theorems `execL_expand(W)` with callee bodies in identity mode `execL_id(W)`). -/

/-- the two blocks run in lock step and end — after the block is left — in EQUAL states.
    Side conditions: semantic — `n` evaluates to a positive `nv` and `e` to `0 ≤ ev < nv` in the
    state at the allocation (`Check_IsPositiveExpr`, `Check_Bounds`); syntactic (`expandDimGuardW`)
    — `e` depends on the control environment only and mentions no loop variable bound in `rest`;
    `x` is not re-bound; `x` occurs only as the buffer of data reads, as an `assign`/`reduce`
    target, and as the base of window expressions in `window` statements and call arguments.
    `_partial`: control expressions mentioning `x` (`stride(x, d)`) and the bare name as a view are
    excluded — the former necessarily (`expand_dim_stride_unsound`). -/
theorem expand_dim_partial {V : Type} [DataAlg V] (ext : String → List V → V)
    (x : Sym) (sh : List Expr) (n e : Expr) (rest : List Stmt) (σ : State V) (hvo : ViewsOk σ)
    (hg : Rw.expandDimGuardW n e (.alloc x sh :: rest) = true)
    (nv ev : Int) (hn : evalC σ n = .ok nv) (hnpos : 0 < nv)
    (he : evalC σ e = .ok ev) (hev0 : 0 ≤ ev) (hev1 : ev < nv) :
    Lock Eq (execB ext (.alloc x sh :: rest) σ)
      (execB ext (.alloc x (n :: sh) :: Rw.expandL x e rest) σ) :=
  expand_dim_lock_win_partial ext x sh n e rest σ hvo hg nv ev hn hnpos he hev0 hev1

/-- as a refinement between well-scoped states, the semantic side condition being asked for every
    well-scoped state in which the original block runs -/
theorem expand_dim_ref_partial (x : Sym) (sh : List Expr) (n e : Expr) (rest : List Stmt)
    (hg : Rw.expandDimGuardW n e (.alloc x sh :: rest) = true)
    (hsem : ∀ (V : Type) [DataAlg V] (ext : String → List V → V) (σ o : State V), ViewsOk σ →
      execB ext (.alloc x sh :: rest) σ = .ok o →
      ∃ nv ev, evalC σ n = .ok nv ∧ 0 < nv ∧ evalC σ e = .ok ev ∧ 0 ≤ ev ∧ ev < nv) :
    BlockRefW (.alloc x sh :: rest) (.alloc x (n :: sh) :: Rw.expandL x e rest) :=
  expand_dim_refW_win_partial x sh n e rest hg hsem

/-- the guarded shape (literal `n > 0`, literal `0 ≤ e < n`) anywhere in a procedure -/
theorem expand_dim_in_procedure_partial (n e : Expr) (path : Rw.Path) (nm : String)
    (args : List FnArg) (preds : List Expr) (body body' : List Stmt)
    (h : Rw.rewriteAt (Rw.expandDimCheckedW n e) path body = some body') :
    EquivOn WellScoped (fun _ => False) (.mk nm args preds body) (.mk nm args preds body') :=
  expand_dim_anywhere_win_partial n e path nm args preds body body' h

example : Rw.expandDimCheckedW (.lit (.int 4)) (.lit (.int 2)) ExpandExamples.beforeW
    = some ExpandExamples.afterW := ExpandExamples.ex_checkedW

example : BlockRefW ExpandExamples.beforeW ExpandExamples.afterW :=
  Rw.expandDimCheckedW_sound _ _ _ _ ExpandExamples.ex_checkedW

/-- the index must be in range: `e = n` makes the expanded block fail (`oob`) -/
theorem expand_dim_out_of_range_unsound :
    ¬ BlockRefW ExpandExamples.before ExpandExamples.afterBad :=
  ExpandExamples.expand_dim_out_of_range_unsound

/-- `DoExpandDim` does not renumber `stride(x, d)` (finding D3): `t : R[2,3] ; c.f = stride(t, 0)`
    stores 3 before and 6 after the expansion -/
theorem expand_dim_stride_unsound : ¬ BlockRefW ExpandExamples.beforeS ExpandExamples.afterS :=
  ExpandExamples.expand_dim_stride_unsound

/-! ## Part 5 — dimension rewrites of a local buffer: ONE theorem `reindex_local` and its instances

`x : T[sh] ; rest`  ↦  `x : T[sh'] ; rest[x[idx] ↦ x[φ idx]]` (shape `Rw.reindexDim sh' ρ`,
ExoModel/RewriteReindex.lean).  `ReidxSyn φ f`: the syntactic map `φ` computes the integer map `f`
on evaluated index tuples.  `ReidxGeom ds ds' m m' f D`: `f` maps the in-bounds tuples of the old
dense layout whose cell satisfies `D` to in-bounds tuples of the new layout, injectively on cells.
`AccIn N D t`: every access of the dynamic footprint `t` to buffer `N` hits a cell in `D`. -/

/-- **`reindex_local`**: if the original block runs, the re-indexed block runs and ends — after the
    block is left — in the same state.  One-directional (`Fwd`): an out-of-bounds tuple may have an
    in-bounds image (`mult_dim`: `j = c`), so the converse is false.
    `_partial`: the guard `Rw.reidxGuard` excludes window expressions of `x`, `stride(x, _)`, `x`
    (or an element) as a call argument or window right-hand side, `x` in index / control
    expressions, re-binding of `x`.  Calls, `if`, `for`, allocations, windows of other buffers,
    configuration reads / writes are covered (callee bodies run in identity mode). -/
theorem reindex_local_partial {V : Type} [DataAlg V] (ext : String → List V → V)
    (x : Sym) (sh sh' : List Expr) (ρ : Rw.Reidx) (f : List Int → List Int) (rest : List Stmt)
    (σ : State V) (hvo : ViewsOk σ) (hg : Rw.reidxGuard x rest = true) (hsyn : ReidxSyn ρ.idx f)
    (szs szs' : List Int) (hsz : evalCs σ sh = .ok szs) (hsz' : evalCs σ sh' = .ok szs')
    (hpos' : checkSizes szs' = .ok ()) (D : Int → Prop)
    (hgeo : ReidxGeom (denseDims szs) (denseDims szs') (szs.foldl (· * ·) 1).toNat
      (szs'.foldl (· * ·) 1).toNat f D)
    (hacc : AccIn σ.heap.length D (Fp.evL ext (.alloc x sh :: rest) σ)) :
    Fwd Eq (execB ext (.alloc x sh :: rest) σ) (execB ext (.alloc x sh' :: Rw.reidxL x ρ rest) σ) :=
  reindex_fwd_partial ext x sh sh' ρ f rest σ hvo hg hsyn szs szs' hsz hsz' hpos' D hgeo hacc

/-- … as a refinement between well-scoped states (the semantic side condition asked for every
    well-scoped state in which the original block runs) -/
theorem reindex_local_ref_partial (x : Sym) (sh sh' : List Expr) (ρ : Rw.Reidx)
    (f : List Int → List Int) (rest : List Stmt) (hg : Rw.reidxGuard x rest = true)
    (hsyn : ReidxSyn ρ.idx f) (hsem : ReidxSem x sh sh' f rest) :
    BlockRefW (.alloc x sh :: rest) (.alloc x sh' :: Rw.reidxL x ρ rest) :=
  reindex_refW_partial x sh sh' ρ f rest hg hsyn hsem

/-- non-vacuity: a 2×3 buffer filled by a double loop, transposed to 3×2 -/
example : BlockRefW ReidxExamples.before ReidxExamples.after := ReidxExamples.ex_refW

/-- `divide_dim` (`DoDivideDim`, shape `Rw.divideDim d q`): `i ↦ (i / q, i % q)`; no cell moves.
    Side condition: `q > 0` and the extent of dimension `d` is divisible by `q` in every state
    (`Check_IsDivisible`). -/
theorem divide_dim_partial (x : Sym) (sh : List Expr) (d : Nat) (q : Int) (rest : List Stmt)
    (hq : 0 < q) (hg : Rw.reidxGuard x rest = true)
    (hdiv : ∀ (V : Type) (σ : State V) (szs : List Int), evalCs σ sh = .ok szs →
      ∃ n, szs[d]? = some n ∧ n % q = 0) :
    BlockRefW (.alloc x sh :: rest)
      (.alloc x (Rw.divideShape d q sh) :: Rw.reidxL x ⟨Rw.divideIdx d q, id, id⟩ rest) :=
  divide_dim_refW_partial x sh d q rest hq hg hdiv

/-- `mult_dim` (`DoMultiplyDim`, shape `Rw.multDim hi lo`): `(i, j) ↦ c*i + j` with `c` the literal
    extent of dimension `lo`; ANY positions `hi ≠ lo`.  No semantic side condition. -/
theorem mult_dim_partial (x : Sym) (sh : List Expr) (hi lo : Nat) (c : Int) (rest : List Stmt)
    (hne : hi ≠ lo) (hhi : hi < sh.length) (hlo : sh[lo]? = some (.lit (.int c)))
    (hg : Rw.reidxGuard x rest = true) :
    BlockRefW (.alloc x sh :: rest)
      (.alloc x (Rw.multShape hi lo sh) :: Rw.reidxL x ⟨Rw.multIdx hi lo c, id, id⟩ rest) :=
  mult_dim_refW_partial x sh hi lo c rest hne hhi hlo hg

/-- `rearrange_dim` (`DoRearrangeDim`, shape `Rw.rearrangeDim perm`): a permutation of the
    dimensions.  No semantic side condition. -/
theorem rearrange_dim_partial (x : Sym) (sh : List Expr) (perm : List Nat) (rest : List Stmt)
    (hp : Rw.isPermVec perm sh.length = true) (hg : Rw.reidxGuard x rest = true) :
    BlockRefW (.alloc x sh :: rest)
      (.alloc x (Rw.permList perm sh) ::
        Rw.reidxL x ⟨Rw.permList perm, Rw.permList perm, Rw.permDim perm⟩ rest) :=
  rearrange_dim_refW_partial x sh perm rest hp hg

/-- `resize_dim(fold = False)` (`DoResizeDim`, shape `Rw.resizeDim d size off`), LITERAL offset `ov`:
    `i ↦ i - ov`.  Semantic side conditions (`Check_IsPositiveExpr`, `Check_Bounds`): `size`
    positive, every accessed cell has `0 ≤ i - ov < size` in dimension `d` (on the dynamic
    footprint of the original run). -/
theorem resize_dim_partial (x : Sym) (sh : List Expr) (d : Nat) (size : Expr) (ov : Int)
    (rest : List Stmt) (hg : Rw.reidxGuard x rest = true)
    (hsem : ∀ (V : Type) [DataAlg V] (ext : String → List V → V) (σ o : State V) (szs : List Int),
      ViewsOk σ → execB ext (.alloc x sh :: rest) σ = .ok o → evalCs σ sh = .ok szs →
      ∃ sv, evalC σ size = .ok sv ∧ 0 < sv ∧
        AccIn σ.heap.length (ReidxInst.resizeD szs d ov sv) (Fp.evL ext (.alloc x sh :: rest) σ)) :
    BlockRefW (.alloc x sh :: rest)
      (.alloc x (Rw.resizeShape d size sh) ::
        Rw.reidxL x ⟨Rw.resizeIdx d (Rw.litI ov), Rw.resizeWin d (Rw.litI ov), id⟩ rest) :=
  resize_dim_refW_partial x sh d size ov rest hg hsem

/-- the guarded shapes of the real primitives, anywhere in a procedure (no semantic hypothesis left:
    `divideDimChecked` asks for a literal extent, which `Rw.divideDim` itself tests for divisibility) -/
theorem dim_rewrites_in_procedure_partial (path : Rw.Path) (nm : String) (args : List FnArg)
    (preds : List Expr) (body body' : List Stmt) :
    (∀ d q, Rw.rewriteAt (Rw.divideDimChecked d q) path body = some body' →
      EquivOn WellScoped (fun _ => False) (.mk nm args preds body) (.mk nm args preds body')) ∧
    (∀ hi lo, Rw.rewriteAt (Rw.multDimChecked hi lo) path body = some body' →
      EquivOn WellScoped (fun _ => False) (.mk nm args preds body) (.mk nm args preds body')) ∧
    (∀ perm, Rw.rewriteAt (Rw.rearrangeDimChecked perm) path body = some body' →
      EquivOn WellScoped (fun _ => False) (.mk nm args preds body) (.mk nm args preds body')) :=
  ⟨fun d q h => divide_dim_anywhere_partial d q path nm args preds body body' h,
   fun hi lo h => mult_dim_anywhere_partial hi lo path nm args preds body body' h,
   fun perm h => rearrange_dim_anywhere_partial perm path nm args preds body body' h⟩

def dT : Sym := ⟨"t", 3⟩
def dA : Sym := ⟨"a", 1⟩
def dY : Sym := ⟨"y", 2⟩
def dI : Sym := ⟨"i", 4⟩
/-- `t : R[8] ; for i in 0..8: t[i] = a[i] ; y[0] = t[5]` -/
def dimBefore : List Stmt :=
  [.alloc dT [.lit (.int 8)],
   .loop dI (.lit (.int 0)) (.lit (.int 8)) [.assign dT [.read dI []] (.read dA [.read dI []])] false,
   .assign dY [.lit (.int 0)] (.read dT [.lit (.int 5)])]

def dimAfter : List Stmt :=
  [.alloc dT [.lit (.int 2), .lit (.int 4)],
   .loop dI (.lit (.int 0)) (.lit (.int 8))
     [.assign dT [.binop .div (.read dI []) (.lit (.int 4)), .binop .mod (.read dI []) (.lit (.int 4))]
        (.read dA [.read dI []])] false,
   .assign dY [.lit (.int 0)]
     (.read dT [.binop .div (.lit (.int 5)) (.lit (.int 4)), .binop .mod (.lit (.int 5)) (.lit (.int 4))])]

theorem dim_example : Rw.divideDimChecked 0 4 dimBefore = some dimAfter := by rfl

example : BlockRefW dimBefore dimAfter := Rw.divideDimChecked_sound 0 4 _ _ dim_example

/-! ## Part 6 — `reorder_stmts` when one of the two statements is an allocation (`AllocCommutes`) -/

/-- `x : T[sh] ; s`  ≈  `s ; x : T[sh]` in both directions, when `s` defines nothing, does not
    mention `x`, and the extents evaluate the same before and after `s` (`Stg.ExtentsStable`; implied
    by `sh.all Expr.cfgFree`).  Moving the allocation UP needs nothing else (a fresh buffer is
    refined by anything); moving it DOWN uses the frame lemma `Stg.execS_untouched` (a statement that
    does not mention `x` leaves the buffer untouched). -/
theorem reorder_stmts_alloc (x : Sym) (sh : List Expr) (s : Stmt) (rest : List Stmt)
    (hd : s.isDef = false) (hx : ∀ y ∈ s.names, y ≠ x) (hst : Stg.ExtentsStable s sh) :
    BlockRefW (s :: .alloc x sh :: rest) (.alloc x sh :: s :: rest) ∧
    BlockRefW (.alloc x sh :: s :: rest) (s :: .alloc x sh :: rest) :=
  ⟨Stg.reorder_alloc_up_refW x sh s rest hd hx hst, Stg.reorder_alloc_down_refW x sh s rest hd hx hst⟩

/-- the shape `Rw.reorderStmts` under `Rw.reorderAllocGuard`, anywhere in a procedure.  (Two
    allocations are excluded: swapping them permutes buffer ids.) -/
theorem reorder_stmts_alloc_in_procedure (path : Rw.Path) (nm : String) (args : List FnArg)
    (preds : List Expr) (body body' : List Stmt)
    (h : Rw.rewriteAt Rw.reorderStmtsAlloc path body = some body') :
    EquivOn WellScoped (fun _ => False) (.mk nm args preds body) (.mk nm args preds body') :=
  reorder_stmts_alloc_anywhere path nm args preds body body' h

example : Rw.reorderStmtsAlloc Stg.Ex.prog = some Stg.Ex.prog' := by rfl

/-- `x ∉ s.names` is needed, in both directions -/
theorem reorder_stmts_alloc_needs_notMentioned :
    ¬ BlockRefW Stg.Ex.cexDown Stg.Ex.cexDown' ∧ ¬ BlockRefW Stg.Ex.cexDown' Stg.Ex.cexDown :=
  ⟨Stg.Ex.reorder_alloc_down_needs_notMentioned, Stg.Ex.reorder_alloc_up_needs_notMentioned⟩

/-! ## Part 7 — `stage_mem` (`DoStageMem`; shapes `Rw.stageMemAll` / `Rw.stageMem`, ExoModel/RewriteStage.lean)

`B ; rest`  ↦  `xs : T[hi - lo …] ; copy-in ; B[x[idx] ↦ xs[idx - lo]] ; copy-out ; rest`.
Simulation relation (Lemmas/StorageStage1–2): same layout (the original is first given the unused
allocation of `xs`), two special buffers — the staging buffer holds the current contents of the
window cells (`C : cell of x ↦ cell of xs`), the right-hand `x` is stale on the window and equal
elsewhere.  Stage mode `Stg.Stage.execL_stage` (full statement language, callee bodies in identity
mode); the rest of the block runs by `Reidx.execL_id`. -/

/-- **`stage_mem`**, both copy nests, every access redirected: if the original block runs, the
    staged block runs and ends in the same state.  Semantic side conditions (`Stg.StageHyp`,
    `Stg.StoreOK`): `x` is bound to a view `vx` and NO OTHER view in scope points into its buffer
    (no window alias — `stage_alias_unsound`); the window bounds evaluate (`lov`) and the extents
    are positive; every access of the original run of `B` to `x`'s buffer is a window cell
    (`AccIn … (DC C)` on the dynamic footprint: `Check_Access_In_Window`); the geometry `StAcc`
    (a redirected access hits the image cell); the copy-in nest establishes and the copy-out nest
    discharges the relation (`LoadOK`, `StoreOK`: proved for one-dimensional windows, see below).
    Syntactic guard `Rw.stageGuard`: `x` occurs in `B` only as the buffer of data reads and
    `assign`/`reduce` targets (not in window expressions, call arguments — `stage_call_unsound` —,
    `stride`, index/control expressions), the lower window bounds are `envOnly` and mention no loop
    variable of `B`, `xs` is fresh.  `_partial`: `accum = true`, the write-only variant without
    copy-in (`stage_writeonly_unsound` shows what it needs), accesses left un-redirected, safety
    guards and nests of depth ≥ 2 (as hypotheses `LoadOK`/`StoreOK` only). -/
theorem stage_mem_partial {V : Type} [DataAlg V] (ext : String → List V → V)
    (x xs : Sym) (w : List WAcc) (B rest load store : List Stmt)
    (σ : State V) (hvo : ViewsOk σ) (hg : Rw.stageGuard x xs w B = true)
    (hrest : ∀ y ∈ namesL rest, y ≠ xs) (vx : View) (szs lov : List Int) (C : Nat → Option Nat)
    (H : Stg.StageHyp ext x xs w B load σ vx szs lov C)
    (hstore : Stg.StoreOK ext store B x xs vx.buf σ.heap.length C
      (Stg.pvOf xs vx (Stg.vxsOf σ szs)) (Stg.allocSt σ xs szs)) :
    Fwd Eq (execB ext (.alloc xs (Rw.stageShape w) :: (B ++ rest)) σ)
      (execB ext (.alloc xs (Rw.stageShape w) ::
        (load ++ (Rw.stageL x xs w B ++ (store ++ rest)))) σ) :=
  Stg.stage_mem_fwd_partial ext x xs w B rest load store σ hvo hg hrest vx szs lov C H hstore

/-- … as a refinement between well-scoped states, for the shape `Rw.stageMemAll` (read + write) -/
theorem stage_mem_ref_partial (x xs : Sym) (w : List WAcc) (n : Nat) (iters : List Sym)
    (gl gs : Option Expr) (ss r : List Stmt)
    (h : Rw.stageMemAll x xs w n iters false true true gl gs ss = some r)
    (hg : Rw.stageGuard x xs w (ss.take n) = true) (hrest : ∀ y ∈ namesL (ss.drop n), y ≠ xs)
    (hsem : Stg.StageSem x xs w (ss.take n) (Rw.stageLoad x xs w iters false gl)
      (Rw.stageStore x xs w iters false gs) ss) :
    BlockRefW ss r :=
  Stg.stage_mem_refW_partial x xs w n iters gl gs ss r h hg hrest hsem

/-- the READ-ONLY case (copy-in, no copy-out): complete modulo the same hypotheses without `StoreOK` -/
theorem stage_mem_readonly_partial (x xs : Sym) (w : List WAcc) (n : Nat) (iters : List Sym)
    (gl gs : Option Expr) (ss r : List Stmt)
    (h : Rw.stageMemAll x xs w n iters false true false gl gs ss = some r)
    (hg : Rw.stageGuard x xs w (ss.take n) = true) (hrest : ∀ y ∈ namesL (ss.drop n), y ≠ xs)
    (hsem : Stg.StageSem x xs w (ss.take n) (Rw.stageLoad x xs w iters false gl) [] ss) :
    BlockRefW ss r :=
  Stg.stage_mem_readonly_refW_partial x xs w n iters gl gs ss r h hg hrest hsem

/-- ONE-DIMENSIONAL window over a unit-stride view: NO geometry or copy-nest hypothesis left
    (`Stg.stAcc_1d`, `Stg.loadOK_1d`, `Stg.storeOK_1d` by induction on the iteration count);
    `Stg.Stage1dSem`: in every well-scoped state in which the block runs, `x` is bound to a 1-d
    unit-stride view that is the only view into its buffer, `0 ≤ lo < hi ≤ n`, and every access of
    the original run to that buffer lies in `[lo, hi)` -/
theorem stage_mem_1d_partial (x xs i : Sym) (lo hi : Expr) (n : Nat) (ss r : List Stmt)
    (h : Rw.stageMemAll x xs [.interval lo hi] n [i] false true true none none ss = some r)
    (hg : Rw.stageGuard x xs [.interval lo hi] (ss.take n) = true)
    (hhi : hi.envOnly = true) (hilo : lo.occC i = false)
    (hrest : ∀ y ∈ namesL (ss.drop n), y ≠ xs)
    (hsem : Stg.Stage1dSem x xs lo hi (ss.take n) ss) : BlockRefW ss r :=
  Stg.stage_mem_1d_refW_partial x xs i lo hi n ss r h hg hhi hilo hrest hsem

/-- non-vacuity: `for i in 0..4: y[i] = x[i+1] * 2` staged on `x[1:5]`, every hypothesis discharged
    on a concrete state (the access hypothesis by the executable `Stg.accInB`) -/
example := @Stg.StageEx.ex_stage_fwd

/-- the three recorded findings as kernel-checked witnesses (the `after` programs are what
    `Rw.stageMemAll` — i.e. the real code — builds):
    a read through a window alias of the staged buffer sees the stale buffer;
    a window of the staged buffer passed to a callee that writes it is redirected without copy-out;
    a write-only block without copy-in stores unwritten (poison) cells back -/
theorem stage_mem_unsound_witnesses :
    ¬ BlockRefW Stg.StageEx.aliasBefore Stg.StageEx.aliasAfter ∧
    ¬ BlockRefW Stg.StageEx.callBefore Stg.StageEx.callAfter ∧
    ¬ BlockRefW Stg.StageEx.woBefore Stg.StageEx.woAfter :=
  ⟨Stg.StageEx.stage_alias_unsound, Stg.StageEx.stage_call_unsound,
   Stg.StageEx.stage_writeonly_unsound⟩

/-! ## Part 8 — `reuse_buffer` (`DoReuseBuffer`; shape `Rw.reuseBuffer` = deletion of the allocation
    + `Rw.renameL y x`) -/

/-- `x : T[sh] ; mid ; y : T[sh] ; rest`  ⊑  `x : T[sh] ; mid ; rest[y ↦ x]` when both allocations
    are in the SAME block (`reuse_buffer_unsound_witnesses` otherwise), `mid` defines nothing, `x` is
    dead in the strongest sense (`rest` does not mention it), the extents are positive literals,
    and `y` is used in `rest` only as the buffer of data reads and `assign`/`reduce` targets
    (`Rw.reuseOkL`; `_partial`: windows of `y`, `y` as call argument, `stride(y,_)` excluded).
    Why true: `y` starts all poison; the renamed accesses see the old, dead values of `x`, and
    poison is refined by anything (cross relation `Stg.Reuse.XR`). -/
theorem reuse_buffer_partial (x y : Sym) (sh : List Expr) (mid rest : List Stmt)
    (hlit : posLits sh = true) (hxy : x ≠ y) (hmid : noDefs mid = true)
    (hx : ∀ z ∈ namesL rest, z ≠ x) (hok : Rw.reuseOkL y rest = true) :
    BlockRefW (.alloc x sh :: mid ++ .alloc y sh :: rest)
      (.alloc x sh :: mid ++ Rw.renameL y x rest) :=
  Stg.reuse_buffer_block_partial x y sh mid rest hlit hxy hmid hx hok

/-- the guarded shape anywhere in a procedure (`k` = number of statements between the allocations) -/
theorem reuse_buffer_in_procedure_partial (k : Nat) (path : Rw.Path) (body body' : List Stmt)
    (h : Rw.rewriteAt (Rw.reuseBufferBlock k) path body = some body') (nm : String)
    (args : List FnArg) (preds : List Expr) :
    EquivOn WellScoped (fun _ => False) (.mk nm args preds body) (.mk nm args preds body') :=
  Stg.reuse_buffer_equiv_partial k path body body' h nm args preds

/-- `x` still live (`z[0]` is 6 before and 2 after); the target allocation in another scope (the
    recorded finding: scope error after the rewrite) -/
theorem reuse_buffer_unsound_witnesses :
    ¬ BlockRefW Stg.ruLiveBefore Stg.ruLiveAfter ∧ ¬ BlockRefW Stg.ruScopeBefore Stg.ruScopeAfter :=
  ⟨Stg.reuse_buffer_live_unsound, Stg.reuse_buffer_scope_unsound⟩

/-! ## Part 9 — `stage_mem` for dense buffers of any rank; write-only and `accum` variants;
    `unroll_buffer`; a closed whole-procedure instance -/

/-- **`stage_mem`, dense row-major `x` of ANY rank, window with interval and point coordinates, copy
    nests of ANY depth: no geometry or copy-nest hypothesis left** (`Stg.stAcc_dense`,
    `Stg.nest_copy` by recursion over the iterator list, `Stg.loadOK_dense`, `Stg.storeOK_dense`).
    `Stg.NestSyn`: the iterators are distinct, as many as interval coordinates, and do not occur in the
    (environment-only) window bounds.  `Stg.StageDenseSem`: in every well-scoped state in which the
    block runs, `x` is bound to a dense view (offset ≥ 0) that is the only view into its buffer, the
    window evaluates inside the extents with positive widths, and every access of the original run
    to that buffer is a window cell (`AccIn`).  `_partial`: guard `Rw.stageGuard`, no safety guards. -/
theorem stage_mem_dense_partial (x xs : Sym) (w : List WAcc) (n : Nat) (iters : List Sym)
    (ss r : List Stmt)
    (h : Rw.stageMemAll x xs w n iters false true true none none ss = some r)
    (hg : Rw.stageGuard x xs w (ss.take n) = true) (hsyn : Stg.NestSyn w iters)
    (hrest : ∀ y ∈ namesL (ss.drop n), y ≠ xs)
    (hsem : Stg.StageDenseSem x xs w (ss.take n) ss) : BlockRefW ss r :=
  Stg.stage_mem_dense_refW_partial x xs w n iters ss r h hg hsyn hrest hsem

/-- read-only (copy-in only), dense, any rank: additionally no write/reduce event on `x`'s buffer -/
theorem stage_mem_dense_readonly_partial (x xs : Sym) (w : List WAcc) (n : Nat)
    (iters : List Sym) (ss r : List Stmt)
    (h : Rw.stageMemAll x xs w n iters false true false none none ss = some r)
    (hg : Rw.stageGuard x xs w (ss.take n) = true) (hsyn : Stg.NestSyn w iters)
    (hrest : ∀ y ∈ namesL (ss.drop n), y ≠ xs)
    (hsem : Stg.StageDenseSemRO x xs w (ss.take n) ss) : BlockRefW ss r :=
  Stg.stage_mem_dense_readonly_refW_partial x xs w n iters ss r h hg hsyn hrest hsem

/-- non-vacuity of the dense instance: rank 2, window `x[1, 1:3]` (point + interval) -/
example := @Stg.StageEx.ex2_stage_fwd

/-- **a closed whole-procedure instance, no hypothesis at all**:
    `x : R[6]; for j in 0..6: x[j] = a[j]; for i in 0..4: y[i] = x[i+1]*2` with the second loop staged
    on `x[1:5]` (the access hypothesis is proved symbolically for every state of the family,
    `Stg.StageEx.ex_acc`) -/
theorem stage_mem_whole_procedure (nm : String) (args : List FnArg) (preds : List Expr) :
    EquivOn WellScoped (fun _ => False) (.mk nm args preds Stg.StageEx.exWhole)
      (.mk nm args preds Stg.StageEx.exWholeStaged) :=
  Stg.StageEx.ex_proc_equiv nm args preds

/-- **write-only variant** (no copy-in): sound when (i) the block has no upward-exposed read of a
    window cell (`ExposedIn`) and (ii) every window cell is written by the block (`Fp.writes`
    covers the window) — `Stg.StageWOHyp.noexp` / `.full`; by determinacy on exposed reads the run
    does not depend on the initial window contents (`Stg.StageWO.run_poison`) -/
theorem stage_mem_writeonly_partial (x xs : Sym) (w : List WAcc) (n : Nat) (iters : List Sym)
    (gl gs : Option Expr) (ss r : List Stmt)
    (h : Rw.stageMemAll x xs w n iters false false true gl gs ss = some r)
    (hg : Rw.stageGuard x xs w (ss.take n) = true) (hrest : ∀ y ∈ namesL (ss.drop n), y ≠ xs)
    (hsem : Stg.StageWOSem x xs w (ss.take n) (Rw.stageStore x xs w iters false gs) ss) :
    BlockRefW ss r :=
  Stg.stage_mem_writeonly_refW_partial x xs w n iters gl gs ss r h hg hrest hsem

/-- (i) is needed (finding N1): `x[0] = x[0] + 1.0` writes its whole window but reads it first -/
theorem stage_mem_writeonly_needs_noexp :
    ¬ BlockRefW Stg.StageEx.woExpBefore Stg.StageEx.woExpAfter :=
  Stg.StageEx.stage_writeonly_exposed_unsound

/-- **`accum = True`**: zero-fill, the block only reduces into `x` (`Stg.accGuard`), copy-out by `+=`.
    For data algebras with associative addition (`DataLaws`) in which the literal `0.0` is a right
    zero (`Stg.RightZero`: not a law of `DataLaws`, hence an explicit hypothesis inside
    `Stg.BlockRefWL`) -/
theorem stage_mem_accum_partial (x xs : Sym) (w : List WAcc) (n : Nat) (iters : List Sym)
    (gl gs : Option Expr) (ss r : List Stmt)
    (h : Rw.stageMemAll x xs w n iters true true true gl gs ss = some r)
    (hg : Stg.accGuard x xs w (ss.take n) = true) (hrest : ∀ y ∈ namesL (ss.drop n), y ≠ xs)
    (hsem : Stg.AccSem x xs w (ss.take n) (Rw.stageLoad x xs w iters true gl)
      (Rw.stageStore x xs w iters true gs) ss) :
    Stg.BlockRefWL ss r :=
  Stg.stage_mem_accum_refWL_partial x xs w n iters gl gs ss r h hg hrest hsem

example := @Stg.StageEx.wox_stage_fwd
example := @Stg.StageEx.acc_stage_fwd

/-- **`unroll_buffer`** (`DoUnrollBuffer`, shape `Rw.unrollBuffer d names`): any dimension `d`, any
    number of used literal indices, calls allowed; relation with a RANGE of special buffers
    (`Stg.Unroll.HRel`), unroll mode `Stg.Unroll.execL_unroll`.  `_partial`: guard `Rw.unrollOkL`
    (no window expression of `x`, no `stride` — `unroll_buffer_stride_unsound`, finding S3 —, not a
    call argument), extents `envOnly`. -/
theorem unroll_buffer_partial (x : Sym) (d : Nat) (sh : List Expr) (order : List Nat)
    (n0 : Sym) (nt : List Sym) (rest : List Stmt)
    (henv : ∀ e ∈ sh, e.envOnly = true) (hlen : (n0 :: nt).length = order.length)
    (hnd : (n0 :: nt).Nodup) (hxn : x ∉ n0 :: nt)
    (hg : Rw.unrollOkL x d order rest = true)
    (hnew : ∀ y ∈ namesEs sh ++ namesL rest, y ∉ n0 :: nt) :
    BlockRefW (.alloc x sh :: rest)
      ((n0 :: nt).map (fun y => Stmt.alloc y (sh.eraseIdx d)) ++
        Rw.unrollL x d (fun k => (n0 :: nt).getD (order.idxOf k) x) rest) :=
  Stg.unroll_buffer_refW_partial x d sh order n0 nt rest henv hlen hnd hxn hg hnew

theorem unroll_buffer_in_procedure_partial (d : Nat) (names : List Sym)
    (path : Rw.Path) (nm : String) (args : List FnArg) (preds : List Expr)
    (body body' : List Stmt)
    (h : Rw.rewriteAt (Rw.unrollBufferChecked d names) path body = some body') :
    EquivOn WellScoped (fun _ => False) (.mk nm args preds body) (.mk nm args preds body') :=
  Stg.unroll_buffer_anywhere_partial d names path nm args preds body body' h

theorem unroll_buffer_stride_unsound :
    ¬ BlockRefW Stg.UnrollEx.s3Before Stg.UnrollEx.s3After :=
  Stg.UnrollEx.unroll_buffer_stride_unsound

end Exo.C01S
