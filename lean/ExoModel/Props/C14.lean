/-
  C14 — library instructions do what their Exo bodies say (part 1: prefetch, AVX2 loads/stores/arithmetic).

  One theorem per instruction of ExoModel/Gen/X86Instrs.lean (REGENERATED from exo.platforms.x86 on
  every run), stated with `Exo.X86.InstrCorrect` (ExoModel/X86.lean):

      ∀ lawful data algebra V, extern meaning fixed on relu/select, control values cv, placements
        pl (buffer, offset, stride of every operand), heap, cfg:
        Admissible I.proc σ  →  execB ext I.proc.body σ = execCInstr I σ        (σ = stateOf I.proc cv pl heap cfg)

  `Admissible` = what `execP` checks before it runs the body (sizes positive, declared shapes,
  the instruction's assertions, no aliasing) + every operand window lies inside its buffer.
  Variants: `InstrCorrectInit` additionally assumes every operand cell initialised (blendv reads
  a lane the `select` extern would poison); `InstrCorrectWhen` adds a condition on control values
  (theorems named `_partial`).  `X_refuted : ¬ InstrCorrect X.instr` is a machine-checked
  counterexample: the C fragment of X does NOT do what X's body says (recorded findings).
  After each theorem an `example` shows its hypotheses are satisfiable (state cv0/pl0/heap0).
-/
import ExoModel.Lemmas.C14Tactic

set_option maxRecDepth 8000
namespace Exo.C14
open Exo Exo.X86 Exo.Lane Exo.X86Instrs


theorem prefetch_correct : InstrCorrect prefetch.instr := by c14_pass prefetch
example : Admissible prefetch.proc (stateOf prefetch.proc cv0 pl0 heap0 []) := by c14_adm prefetch

theorem mm256_setzero_ps_correct : InstrCorrect mm256_setzero_ps.instr := by c14_lane mm256_setzero_ps
example : Admissible mm256_setzero_ps.proc (stateOf mm256_setzero_ps.proc cv0 pl0 heap0 []) := by c14_adm mm256_setzero_ps

theorem mm256_setzero_pd_correct : InstrCorrect mm256_setzero_pd.instr := by c14_lane mm256_setzero_pd
example : Admissible mm256_setzero_pd.proc (stateOf mm256_setzero_pd.proc cv0 pl0 heap0 []) := by c14_adm mm256_setzero_pd

theorem mm256_loadu_ps_correct : InstrCorrect mm256_loadu_ps.instr := by c14_lane mm256_loadu_ps
example : Admissible mm256_loadu_ps.proc (stateOf mm256_loadu_ps.proc cv0 pl0 heap0 []) := by c14_adm mm256_loadu_ps

theorem mm256_loadu_pd_correct : InstrCorrect mm256_loadu_pd.instr := by c14_lane mm256_loadu_pd
example : Admissible mm256_loadu_pd.proc (stateOf mm256_loadu_pd.proc cv0 pl0 heap0 []) := by c14_adm mm256_loadu_pd

theorem mm256_storeu_ps_correct : InstrCorrect mm256_storeu_ps.instr := by c14_lane mm256_storeu_ps
example : Admissible mm256_storeu_ps.proc (stateOf mm256_storeu_ps.proc cv0 pl0 heap0 []) := by c14_adm mm256_storeu_ps

theorem mm256_storeu_pd_correct : InstrCorrect mm256_storeu_pd.instr := by c14_lane mm256_storeu_pd
example : Admissible mm256_storeu_pd.proc (stateOf mm256_storeu_pd.proc cv0 pl0 heap0 []) := by c14_adm mm256_storeu_pd

theorem mm256_fmadd_ps_correct : InstrCorrect mm256_fmadd_ps.instr := by c14_lane mm256_fmadd_ps
example : Admissible mm256_fmadd_ps.proc (stateOf mm256_fmadd_ps.proc cv0 pl0 heap0 []) := by c14_adm mm256_fmadd_ps

theorem mm256_fmadd_pd_correct : InstrCorrect mm256_fmadd_pd.instr := by c14_lane mm256_fmadd_pd
example : Admissible mm256_fmadd_pd.proc (stateOf mm256_fmadd_pd.proc cv0 pl0 heap0 []) := by c14_adm mm256_fmadd_pd

theorem mm256_broadcast_ss_correct : InstrCorrect mm256_broadcast_ss.instr := by c14_lane mm256_broadcast_ss
example : Admissible mm256_broadcast_ss.proc (stateOf mm256_broadcast_ss.proc cv0 pl0 heap0 []) := by c14_adm mm256_broadcast_ss

theorem mm256_broadcast_sd_correct : InstrCorrect mm256_broadcast_sd.instr := by c14_lane mm256_broadcast_sd
example : Admissible mm256_broadcast_sd.proc (stateOf mm256_broadcast_sd.proc cv0 pl0 heap0 []) := by c14_adm mm256_broadcast_sd

theorem mm256_broadcast_ss_scalar_correct : InstrCorrect mm256_broadcast_ss_scalar.instr := by c14_lane mm256_broadcast_ss_scalar
example : Admissible mm256_broadcast_ss_scalar.proc (stateOf mm256_broadcast_ss_scalar.proc cv0 pl0 heap0 []) := by c14_adm mm256_broadcast_ss_scalar

theorem mm256_broadcast_sd_scalar_correct : InstrCorrect mm256_broadcast_sd_scalar.instr := by c14_lane mm256_broadcast_sd_scalar
example : Admissible mm256_broadcast_sd_scalar.proc (stateOf mm256_broadcast_sd_scalar.proc cv0 pl0 heap0 []) := by c14_adm mm256_broadcast_sd_scalar

theorem mm256_mul_ps_correct : InstrCorrect mm256_mul_ps.instr := by c14_lane mm256_mul_ps
example : Admissible mm256_mul_ps.proc (stateOf mm256_mul_ps.proc cv0 pl0 heap0 []) := by c14_adm mm256_mul_ps

theorem mm256_mul_pd_correct : InstrCorrect mm256_mul_pd.instr := by c14_lane mm256_mul_pd
example : Admissible mm256_mul_pd.proc (stateOf mm256_mul_pd.proc cv0 pl0 heap0 []) := by c14_adm mm256_mul_pd

theorem mm256_div_ps_correct : InstrCorrect mm256_div_ps.instr := by c14_lane mm256_div_ps
example : Admissible mm256_div_ps.proc (stateOf mm256_div_ps.proc cv0 pl0 heap0 []) := by c14_adm mm256_div_ps

theorem mm256_div_pd_correct : InstrCorrect mm256_div_pd.instr := by c14_lane mm256_div_pd
example : Admissible mm256_div_pd.proc (stateOf mm256_div_pd.proc cv0 pl0 heap0 []) := by c14_adm mm256_div_pd

theorem mm256_add_ps_correct : InstrCorrect mm256_add_ps.instr := by c14_lane mm256_add_ps
example : Admissible mm256_add_ps.proc (stateOf mm256_add_ps.proc cv0 pl0 heap0 []) := by c14_adm mm256_add_ps

theorem mm256_add_pd_correct : InstrCorrect mm256_add_pd.instr := by c14_lane mm256_add_pd
example : Admissible mm256_add_pd.proc (stateOf mm256_add_pd.proc cv0 pl0 heap0 []) := by c14_adm mm256_add_pd

theorem mm256_sub_ps_correct : InstrCorrect mm256_sub_ps.instr := by c14_lane mm256_sub_ps
example : Admissible mm256_sub_ps.proc (stateOf mm256_sub_ps.proc cv0 pl0 heap0 []) := by c14_adm mm256_sub_ps

theorem mm256_sub_pd_correct : InstrCorrect mm256_sub_pd.instr := by c14_lane mm256_sub_pd
example : Admissible mm256_sub_pd.proc (stateOf mm256_sub_pd.proc cv0 pl0 heap0 []) := by c14_adm mm256_sub_pd

theorem mm256_loadu_si256_correct : InstrCorrect mm256_loadu_si256.instr := by c14_lane mm256_loadu_si256
example : Admissible mm256_loadu_si256.proc (stateOf mm256_loadu_si256.proc cv0 pl0 heap0 []) := by c14_adm mm256_loadu_si256

theorem mm256_storeu_si256_correct : InstrCorrect mm256_storeu_si256.instr := by c14_lane mm256_storeu_si256
example : Admissible mm256_storeu_si256.proc (stateOf mm256_storeu_si256.proc cv0 pl0 heap0 []) := by c14_adm mm256_storeu_si256

/-- PARTIAL: `_mm256_adds_epu16` SATURATES; its lane model is the ideal `add` of the data algebra, i.e. the
    theorem covers operands whose sum fits in 16 bits (beyond that neither wrap-around nor saturation is `x + y`). -/
theorem mm256_add_epi16_correct_partial : InstrCorrect mm256_add_epi16.instr := by c14_lane mm256_add_epi16
example : Admissible mm256_add_epi16.proc (stateOf mm256_add_epi16.proc cv0 pl0 heap0 []) := by c14_adm mm256_add_epi16

end Exo.C14
