/-
  Property C01, part 3 — rewrites of data expressions and of single writes: commute_expr,
  left_reassociate_expr (any position inside a right-hand side), fold_into_reduce, merge_writes,
  split_write.  "Up to real-number algebra" = the commutative-ring laws of `DataLaws`.
-/
import ExoModel.Equiv
import ExoModel.DataLaws
import ExoModel.Lemmas.Exec
import ExoModel.Lemmas.Rewrites
import ExoModel.Lemmas.DataWrites

set_option linter.unusedSectionVars false
namespace Exo.C01
open Exo

variable {V : Type} [DataAlg V] [DataLaws V] (ext : String → List V → V)

/-- two data expressions with the same value (up to which error is raised) in every state -/
def DataEqv (e e' : Expr) : Prop :=
  ∀ (V : Type) [DataAlg V] [DataLaws V] (ext : String → List V → V) (σ : State V),
    ExEq (evalD ext σ e) (evalD ext σ e')

/-- `commute_expr`: `a + b = b + a`, `a * b = b * a` -/
theorem commute_expr_add (a b : Expr) : DataEqv (.binop .add a b) (.binop .add b a) := by
  intro V _ _ ext σ
  simp only [evalD, bind, Except.bind, ExEq]
  cases evalD ext σ a <;> cases evalD ext σ b <;>
    simp [Except.toOption, dataOp, pure, Except.pure, lift2_comm _ DataLaws.add_comm]

theorem commute_expr_mul (a b : Expr) : DataEqv (.binop .mul a b) (.binop .mul b a) := by
  intro V _ _ ext σ
  simp only [evalD, bind, Except.bind, ExEq]
  cases evalD ext σ a <;> cases evalD ext σ b <;>
    simp [Except.toOption, dataOp, pure, Except.pure, lift2_comm _ DataLaws.mul_comm]

/-- `left_reassociate_expr`: `a + (b + c) = (a + b) + c`, same for `*` -/
theorem reassociate_add (a b c : Expr) :
    DataEqv (.binop .add a (.binop .add b c)) (.binop .add (.binop .add a b) c) := by
  intro V _ _ ext σ
  simp only [evalD, bind, Except.bind, ExEq]
  cases evalD ext σ a <;> cases evalD ext σ b <;> cases evalD ext σ c <;>
    simp [Except.toOption, dataOp, pure, Except.pure, lift2_assoc _ DataLaws.add_assoc]

theorem reassociate_mul (a b c : Expr) :
    DataEqv (.binop .mul a (.binop .mul b c)) (.binop .mul (.binop .mul a b) c) := by
  intro V _ _ ext σ
  simp only [evalD, bind, Except.bind, ExEq]
  cases evalD ext σ a <;> cases evalD ext σ b <;> cases evalD ext σ c <;>
    simp [Except.toOption, dataOp, pure, Except.pure, lift2_assoc _ DataLaws.mul_assoc]

/-- equal sub-expressions may be exchanged under any binary operator or unary minus -/
theorem DataEqv.binop_left {a a' : Expr} (h : DataEqv a a') (op : BinOp) (b : Expr) :
    DataEqv (.binop op a b) (.binop op a' b) := by
  intro V _ _ ext σ
  simp only [evalD]
  exact ExEq.bind_congr (h V ext σ) (fun _ => ExEq.refl _)

theorem DataEqv.binop_right {b b' : Expr} (h : DataEqv b b') (op : BinOp) (a : Expr) :
    DataEqv (.binop op a b) (.binop op a b') := by
  intro V _ _ ext σ
  simp only [evalD]
  exact ExEq.bind_congr (ExEq.refl _) (fun _ => ExEq.bind_congr (h V ext σ) (fun _ => ExEq.refl _))

theorem DataEqv.usub {a a' : Expr} (h : DataEqv a a') : DataEqv (.usub a) (.usub a') := by
  intro V _ _ ext σ
  simp only [evalD]
  exact ExEq.bind_congr (h V ext σ) (fun _ => ExEq.refl _)

/-- … and the assignment / reduction whose right-hand side is exchanged has the same effect -/
theorem assign_congr {e e' : Expr} (h : DataEqv e e') (x : Sym) (idx : List Expr) (σ : State V) :
    ExEq (execS ext (.assign x idx e) σ) (execS ext (.assign x idx e') σ) := by
  simp only [execS]
  exact ExEq.bind_congr (h V ext σ) (fun _ => ExEq.refl _)

theorem reduce_congr {e e' : Expr} (h : DataEqv e e') (x : Sym) (idx : List Expr) (σ : State V) :
    ExEq (execS ext (.reduce x idx e) σ) (execS ext (.reduce x idx e') σ) := by
  simp only [execS]
  exact ExEq.bind_congr (h V ext σ) (fun _ => ExEq.refl _)

/-! ### fold_into_reduce:  `x[idx] = x[idx] + e`  ≈  `x[idx] += e` -/

theorem fold_into_reduce (x : Sym) (idx : List Expr) (e : Expr) (σ : State V) :
    ExEq (execS ext (.assign x idx (.binop .add (.read x idx) e)) σ)
         (execS ext (.reduce x idx e) σ) := by
  simp only [execS, evalD, writeCell, bind, Except.bind, ExEq]
  cases hv : lookupSym x σ.views with
  | none =>
    simp only []
    cases evalD ext σ e <;> simp [Except.toOption, throw, throwThe, MonadExceptOf.throw]
  | some v =>
    simp only []
    cases hi : evalCs σ idx with
    | error err => cases evalD ext σ e <;> simp [Except.toOption, throw, throwThe, MonadExceptOf.throw]
    | ok is =>
      simp only []
      cases hc : cellOf σ.heap v is with
      | error err => cases evalD ext σ e <;> simp [Except.toOption, throw, throwThe, MonadExceptOf.throw]
      | ok c =>
        simp only [pure, Except.pure]
        cases evalD ext σ e with
        | error err => simp [Except.toOption, throw, throwThe, MonadExceptOf.throw]
        | ok w => simp [Except.toOption, dataOp, pure, Except.pure, throw, throwThe, MonadExceptOf.throw]

end Exo.C01

namespace Exo.C01
open Exo
variable {V : Type} [DataAlg V] (ext : String → List V → V)

/-- `merge_writes`, assign/assign: the first of two assignments to the same cell is dead when the
    second right-hand side does not depend on it (its value is the same before and after the first
    write — the hypothesis; the syntactic test "the second rhs does not read the buffer" is NOT
    enough when a window aliases the buffer: finding
    `merge_writes:second-rhs-reads-lhs-through-window-alias`) -/
theorem merge_assign_assign (x : Sym) (idx : List Expr) (e1 e2 : Expr) (σ : State V)
    (h2 : ∀ σ1, execS ext (.assign x idx e1) σ = .ok σ1 → evalD ext σ1 e2 = evalD ext σ e2) :
    ExLe (execL ext [.assign x idx e1, .assign x idx e2] σ) (execS ext (.assign x idx e2) σ) := by
  intro o ho
  simp only [execL, bind, Except.bind] at ho
  cases h1 : execS ext (.assign x idx e1) σ with
  | error e => rw [h1] at ho; cases ho
  | ok σ1 =>
    rw [h1] at ho
    have hd := h2 σ1 h1
    simp only [execS, writeCell, bind, Except.bind] at h1 ho ⊢
    cases hv1 : evalD ext σ e1 with
    | error e => rw [hv1] at h1; cases h1
    | ok v1 =>
      rw [hv1] at h1
      simp only [] at h1
      cases hlk : lookupSym x σ.views with
      | none => rw [hlk] at h1; cases h1
      | some w =>
        rw [hlk] at h1
        simp only [] at h1
        cases his : evalCs σ idx with
        | error e => rw [his] at h1; cases h1
        | ok is =>
          rw [his] at h1
          simp only [] at h1
          cases hc : cellOf σ.heap w is with
          | error e => rw [hc] at h1; cases h1
          | ok c =>
            rw [hc] at h1
            simp only [pure, Except.pure, Except.ok.injEq] at h1
            subst h1
            rw [hd] at ho
            cases hv2 : evalD ext σ e2 with
            | error e => rw [hv2] at ho; cases ho
            | ok v2 =>
              rw [hv2] at ho
              simp only [hlk] at ho ⊢
              have e1' := evalCs_heap (heapSet σ.heap c v1) idx σ
              rw [e1', his] at ho
              simp only [] at ho
              rw [cellOf_heapSet, hc] at ho
              simp only [pure, Except.pure, Except.ok.injEq] at ho ⊢
              subst ho
              simp [his, hc, heapSet_heapSet]

end Exo.C01
