/-
  C09 — parallel loops that compile are race-free.

  (i)  Event model (ExoModel.Par, part I).  If for any two different iterations nothing that one
       writes or reduces is read, written or reduced by the other (`RaceFree`, this is what
       `Disjoint_Memory` of `Check_ParallelizeLoop` asks: W₁∩All₂ = W₂∩All₁ = Red₁∩All₂ =
       Red₂∩All₁ = ∅, so reduce/reduce overlap is NOT allowed and no commutativity or
       associativity of `+` is used), then every interleaving of the iterations' event
       sequences ends in the memory of the sequential loop.  For any number of iterations, any
       event sequences, any value functions, any initial memory, any cell and value types.
  (ii) Traversal (ExoModel.Par, part II).  `ParallelAnalysis` hands exactly the TOP-LEVEL Par
       loops of every compiled procedure to `Check_ParallelizeLoop` (`checked_iff_top_level`).
       The completeness statement of C09 — every Par loop at any depth, in either branch — is
       FALSE for the literal model (`traversal_complete_false`, witnesses below, replayed on the
       real code by harness/props/c09.py: finding F8); what holds is
       `traversal_complete_partial` (top-level statements only).  The repaired traversal
       (`return super().map_s(s)`) is complete (`fixed_traversal_complete`), and procedures
       called at any depth are analysed as procedures of their own (`procList_closed`).
-/
import ExoModel.Lemmas.Par

namespace Exo.Par.C09
open Exo.Par

/-! ## (i) every interleaving of a race-free loop gives the sequential result -/

section
variable {C V : Type} [DecidableEq C] [Add V]

/-- MAIN THEOREM (i).  `sched` is any schedule; `AllDone` says that it is a complete interleaving
    (every iteration has performed all its events, each in its own order by construction of
    `stepAt`). -/
theorem interleaving_eq_sequential (m : Mem C V) (ts : List (Thread C V)) (h : RaceFree ts)
    (sched : List Nat) (hd : AllDone (run m ts sched).2) :
    (run m ts sched).1 = seqRun m ts := by
  have hp := raceFree_pw h
  rw [seqRun_canon ts m hp, ← run_canon sched ts m hp, canon_done _ _ hd]

/-- any two complete interleavings agree -/
theorem interleavings_agree (m : Mem C V) (ts : List (Thread C V)) (h : RaceFree ts)
    (s₁ s₂ : List Nat) (h₁ : AllDone (run m ts s₁).2) (h₂ : AllDone (run m ts s₂).2) :
    (run m ts s₁).1 = (run m ts s₂).1 := by
  rw [interleaving_eq_sequential m ts h s₁ h₁, interleaving_eq_sequential m ts h s₂ h₂]

/-- the sequential loop is itself one of the interleavings (no hypothesis on footprints): the
    schedule "iteration 0 until it is done, then iteration 1, …" is complete and computes `seqRun`.
    So `AllDone` in the main theorem is satisfiable for every loop. -/
theorem sequential_is_an_interleaving (m : Mem C V) (ts : List (Thread C V)) :
    (run m ts (seqSchedule ts)).1 = seqRun m ts ∧ AllDone (run m ts (seqSchedule ts)).2 := by
  obtain ⟨ts', h1, h2⟩ := run_seqScheduleFrom ts [] m (by intro t ht; simp at ht)
  simp only [List.nil_append, List.length_nil] at h1
  simp [seqSchedule, h1, h2]

/-- structural form of the hypothesis is equivalent to the indexed one -/
theorem raceFree_iff_pairwise (ts : List (Thread C V)) : RaceFree ts ↔ PW ts :=
  ⟨raceFree_pw, pw_raceFree⟩

end

/-- the executable check used by the driver on measured footprints decides `RaceFree`
    (cells numbered by naturals) -/
theorem footprint_check_correct {V : Type} (ts : List (Thread Nat V)) :
    conflict (ts.map (fun t => fpOf t.evs)) = none ↔ RaceFree ts := by
  rw [← raceFreeB_iff]; simp [raceFreeB]

/-! ### non-vacuity of (i): a concrete race-free loop, three iterations
      iteration i:   t = x[i] ; y[i] = t + 1 ; s = x[3] (shared, read only) ; acc[i] += s + t
    cells: x[k] ↦ k (k ≤ 3), y[i] ↦ 10+i, acc[i] ↦ 20+i -/

def exIter (i : Nat) : Thread Nat Int :=
  ⟨[], [.read i, .write (10 + i) (fun l => l.headD 0 + 1), .read 3,
        .reduce (20 + i) (fun l => l.headD 0 + (l.drop 1).headD 0)]⟩

def exLoop : List (Thread Nat Int) := [exIter 0, exIter 1, exIter 2]
def exMem : Mem Nat Int := fun c => if c < 4 then 2 * c + 1 else 100

theorem exLoop_raceFree : RaceFree exLoop := (raceFreeB_iff exLoop).mp (by decide)

/-- a genuinely interleaved complete schedule -/
def exSched : List Nat := [2, 0, 1, 1, 0, 2, 2, 1, 0, 0, 2, 1]

theorem exSched_done : AllDone (run exMem exLoop exSched).2 := by
  intro t ht
  simp [exSched, exLoop, exIter, run, stepAt, stepEv] at ht
  rcases ht with rfl | rfl | rfl <;> rfl

example : (run exMem exLoop exSched).1 = seqRun exMem exLoop :=
  interleaving_eq_sequential exMem exLoop exLoop_raceFree exSched exSched_done

example : (run exMem exLoop exSched).1 = (run exMem exLoop (seqSchedule exLoop)).1 :=
  interleavings_agree exMem exLoop exLoop_raceFree _ _ exSched_done
    (sequential_is_an_interleaving exMem exLoop).2

/-- and the result is not the initial memory: y[1] = x[1] + 1 = 4, acc[2] = 100 + x[3] + x[2] -/
example : seqRun exMem exLoop 11 = 4 ∧ seqRun exMem exLoop 22 = 112 ∧ exMem 11 = 100 := by decide

example : (run exMem exLoop (seqSchedule exLoop)).1 = seqRun exMem exLoop :=
  (sequential_is_an_interleaving exMem exLoop).1

example : conflict (exLoop.map (fun t => fpOf t.evs)) = none :=
  (footprint_check_correct exLoop).mpr exLoop_raceFree

/-! ### the hypothesis is needed: racy loops have interleavings that differ from the sequential
    order (these are the body shapes generated by the harness) -/

/-- write/write to one cell: `for i in par(0,2): y[0] = i + 1` -/
def wwLoop : List (Thread Nat Int) := [⟨[], [.write 0 (fun _ => 1)]⟩, ⟨[], [.write 0 (fun _ => 2)]⟩]

theorem race_witness_write_write :
    ¬ RaceFree wwLoop ∧ AllDone (run (fun _ => 0) wwLoop [1, 0]).2 ∧
    (run (fun _ => 0) wwLoop [1, 0]).1 0 ≠ seqRun (fun _ => 0) wwLoop 0 := by
  refine ⟨?_, ?_, by decide⟩
  · rw [← raceFreeB_iff]; decide
  · intro t ht
    simp [wwLoop, run, stepAt, stepEv] at ht
    rcases ht with rfl | rfl <;> rfl

/-- loop-carried write → read: `for i in par(0,2): x[i+1] = x[i] + 1` -/
def carriedLoop : List (Thread Nat Int) :=
  [⟨[], [.read 0, .write 1 (fun l => l.headD 0 + 1)]⟩,
   ⟨[], [.read 1, .write 2 (fun l => l.headD 0 + 1)]⟩]

theorem race_witness_carried :
    ¬ RaceFree carriedLoop ∧ AllDone (run (fun _ => 0) carriedLoop [1, 0, 0, 1]).2 ∧
    (run (fun _ => 0) carriedLoop [1, 0, 0, 1]).1 2 ≠ seqRun (fun _ => 0) carriedLoop 2 := by
  refine ⟨?_, ?_, by decide⟩
  · rw [← raceFreeB_iff]; decide
  · intro t ht
    simp [carriedLoop, run, stepAt, stepEv] at ht
    rcases ht with rfl | rfl <;> rfl

/-- a reduction into a shared cell, performed as it is in the generated C (`s += v` is a load and a
    store): `for i in par(0,2): s += 1` loses an update -/
def redLoop : List (Thread Nat Int) :=
  [⟨[], [.read 0, .write 0 (fun l => l.headD 0 + 1)]⟩,
   ⟨[], [.read 0, .write 0 (fun l => l.headD 0 + 1)]⟩]

theorem race_witness_reduce :
    ¬ RaceFree redLoop ∧ AllDone (run (fun _ => 0) redLoop [0, 1, 0, 1]).2 ∧
    (run (fun _ => 0) redLoop [0, 1, 0, 1]).1 0 ≠ seqRun (fun _ => 0) redLoop 0 := by
  refine ⟨?_, ?_, by decide⟩
  · rw [← raceFreeB_iff]; decide
  · intro t ht
    simp [redLoop, run, stepAt, stepEv] at ht
    rcases ht with rfl | rfl <;> rfl

/-! ## (ii) which loops are checked -/

/-- what `ParallelAnalysis.run` hands to `Check_ParallelizeLoop`: exactly the statements of the
    procedure body (depth 0) that are Par loops -/
theorem checked_iff_top_level (p : P) (l : Path) :
    l ∈ checked p ↔ ∃ k b, p.body[k]? = some (.loop true b) ∧ l = [k] := by
  simp [checked, mapStmts, mapList_mapS_visited]

example : checked (.mk "p" false [.leaf, .loop true [.loop true [.leaf]], .ite [.loop true []] []])
    = [[1]] := by decide

/-- PARTIAL version of C09(ii): holds for Par loops that are top-level statements of a compiled
    procedure only.  Missing: loops nested in a `for`, in a branch of an `if`, or in another Par
    loop (see `traversal_complete_false`). -/
theorem traversal_complete_partial (roots : List P) (p : P) (hp : p ∈ procList roots)
    (hi : p.instr = false) (k : Nat) (b : List S) (hk : p.body[k]? = some (.loop true b)) :
    (p.name, [k]) ∈ checkedProg roots := by
  simp only [checkedProg, List.mem_flatMap]
  refine ⟨p, hp, ?_⟩
  simp only [checkedOf, hi, Bool.false_eq_true, if_false, List.mem_map]
  exact ⟨[k], (checked_iff_top_level p [k]).mpr ⟨k, b, hk, rfl⟩, rfl⟩

def exCallee : P := .mk "sub" false [.leaf, .loop true [.leaf]]
def exMain : P := .mk "main" false [.loop false [.ite [.call exCallee] []], .loop true [.leaf]]

example : ("sub", [1]) ∈ checkedProg [exMain] :=
  traversal_complete_partial [exMain] exCallee (by simp [procList, exMain, exCallee, reachP, reachL, reachS])
    rfl 1 [.leaf] rfl

example : checkedProg [exMain] = [("main", [1]), ("sub", [1])] := by decide

/-- the completeness statement of C09(ii) -/
def TraversalComplete : Prop :=
  ∀ (roots : List P) (p : P), p ∈ procList roots → p.instr = false →
    ∀ l, l ∈ parLoops p → (p.name, l) ∈ checkedProg roots

/-- `for j in seq(..): for i in par(..): …` — the witness of finding F8 -/
def witnessSeq : P := .mk "foo" false [.loop false [.loop true [.leaf]]]
def witnessIf : P := .mk "foo" false [.ite [.loop true [.leaf]] []]
def witnessElse : P := .mk "foo" false [.ite [.leaf] [.loop true [.leaf]]]
def witnessPar : P := .mk "foo" false [.loop true [.loop true [.leaf]]]
def witnessCallee : P :=
  .mk "main" false [.call (.mk "sub" false [.loop false [.loop true [.leaf]]])]

/-- C09(ii) is FALSE for the literal model of `ParallelAnalysis`: the Par loop at path [0,0] of
    `witnessSeq` is not handed to the check. -/
theorem traversal_complete_false : ¬ TraversalComplete := by
  intro h
  have := h [witnessSeq] witnessSeq (by simp [procList, witnessSeq, reachP, reachL, reachS]) rfl
    [0, 0] (by decide)
  revert this
  decide

/-- the same in every other nested position: then-branch, else-branch, inside a Par loop, and
    nested inside a called procedure -/
theorem unchecked_positions :
    (("foo", [0, 0, 0]) ∈ parLoopsProg [witnessIf] ∧ ("foo", [0, 0, 0]) ∉ checkedProg [witnessIf]) ∧
    (("foo", [0, 1, 0]) ∈ parLoopsProg [witnessElse] ∧ ("foo", [0, 1, 0]) ∉ checkedProg [witnessElse]) ∧
    (("foo", [0, 0]) ∈ parLoopsProg [witnessPar] ∧ ("foo", [0, 0]) ∉ checkedProg [witnessPar]) ∧
    (("sub", [0, 0]) ∈ parLoopsProg [witnessCallee] ∧ ("sub", [0, 0]) ∉ checkedProg [witnessCallee]) := by
  decide

/-- the repaired traversal visits exactly the Par loops, in every compiled procedure -/
theorem checkedFix_eq_parLoops (p : P) : checkedFix p = parLoops p :=
  mapListFix_eq [] 0 p.body

theorem fixed_traversal_complete (roots : List P) (p : P) (hp : p ∈ procList roots)
    (hi : p.instr = false) (l : Path) (hl : l ∈ parLoops p) :
    (p.name, l) ∈ checkedProgFix roots := by
  simp only [checkedProgFix, List.mem_flatMap]
  refine ⟨p, hp, ?_⟩
  simp only [checkedOf, hi, Bool.false_eq_true, if_false, List.mem_map, checkedFix_eq_parLoops]
  exact ⟨l, hl, rfl⟩

example : ("foo", [0, 0]) ∈ checkedProgFix [witnessSeq] :=
  fixed_traversal_complete [witnessSeq] witnessSeq
    (by simp [procList, witnessSeq, reachP, reachL, reachS]) rfl [0, 0] (by decide)

example : checkedProgFix [witnessCallee] = [("sub", [0, 0])] := by decide

/-- the analyses as `compile_to_strings` runs them (name order, abort after the first procedure
    with a rejected loop) never hand over anything outside `checkedProg`, and hand over all of it
    when no handed loop is rejected — in particular whenever compilation succeeds.  So the
    statements above about `checkedProg` are statements about successful compilations. -/
theorem checkedRun_sub (rej : String × Path → Bool) (roots : List P) (x : String × Path)
    (h : x ∈ checkedRun rej roots) : x ∈ checkedProg roots := by
  obtain ⟨p, hp, hx⟩ := runAnalyses_sub checked rej _ x h
  simp only [checkedProg, List.mem_flatMap]
  exact ⟨p, (mem_sortByName p _).mp hp, hx⟩

theorem checkedRun_eq_of_accepted (rej : String × Path → Bool) (roots : List P)
    (hacc : ∀ x ∈ checkedProg roots, rej x = false) (x : String × Path) :
    x ∈ checkedRun rej roots ↔ x ∈ checkedProg roots := by
  refine ⟨checkedRun_sub rej roots x, ?_⟩
  intro h
  simp only [checkedProg, List.mem_flatMap] at h
  obtain ⟨p, hp, hx⟩ := h
  refine runAnalyses_all checked rej _ ?_ p ((mem_sortByName p _).mpr hp) x hx
  intro q hq y hy
  exact hacc y (by
    simp only [checkedProg, List.mem_flatMap]
    exact ⟨q, (mem_sortByName q _).mp hq, hy⟩)

example : checkedRun (fun _ => false) [exMain] = [("main", [1]), ("sub", [1])] := by decide
/-- a rejected loop in `main` aborts before `sub` is analysed -/
example : checkedRun (fun x => x == ("main", [1])) [exMain] = [("main", [1])] := by decide

/-- sub-procedures: a procedure called at any statement depth of a compiled (non-instruction)
    procedure is itself in the list of procedures that are analysed -/
theorem procList_closed (roots : List P) (p : P) (hp : p ∈ procList roots)
    (hi : p.instr = false) (f : P) (hf : f ∈ calleesL p.body) : f ∈ procList roots := by
  simp only [procList, List.mem_flatMap] at hp ⊢
  obtain ⟨r, hr, hpr⟩ := hp
  refine ⟨r, hr, reachP_trans r p hpr f ?_⟩
  cases p with
  | mk n i body =>
    simp only [P.instr] at hi
    subst hi
    simp only [reachP, List.mem_cons, Bool.false_eq_true, if_false]
    exact Or.inr (calleesL_reach body f hf)

example : exCallee ∈ procList [exMain] :=
  procList_closed [exMain] exMain (by simp [procList, exMain, reachP]) rfl exCallee
    (by simp [exMain, P.body, calleesL, calleesS])

end Exo.Par.C09
