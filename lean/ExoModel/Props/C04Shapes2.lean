/-
  Property C04 (a), third part — static well-formedness is preserved by the storage shapes
  (ExoModel/RewriteStorage.lean, RewriteReindex.lean), the data shapes (RewriteData.lean) and
  `extract_subproc` (RewriteCalls.lean), applied at any address, under explicit decidable site
  conditions (`…Ok`, ExoModel/WfSite.lean); counter-examples show the conditions are needed.
  Same conventions as Props/C04Shapes.lean (`hyps`, `breaks`).  All these shapes are cases of
  `WfTie.shapeOf`, so `wf_tie_sound` covers them.

  Not covered: `unroll_buffer`, `inline`.
-/
import ExoModel.Props.C04Shapes

set_option linter.unusedSectionVars false
namespace Exo.C04
open Exo Exo.Wf Exo.Rw Exo.WfShapes

/-! ### lift_alloc -/

/-- hypotheses: the allocation's name is new at the scope statement, bound nowhere else in it nor
    after it, and its extents are well formed at the scope statement (they mention no iterator
    of a crossed loop) -/
theorem lift_alloc_wf_anywhere (rel : Path) (path : Path) (Γ Γs : Env) (body body' site : List Stmt)
    (h : rewriteAt (liftAlloc rel) path body = some body') (hw : (wfL Γ body).isSome = true)
    (hs : siteAt path Γ body = some (Γs, site)) (hok : liftAllocOk Γs rel site = true) :
    (wfL Γ body').isSome = true :=
  shape_wf_anywhere _ (fun Γ => liftAllocOk Γ rel)
    (fun Γ ss r hr ho hw => liftAlloc_local rel Γ ss r hr ho hw) path Γ Γs body body' site h hw hs hok

/-- `for j: (if n > 0: y[j] = 1.0; t : f32[n]; t[0] = 1.0)`, the allocation lifted two levels -/
def liftBody : List Stmt :=
  [.loop sJ (num 0) (rd sN)
    [.ite (.binop .gt (rd sN) (num 0))
      [.assign sY [rd sJ] one, .alloc sT [rd sN], .assign sT [num 0] one] []] false]

example : hyps (liftAlloc [.body 0, .body 0, .body 1]) (fun Γ => liftAllocOk Γ [.body 0, .body 0, .body 1])
    [.body 0] Γ0 liftBody = true := by decide
/-- needed: the extent mentions the iterator of the crossed loop (recorded finding
    `autolift_alloc:allocation-size-depends-on-crossed-iteration-variable`) -/
example : breaks (liftAlloc [.body 0, .body 0]) [.body 0] Γ0
    [.loop sI (num 0) (rd sN) (richBody sI) false] = true := by decide

/-! ### sink_alloc -/

/-- hypotheses: bounds / condition of the scope statement and the statements after it are well
    formed without the allocation; a non-empty `else` branch is well formed WITHOUT the allocation
    (the real code renames only the copied allocation, not the branch: finding D1) and the copy's
    name is new -/
theorem sink_alloc_wf_anywhere (x' : Sym) (path : Path) (Γ Γs : Env) (body body' site : List Stmt)
    (h : rewriteAt (sinkAlloc x') path body = some body') (hw : (wfL Γ body).isSome = true)
    (hs : siteAt path Γ body = some (Γs, site)) (hok : sinkAllocOk Γs x' site = true) :
    (wfL Γ body').isSome = true :=
  shape_wf_anywhere _ (fun Γ => sinkAllocOk Γ x')
    (fun Γ ss r hr ho hw => sinkAlloc_local x' Γ ss r hr ho hw) path Γ Γs body body' site h hw hs hok

example : hyps (sinkAlloc sX) (fun Γ => sinkAllocOk Γ sX) [.body 0, .body 0] Γ0
    [.loop sJ (num 0) (rd sN)
      [.alloc sT [rd sN], .loop sI (num 0) (rd sN) [.assign sT [rd sI] one] false] false] = true := by
  decide
example : hyps (sinkAlloc sX) (fun Γ => sinkAllocOk Γ sX) [.body 0] Γ0
    [.alloc sT [rd sN], .ite (.binop .gt (rd sN) (num 0)) [.assign sT [num 0] one] [.pass]] = true := by
  decide
/-- needed (D1): the `else` branch uses the buffer; it gets a renamed copy `x` of the allocation
    but still refers to `t` -/
example : breaks (sinkAlloc sX) [.body 0] Γ0
    [.alloc sT [rd sN], .ite (.binop .gt (rd sN) (num 0)) [.assign sT [num 0] one]
      [.assign sT [num 1] one]] = true := by decide
/-- needed: the statements after the scope statement use the buffer -/
example : breaks (sinkAlloc sX) [.body 0] Γ0
    [.alloc sT [rd sN], .loop sI (num 0) (rd sN) [.assign sT [rd sI] one] false,
     .assign sY [num 0] (.read sT [num 0])] = true := by decide

/-! ### delete_buffer, delete_pass -/

/-- hypothesis: the statements after the allocation are well formed without it -/
theorem delete_buffer_wf_anywhere (fill : Bool) (path : Path) (Γ Γs : Env)
    (body body' site : List Stmt) (h : rewriteAt (deleteBuffer fill) path body = some body')
    (hw : (wfL Γ body).isSome = true) (hs : siteAt path Γ body = some (Γs, site))
    (hok : deleteBufferOk Γs site = true) : (wfL Γ body').isSome = true :=
  shape_wf_anywhere _ deleteBufferOk
    (fun Γ ss r hr ho hw => deleteBuffer_local fill Γ ss r hr ho hw) path Γ Γs body body' site h hw hs hok

example : hyps (deleteBuffer true) deleteBufferOk [.body 0, .body 0] Γ0
    [.loop sI (num 0) (rd sN) [.alloc sT [rd sI]] false] = true := by decide
example : breaks (deleteBuffer true) [.body 0, .body 0] Γ0
    [.loop sI (num 0) (rd sN) (richBody sI) false] = true := by decide

/-- `delete_pass` needs no hypothesis -/
theorem delete_pass_wf (Γ : Env) (body : List Stmt) (hw : (wfL Γ body).isSome = true) :
    (wfL Γ (deletePass body)).isSome = true :=
  deletePass_local Γ body _ rfl hw

example : (wfL Γ0 [.pass, .loop sI (num 0) (rd sN) [.pass, .ite (.binop .gt (rd sN) (num 0)) [.pass] []] false]).isSome = true ∧
    alphaEqBlocks' (deletePass [.pass, .loop sI (num 0) (rd sN) [.pass, .ite (.binop .gt (rd sN) (num 0)) [.pass] []] false])
      [.loop sI (num 0) (rd sN) [.ite (.binop .gt (rd sN) (num 0)) [.pass] []] false] = true := by
  decide +kernel

/-! ### reuse_buffer -/

/-- hypotheses: the kept buffer is in scope at the replaced allocation with the same rank; the rest
    of the block has no `stride(y, _)` (not renamed by the real code), no later extent mentioning
    `y`, no `free y` -/
theorem reuse_buffer_wf_anywhere (x : Sym) (fill : Bool) (path : Path) (Γ Γs : Env)
    (body body' site : List Stmt) (h : rewriteAt (reuseBuffer x fill) path body = some body')
    (hw : (wfL Γ body).isSome = true) (hs : siteAt path Γ body = some (Γs, site))
    (hok : reuseBufferOk Γs x site = true) : (wfL Γ body').isSome = true :=
  shape_wf_anywhere _ (fun Γ => reuseBufferOk Γ x)
    (fun Γ ss r hr ho hw => reuseBuffer_local x fill Γ ss r hr ho hw) path Γ Γs body body' site h hw hs hok

/-- `x : f32[8]; x[0] = 1.0; for i: (t : f32[8]; t[i] = x[0]; w = t[0:4]; y[i] = w[1])` -/
def reuseBody : List Stmt :=
  [.alloc sX [num 8], .assign sX [num 0] one,
   .loop sI (num 0) (rd sN)
     [.alloc sT [num 8], .assign sT [rd sI] (.read sX [num 0]),
      .window sW (.win sT [.interval (num 0) (num 4)]), .assign sY [rd sI] (.read sW [num 1])] false]

example : hyps (reuseBuffer sX true) (fun Γ => reuseBufferOk Γ sX) [.body 2, .body 0] Γ0 reuseBody = true := by
  decide
/-- needed: `stride(t, 0)` keeps the dead name -/
example : breaks (reuseBuffer sX true) [.body 1, .body 0] Γ0
    [.alloc sX [num 8], .loop sI (num 0) (rd sN)
      [.alloc sT [num 8], .assign sY [.stride sT 0] one] false] = true := by decide
/-- needed: the kept buffer has another rank -/
example : breaks (reuseBuffer sX true) [.body 1, .body 0] Γ0
    [.alloc sX [num 8, num 2], .loop sI (num 0) (rd sN)
      [.alloc sT [num 8], .assign sT [rd sI] one] false] = true := by decide

/-! ### bind_expr -/

/-- hypotheses: the new name is fresh and not bound later in the block, the bound expression is a
    well-formed data expression at the site, the statement after replacement is well formed with
    the new scalar in scope -/
theorem bind_expr_wf_anywhere (t : Sym) (e : Expr) (s' : Stmt) (path : Path) (Γ Γs : Env)
    (body body' site : List Stmt) (h : rewriteAt (bindExpr t e s') path body = some body')
    (hw : (wfL Γ body).isSome = true) (hs : siteAt path Γ body = some (Γs, site))
    (hok : bindExprOk Γs t e s' site = true) : (wfL Γ body').isSome = true :=
  shape_wf_anywhere _ (fun Γ => bindExprOk Γ t e s')
    (fun Γ ss r hr ho hw => bindExpr_local t e s' Γ ss r hr ho hw) path Γ Γs body body' site h hw hs hok

example : hyps (bindExpr sX (.read sA [rd sI]) (.assign sY [rd sI] (.binop .add (.read sX []) one)))
    (fun Γ => bindExprOk Γ sX (.read sA [rd sI]) (.assign sY [rd sI] (.binop .add (.read sX []) one)))
    [.body 0, .body 0] Γ0
    [.loop sI (num 0) (rd sN) [.assign sY [rd sI] (.binop .add (.read sA [rd sI]) one)] false] = true := by
  decide +kernel
/-- needed: the new name is already in scope -/
example : breaks (bindExpr sA (.read sA [rd sI]) (.assign sY [rd sI] (.binop .add (.read sA []) one)))
    [.body 0, .body 0] Γ0
    [.loop sI (num 0) (rd sN) [.assign sY [rd sI] (.binop .add (.read sA [rd sI]) one)] false] = true := by
  decide +kernel

/-! ### the dimension rewrites: one lemma -/

/-- **re-indexing the accesses of a buffer and changing its declared rank consistently preserves
    well-formedness**: `alloc x sh :: r ↦ alloc x sh' :: reidxL x ρ r` is well formed when the new
    extents are, `ρ` is rank consistent in every environment that satisfies `Good` (`ReOk`: index
    tuples and window coordinate lists of the old rank become well-formed ones of the new rank
    with the same number of intervals; `stride(x, d)` keeps a dimension below the new rank), and
    the rest of the block has no window of `x` if `ρ` cannot re-index windows, no rejected
    `stride(x, d)`, no bare `x` in a view position and no later extent mentioning `x`. -/
theorem reindex_preserves_wf (x : Sym) (sh sh' : List Expr) (ρ : Reidx) (noWin : Bool)
    (ps : Nat → Bool) (Good : Env → Prop)
    (hG : ∀ Γ' z v, Good Γ' → lookup z Γ' = none → Good ((z, v) :: Γ'))
    (hρ : ∀ Γ', Good Γ' → ReOk ρ sh.length sh'.length noWin ps Γ') (Γ : Env) (r : List Stmt)
    (hw : (wfL Γ (.alloc x sh :: r)).isSome = true) (hsh' : wfCs Γ sh' = true)
    (hg : Good ((x, some sh'.length) :: Γ)) (hside : reidxSideOk x noWin ps r = true) :
    (wfL Γ (.alloc x sh' :: reidxL x ρ r)).isSome = true :=
  reindexDim_wf x sh sh' ρ noWin ps Good hG hρ Γ r hw hsh' hg hside

theorem expand_dim_wf_anywhere (n e : Expr) (path : Path) (Γ Γs : Env) (body body' site : List Stmt)
    (h : rewriteAt (expandDim n e) path body = some body') (hw : (wfL Γ body).isSome = true)
    (hs : siteAt path Γ body = some (Γs, site)) (hok : expandDimOk Γs n e site = true) :
    (wfL Γ body').isSome = true :=
  shape_wf_anywhere _ (fun Γ => expandDimOk Γ n e)
    (fun Γ ss r hr ho hw => expandDim_local n e Γ ss r hr ho hw) path Γ Γs body body' site h hw hs hok

theorem divide_dim_wf_anywhere (d : Nat) (q : Int) (path : Path) (Γ Γs : Env)
    (body body' site : List Stmt) (h : rewriteAt (divideDim d q) path body = some body')
    (hw : (wfL Γ body).isSome = true) (hs : siteAt path Γ body = some (Γs, site))
    (hok : divideDimOk site = true) : (wfL Γ body').isSome = true :=
  shape_wf_anywhere _ (fun _ => divideDimOk)
    (fun Γ ss r hr ho hw => divideDim_local d q Γ ss r hr ho hw) path Γ Γs body body' site h hw hs hok

theorem mult_dim_wf_anywhere (hi lo : Nat) (path : Path) (Γ Γs : Env) (body body' site : List Stmt)
    (h : rewriteAt (multDim hi lo) path body = some body') (hw : (wfL Γ body).isSome = true)
    (hs : siteAt path Γ body = some (Γs, site)) (hok : multDimOk site = true) :
    (wfL Γ body').isSome = true :=
  shape_wf_anywhere _ (fun _ => multDimOk)
    (fun Γ ss r hr ho hw => multDim_local hi lo Γ ss r hr ho hw) path Γ Γs body body' site h hw hs hok

theorem resize_dim_wf_anywhere (d : Nat) (size off : Expr) (path : Path) (Γ Γs : Env)
    (body body' site : List Stmt) (h : rewriteAt (resizeDim d size off) path body = some body')
    (hw : (wfL Γ body).isSome = true) (hs : siteAt path Γ body = some (Γs, site))
    (hok : resizeDimOk Γs size off site = true) : (wfL Γ body').isSome = true :=
  shape_wf_anywhere _ (fun Γ => resizeDimOk Γ size off)
    (fun Γ ss r hr ho hw => resizeDim_local d size off Γ ss r hr ho hw) path Γ Γs body body' site h hw hs hok

/-- hypotheses: `perm` is a permutation of the dimensions, plus the re-indexing side conditions
    (a permutation keeps the number of intervals of a coordinate list: `accRank_perm`) -/
theorem rearrange_dim_wf_anywhere (perm : List Nat) (path : Path) (Γ Γs : Env)
    (body body' site : List Stmt) (h : rewriteAt (rearrangeDim perm) path body = some body')
    (hw : (wfL Γ body).isSome = true) (hs : siteAt path Γ body = some (Γs, site))
    (hok : rearrangeDimOk perm site = true) : (wfL Γ body').isSome = true :=
  shape_wf_anywhere _ (fun _ => rearrangeDimOk perm)
    (fun Γ ss r hr ho hw => rearrangeDim_local perm Γ ss r hr ho hw) path Γ Γs body body' site h hw hs hok

/-- `for i: (t : f32[8, 4]; t[i, 2] = 1.0; w = t[0:8, 1]; y[i] = t[i, 0] + w[3])` -/
def dimBody : List Stmt :=
  [.loop sI (num 0) (rd sN)
    [.alloc sT [num 8, num 4],
     .assign sT [rd sI, num 2] one,
     .assign sY [rd sI] (.read sT [rd sI, num 0])] false]

def dimBodyW : List Stmt :=
  [.loop sI (num 0) (rd sN)
    [.alloc sT [num 8, num 4],
     .assign sT [rd sI, num 2] one,
     .window sW (.win sT [.interval (num 0) (num 8), .point (num 1)]),
     .assign sY [rd sI] (.read sW [num 3])] false]

example : hyps (expandDim (rd sN) (rd sI)) (fun Γ => expandDimOk Γ (rd sN) (rd sI)) [.body 0, .body 0] Γ0
    dimBodyW = true := by decide
example : hyps (divideDim 0 4) (fun _ => divideDimOk) [.body 0, .body 0] Γ0 dimBody = true := by decide
example : hyps (multDim 0 1) (fun _ => multDimOk) [.body 0, .body 0] Γ0 dimBody = true := by decide
example : hyps (resizeDim 0 (num 6) (num 2)) (fun Γ => resizeDimOk Γ (num 6) (num 2)) [.body 0, .body 0] Γ0
    dimBodyW = true := by decide

example : hyps (rearrangeDim [1, 0]) (fun _ => rearrangeDimOk [1, 0]) [.body 0, .body 0] Γ0 dimBodyW = true := by
  decide

/-- needed — RANK CONSISTENCY OF `stride` (the recorded stride findings): `mult_dim` lowers the
    rank to 1 and does not touch `stride(t, 1)` -/
example : breaks (multDim 0 1) [.body 0] Γ0
    [.alloc sT [num 8, num 4], .assign sY [.stride sT 1] one] = true := by decide
/-- needed: the bare buffer in a view position keeps its OLD rank in the re-indexed program
    (`w = t` with `t` of rank 1, then `expand_dim`) -/
example : breaks (expandDim (rd sN) (num 0)) [.body 0] Γ0
    [.alloc sT [num 8], .window sW (.read sT []), .assign sW [num 0] one] = true := by decide
/-- needed: a later extent mentions the buffer (`u : f32[stride(t, 1)]` after `mult_dim`) -/
example : breaks (multDim 0 1) [.body 0] Γ0
    [.alloc sT [num 8, num 4], .alloc sX [.stride sT 1]] = true := by decide
/-- needed: the indexing expression of `expand_dim` must be well formed at the allocation -/
example : breaks (expandDim (rd sN) (rd sJ)) [.body 0, .body 0] Γ0 dimBody = true := by decide

/-! ### data shapes -/

theorem split_write_wf_anywhere (path : Path) (Γ Γs : Env) (body body' site : List Stmt)
    (h : rewriteAt splitWrite path body = some body') (hw : (wfL Γ body).isSome = true)
    (hs : siteAt path Γ body = some (Γs, site)) : (wfL Γ body').isSome = true :=
  shape_wf_anywhere _ WfTie.always (fun Γ ss r hr _ hw => splitWrite_local Γ ss r hr hw)
    path Γ Γs body body' site h hw hs rfl

theorem merge_writes_wf_anywhere (path : Path) (Γ Γs : Env) (body body' site : List Stmt)
    (h : rewriteAt mergeWrites path body = some body') (hw : (wfL Γ body).isSome = true)
    (hs : siteAt path Γ body = some (Γs, site)) : (wfL Γ body').isSome = true :=
  shape_wf_anywhere _ WfTie.always (fun Γ ss r hr _ hw => mergeWrites_local Γ ss r hr hw)
    path Γ Γs body body' site h hw hs rfl

theorem fold_into_reduce_wf_anywhere (path : Path) (Γ Γs : Env) (body body' site : List Stmt)
    (h : rewriteAt foldIntoReduce path body = some body') (hw : (wfL Γ body).isSome = true)
    (hs : siteAt path Γ body = some (Γs, site)) : (wfL Γ body').isSome = true :=
  shape_wf_anywhere _ WfTie.always (fun Γ ss r hr _ hw => foldIntoReduce_local Γ ss r hr hw)
    path Γ Γs body body' site h hw hs rfl

theorem inline_assign_wf_anywhere (path : Path) (Γ Γs : Env) (body body' site : List Stmt)
    (h : rewriteAt inlineAssign path body = some body') (hw : (wfL Γ body).isSome = true)
    (hs : siteAt path Γ body = some (Γs, site)) : (wfL Γ body').isSome = true :=
  shape_wf_anywhere _ WfTie.always (fun Γ ss r hr _ hw => inlineAssign_local Γ ss r hr hw)
    path Γ Γs body body' site h hw hs rfl

/-- hypothesis: the factor taken from inside the loop is a well-formed data expression AFTER the
    loop (it mentions neither the iterator nor anything allocated inside) -/
theorem lift_reduce_constant_wf_anywhere (path : Path) (Γ Γs : Env) (body body' site : List Stmt)
    (h : rewriteAt liftConstant path body = some body') (hw : (wfL Γ body).isSome = true)
    (hs : siteAt path Γ body = some (Γs, site)) (hok : liftConstantOk Γs site = true) :
    (wfL Γ body').isSome = true :=
  shape_wf_anywhere _ liftConstantOk (fun Γ ss r hr ho hw => liftConstant_local Γ ss r hr ho hw)
    path Γ Γs body body' site h hw hs hok

/-- hypothesis: the statement with the new expressions is well formed and defines what the old one
    defined -/
theorem rewrite_expr_wf_anywhere (s' : Stmt) (path : Path) (Γ Γs : Env) (body body' site : List Stmt)
    (h : rewriteAt (rewriteExprWith s') path body = some body') (hw : (wfL Γ body).isSome = true)
    (hs : siteAt path Γ body = some (Γs, site)) (hok : rewriteExprOk Γs s' site = true) :
    (wfL Γ body').isSome = true :=
  shape_wf_anywhere _ (fun Γ => rewriteExprOk Γ s')
    (fun Γ ss r hr ho hw => rewriteExpr_local s' Γ ss r hr ho hw) path Γ Γs body body' site h hw hs hok

/-- `for i: (y[i] = a[i] + 1.0; y[i] += 2.0 * a[i])` and the scaled accumulation
    `y[0] = 0.0; for i: y[0] += 2.0 * a[i]` -/
def dataBody : List Stmt :=
  [.loop sI (num 0) (rd sN)
    [.assign sY [rd sI] (.binop .add (.read sA [rd sI]) one),
     .reduce sY [rd sI] (.binop .mul (.lit (.data 2 1)) (.read sA [rd sI]))] false]
def accBody (c : Expr) : List Stmt :=
  [.assign sY [num 0] (.lit (.data 0 1)),
   .loop sI (num 0) (rd sN) [.reduce sY [num 0] (.binop .mul c (.read sA [rd sI]))] false]

example : hyps splitWrite WfTie.always [.body 0, .body 0] Γ0 dataBody = true := by decide
example : hyps mergeWrites WfTie.always [.body 0, .body 0] Γ0 dataBody = true := by decide
example : hyps inlineAssign WfTie.always [.body 0, .body 0] Γ0 dataBody = true := by decide
example : hyps foldIntoReduce WfTie.always [.body 0, .body 0] Γ0
    [.loop sI (num 0) (rd sN) [.assign sY [rd sI] (.binop .add (.read sY [rd sI]) one)] false] = true := by
  decide +kernel
example : hyps liftConstant liftConstantOk [.body 0] Γ0 (accBody (.lit (.data 2 1))) = true := by decide
/-- needed: the factor `a[i]` mentions the loop iterator -/
example : breaks liftConstant [.body 0] Γ0 (accBody (.read sA [rd sI])) = true := by decide
example : hyps (rewriteExprWith (.assign sY [rd sI] (.binop .add one (.read sA [rd sI]))))
    (fun Γ => rewriteExprOk Γ (.assign sY [rd sI] (.binop .add one (.read sA [rd sI]))))
    [.body 0, .body 0] Γ0 dataBody = true := by decide
/-- needed: the new expression mentions a name that is not in scope -/
example : breaks (rewriteExprWith (.assign sY [rd sI] (.read sA [rd sJ]))) [.body 0, .body 0] Γ0
    dataBody = true := by decide

/-! ### commute_expr, left_reassociate_expr, divide_with_recompute -/

/-- no hypothesis: the new right-hand side has the same leaves -/
theorem commute_expr_wf_anywhere (s' : Stmt) (path : Path) (Γ Γs : Env) (body body' site : List Stmt)
    (h : rewriteAt (commuteExprWith s') path body = some body') (hw : (wfL Γ body).isSome = true)
    (hs : siteAt path Γ body = some (Γs, site)) : (wfL Γ body').isSome = true :=
  shape_wf_anywhere _ WfTie.always (fun Γ ss r hr _ hw => commuteExpr_local s' Γ ss r hr hw)
    path Γ Γs body body' site h hw hs rfl

theorem left_reassociate_expr_wf_anywhere (s' : Stmt) (path : Path) (Γ Γs : Env)
    (body body' site : List Stmt) (h : rewriteAt (reassocExprWith s') path body = some body')
    (hw : (wfL Γ body).isSome = true) (hs : siteAt path Γ body = some (Γs, site)) :
    (wfL Γ body').isSome = true :=
  shape_wf_anywhere _ WfTie.always (fun Γ ss r hr _ hw => reassocExpr_local s' Γ ss r hr hw)
    path Γ Γs body body' site h hw hs rfl

example : hyps (commuteExprWith (.assign sY [rd sI] (.binop .add one (.read sA [rd sI]))))
    WfTie.always [.body 0, .body 0] Γ0 dataBody = true := by decide +kernel
example : hyps (reassocExprWith (.assign sY [rd sI]
      (.binop .add (.binop .add (.read sA [rd sI]) one) one))) WfTie.always [.body 0, .body 0] Γ0
    [.loop sI (num 0) (rd sN)
      [.assign sY [rd sI] (.binop .add (.read sA [rd sI]) (.binop .add one one))] false] = true := by
  decide +kernel

/-- hypotheses: `io`, `ii` fresh, distinct, not bound in the body; the outer bound is a
    well-formed control expression at the loop -/
theorem divide_with_recompute_wf_anywhere (io ii : Sym) (ohi : Expr) (q : Int) (path : Path)
    (Γ Γs : Env) (body body' site : List Stmt)
    (h : rewriteAt (divideWithRecompute io ii ohi q) path body = some body')
    (hw : (wfL Γ body).isSome = true) (hs : siteAt path Γ body = some (Γs, site))
    (hok : divideRecomputeOk Γs io ii ohi site = true) : (wfL Γ body').isSome = true :=
  shape_wf_anywhere _ (fun Γ => divideRecomputeOk Γ io ii ohi)
    (fun Γ ss r hr ho hw => divideWithRecompute_local io ii ohi q Γ ss r hr ho hw)
    path Γ Γs body body' site h hw hs hok

example : hyps (divideWithRecompute sIo sIi (.binop .div (rd sN) (num 4)) 4)
    (fun Γ => divideRecomputeOk Γ sIo sIi (.binop .div (rd sN) (num 4))) [.body 0, .body 0] Γ0
    divBody = true := by decide
example : breaks (divideWithRecompute sIo sIi (rd sI) 4) [.body 0, .body 0] Γ0 divBody = true := by decide

/-! ### stage_mem -/

/-- hypotheses: the staging buffer's name is new and the window bounds are well formed at the site
    (the extents `hi - lo`); each copy nest is fine where it is put (as many fresh, distinct
    iterators as extents, innermost statement well formed under them); the staged block (read off
    the output) is well formed with the staging buffer in scope and the statements after it are
    well formed in the environment it leaves -/
theorem stage_mem_wf_anywhere (x xs : Sym) (w : List WAcc) (n : Nat) (iters : List Sym)
    (accum load store : Bool) (gl gs : Option Expr) (B' : List Stmt) (path : Path) (Γ Γs : Env)
    (body body' site : List Stmt)
    (h : rewriteAt (stageMem x xs w n iters accum load store gl gs B') path body = some body')
    (hw : (wfL Γ body).isSome = true) (hs : siteAt path Γ body = some (Γs, site))
    (hok : stageMemOk Γs x xs w n iters accum load store gl gs B' site = true) :
    (wfL Γ body').isSome = true :=
  shape_wf_anywhere _ (fun Γ => stageMemOk Γ x xs w n iters accum load store gl gs B')
    (fun Γ ss r hr ho hw => stageMem_local x xs w n iters accum load store gl gs B' Γ ss r hr ho hw)
    path Γ Γs body body' site h hw hs hok

/-- the copy nests: `loopNest` over fresh distinct iterators, with well-formed extents and a
    well-formed innermost statement, is well formed and defines nothing -/
theorem copy_nest_wf (Γ' : Env) (iters : List Sym) (ns : List Expr) (inner : List Stmt)
    (hok : nestOk Γ' iters ns inner = true) (hd : defNames inner = []) :
    wfL Γ' (loopNest iters ns inner) = some Γ' := nest_exact hok hd

/-- `for i: (y[0] = a[2] + a[3]; pass)`, the window `a[2:4]` staged into `x` around the assignment -/
def stW : List WAcc := [.interval (num 2) (num 4)]
def stBlock : List Stmt := [.assign sY [num 0] (.binop .add (.read sA [num 2]) (.read sA [num 3]))]
def stBody : List Stmt := [.loop sI (num 0) (rd sN) (stBlock ++ [.pass]) false]

example : hyps (stageMem sA sX stW 1 [sK] false true false none none (stageL sA sX stW stBlock))
    (fun Γ => stageMemOk Γ sA sX stW 1 [sK] false true false none none (stageL sA sX stW stBlock))
    [.body 0, .body 0] Γ0 stBody = true := by decide +kernel
/-- needed: a window bound that is not in scope at the site -/
example : breaks (stageMem sA sX [.interval (rd sJ) (num 4)] 1 [sK] false true false none none
      (stageL sA sX [.interval (rd sJ) (num 4)] stBlock)) [.body 0, .body 0] Γ0 stBody = true := by
  decide +kernel
/-- needed: the staging buffer's name is already in scope -/
example : breaks (stageMem sA sN stW 1 [sK] false true false none none (stageL sA sN stW stBlock))
    [.body 0, .body 0] Γ0 stBody = true := by decide +kernel

/-! ### extract_subproc -/

/-- hypotheses: the new callee is well formed, the call is well formed at the site, the statements
    after the block are well formed without what the block defined -/
theorem extract_subproc_wf_anywhere (sub : Proc) (args : List Expr) (n : Nat) (path : Path)
    (Γ Γs : Env) (body body' site : List Stmt)
    (h : rewriteAt (extractBlock sub args n) path body = some body') (hw : (wfL Γ body).isSome = true)
    (hs : siteAt path Γ body = some (Γs, site)) (hok : extractBlockOk Γs sub args n site = true) :
    (wfL Γ body').isSome = true :=
  shape_wf_anywhere _ (fun Γ => extractBlockOk Γ sub args n)
    (fun Γ ss r hr ho hw => extractBlock_local sub args n Γ ss r hr ho hw) path Γ Γs body body' site h hw hs hok

/-- the callee `sub(i : index, y : f32[n] …)`: here simply `sub(i, y): y[i] = 1.0` -/
def subProc : Proc :=
  .mk "sub" [⟨sI, .ctrl .index⟩, ⟨sN, .ctrl .size⟩, ⟨sY, .tensor [rd sN] false⟩] [] [.assign sY [rd sI] one]

example : hyps (extractBlock subProc [rd sI, rd sN, .read sY []] 1)
    (fun Γ => extractBlockOk Γ subProc [rd sI, rd sN, .read sY []] 1) [.body 0, .body 0] Γ0
    [.loop sI (num 0) (rd sN) [.assign sY [rd sI] one, .pass] false] = true := by decide
/-- needed — the recorded finding `extract_subproc:block-defines-name-used-later` -/
example : breaks (extractBlock (.mk "sub" [] [] [.alloc sT []]) [] 1) [.body 0] Γ0
    [.alloc sT [], .assign sT [] one] = true := by decide

end Exo.C04
