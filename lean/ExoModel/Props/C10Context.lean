/-
  Property C10 — configuration rewrites, IN CONTEXT.

  Props/C10.lean has two `_partial` theorems — `delete_config_unchanged_toplevel_partial` (clause
  "unchanged", dataflow version) and `write_config_toplevel_partial` (right-hand side evaluable only
  under a precondition) — partial because a hypothesis about "the state when control reaches the
  rewritten position" could be stated only for a position at the top level of the body.  `Reach`
  (Lemmas/Reach) now expresses it at any depth; the theorems below remove the restriction:

    delete_config_unchanged_in_context   the deleted write stores, in every state that REACHES it,
                                         the value its field already has        ⇒ `Equiv ∅`
    write_config_in_context              the inserted write can be executed in every state that
                                         REACHES the gap (from an initial state satisfying `Pre`)
                                                                                ⇒ `EquivOn Pre K'`
    write_config_unchanged_in_context    the inserted write stores, in every state that REACHES the gap,
                                         the value its field already has        ⇒ `EquivOn Pre ∅`
    call_eqv_on_in_context               callee equivalence that holds only under a precondition
                                         (`EquivOn`, which is what `write_config_in_context` yields),
                                         the precondition holding in the callee state of every call
                                         that is REACHED                        ⇒ `EquivOn Pre K₁`

  The old statements are re-derived as the instance `C = pre ; □ ; post`
  (`delete_config_unchanged_toplevel`, `write_config_toplevel`).  `bind_config` and `call_eqv` of
  Props/C10.lean already hold in any context and need no state hypothesis (the write inserted by
  `bind_config` cannot fail: `bindStmt_safe`).

  Each theorem is followed by an example in which the write sits inside a loop, under an `if`, and
  the side condition holds BECAUSE of the guard.
-/
import ExoModel.Props.C10
import ExoModel.Lemmas.ConfigContextSim
import ExoModel.Lemmas.ConfigContext

set_option linter.unusedSectionVars false
set_option linter.unusedVariables false
namespace Exo.C10Ctx
open Exo Exo.Config

/-! ### 0. the general shape -/

/-- **rewrite at a hole, modulo configuration fields, on reaching states.**  If `H'` simulates `H`
    modulo `K` from every pair (state in which control reaches the hole when the ORIGINAL procedure is
    run from an initial state satisfying `Pre`; a state that differs from it only in `K` — the same
    state if the hole is not below a loop), what the context runs after the hole is insensitive to
    `K`, and the tail takes `K` to `K'`, then the procedures are equivalent modulo `K'` on `Pre`.
    (`C10.equiv_of_hole_sim` is the special case where the hole simulation holds for all states.) -/
theorem hole_sim_in_context (R : RelFam) {K K' : FieldSet} {H H' tail : List Stmt} (C : Ctx)
    (Pre : ∀ (V : Type), State V → Prop)
    (hsim : ∀ (V : Type) [DataAlg V] (ext : String → List V → V) (σ₀ σ σ' : State V), Pre V σ₀ →
      Reach ext C H σ₀ σ → R.rel K σ σ' → (inLoop C = false → σ' = σ) →
      ∀ o, execL ext H σ = .ok o → ∃ o', execL ext H' σ' = .ok o' ∧ R.rel K o o')
    (hC : CtxInsens0 R K C) (htail : Sim R K K' tail tail)
    (nm : String) (args : List FnArg) (preds : List Expr) :
    EquivOn Pre K' (.mk nm args preds (C.fill H ++ tail)) (.mk nm args preds (C.fill H' ++ tail)) :=
  equivOn_of_hole_sim_reach R C Pre hsim hC htail nm args preds

/-! ### material for the examples -/

def xS : Sym := ⟨"x", 1⟩
def iS : Sym := ⟨"i", 2⟩
def bS : Sym := ⟨"b", 3⟩
def nS : Sym := ⟨"n", 4⟩
abbrev one : Expr := .lit (.data 1 1)
abbrev lit0 : Expr := .lit (.int 0)
abbrev lit3 : Expr := .lit (.int 3)

/-- the guard `c.f == 2` -/
def gEq : Expr := .binop .eq (.readcfg "c" "f") (.lit (.int 2))
/-- `if c.f == 2: x = 1.0` — a later READ of the field -/
def readsF : Stmt := .ite gEq [.assign xS [] one] []

/-- `pass; for i in [0,3): ((if c.f == 2: □) ; if c.f == 2: x = 1.0) ; if c.f == 2: x = 1.0`:
    the hole is below a loop, under an `if`; the field is read later in the loop body (hence also in
    the next iteration) and after the loop -/
def CD : Ctx := .seq [.pass] (.loop iS lit0 lit3 false
  (.seq [] (.iteT gEq .hole []) [readsF])) [readsF]

/-- a state that reaches the hole of `CD` has `c.f = 2` — only because of the guard -/
theorem CD_fact {V : Type} [DataAlg V] (ext : String → List V → V) {B : List Stmt} {σ₀ σ : State V}
    (h : Reach ext CD B σ₀ σ) : lookupCfg ("c", "f") σ.cfg = some (.ctrl 2) := by
  obtain ⟨σ₁, _, h⟩ := reach_seq ext h
  obtain ⟨l, hv, k, s, _, _, _, _, h⟩ := reach_loop ext h
  obtain ⟨σ₂, h2, h⟩ := reach_seq ext h
  obtain ⟨b, hb, hne, h⟩ := reach_iteT ext h
  have := reach_hole ext h
  subst this
  exact guard_cfg_eq hb hne

/-- the guard `0 < b` -/
def gPos : Expr := .binop .lt lit0 (.read bS [])

/-- `pass; for i in [0,3): (if 0 < b: (□ ; x = 1.0))`, to be followed by a tail -/
def CW : Ctx := .seq [.pass] (.loop iS lit0 lit3 false
  (.seq [] (.iteT gPos (.seq [] .hole [.assign xS [] one]) []) [])) []

/-- a state that reaches the hole of `CW` binds `b` — only because the guard `0 < b` was evaluated -/
theorem CW_fact {V : Type} [DataAlg V] (ext : String → List V → V) {B : List Stmt} {σ₀ σ : State V}
    (h : Reach ext CW B σ₀ σ) : ∃ v, lookupSym bS σ.env = some v := by
  obtain ⟨σ₁, _, h⟩ := reach_seq ext h
  obtain ⟨l, hv, k, s, _, _, _, _, h⟩ := reach_loop ext h
  obtain ⟨σ₂, h2, h⟩ := reach_seq ext h
  obtain ⟨b, hb, hne, h⟩ := reach_iteT ext h
  obtain ⟨σ₃, h3, h⟩ := reach_seq ext h
  have := reach_hole ext h
  subst this
  simp only [execL, pure, Except.pure, Except.ok.injEq] at h3
  subst h3
  exact guard_pos_bound hb

theorem CW_insens : CtxInsens0 agreeFam (single ("c", "f")) CW := by
  refine ⟨⟨sim_refl_none _ _, ⟨condOk_of_avoid (by unfold gPos; avoid), ⟨sim_refl_none _ _, trivial,
    C10.insensitive_of_no_read (by avoid)⟩, sim_refl_none _ _⟩, sim_refl_none _ _⟩, sim_refl_none _ _⟩

/-! ### 1. delete_config, clause "unchanged" (dataflow version), any position -/

/-- **delete_config, clause "unchanged", in context.**  If in every state in which control reaches
    the write `c.f = rhs` (anywhere: below loops, in branches) — when the procedure is run from an
    initial state satisfying `Pre` — the write stores the value the field already has, then deleting
    it changes nothing observable: `EquivOn Pre ∅`.  Nothing is required of the rest of the
    procedure (it may read the field later). -/
theorem delete_config_unchanged_in_context_on (C : Ctx) (c f : String) (rhs : Expr) (d : Bool)
    (Pre : ∀ (V : Type), State V → Prop)
    (hsame : ∀ (V : Type) [DataAlg V] (ext : String → List V → V) (σ₀ σ σ2 : State V), Pre V σ₀ →
      Reach ext C [.writecfg c f rhs d] σ₀ σ → execS ext (.writecfg c f rhs d) σ = .ok σ2 →
      lookupCfg (c, f) σ2.cfg = lookupCfg (c, f) σ.cfg)
    (nm : String) (args : List FnArg) (preds : List Expr) :
    EquivOn Pre noField (.mk nm args preds (C.fill [.writecfg c f rhs d]))
                        (.mk nm args preds (C.fill [])) :=
  equivOn_of_reach_le C _ _ Pre nm args preds (fun V _ ext σ₀ σ hP hr =>
    write_unchanged_le ext σ (fun σ2 h2 => hsame V ext σ₀ σ σ2 hP hr h2))

/-- the same without a precondition: the statement of `C10.delete_config_unchanged_toplevel_partial`
    with `pre ++ □ ++ post` generalised to an arbitrary context -/
theorem delete_config_unchanged_in_context (C : Ctx) (c f : String) (rhs : Expr) (d : Bool)
    (hsame : ∀ (V : Type) [DataAlg V] (ext : String → List V → V) (σ₀ σ σ2 : State V),
      Reach ext C [.writecfg c f rhs d] σ₀ σ → execS ext (.writecfg c f rhs d) σ = .ok σ2 →
      lookupCfg (c, f) σ2.cfg = lookupCfg (c, f) σ.cfg)
    (nm : String) (args : List FnArg) (preds : List Expr) :
    Equiv noField (.mk nm args preds (C.fill [.writecfg c f rhs d]))
                  (.mk nm args preds (C.fill [])) :=
  equiv_of_equivOn_true (delete_config_unchanged_in_context_on C c f rhs d (fun _ _ => True)
    (fun V _ ext σ₀ σ σ2 _ hr h2 => hsame V ext σ₀ σ σ2 hr h2) nm args preds)

/-- … when the write was the only statement of its block and the cursor deletion leaves `pass`
    (the second shape of `C10.deleteWrite_shapes`) -/
theorem delete_config_unchanged_in_context_leaving_pass (C : Ctx) (c f : String) (rhs : Expr)
    (d : Bool)
    (hsame : ∀ (V : Type) [DataAlg V] (ext : String → List V → V) (σ₀ σ σ2 : State V),
      Reach ext C [.writecfg c f rhs d] σ₀ σ → execS ext (.writecfg c f rhs d) σ = .ok σ2 →
      lookupCfg (c, f) σ2.cfg = lookupCfg (c, f) σ.cfg)
    (nm : String) (args : List FnArg) (preds : List Expr) :
    Equiv noField (.mk nm args preds (C.fill [.writecfg c f rhs d]))
                  (.mk nm args preds (C.fill [.pass])) :=
  equiv_of_reach_le C _ _ nm args preds (fun V _ ext σ₀ σ hr =>
    write_unchanged_le_pass ext σ (fun σ2 h2 => hsame V ext σ₀ σ σ2 hr h2))

/-- `for i in [0,3): (if c.f == 2: c.f = 2) ; if c.f == 2: x = 1.0`, then `if c.f == 2: x = 1.0`:
    the write `c.f = 2` under the guard `c.f == 2`, inside a loop, is deleted.  It is unchanged
    only BECAUSE of the guard (`CD_fact`); the field is read later, in the same iteration, in the next
    one, and after the loop — which clause "not read later" (`C10.delete_config`) would forbid. -/
example : Equiv noField
    (.mk "p" [] [] (CD.fill [.writecfg "c" "f" (.lit (.int 2)) false]))
    (.mk "p" [] [] (CD.fill [.pass])) := by
  refine delete_config_unchanged_in_context_leaving_pass CD "c" "f" _ _ ?_ _ _ _
  intro V _ ext σ₀ σ σ2 hr h2
  have hf := CD_fact ext hr
  obtain ⟨v, rfl, hv⟩ := writecfg_ok ext h2
  rcases hv with ⟨hd, _⟩ | ⟨_, n, hn, rfl⟩
  · cases hd
  · simp only [evalC, pure, Except.pure, Except.ok.injEq] at hn
    subst hn
    show lookupCfg ("c", "f") (setCfg ("c", "f") _ σ.cfg) = _
    rw [lookupCfg_setCfg_same, hf]

/-- the hypothesis is not vacuous: control does reach the hole of `CD` (first iteration, from a state
    in which `c.f = 2`) -/
example : Reach (V := Int) (fun _ _ => 0) CD [.writecfg "c" "f" (.lit (.int 2)) false]
    ⟨[], [], [], [(("c", "f"), .ctrl 2)]⟩ ⟨[(iS, 0)], [], [], [(("c", "f"), .ctrl 2)]⟩ := by
  refine Reach.seq _ _ _ _ _ ⟨[], [], [], [(("c", "f"), .ctrl 2)]⟩ _ (by
    simp [execL, execS, bind, Except.bind, pure, Except.pure]) ?_
  refine Reach.loop _ _ _ _ _ _ _ ⟨[], [], [], [(("c", "f"), .ctrl 2)]⟩ _ 0 3 0 rfl rfl (by decide)
    rfl ?_
  refine Reach.seq _ _ _ _ _ _ _ rfl ?_
  refine Reach.iteT _ _ _ _ _ _ 1 ?_ (by decide) (Reach.hole _ _)
  simp [gEq, evalC, State.bind, lookupCfg, ctrlOp, b2i, bind, Except.bind, pure, Except.pure]

/-- the old top-level statement is the instance `C = pre ; □ ; post` -/
theorem delete_config_unchanged_toplevel (pre post : List Stmt) (c f : String) (rhs : Expr)
    (d : Bool)
    (hsame : ∀ (V : Type) [DataAlg V] (ext : String → List V → V) (σ σ1 σ2 : State V),
      execL ext pre σ = .ok σ1 → execS ext (.writecfg c f rhs d) σ1 = .ok σ2 →
      lookupCfg (c, f) σ2.cfg = lookupCfg (c, f) σ1.cfg)
    (nm : String) (args : List FnArg) (preds : List Expr) :
    Equiv noField (.mk nm args preds (pre ++ [.writecfg c f rhs d] ++ post))
               (.mk nm args preds (pre ++ post)) := by
  have := delete_config_unchanged_in_context (.seq pre .hole post) c f rhs d
    (fun V _ ext σ₀ σ σ2 hr h2 => by
      obtain ⟨σ₁, h1, hh⟩ := reach_seq ext hr
      have := reach_hole ext hh
      subst this
      exact hsame V ext σ₀ σ σ2 h1 h2) nm args preds
  simpa only [Ctx.fill, List.append_nil] using this

/-! ### 2. write_config, arbitrary right-hand side, any gap -/

/-- **write_config in context** (exact form).  Inserting `c.f = rhs` at any gap (below loops, in
    branches) changes at most the fields of `K'`, on the initial states satisfying `Pre`, if
    * `hsafe`: the write can be executed in every state `σ'` that differs at most in `K ∋ (c,f)` from
      a state `σ` in which control reaches the gap (original procedure, initial state in `Pre`); if
      the gap is not below a loop only `σ' = σ` is asked;
    * `hC`, `htail`: as for `C10.write_config` — what the enclosing statements run after the gap does
      not read `K`, the tail takes `K` to `K'`. -/
theorem write_config_in_context_exact {K K' : FieldSet} (C : Ctx) (c f : String) (rhs : Expr) (d : Bool)
    (tail : List Stmt) (Pre : ∀ (V : Type), State V → Prop) (hK : K (c, f))
    (hsafe : ∀ (V : Type) [DataAlg V] (ext : String → List V → V) (σ₀ σ σ' : State V), Pre V σ₀ →
      Reach ext C [] σ₀ σ → CfgAgreeOutside K σ σ' → (inLoop C = false → σ' = σ) →
      ∃ σ2, execS ext (.writecfg c f rhs d) σ' = .ok σ2)
    (hC : CtxInsens0 agreeFam K C) (htail : Overwrites K K' tail)
    (nm : String) (args : List FnArg) (preds : List Expr) :
    EquivExactOn Pre K' (.mk nm args preds (C.fill [] ++ tail))
                        (.mk nm args preds (C.fill [.writecfg c f rhs d] ++ tail)) :=
  equivExactOn_of_hole_sim_reach C Pre
    (fun V _ ext σ₀ σ σ' hP hr hrr hnl =>
      simAt_insert_write ext agreeFam K hK hrr (hsafe V ext σ₀ σ σ' hP hr hrr hnl))
    hC htail nm args preds

/-- **write_config in context**: `C10.write_config_toplevel_partial` with `pre ++ □` generalised to
    an arbitrary context (conclusion `EquivOn Pre K'` as there) -/
theorem write_config_in_context {K K' : FieldSet} (C : Ctx) (c f : String) (rhs : Expr) (d : Bool)
    (tail : List Stmt) (Pre : ∀ (V : Type), State V → Prop) (hK : K (c, f))
    (hsafe : ∀ (V : Type) [DataAlg V] (ext : String → List V → V) (σ₀ σ σ' : State V), Pre V σ₀ →
      Reach ext C [] σ₀ σ → CfgAgreeOutside K σ σ' → (inLoop C = false → σ' = σ) →
      ∃ σ2, execS ext (.writecfg c f rhs d) σ' = .ok σ2)
    (hC : CtxInsens0 agreeFam K C) (htail : Overwrites K K' tail)
    (nm : String) (args : List FnArg) (preds : List Expr) :
    EquivOn Pre K' (.mk nm args preds (C.fill [] ++ tail))
                   (.mk nm args preds (C.fill [.writecfg c f rhs d] ++ tail)) :=
  equivOn_of_equivExactOn
    (write_config_in_context_exact C c f rhs d tail Pre hK hsafe hC htail nm args preds)

/-- the form with the evaluability precondition stated on REACHING states only: if `rhs` reads no
    field of `K` (always the case for the variable reads and literals `write_config` accepts), its
    evaluability in a reaching state carries over to every state that differs only in `K` -/
theorem write_config_in_context_reaching {K K' : FieldSet} (C : Ctx) (c f : String) (rhs : Expr)
    (d : Bool) (tail : List Stmt) (Pre : ∀ (V : Type), State V → Prop) (hK : K (c, f))
    (hrhs : ExprAvoids K rhs)
    (hsafe : ∀ (V : Type) [DataAlg V] (ext : String → List V → V) (σ₀ σ : State V), Pre V σ₀ →
      Reach ext C [] σ₀ σ → ∃ σ2, execS ext (.writecfg c f rhs d) σ = .ok σ2)
    (hC : CtxInsens0 agreeFam K C) (htail : Overwrites K K' tail)
    (nm : String) (args : List FnArg) (preds : List Expr) :
    EquivOn Pre K' (.mk nm args preds (C.fill [] ++ tail))
                   (.mk nm args preds (C.fill [.writecfg c f rhs d] ++ tail)) :=
  write_config_in_context C c f rhs d tail Pre hK
    (fun V _ ext σ₀ σ σ' hP hr hrr _ => write_runs_of_avoid ext hrr hrhs (hsafe V ext σ₀ σ hP hr))
    hC htail nm args preds

/-- `pass; for i in [0,3): (if 0 < b: (□ ; x = 1.0))` then `pass`: `c.f = b` is inserted at `□`.
    No precondition on the initial state: `b` can be read there only BECAUSE the guard `0 < b` was
    evaluated on the way (`CW_fact`). -/
example : EquivOn (fun _ _ => True) (single ("c", "f"))
    (.mk "p" [] [] (CW.fill [] ++ [.pass]))
    (.mk "p" [] [] (CW.fill [.writecfg "c" "f" (.read bS []) false] ++ [.pass])) := by
  refine write_config_in_context_reaching (K := single ("c", "f")) CW "c" "f" (.read bS []) false
    [.pass] _ rfl (by avoid) ?_ CW_insens (C10.insensitive_of_no_read (by avoid)) _ _ _
  intro V _ ext σ₀ σ _ hr
  obtain ⟨v, hv⟩ := CW_fact ext hr
  exact ⟨_, by simp [execS, evalC, hv, bind, Except.bind, pure, Except.pure]; rfl⟩

/-- control does reach the hole of `CW` (first iteration, from a state binding `b` to 5) -/
example : Reach (V := Int) (fun _ _ => 0) CW []
    ⟨[(bS, 5)], [], [], []⟩ ⟨[(iS, 0), (bS, 5)], [], [], []⟩ := by
  refine Reach.seq _ _ _ _ _ ⟨[(bS, 5)], [], [], []⟩ _ (by
    simp [execL, execS, bind, Except.bind, pure, Except.pure]) ?_
  refine Reach.loop _ _ _ _ _ _ _ ⟨[(bS, 5)], [], [], []⟩ _ 0 3 0 rfl rfl (by decide) rfl ?_
  refine Reach.seq _ _ _ _ _ _ _ rfl ?_
  refine Reach.iteT _ _ _ _ _ _ 1 ?_ (by decide) (Reach.seq _ _ _ _ _ _ _ rfl (Reach.hole _ _))
  simp [gPos, evalC, State.bind, lookupSym, bS, iS, ctrlOp, b2i, bind, Except.bind, pure,
    Except.pure]

/-- the old top-level statement is the instance `C = pre ; □` with `tail = post` -/
theorem write_config_toplevel {K' : FieldSet} (pre post : List Stmt) (c f : String)
    (rhs : Expr) (d : Bool) (Pre : ∀ (V : Type), State V → Prop)
    (hsafe : ∀ (V : Type) [DataAlg V] (ext : String → List V → V) (σ σ1 : State V), Pre V σ →
      execL ext pre σ = .ok σ1 → ∃ σ2, execS ext (.writecfg c f rhs d) σ1 = .ok σ2)
    (hpost : Overwrites (single (c, f)) K' post)
    (nm : String) (args : List FnArg) (preds : List Expr) :
    EquivOn Pre K' (.mk nm args preds (pre ++ post))
                   (.mk nm args preds (pre ++ [.writecfg c f rhs d] ++ post)) := by
  have := write_config_in_context (K := single (c, f)) (.seq pre .hole []) c f rhs d post Pre rfl
    (fun V _ ext σ₀ σ σ' hP hr _ hnl => by
      obtain ⟨σ₁, h1, hh⟩ := reach_seq ext hr
      have := reach_hole ext hh
      subst this
      rw [hnl rfl]
      exact hsafe V ext σ₀ σ hP h1)
    ⟨trivial, sim_refl_none _ _⟩ hpost nm args preds
  simpa only [Ctx.fill, List.append_nil] using this

/-- **write_config, clause "unchanged", in context** (mirror of
    `delete_config_unchanged_in_context`): if in every state in which control reaches the gap the
    inserted write can be executed and stores the value the field already has, the insertion changes
    nothing observable — whatever the rest does (it may read the field: `C10.write_config` could not
    be used then). -/
theorem write_config_unchanged_in_context (C : Ctx) (c f : String) (rhs : Expr) (d : Bool)
    (Pre : ∀ (V : Type), State V → Prop)
    (hsame : ∀ (V : Type) [DataAlg V] (ext : String → List V → V) (σ₀ σ : State V), Pre V σ₀ →
      Reach ext C [] σ₀ σ → ∃ σ2, execS ext (.writecfg c f rhs d) σ = .ok σ2 ∧
        lookupCfg (c, f) σ2.cfg = lookupCfg (c, f) σ.cfg)
    (nm : String) (args : List FnArg) (preds : List Expr) :
    EquivOn Pre noField (.mk nm args preds (C.fill []))
                        (.mk nm args preds (C.fill [.writecfg c f rhs d])) :=
  equivOn_of_reach_le C _ _ Pre nm args preds (fun V _ ext σ₀ σ hP hr =>
    insert_unchanged_le ext σ (hsame V ext σ₀ σ hP hr))

/-- `pass; for i in [0,3): ((if c.f == 2: (pass ; □)) ; if c.f == 2: x = 1.0) ; if c.f == 2: …` -/
def CD2 : Ctx := .seq [.pass] (.loop iS lit0 lit3 false
  (.seq [] (.iteT gEq (.seq [.pass] .hole []) []) [readsF])) [readsF]

theorem CD2_fact {V : Type} [DataAlg V] (ext : String → List V → V) {B : List Stmt} {σ₀ σ : State V}
    (h : Reach ext CD2 B σ₀ σ) : lookupCfg ("c", "f") σ.cfg = some (.ctrl 2) := by
  obtain ⟨σ₁, _, h⟩ := reach_seq ext h
  obtain ⟨l, hv, k, s, _, _, _, _, h⟩ := reach_loop ext h
  obtain ⟨σ₂, h2, h⟩ := reach_seq ext h
  obtain ⟨b, hb, hne, h⟩ := reach_iteT ext h
  obtain ⟨σ₃, h3, h⟩ := reach_seq ext h
  have := reach_hole ext h
  subst this
  simp only [execL, execS, bind, Except.bind, pure, Except.pure, Except.ok.injEq] at h3
  subst h3
  exact guard_cfg_eq hb hne

/-- `c.f = 2` inserted under the guard `c.f == 2`, inside a loop, with the field read afterwards -/
example : EquivOn (fun _ _ => True) noField
    (.mk "p" [] [] (CD2.fill []))
    (.mk "p" [] [] (CD2.fill [.writecfg "c" "f" (.lit (.int 2)) false])) := by
  refine write_config_unchanged_in_context CD2 "c" "f" _ _ _ ?_ _ _ _
  intro V _ ext σ₀ σ _ hr
  have hf := CD2_fact ext hr
  refine ⟨{ σ with cfg := setCfg ("c", "f") (.ctrl 2) σ.cfg },
    by simp [execS, evalC, bind, Except.bind, pure, Except.pure], ?_⟩
  show lookupCfg ("c", "f") (setCfg ("c", "f") _ σ.cfg) = _
  rw [lookupCfg_setCfg_same, hf]

/-! ### 3. call_eqv with a callee equivalence that holds under a precondition -/

/-- **call_eqv in context, conditional callee equivalence.**  `C10.call_eqv` asks for `Equiv K₀ f g`
    from every state; the equivalences produced by `write_config_in_context` (and by the storage
    rewrites of C01) hold only on a precondition `PreF`.  It is enough that `PreF` holds in the
    callee state of every call that is REACHED: for every state `σ` in which control reaches the call
    (caller run from an initial state in `Pre`) and every `σ'` that `σ` refines modulo `K₀` (`σ' = σ`
    if the call is not below a loop), the callee state built from `σ'` — which satisfies the callee's
    assertions, shapes and no-alias check (`ValidIn f`) — satisfies `PreF`.  Other side conditions as
    in `C10.call_eqv`. -/
theorem call_eqv_on_in_context {K₀ K₁ : FieldSet} {f g : Proc} {PreF : ∀ (V : Type), State V → Prop}
    (C : Ctx) (args : List Expr) (tail : List Stmt) (Pre : ∀ (V : Type), State V → Prop)
    (h : EquivOn PreF K₀ f g) (hargs : g.args = f.args)
    (hpreds : ∀ (V : Type) (σ : State V), checkPreds σ f.preds = .ok () → checkPreds σ g.preds = .ok ())
    (hpre : ∀ (V : Type) [DataAlg V] (ext : String → List V → V) (σ₀ σ σ' : State V)
      (ce : List (Sym × Int)) (cv : List (Sym × View)), Pre V σ₀ →
      Reach ext C [.call f args] σ₀ σ → StRefines K₀ σ σ' → (inLoop C = false → σ' = σ) →
      bindArgs σ' f.args args [] [] = .ok (ce, cv) → ValidIn f V (calleeState σ' ce cv) →
      PreF V (calleeState σ' ce cv))
    (hself : inLoop C = true → Sim refineFam K₀ K₀ [.call f args] [.call f args])
    (hC : CtxInsens0 refineFam K₀ C) (htail : Sim refineFam K₀ K₁ tail tail)
    (nm : String) (pargs : List FnArg) (preds : List Expr) :
    EquivOn Pre K₁ (.mk nm pargs preds (C.fill [.call f args] ++ tail))
                   (.mk nm pargs preds (C.fill [.call g args] ++ tail)) := by
  refine equivOn_of_hole_sim_reach refineFam C Pre ?_ hC htail nm pargs preds
  intro V _ ext σ₀ σ σ' hP hr hrr hnl o ho
  have hcall := call_simAt_refine_on ext h hargs hpreds args σ'
    (fun ce cv hb hv => hpre V ext σ₀ σ σ' ce cv hP hr hrr hnl hb hv)
  cases hl : inLoop C with
  | false =>
    rw [hnl hl] at hcall ⊢
    exact hcall o ho
  | true =>
    obtain ⟨o1, ho1, r1⟩ := hself hl V ext σ σ' o hrr ho
    obtain ⟨o2, ho2, r2⟩ := hcall o1 ho1
    exact ⟨o2, ho2, refineFam.trans r1 r2⟩

/-- the same for an exact callee equivalence (as produced by `write_config_in_context_exact`): the
    side conditions are then plain insensitivity -/
theorem call_eqv_exact_on_in_context {K₀ K₁ : FieldSet} {f g : Proc}
    {PreF : ∀ (V : Type), State V → Prop}
    (C : Ctx) (args : List Expr) (tail : List Stmt) (Pre : ∀ (V : Type), State V → Prop)
    (h : EquivExactOn PreF K₀ f g) (hargs : g.args = f.args)
    (hpreds : ∀ (V : Type) (σ : State V), checkPreds σ f.preds = .ok () → checkPreds σ g.preds = .ok ())
    (hpre : ∀ (V : Type) [DataAlg V] (ext : String → List V → V) (σ₀ σ σ' : State V)
      (ce : List (Sym × Int)) (cv : List (Sym × View)), Pre V σ₀ →
      Reach ext C [.call f args] σ₀ σ → CfgAgreeOutside K₀ σ σ' → (inLoop C = false → σ' = σ) →
      bindArgs σ' f.args args [] [] = .ok (ce, cv) → ValidIn f V (calleeState σ' ce cv) →
      PreF V (calleeState σ' ce cv))
    (hself : inLoop C = true → Insensitive K₀ [.call f args])
    (hC : CtxInsens0 agreeFam K₀ C) (htail : Overwrites K₀ K₁ tail)
    (nm : String) (pargs : List FnArg) (preds : List Expr) :
    EquivExactOn Pre K₁ (.mk nm pargs preds (C.fill [.call f args] ++ tail))
                        (.mk nm pargs preds (C.fill [.call g args] ++ tail)) := by
  refine equivExactOn_of_hole_sim_reach C Pre ?_ hC htail nm pargs preds
  intro V _ ext σ₀ σ σ' hP hr hrr hnl o ho
  have hcall := call_simAt_exact_on ext h hargs hpreds args σ'
    (fun ce cv hb hv => hpre V ext σ₀ σ σ' ce cv hP hr hrr hnl hb hv)
  cases hl : inLoop C with
  | false =>
    rw [hnl hl] at hcall ⊢
    exact hcall o ho
  | true =>
    obtain ⟨o1, ho1, r1⟩ := hself hl V ext σ σ' o hrr ho
    obtain ⟨o2, ho2, r2⟩ := hcall o1 ho1
    exact ⟨o2, ho2, agreeFam.trans r1 r2⟩

/-- a callee equivalence that holds on the callee's own `ValidIn` (assertions, shapes, no aliasing)
    lifts with no state hypothesis at all: the call establishes `ValidIn` before the body runs -/
theorem call_eqv_valid {K₀ K₁ : FieldSet} {f g : Proc} (C : Ctx) (args : List Expr)
    (tail : List Stmt) (h : EquivOn (ValidIn f) K₀ f g) (hargs : g.args = f.args)
    (hpreds : ∀ (V : Type) (σ : State V), checkPreds σ f.preds = .ok () → checkPreds σ g.preds = .ok ())
    (hself : inLoop C = true → Sim refineFam K₀ K₀ [.call f args] [.call f args])
    (hC : CtxInsens0 refineFam K₀ C) (htail : Sim refineFam K₀ K₁ tail tail)
    (nm : String) (pargs : List FnArg) (preds : List Expr) :
    Equiv K₁ (.mk nm pargs preds (C.fill [.call f args] ++ tail))
             (.mk nm pargs preds (C.fill [.call g args] ++ tail)) :=
  equiv_of_equivOn_true (call_eqv_on_in_context C args tail (fun _ _ => True) h hargs hpreds
    (fun _ _ _ _ _ _ _ _ _ _ _ _ _ hv => hv) hself hC htail nm pargs preds)

/-! #### example: the callee needs `0 < b`, the caller calls it under the guard `0 < n`, in a loop -/

/-- `6 / b` — evaluable only for `b > 0` -/
def sixOverB : Expr := .binop .div (.lit (.int 6)) (.read bS [])

/-- callee `f(b : index): pass` -/
def fP : Proc := .mk "f" [⟨bS, .ctrl .index⟩] [] (Ctx.hole.fill [] ++ [.pass])
/-- callee `g(b : index): c.f = 6 / b ; pass` -/
def gP : Proc := .mk "f" [⟨bS, .ctrl .index⟩] []
  (Ctx.hole.fill [.writecfg "c" "f" sixOverB false] ++ [.pass])

/-- the callee's precondition: `b` is bound to a positive value -/
def PosB (V : Type) (σ : State V) : Prop := ∃ v, lookupSym bS σ.env = some v ∧ 0 < v

/-- `g` is `f` with `c.f = 6 / b` inserted — equivalent modulo `c.f` on states where `b > 0` -/
theorem fg_on : EquivExactOn PosB (single ("c", "f")) fP gP := by
  refine write_config_in_context_exact (K := single ("c", "f")) .hole "c" "f" sixOverB false [.pass]
    PosB rfl ?_ trivial (C10.insensitive_of_no_read (by avoid)) _ _ _
  intro V _ ext σ₀ σ σ' hP hr _ hnl
  have := reach_hole ext hr
  subst this
  rw [hnl rfl]
  obtain ⟨v, hv, hpos⟩ := hP
  have hnle : ¬ v ≤ 0 := by omega
  exact ⟨_, by simp [execS, sixOverB, evalC, hv, ctrlOp, hnle, bind, Except.bind, pure, Except.pure]; rfl⟩

/-- the guard `0 < n` -/
def gPosN : Expr := .binop .lt lit0 (.read nS [])

/-- `pass; for i in [0,3): (if 0 < n: □)` -/
def CC : Ctx := .seq [.pass] (.loop iS lit0 lit3 false (.seq [] (.iteT gPosN .hole []) [])) []

/-- a state that reaches the hole of `CC` binds `n` to a positive value -/
theorem CC_fact {V : Type} [DataAlg V] (ext : String → List V → V) {B : List Stmt} {σ₀ σ : State V}
    (h : Reach ext CC B σ₀ σ) : ∃ v, evalC σ (.read nS []) = .ok v ∧ 0 < v := by
  obtain ⟨σ₁, _, h⟩ := reach_seq ext h
  obtain ⟨l, hv, k, s, _, _, _, _, h⟩ := reach_loop ext h
  obtain ⟨σ₂, h2, h⟩ := reach_seq ext h
  exact reach_guardPos ext (n := nS) h

/-- `for i in [0,3): if 0 < n: f(n)`  ↦  `… g(n)`, then `c.f = 5`: the callee equivalence needs
    `b > 0`, which holds in the callee state only BECAUSE the call sits under `0 < n`; the tail
    overwrites `c.f`, so nothing is reported. -/
example : EquivExactOn (fun _ _ => True) noField
    (.mk "p" [] [] (CC.fill [.call fP [.read nS []]] ++ [.writecfg "c" "f" (.lit (.int 5)) false]))
    (.mk "p" [] [] (CC.fill [.call gP [.read nS []]] ++ [.writecfg "c" "f" (.lit (.int 5)) false])) := by
  refine call_eqv_exact_on_in_context (K₀ := single ("c", "f")) CC [.read nS []] _ _ fg_on rfl
    (fun _ _ h => h) ?_
    (fun _ => C10.insensitive_of_no_read (by simp [fP, Ctx.fill]; avoid))
    ⟨⟨sim_refl_none _ _, ⟨condOk_of_avoid (by unfold gPosN; avoid), trivial, sim_refl_none _ _⟩,
      sim_refl_none _ _⟩, sim_refl_none _ _⟩
    (C10.overwrites_of_lit_write "c" "f" 5) _ _ _
  intro V _ ext σ₀ σ σ' ce cv _ hr hrr _ hb _
  obtain ⟨v, hv, hpos⟩ := CC_fact ext hr
  have hv' : evalC σ' (.read nS []) = .ok v := by
    rw [← evalC_avoid hrr (.read nS []) (by avoid)]; exact hv
  simp only [fP, Proc.args, bindArgs, hv', bind, Except.bind, pure, Except.pure] at hb
  have hne : ¬ (CtrlKind.index = CtrlKind.size ∧ v ≤ 0) := fun h => by cases h.1
  simp only [hne, if_false, Except.ok.injEq, Prod.mk.injEq] at hb
  obtain ⟨rfl, rfl⟩ := hb
  exact ⟨v, by simp [calleeState, lookupSym], hpos⟩

end Exo.C10Ctx
