/-
  C16 — `find` and cursor navigation are exact.

  Part 1 (find).  With the node-level matcher (`matchE` / `matchStmt` / `matchStmts`, hole
  look-ahead included) as the definition of "structurally matches", the stateful search of
  pattern_match.py (`_match_no` countdown, `_MatchComplete`, prefix match before descending, body
  before orelse, `_children` order) returns exactly the matching positions of the pre-order
  position list — complete, in program order, duplicate-free; `#n` selects the n-th of them and
  fails iff n ≥ their number; the `name` / `name #n` shorthands expand as documented.

  Part 2 (navigation).  On every tree and every valid cursor: parent/child, next/prev,
  before/after/anchor, as_block, block indexing, slicing and expand are mutual inverses where
  defined, and stepping over an edge gives InvalidCursorError (the public layer: InvalidCursor),
  never another node.

  All theorems are for arbitrary trees / patterns / positions (induction, no bounds).
-/
import ExoModel.Lemmas.PatternFind
import ExoModel.Lemmas.PatternPos
import ExoModel.Lemmas.PatternStr
import ExoModel.Lemmas.Nav

namespace Exo.C16
open Exo.Pattern Exo.Nav

/-! ## Part 1: find -/

/-- the expression positions of a procedure: pre-order along `_children` -/
def exprPositions (body : List Stmt) : List (Path × Any) := preorder [] (treeProc body)

/-- the statement-block positions of a procedure, in program order -/
def stmtPositions (body : List Stmt) : List BlockPos := posInBlock [] "body" 0 body

def BlockRes.toCursor (r : BlockRes) : Cursor := .block r.anchor r.attr r.lo r.hi

/-- **find_all on an expression pattern** = the pre-order positions filtered by the node-level
    matcher (complete, in order). -/
theorem findAll_expr (body : List Stmt) (pe : PExpr) (h : pe ≠ .hole) :
    findRaw body (.expr pe) none
      = .ok ((((exprPositions body).filter (fun x => matchAny pe x.2)).map (·.1)).map Cursor.node) := by
  cases pe <;> first
    | exact absurd rfl h
    | simp only [findRaw, findT_results_none, matchesT, exprPositions, pure, Except.pure]

example : findRaw [.assign "x" [.read "i" []] (.binop "+" (.read "x" [.read "i" []]) (.const ⟨1, 1⟩))]
    (.expr (.read "x" [.hole])) none
    = .ok [.node [("body", some 0), ("rhs", none), ("lhs", none)]] := by decide

/-- **find_all on a statement pattern** = the block positions (every suffix of every statement
    list, a block before the inside of its first statement, body before orelse) filtered by
    `match_stmts`. -/
theorem findAll_stmts (body : List Stmt) (ps : List PStmt) (h : ps.all PStmt.isHole = false) :
    findRaw body (.stmts ps) none
      = .ok (((stmtPositions body).filterMap (matchesAt ps)).map BlockRes.toCursor) := by
  simp only [findRaw, h, Bool.false_eq_true, ↓reduceIte, pure, Except.pure, findInBlock_results_none,
    stmtPositions]
  rfl

example : findRaw [.if_ (.const ⟨1, 1⟩) [.pass] [.pass, .pass], .pass] (.stmts [.pass]) none
    = .ok [.block [("body", some 0)] "body" 0 1, .block [("body", some 0)] "orelse" 0 1,
           .block [("body", some 0)] "orelse" 1 2, .block [] "body" 1 2] := by decide

/-- a bare hole (or only statement holes) is rejected before searching -/
theorem find_anything (body : List Stmt) (n : Option Nat) :
    findRaw body (.expr .hole) n = .error .anything
    ∧ ∀ ps, ps.all PStmt.isHole = true → findRaw body (.stmts ps) n = .error .anything := by
  refine ⟨rfl, ?_⟩
  intro ps h
  simp [findRaw, h, throw, throwThe, MonadExceptOf.throw]

example : findRaw [.pass] (.stmts [.hole, .hole]) none = .error .anything := by decide

/-- **`#n` selects the n-th match** of the all-matches search (and nothing if there are ≤ n). -/
theorem find_nth (body : List Stmt) (pat : Pat) (n : Nat) (l : List Cursor)
    (h : findRaw body pat none = .ok l) :
    findRaw body pat (some n) = .ok (l[n]?).toList := by
  cases pat with
  | expr pe =>
    cases pe <;> first
      | (simp [findRaw, throw, throwThe, MonadExceptOf.throw] at h; done)
      | (simp only [findRaw, findT_results_none, findT_results_some, pure, Except.pure,
           Except.ok.injEq] at h ⊢
         subst h
         exact map_getElem?_toList _ _ _)
  | stmts ps =>
    cases hh : ps.all PStmt.isHole with
    | true => simp [findRaw, hh, throw, throwThe, MonadExceptOf.throw] at h
    | false =>
      simp only [findRaw, hh, Bool.false_eq_true, ↓reduceIte, pure, Except.pure,
        findInBlock_results_none, findInBlock_results_some, Except.ok.injEq] at h ⊢
      subst h
      exact map_getElem?_toList _ _ _

example : findRaw [.if_ (.const ⟨1, 1⟩) [.pass] [.pass, .pass], .pass] (.stmts [.pass]) (some 2)
    = .ok [.block [("body", some 0)] "orelse" 1 2] := by decide
example : findRaw [.if_ (.const ⟨1, 1⟩) [.pass] [.pass, .pass], .pass] (.stmts [.pass]) (some 4)
    = .ok [] := by decide

/-- **the public `find` with `#n`**: the n-th match (a length-1 block lifted to its statement), and
    `SchedulingError` exactly when `n ≥` the number of matches — for `find` and `find_all` alike. -/
theorem apiFind_hash (body : List Stmt) (pat : Pat) (n : Nat) (many : Bool) (l : List Cursor)
    (h : findRaw body pat none = .ok l) :
    apiFind body pat (some n) many
      = (match l[n]? with
         | some c => .ok [liftRes c]
         | none => .error .noMatch) := by
  unfold apiFind
  simp only [find_nth body pat n l h, bind, Except.bind]
  cases l[n]? with
  | none => rfl
  | some c => cases many <;> rfl

/-- … so the error case is exactly `n ≥ count` -/
theorem apiFind_hash_error_iff (body : List Stmt) (pat : Pat) (n : Nat) (many : Bool) (l : List Cursor)
    (h : findRaw body pat none = .ok l) :
    apiFind body pat (some n) many = .error .noMatch ↔ l.length ≤ n := by
  rw [apiFind_hash body pat n many l h]
  cases hn : l[n]? with
  | none => simpa using hn
  | some c =>
    have := (List.getElem?_eq_some_iff.mp hn).1
    simp only [reduceCtorEq, false_iff]; omega

example : apiFind [.pass, .pass] (.stmts [.pass]) (some 1) false = .ok [.node [("body", some 1)]] := by decide
example : apiFind [.pass, .pass] (.stmts [.pass]) (some 2) false = .error .noMatch := by decide

/-- `find_all(pattern)` / `find(pattern, many=True)`: all matches, error iff none -/
theorem apiFind_all (body : List Stmt) (pat : Pat) (l : List Cursor)
    (h : findRaw body pat none = .ok l) :
    apiFind body pat none true = if l.isEmpty then .error .noMatch else .ok (l.map liftRes) := by
  unfold apiFind
  simp only [↓reduceIte, h, bind, Except.bind]
  cases l <;> rfl

example : apiFind [.pass, .reduce "x" [] (.const ⟨1, 1⟩), .pass] (.stmts [.pass]) none true
    = .ok [.node [("body", some 0)], .node [("body", some 2)]]
    ∧ apiFind [.pass] (.stmts [.reduce "_" [] .hole]) none true = .error .noMatch := by decide

/-- `find(pattern)`: the first match, error iff none -/
theorem apiFind_first (body : List Stmt) (pat : Pat) (l : List Cursor)
    (h : findRaw body pat none = .ok l) :
    apiFind body pat none false
      = (match l.head? with
         | some c => .ok [liftRes c]
         | none => .error .noMatch) := by
  unfold apiFind
  simp only [Bool.false_eq_true, ↓reduceIte, find_nth body pat 0 l h, bind, Except.bind]
  cases l <;> rfl

example : apiFind [.pass, .alloc "x" none] (.stmts [.alloc "_" []]) none false
    = .ok [.node [("body", some 1)]] := by decide

/-- **no duplicates (statements)**: block positions are pairwise distinct as (anchor, attr, offset),
    hence so are the results -/
theorem stmtPositions_nodup (body : List Stmt) :
    (stmtPositions body).Pairwise (fun p q => p.key ≠ q.key) :=
  posInBlock_nodup body [] "body" 0

theorem findAll_stmts_nodup (body : List Stmt) (ps : List PStmt) :
    ((stmtPositions body).filterMap (matchesAt ps)).Pairwise
      (fun r s => (r.anchor, r.attr, r.lo) ≠ (s.anchor, s.attr, s.lo)) := by
  rw [List.pairwise_filterMap]
  refine (stmtPositions_nodup body).imp ?_
  intro p q hpq r hr s hs e
  simp only [matchesAt, tryMatch] at hr hs
  split at hr <;> try (simp at hr; done)
  split at hs <;> try (simp at hs; done)
  split at hr <;> try (simp at hr; done)
  split at hs <;> try (simp at hs; done)
  simp only [Option.some.injEq] at hr hs
  subst hr; subst hs
  simp only [Prod.mk.injEq] at e
  apply hpq
  simp [BlockPos.key, e.1, e.2.1, e.2.2]

example : (stmtPositions [.if_ (.const ⟨1, 1⟩) [.pass] [.pass], .pass]).length = 4 := by decide

/-- **no duplicates (expressions)**: the pre-order paths of a procedure are pairwise distinct -/
theorem exprPositions_nodup (body : List Stmt) :
    (exprPositions body).Pairwise (fun x y => x.1 ≠ y.1) :=
  preorder_nodup (treeProc body) [] (treeProc_distinct body)

example : (exprPositions [.assign "x" [.const ⟨0, 1⟩] (.usub (.read "y" []))]).map (·.1)
    = [[], [("body", some 0)], [("body", some 0), ("idx", some 0)], [("body", some 0), ("rhs", none)],
       [("body", some 0), ("rhs", none), ("arg", none)]] := by decide

/-! ### shorthands -/

/-- the loop shorthand pattern matches exactly the loops with that iterator name (a loop body is
    never empty in LoopIR; an empty one would not match `_`) -/
theorem forPat_matches (name : String) (s : Stmt) :
    matchStmt (.for_ name .hole .hole [.hole]) s
      = (match s with
         | .for_ it _ _ body => matchName name it && !body.isEmpty
         | _ => false) := by
  cases s <;> simp [matchStmt, matchE]
  rename_i it lo hi body
  cases body <;> simp [matchStmtsLoop]

theorem matchesAt_forPat (name : String) (p : BlockPos) :
    matchesAt (forPat name) p
      = (match p.suffix with
         | s :: _ => if matchStmt (.for_ name .hole .hole [.hole]) s
                     then some ⟨p.anchor, p.attr, p.off, p.off + 1⟩ else none
         | [] => none) := by
  have e : ∀ (rest : List Stmt) (j : Nat), matchStmtsLoop [] rest j = some j := by
    intro rest j; cases rest <;> simp [matchStmtsLoop]
  unfold matchesAt tryMatch matchStmts forPat
  cases p.suffix with
  | nil => simp [matchStmtsLoop]
  | cons s rest =>
    simp only [matchStmtsLoop, e]
    by_cases hm : matchStmt (.for_ name .hole .hole [.hole]) s = true <;> simp [hm]

theorem allocPat_matches (name : String) (s : Stmt) :
    matchStmt (.alloc name []) s
      = (match s with
         | .alloc n _ => matchName name n
         | _ => false) := by
  cases s <;> simp [matchStmt]
  rename_i n h
  cases h <;> simp [matchEs]

example : matchStmt (.alloc "t" []) (.alloc "t" (some [.read "n" []])) = true
    ∧ matchStmt (.alloc "t" []) (.alloc "u" none) = false
    ∧ matchStmt (.for_ "i" .hole .hole [.hole]) (.for_ "i" (.const ⟨0, 1⟩) (.read "n" []) []) = false := by decide

example : apiFind [.for_ "i" (.const ⟨0, 1⟩) (.read "n" []) [.pass],
                   .for_ "j" (.const ⟨0, 1⟩) (.read "n" []) [.for_ "i" (.const ⟨0, 1⟩) (.read "n" []) [.pass]]]
    (.stmts (forPat "i")) (some 1) false = .ok [.node [("body", some 1), ("body", some 0)]] := by decide

/-- **`find_loop("name #n")`** rewrites the string to `for name in _: _#n`, from which
    `match_pattern` recovers pattern text `for name in _: _` and match number `n` -/
theorem find_loop_shorthand (name sp ds : List Char) (h : IsIdent name)
    (hsp : ∀ c ∈ sp, isSpaceC c = true) (hds : ds ≠ []) (hd : ∀ c ∈ ds, isDigitC c = true) :
    splitMatchNo (expandLoop (name ++ (sp ++ '#' :: ds)))
      = ("for ".toList ++ name ++ " in _: _".toList, some (digitsToNat ds)) := by
  have := expandLoop_hash name sp [] ds h hsp (by simp) hds hd
  simp only [List.nil_append] at this
  rw [this]
  have h2 := splitMatchNo_hash ("for ".toList ++ name ++ " in _: _".toList) ds []
    (by simp) (forText_no_hash name h) hds hd (by simp)
  simpa using h2

example : splitMatchNo (expandLoop "ii #12".toList) = ("for ii in _: _".toList, some 12) := by decide

/-- the plain `name` form: `for name in _: _`, no match number -/
theorem find_loop_shorthand_plain (name : List Char) (h : IsIdent name) :
    splitMatchNo (expandLoop name) = ("for ".toList ++ name ++ " in _: _".toList, none) := by
  simp only [expandLoop, nameCount_name name h, List.append_nil]
  exact splitMatchNo_none _ (forText_no_hash name h)

example : splitMatchNo (expandLoop "jo".toList) = ("for jo in _: _".toList, none) := by decide

/-- **`find_alloc_or_arg("name #n")`** (no argument of that name): `name: _` and `n` -/
theorem find_alloc_shorthand (name sp ds : List Char) (h : IsIdent name)
    (hsp : ∀ c ∈ sp, isSpaceC c = true) (hds : ds ≠ []) (hd : ∀ c ∈ ds, isDigitC c = true) :
    splitMatchNo (expandAlloc (name ++ (sp ++ '#' :: ds)))
      = (name ++ ": _".toList, some (digitsToNat ds)) := by
  have := expandAlloc_hash name sp [] ds h hsp (by simp) hds hd
  simp only [List.nil_append] at this
  rw [this]
  have h2 := splitMatchNo_hash (name ++ ": _".toList) ds []
    (by obtain ⟨c, tl, rfl, _⟩ := h; simp) (allocText_no_hash name h) hds hd (by simp)
  simpa using h2

example : splitMatchNo (expandAlloc "tmp #3".toList) = ("tmp: _".toList, some 3) := by decide

/-- the documented form is `#n` *without* blanks after `#`.  The shorthand regex also accepts
    `name # n`; the expansion keeps the blank and `match_pattern` then recognises **no** match
    number (the tail becomes a Python comment): the model reproduces this — see docs/C16.md,
    finding `hash-space`. -/
theorem find_loop_shorthand_blank_after_hash_partial (name sp sp2 ds : List Char) (h : IsIdent name)
    (hsp : ∀ c ∈ sp, isSpaceC c = true) (hsp2 : ∀ c ∈ sp2, isSpaceC c = true) (hne : sp2 ≠ [])
    (hds : ds ≠ []) (hd : ∀ c ∈ ds, isDigitC c = true) :
    (splitMatchNo (expandLoop (name ++ (sp ++ '#' :: (sp2 ++ ds))))).2 = none := by
  rw [expandLoop_hash name sp sp2 ds h hsp hsp2 hds hd]
  obtain ⟨c, r, rfl⟩ : ∃ c r, sp2 = c :: r := by
    cases sp2 with
    | nil => exact absurd rfl hne
    | cons c r => exact ⟨c, r, rfl⟩
  have := splitMatchNo_space_after_hash ("for ".toList ++ name ++ " in _: _".toList) (r ++ ds) c
    (hsp2 c (by simp)) (forText_no_hash name h)
  simp only [List.cons_append] at this ⊢
  rw [this]

example : splitMatchNo (expandLoop "i # 2".toList) = ("for i in _: _# 2".toList, none) := by decide

/-! ### the node-level matcher's literal quirks, pinned down (all checked against the real code by
    the harness; see docs/C16.md) -/

-- zip truncation: `x` and `x[_]` match `x[i, j]`; `x[_, _, _]` too
example : matchE (.read "x" []) (.read "x" [.read "i" [], .read "j" []]) = true
    ∧ matchE (.read "x" [.hole]) (.read "x" [.read "i" [], .read "j" []]) = true
    ∧ matchE (.read "x" [.hole, .hole, .hole]) (.read "x" [.read "i" []]) = true
    ∧ matchE (.read "x" [.read "j" []]) (.read "x" [.read "i" [], .read "j" []]) = false := by decide
-- a window expression is matched by `name[_]` only; a window statement by `name = …` without indices
example : matchE (.read "y" [.hole]) (.windowExpr "y" [.point (.read "i" []), .interval (.const ⟨0, 1⟩) (.read "n" [])]) = true
    ∧ matchE (.read "y" []) (.windowExpr "y" [.point (.read "i" [])]) = false
    ∧ matchE (.read "y" [.hole, .hole]) (.windowExpr "y" [.point (.read "i" []), .point (.read "i" [])]) = false
    ∧ matchStmt (.assign "w" [] .hole) (.windowStmt "w" (.windowExpr "y" [])) = true
    ∧ matchStmt (.assign "w" [.hole] .hole) (.windowStmt "w" (.windowExpr "y" [])) = false := by decide
-- `stride(y, 0)` behaves like `stride(y, _)`; `-3` (USub(Const 3)) matches the literal -3
example : matchE (.strideExpr "y" (some 0)) (.strideExpr "y" 1) = true
    ∧ matchE (.strideExpr "y" (some 1)) (.strideExpr "y" 0) = false
    ∧ matchE (.usub (.const ⟨3, 1⟩)) (.const ⟨-3, 1⟩) = true
    ∧ matchE (.usub (.const ⟨3, 1⟩)) (.usub (.const ⟨3, 1⟩)) = true := by decide
-- WriteConfig: the hole test is applied to the *statement's* names, so `_` in the pattern does not match
example : matchStmt (.writeConfig "Cfg" "a") (.writeConfig "Cfg" "a" (.const ⟨1, 1⟩)) = true
    ∧ matchStmt (.writeConfig "_" "a") (.writeConfig "Cfg" "a" (.const ⟨1, 1⟩)) = false := by decide
-- statement holes: `_` + look-ahead matches zero or more statements; a trailing `_` needs at least
-- one statement and then takes the rest of the block; a body pattern matches a prefix of the body;
-- no `else:` in the pattern matches any orelse
example : matchStmts [.hole, .pass] [.pass] = some 1
    ∧ matchStmts [.hole, .pass] [.alloc "t" none, .alloc "u" none, .pass, .pass] = some 3
    ∧ matchStmts [.pass, .hole] [.pass] = none
    ∧ matchStmts [.pass, .hole] [.pass, .alloc "t" none, .pass] = some 3
    ∧ matchStmt (.for_ "i" .hole .hole [.pass]) (.for_ "i" (.const ⟨0, 1⟩) (.const ⟨4, 1⟩) [.pass, .alloc "t" none]) = true
    ∧ matchStmt (.if_ .hole [.hole] []) (.if_ (.const ⟨1, 1⟩) [.pass] [.pass]) = true
    ∧ matchStmt (.if_ .hole [.hole] [.hole]) (.if_ (.const ⟨1, 1⟩) [.pass] []) = false := by decide
-- Alloc shapes are not expression positions (`_children` lists none): `n` is found in the loop
-- bound but not in `t: f32[n]`
example : findRaw [.alloc "t" (some [.read "n" []]), .for_ "i" (.const ⟨0, 1⟩) (.read "n" []) [.pass]]
    (.expr (.read "n" [])) none = .ok [.node [("body", some 1), ("hi", none)]] := by decide

/-! ## Part 2: navigation -/

/-- **parent ∘ child = id** (indexed and non-indexed `_child_node`) -/
theorem parent_child (t : NTree) (p q : Path) (attr : String) (i : Option Int)
    (h : childNode t p attr i = .ok q) : parent q = .ok p := by
  cases i with
  | some i => obtain ⟨_, _, _, _, _, _, rfl⟩ := childNode_some_ok h; exact parent_snoc _ _
  | none => obtain ⟨_, _, _, _, _, rfl⟩ := childNode_none_ok h; exact parent_snoc _ _

/-- a child cursor is valid and points to the i-th element of the attribute -/
theorem child_resolves (t : NTree) (p q : Path) (attr : String) (i : Int)
    (h : childNode t p attr (some i) = .ok q) :
    ∃ n cs, resolve t p = some n ∧ n.getField attr = some (true, cs) ∧ resolve t q = cs[i.toNat]?
      ∧ i.toNat < cs.length :=
  childNode_some_resolve h

theorem child_valid (t : NTree) (p q : Path) (attr : String) (i : Option Int)
    (h : childNode t p attr i = .ok q) : Valid t q := by
  cases i with
  | some i =>
    obtain ⟨n, cs, _, _, hr, hl⟩ := childNode_some_resolve h
    unfold Valid; rw [hr]; simp [hl]
  | none => exact childNode_none_resolve h

def exT : NTree :=
  .mk "proc" [("body", true, [.mk "For" [("lo", false, [.mk "Const" []]), ("hi", false, [.mk "Read" [("idx", true, [])]]),
                                         ("body", true, [.mk "Pass" [], .mk "Pass" [], .mk "Pass" []])],
                              .mk "Pass" []])]

example : childNode exT [("body", some 0)] "body" (some 2) = .ok [("body", some 0), ("body", some 2)]
    ∧ parent [("body", some 0), ("body", some 2)] = .ok [("body", some 0)] := by decide

/-- **`next`/`prev` are exact**: on a valid cursor in a list, `next(d)` is the sibling `d` further if
    it exists and InvalidCursorError otherwise — never another node -/
theorem next_exact (t : NTree) (pp : Path) (attr : String) (i : Nat) (d : Int)
    (hv : Valid t (pp ++ [(attr, some i)])) :
    ∃ n cs, resolve t pp = some n ∧ n.getField attr = some (true, cs) ∧ i < cs.length ∧
      next t (pp ++ [(attr, some i)]) d
        = if 0 ≤ (i : Int) + d ∧ (i : Int) + d < cs.length
          then .ok (pp ++ [(attr, some ((i : Int) + d).toNat)]) else .error .invalidCursor := by
  obtain ⟨n, cs, hn, hf, hi⟩ := valid_snoc_some hv
  exact ⟨n, cs, hn, hf, hi, next_eq hn hf d⟩

/-- **next ∘ prev = id and prev ∘ next = id** (any distance) wherever the first step is defined -/
theorem next_inverse (t : NTree) (p q : Path) (d : Int) (hv : Valid t p) (h : next t p d = .ok q) :
    next t q (-d) = .ok p := by
  -- p ends in a list step
  have hp : ∃ attr i, p.getLast? = some (attr, some i) := by
    unfold next at h
    split at h
    · cases h
    · cases h
    · rename_i attr i hl; exact ⟨attr, i, hl⟩
  obtain ⟨attr, i, hl⟩ := hp
  have hpe := getLast?_snoc_dropLast p _ hl
  rw [hpe] at hv h ⊢
  obtain ⟨n, cs, hn, hf, hi, he⟩ := next_exact t p.dropLast attr i d hv
  rw [he] at h
  split at h
  · rename_i hc
    cases h
    rw [next_eq hn hf]
    have e1 : (((i : Int) + d).toNat : Int) + -d = i := by omega
    rw [e1]
    have : 0 ≤ (i : Int) ∧ (i : Int) < cs.length := by omega
    simp only [this, and_self, ↓reduceIte, Int.toNat_natCast]
  · cases h

theorem next_prev (t : NTree) (p q : Path) (hv : Valid t p) (h : prev t p 1 = .ok q) :
    next t q 1 = .ok p := by
  have := next_inverse t p q (-1) hv h
  simpa using this

theorem prev_next (t : NTree) (p q : Path) (hv : Valid t p) (h : next t p 1 = .ok q) :
    prev t q 1 = .ok p :=
  next_inverse t p q 1 hv h

example : prev exT [("body", some 0), ("body", some 2)] 1 = .ok [("body", some 0), ("body", some 1)]
    ∧ next exT [("body", some 0), ("body", some 1)] 1 = .ok [("body", some 0), ("body", some 2)]
    ∧ next exT [("body", some 0), ("body", some 0)] 2 = .ok [("body", some 0), ("body", some 2)]
    ∧ next exT [("body", some 0), ("body", some 2)] (-2) = .ok [("body", some 0), ("body", some 0)] := by decide

/-- at the last statement `next()` is the invalid cursor; at the first, `prev()` -/
theorem next_at_end (t : NTree) (pp : Path) (attr : String) (i : Nat) (n : NTree) (cs : List NTree)
    (hn : resolve t pp = some n) (hf : n.getField attr = some (true, cs)) (hlast : i + 1 = cs.length) :
    next t (pp ++ [(attr, some i)]) 1 = .error .invalidCursor
    ∧ pubNext t (pp ++ [(attr, some i)]) 1 = .ok .invalid := by
  have : next t (pp ++ [(attr, some i)]) 1 = .error .invalidCursor := by
    rw [next_eq hn hf]
    have : ¬ (0 ≤ (i : Int) + 1 ∧ (i : Int) + 1 < cs.length) := by omega
    simp only [this, ↓reduceIte]
  exact ⟨this, by simp [pubNext, this, pure, Except.pure]⟩

theorem prev_at_start (t : NTree) (pp : Path) (attr : String) (n : NTree) (cs : List NTree)
    (hn : resolve t pp = some n) (hf : n.getField attr = some (true, cs)) :
    prev t (pp ++ [(attr, some 0)]) 1 = .error .invalidCursor
    ∧ pubPrev t (pp ++ [(attr, some 0)]) 1 = .ok .invalid := by
  have : prev t (pp ++ [(attr, some 0)]) 1 = .error .invalidCursor := by
    unfold prev
    rw [next_eq hn hf]
    simp
  exact ⟨this, by simp [pubPrev, this, pure, Except.pure]⟩

example : next exT [("body", some 0), ("body", some 1)] 1 = .ok [("body", some 0), ("body", some 2)]
    ∧ next exT [("body", some 0), ("body", some 2)] 1 = .error .invalidCursor
    ∧ prev exT [("body", some 0), ("body", some 0)] 1 = .error .invalidCursor
    ∧ pubNext exT [("body", some 1)] 1 = .ok .invalid := by decide

/-- the root has no parent; the public layer answers InvalidCursor for children of the proc -/
theorem parent_root : parent [] = .error .invalidCursor := rfl

/-- **before / after / anchor**: a gap remembers its statement, lives in the statement's parent, and
    the gap after the previous statement is the gap before this one (same insertion index) -/
theorem gap_anchor (p : Path) :
    gapAnchor (before p) = .ok p ∧ gapAnchor (after p) = .ok p
    ∧ cursorParent (before p) = parent p ∧ cursorParent (after p) = parent p := ⟨rfl, rfl, rfl, rfl⟩

theorem gap_between (t : NTree) (p q : Path) (hv : Valid t p) (h : prev t p 1 = .ok q) :
    insertionIndex q .after = insertionIndex p .before := by
  have hp : ∃ attr i, p.getLast? = some (attr, some i) := by
    unfold prev next at h
    split at h
    · cases h
    · cases h
    · rename_i attr i hl; exact ⟨attr, i, hl⟩
  obtain ⟨attr, i, hl⟩ := hp
  have hpe := getLast?_snoc_dropLast p _ hl
  rw [hpe] at hv h ⊢
  obtain ⟨n, cs, hn, hf, hi, he⟩ := next_exact t p.dropLast attr i (-1) hv
  unfold prev at h
  rw [he] at h
  split at h
  · cases h
    simp only [insertionIndex, List.getLast?_append, List.getLast?_singleton, Option.some_or]
    congr 1
    omega
  · cases h

example : insertionIndex [("body", some 0), ("body", some 1)] .after = .ok 2
    ∧ insertionIndex [("body", some 0), ("body", some 2)] .before = .ok 2 := by decide

/-- **as_block**: the one-statement block of a statement: length 1, its only element is the
    statement, same parent -/
theorem asBlock_spec (t : NTree) (pp : Path) (attr : String) (i : Nat)
    (hv : Valid t (pp ++ [(attr, some i)])) :
    asBlock (pp ++ [(attr, some i)]) = .ok (.block pp attr i (i + 1))
    ∧ rangeLen i ((i : Int) + 1) = 1
    ∧ blockGet t pp attr i (i + 1) 0 = .ok (pp ++ [(attr, some i)])
    ∧ blockGet t pp attr i (i + 1) (-1) = .ok (pp ++ [(attr, some i)])
    ∧ cursorParent (.block pp attr i (i + 1)) = parent (pp ++ [(attr, some i)]) := by
  obtain ⟨n, cs, hn, hf, hi⟩ := valid_snoc_some hv
  refine ⟨?_, ?_, ?_, ?_, ?_⟩
  · simp [asBlock, pure, Except.pure]
  · unfold rangeLen; split <;> omega
  · rw [blockGet_eq hn hf (by omega) (by omega) (by omega)]
    have c : (-((i : Int) + 1 - i) ≤ (0 : Int) ∧ (0 : Int) < (i : Int) + 1 - i) := by omega
    simp only [c, and_self, ↓reduceIte, Int.lt_irrefl, Int.add_zero, Int.toNat_natCast]
  · rw [blockGet_eq hn hf (by omega) (by omega) (by omega)]
    have c : (-((i : Int) + 1 - i) ≤ (-1 : Int) ∧ (-1 : Int) < (i : Int) + 1 - i) := by omega
    have c2 : ((-1 : Int) < 0) := by omega
    have e : ((i : Int) + (-1 + ((i : Int) + 1 - i))).toNat = i := by omega
    simp only [c, c2, and_self, ↓reduceIte, e]
  · simp [cursorParent, parent_snoc, pure, Except.pure]

example : asBlock [("body", some 0), ("body", some 1)] = .ok (.block [("body", some 0)] "body" 1 2)
    ∧ asBlock [("body", some 0), ("lo", none)] = .error .invalidCursor := by decide

/-- **block indexing** is exact: `b[i]` for `-len ≤ i < len` is the statement at `lo + i` (resp.
    `hi + i`), anything else is IndexError -/
theorem block_index (t : NTree) (a : Path) (attr : String) (lo hi : Int) (hb : BlockValid t a attr lo hi)
    (i : Int) :
    blockGet t a attr lo hi i
      = if -(hi - lo) ≤ i ∧ i < hi - lo
        then .ok (a ++ [(attr, some (lo + (if i < 0 then i + (hi - lo) else i)).toNat)])
        else .error .index := by
  obtain ⟨n, cs, hn, hf, h0, h1, h2⟩ := hb
  exact blockGet_eq hn hf h0 h1 h2 i

/-- the body block of a node spans all its statements, and indexing it is `_child_node` -/
theorem childBlock_index (t : NTree) (p : Path) (attr : String) (n : NTree) (cs : List NTree)
    (hn : resolve t p = some n) (hf : n.getField attr = some (true, cs)) (i : Nat) (hi : i < cs.length) :
    childBlock t p attr = .ok (.block p attr 0 cs.length)
    ∧ BlockValid t p attr 0 cs.length
    ∧ blockGet t p attr 0 cs.length i = childNode t p attr (some i) := by
  refine ⟨by simp [childBlock, hn, hf, pure, Except.pure], ⟨n, cs, hn, hf, by omega, by omega, by omega⟩, ?_⟩
  rw [blockGet_eq hn hf (by omega) (by omega) (by omega), childNode_some_eq hn hf]
  have h1 : (-((cs.length : Int) - 0) ≤ (i : Int) ∧ (i : Int) < (cs.length : Int) - 0) := by omega
  have h2 : (0 ≤ (i : Int) ∧ (i : Int) < cs.length) := by omega
  have h3 : ¬ ((i : Int) < 0) := by omega
  simp only [h1, h2, h3, and_self, ↓reduceIte, Int.zero_add]

example : blockGet exT [("body", some 0)] "body" 0 3 (-1) = .ok [("body", some 0), ("body", some 2)]
    ∧ blockGet exT [("body", some 0)] "body" 1 3 0 = .ok [("body", some 0), ("body", some 1)]
    ∧ blockGet exT [("body", some 0)] "body" 1 3 2 = .error .index
    ∧ blockGet exT [("body", some 0)] "body" 1 3 (-3) = .error .index
    ∧ childBlock exT [("body", some 0)] "body" = .ok (.block [("body", some 0)] "body" 0 3) := by decide

/-- **slicing**: `b[:]` is `b`; a slice stays inside `b`; `b[x:y][k] = b[x+k]`;
    a statement's `as_block` is the slice `b[i:i+1]` -/
theorem slice_full (a : Path) (attr : String) (lo hi : Int) (h : lo ≤ hi) :
    blockSlice a attr lo hi none none none = .ok (.block a attr lo hi) := by
  simp only [blockSlice, sliceStart, sliceStop, rangeLen_of_le h, pure, Except.pure]
  congr 2 <;> omega

theorem slice_inside (a : Path) (attr : String) (lo hi : Int) (h : lo ≤ hi) (x y : Option Int) :
    ∃ lo' hi', blockSlice a attr lo hi x y none = .ok (.block a attr lo' hi')
      ∧ lo ≤ lo' ∧ lo' ≤ hi ∧ lo ≤ hi' ∧ hi' ≤ hi := by
  have b1 := sliceStart_bounds (rangeLen lo hi) (by rw [rangeLen_of_le h]; omega) x
  have b2 := sliceStop_bounds (rangeLen lo hi) (by rw [rangeLen_of_le h]; omega) y
  rw [rangeLen_of_le h] at b1 b2
  refine ⟨_, _, rfl, ?_, ?_, ?_, ?_⟩ <;> rw [rangeLen_of_le h] <;> omega

theorem slice_index (t : NTree) (a : Path) (attr : String) (lo hi : Int) (hb : BlockValid t a attr lo hi)
    (x y k : Int) (hx : 0 ≤ x) (hxy : x ≤ y) (hy : y ≤ hi - lo) (hk0 : 0 ≤ k) (hk : k < y - x) :
    blockSlice a attr lo hi (some x) (some y) none = .ok (.block a attr (lo + x) (lo + y))
    ∧ BlockValid t a attr (lo + x) (lo + y)
    ∧ blockGet t a attr (lo + x) (lo + y) k = blockGet t a attr lo hi (x + k) := by
  obtain ⟨n, cs, hn, hf, h0, h1, h2⟩ := hb
  refine ⟨?_, ⟨n, cs, hn, hf, by omega, by omega, by omega⟩, ?_⟩
  · simp only [blockSlice, rangeLen_of_le h1, pure, Except.pure]
    rw [sliceStart_in _ _ hx (by omega), sliceStop_in _ _ (by omega) hy]
  · rw [blockGet_eq hn hf (by omega) (by omega) (by omega), blockGet_eq hn hf h0 h1 h2]
    have c1 : (-(lo + y - (lo + x)) ≤ k ∧ k < lo + y - (lo + x)) := by omega
    have c2 : (-(hi - lo) ≤ x + k ∧ x + k < hi - lo) := by omega
    have c3 : ¬ (k < 0) := by omega
    have c4 : ¬ (x + k < 0) := by omega
    simp only [c1, c2, c3, c4, and_self, ↓reduceIte]
    have e : lo + x + k = lo + (x + k) := by omega
    rw [e]

theorem slice_single (t : NTree) (a : Path) (attr : String) (lo hi : Int) (hb : BlockValid t a attr lo hi)
    (i : Int) (hi0 : 0 ≤ i) (hi1 : i < hi - lo) :
    ∃ p, blockGet t a attr lo hi i = .ok p
      ∧ asBlock p = blockSlice a attr lo hi (some i) (some (i + 1)) none := by
  obtain ⟨n, cs, hn, hf, h0, h1, h2⟩ := hb
  have c3 : ¬ (i < 0) := by omega
  refine ⟨a ++ [(attr, some (lo + i).toNat)], ?_, ?_⟩
  · rw [blockGet_eq hn hf h0 h1 h2]
    have c : (-(hi - lo) ≤ i ∧ i < hi - lo) := by omega
    simp only [c, c3, and_self, ↓reduceIte]
  · simp only [asBlock, List.getLast?_append, List.getLast?_singleton, Option.some_or,
      List.dropLast_concat, blockSlice, rangeLen_of_le h1, pure, Except.pure]
    rw [sliceStart_in _ _ hi0 (by omega), sliceStop_in _ _ (by omega) (by omega)]
    congr 2 <;> omega

example : blockSlice [] "body" 1 5 (some (-2)) none none = .ok (.block [] "body" 3 5)
    ∧ blockSlice [] "body" 1 5 (some 3) (some 1) none = .ok (.block [] "body" 4 2)
    ∧ blockSlice [] "body" 1 5 none none (some 2) = .error .index := by decide

/-- **expand**: by (0,0) nothing changes; by (None,None) it is the whole statement list; expanding a
    slice `b[x:y]` by `(x, len-y)` gives `b` back; the result always contains `b` and stays inside
    the list (clamping at the edges instead of leaving the block) -/
theorem expand_zero (t : NTree) (a : Path) (attr : String) (lo hi : Int) (hb : BlockValid t a attr lo hi) :
    expand t a attr lo hi (some 0) (some 0) = .ok (.block a attr lo hi) := by
  obtain ⟨n, cs, hn, hf, h0, h1, h2⟩ := hb
  simp only [expand, childBlock, hn, hf, ↓reduceIte, bind, Except.bind, pure, Except.pure, blockLen,
    Option.getD_some]
  have : rangeLen 0 (cs.length : Int) = cs.length := by rw [rangeLen_of_le (by omega)]; omega
  rw [this]
  congr 2 <;> omega

theorem expand_full (t : NTree) (a : Path) (attr : String) (lo hi : Int) (hb : BlockValid t a attr lo hi) :
    expand t a attr lo hi none none = childBlock t a attr := by
  obtain ⟨n, cs, hn, hf, h0, h1, h2⟩ := hb
  simp only [expand, childBlock, hn, hf, ↓reduceIte, bind, Except.bind, pure, Except.pure, blockLen,
    Option.getD_none]
  have : rangeLen 0 (cs.length : Int) = cs.length := by rw [rangeLen_of_le (by omega)]; omega
  rw [this]
  congr 2 <;> omega

theorem expand_slice (t : NTree) (a : Path) (attr : String) (lo hi : Int) (hb : BlockValid t a attr lo hi)
    (x y : Int) :
    expand t a attr (lo + x) (lo + y) (some x) (some (hi - lo - y)) = .ok (.block a attr lo hi) := by
  obtain ⟨n, cs, hn, hf, h0, h1, h2⟩ := hb
  simp only [expand, childBlock, hn, hf, ↓reduceIte, bind, Except.bind, pure, Except.pure, blockLen,
    Option.getD_some]
  have : rangeLen 0 (cs.length : Int) = cs.length := by rw [rangeLen_of_le (by omega)]; omega
  rw [this]
  congr 2 <;> omega

theorem expand_contains (t : NTree) (a : Path) (attr : String) (lo hi : Int) (n : NTree) (cs : List NTree)
    (hn : resolve t a = some n) (hf : n.getField attr = some (true, cs))
    (h0 : 0 ≤ lo) (h2 : hi ≤ cs.length)
    (dlo dhi : Int) (hdl : 0 ≤ dlo) (hdh : 0 ≤ dhi) :
    ∃ lo' hi', expand t a attr lo hi (some dlo) (some dhi) = .ok (.block a attr lo' hi')
      ∧ 0 ≤ lo' ∧ lo' ≤ lo ∧ hi ≤ hi' ∧ hi' ≤ cs.length
      ∧ lo' = max 0 (lo - dlo) ∧ hi' = min (cs.length : Int) (hi + dhi) := by
  have : rangeLen 0 (cs.length : Int) = cs.length := by rw [rangeLen_of_le (by omega)]; omega
  refine ⟨max 0 (lo - dlo), min (cs.length : Int) (hi + dhi), ?_, by omega, by omega, by omega, by omega, rfl, rfl⟩
  simp only [expand, childBlock, hn, hf, ↓reduceIte, bind, Except.bind, pure, Except.pure, blockLen,
    Option.getD_some, this]

example : expand exT [("body", some 0)] "body" 1 2 (some 5) (some 1) = .ok (.block [("body", some 0)] "body" 0 3)
    ∧ expand exT [("body", some 0)] "body" 1 2 none none = .ok (.block [("body", some 0)] "body" 0 3)
    ∧ pubExpand exT [("body", some 0)] "body" 1 2 (some (-1)) none = .error .value := by decide

/-- **public `parent()`**: of a child reached by `_child_node` it is the node itself (for ordinary
    nodes), skipping the `w_access` wrapper inside window expressions, and the InvalidCursor for
    top-level statements -/
theorem pubParent_child (t : NTree) (p q : Path) (attr : String) (i : Option Int) (n : NTree)
    (hn : resolve t p = some n) (hw : isWAccessTag n.tag = false) (hp : (n.tag == "proc") = false)
    (hl : isLiftableTag n.tag = true)
    (h : childNode t p attr i = .ok q) :
    pubParent t (.node q) = .ok (.cur (.node p)) := by
  have := parent_child t p q attr i h
  simp [pubParent, cursorParent, this, bind, Except.bind, hn, hw, hp, hl, lift, pure, Except.pure]

theorem pubParent_through_waccess (t : NTree) (p w q : Path) (k : Int) (attr : String) (n nw : NTree)
    (hn : resolve t p = some n) (hl : isLiftableTag n.tag = true)
    (h1 : childNode t p "idx" (some k) = .ok w) (hw : resolve t w = some nw) (hww : isWAccessTag nw.tag = true)
    (h2 : childNode t w attr none = .ok q) :
    pubParent t (.node q) = .ok (.cur (.node p)) := by
  have e1 := parent_child t w q attr none h2
  have e2 := parent_child t p w "idx" (some k) h1
  simp [pubParent, cursorParent, e1, e2, bind, Except.bind, hw, hww, lift, hn, hl, pure, Except.pure]

def exW : NTree :=
  .mk "proc" [("body", true, [.mk "WindowStmt" [("rhs", false, [.mk "WindowExpr" [("idx", true,
    [.mk "Interval" [("lo", false, [.mk "Const" []]), ("hi", false, [.mk "Read" [("idx", true, [])]])],
     .mk "Point" [("pt", false, [.mk "Read" [("idx", true, [])]])]])]])]])]

example : pubParent exW (.node [("body", some 0), ("rhs", none), ("idx", some 0), ("hi", none)])
      = .ok (.cur (.node [("body", some 0), ("rhs", none)]))
    ∧ pubParent exW (.node [("body", some 0), ("rhs", none), ("idx", some 1), ("pt", none)])
      = .ok (.cur (.node [("body", some 0), ("rhs", none)]))
    ∧ pubParent exW (.node [("body", some 0), ("rhs", none)]) = .ok (.cur (.node [("body", some 0)])) := by decide

theorem pubParent_toplevel (t : NTree) (q : Path) (attr : String) (i : Option Int) (n : NTree)
    (hn : resolve t [] = some n) (hp : (n.tag == "proc") = true)
    (h : childNode t [] attr i = .ok q) :
    pubParent t (.node q) = .ok .invalid := by
  have := parent_child t [] q attr i h
  have hw : isWAccessTag n.tag = false := by
    have : n.tag = "proc" := by simpa using hp
    rw [this]; decide
  simp [pubParent, cursorParent, this, bind, Except.bind, hn, hw, hp, pure, Except.pure]

example : pubParent exT (.node [("body", some 0), ("body", some 1)]) = .ok (.cur (.node [("body", some 0)]))
    ∧ pubParent exT (.node [("body", some 1)]) = .ok .invalid
    ∧ pubParent exT (.block [("body", some 0)] "body" 0 2) = .ok (.cur (.node [("body", some 0)])) := by decide

end Exo.C16
