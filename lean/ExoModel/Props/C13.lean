/-
  C13 — range analysis bounds contain every attainable value.

  For all index expressions, all environments of (possibly half-open or unknown) variable ranges
  and all integer valuations inside those ranges, the range reported by exo's analysis
  (model: ExoModel.Range, a literal transcription of src/exo/rewrite/range_analysis.py and
  src/exo/stdlib/range_analysis.py) contains the value of the expression:
      base(r)(ρ) + lo ≤ eval e ρ ≤ base(r)(ρ) + hi        (missing ends = unbounded).

  Layout: operator-level soundness first (inputs sound ⇒ output sound), then the analysis by
  induction on the expression, then `constant_bound`, `check_expr_bound(s)`, the scoped
  environment, the consumers (C division, modulo / division simplification), `get_stride_of`,
  `partial_eval_with_range`, and the user-level copy (`infer_range`, `bounds_inference`).
  Every theorem is followed by an `example` that instantiates its hypotheses on a concrete,
  non-trivial value.  Theorems named `…_partial` carry a hypothesis that the *code* does not
  guarantee; for each of them a `…_witness` theorem exhibits an input outside the hypothesis on
  which the modelled code is wrong (these are replayed on the real code by harness/props/c13.py).
-/
import ExoModel.Lemmas.RangeStride

namespace Exo.Range.C13
open Exo Exo.Range

/-! concrete symbols used by the examples -/
def x : Sym := ⟨"x", 1⟩
def y : Sym := ⟨"y", 2⟩
def n : Sym := ⟨"n", 3⟩
/-- a second symbol *named* `x` (what shadowing / scheduling-generated names produce) -/
def x' : Sym := ⟨"x", 7⟩

def ρ0 : Val := fun s => if s = x then 5 else if s = y then -3 else if s = n then 9 else 11

/-! ## 1. operator-level soundness -/

/-- `IndexRange + int`, `int + IndexRange` -/
theorem op_add_int {r : IndexRange} {ρ : Val} {v : Int} (c : Int) (h : Bounds r ρ v) :
    Bounds (r.addInt c) ρ (v + c) := addInt_sound c h

example : Bounds (IndexRange.addInt ⟨.var y, none, some 2⟩ 4) ρ0 (-2 + 4) :=
  op_add_int 4 (by simp [Bounds, eval, ρ0, y, x])

/-- `IndexRange + IndexRange` (bases are added, a missing end stays missing) -/
theorem op_add {r s : IndexRange} {ρ : Val} {v w : Int} (hr : Bounds r ρ v) (hs : Bounds s ρ w) :
    Bounds (r.addRng s) ρ (v + w) := addRng_sound hr hs

example : Bounds (IndexRange.addRng ⟨.var y, some 0, some 2⟩ ⟨zero, some (-1), none⟩) ρ0 (-2 + 40) :=
  op_add (by simp [Bounds, eval, ρ0, y, x]) (by simp [Bounds, eval, zero])

/-- unary minus swaps and negates the ends -/
theorem op_neg {r : IndexRange} {ρ : Val} {v : Int} (h : Bounds r ρ v) : Bounds r.neg ρ (-v) :=
  neg_sound h

example : Bounds (IndexRange.neg ⟨.var y, some 0, none⟩) ρ0 (-(100)) :=
  op_neg (by simp [Bounds, eval, ρ0, y, x])

/-- `IndexRange * int` for every int (negative scaling swaps the ends, 0 gives the int 0) -/
theorem op_mul {r : IndexRange} {ρ : Val} {v : Int} (c : Int) (h : Bounds r ρ v) :
    (r.mul c).Sound ρ (v * c) := mul_sound c h

example : (IndexRange.mul ⟨.var x, some (-1), some 2⟩ (-3)).Sound ρ0 (6 * -3) :=
  op_mul (-3) (by simp [Bounds, eval, ρ0])

/-- `IndexRange // int` for every int: c = 0 returns (does not raise) a ValueError object, c < 0 the
    unbounded range, c > 0 divides the ends (one extra unit of slack when the base is symbolic) -/
theorem op_floordiv {r : IndexRange} {ρ : Val} {v : Int} (c : Int) (h : Bounds r ρ v) :
    (r.floordiv c).Sound ρ (v / c) := floordiv_sound c h

example : (IndexRange.floordiv ⟨.var x, some (-7), some 2⟩ 4).Sound ρ0 (3 / 4) :=
  op_floordiv 4 (by simp [Bounds, eval, ρ0])

/-- `IndexRange % int` for a positive int -/
theorem op_mod {r : IndexRange} {ρ : Val} {v : Int} {c : Int} (hc : 0 < c) (h : Bounds r ρ v) :
    (r.mod c).Sound ρ (v % c) := mod_sound hc h

example : (IndexRange.mod ⟨zero, some 9, some 11⟩ 4).Sound ρ0 (10 % 4) :=
  op_mod (by decide) (by simp [Bounds, eval, zero])

/-- the excluded point of `op_mod`: for a divisor ≤ 0 the reported range is wrong (Lean's `%`
    and C's agree on non-negative numerators; Python's does not).  Unreachable through the front
    end, which rejects non-positive divisors. -/
theorem op_mod_nonpos_witness :
    ∃ (r : IndexRange) (ρ : Val) (v c : Int), Bounds r ρ v ∧ ¬ (r.mod c).Sound ρ (v % c) :=
  ⟨⟨zero, some 0, some 7⟩, ρ0, 5, -3, by simp [Bounds, eval, zero], by
    simp [IndexRange.mod, isZero, zero, Res.Sound, Bounds, IndexRange.createConstantRange, eval]⟩

/-- the join `|`: sound when `match_e`-equal bases have equal values and the two ranges miss
    the same ends.  PARTIAL: the code guarantees neither (it compares reads by name string and
    replaces a missing end by the other side's end). -/
theorem op_or_partial {r s : IndexRange} {ρ : Val} {v w : Int}
    (hn : NameInj (r.base.vars ++ s.base.vars))
    (hlo : r.lo.isSome = s.lo.isSome) (hhi : r.hi.isSome = s.hi.isSome)
    (hr : Bounds r ρ v) (hs : Bounds s ρ w) :
    Bounds (r.or s) ρ v ∧ Bounds (r.or s) ρ w :=
  or_sound_of (fun hm => by rw [matchE_eq hm hn]) hlo hhi hr hs

example : Bounds (IndexRange.or ⟨.var x, some 0, some 1⟩ ⟨.var x, some 3, some 3⟩) ρ0 6 ∧
    Bounds (IndexRange.or ⟨.var x, some 0, some 1⟩ ⟨.var x, some 3, some 3⟩) ρ0 8 :=
  op_or_partial (by intro a ha b hb _; simp [IExpr.vars] at ha hb; rw [ha, hb]) rfl rfl
    (by simp [Bounds, eval, ρ0]) (by simp [Bounds, eval, ρ0])

/-- excluded point 1 of `op_or_partial`: a missing end is *replaced by the other side's end*
    instead of staying missing: `(0, -inf, 5) | (0, 3, 7) = (0, 3, 7)` -/
theorem op_or_missing_end_witness :
    ∃ (r s : IndexRange) (ρ : Val) (v : Int), Bounds r ρ v ∧ ¬ Bounds (r.or s) ρ v :=
  ⟨⟨zero, none, some 5⟩, ⟨zero, some 3, some 7⟩, ρ0, -100, by simp [Bounds, eval, zero], by
    simp [IndexRange.or, matchE, zero, orEnd, Bounds, eval]⟩

/-- excluded point 2 of `op_or_partial`: two different symbols with the same name are taken to be
    the same base -/
theorem op_or_name_clash_witness :
    ∃ (r s : IndexRange) (ρ : Val) (w : Int), Bounds s ρ w ∧ ¬ Bounds (r.or s) ρ w :=
  ⟨⟨.var x, some 0, some 0⟩, ⟨.var x', some 0, some 0⟩, ρ0, 11,
   by simp [Bounds, eval, ρ0, x', x, y, n], by
    simp [IndexRange.or, matchE, orEnd, Bounds, eval, ρ0, x, x']⟩

/-! ## 2. Python's dispatch on `int | IndexRange` -/

/-- `lhs + rhs`, `lhs - rhs`, `lhs * rhs`, `-arg` on `int | IndexRange` values -/
theorem dispatch_add {a b : Res} {ρ : Val} {v w : Int} (ha : a.Sound ρ v) (hb : b.Sound ρ w) :
    (pyAdd a b).Sound ρ (v + w) := pyAdd_sound ha hb

example : (pyAdd (.int 3) (.rng ⟨.var x, some 0, some 0⟩)).Sound ρ0 (3 + 5) :=
  dispatch_add (by simp [Res.Sound]) (by simp [Res.Sound, Bounds, eval, ρ0])

theorem dispatch_sub {a b : Res} {ρ : Val} {v w : Int} (ha : a.Sound ρ v) (hb : b.Sound ρ w) :
    (pySub a b).Sound ρ (v - w) := pySub_sound ha hb

example : (pySub (.int 3) (.rng ⟨.var x, some 0, some 2⟩)).Sound ρ0 (3 - 6) :=
  dispatch_sub (by simp [Res.Sound]) (by simp [Res.Sound, Bounds, eval, ρ0])

theorem dispatch_mul {a b : Res} {ρ : Val} {v w : Int} (ha : a.Sound ρ v) (hb : b.Sound ρ w) :
    (pyMul a b).Sound ρ (v * w) := pyMul_sound ha hb

example : (pyMul (.int (-2)) (.rng ⟨.var x, some 0, some 2⟩)).Sound ρ0 (-2 * 6) :=
  dispatch_mul (by simp [Res.Sound]) (by simp [Res.Sound, Bounds, eval, ρ0])

theorem dispatch_neg {a : Res} {ρ : Val} {v : Int} (ha : a.Sound ρ v) : (pyNeg a).Sound ρ (-v) :=
  pyNeg_sound ha

example : (pyNeg (.rng ⟨.var x, some 0, some 2⟩)).Sound ρ0 (-6) :=
  dispatch_neg (by simp [Res.Sound, Bounds, eval, ρ0])

/-- `lhs // rhs`; hypothesis: a *constant* divisor is positive (an `IndexRange` divisor raises) -/
theorem dispatch_floordiv {a b : Res} {ρ : Val} {v w : Int} (ha : a.Sound ρ v) (hb : b.Sound ρ w)
    (hpos : ∀ c, b = .int c → 0 < c) : (pyFloordiv a b).Sound ρ (v / w) :=
  pyFloordiv_sound ha hb hpos

example : (pyFloordiv (.int (-7)) (.int 2)).Sound ρ0 (-7 / 2) :=
  dispatch_floordiv (by simp [Res.Sound]) (by simp [Res.Sound]) (by intro c h; cases h; decide)

/-- the excluded point: Python's `//` on two ints floors, `Int./` (and the C semantics exo gives
    to `/` for positive divisors) does not for a negative divisor -/
theorem dispatch_floordiv_neg_witness :
    ¬ (pyFloordiv (.int 7) (.int (-2))).Sound ρ0 (7 / -2) := by
  simp [pyFloordiv, Res.Sound]

theorem dispatch_mod {a b : Res} {ρ : Val} {v w : Int} (ha : a.Sound ρ v) (hb : b.Sound ρ w)
    (hpos : ∀ c, b = .int c → 0 < c) : (pyMod a b).Sound ρ (v % w) :=
  pyMod_sound ha hb hpos

example : (pyMod (.int (-7)) (.int 3)).Sound ρ0 (-7 % 3) :=
  dispatch_mod (by simp [Res.Sound]) (by simp [Res.Sound]) (by intro c h; cases h; decide)

/-! ## 3. `index_range_analysis` -/

/-- **main theorem**: for every expression, every environment and every valuation inside the
    environment, the analysis result contains the value of the expression.  `DivOK`: every
    divisor that the analysis folds to a constant is positive. -/
theorem analysis_sound {env : Look} {ρ : Val} (e : IExpr) (hd : DivOK env e)
    (hin : Inside ρ env) : (analyze env e).Sound ρ (eval e ρ) := analyze_sound e hd hin

/-- the same for expressions as the front end admits them (divisors are positive literals) -/
theorem analysis_sound_frontend {env : Look} {ρ : Val} (e : IExpr) (hd : posDiv e = true)
    (hin : Inside ρ env) : (analyze env e).Sound ρ (eval e ρ) :=
  analyze_sound e (posDiv_divOK env hd) hin

/-- only the variables that occur in the expression matter -/
theorem analysis_sound_on {env : Look} {ρ : Val} (e : IExpr) (hd : DivOK env e)
    (hin : InsideOn e.vars ρ env) : (analyze env e).Sound ρ (eval e ρ) := analyze_sound_on e hd hin

/-- environment of the examples: `x ∈ [0, 7]`, `n ∈ [1, ∞)`, `y` free -/
def env0 : Env := [[(x, (some 0, some 7))], [(n, (some 1, none))]]

theorem inside0 : Inside ρ0 env0.lookup := by
  intro s b hb
  by_cases h1 : s = x
  · subst h1; simp [env0, Env.lookup, lookupScope] at hb; subst hb; simp [InBound, ρ0]
  · by_cases h2 : s = n
    · subst h2; simp [env0, Env.lookup, lookupScope, n, x] at hb; subst hb
      simp [InBound, ρ0, n, x, y]
    · simp [env0, Env.lookup, lookupScope, h1, h2] at hb

/-- `((x * -2 + y) / 4 + n) % 3 - x`: negative scaling, nested `/` and `%`, a symbolic base `y`,
    a half-open range `n` -/
def e0 : IExpr :=
  .bin .sub (.bin .mod (.bin .add (.bin .div (.bin .add (.bin .mul (.var x) (.const (-2))) (.var y))
    (.const 4)) (.var n)) (.const 3)) (.var x)

example : (analyze env0.lookup e0).Sound ρ0 (eval e0 ρ0) :=
  analysis_sound_frontend e0 (by decide) inside0

example : analyze env0.lookup e0 = .rng ⟨zero, some (-7), some 2⟩ := by decide
example : eval e0 ρ0 = -3 := by decide

/-- the bases reported by the analysis are sums / negations / constant multiples / constant
    quotients of variables that are not bound in the environment -/
theorem analysis_base_shape (env : Look) (e : IExpr) :
    (analyze env e).BaseP (fun b => BaseForm b ∧ ∀ z, z ∈ b.vars → env z = none) := by
  have h1 := analyze_baseForm env e
  have h2 := analyze_baseVars env e
  cases h : analyze env e <;> simp only [h, Res.BaseP] at * <;> exact ⟨h1, h2⟩

example : (analyze env0.lookup (.bin .div (.bin .add (.var y) (.var x)) (.const 4))).BaseP
    (fun b => BaseForm b ∧ ∀ z, z ∈ b.vars → env0.lookup z = none) :=
  analysis_base_shape _ _

/-! ## 4. `constant_bound`, `check_expr_bound(s)`, the environment -/

/-- `constant_bound` returns constant inclusive bounds of the expression -/
theorem constant_bound_sound {env : Look} {ρ : Val} {a : EI} {b : Bound} (hd : a.DivOK env)
    (hin : Inside ρ env) (hb : constantBound env a = .ok b) : InBound b (a.eval ρ) :=
  constantBound_sound hd hin hb

example : InBound (some (-14), some 0) (eval (.bin .mul (.var x) (.const (-2))) ρ0) :=
  constant_bound_sound (env := env0.lookup) (a := .e (.bin .mul (.var x) (.const (-2))))
    (posDiv_divOK _ (by decide)) inside0 (by rfl)

/-- `check_expr_bound(e0, op, e1) == True` implies `e0 op e1` for every admitted valuation -/
theorem check_expr_bound_sound {env : Look} {ρ : Val} {a b : EI} {op : Cmp}
    (da : a.DivOK env) (db : b.DivOK env) (hin : Inside ρ env)
    (h : checkExprBound env a op b = .ok true) : op.holds (a.eval ρ) (b.eval ρ) :=
  checkExprBound_sound da db hin h

example : Cmp.lt.holds (eval (.bin .mod (.var y) (.const 4)) ρ0) 4 :=
  check_expr_bound_sound (env := env0.lookup) (a := .e (.bin .mod (.var y) (.const 4))) (b := .i 4)
    (posDiv_divOK _ (by decide)) trivial inside0 (by rfl)

/-- `check_expr_bounds(e0, op0, e1, op1, e2) == True` implies `e0 op0 e1 ∧ e1 op1 e2` -/
theorem check_expr_bounds_sound {env : Look} {ρ : Val} {a b c : EI} {op0 op1 : Cmp}
    (da : a.DivOK env) (db : b.DivOK env) (dc : c.DivOK env) (hin : Inside ρ env)
    (h : checkExprBounds env a op0 b op1 c = .ok true) :
    op0.holds (a.eval ρ) (b.eval ρ) ∧ op1.holds (b.eval ρ) (c.eval ρ) :=
  checkExprBounds_sound da db dc hin h

example : Cmp.leq.holds 0 (eval (.var x) ρ0) ∧ Cmp.lt.holds (eval (.var x) ρ0) 8 :=
  check_expr_bounds_sound (env := env0.lookup) (a := .i 0) (b := .e (.var x)) (c := .i 8)
    trivial trivial trivial inside0 (by rfl)

/-- `__init__(fast=True)`: valuations with every size argument ≥ 1 are inside -/
theorem env_init_sound {sizeArgs : List Sym} {ρ : Val} (h : ∀ s, s ∈ sizeArgs → 1 ≤ ρ s) :
    Inside ρ (Env.init sizeArgs).lookup := inside_init h

example : Inside ρ0 (Env.init [n]).lookup :=
  env_init_sound (by intro s hs; simp at hs; subst hs; simp [ρ0, n, x, y])

/-- `add_loop_iter`: for every iteration value `v ∈ [lo(ρ), hi(ρ))` of a (hence non-empty) loop the
    extended valuation is inside the extended environment; for an empty loop there is no such `v`
    and nothing is claimed about the body -/
theorem add_loop_iter_sound {env env' : Env} {ρ : Val} {i : Sym} {lo hi : EI} {v : Int}
    (dl : lo.DivOK env.lookup) (dh : hi.DivOK env.lookup) (hin : Inside ρ env.lookup)
    (h1 : lo.eval ρ ≤ v) (h2 : v < hi.eval ρ) (h : env.addLoopIter i lo hi = .ok env') :
    Inside (upd ρ i v) env'.lookup := addLoopIter_sound dl dh hin h1 h2 h

/-- `for y in seq(x / 2, x + 3)` under `x ∈ [0,7]`: `y ∈ [0, 9]` -/
example : Inside (upd ρ0 y 4)
    (env0.enterScope.set y (some 0, some 9)).lookup :=
  add_loop_iter_sound (env := env0.enterScope) (lo := .e (.bin .div (.var x) (.const 2)))
    (hi := .e (.bin .add (.var x) (.const 3)))
    (posDiv_divOK _ (by decide)) (posDiv_divOK _ (by decide))
    (by rw [lookup_enter]; exact inside0) (by decide) (by decide) (by rfl)

/-- a statically empty loop (`for i in seq(4, 4)`) gets the unknown range, which admits everything -/
theorem add_loop_iter_empty (env : Env) (i : Sym) (a b : Int) (h : a > b - 1) :
    env.addLoopIter i (.i a) (.i b) = .ok (env.set i (none, none)) := by
  simp [Env.addLoopIter, constantBound, h]

example : env0.addLoopIter y (.i 4) (.i 4) = .ok (env0.set y (none, none)) :=
  add_loop_iter_empty env0 y 4 4 (by decide)

/-- scope discipline: entering a scope changes no lookup, and leaving it discards exactly what
    was added inside -/
theorem scope_discipline (env : Env) (h : env ≠ []) (i : Sym) (b : Bound) :
    env.enterScope.lookup = env.lookup ∧ ((env.enterScope).set i b).exitScope = env :=
  ⟨lookup_enter env, exit_set_enter env h i b⟩

example : env0.enterScope.lookup = env0.lookup ∧ ((env0.enterScope).set y (some 0, none)).exitScope = env0 :=
  scope_discipline env0 (by simp [env0]) y _

/-! ## 5. the consumers -/

/-- the compiler emits C's truncating `/` instead of `exo_floor_div` only when
    `is_non_neg(numerator)` (resp. of the quotient) holds; then both divisions agree -/
theorem c_division_ok {env : Look} {ρ : Val} (a : IExpr) (c : Int) (hd : DivOK env a)
    (hin : Inside ρ env) (h : isNonNeg env a = .ok true) :
    Int.tdiv (eval a ρ) c = eval (.bin .div a (.const c)) ρ := by
  have := checkExprBound_sound (e0 := .i 0) (e1 := .e a) trivial hd hin h
  simp only [Cmp.holds, EI.eval] at this
  simp only [eval, evalOp]
  exact Int.tdiv_eq_ediv_of_nonneg this

example : Int.tdiv (eval (.bin .add (.var x) (.var n)) ρ0) 4
    = eval (.bin .div (.bin .add (.var x) (.var n)) (.const 4)) ρ0 :=
  c_division_ok (env := env0.lookup) _ 4 (posDiv_divOK _ (by decide)) inside0 (by rfl)

/-- `comp_e` tests the *quotient*: `0 ≤ a / c` with `c > 0` also gives a non-negative numerator -/
theorem c_division_ok_quotient {env : Look} {ρ : Val} (a : IExpr) (c : Int) (hc : 0 < c)
    (hd : DivOK env a) (hin : Inside ρ env)
    (h : isNonNeg env (.bin .div a (.const c)) = .ok true) :
    Int.tdiv (eval a ρ) c = eval (.bin .div a (.const c)) ρ := by
  have hd' : DivOK env (.bin .div a (.const c)) :=
    ⟨hd, trivial, fun _ c' hc' => by simp [analyze] at hc'; omega⟩
  have := checkExprBound_sound (e0 := .i 0) (e1 := .e (.bin .div a (.const c))) trivial hd' hin h
  simp only [Cmp.holds, EI.eval, eval, evalOp] at this
  have hnn : 0 ≤ eval a ρ := by
    by_cases hneg : eval a ρ < 0
    · have := Int.ediv_neg_of_neg_of_pos hneg hc; omega
    · omega
  simp only [eval, evalOp]
  exact Int.tdiv_eq_ediv_of_nonneg hnn

example : Int.tdiv (eval (.var x) ρ0) 4 = eval (.bin .div (.var x) (.const 4)) ρ0 :=
  c_division_ok_quotient (env := env0.lookup) _ 4 (by decide) trivial inside0 (by rfl)

/-- division simplification (`0 ≤ e < d` established by `check_expr_bounds`) may drop `e / d` -/
theorem division_simplification_ok {env : Look} {ρ : Val} (a : IExpr) (d : Int)
    (hd : DivOK env a) (hin : Inside ρ env)
    (h : checkExprBounds env (.i 0) .leq (.e a) .lt (.i d) = .ok true) :
    eval (.bin .div a (.const d)) ρ = 0 ∧ eval (.bin .mod a (.const d)) ρ = eval a ρ := by
  have := checkExprBounds_sound (e0 := .i 0) (e1 := .e a) (e2 := .i d) trivial hd trivial hin h
  simp only [Cmp.holds, EI.eval] at this
  simp only [eval, evalOp]
  exact ⟨Int.ediv_eq_zero_of_lt this.1 this.2, Int.emod_eq_of_lt this.1 this.2⟩

example : eval (.bin .div (.var x) (.const 8)) ρ0 = 0 ∧
    eval (.bin .mod (.var x) (.const 8)) ρ0 = eval (.var x) ρ0 :=
  division_simplification_ok (env := env0.lookup) _ 8 trivial inside0 (by rfl)

/-! ## 6. `get_stride_of`, `partial_eval_with_range` -/

/-- on a linear base `get_stride_of(x)` is the coefficient of `x` -/
theorem stride_sound {r : IndexRange} (hb : BaseForm r.base) {i : Sym} {c : Int}
    (hc : r.getStrideOf i = .ok c) {ρ : Val} (d : Int) :
    eval r.base (upd ρ i (ρ i + d)) = eval r.base ρ + c * d := by
  have := lin_shift (baseForm_lin hb hc) hc (ρ := ρ) (ρ' := upd ρ i (ρ i + d))
    (fun z hz => by simp [upd, hz])
  rw [this]; simp [upd]; congr 1; omega

example : eval (IExpr.bin .add (.bin .mul (.var x) (.const 3)) (.neg (.var y))) (upd ρ0 x (ρ0 x + 2))
    = eval (IExpr.bin .add (.bin .mul (.var x) (.const 3)) (.neg (.var y))) ρ0 + 3 * 2 :=
  stride_sound (r := ⟨.bin .add (.bin .mul (.var x) (.const 3)) (.neg (.var y)), some 0, some 0⟩)
    (.add (.mulR 3 (.var x)) (.neg (.var y))) (by rfl) 2

/-- `partial_eval_with_range(var, rng)` bounds the value **of the base** of `self` when `var`
    lies in `rng`.  PARTIAL: the offsets `self.lo`, `self.hi` are dropped by the code, so the
    result bounds the original expression only when they are 0. -/
theorem partial_eval_sound_partial {self rng : IndexRange} {var : Sym} {ρ : Val} {v : Int}
    (hbf : BaseForm self.base) (hr : Bounds rng ρ (ρ var)) (hs : Bounds self ρ v)
    (hlo : self.lo = some 0) (hhi : self.hi = some 0) :
    (self.partialEvalWithRange var rng).Sound ρ v := by
  have hv : v = eval self.base ρ := by
    have := hs.1 0 hlo; have := hs.2 0 hhi; omega
  cases hc : self.getStrideOf var with
  | error e => simp [IndexRange.partialEvalWithRange, hc, Res.Sound]
  | ok c =>
    by_cases h0 : c = 0
    · simp [IndexRange.partialEvalWithRange, hc, h0, Res.Sound]; exact hs
    · rw [hv]; exact partialEval_base_sound hbf hr hc h0

/-- `(x*3 + y, 0, 0)` with `x ∈ n + [0, 2]` gives `(y + 3*n, 0, 6)` -/
example : (IndexRange.partialEvalWithRange ⟨.bin .add (.bin .mul (.var x) (.const 3)) (.var y), some 0, some 0⟩
    x ⟨.var n, some (-4), some 2⟩).Sound ρ0 (5 * 3 + -3) :=
  partial_eval_sound_partial (.add (.mulR 3 (.var x)) (.var y))
    (by simp [Bounds, eval, ρ0, n, x, y]) (by simp [Bounds, eval, evalOp, ρ0, y, x]) rfl rfl

/-- the excluded point: with non-zero offsets the result does not contain the value
    (`(i, 0, 1)` with `i ∈ [0, 9]` gives `(0, 0, 9)`, the value 10 is lost) -/
theorem partial_eval_offsets_witness :
    ∃ (self rng : IndexRange) (var : Sym) (ρ : Val) (v : Int),
      BaseForm self.base ∧ Bounds rng ρ (ρ var) ∧ Bounds self ρ v ∧
      ¬ (self.partialEvalWithRange var rng).Sound ρ v :=
  ⟨⟨.var y, some 0, some 1⟩, ⟨zero, some 0, some 9⟩, y, upd ρ0 y 9, 10, .var y,
   by simp [Bounds, eval, zero, upd], by simp [Bounds, eval, upd], by
    have : IndexRange.partialEvalWithRange ⟨.var y, some 0, some 1⟩ y ⟨zero, some 0, some 9⟩
        = .rng ⟨zero, some 0, some 9⟩ := by decide
    rw [this]; simp [Res.Sound, Bounds, eval, zero]⟩

/-! ## 7. the user-level copy -/

/-- `infer_range(e, scope)`: sound when the symbols in play are told apart by their names
    (the stdlib environment is keyed by name strings) and every enclosing loop variable has a
    value inside its loop.  PARTIAL: the front end allows shadowing, `NameInj` is not guaranteed. -/
theorem infer_range_sound_partial {U : List Sym} (hU : NameInj U) {ρ : Val}
    (loops : List (Sym × IExpr × IExpr)) (e : IExpr) (hl : LoopsOK U ρ loops)
    (he : posDiv e = true) (heU : ∀ z, z ∈ e.vars → z ∈ U) :
    (inferRange loops e).Sound ρ (eval e ρ) := inferRange_sound hU loops e hl he heU

/-- `for x in seq(0, 8): for y in seq(-4, 2): … x*2 + y + n …` seen from outside both loops -/
example : (inferRange [(y, .const (-4), .const 2), (x, .const 0, .const 8)]
    (.bin .add (.bin .add (.bin .mul (.var x) (.const 2)) (.var y)) (.var n))).Sound ρ0
    (eval (.bin .add (.bin .add (.bin .mul (.var x) (.const 2)) (.var y)) (.var n)) ρ0) :=
  infer_range_sound_partial (U := [x, y, n])
    (by intro a ha b hb hab; simp at ha hb
        rcases ha with rfl | rfl | rfl <;> rcases hb with rfl | rfl | rfl <;>
          first | rfl | (exfalso; revert hab; decide))
    _ _
    ⟨by intro a lo hi hm; simp at hm
        rcases hm with ⟨rfl, rfl, rfl⟩ | ⟨rfl, rfl, rfl⟩ <;> simp [IExpr.vars],
     by intro a lo hi hm; simp at hm
        rcases hm with ⟨rfl, rfl, rfl⟩ | ⟨rfl, rfl, rfl⟩ <;> decide,
     by intro a lo hi hm; simp at hm
        rcases hm with ⟨rfl, rfl, rfl⟩ | ⟨rfl, rfl, rfl⟩ <;> decide⟩
    (by decide) (by intro z hz; simp [IExpr.vars] at hz ⊢; grind)

/-- the excluded point: an inner loop shadowing an outer loop of the same name gets the *outer*
    loop's range (`for x in seq(0,2): for x' in seq(0,100): … x' …` reports `[0, 1]`) -/
theorem infer_range_shadow_witness :
    ∃ (loops : List (Sym × IExpr × IExpr)) (e : IExpr) (ρ : Val),
      (∀ a lo hi, (a, lo, hi) ∈ loops → eval lo ρ ≤ ρ a ∧ ρ a < eval hi ρ) ∧
      ¬ (inferRange loops e).Sound ρ (eval e ρ) :=
  ⟨[(x', .const 0, .const 100), (x, .const 0, .const 2)], .var x', upd (upd ρ0 x 1) x' 50,
   by intro a lo hi hm; simp at hm
      rcases hm with ⟨rfl, rfl, rfl⟩ | ⟨rfl, rfl, rfl⟩ <;> decide,
   by
    have : inferRange [(x', .const 0, .const 100), (x, .const 0, .const 2)] (.var x')
        = .rng ⟨zero, some 0, some 1⟩ := by decide
    rw [this]; simp [Res.Sound, Bounds, eval, zero, upd]⟩

/-- the fold of `bounds_inference`: sound for every joined access when all ranges are finite and
    all bases are `match_e`-equal to (and have the value of) the first one.  PARTIAL: see
    `op_or_missing_end_witness` / `bounds_join_mismatch_witness` for what happens otherwise. -/
theorem bounds_join_sound_partial {ρ : Val} (r : IndexRange) (rest : List IndexRange)
    (hr : r.Finite)
    (hrest : ∀ s, s ∈ rest → s.Finite ∧ matchE r.base s.base = true ∧
      eval r.base ρ = eval s.base ρ) :
    ∀ acc, boundsJoin (r :: rest) = some acc →
      ∀ s, s ∈ r :: rest → ∀ v, Bounds s ρ v → Bounds acc ρ v := by
  intro acc hacc s hs v hv
  simp [boundsJoin] at hacc; subst hacc
  have := foldl_or_sound (ρ := ρ) rest r hr hrest
  simp at hs
  rcases hs with rfl | hs
  · exact this.1 v hv
  · exact this.2 s hs v hv

example : ∀ acc, boundsJoin [⟨.var x, some 0, some 0⟩, ⟨.var x, some 2, some 3⟩] = some acc →
    ∀ s, s ∈ [(⟨.var x, some 0, some 0⟩ : IndexRange), ⟨.var x, some 2, some 3⟩] →
      ∀ v, Bounds s ρ0 v → Bounds acc ρ0 v :=
  bounds_join_sound_partial _ _ (by simp [IndexRange.Finite])
    (by intro s hs; simp at hs; subst hs; simp [IndexRange.Finite, matchE])

/-- the excluded point: after two accesses with different bases the accumulated window is
    "unbounded" `(0, -inf, inf)`, and a third, constant access then *replaces* it:
    `x[i] | x[j] | x[3] = (0, 3, 3)` -/
theorem bounds_join_mismatch_witness :
    ∃ (rs : List IndexRange) (acc : IndexRange) (ρ : Val) (s : IndexRange) (v : Int),
      (∀ r, r ∈ rs → r.Finite) ∧ boundsJoin rs = some acc ∧ s ∈ rs ∧ Bounds s ρ v ∧
      ¬ Bounds acc ρ v :=
  ⟨[⟨.var x, some 0, some 0⟩, ⟨.var y, some 0, some 0⟩, ⟨zero, some 3, some 3⟩],
   ⟨zero, some 3, some 3⟩, ρ0, ⟨.var x, some 0, some 0⟩, 5,
   by intro r hr; simp at hr; rcases hr with rfl | rfl | rfl <;> simp [IndexRange.Finite],
   by decide, by simp, by simp [Bounds, eval, ρ0], by simp [Bounds, eval, zero]⟩

end Exo.Range.C13
