/-
  Property C03 — accepted procedures are memory-safe and call-safe.

  What is proved is the soundness of the verification-condition generator `Exo.VCGen.vcgen`
  (ExoModel/VCGen.lean), the conditions the front end's `CheckBounds` / `Check_Aliasing` are
  supposed to discharge: if the syntactic side conditions `wf p` hold and every condition of
  `vcgen p` is valid, then no run of `p` from an admissible initial state trips one of the
  monitors `oob`, `assertFail`, `badLoop`, `nonPosSize`, `shapeMismatch`, `alias` of the
  reference semantics — for every data algebra, every interpretation of extern functions, all
  sizes, index values and strides.  (That z3 decides the conditions correctly is not claimed.)

  `vcgenReal` is the literal model of what `CheckBounds` does generate; `vcgenReal_unsound` shows
  on a witness that its conditions can all be valid while the procedure runs out of bounds
  (DESIGN F12; the real front end accepts the witness — harness/props/c03.py replays it).
-/
import ExoModel.Equiv
import ExoModel.Lemmas.VCGenSound

namespace Exo.VCGen
open Exo

/-- `p` trips none of the C03 monitors from any state satisfying its entry condition
    (`EntryOk`: entry facts — sizes ≥ 1, assertions, dense non-window tensor arguments — true,
    declared extents = extents of the bound views, no buffer bound to two names, every view inside
    an existing buffer) -/
def Safe (p : Proc) : Prop :=
  ∀ (V : Type) [DataAlg V] (ext : String → List V → V) (σ : State V), EntryOk p σ →
    ∀ e, execB ext p.body σ = .error e → isBad e = false

/-- **Soundness of the generator.**  Side condition `wf p` (computed by the same traversal):
    loop variables / allocated names / window names are fresh for the facts and extents in scope
    (what exo's unique `Sym`s give), argument names are distinct, every accessed name is a
    buffer in scope of the right rank, call arguments match the callee's signature, callee
    extents and assertions mention only formals, window statements have window expressions, and
    the extents of arguments, allocations and windows do not read configuration state.
    Covers every statement form of `ExoModel.Syntax`, including window definitions, windows of
    windows, calls (checked call sites + callee checked in its own right), configuration
    writes. -/
theorem vcgen_sound (p : Proc) (hwf : wf p = true) (hvc : ∀ vc ∈ vcgen p, vc.Valid) : Safe p := by
  intro V _ ext σ hentry e he
  have hobs : ObsOk (genP p) := obsOk_of _ hwf hvc
  have := NoBad.map (State.leave σ) (safeP ext p σ hentry hobs)
  exact this e he

/-- positive size arguments -/
def SizesPos (p : Proc) {V : Type} (σ : State V) : Prop :=
  ∀ f ∈ sizeFacts p.args, holds σ f

/-- non-window tensor arguments are densely laid out -/
def DenseArgs (p : Proc) {V : Type} (σ : State V) : Prop :=
  ∀ x shape, (⟨x, .tensor shape false⟩ : FnArg) ∈ p.args →
    ∃ v, lookupSym x σ.views = some v ∧
      v.dims = denseDims (v.dims.map (fun (d : Int × Int) => d.1))

/-- every view of the initial state lies inside an existing buffer -/
def ViewsInBuf {V : Type} (σ : State V) : Prop :=
  ∀ x v, lookupSym x σ.views = some v → v.buf < σ.heap.length ∧ InBuf σ.heap v

theorem checkShapes_mem {V : Type} {σ : State V} {x : Sym} {shape : List Expr} {w : Bool} :
    ∀ (args : List FnArg), checkShapes σ args = .ok () → (⟨x, .tensor shape w⟩ : FnArg) ∈ args →
    ∃ v, lookupSym x σ.views = some v ∧
      evalCs σ shape = .ok (v.dims.map (fun (p : Int × Int) => p.1))
  | [], _, h => by cases h
  | ⟨y, .ctrl k⟩ :: r, hc, h => by
    simp only [checkShapes] at hc
    cases h with
    | tail _ hm => exact checkShapes_mem r hc hm
  | ⟨y, .scalar⟩ :: r, hc, h => by
    simp only [checkShapes] at hc
    cases hy : lookupSym y σ.views with
    | none => rw [hy] at hc; cases hc
    | some v =>
      rw [hy] at hc
      simp only [] at hc
      split at hc
      · cases h with
        | tail _ hm => exact checkShapes_mem r hc hm
      · cases hc
  | ⟨y, .tensor sh' w'⟩ :: r, hc, h => by
    simp only [checkShapes, bind, Except.bind] at hc
    cases hs : evalCs σ sh' with
    | error _ => rw [hs] at hc; cases hc
    | ok sh =>
      rw [hs] at hc
      simp only [] at hc
      cases hy : lookupSym y σ.views with
      | none => rw [hy] at hc; cases hc
      | some v =>
        rw [hy] at hc
        simp only [] at hc
        split at hc
        · rename_i hd
          cases h with
          | head => exact ⟨v, hy, by rw [hs, hd]⟩
          | tail _ hm => exact checkShapes_mem r hc hm
        · cases hc

theorem denseArgFacts_hold {V : Type} {σ : State V} : ∀ (args all : List FnArg),
    (∀ a ∈ args, a ∈ all) → checkShapes σ all = .ok () →
    (∀ x shape, (⟨x, .tensor shape false⟩ : FnArg) ∈ all →
      ∃ v, lookupSym x σ.views = some v ∧
        v.dims = denseDims (v.dims.map (fun (d : Int × Int) => d.1))) →
    ∀ f ∈ denseArgFacts args, holds σ f
  | [], _, _, _, _, f, hf => by cases hf
  | ⟨y, .ctrl k⟩ :: r, all, hsub, hc, hd, f, hf => by
    simp only [denseArgFacts] at hf
    exact denseArgFacts_hold r all (fun a ha => hsub a (List.mem_cons_of_mem _ ha)) hc hd f hf
  | ⟨y, .scalar⟩ :: r, all, hsub, hc, hd, f, hf => by
    simp only [denseArgFacts] at hf
    exact denseArgFacts_hold r all (fun a ha => hsub a (List.mem_cons_of_mem _ ha)) hc hd f hf
  | ⟨y, .tensor shape true⟩ :: r, all, hsub, hc, hd, f, hf => by
    simp only [denseArgFacts] at hf
    exact denseArgFacts_hold r all (fun a ha => hsub a (List.mem_cons_of_mem _ ha)) hc hd f hf
  | ⟨y, .tensor shape false⟩ :: r, all, hsub, hc, hd, f, hf => by
    simp only [denseArgFacts, List.mem_append] at hf
    rcases hf with hf | hf
    · have hmem := hsub _ (List.mem_cons_self ..)
      obtain ⟨v, hv, hdense⟩ := hd y shape hmem
      obtain ⟨v', hv', hsh⟩ := checkShapes_mem all hc hmem
      rw [hv] at hv'; cases hv'
      exact denseFacts_hold σ y v hv shape _ 0 hsh (by simpa using hdense) f hf
    · exact denseArgFacts_hold r all (fun a ha => hsub a (List.mem_cons_of_mem _ ha)) hc hd f hf

theorem entryOk_of_validIn {p : Proc} {V : Type} {σ : State V} (hv : ValidIn p V σ)
    (hs : SizesPos p σ) (hd : DenseArgs p σ) (hb : ViewsInBuf σ) : EntryOk p σ := by
  refine ⟨fun f hf => ?_, hv.2.1, hv.2.2, hb⟩
  simp only [entryFacts, List.mem_append] at hf
  rcases hf with (hf | hf) | hf
  · exact hs f hf
  · exact holds_of_checkPreds p.preds hv.1 f hf
  · exact denseArgFacts_hold p.args p.args (fun _ h => h) hv.2.1 hd f hf

/-- the same theorem phrased with `ValidIn` (ExoModel/Equiv.lean) and the monitors spelled out -/
theorem vcgen_sound_validIn (p : Proc) (hwf : wf p = true) (hvc : ∀ vc ∈ vcgen p, vc.Valid)
    (V : Type) [DataAlg V] (ext : String → List V → V) (σ : State V)
    (hv : ValidIn p V σ) (hs : SizesPos p σ) (hd : DenseArgs p σ) (hb : ViewsInBuf σ) (e : Err)
    (he : execB ext p.body σ = .error e) :
    e ≠ .oob ∧ e ≠ .assertFail ∧ e ≠ .badLoop ∧ e ≠ .nonPosSize ∧ e ≠ .shapeMismatch ∧
      e ≠ .alias := by
  have := vcgen_sound p hwf hvc V ext σ (entryOk_of_validIn hv hs hd hb) e he
  cases e <;> simp [isBad] at this ⊢

/-! ### non-vacuity: a procedure with a loop, a window, a window of a window and a call -/

namespace Ex
def n : Sym := ⟨"n", 1⟩
def x : Sym := ⟨"x", 2⟩
def i : Sym := ⟨"i", 3⟩
def m : Sym := ⟨"m", 4⟩
def a : Sym := ⟨"a", 5⟩
def j : Sym := ⟨"j", 6⟩
def w : Sym := ⟨"w", 7⟩

/-- `def fill(n: size, x: f32[n]): for i in seq(0, n): x[i] = 1.0` -/
def fill : Proc := .mk "fill" [⟨n, .ctrl .size⟩, ⟨x, .tensor [eVar n] false⟩] []
  [.loop i (eInt 0) (eVar n) [.assign x [eVar i] (.lit (.data 1 1))] false]

/-- `def zero(m: size, a: [f32][m]): for j in seq(0, m): a[j] = 0.0` -/
def zero : Proc := .mk "zero" [⟨m, .ctrl .size⟩, ⟨a, .tensor [eVar m] true⟩] []
  [.loop j (eInt 0) (eVar m) [.assign a [eVar j] (.lit (.data 0 1))] false]

/-- `def top(n: size, x: f32[n]): assert n >= 6; w = x[2:n]; zero(n - 2, w); w[3] = 1.0` -/
def top : Proc := .mk "top" [⟨n, .ctrl .size⟩, ⟨x, .tensor [eVar n] false⟩]
  [.binop .ge (eVar n) (eInt 6)]
  [.window w (.win x [.interval (eInt 2) (eVar n)]),
   .call zero [eSub (eVar n) (eInt 2), .read w []],
   .assign w [eInt 3] (.lit (.data 1 1))]
end Ex

open Ex in
/-- the conditions of `fill`, listed -/
example : vcgen fill =
    [⟨"arg-shape-pos", [eLt (eInt 0) (eVar n), eEq (.stride x 0) (eInt 1)], eLt (eInt 0) (eVar n)⟩,
     ⟨"loop", [eLt (eInt 0) (eVar n), eEq (.stride x 0) (eInt 1)], eLe (eInt 0) (eVar n)⟩,
     ⟨"write-lb", [eLt (eVar i) (eVar n), eLe (eInt 0) (eVar i), eLt (eInt 0) (eVar n),
        eEq (.stride x 0) (eInt 1)], eLe (eInt 0) (eVar i)⟩,
     ⟨"write-ub", [eLt (eVar i) (eVar n), eLe (eInt 0) (eVar i), eLt (eInt 0) (eVar n),
        eEq (.stride x 0) (eInt 1)], eLt (eVar i) (eVar n)⟩] := rfl

open Ex in
theorem fill_vcs_valid : ∀ vc ∈ vcgen fill, vc.Valid := by
  intro vc hvc
  have : vcgen fill =
    [⟨"arg-shape-pos", [eLt (eInt 0) (eVar n), eEq (.stride x 0) (eInt 1)], eLt (eInt 0) (eVar n)⟩,
     ⟨"loop", [eLt (eInt 0) (eVar n), eEq (.stride x 0) (eInt 1)], eLe (eInt 0) (eVar n)⟩,
     ⟨"write-lb", [eLt (eVar i) (eVar n), eLe (eInt 0) (eVar i), eLt (eInt 0) (eVar n),
        eEq (.stride x 0) (eInt 1)], eLe (eInt 0) (eVar i)⟩,
     ⟨"write-ub", [eLt (eVar i) (eVar n), eLe (eInt 0) (eVar i), eLt (eInt 0) (eVar n),
        eEq (.stride x 0) (eInt 1)], eLt (eVar i) (eVar n)⟩] := rfl
  rw [this] at hvc
  simp only [List.mem_cons, List.not_mem_nil, or_false] at hvc
  rcases hvc with rfl | rfl | rfl | rfl
  · intro E hP; exact hP _ (List.mem_cons_self ..)
  · intro E hP
    obtain ⟨a, b, ha, hb, hlt⟩ := holdsE_lt.1 (hP _ (List.mem_cons_self ..))
    rw [evalCE_int] at ha; cases ha
    exact holdsE_le.2 ⟨0, b, rfl, hb, by omega⟩
  · intro E hP; exact hP _ (List.mem_cons_of_mem _ (List.mem_cons_self ..))
  · intro E hP; exact hP _ (List.mem_cons_self ..)

/-- the theorem applies to `fill`: it is safe for every size, data algebra and initial contents -/
example : Safe Ex.fill := vcgen_sound Ex.fill (by decide) fill_vcs_valid

open Ex in
/-- the conditions of `top` (window, call through a window variable, write through it): kinds -/
example : (vcgen top).map (·.kind) =
    ["arg-shape-pos", "win-lo", "win-order", "win-hi", "call-alias", "call-shape",
     "call-argshape-pos", "call-size", "arg-shape-pos", "loop", "write-lb", "write-ub",
     "write@win-lb", "write@win-ub"] := by decide

example : wf Ex.top = true := by decide

open Ex in
/-- one of them — the write `w[3]` stays below the extent `n - 2` of the window because the
    procedure asserts `n ≥ 6` — is valid in every control environment (not just small ones) -/
example : VC.Valid ⟨"write@win-ub",
    [eEq (.stride w 0) (.stride x 0), eLt (eInt 0) (eVar n), .binop .ge (eVar n) (eInt 6),
     eEq (.stride x 0) (eInt 1)], eLt (eInt 3) (eSub (eVar n) (eInt 2))⟩ := by
  intro E hP
  obtain ⟨v, hv, hne⟩ := hP (.binop .ge (eVar n) (eInt 6))
    (List.mem_cons_of_mem _ (List.mem_cons_of_mem _ (List.mem_cons_self ..)))
  obtain ⟨a, b, ha, hb, hop⟩ := evalCE_binop_ok hv
  rw [evalCE_int] at hb; cases hb
  simp only [ctrlOp, pure, Except.pure, Except.ok.injEq] at hop
  subst hop
  have hge : a ≥ 6 := (b2i_ne_zero _).1 hne
  refine holdsE_lt.2 ⟨3, a - 2, rfl, evalCE_binop_of ha rfl rfl, by omega⟩

open Ex in
/-- and that condition is literally the last one `vcgen top` produces -/
example : (vcgen top).getLast?.map (fun vc => (vc.kind, vc.path.length)) =
    some ("write@win-ub", 4) := by decide

/-! ### the conditions the real checker generates do not imply safety (DESIGN F12) -/

namespace Bad
def x : Sym := ⟨"x", 1⟩
def w : Sym := ⟨"w", 2⟩

/-- `def bad(x: f32[8]): w = x[0:4]; w[10] = 1.0` — accepted by the real front end -/
def bad : Proc := .mk "bad" [⟨x, .tensor [eInt 8] false⟩] []
  [.window w (.win x [.interval (eInt 0) (eInt 4)]),
   .assign w [eInt 10] (.lit (.data 1 1))]

instance : DataAlg Unit :=
  ⟨fun _ _ => (), fun _ _ => (), fun _ _ => (), fun _ _ => (), fun _ _ => (), fun _ => ()⟩

def σ0 : State Unit :=
  { env := [], views := [(x, ⟨0, 0, [(8, 1)]⟩)], heap := [List.replicate 8 none], cfg := [] }

def isOob : Except Err (State Unit) → Bool
  | .error .oob => true
  | _ => false
end Bad

open Bad in
/-- the literal model of `CheckBounds` asks one thing about `bad`: `0 < 8` -/
example : vcgenReal bad = [⟨"arg-shape-pos", [eEq (.stride x 0) (eInt 1)], eLt (eInt 0) (eInt 8)⟩] :=
  rfl

open Bad in
theorem bad_entry : EntryOk bad σ0 := by
  refine ⟨fun f hf => ?_, rfl, rfl, fun y v hy => ?_⟩
  · have : entryFacts bad.args bad.preds = [eEq (.stride x 0) (eInt 1)] := rfl
    rw [this] at hf
    simp only [List.mem_cons, List.not_mem_nil, or_false] at hf
    subst hf
    exact ⟨1, rfl, by decide⟩
  · have hv : lookupSym y σ0.views = if y = x then some ⟨0, 0, [(8, 1)]⟩ else none := rfl
    rw [hv] at hy
    split at hy
    · cases hy
      refine ⟨by decide, fun is o ho => ?_⟩
      refine ⟨List.replicate 8 none, rfl, ?_⟩
      cases is with
      | nil => simp [viewOffset] at ho
      | cons i r =>
        cases r with
        | nil =>
          simp only [viewOffset] at ho
          split at ho
          · simp only [pure, Except.pure, Except.ok.injEq] at ho
            simp only [List.length_replicate]
            omega
          · cases ho
        | cons _ _ =>
          simp only [viewOffset] at ho
          split at ho <;> cases ho
    · cases hy

open Bad in
/-- **`vcgenReal`-validity does not imply safety**: every condition of `vcgenReal bad` is valid in
    all control environments, `bad` satisfies the side conditions, its arguments satisfy the
    entry condition, and the run writes outside the window (and outside the buffer `x`). -/
theorem vcgenReal_unsound :
    ∃ p : Proc, wf p = true ∧ (∀ vc ∈ vcgenReal p, vc.Valid) ∧ ¬ Safe p := by
  refine ⟨bad, by decide, fun vc hvc => ?_, fun hsafe => ?_⟩
  · have : vcgenReal bad =
        [⟨"arg-shape-pos", [eEq (.stride x 0) (eInt 1)], eLt (eInt 0) (eInt 8)⟩] := rfl
    rw [this] at hvc
    simp only [List.mem_cons, List.not_mem_nil, or_false] at hvc
    subst hvc
    intro E _
    exact ⟨1, rfl, by decide⟩
  · have hrun : execB (fun _ _ => ()) bad.body σ0 = .error .oob := by
      have : isOob (execB (fun _ _ => ()) bad.body σ0) = true := by decide
      revert this
      cases execB (fun _ _ => ()) bad.body σ0 with
      | ok s => intro h; cases h
      | error e => cases e <;> intro h <;> first | rfl | cases h
    have := hsafe Unit (fun _ _ => ()) σ0 bad_entry .oob hrun
    cases this

open Bad in
/-- the sound generator does ask for the missing condition (`10 < 4 - 0`), and it is not valid -/
example : ∃ vc ∈ vcgen bad, vc.kind = "write@win-ub" ∧ ¬ vc.Valid := by
  have hl : vcgen bad = [
      ⟨"arg-shape-pos", [eEq (.stride x 0) (eInt 1)], eLt (eInt 0) (eInt 8)⟩,
      ⟨"win-lo", [eEq (.stride x 0) (eInt 1)], eLe (eInt 0) (eInt 0)⟩,
      ⟨"win-order", [eEq (.stride x 0) (eInt 1)], eLe (eInt 0) (eInt 4)⟩,
      ⟨"win-hi", [eEq (.stride x 0) (eInt 1)], eLe (eInt 4) (eInt 8)⟩,
      ⟨"write@win-lb", [eEq (.stride w 0) (.stride x 0), eEq (.stride x 0) (eInt 1)],
        eLe (eInt 0) (eInt 10)⟩,
      ⟨"write@win-ub", [eEq (.stride w 0) (.stride x 0), eEq (.stride x 0) (eInt 1)],
        eLt (eInt 10) (eSub (eInt 4) (eInt 0))⟩] := rfl
  refine ⟨⟨"write@win-ub", [eEq (.stride w 0) (.stride x 0), eEq (.stride x 0) (eInt 1)],
    eLt (eInt 10) (eSub (eInt 4) (eInt 0))⟩, by rw [hl]; simp, rfl, fun hv => ?_⟩
  have := hv ⟨[], [(w, [1]), (x, [1])], []⟩ (fun f hf => by
    simp only [List.mem_cons, List.not_mem_nil, or_false] at hf
    rcases hf with rfl | rfl <;> exact ⟨1, rfl, by decide⟩)
  obtain ⟨v, hv', hne⟩ := this
  have : v = 0 := by
    have h2 : evalCE ⟨[], [(w, [1]), (x, [1])], []⟩ (eLt (eInt 10) (eSub (eInt 4) (eInt 0))) = .ok 0 := rfl
    rw [h2] at hv'; cases hv'; rfl
  exact hne this

end Exo.VCGen
