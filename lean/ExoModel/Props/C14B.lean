/-
  C14 — library instructions do what their Exo bodies say (part 2: AVX-512).

  One theorem per instruction of ExoModel/Gen/X86Instrs.lean (REGENERATED from exo.platforms.x86 on
  every run), stated with `Exo.X86.InstrCorrect` (ExoModel/X86.lean):

      ∀ lawful data algebra V, extern meaning fixed on relu/select, control values cv, placements
        pl (buffer, offset, stride of every operand), heap, cfg:
        Admissible I.proc σ  →  execB ext I.proc.body σ = execCInstr I σ        (σ = stateOf I.proc cv pl heap cfg)

  `Admissible` = what `execP` checks before it runs the body (sizes positive, declared shapes,
  the instruction's assertions, no aliasing) + every operand window lies inside its buffer.
  Variants: `InstrCorrectInit` additionally assumes every operand cell initialised (blendv reads
  a lane the `select` extern would poison); `InstrCorrectWhen` adds a condition on control values
  (theorems named `_partial`).  `X_refuted : ¬ InstrCorrect X.instr` is a machine-checked
  counterexample: the C fragment of X does NOT do what X's body says (recorded findings).
  After each theorem an `example` shows its hypotheses are satisfiable (state cv0/pl0/heap0).
-/
import ExoModel.Lemmas.C14Tactic

set_option maxRecDepth 8000
namespace Exo.C14
open Exo Exo.X86 Exo.Lane Exo.X86Instrs


theorem mm512_setzero_ps_correct : InstrCorrect mm512_setzero_ps.instr := by c14_lane mm512_setzero_ps
example : Admissible mm512_setzero_ps.proc (stateOf mm512_setzero_ps.proc cv0 pl0 heap0 []) := by c14_adm mm512_setzero_ps

theorem mm512_add_ps_correct : InstrCorrect mm512_add_ps.instr := by c14_lane mm512_add_ps
example : Admissible mm512_add_ps.proc (stateOf mm512_add_ps.proc cv0 pl0 heap0 []) := by c14_adm mm512_add_ps

/-- PARTIAL: only for N < 31.  The body allows every N ≥ 1, but `1 << N` is undefined for N ≥ 31 (and wraps
    for N ≥ 32 on x86): x86.py lacks `assert N <= 16` here (recorded finding). -/
theorem mm512_mask_add_ps_correct_partial : InstrCorrectWhen mm512_mask_add_ps.instr (fun cv => cv ⟨"N", 0⟩ < 31) := by c14_mask_when mm512_mask_add_ps
example : Admissible mm512_mask_add_ps.proc (stateOf mm512_mask_add_ps.proc cv0 pl0 heap0 []) := by c14_adm mm512_mask_add_ps
example : cv0 ⟨"N", 0⟩ < 31 := by decide

theorem mm512_loadu_ps_correct : InstrCorrect mm512_loadu_ps.instr := by c14_lane mm512_loadu_ps
example : Admissible mm512_loadu_ps.proc (stateOf mm512_loadu_ps.proc cv0 pl0 heap0 []) := by c14_adm mm512_loadu_ps

theorem mm512_storeu_ps_correct : InstrCorrect mm512_storeu_ps.instr := by c14_lane mm512_storeu_ps
example : Admissible mm512_storeu_ps.proc (stateOf mm512_storeu_ps.proc cv0 pl0 heap0 []) := by c14_adm mm512_storeu_ps

theorem mm512_mask_storeu_ps_correct : InstrCorrect mm512_mask_storeu_ps.instr := by c14_mask mm512_mask_storeu_ps
example : Admissible mm512_mask_storeu_ps.proc (stateOf mm512_mask_storeu_ps.proc cv0 pl0 heap0 []) := by c14_adm mm512_mask_storeu_ps

theorem mm512_fmadd_ps_correct : InstrCorrect mm512_fmadd_ps.instr := by c14_lane mm512_fmadd_ps
example : Admissible mm512_fmadd_ps.proc (stateOf mm512_fmadd_ps.proc cv0 pl0 heap0 []) := by c14_adm mm512_fmadd_ps

theorem mm512_relu_ps_correct : InstrCorrect mm512_relu_ps.instr := by c14_lane mm512_relu_ps
example : Admissible mm512_relu_ps.proc (stateOf mm512_relu_ps.proc cv0 pl0 heap0 []) := by c14_adm mm512_relu_ps

theorem mm512_set1_ps_correct : InstrCorrect mm512_set1_ps.instr := by c14_lane mm512_set1_ps
example : Admissible mm512_set1_ps.proc (stateOf mm512_set1_ps.proc cv0 pl0 heap0 []) := by c14_adm mm512_set1_ps

theorem mm512_maskz_loadu_ps_refuted : ¬ InstrCorrect mm512_maskz_loadu_ps.instr := by c14_refute mm512_maskz_loadu_ps
example : Admissible mm512_maskz_loadu_ps.proc (stateOf mm512_maskz_loadu_ps.proc cv0 pl0 heap0 []) := by c14_adm mm512_maskz_loadu_ps

theorem mm512_mask_fmadd_ps_refuted : ¬ InstrCorrect mm512_mask_fmadd_ps.instr := by c14_refute mm512_mask_fmadd_ps
example : Admissible mm512_mask_fmadd_ps.proc (stateOf mm512_mask_fmadd_ps.proc cv0 pl0 heap0 []) := by c14_adm mm512_mask_fmadd_ps

theorem mm512_mask_set1_ps_refuted : ¬ InstrCorrect mm512_mask_set1_ps.instr := by c14_refute mm512_mask_set1_ps
example : Admissible mm512_mask_set1_ps.proc (stateOf mm512_mask_set1_ps.proc cv0 pl0 heap0 []) := by c14_adm mm512_mask_set1_ps

end Exo.C14
