/-
  C07 — scheduling is pure: existing procedures never change.

  Model: ExoModel.PyHeap (mini heap language + freshness analysis).
  Lemmas: ExoModel.Lemmas.PyHeapSound (the invariant of the small-step semantics).
  Table: ExoModel.Gen.PyMut.functions, regenerated on every run by harness/translate/pymut.py from
  src/exo/{rewrite/LoopIR_scheduling, core/internal_cursors, core/LoopIR, API, API_scheduling,
  rewrite/new_eff, rewrite/LoopIR_unification}.py.

  1. `analysis_sound` (for ALL groups of functions, ALL heaps, ALL sets `E` of pre-existing objects,
     ALL runs): if the check of the analysis passes with some weak table `T`, then in every
     configuration a run can reach — so after every prefix, which covers operations that raise
     part-way — every object of `E` has exactly the cells it had at the start.
  2. `allMutationsFresh_pure`: the same from `AllMutationsFresh` (the decidable obligation), with
     `E` = every object of the initial heap (whatever was reachable from parameters, node fields
     and globals is among them).
  3. `functions_allMutationsFresh`: the per-run obligation on the regenerated table.
-/
import ExoModel.Lemmas.PyHeapSound
import ExoModel.Gen.PyMut

namespace Exo.PyHeap.C07
open Exo.PyHeap Exo.PyHeap.Sound

/-- **Soundness of the freshness analysis.**  For every group of functions `g` of the mini
    language, every weak table `T` with which the check passes, every heap `h0`, every set `E` of
    objects of `h0` (the objects reachable from parameters, node fields, globals — or, for a pass
    object, everything that existed before the pass object was created), every initial weak
    environment compatible with `T`, and every configuration `c` reachable by any number of steps
    (calls of any functions of the group in any order and nesting, each abandoned at any point):
    every object of `E` has in `c` exactly the cells it had in `h0`. -/
theorem analysis_sound (g : Group) (T : Mask) (hT : checkGroup g T = true)
    (E : Loc → Prop) (h0 : Heap) (hE : ∀ l, E l → l < h0.length)
    (w0 : Env) (hw0 : SatW E w0 T) (c : Config) (hrun : Steps g ⟨h0, w0, []⟩ c) :
    ∀ l, E l → c.heap[l]? = h0[l]? :=
  (steps_inv hT hE (c := ⟨h0, w0, []⟩)
    ⟨Nat.le_refl _, fun _ _ => rfl, hw0, fun _ h => by cases h⟩ hrun).agree

/-- the decidable obligation implies purity: no object of the initial heap ever changes -/
theorem allMutationsFresh_pure (gs : List Group) (hall : AllMutationsFresh gs)
    (g : Group) (hg : g ∈ gs) (h0 : Heap) (c : Config)
    (hrun : Steps g ⟨h0, fun _ => none, []⟩ c) :
    ∀ l, l < h0.length → c.heap[l]? = h0[l]? := by
  have hok : checkGroup g (inferT g) = true := by
    have := List.all_eq_true.mp hall g hg
    simpa [Group.ok] using this
  exact analysis_sound g (inferT g) hok (fun l => l < h0.length) h0 (fun _ h => h)
    (fun _ => none) (fun _ _ _ h => by cases h) c hrun

/-! ## non-vacuity: the defect that commit 57e31419 repaired, in the mini language -/

/-- `remap_idx` of `DoMultiplyDim` after the fix: `idx = idx.copy(); idx[hi] = ..; del idx[lo]` -/
def remapFixed : Group :=
  { name := "remap_idx", file := "example", weak := [],
    funcs := [{ name := "remap_idx", line := 1850, strong := ["idx"],
                items := [.top (.bind 1850 (.s 0) .param),
                          .top (.bind 1851 (.s 0) .fresh),
                          .top (.mutate 1857 .setitem (.s 0)),
                          .top (.mutate 1858 .delitem (.s 0))] }] }

/-- before the fix: no copy -/
def remapBuggy : Group :=
  { name := "remap_idx", file := "example", weak := [],
    funcs := [{ name := "remap_idx", line := 1850, strong := ["idx"],
                items := [.top (.bind 1850 (.s 0) .param),
                          .top (.mutate 1857 .setitem (.s 0)),
                          .top (.mutate 1858 .delitem (.s 0))] }] }

example : AllMutationsFresh [remapFixed] := by decide
example : ¬ AllMutationsFresh [remapBuggy] := by decide

/-- hypotheses of `allMutationsFresh_pure` instantiated: the fixed function, started on a heap with
    the index list `[10, 20]` of the source procedure at location 0, runs to the end (the copy is
    edited: location 1 becomes `[99]`) and location 0 is what it was -/
example : ∃ c, Steps remapFixed ⟨[[10, 20]], fun _ => none, []⟩ c ∧
    c.heap = [[10, 20], [99]] ∧ c.heap[0]? = some [10, 20] := by
  refine ⟨⟨[[10, 20], [99]], fun _ => none, [⟨upd (upd (fun _ => none) 0 (some 0)) 0 (some 1), []⟩]⟩, ?_, rfl, rfl⟩
  have s0 : Steps remapFixed ⟨[[10, 20]], fun _ => none, []⟩ ⟨[[10, 20]], fun _ => none, []⟩ := .refl _
  have s1 := Steps.tail s0 (Step.call (g := remapFixed) (h := [[10, 20]]) (w := fun _ => none) (fs := [])
    _ (List.mem_cons_self ..))
  have s2 := Steps.tail s1 (Step.top (g := remapFixed) [] [] _ _
    (ExecStmt.bindS 1850 0 .param
      (EvalRhs.existing (h := [[10, 20]]) .param rfl [] (some 0) (by intro l h; cases h; simp))))
  have s3 := Steps.tail s2 (Step.top (g := remapFixed) [] [] _ _
    (ExecStmt.bindS 1851 0 .fresh (EvalRhs.fresh [10, 20])))
  have s4 := Steps.tail s3 (Step.top (g := remapFixed) [] [] _ _
    (ExecStmt.mutate (l := 1) (cells := [10, 20]) (cells' := [10, 99]) 1857 .setitem (.s 0)
      (.setitem 1 99) rfl rfl rfl rfl))
  have s5 := Steps.tail s4 (Step.top (g := remapFixed) [] [] _ _
    (ExecStmt.mutate (l := 1) (cells := [10, 99]) (cells' := [99]) 1858 .delitem (.s 0)
      (.delitem 0) rfl rfl rfl rfl))
  simpa using s5

/-- the semantics can express the defect: the unfixed function changes the source list -/
theorem buggy_changes_input : ∃ c, Steps remapBuggy ⟨[[10, 20]], fun _ => none, []⟩ c ∧
    c.heap[0]? ≠ some [10, 20] := by
  refine ⟨⟨[[10, 99]], fun _ => none, [⟨upd (fun _ => none) 0 (some 0), [.top (.mutate 1858 .delitem (.s 0))]⟩]⟩, ?_, by decide⟩
  have s0 : Steps remapBuggy ⟨[[10, 20]], fun _ => none, []⟩ ⟨[[10, 20]], fun _ => none, []⟩ := .refl _
  have s1 := Steps.tail s0 (Step.call (g := remapBuggy) (h := [[10, 20]]) (w := fun _ => none) (fs := [])
    _ (List.mem_cons_self ..))
  have s2 := Steps.tail s1 (Step.top (g := remapBuggy) [] [] _ _
    (ExecStmt.bindS 1850 0 .param
      (EvalRhs.existing (h := [[10, 20]]) .param rfl [] (some 0) (by intro l h; cases h; simp))))
  have s3 := Steps.tail s2 (Step.top (g := remapBuggy) [] [] _ _
    (ExecStmt.mutate (l := 0) (cells := [10, 20]) (cells' := [10, 99]) 1857 .setitem (.s 0)
      (.setitem 1 99) rfl rfl rfl rfl))
  simpa using s3

/-- `allMutationsFresh_pure` instantiated: whatever the fixed function does, however far it gets,
    the index list at location 0 is what it was -/
example (c : Config) (h : Steps remapFixed ⟨[[10, 20]], fun _ => none, []⟩ c) :
    c.heap[0]? = some [10, 20] :=
  allMutationsFresh_pure [remapFixed] (by decide) remapFixed (List.mem_cons_self ..) [[10, 20]] c h 0
    (by decide)

/-- `calc_idx` of `DoInlineWindow` in the mini language.  `idxs` is a parameter, (optionally)
    rebound to a copy, and handed to the weak variable at the `if` statement that defines the
    closure `map_w`; `map_w` pops from the captured `idxs`. -/
def calcIdx (copy : Bool) : Group :=
  { name := "calc_idx", file := "example", weak := ["calc_idx.idxs"],
    funcs := [
      { name := "calc_idx", line := 1059, strong := ["idxs", "win_idx", "map_w"],
        items := [.top (.bind 1059 (.s 0) .param), .top (.bind 1060 (.s 1) .nodeField)] ++
                 (if copy then [.top (.bind 1061 (.s 0) .fresh)] else []) ++
                 [.top (.bind 1067 (.w 0) (.alias (.s 0))),
                  .soup [.bind 1069 (.s 2) .fresh, .bind 1081 (.s 2) .fresh]] },
      { name := "calc_idx.map_w", line := 1069, strong := ["w", "i"],
        items := [.top (.bind 1069 (.s 0) .param), .top (.mutate 1073 .pop (.w 0)),
                  .top (.bind 1073 (.s 1) .unknown)] }] }

example : AllMutationsFresh [calcIdx true] := by decide
example : ¬ AllMutationsFresh [calcIdx false] := by decide

/-- `analysis_sound` instantiated with a weak variable, a soup and a proper subset `E` of the heap:
    object 0 (the index list of the source procedure) is protected, object 1 is not in `E` -/
example (c : Config) (h : Steps (calcIdx true) ⟨[[1, 2], [7]], fun _ => none, []⟩ c) :
    c.heap[0]? = some [1, 2] :=
  analysis_sound (calcIdx true) (inferT (calcIdx true)) (by decide) (fun l => l = 0) [[1, 2], [7]]
    (by intro l hl; subst hl; decide) (fun _ => none) (by intro n l _ hn; cases hn) c h 0 rfl

/-! ## the per-run obligation -/

/-- every mutation site of the seven anchored source files (as translated on this run) targets a
    variable whose origin is `fresh`, apart from the sites listed — with a reason each — in
    `Gen.PyMut.whitelist` -/
theorem functions_allMutationsFresh : AllMutationsFresh Exo.Gen.PyMut.functions := by
  decide +kernel

end Exo.PyHeap.C07
