/-
  Property C09 on the reference semantics of LoopIR (ExoModel.Sem): a parallel loop whose
  iterations have pairwise disjoint footprints is race-free — every order of its iterations, and
  every interleaving of their atomic events, ends in the result of the sequential loop.

  * footprints are DYNAMIC: `iterEv ext i B v σ` = the event list (`Fp.evL`) of running the body
    with `i = v` from the state `σ` at loop entry;
  * the hypothesis `IterDisjoint` is `Disjoint_Memory` of src/exo/rewrite/new_eff.py, clause by
    clause: for two different iterations, what one writes or reduces (heap cells, configuration
    fields) is not read, written or reduced by the other.  Reduce/reduce overlap is excluded, so
    NO law of the data algebra is used;
  * part 1 (`par_loop_order_independent`) is about `ExoModel.Sem` alone: iterations as atomic
    steps (`loopStep`), any order.  No restriction on the body (allocations, windows, calls
    allowed: an iteration runs in its own scope and `Dis` only looks at the buffers that exist
    at loop entry);
  * part 2 (`par_loop_any_interleaving`) is the statement of Props/C09.lean for the Sem-derived
    event lists.  Assumptions of the event model: each event is atomic; an iteration performs
    the events of its Sem run from loop entry, with the values of that run (justified by
    `iteration_events_stable`: from every state that agrees with the loop-entry state on what the
    iteration reads, Sem produces exactly these events); the iterator binding and the buffers
    allocated inside an iteration are private (their events are not `visible`).
-/
import ExoModel.Props.C09
import ExoModel.Lemmas.ParSemStep
import ExoModel.Lemmas.ParSemRun
import ExoModel.Lemmas.ParSemBridge
import ExoModel.DataLaws

set_option linter.unusedSectionVars false
namespace Exo.C09Sem
open Exo Exo.Fp Exo.Ctx3

variable {V : Type} [DataAlg V] (ext : String → List V → V)

/-- `Disjoint_Memory` for every pair of different iterations `v, w ∈ [l, l + n)`, on the
    footprints taken in the state `σ` at loop entry -/
def IterDisjoint (i : Sym) (B : List Stmt) (σ : State V) (l : Int) (n : Nat) : Prop :=
  ∀ v w : Int, l ≤ v → v < l + n → l ≤ w → w < l + n → v ≠ w →
    Dis σ.heap.length (iterEv ext i B v σ) (iterEv ext i B w σ)

/-- executable form -/
def iterDisjointB (i : Sym) (B : List Stmt) (σ : State V) (l : Int) (n : Nat) : Bool :=
  (rangeL l n).all (fun v => (rangeL l n).all (fun w =>
    v == w || disB σ.heap.length (iterEv ext i B v σ) (iterEv ext i B w σ)))

theorem iterDisjoint_of_B {i : Sym} {B : List Stmt} {σ : State V} {l : Int} {n : Nat}
    (h : iterDisjointB ext i B σ l n = true) : IterDisjoint ext i B σ l n := by
  intro v w hv1 hv2 hw1 hw2 hne
  unfold iterDisjointB at h
  rw [List.all_eq_true] at h
  have h1 := h v ((mem_rangeL n l v).2 ⟨hv1, hv2⟩)
  rw [List.all_eq_true] at h1
  have h2 := h1 w ((mem_rangeL n l w).2 ⟨hw1, hw2⟩)
  simp only [Bool.or_eq_true, beq_iff_eq] at h2
  rcases h2 with h2 | h2
  · exact (hne h2).elim
  · exact dis_of_disB h2

/-! ### footprint determinacy for one iteration -/

/-- from every state `s` that agrees with the loop-entry state `σ` on the cells and fields the
    iteration reads (and has the same names in scope), the iteration produces exactly the events
    it produces from `σ`, and fails or succeeds alike -/
theorem iteration_events_stable (i : Sym) (B : List Stmt) (v : Int) (σ s : State V)
    (P : Cell → Prop) (Pk : Key → Prop) (hA : Agree P Pk σ s)
    (hR : ReadsIn P Pk (iterEv ext i B v σ)) :
    iterEv ext i B v s = iterEv ext i B v σ ∧
      LockA P Pk (loopStep ext i B v σ) (loopStep ext i B v s) :=
  step_det ext hA hR

/-! ### part 1: any order of the iterations -/

/-- **`par_loop_order_independent`.**  If the iterations of `for i in [lo, hi): B` are pairwise
    `Disjoint_Memory` in the state at loop entry, executing them in ANY order (`L`: every
    iteration value exactly once) has the outcome of the sequential loop: both fail, or both
    succeed with the same names in scope, the same heap and the same value of every
    configuration field (`ResEq`; the order in which new fields were appended to the
    configuration list may differ, nothing can observe it). -/
theorem par_loop_order_independent (i : Sym) (lo hi : Expr) (B : List Stmt) (par : Bool) (σ : State V)
    (l h : Int) (hl : evalC σ lo = .ok l) (hh : evalC σ hi = .ok h) (hle : l ≤ h)
    (hd : IterDisjoint ext i B σ l (h - l).toNat)
    (L : List Int) (hn : L.Nodup) (hm : ∀ x, x ∈ L ↔ l ≤ x ∧ x < h) :
    ResEq (runSteps (loopStep ext i B) L σ) (execS ext (.loop i lo hi B par) σ) := by
  rw [execS_loop ext i lo hi B par σ l h hl hh hle, iterate_eq_runSteps]
  have hlen : l + ((h - l).toNat : Int) = h := by omega
  refine runSteps_order ext i B σ L (rangeL l (h - l).toNat) (fun x => ?_) hn
    (nodup_rangeL _ _) (fun v w hv hw hne => ?_)
  · rw [hm x, mem_rangeL, hlen]
  · have hv' := (hm v).1 hv
    have hw' := (hm w).1 hw
    exact hd v w hv'.1 (by omega) hw'.1 (by omega) hne

/-! ### part 2: any interleaving of the atomic events -/

/-- **`par_loop_any_interleaving`.**  Under the same hypothesis, take the Sem-derived event list
    of every iteration (`threadsOf`: visible events of its run from loop entry, mapped to the
    events of ExoModel/Par.lean) and the memory of the loop-entry state.  EVERY complete
    interleaving (`Par.run … sched` with `Par.AllDone`) ends in the memory of the state `σ'` that
    the sequential Sem loop produces: every cell of every buffer that exists at loop entry, and
    every configuration field. -/
theorem par_loop_any_interleaving (i : Sym) (lo hi : Expr) (B : List Stmt) (par : Bool) (σ σ' : State V)
    (l h : Int) (hl : evalC σ lo = .ok l) (hh : evalC σ hi = .ok h) (hle : l ≤ h)
    (hd : IterDisjoint ext i B σ l (h - l).toNat)
    (hseq : execS ext (.loop i lo hi B par) σ = .ok σ') (sched : List Nat)
    (hdone : Par.AllDone (Par.run (memOf (heapGet σ.heap) σ.cfg)
      (threadsOf (fun v => iterEv ext i B v σ) σ.heap.length (rangeL l (h - l).toNat)) sched).2) :
    (∀ c : Cell, c.1 < σ.heap.length →
      (Par.run (memOf (heapGet σ.heap) σ.cfg)
        (threadsOf (fun v => iterEv ext i B v σ) σ.heap.length (rangeL l (h - l).toNat)) sched).1 (.inl c)
        = .d (heapGet σ'.heap c)) ∧
    (∀ k : Key,
      (Par.run (memOf (heapGet σ.heap) σ.cfg)
        (threadsOf (fun v => iterEv ext i B v σ) σ.heap.length (rangeL l (h - l).toNat)) sched).1 (.inr k)
        = .c (lookupCfg k σ'.cfg)) := by
  have hlen : l + ((h - l).toNat : Int) = h := by omega
  have hdis : ∀ a b, a ∈ rangeL l (h - l).toNat → b ∈ rangeL l (h - l).toNat → a ≠ b →
      Dis σ.heap.length (iterEv ext i B a σ) (iterEv ext i B b σ) := by
    intro a b ha hb hne
    have ha' := (mem_rangeL _ _ _).1 ha
    have hb' := (mem_rangeL _ _ _).1 hb
    exact hd a b ha'.1 ha'.2 hb'.1 hb'.2 hne
  -- the event model: every complete interleaving equals the sequential replay
  rw [Par.C09.interleaving_eq_sequential _ _
    (raceFree_threadsOf _ _ _ (nodup_rangeL _ _) hdis) sched hdone, seqRun_threadsOf]
  -- the sequential Sem run satisfies the invariant for the set of all iterations
  rw [execS_loop ext i lo hi B par σ l h hl hh hle, iterate_eq_runSteps] at hseq
  have rv := run_inv ext i B σ (fun v => iterEv ext i B v σ) (fun _ => rfl)
    (fun x => x ∈ rangeL l (h - l).toNat) hdis (rangeL l (h - l).toNat) (fun _ => False) σ
    (Inv.init _ σ) (fun _ hx => hx) (fun _ hx => hx.elim) (nodup_rangeL _ _) (fun _ _ hx => hx)
  have hall : ∀ w ∈ rangeL l (h - l).toNat, ∃ o, loopStep ext i B w σ = .ok o := by
    intro w hw
    cases hws : loopStep ext i B w σ with
    | ok o => exact ⟨o, rfl⟩
    | error e =>
      obtain ⟨e', he'⟩ := rv.2 ⟨w, hw, e, hws⟩
      rw [hseq] at he'
      cases he'
  obtain ⟨s', hs', hinv⟩ := rv.1 hall
  rw [hseq] at hs'
  cases hs'
  have hinv' : Inv (fun v => iterEv ext i B v σ) σ (fun x => x ∈ rangeL l (h - l).toNat) σ' :=
    hinv.congr (fun x => by simp)
  refine ⟨fun c hc => ?_, fun k => ?_⟩
  · simp only [memOf]
    congr 1
    by_cases hmod : ∃ v ∈ rangeL l (h - l).toNat, ModC (iterEv ext i B v σ) c
    · obtain ⟨v, hv, hmv⟩ := hmod
      rw [foldC_modifier _ _ c hc _ _ v hv (nodup_rangeL _ _) hdis hmv, hinv'.dirty c hc v hv hmv]
    · have hno : ∀ v ∈ rangeL l (h - l).toNat, ¬ ModC (iterEv ext i B v σ) c :=
        fun v hv hmv => hmod ⟨v, hv, hmv⟩
      rw [foldC_untouched _ _ c hc _ _ hno, hinv'.clean c hc hno]
  · simp only [memOf]
    congr 1
    by_cases hwr : ∃ v ∈ rangeL l (h - l).toNat, k ∈ cfgWrites (iterEv ext i B v σ)
    · obtain ⟨v, hv, hkv⟩ := hwr
      rw [foldK_writer _ _ k _ _ v hv (nodup_rangeL _ _) hdis hkv, hinv'.kdirty k v hv hkv]
    · have hno : ∀ v ∈ rangeL l (h - l).toNat, k ∉ cfgWrites (iterEv ext i B v σ) :=
        fun v hv hkv => hwr ⟨v, hv, hkv⟩
      rw [foldK_untouched _ _ k _ _ hno, hinv'.kclean k hno]

/-! ### non-vacuity: `for i in par(0,4): y[i] = x[i] + x[i+1]` -/

namespace Ex
def x : Sym := ⟨"x", 1⟩
def y : Sym := ⟨"y", 2⟩
def i : Sym := ⟨"i", 3⟩
def n (k : Int) : Expr := .lit (.int k)
/-- `y[i] = x[i] + x[i+1]` -/
def body : List Stmt :=
  [.assign y [.read i []] (.binop .add (.read x [.read i []]) (.read x [.binop .add (.read i []) (n 1)]))]
/-- `x = [1,2,3,4,5]`, `y = [0,0,0,0]` -/
def σ : State Int :=
  ⟨[], [(x, ⟨0, 0, [(5, 1)]⟩), (y, ⟨1, 0, [(4, 1)]⟩)],
    [[some 1, some 2, some 3, some 4, some 5], [some 0, some 0, some 0, some 0]], []⟩
def ext0 : String → List Int → Int := fun _ _ => 0
/-- `y[0] = x[i]`: every iteration writes the same cell -/
def racy : List Stmt := [.assign y [n 0] (.read x [.read i []])]
/-- the data value of a memory cell of the event model -/
def dataOf : PVal Int → Option (Option Int)
  | .d v => some v
  | .c _ => none
end Ex

theorem allDone_iff {C W : Type} (ts : List (Par.Thread C W)) :
    Par.AllDone ts ↔ ts.all (fun t => t.evs.isEmpty) = true := by
  unfold Par.AllDone
  rw [List.all_eq_true]
  constructor
  · intro h t ht; rw [h t ht]; rfl
  · intro h t ht; exact List.isEmpty_iff.1 (h t ht)

/-- the iterations are pairwise `Disjoint_Memory` (they share reads of `x`, which is allowed) -/
example : iterDisjointB Ex.ext0 Ex.i Ex.body Ex.σ 0 4 = true := by decide +kernel

/-- the sequential loop runs, and running the iterations in the order 3, 1, 0, 2 gives the same -/
example : (execS Ex.ext0 (.loop Ex.i (Ex.n 0) (Ex.n 4) Ex.body true) Ex.σ).toOption.map (·.heap)
    = some [[some 1, some 2, some 3, some 4, some 5], [some 3, some 5, some 7, some 9]] := by
  decide +kernel

example : ResEq (runSteps (loopStep Ex.ext0 Ex.i Ex.body) [3, 1, 0, 2] Ex.σ)
    (execS Ex.ext0 (.loop Ex.i (Ex.n 0) (Ex.n 4) Ex.body true) Ex.σ) :=
  par_loop_order_independent Ex.ext0 Ex.i (Ex.n 0) (Ex.n 4) Ex.body true Ex.σ 0 4 rfl rfl (by omega)
    (iterDisjoint_of_B Ex.ext0 (by decide +kernel)) [3, 1, 0, 2] (by decide)
    (fun x => by simp only [List.mem_cons, List.not_mem_nil, or_false]; omega)

/-- the round-robin interleaving of the 4 × 3 atomic events (read, read, write per iteration) is
    complete, and ends — like every complete interleaving — in the memory of the sequential result -/
example : ∃ σ' : State Int,
    execS Ex.ext0 (.loop Ex.i (Ex.n 0) (Ex.n 4) Ex.body true) Ex.σ = .ok σ' ∧
    Par.AllDone (Par.run (memOf (heapGet Ex.σ.heap) Ex.σ.cfg)
      (threadsOf (fun v => iterEv Ex.ext0 Ex.i Ex.body v Ex.σ) Ex.σ.heap.length (rangeL 0 (4 - 0 : Int).toNat))
      [0, 1, 2, 3, 0, 1, 2, 3, 0, 1, 2, 3]).2 ∧
    ∀ c : Cell, c.1 < Ex.σ.heap.length →
      (Par.run (memOf (heapGet Ex.σ.heap) Ex.σ.cfg)
        (threadsOf (fun v => iterEv Ex.ext0 Ex.i Ex.body v Ex.σ) Ex.σ.heap.length (rangeL 0 (4 - 0 : Int).toNat))
        [0, 1, 2, 3, 0, 1, 2, 3, 0, 1, 2, 3]).1 (.inl c) = .d (heapGet σ'.heap c) := by
  have hok : (execS Ex.ext0 (.loop Ex.i (Ex.n 0) (Ex.n 4) Ex.body true) Ex.σ).toOption.isSome = true := by
    decide +kernel
  cases hseq : execS Ex.ext0 (.loop Ex.i (Ex.n 0) (Ex.n 4) Ex.body true) Ex.σ with
  | error e => rw [hseq] at hok; simp [Except.toOption] at hok
  | ok σ' =>
    have hdone : Par.AllDone (Par.run (memOf (heapGet Ex.σ.heap) Ex.σ.cfg)
        (threadsOf (fun v => iterEv Ex.ext0 Ex.i Ex.body v Ex.σ) Ex.σ.heap.length (rangeL 0 (4 - 0 : Int).toNat))
        [0, 1, 2, 3, 0, 1, 2, 3, 0, 1, 2, 3]).2 := by
      rw [allDone_iff]; decide +kernel
    exact ⟨σ', rfl, hdone,
      (par_loop_any_interleaving Ex.ext0 Ex.i (Ex.n 0) (Ex.n 4) Ex.body true Ex.σ σ' 0 4 rfl rfl (by omega)
        (iterDisjoint_of_B Ex.ext0 (by decide +kernel)) hseq _ hdone).1⟩

/-! ### the hypothesis is needed: `for i in par(0,2): y[0] = x[i]` -/

/-- both iterations write `y[0]`: not `Disjoint_Memory` -/
example : iterDisjointB Ex.ext0 Ex.i Ex.racy Ex.σ 0 2 = false := by decide +kernel

/-- **order matters**: the sequential loop leaves `y[0] = x[1] = 2`, the order 1, 0 leaves
    `y[0] = x[0] = 1` -/
theorem racy_order_differs :
    ¬ ResEq (runSteps (loopStep Ex.ext0 Ex.i Ex.racy) [1, 0] Ex.σ)
      (execS Ex.ext0 (.loop Ex.i (Ex.n 0) (Ex.n 2) Ex.racy true) Ex.σ) := by
  have h1 : (runSteps (loopStep Ex.ext0 Ex.i Ex.racy) [1, 0] Ex.σ).toOption.map (·.heap)
      = some [[some 1, some 2, some 3, some 4, some 5], [some 1, some 0, some 0, some 0]] := by
    decide +kernel
  have h2 : (execS Ex.ext0 (.loop Ex.i (Ex.n 0) (Ex.n 2) Ex.racy true) Ex.σ).toOption.map (·.heap)
      = some [[some 1, some 2, some 3, some 4, some 5], [some 2, some 0, some 0, some 0]] := by
    decide +kernel
  intro h
  cases hr : runSteps (loopStep Ex.ext0 Ex.i Ex.racy) [1, 0] Ex.σ with
  | error e => rw [hr] at h1; simp [Except.toOption] at h1
  | ok s1 =>
    cases hs : execS Ex.ext0 (.loop Ex.i (Ex.n 0) (Ex.n 2) Ex.racy true) Ex.σ with
    | error e => rw [hs] at h2; simp [Except.toOption] at h2
    | ok s2 =>
      rw [hr, hs] at h
      rw [hr] at h1
      rw [hs] at h2
      simp only [Except.toOption, Option.map_some, Option.some.injEq] at h1 h2
      have := h.2.2.1
      rw [h1, h2] at this
      revert this
      decide

/-- **an interleaving differs**: iteration 1 performs its read and its write, then iteration 0
    its read and its write; all events are done and `y[0]` holds 1, whereas the sequential loop
    leaves 2 -/
theorem racy_interleaving_differs :
    Par.AllDone (Par.run (memOf (heapGet Ex.σ.heap) Ex.σ.cfg)
      (threadsOf (fun v => iterEv Ex.ext0 Ex.i Ex.racy v Ex.σ) Ex.σ.heap.length (rangeL 0 2))
      [1, 1, 0, 0]).2 ∧
    Ex.dataOf ((Par.run (memOf (heapGet Ex.σ.heap) Ex.σ.cfg)
      (threadsOf (fun v => iterEv Ex.ext0 Ex.i Ex.racy v Ex.σ) Ex.σ.heap.length (rangeL 0 2))
      [1, 1, 0, 0]).1 (.inl (1, 0))) = some (some 1) ∧
    (execS Ex.ext0 (.loop Ex.i (Ex.n 0) (Ex.n 2) Ex.racy true) Ex.σ).toOption.map
      (fun s => heapGet s.heap (1, 0)) = some (some 2) := by
  refine ⟨?_, by decide +kernel, by decide +kernel⟩
  rw [allDone_iff]
  decide +kernel

end Exo.C09Sem
