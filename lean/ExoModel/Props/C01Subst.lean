/-
  Property C01, part 2 — rewrites whose correctness rests on the substitution lemma
  (ExoModel/Lemmas/Subst.lean): shift_loop, unroll_loop (one iteration = the body with the
  iteration value substituted), divide_loop (perfect).
-/
import ExoModel.Equiv
import ExoModel.Lemmas.Exec
import ExoModel.Lemmas.Rewrites
import ExoModel.Lemmas.Subst
import ExoModel.Lemmas.LoopSubst

set_option linter.unusedSectionVars false
namespace Exo.C01
open Exo

variable {V : Type} [DataAlg V] (ext : String → List V → V)
/-! ### renaming a loop variable (what `Alpha_Rename` does to the iterator of a copied loop) -/

/-- `for i in [lo,hi): B`  =  `for i' in [lo,hi): B[i ↦ i']`  when `i'` does not occur in `B` and
    is not re-bound inside it.  The real primitives that duplicate a loop (cut_loop, the tail of
    divide_loop, fission) give the copy a fresh iterator; this is the invariance they rely on.
    (Renaming of names *defined* inside the copied body — allocations, windows — is not covered.) -/
theorem rename_loop_var (i i' : Sym) (lo hi : Expr) (B : List Stmt) (par : Bool) (σ : State V)
    (hocc : occL i' B = false) (hlv : ∀ k ∈ loopVarsL B, k ≠ i') :
    execS ext (.loop i' lo hi (substL i (.read i' []) B) par) σ
      = execS ext (.loop i lo hi B par) σ := by
  simp only [execS]
  cases evalC σ lo with
  | error e => rfl
  | ok l =>
    cases evalC σ hi with
    | error e => rfl
    | ok h =>
      simp only [bind, Except.bind]
      split
      · rfl
      · congr 1
        funext v s
        have := loopStep_subst_gen ext i' i (.read i' []) B v v s rfl
          (by simp [evalC, State.bind, lookupSym]; rfl)
          (fun k hk => by
            have := hlv k hk
            simp [Expr.occC]
            exact fun e => this e.symm)
          (Or.inl hocc)
        exact this

/-! ### reorder_loops -/

/-- `reorder_loops`:  `for i in [lo1,hi1): for j in [lo2,hi2): B`  ≈  `for j …: for i …: B`
    when the four bounds read no configuration state, the inner bounds do not mention the outer
    iterator (and vice versa), and iteration `(a, b)` commutes with every iteration `(a', b')`
    that the interchange moves before it (`a < a'`, `b' < b`) — the semantic content of
    `Check_ReorderLoops` -/
theorem reorder_loops (i j : Sym) (hij : i ≠ j) (lo1 hi1 lo2 hi2 : Expr) (B : List Stmt)
    (par1 par2 : Bool) (σ : State V) (l1 h1 l2 h2 : Int)
    (hl1 : evalC σ lo1 = .ok l1) (hh1 : evalC σ hi1 = .ok h1)
    (hl2 : evalC σ lo2 = .ok l2) (hh2 : evalC σ hi2 = .ok h2) (hle1 : l1 ≤ h1) (hle2 : l2 ≤ h2)
    (f1 : lo1.cfgFree = true ∧ hi1.cfgFree = true) (f2 : lo2.cfgFree = true ∧ hi2.cfgFree = true)
    (o1 : lo1.occC j = false ∧ hi1.occC j = false) (o2 : lo2.occC i = false ∧ hi2.occC i = false)
    (hc : ∀ a a' b b', a < a' → b' < b → ∀ s,
      ExEq (stepIJ ext i j B a b s >>= stepIJ ext i j B a' b')
           (stepIJ ext i j B a' b' s >>= stepIJ ext i j B a b)) :
    ExEq (execS ext (.loop i lo1 hi1 [.loop j lo2 hi2 B par2] par1) σ)
         (execS ext (.loop j lo2 hi2 [.loop i lo1 hi1 B par1] par2) σ) := by
  rw [execS_loop ext i lo1 hi1 _ par1 σ l1 h1 hl1 hh1 hle1,
      execS_loop ext j lo2 hi2 _ par2 σ l2 h2 hl2 hh2 hle2]
  -- rewrite both outer iterations over states that keep σ's environment and views
  have left := iterate_eq_of_inv (fun s : State V => s.env = σ.env ∧ s.views = σ.views)
    (loopStep ext i [.loop j lo2 hi2 B par2])
    (fun a s => iterate (fun b => stepIJ ext i j B a b) (h2 - l2).toNat l2 s) 0
    (fun a s s' hs hstep => by
      have sc := iterate_heapLen _ (fun v t t' ht => by
        obtain ⟨t2, h2', rfl⟩ := map_leave_ok ht
        have := (execL_scope ext B ((t.bind i a).bind j v) t2 h2').2.1
        exact ⟨leave_heap_length t t2 this, rfl, rfl⟩) _ _ _ _ hstep
      exact ⟨sc.2.1.trans hs.1, sc.2.2.trans hs.2⟩)
    (fun a s hs => by
      simp only [Int.add_zero]
      exact nest_outer_step ext i j lo2 hi2 B par2 a σ s l2 h2 hl2 hh2 hle2 f2.1 f2.2 o2.1 o2.2 hs.1 hs.2)
    (h1 - l1).toNat l1 σ ⟨rfl, rfl⟩
  have right := iterate_eq_of_inv (fun s : State V => s.env = σ.env ∧ s.views = σ.views)
    (loopStep ext j [.loop i lo1 hi1 B par1])
    (fun b s => iterate (fun a => stepIJ ext i j B a b) (h1 - l1).toNat l1 s) 0
    (fun b s s' hs hstep => by
      have sc := iterate_heapLen _ (fun v t t' ht => by
        obtain ⟨t2, h2', rfl⟩ := map_leave_ok ht
        have := (execL_scope ext B ((t.bind i v).bind j b) t2 h2').2.1
        exact ⟨leave_heap_length t t2 this, rfl, rfl⟩) _ _ _ _ hstep
      exact ⟨sc.2.1.trans hs.1, sc.2.2.trans hs.2⟩)
    (fun b s hs => by
      simp only [Int.add_zero]
      rw [nest_outer_step ext j i lo1 hi1 B par1 b σ s l1 h1 hl1 hh1 hle1 f1.1 f1.2 o1.1 o1.2 hs.1 hs.2]
      congr 1
      funext a t
      exact stepIJ_swap ext i j hij B a b t)
    (h2 - l2).toNat l2 σ ⟨rfl, rfl⟩
  simp only [Int.add_zero] at left right
  rw [left, right]
  exact iterate_interchange (fun a b => stepIJ ext i j B a b) hc _ _ _ _ σ

/-! ### lift_scope: an `if` out of a loop -/

/-- `for i in [lo,hi): if c: B else: E`  =  `if c: (for i: B) else: (for i: E)`  when the
    condition reads no configuration state and does not mention `i` (the syntactic guard of
    `DoLiftScope`), so that it has one value throughout the loop -/
theorem lift_if_out_of_loop (i : Sym) (lo hi c : Expr) (B E : List Stmt) (par : Bool) (σ : State V)
    (l h b : Int) (hl : evalC σ lo = .ok l) (hh : evalC σ hi = .ok h) (hle : l ≤ h)
    (hc : evalC σ c = .ok b) (fc : c.cfgFree = true) (ic : c.occC i = false) :
    execS ext (.loop i lo hi [.ite c B E] par) σ
      = execS ext (.ite c [.loop i lo hi B par] [.loop i lo hi E par]) σ := by
  rw [execS_loop ext i lo hi _ par σ l h hl hh hle]
  have hstep : ∀ v (s : State V), s.env = σ.env ∧ s.views = σ.views →
      loopStep ext i [.ite c B E] v s
        = if b ≠ 0 then loopStep ext i B v s else loopStep ext i E v s := by
    intro v s hs
    exact branch_step ext i c B E v s b (evalC_bound_stable c i v σ s b fc ic hs.1 hs.2 hc)
  simp only [execS, hc, bind, Except.bind]
  by_cases hb : b = 0
  · simp only [hb, ne_eq, not_true_eq_false, if_false]
    rw [execL_singleton, execS_loop ext i lo hi E par σ l h hl hh hle]
    have key := iterate_eq_of_inv (fun s : State V => s.env = σ.env ∧ s.views = σ.views)
      (loopStep ext i [.ite c B E]) (loopStep ext i E) 0
      (fun v s s' hs hstp => by
        have sc := loopStep_scope ext i E v s s' hstp
        exact ⟨sc.2.1.trans hs.1, sc.2.2.trans hs.2⟩)
      (fun v s hs => by rw [hstep v s hs]; simp [hb])
      (h - l).toNat l σ ⟨rfl, rfl⟩
    simp only [Int.add_zero] at key
    rw [key]
    cases hit : iterate (loopStep ext i E) (h - l).toNat l σ with
    | error e => rfl
    | ok s1 =>
      have sc := iterate_heapLen _ (loopStep_scope ext i E) _ _ _ _ hit
      simp only [Except.map]
      rw [leave_of_same_scope σ s1 sc.2.1 sc.2.2 sc.1]
  · simp only [hb, ne_eq, not_false_eq_true, if_true]
    rw [execL_singleton, execS_loop ext i lo hi B par σ l h hl hh hle]
    have key := iterate_eq_of_inv (fun s : State V => s.env = σ.env ∧ s.views = σ.views)
      (loopStep ext i [.ite c B E]) (loopStep ext i B) 0
      (fun v s s' hs hstp => by
        have sc := loopStep_scope ext i B v s s' hstp
        exact ⟨sc.2.1.trans hs.1, sc.2.2.trans hs.2⟩)
      (fun v s hs => by rw [hstep v s hs]; simp [hb])
      (h - l).toNat l σ ⟨rfl, rfl⟩
    simp only [Int.add_zero] at key
    rw [key]
    cases hit : iterate (loopStep ext i B) (h - l).toNat l σ with
    | error e => rfl
    | ok s1 =>
      have sc := iterate_heapLen _ (loopStep_scope ext i B) _ _ _ _ hit
      simp only [Except.map]
      rw [leave_of_same_scope σ s1 sc.2.1 sc.2.2 sc.1]

/-! ### shift_loop -/

/-- `for i in [lo, hi): B`  =  `for i in [nlo, nlo + (hi - lo)): B[i ↦ i + (lo - nlo)]`
    (the shape `DoShiftLoop` builds), when `lo` and `nlo` depend on the control environment only,
    do not mention `i`, and no loop inside `B` re-binds a variable of `lo`, `nlo` or `i` itself -/
theorem shift_loop (i : Sym) (lo hi nlo : Expr) (B : List Stmt) (par : Bool) (σ : State V)
    (l h n : Int) (hl : evalC σ lo = .ok l) (hh : evalC σ hi = .ok h) (hn : evalC σ nlo = .ok n)
    (hle : l ≤ h) (elo : lo.envOnly = true) (enlo : nlo.envOnly = true)
    (ilo : lo.occC i = false) (inlo : nlo.occC i = false)
    (hlv : ∀ j ∈ loopVarsL B,
      (Expr.binop .add (.read i []) (.binop .sub lo nlo)).occC j = false) :
    execS ext (.loop i nlo (.binop .add nlo (.binop .sub hi lo))
        (substL i (.binop .add (.read i []) (.binop .sub lo nlo)) B) par) σ
      = execS ext (.loop i lo hi B par) σ := by
  have hhi' : evalC σ (.binop .add nlo (.binop .sub hi lo)) = .ok (n + (h - l)) := by
    simp [evalC, hn, hh, hl, ctrlOp, bind, Except.bind, pure, Except.pure]
  rw [execS_loop ext i nlo _ _ par σ n (n + (h - l)) hn hhi' (by omega),
      execS_loop ext i lo hi B par σ l h hl hh hle]
  have hcnt : (n + (h - l) - n).toNat = (h - l).toNat := by congr 1; omega
  rw [hcnt]
  have key := iterate_eq_of_inv (fun s : State V => s.env = σ.env)
    (loopStep ext i (substL i (.binop .add (.read i []) (.binop .sub lo nlo)) B))
    (loopStep ext i B) (l - n)
    (fun v s s' hs hstep => (loopStep_scope ext i B v s s' hstep).2.1.trans hs)
    (fun v s hs => by
      apply loopStep_subst ext i _ B v (v + (l - n)) s
      · simp [Expr.envOnly, elo, enlo]
      · -- value of i + (lo - nlo) in s.bind i v
        have e1 : evalC (s.bind i v) lo = .ok l := by
          rw [evalC_envOnly lo elo σ (s.bind i v) (fun y hy => by
            have : y ≠ i := by intro e; subst e; rw [ilo] at hy; cases hy
            simp [State.bind, lookupSym_cons, this, hs])]
          exact hl
        have e2 : evalC (s.bind i v) nlo = .ok n := by
          rw [evalC_envOnly nlo enlo σ (s.bind i v) (fun y hy => by
            have : y ≠ i := by intro e; subst e; rw [inlo] at hy; cases hy
            simp [State.bind, lookupSym_cons, this, hs])]
          exact hn
        have ei : evalC (s.bind i v) (.read i []) = .ok v := by
          simp [evalC, State.bind, lookupSym]; rfl
        have es : evalC (s.bind i v) (.binop .sub lo nlo) = .ok (l - n) := by
          rw [evalC, e1, e2]; rfl
        rw [evalC, ei, es]; rfl
      · exact hlv)
    (h - l).toNat n σ rfl
  rw [key]
  congr 1
  omega

/-! ### divide_loop (perfect) -/

/-- `divide_loop(..., perfect=True)`:  `for i in [0, hi): B`  =
    `for io in [0, ohi): for ii in [0, q): B[i ↦ q * io + ii]`  when `hi = q * m` and the new
    outer bound `ohi` (whatever expression the primitive builds for `hi / q`) has value `m` in the
    current state, `io`, `ii` are distinct fresh names not occurring in `B`, and no loop inside
    `B` re-binds them -/
theorem divide_loop_perfect (i io ii : Sym) (hi ohi : Expr) (B : List Stmt) (par : Bool) (q m : Nat)
    (σ : State V) (hh : evalC σ hi = .ok ((q : Int) * m)) (hm : evalC σ ohi = .ok (m : Int))
    (hio : occL io B = false) (hii : occL ii B = false) (hne : io ≠ ii)
    (hlv : ∀ k ∈ loopVarsL B, k ≠ io ∧ k ≠ ii) :
    execS ext (.loop io (.lit (.int 0)) ohi
        [.loop ii (.lit (.int 0)) (.lit (.int q))
          (substL i (.binop .add (.binop .mul (.lit (.int q)) (.read io [])) (.read ii [])) B) par] par) σ
      = execS ext (.loop i (.lit (.int 0)) hi B par) σ := by
  rw [divided_main ext i io ii ohi B par q m σ hm hio hii hne hlv,
      execS_loop ext i _ hi B par σ 0 ((q : Int) * m) rfl hh (Int.mul_nonneg (by omega) (by omega))]
  simp only [Int.sub_zero]
  have hcnt : ((q : Int) * (m : Int)).toNat = q * m := by
    rw [← Int.natCast_mul]; exact Int.toNat_natCast _
  rw [hcnt]

/-- `divide_loop(..., tail="cut")`: the main nest over `hi / q` blocks followed by the tail loop
    `for i3 in [0, hi % q): B[i ↦ i3 + (hi / q) * q]` equals the original loop, for every
    non-negative value of `hi`, when `hi` depends on the control environment only -/
theorem divide_loop_cut (i io ii i3 : Sym) (hi : Expr) (B : List Stmt) (par : Bool) (q : Nat)
    (hq : 0 < q) (σ : State V) (N : Int) (hN : 0 ≤ N) (hh : evalC σ hi = .ok N)
    (ehi : hi.envOnly = true) (hi3 : hi.occC i3 = false)
    (hio : occL io B = false) (hii : occL ii B = false) (hne : io ≠ ii) (h3 : occL i3 B = false)
    (hlv : ∀ k ∈ loopVarsL B, k ≠ io ∧ k ≠ ii ∧ k ≠ i3 ∧ hi.occC k = false) :
    execL ext [.loop io (.lit (.int 0)) (.binop .div hi (.lit (.int q)))
        [.loop ii (.lit (.int 0)) (.lit (.int q))
          (substL i (.binop .add (.binop .mul (.lit (.int q)) (.read io [])) (.read ii [])) B) par] par,
      .loop i3 (.lit (.int 0)) (.binop .mod hi (.lit (.int q)))
        (substL i (.binop .add (.read i3 []) (.binop .mul (.binop .div hi (.lit (.int q))) (.lit (.int q)))) B) par] σ
      = execS ext (.loop i (.lit (.int 0)) hi B par) σ := by
  have hq' : ¬ ((q : Int) ≤ 0) := by omega
  obtain ⟨m, hm⟩ : ∃ m : Nat, N / (q : Int) = m :=
    ⟨(N / (q : Int)).toNat, by
      have : 0 ≤ N / (q : Int) := Int.ediv_nonneg hN (by omega)
      omega⟩
  obtain ⟨t, ht⟩ : ∃ t : Nat, N % (q : Int) = t :=
    ⟨(N % (q : Int)).toNat, by
      have : 0 ≤ N % (q : Int) := Int.emod_nonneg _ (by omega)
      omega⟩
  have hNsplit : N = (q : Int) * m + t := by
    have := Int.mul_ediv_add_emod N (q : Int)
    rw [hm, ht] at this; omega
  have evdiv : ∀ s : State V, evalC s hi = .ok N → evalC s (.binop .div hi (.lit (.int q))) = .ok (m : Int) := by
    intro s hs
    rw [evalC, hs]
    simp only [evalC, bind, Except.bind, ctrlOp, hq', if_false, pure, Except.pure, hm]
  have evmod : ∀ s : State V, evalC s hi = .ok N → evalC s (.binop .mod hi (.lit (.int q))) = .ok (t : Int) := by
    intro s hs
    rw [evalC, hs]
    simp only [evalC, bind, Except.bind, ctrlOp, hq', if_false, pure, Except.pure, ht]
  -- right-hand side
  rw [execS_loop ext i _ hi B par σ 0 N rfl hh hN]
  have hcnt : (N - 0).toNat = q * m + t := by
    rw [Int.sub_zero, hNsplit]
    have : ((q : Int) * (m : Int) + (t : Int)) = ((q * m + t : Nat) : Int) := by
      simp [Int.natCast_add, Int.natCast_mul]
    rw [this]; exact Int.toNat_natCast _
  rw [hcnt, iterate_add]
  -- left-hand side
  simp only [execL, bind, Except.bind]
  rw [divided_main ext i io ii _ B par q m σ (evdiv σ hh) hio hii hne
        (fun k hk => ⟨(hlv k hk).1, (hlv k hk).2.1⟩)]
  cases h1 : iterate (loopStep ext i B) (q * m) 0 σ with
  | error e => rfl
  | ok σ1 =>
    have sc := iterate_scope _ (loopStep_scope ext i B) _ _ _ _ h1
    have hh1 : evalC σ1 hi = .ok N := by
      rw [evalC_envOnly hi ehi σ σ1 (fun y _ => by rw [sc.1])]; exact hh
    simp only []
    rw [execS_loop ext i3 _ _ _ par σ1 0 t rfl (evmod σ1 hh1) (by omega)]
    simp only [Int.sub_zero, Int.toNat_natCast]
    have key := iterate_eq_of_inv (fun s : State V => s.env = σ1.env)
      (loopStep ext i3 (substL i (.binop .add (.read i3 []) (.binop .mul (.binop .div hi (.lit (.int q))) (.lit (.int q)))) B))
      (loopStep ext i B) ((q : Int) * m)
      (fun v s s' hs hstep => (loopStep_scope ext i B v s s' hstep).2.1.trans hs)
      (fun v s hs => by
        apply loopStep_subst_gen ext i3 i _ B v (v + (q : Int) * m) s
        · simp [Expr.envOnly, ehi]
        · have e0 : evalC (s.bind i3 v) hi = .ok N := by
            rw [evalC_envOnly hi ehi σ1 (s.bind i3 v) (fun y hy => by
              have : y ≠ i3 := by intro e; subst e; rw [hi3] at hy; cases hy
              simp [State.bind, lookupSym_cons, this, hs])]
            exact hh1
          have e1 : evalC (s.bind i3 v) (.read i3 []) = .ok v := by
            simp [evalC, State.bind, lookupSym]; rfl
          have e2 : evalC (s.bind i3 v) (.binop .mul (.binop .div hi (.lit (.int q))) (.lit (.int q)))
              = .ok ((m : Int) * q) := by
            rw [evalC, evdiv _ e0]; rfl
          rw [evalC, e1, e2]
          simp only [bind, Except.bind, ctrlOp, pure, Except.pure]
          congr 1
          rw [Int.mul_comm]
        · intro k hk
          have := hlv k hk
          simp [Expr.occC, this.2.2.2]
          exact fun e => this.2.2.1 e.symm
        · exact Or.inl h3)
      t 0 σ1 rfl
    rw [key]
    have e0 : (0 : Int) + (q : Int) * m = (0 : Int) + ((q * m : Nat) : Int) := by
      simp [Int.natCast_mul]
    rw [e0]
    cases iterate (loopStep ext i B) t (0 + ((q * m : Nat) : Int)) σ1 <;> rfl

/-! ### divide_loop (guard) -/

/-- `divide_loop(..., tail="guard")` (the default):
    `for io in [0, (hi + q - 1) / q): for ii in [0, q): if q*io + ii < hi: B[i ↦ q*io + ii]`
    equals `for i in [0, hi): B` for every non-negative value of `hi`, when `hi` depends on the
    control environment only and mentions none of `i`, `io`, `ii`, which are fresh for `B` -/
theorem divide_loop_guard (i io ii : Sym) (hi : Expr) (B : List Stmt) (par : Bool) (q : Nat)
    (hq : 0 < q) (σ : State V) (N : Int) (hN : 0 ≤ N) (hh : evalC σ hi = .ok N)
    (ehi : hi.envOnly = true) (hi_i : hi.occC i = false) (hi_io : hi.occC io = false)
    (hi_ii : hi.occC ii = false) (hio : occL io B = false) (hii : occL ii B = false)
    (hne : io ≠ ii) (hio_i : io ≠ i) (hii_i : ii ≠ i)
    (hlv : ∀ k ∈ loopVarsL B, k ≠ io ∧ k ≠ ii) :
    execS ext (.loop io (.lit (.int 0))
        (.binop .div (.binop .add hi (.lit (.int ((q : Int) - 1)))) (.lit (.int q)))
        [.loop ii (.lit (.int 0)) (.lit (.int q))
          [.ite (.binop .lt (.binop .add (.binop .mul (.lit (.int q)) (.read io [])) (.read ii [])) hi)
            (substL i (.binop .add (.binop .mul (.lit (.int q)) (.read io [])) (.read ii [])) B) []] par] par) σ
      = execS ext (.loop i (.lit (.int 0)) hi B par) σ := by
  have hq' : ¬ ((q : Int) ≤ 0) := by omega
  obtain ⟨M, hM⟩ : ∃ M : Nat, (N + ((q : Int) - 1)) / (q : Int) = M :=
    ⟨((N + ((q : Int) - 1)) / (q : Int)).toNat, by
      have : 0 ≤ (N + ((q : Int) - 1)) / (q : Int) := Int.ediv_nonneg (by omega) (by omega)
      omega⟩
  have hcover : N ≤ ((q * M : Nat) : Int) := by
    have h1 := Int.lt_mul_ediv_self_add (x := N + ((q : Int) - 1)) (k := (q : Int)) (by omega)
    rw [hM] at h1
    simp only [Int.natCast_mul]
    omega
  have hceil : evalC σ (.binop .div (.binop .add hi (.lit (.int ((q : Int) - 1)))) (.lit (.int q)))
      = .ok (M : Int) := by
    have ea : evalC σ (.binop .add hi (.lit (.int ((q : Int) - 1)))) = .ok (N + ((q : Int) - 1)) := by
      rw [evalC, hh]; rfl
    rw [evalC, ea]
    simp only [evalC, bind, Except.bind, ctrlOp, hq', if_false, pure, Except.pure, hM]
  -- the guarded body is the substitution instance of `if i < hi: B`
  have hsub : substL i (.binop .add (.binop .mul (.lit (.int q)) (.read io [])) (.read ii []))
      [.ite (.binop .lt (.read i []) hi) B []]
      = [.ite (.binop .lt (.binop .add (.binop .mul (.lit (.int q)) (.read io [])) (.read ii [])) hi)
          (substL i (.binop .add (.binop .mul (.lit (.int q)) (.read io [])) (.read ii [])) B) []] := by
    simp [substL, Stmt.subst, Expr.substC, substC_of_not_occ i _ hi hi_i]
  rw [← hsub]
  rw [divided_main ext i io ii _ [.ite (.binop .lt (.read i []) hi) B []] par q M σ hceil
      (by simp [occL, Stmt.occ, Expr.occC, hio, hi_io, hio_i.symm])
      (by simp [occL, Stmt.occ, Expr.occC, hii, hi_ii, hii_i.symm])
      hne
      (fun k hk => by
        simp only [loopVarsL, Stmt.loopVars, List.append_nil] at hk
        exact hlv k hk)]
  rw [execS_loop ext i _ hi B par σ 0 N rfl hh hN]
  simp only [Int.sub_zero]
  exact guarded_loop_eq ext i hi B σ N (q * M) hN hcover hh ehi hi_i

/-! ### unroll_loop -/

/-- `unroll_loop` on a loop with literal bounds `lo`, `lo + n`: the loop equals the sequence of
    `n` substituted copies of its body (for bodies that introduce no name; the real primitive
    renames the names a body introduces, which this theorem does not cover) -/
theorem unroll_loop (i : Sym) (B : List Stmt) (par : Bool) (hn : noDefs B = true) (lo : Int) (n : Nat)
    (σ : State V) :
    execS ext (.loop i (.lit (.int lo)) (.lit (.int (lo + n))) B par) σ
      = execL ext (unrolled i B n lo) σ := by
  rw [execS_loop ext i _ _ B par σ lo (lo + n) rfl rfl (by omega)]
  have : (lo + (n : Int) - lo).toNat = n := by omega
  rw [this]
  clear this
  induction n generalizing lo σ with
  | zero => rfl
  | succ k ih =>
    simp only [iterate, unrolled, bind, Except.bind]
    rw [execL_append, loopStep_eq_substLit ext i B hn lo σ]
    cases execL ext (substL i (.lit (.int lo)) B) σ with
    | error e => rfl
    | ok s1 => simp only [bind, Except.bind]; exact ih (lo + 1) s1

example : unrolled ⟨"i", 1⟩ [.assign ⟨"x", 2⟩ [.read ⟨"i", 1⟩ []] (.lit (.data 1 1))] 2 0
    = [.assign ⟨"x", 2⟩ [.lit (.int 0)] (.lit (.data 1 1)),
       .assign ⟨"x", 2⟩ [.lit (.int 1)] (.lit (.data 1 1))] := by rfl

end Exo.C01
