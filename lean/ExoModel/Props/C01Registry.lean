/-
  Props/C01Registry — the per-run obligations that tie "compositions of primitives such as the
  standard-library schedules" (property C01) to the code: `Gen/Registry.lean` is REGENERATED from
  `/repo/src/exo/API_scheduling.py` and `stdlib/*.py` by harness/translate/registry.py on every run.

  If no stdlib function constructs or copies a `Procedure` and none writes a Procedure's private state,
  every procedure a stdlib schedule returns is the end of a finite chain of `@sched_op` primitive steps
  (or `Procedure` methods, which are C19's subject); `Exo.C01.equiv_trans` composes the per-step
  equivalences, the possibly-changed configuration sets adding up.
-/
import ExoModel.Gen.Registry
import ExoModel.Props.C01

namespace Exo.C01.Registry
open Exo.Gen.Registry

/-- no stdlib function builds a `Procedure` object other than through a primitive -/
theorem stdlib_has_no_procedure_constructor : ctorSites = [] := by decide

/-- no stdlib function writes `_loopir_proc`, `_provenance_eq_Procedure`, `_forward`, `_mod_config` -/
theorem stdlib_never_writes_private_state : privateWrites = [] := by decide

/-- every `Procedure(...)` call of API_scheduling.py sits inside a `@sched_op` primitive -/
theorem api_constructs_only_in_primitives : apiCtorHelpers = [] := by decide

/-- the registry is not empty (the translator found the decorators) and has no duplicates -/
theorem primitives_nonempty_nodup : 40 ≤ primitives.length ∧ primitives.Nodup := by decide

/-- composition of two steps, as used along a stdlib call tree (restated from `equiv_trans`) -/
theorem two_step_schedule {K₁ K₂ : String × String → Prop} {p q r : Proc}
    (h₁ : Equiv K₁ p q) (h₂ : Equiv K₂ q r) : Equiv (fun k => K₁ k ∨ K₂ k) p r :=
  Exo.C01.equiv_trans h₁ h₂

end Exo.C01.Registry
