/-
  C02 — the index arithmetic of the emitted C is the index arithmetic of the program.

  Model: ExoModel.CIndex (literal transcription of `lift_to_cir`, `simplify_cir`, `comp_cir`, the
  index part of `comp_e`, `exo_floor_div`, `tensor_strides`, `get_strides`, `get_idx_offset`,
  `window_struct_fields` / `Memory.window`, `new_varname`).  Reference: ExoModel.Sem (`View`,
  `viewOffset`, `applyAcc`, `evalView`, `cellOf`, `denseDims`) and ExoModel.Range (`eval`,
  `isNonNeg`).  C's `/` and `%` are `Int.tdiv` / `Int.tmod`, the program's are `Int./`, `Int.%`.

    A  arithmetic:   the helper `exo_floor_div` is floor division; C `/`, `%` agree with floor
                     exactly on non-negative or divisible numerators; `comp_cir`, `simplify_cir`,
                     `lift_to_cir`, `comp_e` preserve the value — except that `%` is emitted
                     verbatim (`…_partial` + witness, DESIGN finding F6)
    B  strides:      `tensor_strides` = the strides of `denseDims`; linearisation is a bijection
                     between in-bounds index tuples and `[0, ∏ shape)`; symbolic = numeric
    C  windows:      the value of the emitted window struct / access expression is the `View` /
                     cell of the reference semantics, also through chains of windows
    D  names:        `new_varname` returns a name not in `names`; different visible symbols never
                     share a C name

  Every theorem is followed by an `example` instantiating its hypotheses on a concrete value.
-/
import ExoModel.Lemmas.CIndexArith
import ExoModel.Lemmas.CIndexWindow
import ExoModel.Lemmas.CIndexNames

namespace Exo.CIndex.C02
open Exo Exo.CIndex
open Exo.Range (IExpr Op Val)

/-! concrete symbols and valuations used by the examples -/
def i : Sym := ⟨"i", 1⟩
def j : Sym := ⟨"j", 2⟩
def A : Sym := ⟨"A", 3⟩
/-- `i = -5`, `j = 7` -/
def ρ1 : Val := fun s => if s = i then -5 else if s = j then 7 else 0
def σ1 : Sym → Nat → Int := fun _ d => if d = 0 then 6 else 1

/-! ## A. arithmetic of the emitted C -/

/-- the static helper `exo_floor_div(num, quot)`, as written (on C's truncating `/`), is floor
    division for every numerator and every positive divisor -/
theorem exoFloorDiv_eq_floor (n q : Int) (hq : 0 < q) : exoFloorDiv n q = n / q :=
  CIndex_exoFloorDiv_eq_floor n q hq

example : exoFloorDiv (-7) 2 = -7 / 2 := exoFloorDiv_eq_floor (-7) 2 (by decide)
example : exoFloorDiv (-7) 2 = -4 ∧ Int.tdiv (-7) 2 = -3 := by decide

/-- for a negative divisor the helper is not floor division (neither Python's nor Lean's);
    unreachable: the front end only accepts positive literal divisors -/
theorem exoFloorDiv_neg_divisor_witness :
    exoFloorDiv (-4) (-2) = 0 ∧ (-4 : Int) / (-2) = 2 ∧ Int.fdiv (-4) (-2) = 2 ∧
    exoFloorDiv 5 (-2) = -2 ∧ Int.fdiv 5 (-2) = -3 := CIndex_exoFloorDiv_neg_witness

/-- C's `/` is floor division exactly when the numerator is non-negative or divisible -/
theorem c_div_eq_floor_iff (n q : Int) (hq : 0 < q) :
    Int.tdiv n q = n / q ↔ (0 ≤ n ∨ q ∣ n) := CIndex_c_div_eq_floor_iff n q hq

example : Int.tdiv (-8) 4 = -8 / 4 := (c_div_eq_floor_iff (-8) 4 (by decide)).2 (Or.inr ⟨-2, rfl⟩)
example : Int.tdiv (-7) 4 ≠ -7 / 4 := fun h =>
  absurd ((c_div_eq_floor_iff (-7) 4 (by decide)).1 h) (by decide)

/-- C's `%` is the floor modulo exactly when the numerator is non-negative or divisible -/
theorem c_mod_eq_floor_iff (n q : Int) (hq : 0 < q) :
    Int.tmod n q = n % q ↔ (0 ≤ n ∨ q ∣ n) := CIndex_c_mod_eq_floor_iff n q hq

example : Int.tmod 13 8 = 13 % 8 := (c_mod_eq_floor_iff 13 8 (by decide)).2 (Or.inl (by decide))
example : Int.tmod (-3) 8 ≠ -3 % 8 := fun h =>
  absurd ((c_mod_eq_floor_iff (-3) 8 (by decide)).1 h) (by decide)

theorem c_mod_witness : Int.tmod (-3) 8 = -3 ∧ (-3 : Int) % 8 = 5 := by decide

/-- `(i - 3) / 2 + j % 4` with the flags a sound analysis could set at `i = -5, j = 7`
    (`i - 3` not known non-negative → `exo_floor_div`; `j` non-negative) -/
def c1 : CIR :=
  .bin .add (.bin .div (.bin .sub (.read i false) (.const 3) false) (.const 2) false)
    (.bin .mod (.read j true) (.const 4) true) false

/-- `comp_cir` preserves the value: if the `is_non_neg` flags are true where set, divisors are
    positive and the numerators of `%` are non-negative, the emitted C expression (with C's
    truncating `/` and `%` and the helper `exo_floor_div`) evaluates to the floor-semantics value.
    PARTIAL: the hypothesis `ModNumNonneg` is not guaranteed by the code — `comp_cir` emits `%`
    verbatim whatever the flags say (DESIGN finding F6); see `compAst_mod_witness`. -/
theorem compAst_correct_partial {ρ : Val} {σ : Sym → Nat → Int} {c : CIR}
    (hf : FlagsOK ρ σ c) (hp : PosDivisors ρ σ c) (hm : ModNumNonneg ρ σ c) :
    cEval ρ σ (compAst c) = c.eval ρ σ := CIndex_compAst_correct c hf hp hm

example : cEval ρ1 σ1 (compAst c1) = c1.eval ρ1 σ1 :=
  compAst_correct_partial (by simp [FlagsOK, c1, CIR.eval, Range.evalOp, ρ1, i, j])
    (by simp [PosDivisors, c1, CIR.eval]) (by simp [ModNumNonneg, c1, CIR.eval, ρ1, i, j])
example : compAst c1 = .bin .add (.floorDiv (.bin .sub (.var i) (.lit 3)) (.lit 2))
    (.bin .mod (.var j) (.lit 4)) ∧ c1.eval ρ1 σ1 = -1 := by decide

/-- the environment of `for i in seq(0, 4)` and the real `is_non_neg` of the compiler in it -/
def envW : Range.Env :=
  match (Range.Env.init []).addLoopIter i (.i 0) (.i 4) with
  | .ok e => e
  | .error _ => []
def nnW (e : IExpr) : Bool :=
  match Range.isNonNeg envW.lookup e with
  | .ok true => true
  | _ => false
/-- `(i - 3) % 8` -/
def eW : IExpr := .bin .mod (.bin .sub (.var i) (.const 3)) (.const 8)
def cW : CIR := .bin .mod (.bin .sub (.read i true) (.const 3) false) (.const 8) true
def ρW : Val := fun _ => 0

/-- the excluded case of `compAst_correct_partial` is reachable: for `(i - 3) % 8` inside
    `for i in seq(0, 4)` the flags are the ones the real range analysis computes (all true where
    set), the divisor is positive, and still the emitted `(i - 3) % 8` evaluates in C to `-3` at
    `i = 0` where the program means `5` -/
theorem compAst_mod_witness :
    (Range.Env.init []).addLoopIter i (.i 0) (.i 4) = .ok envW ∧
    lift nnW eW = some cW ∧ simplify cW = .ok cW ∧
    FlagsOK ρW σ1 cW ∧ PosDivisors ρW σ1 cW ∧
    cEval ρW σ1 (compAst cW) = -3 ∧ Range.eval eW ρW = 5 := by
  refine ⟨rfl, by decide, rfl, ?_, ?_, by decide, by decide⟩
  · simp [FlagsOK, cW, CIR.eval, Range.evalOp, ρW]
  · simp [PosDivisors, cW, CIR.eval]

/-- `simplify_cir` preserves the value and the three side conditions (whenever it returns a CIR:
    it raises on `Const / Const` — Python float division — and on division by a literal 0) -/
theorem simplify_correct {ρ : Val} {σ : Sym → Nat → Int} {c c' : CIR}
    (h : simplify c = .ok c') (hp : PosDivisors ρ σ c) :
    c'.eval ρ σ = c.eval ρ σ ∧ (FlagsOK ρ σ c → FlagsOK ρ σ c') ∧ PosDivisors ρ σ c' ∧
      (ModNumNonneg ρ σ c → ModNumNonneg ρ σ c') :=
  let r := CIndex_simplify_rel c h hp
  ⟨r.eval_eq, r.flags, r.pos, r.modnum⟩

/-- `(0 + i * 1) / 1 + (17 % 5) * (j / 2 - 0)` -/
def c2 : CIR :=
  .bin .add (.bin .div (.bin .add (.const 0) (.bin .mul (.read i false) (.const 1) false) false)
      (.const 1) false)
    (.bin .mul (.bin .mod (.const 17) (.const 5) true)
      (.bin .sub (.bin .div (.read j true) (.const 2) true) (.const 0) true) true) false
def c2' : CIR :=
  .bin .add (.read i false) (.bin .mul (.const 2) (.bin .div (.read j true) (.const 2) true) true)
    false

example : c2'.eval ρ1 σ1 = c2.eval ρ1 σ1 :=
  (simplify_correct (c := c2) (c' := c2') rfl (by simp [PosDivisors, c2, CIR.eval])).1
example : simplify (.bin .div (.const 4) (.const 2) true) = .error .floatDiv := rfl

/-- `lift_to_cir` preserves the value … -/
theorem lift_correct {nn : IExpr → Bool} {ρ : Val} {σ : Sym → Nat → Int} {e : IExpr} {c : CIR}
    (h : lift nn e = some c) : c.eval ρ σ = Range.eval e ρ := CIndex_lift_correct e h

example : cW.eval ρ1 σ1 = Range.eval eW ρ1 := lift_correct (nn := nnW) (by decide)

/-- … and sets only true flags when `check_expr_bound(0, leq, ·)` is sound at the valuation
    (which C13 proves for valuations inside the environment) -/
theorem lift_flagsOK {nn : IExpr → Bool} {ρ : Val} {σ : Sym → Nat → Int} {e : IExpr} {c : CIR}
    (hnn : ∀ e', nn e' = true → 0 ≤ Range.eval e' ρ) (h : lift nn e = some c) :
    FlagsOK ρ σ c := CIndex_lift_flagsOK hnn e h

/-- a (sound) syntactic stand-in for the analysis: literals ≥ 0 and `j` are non-negative -/
def nnJ : IExpr → Bool
  | .const n => decide (0 ≤ n)
  | .var x => decide (x = j)
  | _ => false

theorem nnJ_sound : ∀ e', nnJ e' = true → 0 ≤ Range.eval e' ρ1 := by
  intro e' h
  cases e' with
  | const n => simpa [nnJ, Range.eval] using h
  | var x => simp only [nnJ, decide_eq_true_eq] at h; subst h; simp [Range.eval, ρ1, i, j]
  | neg a => simp [nnJ] at h
  | bin op a b => simp [nnJ] at h
  | other => simp [nnJ] at h

example : FlagsOK ρ1 σ1 (.bin .div (.bin .sub (.read i false) (.read j true) false) (.const 2 ) false) :=
  lift_flagsOK (nn := nnJ) (e := .bin .div (.bin .sub (.var i) (.var j)) (.const 2)) nnJ_sound rfl

/-- the side conditions are transported by `lift_to_cir`, so the whole pipeline
    `comp_cir(simplify_cir(lift_to_cir(e)))` of `access_str` / `window_struct_fields` computes the
    program's value.  PARTIAL for the same reason as `compAst_correct_partial`. -/
theorem lift_simplify_comp_correct_partial {nn : IExpr → Bool} {ρ : Val} {σ : Sym → Nat → Int}
    {e : IExpr} {c c' : CIR} (hnn : ∀ e', nn e' = true → 0 ≤ Range.eval e' ρ)
    (hp : PosDivisorsE ρ e) (hm : ModNumNonnegE ρ e)
    (hl : lift nn e = some c) (hs : simplify c = .ok c') :
    cEval ρ σ (compAst c') = Range.eval e ρ := by
  have hpc := CIndex_lift_pos (σ := σ) e hl hp
  have r := CIndex_simplify_rel c hs hpc
  rw [CIndex_compAst_correct c' (r.flags (CIndex_lift_flagsOK hnn e hl)) r.pos
    (r.modnum (CIndex_lift_modnum e hl hm)), r.eval_eq, CIndex_lift_correct e hl]

example : cEval ρ1 σ1 (.floorDiv (.bin .sub (.var i) (.var j)) (.lit 2)) = (-5 - 7) / 2 :=
  lift_simplify_comp_correct_partial (nn := nnJ)
    (e := .bin .div (.bin .sub (.var i) (.bin .mul (.var j) (.const 1))) (.const 2))
    (c' := .bin .div (.bin .sub (.read i false) (.read j true) false) (.const 2) false)
    nnJ_sound (by simp [PosDivisorsE, Range.eval]) (by simp [ModNumNonnegE]) rfl rfl

/-- the index part of `comp_e` (loop bounds, call arguments, conditions): C `/` is chosen iff the
    *quotient* is known non-negative, which for a positive divisor implies that the numerator is.
    PARTIAL: `%` is emitted verbatim (hypothesis `ModNumNonnegE`), see `compEAst_mod_witness`. -/
theorem compEAst_correct_partial {nn : IExpr → Bool} {ρ : Val} {σ : Sym → Nat → Int} {e : IExpr}
    (hnn : ∀ e', nn e' = true → 0 ≤ Range.eval e' ρ)
    (hp : PosDivisorsE ρ e) (hm : ModNumNonnegE ρ e) :
    cEval ρ σ (compEAst nn e) = Range.eval e ρ := CIndex_compEAst_correct hnn e hp hm

example : cEval ρ1 σ1 (compEAst nnJ (.bin .add (.bin .div (.bin .sub (.var i) (.var j)) (.const 2))
      (.bin .mod (.var j) (.const 4)))) = (-5 - 7) / 2 + 7 % 4 :=
  compEAst_correct_partial nnJ_sound (by simp [PosDivisorsE, Range.eval])
    (by simp [ModNumNonnegE, Range.eval, ρ1, i, j])

/-- the same witness for `comp_e`: `(i - 3) % 8` in `for i in seq(0, 4)` -/
theorem compEAst_mod_witness :
    compEAst nnW eW = .bin .mod (.bin .sub (.var i) (.lit 3)) (.lit 8) ∧
    PosDivisorsE ρW eW ∧ cEval ρW σ1 (compEAst nnW eW) = -3 ∧ Range.eval eW ρW = 5 := by
  refine ⟨by decide, ?_, by decide, by decide⟩
  simp [PosDivisorsE, eW, Range.eval]

/-! ## B. strides and linearisation -/

/-- `tensor_strides(shape)` are the strides of the reference semantics' dense layout -/
theorem tensorStrides_eq_denseDims (sh : List Int) :
    tensorStrides sh = (Exo.denseDims sh).map (·.2) := CIndex_tensorStrides_eq_denseDims sh

example : tensorStrides [4, 6, 5] = [30, 5, 1] ∧
    (Exo.denseDims [4, 6, 5]).map (·.2) = [30, 5, 1] := by decide

/-- an in-bounds index tuple is linearised into `[0, ∏ shape)` -/
theorem linearise_range {sh is : List Int} (h : InBounds sh is) :
    0 ≤ linearise sh is ∧ linearise sh is < sh.foldl (· * ·) 1 := CIndex_linearise_range h

example : 0 ≤ linearise [4, 6, 5] [3, 5, 4] ∧ linearise [4, 6, 5] [3, 5, 4] < 120 :=
  linearise_range (by simp [InBounds])
example : linearise [4, 6, 5] [3, 5, 4] = 119 := by decide

/-- different in-bounds index tuples address different cells -/
theorem linearise_injective {sh is js : List Int} (hi : InBounds sh is) (hj : InBounds sh js)
    (h : linearise sh is = linearise sh js) : is = js := CIndex_linearise_injective hi hj h

example : linearise [4, 6, 5] [1, 2, 3] ≠ linearise [4, 6, 5] [1, 3, 0] := fun h =>
  absurd (linearise_injective (by simp [InBounds]) (by simp [InBounds]) h) (by decide)
/-- without the bounds injectivity fails: `[0, 6, 0]` and `[1, 0, 0]` -/
example : linearise [4, 6, 5] [0, 6, 0] = linearise [4, 6, 5] [1, 0, 0] := by decide

/-- every cell of the buffer is addressed by an in-bounds index tuple (positive extents) -/
theorem linearise_surjective (sh : List Int) (hpos : ∀ d ∈ sh, 0 < d) (k : Int) (h0 : 0 ≤ k)
    (h1 : k < sh.foldl (· * ·) 1) : ∃ is, InBounds sh is ∧ linearise sh is = k :=
  CIndex_linearise_surjective sh hpos k h0 h1

example : ∃ is, InBounds [4, 6, 5] is ∧ linearise [4, 6, 5] is = 77 :=
  linearise_surjective [4, 6, 5] (by simp) 77 (by decide) (by decide)

/-- the symbolic strides (`CIR.BinOp("*", sz, s, True)`) evaluate to the numeric strides of the
    evaluated shape -/
theorem tensorStridesC_eval (ρ : Val) (σ : Sym → Nat → Int) (sh : List CIR) :
    (tensorStridesC sh).map (·.eval ρ σ) = tensorStrides (sh.map (·.eval ρ σ)) :=
  CIndex_tensorStridesC_eval ρ σ sh

example : (tensorStridesC [.read j true, .bin .add (.read j true) (.const 1) true, .const 5]).map
    (·.eval ρ1 σ1) = [40, 5, 1] := by
  rw [tensorStridesC_eval]; decide

/-- the symbolic offset built by `get_idx_offset` evaluates to `Σ idxₖ · strideₖ` over the strides
    of `get_strides` (tensor: row-major products; window: `x.strides[k]` or the known constant) -/
theorem getIdxOffset_eval (ρ : Val) (σ : Sym → Nat → Int) {x : Sym} {ty : BufTy}
    {idx : List CIR} {c : CIR} (h : getIdxOffset x ty idx = some c) :
    c.eval ρ σ = linOffset (idx.map (·.eval ρ σ)) ((getStrides x ty).map (·.eval ρ σ)) :=
  CIndex_getIdxOffset_eval ρ σ h

/-- `A[j, 3]` for a window `A` whose stride 1 is known to be 1: `j * A.strides[0] + 3 * 1` -/
def cOff : CIR :=
  .bin .add (.bin .mul (.read j true) (.stride A 0) true) (.bin .mul (.const 3) (.const 1) true) true

example : getIdxOffset A (.window 2 [(1, 1)]) [.read j true, .const 3] = some cOff ∧
    cOff.eval ρ1 σ1 = 7 * 6 + 3 * 1 :=
  ⟨rfl, by rw [getIdxOffset_eval ρ1 σ1 (x := A) (ty := .window 2 [(1, 1)])
    (idx := [.read j true, .const 3]) (c := cOff) rfl]; decide⟩

/-- `get_idx_offset` fails (assertion / `idx[0]`) exactly on an empty index list or a length
    mismatch -/
theorem getIdxOffset_isSome (x : Sym) (ty : BufTy) (idx : List CIR) :
    (getIdxOffset x ty idx).isSome = true ↔ (idx ≠ [] ∧ idx.length = (getStrides x ty).length) :=
  CIndex_getIdxOffset_isSome x ty idx

example : getIdxOffset A (.window 2 []) [.const 1] = none := by
  have := getIdxOffset_isSome A (.window 2 []) [.const 1]
  cases h : getIdxOffset A (.window 2 []) [.const 1] with
  | none => rfl
  | some c => rw [h] at this; exact absurd (this.1 rfl).2 (by decide)

/-! ## C. windows against the reference semantics -/

/-- a state: `i = 1`, `A : [4][6]` dense in buffer 0, `W = A[1:3, 2:6]` (a window) -/
def W : Sym := ⟨"W", 4⟩
def vA : View := { buf := 0, off := 0, dims := Exo.denseDims [4, 6] }
def vW : View := { buf := 0, off := 8, dims := [(2, 6), (4, 1)] }
def st : State Int :=
  { env := [(i, 1)], views := [(W, vW), (A, vA)], heap := [List.replicate 24 none], cfg := [] }
def rd (x : Sym) : Expr := .read x []
def lit (n : Int) : Expr := .lit (.int n)

/-- the bounds-checked offset of the reference semantics is the emitted `data[Σ i·stride]` -/
theorem viewOffset_eq_cAccess {ds : List (Int × Int)} {is : List Int} {off r : Int}
    (h : viewOffset ds is off = .ok r) : cAccess ⟨off, ds.map (·.2)⟩ is = r :=
  CIndex_viewOffset_eq_cAccess h

example : cAccess ⟨8, [6, 1]⟩ [1, 3] = 17 :=
  viewOffset_eq_cAccess (ds := [(2, 6), (4, 1)]) (off := 8) rfl

/-- `viewOffset` succeeds exactly on in-bounds index tuples -/
theorem viewOffset_ok_iff (ds : List (Int × Int)) (is : List Int) (off : Int) :
    (∃ r, viewOffset ds is off = .ok r) ↔ InBounds (ds.map (·.1)) is :=
  CIndex_viewOffset_ok_iff ds is off

example : ∃ r, viewOffset [(2, 6), (4, 1)] [1, 3] 8 = .ok r :=
  (viewOffset_ok_iff _ _ _).2 (by simp [InBounds])

/-- the cell that the reference semantics reads / writes is the one the emitted access addresses -/
theorem cellOf_eq_cAccess {V : Type} {heap : List (List (Option V))} {v : View} {is : List Int}
    {b k : Nat} (h : cellOf heap v is = .ok (b, k)) :
    b = v.buf ∧ cAccess v.repr is = (k : Int) := CIndex_cellOf_eq_cAccess h

example : cAccess vW.repr [1, 3] = (17 : Nat) :=
  (cellOf_eq_cAccess (heap := st.heap) (v := vW) (is := [1, 3]) (b := 0) (k := 17) rfl).2

/-- the reference semantics' windowing is the emitted struct initialiser
    `{ &x.data[Σ lo·stride], { strides of the interval dimensions } }` -/
theorem applyAcc_eq_cWindow {V : Type} {σ : State V} {acc : List WAcc}
    {ds ds' : List (Int × Int)} {off o : Int} (h : applyAcc σ acc ds off = .ok (o, ds')) :
    ∃ was, evalAcc σ acc = .ok was ∧ cWindow ⟨off, ds.map (·.2)⟩ was = ⟨o, ds'.map (·.2)⟩ :=
  CIndex_applyAcc_eq_cWindow h

example : ∃ was, evalAcc st [.interval (rd i) (lit 3), .interval (lit 2) (lit 6)] = .ok was ∧
    cWindow ⟨0, [6, 1]⟩ was = ⟨8, [6, 1]⟩ :=
  applyAcc_eq_cWindow (σ := st) (ds := Exo.denseDims [4, 6]) (ds' := [(2, 6), (4, 1)]) rfl

theorem evalView_win_eq_cWindow {V : Type} {σ : State V} {x : Sym} {acc : List WAcc}
    {v v' : View} (hx : lookupSym x σ.views = some v)
    (h : evalView σ (.win x acc) = .ok v') :
    ∃ was, evalAcc σ acc = .ok was ∧ v'.buf = v.buf ∧ cWindow v.repr was = v'.repr :=
  CIndex_evalView_win_eq_cWindow hx h

example : ∃ was, evalAcc st [.interval (rd i) (lit 3), .interval (lit 2) (lit 6)] = .ok was ∧
    vW.buf = vA.buf ∧ cWindow vA.repr was = vW.repr :=
  evalView_win_eq_cWindow (σ := st) (x := A) rfl rfl

/-- a point access passed as an argument: the emitted `&x.data[…]` -/
theorem evalView_read_eq_cAccess {V : Type} {σ : State V} {x : Sym} {e : Expr} {idx : List Expr}
    {v v' : View} (hx : lookupSym x σ.views = some v)
    (h : evalView σ (.read x (e :: idx)) = .ok v') :
    ∃ is, evalCs σ (e :: idx) = .ok is ∧ v'.buf = v.buf ∧ v'.repr = ⟨cAccess v.repr is, []⟩ :=
  CIndex_evalView_read_eq_cAccess hx h

example : ∃ is, evalCs st [rd i, lit 3] = .ok is ∧ (0 : Nat) = vW.buf ∧
    (⟨17, []⟩ : CWin) = ⟨cAccess vW.repr is, []⟩ :=
  evalView_read_eq_cAccess (σ := st) (x := W) (v' := ⟨0, 17, []⟩) rfl rfl

/-- a window of a window, then an access: composing the emitted struct computations addresses
    the cell the reference semantics addresses -/
theorem window_of_window_access {V : Type} {σ : State V} {v : View} {a1 a2 : List WAcc}
    {d1 d2 : List (Int × Int)} {o1 o2 r : Int} {is : List Int}
    (h1 : applyAcc σ a1 v.dims v.off = .ok (o1, d1)) (h2 : applyAcc σ a2 d1 o1 = .ok (o2, d2))
    (h3 : viewOffset d2 is o2 = .ok r) :
    ∃ w1 w2, evalAcc σ a1 = .ok w1 ∧ evalAcc σ a2 = .ok w2 ∧
      cAccess (cWindow (cWindow v.repr w1) w2) is = r := by
  obtain ⟨w1, e1, c1⟩ := CIndex_applyAcc_eq_cWindow h1
  obtain ⟨w2, e2, c2⟩ := CIndex_applyAcc_eq_cWindow h2
  refine ⟨w1, w2, e1, e2, ?_⟩
  show cAccess (cWindow (cWindow ⟨v.off, v.dims.map (·.2)⟩ w1) w2) is = r
  rw [c1, c2]; exact CIndex_viewOffset_eq_cAccess h3

/-- `A[1:3, 2:6]`, then `[i, 0:4]` of that, then element `[2]`: cell 16 = 2·6 + 2 + 2 -/
example : ∃ w1 w2, evalAcc st [.interval (rd i) (lit 3), .interval (lit 2) (lit 6)] = .ok w1 ∧
    evalAcc st [.point (rd i), .interval (lit 0) (lit 4)] = .ok w2 ∧
    cAccess (cWindow (cWindow vA.repr w1) w2) [2] = 16 :=
  window_of_window_access (σ := st) (v := vA) (d1 := [(2, 6), (4, 1)]) (o1 := 8)
    (d2 := [(4, 1)]) (o2 := 14) rfl rfl rfl

/-- the same through any chain of window statements -/
theorem window_chain_access {V : Type} {σ : State V} {v : View} {accs : List (List WAcc)}
    {ds : List (Int × Int)} {o r : Int} {is : List Int}
    (h : applyChain σ accs (v.off, v.dims) = .ok (o, ds)) (h3 : viewOffset ds is o = .ok r) :
    ∃ wss, evalChain σ accs = .ok wss ∧ cAccess (wss.foldl cWindow v.repr) is = r := by
  obtain ⟨wss, e, c⟩ := CIndex_applyChain_eq_foldl h
  refine ⟨wss, e, ?_⟩
  show cAccess (wss.foldl cWindow ⟨v.off, v.dims.map (·.2)⟩) is = r
  rw [c]; exact CIndex_viewOffset_eq_cAccess h3

example : ∃ wss, evalChain st [[.interval (rd i) (lit 3), .interval (lit 2) (lit 6)],
      [.point (rd i), .interval (lit 0) (lit 4)], [.interval (lit 1) (lit 3)]] = .ok wss ∧
    cAccess (wss.foldl cWindow vA.repr) [1] = 16 :=
  window_chain_access (σ := st) (v := vA) (ds := [(2, 1)]) (o := 15) rfl rfl

/-- FINDING (stride of a renamed window): `comp_cir` prints `CIR.Stride(name, dim)` as
    `f"{e.name}.strides[{e.dim}]"` — with the symbol's own name, not with the C identifier that
    `new_varname` chose (`env[e.name]`).  For a window symbol `w` that had to be renamed to `w_1`
    the emitted access is `w_1.data[i * w.strides[0]]`: the strides of ANOTHER variable.  The
    injectivity of names proved above therefore does not carry over to stride references.
    Reproduced on the real code by `ccpipe.EXTRA["x_inline_win"]` (inline a callee that declares a
    window `w` into a caller that has its own `w`). -/
theorem comp_stride_ignores_env_witness :
    let w2 : Sym := ⟨"w", 9⟩
    let env : Sym → String := fun s => if s = w2 then "w_1" else s.name
    env w2 = "w_1" ∧ comp env (.bin .mul (.read i true) (.stride w2 0) true) 0 = "i * w.strides[0]" := by
  decide


/-- a freshly allocated buffer / a dense tensor argument is represented by the pointer itself
    with the row-major strides of `tensor_strides` -/
theorem alloc_repr (b : Nat) (sh : List Int) :
    ({ buf := b, off := 0, dims := Exo.denseDims sh } : View).repr = ⟨0, tensorStrides sh⟩ := by
  simp [View.repr, CIndex_tensorStrides_eq_denseDims]

example : vA.repr = ⟨0, [6, 1]⟩ := alloc_repr 0 [4, 6]

/-! ## D. names -/

/-- `new_varname` returns a C name that is not yet in `names` -/
theorem newVarname_fresh {sc sc' : Scopes} {x : Sym} {c : String}
    (h : newVarname sc x = .ok (c, sc')) : namesHas c sc = false := CIndex_newVarname_fresh h

/-- `for i: for i': …` (two symbols named `i`) and then a user variable named `i_1` -/
def i' : Sym := ⟨"i", 2⟩
def i_1 : Sym := ⟨"i_1", 3⟩
def sc1 : Scopes := [⟨[("i", "i")], [(i, "i")]⟩]
def sc2 : Scopes :=
  [⟨[("i_1", "i_1"), ("i", "i_1")], [(i', "i_1")]⟩, ⟨[("i", "i")], [(i, "i")]⟩]
def sc3 : Scopes :=
  [⟨[("i_2", "i_2"), ("i_1", "i_2"), ("i_1", "i_1"), ("i", "i_1")], [(i_1, "i_2"), (i', "i_1")]⟩,
   ⟨[("i", "i")], [(i, "i")]⟩]

theorem names_step1 : newVarname [⟨[], []⟩] i = .ok ("i", sc1) := rfl
theorem names_step2 : newVarname (pushScope sc1) i' = .ok ("i_1", sc2) := rfl
theorem names_step3 : newVarname sc2 i_1 = .ok ("i_2", sc3) := by
  have hs : splitSuffix "i_1" = some ("i", "1") := rfl
  have hn : "1".toNat! = 1 := CIndex_toNat!_repr 1
  have hb : bump "i_1" = .ok "i_2" := by simp only [bump, hs, hn]; rfl
  have e1 : namesGet "i_1" sc2 = some "i_1" := rfl
  have e2 : namesHas "i_1" sc2 = true := rfl
  simp only [newVarname, i_1, e1, bumpLoop, e2, hb]
  rfl

example : namesHas "i_2" sc2 = false := newVarname_fresh names_step3

/-- invariant: every C name bound in a layer's `env` is a key of that layer's `names` -/
theorem inv_nil : Inv [] := CIndex_inv_nil
theorem inv_base : Inv [⟨[], []⟩] := CIndex_inv_base
theorem inv_push {sc : Scopes} (h : Inv sc) : Inv (pushScope sc) := CIndex_inv_push h
theorem inv_pop {sc : Scopes} (h : Inv sc) : Inv (popScope sc) := CIndex_inv_pop h
theorem inv_newVarname {sc sc' : Scopes} {x : Sym} {c : String} (hi : Inv sc)
    (h : newVarname sc x = .ok (c, sc')) : Inv sc' := CIndex_inv_newVarname hi h

example : Inv sc3 :=
  inv_newVarname (inv_newVarname (inv_push (inv_newVarname inv_base names_step1)) names_step2)
    names_step3
example : Inv sc1 := inv_pop (sc := sc2)
  (inv_newVarname (inv_push (inv_newVarname inv_base names_step1)) names_step2)

theorem reach_sc3 : Reach sc3 :=
  .new (.new (.push (.new .base names_step1)) names_step2) names_step3

/-- in every state reachable by `push` / `pop` / `new_varname`, the invariant holds and two
    different symbols that are visible at the same time have different C names -/
theorem reach_inv_noClash {sc : Scopes} (h : Reach sc) : Inv sc ∧ NoClash sc :=
  CIndex_reach_good h

example : NoClash sc3 := (reach_inv_noClash reach_sc3).2

/-- hence `env` (Sym ↦ C name) is injective on what it binds -/
theorem envGet_injective {sc : Scopes} (hr : Reach sc) {x y : Sym} {c : String}
    (hx : envGet x sc = some c) (hy : envGet y sc = some c) : x = y :=
  CIndex_envGet_injective hr hx hy

example : envGet i sc3 = some "i" ∧ envGet i' sc3 = some "i_1" ∧ envGet i_1 sc3 = some "i_2" := by
  decide
example (y : Sym) (h : envGet y sc3 = some "i_1") : y = i' :=
  (envGet_injective reach_sc3 (x := i') (by decide) h).symm

/-- the new binding is what `env[x]` returns afterwards; other symbols keep theirs -/
theorem newVarname_envGet {sc sc' : Scopes} {x : Sym} {c : String}
    (h : newVarname sc x = .ok (c, sc')) :
    envGet x sc' = some c ∧ ∀ y, y ≠ x → envGet y sc' = envGet y sc :=
  CIndex_newVarname_envGet h

example : envGet i_1 sc3 = some "i_2" ∧ envGet i' sc3 = envGet i' sc2 :=
  ⟨(newVarname_envGet names_step3).1, (newVarname_envGet names_step3).2 i' (by decide)⟩

end Exo.CIndex.C02
