/-
  Property C01 — the call primitives `inline` and `extract_subproc`.

  Shapes: ExoModel.RewriteCalls (`Rw.inlineCall`, `Rw.extractBlock`, with the decidable side
  conditions `Rw.inlineOk`, `Rw.extractOk`); checker of the tie: `Rw.checkCalls` (RwCheckCalls).

  inline.  `DoInline` replaces `f(args)` by window statements for the window actuals followed by
  the callee's body with the other actuals substituted.  A call runs the body in a scope of its own;
  the inlined statements run in the caller's block, so what they define at top level (the callee's
  top-level allocations, the window statements) stays in scope — and on the heap — for the rest `r`
  of that block.  The theorems therefore compare `f(args) ; r` with `inline f args ++ r` as the END
  of a block (`Ctx.tail`, the convention of `Rw.rewriteAt`, which hands a `Local` the whole block
  suffix), under the freshness condition "no name defined by the inlined block is mentioned by `r`",
  between well-scoped states (`WellScoped`: every view in scope points into the heap — an invariant
  of execution; needed because the extra buffers change the heap layout `r` runs in).  A call whose
  monitors fail makes the ORIGINAL fail, so nothing is asked about binding, aliasing, shapes or
  assertions: `Equiv` constrains successful original runs only.

  extract_subproc.  `DoExtractSubproc` replaces a block by `sub(args)` where `sub`'s body is the block
  itself (same `Sym`s as formals and actuals).  Direction reversed: the call must not fail where the
  block ran.  `extract_subproc_in_context`: if the block is an instance of `sub`'s body
  (`checkReplace`, C05), no actual is a window, the block defines nothing at its top level, and the
  call's monitors — binding, no aliasing, shapes, and the ASSERTED PATH CONDITIONS — pass in every
  state that REACHES the block (`Reach`), the procedures are `Equiv ∅`.  The recorded findings are
  violations of exactly that hypothesis (`extract_sibling_if_unsound`, `extract_cfg_write_unsound`).
-/
import ExoModel.RewriteCalls
import ExoModel.RwCheckCalls
import ExoModel.Lemmas.CallsScope
import ExoModel.Lemmas.CallsSound
import ExoModel.Lemmas.StorageReach
import ExoModel.Lemmas.ContextReach
import ExoModel.Props.C01Alpha

set_option linter.unusedSectionVars false
set_option linter.unusedVariables false
namespace Exo.C01
open Exo Exo.InlTie

/-! ### 1. inline -/

/-- **inline, one block suffix**: `f(args) ; r ⊑ inline f args ++ r` (scoped refinement between
    well-scoped states).  Hypotheses: `inlineWf` (C05: formals distinct and not mentioned by the
    actuals, no actual reads the configuration, binders of the body fresh where bound) and no name
    the inlined block defines at its top level is mentioned by the rest `r`. -/
theorem inline_suffix {f : Proc} {args : List Expr} {B r : List Stmt}
    (hi : Inline.inline f args = some B) (hwf : Inline.inlineWf f args = true)
    (hfresh : ∀ y ∈ namesL r, y ∉ Rw.defsOf B) : BlockRefW (.call f args :: r) (B ++ r) :=
  inline_suffix_sound hi hwf hfresh

/-- **inline in context**: for every context whose hole ends its block (any nest of loops,
    branches and preceding statements; `r` = everything that follows the call in its block), the
    procedure with the call inlined is equivalent to the original on well-scoped inputs. -/
theorem inline_in_context (C : Ctx) (hC : C.tail = true) {f : Proc} {args : List Expr}
    {B r : List Stmt} (hi : Inline.inline f args = some B) (hwf : Inline.inlineWf f args = true)
    (hfresh : ∀ y ∈ namesL r, y ∉ Rw.defsOf B)
    (nm : String) (pargs : List FnArg) (preds : List Expr) :
    EquivOn WellScoped (fun _ => False)
      (.mk nm pargs preds (C.fill (.call f args :: r))) (.mk nm pargs preds (C.fill (B ++ r))) :=
  equivOn_of_reach_refW C hC _ _ nm pargs preds (fun V _ ext σ₀ σ σ' _ hw =>
    fun t ht => inline_suffix_sound hi hwf hfresh V ext σ σ' t hw ht)

/-- **inline at a cursor path**: `Rw.rewriteAt Rw.inlineCallChecked` (the literal shape
    `Rw.inlineCall` guarded by the decidable side conditions `Rw.inlineOk`) preserves behaviour -/
theorem inline_at_path (path : Rw.Path) (body body' : List Stmt)
    (h : Rw.rewriteAt Rw.inlineCallChecked path body = some body')
    (nm : String) (pargs : List FnArg) (preds : List Expr) :
    EquivOn WellScoped (fun _ => False) (.mk nm pargs preds body) (.mk nm pargs preds body') :=
  equivOn_of_blockRefW (rewriteAt_refW _ inlineChecked_sound path body body' h) nm pargs preds

/-- any `EquivOn` proved for the model output transfers to an alpha-equal real output -/
theorem equivOn_alpha_right {Pre : ∀ (V : Type), State V → Prop} {K : String × String → Prop}
    (p : Proc) (nm nm' : String) (args args' : List FnArg) (preds preds' : List Expr)
    (model after : List Stmt) (he : EquivOn Pre K p (.mk nm args preds model))
    (ha : Rw.alphaEqBlocks' model after = true) :
    EquivOn Pre K p (.mk nm' args' preds' after) := by
  intro V _ ext σ o hP ho
  obtain ⟨o', ho', r⟩ := he V ext σ o hP ho
  refine ⟨o', ?_, r⟩
  simp only [Proc.body] at ho' ⊢
  rw [← alpha_execB ext ha σ]
  exact ho'

/-- **what the tie establishes for `inline`**: `Rw.checkCalls "inline"` succeeded — the real output
    `after` is alpha-equal to `Rw.rewriteAt Rw.inlineCall path body` — and `Rw.provedCalls` holds — the
    block suffix at `path` passes `Rw.inlineOk` — ⇒ the real output procedure is equivalent to the
    input procedure on well-scoped inputs -/
theorem rwcheck_inline_sound (path : Rw.Path) (nm nm' : String) (args args' : List FnArg)
    (preds preds' : List Expr) (body sb model after : List Stmt)
    (hm : Rw.rewriteAt Rw.inlineCall path body = some model)
    (hsb : Rw.getAt path body = some sb) (hok : Rw.inlineOk sb = true)
    (ha : Rw.alphaEqBlocks' model after = true) :
    EquivOn WellScoped (fun _ => False) (.mk nm args preds body) (.mk nm' args' preds' after) := by
  have hmc : Rw.rewriteAt Rw.inlineCallChecked path body = some model := by
    rw [rewriteAt_congr_at Rw.inlineCallChecked Rw.inlineCall path body sb hsb
      (by simp [Rw.inlineCallChecked, hok])]
    exact hm
  exact equivOn_alpha_right _ nm nm' args args' preds preds' model after
    (inline_at_path path body model hmc nm args preds) ha

/-! #### example: a callee with a size argument, a window argument, an allocation and a nested call -/

namespace CallsEx
def n : Sym := ⟨"n", 1⟩
def x : Sym := ⟨"x", 2⟩
def i : Sym := ⟨"i", 3⟩
def m : Sym := ⟨"m", 4⟩
def u : Sym := ⟨"u", 5⟩
def y : Sym := ⟨"y", 6⟩
def t : Sym := ⟨"t", 7⟩
def j : Sym := ⟨"j", 8⟩
def k : Sym := ⟨"k", 9⟩
def N : Sym := ⟨"N", 10⟩
def X : Sym := ⟨"X", 11⟩
def Y : Sym := ⟨"Y", 12⟩
abbrev rd (s : Sym) : Expr := .read s []
abbrev lit (z : Int) : Expr := .lit (.int z)
abbrev one : Expr := .lit (.data 1 1)

/-- `leaf(n: size, x: [f32][n]): for i in [0,n): x[i] = x[i] + 1.0` -/
def leaf : Proc := .mk "leaf" [⟨n, .ctrl .size⟩, ⟨x, .tensor [rd n] true⟩] []
  [.loop i (lit 0) (rd n) [.assign x [rd i] (.binop .add (.read x [rd i]) one)] false]

/-- `mid(m: size, u: [f32][m], y: f32[m]):`
    `  t : f32[m] ; for j: t[j] = u[j] ; leaf(m, t[0:m]) ; for k: y[k] = t[k]` -/
def mid : Proc := .mk "mid" [⟨m, .ctrl .size⟩, ⟨u, .tensor [rd m] true⟩, ⟨y, .tensor [rd m] false⟩] []
  [.alloc t [rd m],
   .loop j (lit 0) (rd m) [.assign t [rd j] (.read u [rd j])] false,
   .call leaf [rd m, .win t [.interval (lit 0) (rd m)]],
   .loop k (lit 0) (rd m) [.assign y [rd k] (.read t [rd k])] false]

/-- actuals: `mid(N, X[1:N+1], Y)` -/
def midArgs : List Expr := [rd N, .win X [.interval (lit 1) (.binop .add (rd N) (lit 1))], rd Y]
/-- what follows the call in its block: `X[0] = 1.0` -/
def rest : List Stmt := [.assign X [lit 0] one]

/-- the inlined block: the window statement `u = X[1:N+1]`, then the body with `m ↦ N`, `y ↦ Y` -/
def inlined : List Stmt :=
  [.window u (.win X [.interval (lit 1) (.binop .add (rd N) (lit 1))]),
   .alloc t [rd N],
   .loop j (lit 0) (rd N) [.assign t [rd j] (.read u [rd j])] false,
   .call leaf [rd N, .win t [.interval (lit 0) (rd N)]],
   .loop k (lit 0) (rd N) [.assign Y [rd k] (.read t [rd k])] false]
end CallsEx

open CallsEx in
example : (Rw.inlineCall (.call mid midArgs :: rest)).map (fun r => Inline.eqSs r (inlined ++ rest))
    = some true := by decide +kernel

open CallsEx in
example : Rw.inlineOk (.call mid midArgs :: rest) = true := by decide +kernel

/-- the call sits in a loop under an `if`, after another statement -/
def CallsEx.C : Ctx := .seq [.pass] (.loop ⟨"l", 20⟩ (.lit (.int 0)) (.lit (.int 2)) false
  (.seq [] (.iteT (.lit (.bool true)) (.seq [.pass] .hole []) []) [])) []

/-- `inline_in_context` from the decidable check alone -/
theorem inline_in_context_checked (C : Ctx) (hC : C.tail = true) {f : Proc} {args : List Expr}
    {r : List Stmt} (hok : Rw.inlineOk (.call f args :: r) = true)
    (nm : String) (pargs : List FnArg) (preds : List Expr) :
    ∃ B, Inline.inline f args = some B ∧ EquivOn WellScoped (fun _ => False)
      (.mk nm pargs preds (C.fill (.call f args :: r))) (.mk nm pargs preds (C.fill (B ++ r))) := by
  obtain ⟨f', args', r', B, e, hwf, hi, hfresh⟩ := inlineOk_inv hok
  cases e
  exact ⟨B, hi, inline_in_context C hC hi hwf hfresh nm pargs preds⟩

open CallsEx in
example : EquivOn WellScoped (fun _ => False)
    (.mk "p" [] [] (CallsEx.C.fill (.call mid midArgs :: rest)))
    (.mk "p" [] [] (CallsEx.C.fill (inlined ++ rest))) := by
  obtain ⟨B, hB, key⟩ := inline_in_context_checked CallsEx.C (by rfl) (f := mid) (args := midArgs)
    (r := rest) (by decide +kernel) "p" [] []
  refine equivOn_alpha_right _ "p" "p" [] [] [] [] _ _ key ?_
  have : (Inline.inline mid midArgs).map (fun B => Rw.alphaEqBlocks' (CallsEx.C.fill (B ++ rest))
      (CallsEx.C.fill (inlined ++ rest))) = some true := by decide +kernel
  rw [hB] at this
  simpa using this

/-! ### 2. a new defect of the real `inline`: actuals that read the configuration -/

/-- **defect (new).**  `DoInline` substitutes an actual that reads a configuration field for the
    formal at every use (call by name), but the call evaluated it once, on entry.  If the callee
    writes the field before using the formal, the inlined code sees the new value:
    `g(f: bool): Cfg.flag = False ; if f: Cfg.y = 1`, caller `Cfg.flag = True ; g(Cfg.flag)`.
    The model `Inline.inline` reproduces the real output literally; `inlineWf` (`pureSubst`) excludes
    the case, the real primitive checks nothing.  Reproducer: /verif/repro/c01calls/inline_cfg_actual.py -/
theorem inline_cfg_actual_unsound :
    let f : Sym := ⟨"f", 1⟩
    let g : Proc := .mk "g" [⟨f, .ctrl .bool⟩] []
      [.writecfg "Cfg" "flag" (.lit (.bool false)) false,
       .ite (.read f []) [.writecfg "Cfg" "y" (.lit (.int 1)) false] []]
    let before : List Stmt := [.writecfg "Cfg" "flag" (.lit (.bool true)) false,
       .call g [.readcfg "Cfg" "flag"]]
    let after : List Stmt := [.writecfg "Cfg" "flag" (.lit (.bool true)) false,
       .writecfg "Cfg" "flag" (.lit (.bool false)) false,
       .ite (.readcfg "Cfg" "flag") [.writecfg "Cfg" "y" (.lit (.int 1)) false] []]
    (Rw.rewriteAt Rw.inlineCall [.body 1] before).map (fun r => Inline.eqSs r after) = some true ∧
    Rw.inlineOk (before.drop 1) = false ∧
    ¬ Equiv (fun _ => False) (.mk "p" [] [] before) (.mk "p" [] [] after) := by
  intro f g before after
  refine ⟨by decide +kernel, by decide +kernel, fun h => ?_⟩
  obtain ⟨o', ho', r⟩ := h Int (fun _ _ => 0) ⟨[], [], [], []⟩
    ⟨[], [], [], [(("Cfg", "flag"), .ctrl 0), (("Cfg", "y"), .ctrl 1)]⟩ (by rfl)
  have e : execB (fun _ _ => (0 : Int)) (Proc.body (.mk "p" [] [] after)) ⟨[], [], [], []⟩
      = .ok ⟨[], [], [], [(("Cfg", "flag"), .ctrl 0)]⟩ := by rfl
  rw [e] at ho'
  cases ho'
  obtain ⟨v', hv', _⟩ := r.cfg ("Cfg", "y") (fun hk => hk) (.ctrl 1) (by rfl)
  simp [lookupCfg] at hv'

/-! ### 3. extract_subproc -/

/-- **extract_subproc in context.**  `C[blk ; r]` ↦ `C[sub(args) ; r]` is `Equiv ∅` if
    * `blk` is an instance of `sub`'s body under `args` (`checkReplace`; for the real primitive the
      body IS the block and the actuals are the formals' own names),
    * no actual is a window, `blk` defines no name at its top level,
    * `hmon`: in every state in which control REACHES the block (and from which the block runs) the
      call's monitors pass: the actuals bind (sizes positive), no two buffers alias, declared shapes
      hold, and the assertions of `sub` — with `include_asserts` the procedure's assertions and the
      path conditions collected by `get_env_preds` — hold. -/
theorem extract_subproc_in_context (C : Ctx) {blk r : List Stmt} {sub : Proc} {args : List Expr}
    (hc : Inline.checkReplace blk sub args = true) (hnw : Rw.noWinArgs sub args = true)
    (hnd : Rw.defsOf blk = [])
    (hmon : ∀ (V : Type) [DataAlg V] (ext : String → List V → V) (σ₀ σ o : State V),
      Reach ext C (blk ++ r) σ₀ σ → execL ext blk σ = .ok o → MonitorsPass sub args σ)
    (nm : String) (pargs : List FnArg) (preds : List Expr) :
    Equiv (fun _ => False) (.mk nm pargs preds (C.fill (blk ++ r)))
                           (.mk nm pargs preds (C.fill (.call sub args :: r))) :=
  equiv_of_reach_le C _ _ nm pargs preds (fun V _ ext σ₀ σ hr =>
    extract_suffix_le ext hc hnw hnd σ (fun o ho => hmon V ext σ₀ σ o hr ho))

/-- **extract_subproc at a cursor path** (`Rw.extractBlockChecked sub args n` under `Rw.rewriteAt`):
    the monitors are asked in the states reaching the addressed block, whatever context the path
    denotes -/
theorem extract_at_path (sub : Proc) (args : List Expr) (n : Nat) (path : Rw.Path)
    (body model : List Stmt)
    (hm : Rw.rewriteAt (Rw.extractBlockChecked sub args n) path body = some model)
    (hmon : ∀ (C : Ctx) (H : List Stmt), body = C.fill H →
      ∀ (V : Type) [DataAlg V] (ext : String → List V → V) (σ₀ σ o : State V),
      Reach ext C H σ₀ σ → execL ext (H.take n) σ = .ok o → MonitorsPass sub args σ)
    (nm : String) (pargs : List FnArg) (preds : List Expr) :
    Equiv (fun _ => False) (.mk nm pargs preds body) (.mk nm pargs preds model) := by
  obtain ⟨C, H, H', e1, e2, e3⟩ := rewriteAt_ctx _ path body model hm
  subst e1; subst e2
  unfold Rw.extractBlockChecked at e3
  split at e3
  · rename_i hok
    simp only [Rw.extractOk, Bool.and_eq_true, List.isEmpty_iff] at hok
    unfold Rw.extractBlock at e3
    split at e3
    · simp only [Option.some.injEq] at e3
      subst e3
      have := extract_subproc_in_context C (blk := H.take n) (r := H.drop n) hok.1.1 hok.1.2 hok.2
        (fun V _ ext σ₀ σ o hr ho => hmon C H rfl V ext σ₀ σ o (by rwa [List.take_append_drop] at hr) ho)
        nm pargs preds
      rwa [List.take_append_drop] at this
    · cases e3
  · cases e3

/-- **what the tie establishes for `extract_subproc`**: `Rw.checkCalls "extract_subproc"` succeeded
    (output alpha-equal to the block replaced by the call read off the output) and `Rw.provedCalls`
    holds (`Rw.extractOk`), and the monitors of the new call pass wherever the block is reached -/
theorem rwcheck_extract_sound (sub : Proc) (args : List Expr) (n : Nat) (path : Rw.Path)
    (nm nm' : String) (pargs pargs' : List FnArg) (preds preds' : List Expr)
    (body sb model after : List Stmt)
    (hm : Rw.rewriteAt (Rw.extractBlock sub args n) path body = some model)
    (hsb : Rw.getAt path body = some sb) (hok : Rw.extractOk sub args n sb = true)
    (ha : Rw.alphaEqBlocks' model after = true)
    (hmon : ∀ (C : Ctx) (H : List Stmt), body = C.fill H →
      ∀ (V : Type) [DataAlg V] (ext : String → List V → V) (σ₀ σ o : State V),
      Reach ext C H σ₀ σ → execL ext (H.take n) σ = .ok o → MonitorsPass sub args σ) :
    Equiv (fun _ => False) (.mk nm pargs preds body) (.mk nm' pargs' preds' after) := by
  have hmc : Rw.rewriteAt (Rw.extractBlockChecked sub args n) path body = some model := by
    rw [rewriteAt_congr_at (Rw.extractBlockChecked sub args n) (Rw.extractBlock sub args n) path body
      sb hsb (by simp [Rw.extractBlockChecked, hok])]
    exact hm
  exact equiv_alpha_right _ nm nm' pargs pargs' preds preds' model after
    (extract_at_path sub args n path body model hmc hmon nm pargs preds) ha

/-! #### example: a block under a guard, extracted with the guard as asserted path condition -/

namespace CallsEx
def b : Sym := ⟨"b", 30⟩
/-- the guard `0 < b` -/
def gpos : Expr := .binop .lt (lit 0) (rd b)
/-- the block: `Cfg.y = b` (it reads `b`, so `b` becomes a formal) -/
def blk : List Stmt := [.writecfg "Cfg" "y" (rd b) false]
/-- `sub(b: index): assert (0 < b) == True ; Cfg.y = b` — the shape `get_env_preds` gives the
    condition of an enclosing `if` -/
def subT : Proc := .mk "sub" [⟨b, .ctrl .index⟩] [.binop .eq gpos (.lit (.bool true))] blk
/-- `pass ; if 0 < b: □` -/
def G : Ctx := .seq [.pass] (.iteT gpos .hole []) []
end CallsEx

open CallsEx in
/-- the asserted path condition holds in every state reaching the block BECAUSE the block sits in the
    `then` branch of `if 0 < b` -/
example : Equiv (fun _ => False)
    (.mk "p" [] [] (CallsEx.G.fill (blk ++ [.pass])))
    (.mk "p" [] [] (CallsEx.G.fill (.call subT [rd b] :: [.pass]))) := by
  refine extract_subproc_in_context CallsEx.G (by decide +kernel) (by decide +kernel) (by rfl) ?_ _ _ _
  intro V _ ext σ₀ σ o hr _
  obtain ⟨σ₁, h1, hr⟩ := reach_seq ext hr
  obtain ⟨v, hv, hne, hr⟩ := reach_iteT ext hr
  have := reach_hole ext hr
  subst this
  simp only [gpos, evalC, bind, Except.bind, pure, Except.pure] at hv
  cases hl : lookupSym b σ.env with
  | none => rw [hl] at hv; cases hv
  | some w =>
    rw [hl] at hv
    simp only [ctrlOp, pure, Except.pure, Except.ok.injEq] at hv
    have hpos : 0 < w := by
      by_cases hw : 0 < w
      · exact hw
      · exfalso; apply hne; rw [← hv]; simp [b2i, hw]
    refine ⟨[(b, w)], [], ?_, rfl, rfl, ?_⟩
    · simp [subT, Proc.args, bindArgs, evalC, hl, bind, Except.bind, pure, Except.pure]
    · simp [subT, gpos, Proc.preds, checkPreds, evalC, Inline.calleeState, lookupSym, bind, Except.bind,
        pure, Except.pure, ctrlOp, b2i, hpos]

/-- **extract_subproc of a block that defines names** (top-level allocations / windows move into
    `sub`): sound when the rest `r` of the enclosing block does not mention them — as the END of a
    block (`C.tail`), on well-scoped inputs.  (When `r` does mention one, the result is ill-scoped:
    the recorded finding `extract_subproc:block-defines-name-used-later`.) -/
theorem extract_defs_in_context (C : Ctx) (hC : C.tail = true) {blk r : List Stmt} {sub : Proc}
    {args : List Expr} (hc : Inline.checkReplace blk sub args = true)
    (hnw : Rw.noWinArgs sub args = true) (hfresh : ∀ y ∈ namesL r, y ∉ Rw.defsOf blk)
    (hmon : ∀ (V : Type) [DataAlg V] (ext : String → List V → V) (σ₀ σ o : State V),
      Reach ext C (blk ++ r) σ₀ σ → execL ext blk σ = .ok o → MonitorsPass sub args σ)
    (nm : String) (pargs : List FnArg) (preds : List Expr) :
    EquivOn WellScoped (fun _ => False) (.mk nm pargs preds (C.fill (blk ++ r)))
                                        (.mk nm pargs preds (C.fill (.call sub args :: r))) :=
  equivOn_of_reach_refW C hC _ _ nm pargs preds (fun V _ ext σ₀ σ σ' hr hw t ht => by
    have h1 := extract_suffix_same ext hc hnw hfresh σ t hw.ok
      (fun o ho => hmon V ext σ₀ σ o hr ho) ht
    exact BlockRefW.refl (.call sub args :: r) V ext σ σ' t hw h1)

open CallsEx in
/-- `t : f32[1] ; t[0] = 1.0` extracted, followed by `pass` -/
example : EquivOn WellScoped (fun _ => False)
    (.mk "p" [] [] (Ctx.hole.fill ([.alloc t [lit 1], .assign t [lit 0] one] ++ [.pass])))
    (.mk "p" [] [] (Ctx.hole.fill (.call (.mk "sub" [] [] [.alloc t [lit 1], .assign t [lit 0] one]) []
      :: [.pass]))) :=
  extract_defs_in_context .hole rfl (by decide +kernel) (by decide +kernel)
    (fun y hy => by simp [namesL, Stmt.names] at hy)
    (fun V _ ext σ₀ σ o _ _ => ⟨[], [], rfl, rfl, rfl, rfl⟩) _ _ _

/-! ### 4. the recorded findings are violations of `hmon` -/

/-- **finding `extract_subproc:path-condition-taken-from-sibling-if-orelse`.**  `get_env_preds` walks
    backwards with `move_back` and treats every `if` it meets as an ENCLOSING one; for a preceding
    sibling `if b: …` the test `prev_c in c.body()` is false, so `b == False` is asserted.
    `if b: Cfg.x = 1 ; if b: Cfg.y = 2` with the second statement extracted: with `b` true the
    original runs, the derived procedure fails its assertion. -/
theorem extract_sibling_if_unsound :
    let b : Sym := ⟨"b", 1⟩
    let blk : List Stmt := [.ite (.read b []) [.writecfg "Cfg" "y" (.lit (.int 2)) false] []]
    let sub : Proc := .mk "sub" [⟨b, .ctrl .bool⟩] [.binop .eq (.read b []) (.lit (.bool false))] blk
    let before : List Stmt := .ite (.read b []) [.writecfg "Cfg" "x" (.lit (.int 1)) false] [] :: blk
    let after : List Stmt := [.ite (.read b []) [.writecfg "Cfg" "x" (.lit (.int 1)) false] [],
      .call sub [.read b []]]
    (Rw.checkCalls "extract_subproc" [.body 1] 1 true before after).toBool = true ∧
    Rw.provedCalls "extract_subproc" [.body 1] 1 before after = true ∧
    ¬ Equiv (fun _ => False) (.mk "p" [] [] before) (.mk "p" [] [] after) := by
  intro b blk sub before after
  refine ⟨by decide +kernel, by decide +kernel, fun h => ?_⟩
  obtain ⟨o', ho', _⟩ := h Int (fun _ _ => 0) ⟨[(b, 1)], [], [], []⟩
    ⟨[(b, 1)], [], [], [(("Cfg", "x"), .ctrl 1), (("Cfg", "y"), .ctrl 2)]⟩ (by rfl)
  have e : execB (fun _ _ => (0 : Int)) (Proc.body (.mk "p" [] [] after)) ⟨[(b, 1)], [], [], []⟩
      = .error .assertFail := by rfl
  rw [e] at ho'
  cases ho'

/-- **finding `extract_subproc:path-condition-invalidated-by-config-write-before-block`.**  The
    condition of the enclosing `if` is asserted although a statement between the test and the block
    changed the configuration field it reads: `if Cfg.x == 0: Cfg.x = 1 ; Cfg.y = 2` with
    `Cfg.y = 2` extracted as `sub(): assert (Cfg.x == 0) == True`. -/
theorem extract_cfg_write_unsound :
    let c0 : Expr := .binop .eq (.readcfg "Cfg" "x") (.lit (.int 0))
    let blk : List Stmt := [.writecfg "Cfg" "y" (.lit (.int 2)) false]
    let sub : Proc := .mk "sub" [] [.binop .eq c0 (.lit (.bool true))] blk
    let before : List Stmt := [.ite c0 (.writecfg "Cfg" "x" (.lit (.int 1)) false :: blk) []]
    let after : List Stmt := [.ite c0 [.writecfg "Cfg" "x" (.lit (.int 1)) false, .call sub []] []]
    (Rw.checkCalls "extract_subproc" [.body 0, .body 1] 1 true before after).toBool = true ∧
    Rw.provedCalls "extract_subproc" [.body 0, .body 1] 1 before after = true ∧
    ¬ Equiv (fun _ => False) (.mk "p" [] [] before) (.mk "p" [] [] after) := by
  intro c0 blk sub before after
  refine ⟨by decide +kernel, by decide +kernel, fun h => ?_⟩
  obtain ⟨o', ho', _⟩ := h Int (fun _ _ => 0) ⟨[], [], [], [(("Cfg", "x"), .ctrl 0)]⟩
    ⟨[], [], [], [(("Cfg", "x"), .ctrl 1), (("Cfg", "y"), .ctrl 2)]⟩ (by rfl)
  have e : execB (fun _ _ => (0 : Int)) (Proc.body (.mk "p" [] [] after))
      ⟨[], [], [], [(("Cfg", "x"), .ctrl 0)]⟩ = .error .assertFail := by rfl
  rw [e] at ho'
  cases ho'

end Exo.C01
