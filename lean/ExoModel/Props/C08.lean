/-
  C08 — the generated C is free of undefined behaviour and leaks: placement of `Free` by
  `MemoryAnalysis` (src/exo/backend/mem_analysis.py) and the `const` qualifiers decided from
  `GetWrites` (src/exo/core/LoopIR.py, src/exo/backend/LoopIR_compiler.py).

  Model: ExoModel/CIndex.lean §5 (`memS` / `memL` = `mem_s` / `mem_stmts`, `placeRev` = the backwards
  loop with `list.remove`) and §6 (`gwS` / `gwL` = `GetWrites.do_s` / `do_stmts`, `nonConst`,
  `argIsConst`, `winIsConst`).  Spec-side vocabulary (`stripL`, `NoFree`, `freesOf`, `Balanced`,
  `rootsL`, `noAliasL`, `AliasInv`; `sitesL`, `resolve`, `DictFlat`, `winFreshL`, `rootsDoneL`,
  `tcL`) and all helper lemmas: ExoModel/Lemmas/CIndexFree.lean, ExoModel/Lemmas/CIndexConst.lean.

  A. Free placement, for every statement tree (structural induction over the mutual
     `memS` / `memL` / `memMap`, and induction over the scanned block for `placeRev`):
       1. the pass only inserts `Free` nodes;
       2. every block of the output frees exactly what it allocates (one `Free` per `Alloc`, in the
          allocating block; LoopIR has no early exit, so a `Free` in the allocating block is
          executed on every path through it);
       3. the `Free` of `x` comes after the `Alloc` and after the last statement of the block that
          textually mentions `x`, and immediately after it (up to other frees);
       4. FINDING F7: "after the last use" is false for uses through a window alias
          (`memL_alias_witness`: use after free); it holds if no window of the block points into
          the freed buffer (`memL_free_after_last_alias_use_partial`).
  B. const-ness:
       5. `GetWrites` only appends to `writes` and only prepends to `window_dict`;
       6. every write site (Assign/Reduce target, call actual of a written formal) contributes the
          buffer it resolves to in `window_dict` to `non_const`, and nothing else is in it; hence
          a pointer argument declared `const` is never written through;
       7. a window whose struct is declared `const` (`exo_win_*c`) is never written through;
       8. under freshness of window names the `while base_sym in self.window_dict` loop stops by
          its own exit condition within the model's fuel, chains have length ≤ 1, and
          `window_dict` is the typechecker's `src_buf` map; without freshness neither holds
          (witnesses).

  Every theorem is followed by an `example` that instantiates its hypotheses on a concrete,
  non-trivial value.  Theorems named `…_partial` carry a hypothesis that the modelled code does
  not establish itself; for each a `…_witness` theorem exhibits an input outside the hypothesis on
  which the conclusion fails.
-/
import ExoModel.Lemmas.CIndexFree
import ExoModel.Lemmas.CIndexConst

namespace Exo.CIndex.C08
open Exo Exo.CIndex

/-! concrete symbols and programs used by the examples -/
def a : Sym := ⟨"a", 1⟩
def b : Sym := ⟨"b", 2⟩
def c : Sym := ⟨"c", 3⟩
def d : Sym := ⟨"d", 4⟩
def i : Sym := ⟨"i", 5⟩
def w : Sym := ⟨"w", 6⟩
def v : Sym := ⟨"v", 7⟩

/-- ```
    a : R[..]; a[..] = ..; b : R[..]
    for _: (c : R[..]; c[..] = a[..]; if i: (d : R; d = b[..]) else: c[..] = ..; .. = i)
    b[..] = ..; .. = i
    ``` -/
def prog : List MStmt :=
  [ .alloc a, .leaf [a], .alloc b,
    .loop [ .alloc c, .leaf [c, a], .ite [i] [.alloc d, .leaf [d, b]] [.leaf [c]], .leaf [i] ],
    .leaf [b], .leaf [i] ]

/-- what `MemoryAnalysis` makes of `prog` -/
def progOut : List MStmt :=
  [ .alloc a, .leaf [a], .alloc b,
    .loop [ .alloc c, .leaf [c, a], .ite [i] [.alloc d, .leaf [d, b], .free d] [.leaf [c]],
            .free c, .leaf [i] ],
    .free a, .leaf [b], .free b, .leaf [i] ]

theorem memL_prog : memL prog = progOut := by
  simp [prog, progOut, memL, memMap, memS, placeRev, allocsOf, usedS, usedL, removeFirst,
    a, b, c, d, i]

/-! ## A. Free placement -/

/-- A1. `mem_stmts` only inserts `Free` nodes: deleting every `Free` from the output, at every
    depth, gives back the input (which, as the pass asserts, contains none). -/
theorem memL_only_inserts_frees {ss : List MStmt} (h : NoFree ss) : stripL (memL ss) = ss := by
  rw [stripL_memL, stripL_of_noFree ss h]

example : stripL (memL prog) = prog := memL_only_inserts_frees (by decide)

/-- A2. exactly one `Free` per `Alloc`, in the allocating block: for a block without frees whose
    allocations are distinct, the number of top-level `.free x` of the output is 1 if the block
    allocates `x` and 0 otherwise, and the same holds in every nested block of the output
    (`Balanced`: in each block the frees are, with multiplicity, the allocations).  LoopIR has no
    early exit (no break / return / goto), so control that enters a block reaches each of its
    top-level statements or diverges inside a callee; a `Free` placed in the allocating block is
    therefore executed exactly once per execution of the `Alloc` — no leak, no double free. -/
theorem memL_one_free_per_alloc {ss : List MStmt} (h : NoFree ss) (hnd : (allocsOf ss).Nodup) :
    (∀ x, (freesOf (memL ss)).count x = if x ∈ allocsOf ss then 1 else 0) ∧
      Balanced (memL ss) := by
  refine ⟨fun x => ?_, balanced_memL h⟩
  rw [(freesOf_memL_perm (top_not_free_of_noFree h)).count_eq x]
  exact hnd.count

example : (∀ x, (freesOf (memL prog)).count x = if x ∈ allocsOf prog then 1 else 0) ∧
    Balanced (memL prog) :=
  memL_one_free_per_alloc (by decide) (by decide)

/-- A2 without the distinctness hypothesis: the counts of `.free x` and `.alloc x` agree in the
    block and in all nested blocks. -/
theorem memL_frees_match_allocs {ss : List MStmt} (h : NoFree ss) :
    (∀ x, (freesOf (memL ss)).count x = (allocsOf ss).count x) ∧ Balanced (memL ss) :=
  ⟨fun x => (freesOf_memL_perm (top_not_free_of_noFree h)).count_eq x, balanced_memL h⟩

example : (freesOf (memL prog)).count b = (allocsOf prog).count b :=
  (memL_frees_match_allocs (ss := prog) (by decide)).1 b

/-- A3. wherever a `.free x` stands in the output block: `x` is allocated in this block and its
    `Alloc` precedes the `Free`; no statement after the `Free` textually mentions `x`; and the
    `Free` immediately follows the last statement that mentions `x`, separated from it only by
    other frees (`b` is not a free: it uses `x`). -/
theorem memL_free_after_last_textual_use {ss pre post : List MStmt} {x : Sym} (h : NoFree ss)
    (hsplit : memL ss = pre ++ [MStmt.free x] ++ post) :
    x ∈ allocsOf ss ∧ x ∉ usedL post ∧ MStmt.alloc x ∈ pre ∧
      ∃ (pre' : List MStmt) (b : MStmt) (fs : List Sym),
        pre = pre' ++ b :: fs.map MStmt.free ∧ x ∈ usedS b ∧ isFree b = false :=
  memL_split (top_not_free_of_noFree h) hsplit

example : a ∉ usedL [MStmt.leaf [b], .free b, .leaf [i]] ∧ MStmt.alloc a ∈ progOut.take 4 :=
  have h := memL_free_after_last_textual_use (ss := prog) (pre := progOut.take 4) (x := a)
    (post := [.leaf [b], .free b, .leaf [i]]) (by decide) (by rw [memL_prog]; rfl)
  ⟨h.2.1, h.2.2.1⟩

/-- the aliases in force after `pre`, for A4 -/
example : aliasesOf [MStmt.alloc a, .window w a, .leaf [w], .window v w] = [(v, w), (w, a)] := rfl

/-- A4 (finding F7), the excluded case: `x : R[..]; w = x[..]; .. w ..` — the `Free` of `x` is
    placed after the window statement, the last statement that mentions `x` by name, and before
    the statement that reads/writes `x` through `w`: use after free in the generated C. -/
theorem memL_alias_witness :
    memL [MStmt.alloc a, .window w a, .leaf [w]]
        = [MStmt.alloc a, .window w a] ++ [MStmt.free a] ++ [MStmt.leaf [w]] ∧
      a ∈ rootsL (aliasesAcc [] [MStmt.alloc a, .window w a]) [MStmt.leaf [w]] := by
  constructor
  · simp [memL, memMap, memS, placeRev, allocsOf, usedS, removeFirst, a, w]
  · simp [rootsL, rootsS, aliasesAcc, aliasStep, aliasRoot]

/-- A4. PARTIAL: if no window statement of the block, at any depth, points (transitively, under the
    aliases `al` of the enclosing blocks, none of which resolves to `x`) into `x`, then no
    statement after `.free x` touches `x`, not even through an alias.  The hypothesis
    `noAliasL x al ss` is not established by `MemoryAnalysis` nor by any earlier pass: windows
    into locally allocated buffers are legal Exo (`memL_alias_witness`). -/
theorem memL_free_after_last_alias_use_partial {ss pre post : List MStmt} {x : Sym}
    {al : List (Sym × Sym)} (h : NoFree ss) (hal : AliasInv al x)
    (hno : noAliasL x al ss = true) (hsplit : memL ss = pre ++ [MStmt.free x] ++ post) :
    x ∉ rootsL (aliasesAcc al pre) post :=
  memL_alias_split h hal hno hsplit

/-- a window into the argument/outer buffer `b` is harmless for the local `a` -/
example : a ∉ rootsL (aliasesAcc [] [MStmt.alloc a, .window w b, .leaf [a, w]]) [MStmt.leaf [w]] :=
  memL_free_after_last_alias_use_partial (ss := [.alloc a, .window w b, .leaf [a, w], .leaf [w]])
    (by decide) (aliasInv_nil a) (by decide)
    (by simp [memL, memMap, memS, placeRev, allocsOf, usedS, removeFirst, a, b, w])

/-! ## B. const-ness -/

/-- B5. `GetWrites` only appends to `writes` and only prepends to `window_dict`, for a statement
    and for a block. -/
theorem gwL_writes_mono (ss : List KStmt) (s : KStmt) (g : GW) :
    (g.writes <+: (gwL ss g).writes ∧ g.dict <:+ (gwL ss g).dict) ∧
      (g.writes <+: (gwS s g).writes ∧ g.dict <:+ (gwS s g).dict) :=
  ⟨⟨⟨_, (gwL_writes ss g).symm⟩, gwL_dict_suffix ss g⟩,
   ⟨⟨_, (gwS_writes s g).symm⟩, gwS_dict_suffix s g⟩⟩

/-- `w = a[..]; w[..] = ..; for _: (f(b, w) with both formals written; v = w[..]); v[..] += ..` -/
def body : List KStmt :=
  [ .window w a, .write w,
    .block [ .call [true, false, true] [some b, some c, some w], .window v w ],
    .write v, .other ]

example : ([c] <+: (gwL body ⟨[c], [(d, c)]⟩).writes ∧ [(d, c)] <:+ (gwL body ⟨[c], [(d, c)]⟩).dict) ∧
    ([c] <+: (gwS (.window w a) ⟨[c], [(d, c)]⟩).writes ∧
      [(d, c)] <:+ (gwS (.window w a) ⟨[c], [(d, c)]⟩).dict) :=
  gwL_writes_mono body (.window w a) ⟨[c], [(d, c)]⟩

/-- B6. `non_const` is exactly the list of the buffers the write sites resolve to — `sitesL`
    enumerates, in traversal order and at every depth, each Assign/Reduce target and each call
    actual whose formal the callee writes, together with `window_dict` as it is at that moment;
    `resolve (y, d) = d.get(y, y)`. -/
theorem nonConst_eq_resolved_sites (body : List KStmt) :
    nonConst body = (sitesL body ⟨[], []⟩).map resolve := by
  simp [nonConst, gwL_writes]

example : nonConst body = [a, b, a, a] := by
  simp [nonConst_eq_resolved_sites, body, sitesL, sitesS, gwS, gwL, callActuals, resolve, dictGet,
    dictRoot, lookupSym, a, b, w, v]

/-- B6. the buffer recorded for any write site is in `non_const`. -/
theorem written_root_is_nonConst {body : List KStmt} {y : Sym} {d : List (Sym × Sym)}
    (h : (y, d) ∈ sitesL body ⟨[], []⟩) : dictGet y d ∈ nonConst body := by
  rw [nonConst_eq_resolved_sites]
  exact List.mem_map.2 ⟨(y, d), h, rfl⟩

/-- the site `v[..] += ..` of `body`, where `window_dict = {v: a, w: a}` -/
theorem body_site_v : (v, [(v, a), (w, a)]) ∈ sitesL body ⟨[], []⟩ := by
  simp [body, sitesL, sitesS, gwS, gwL, callActuals, dictRoot, lookupSym, a, b, w, v]

example : dictGet v [(v, a), (w, a)] ∈ nonConst body := written_root_is_nonConst body_site_v

/-- B6, consequence. a pointer argument declared `const` is never written through: no write site
    resolves to it — it is not itself the target of a write (or the actual of a written formal)
    at a point where it is not a window name, and no window written through (or passed for a
    written formal) has it as its `window_dict` entry. -/
theorem const_arg_never_written {body : List KStmt} {arg : Sym}
    (hc : argIsConst (nonConst body) arg = true) :
    (∀ y d, (y, d) ∈ sitesL body ⟨[], []⟩ → dictGet y d ≠ arg) ∧
    (∀ d, (arg, d) ∈ sitesL body ⟨[], []⟩ → lookupSym arg d ≠ none) ∧
    (∀ y d, (y, d) ∈ sitesL body ⟨[], []⟩ → lookupSym y d ≠ some arg) := by
  have key : ∀ y d, (y, d) ∈ sitesL body ⟨[], []⟩ → dictGet y d ≠ arg := by
    intro y d h e
    have := written_root_is_nonConst h
    simp [argIsConst] at hc
    exact hc (e ▸ this)
  refine ⟨key, ?_, ?_⟩
  · intro d h e; exact key arg d h (by simp [dictGet, e])
  · intro y d h e; exact key y d h (by simp [dictGet, e])

/-- `c` is only read by `body` (it is the actual of the formal that the callee does not write) -/
example : ∀ y d, (y, d) ∈ sitesL body ⟨[], []⟩ → dictGet y d ≠ c :=
  (const_arg_never_written (body := body) (arg := c) (by
    simp [argIsConst, nonConst, body, gwL, gwS, callWrites, dictGet, dictRoot, lookupSym,
      a, b, c, w, v])).1

/-- B7. a window declared with the `const` struct (`exo_win_*c`) is never written through:
    `get_window_type` takes `is_const = typ.src_buf not in self.non_const`; if `r` is the
    `window_dict` entry of `w` at a write site of `w`, then `r` is in `non_const`, so a window type
    with `src_buf = r` is not const.  (That the typechecker's `src_buf` of `w` is this entry is
    `window_dict_is_src_buf_partial` below.) -/
theorem window_constness_consistent {body : List KStmt} {w r : Sym} {d : List (Sym × Sym)}
    (hsite : (w, d) ∈ sitesL body ⟨[], []⟩) (hr : lookupSym w d = some r) :
    winIsConst (nonConst body) r = false := by
  have := written_root_is_nonConst hsite
  simpa [winIsConst, dictGet, hr] using this

example : winIsConst (nonConst body) a = false :=
  window_constness_consistent body_site_v (by simp [lookupSym])

/-- B7, scoping. at every write site that follows a statement `w = src[..]` in traversal order
    (at any depth below the rest of the block), `w` has an entry in `window_dict`. -/
theorem window_binding_visible {pre post : List KStmt} {w src y : Sym} {d : List (Sym × Sym)}
    (g : GW) (hsite : (y, d) ∈ sitesL post (gwL (pre ++ [.window w src]) g)) :
    (lookupSym w d).isSome = true := by
  refine lookupSym_isSome_of_suffix (sites_dict_suffix.2 post _ (y, d) hsite) ?_
  simp [gwL_append, gwL, gwS, lookupSym]

example : (lookupSym w [(v, a), (w, a)]).isSome = true :=
  window_binding_visible (pre := []) (src := a) (y := v)
    (post := [.write w, .block [.call [true, false, true] [some b, some c, some w], .window v w],
              .write v, .other]) ⟨[], []⟩ (by
    simp [sitesL, sitesS, gwS, gwL, callActuals, dictRoot, lookupSym, a, b, w, v])

/-- B8. PARTIAL (hypothesis `winFreshL`: the name bound by a window statement is neither its own
    source nor a value already in `window_dict`, i.e. not the source or root of an earlier window
    statement.  `GetWrites` does not check it; it holds for procedures built by the front end,
    where a name is bound before it is used and `Sym`s are unique).  Then, at every window
    statement of the body, the model's fuel-bounded `dictRoot` stops because the exit condition
    of the real loop `while base_sym in self.window_dict` holds (`rootsDoneL`), and no value of
    the final dict is a key of it (every chain has length ≤ 1). -/
theorem dictRoot_fuel_adequate_partial {body : List KStmt}
    (hfresh : winFreshL body ⟨[], []⟩ = true) :
    rootsDoneL body ⟨[], []⟩ = true ∧ DictFlat (gwL body ⟨[], []⟩).dict :=
  have h := flat_gwL body ⟨[], []⟩ dictFlat_nil hfresh
  ⟨h.2.1, h.1⟩

example : rootsDoneL body ⟨[], []⟩ = true ∧ DictFlat (gwL body ⟨[], []⟩).dict :=
  dictRoot_fuel_adequate_partial (by decide)

/-- the excluded case of B8: `w = a[..]; a = w[..]; v = a[..]` (a window named like its own
    root) makes `window_dict[a] = a`; the real loop does not terminate at the third statement,
    the model runs out of fuel. -/
theorem dictRoot_fuel_witness :
    winFreshL [.window w a, .window a w, .window v a] ⟨[], []⟩ = false ∧
      rootsDoneL [.window w a, .window a w, .window v a] ⟨[], []⟩ = false := by
  decide

/-- B8 / B7. PARTIAL (same hypothesis): `window_dict` is the typechecker's `src_buf` map
    (`create_window_type`: the source if it is a tensor, the source's `src_buf` if it is a
    window; model `tcL`, kept unscoped like `window_dict`).  Not covered: the typechecker's
    environment is scoped, `window_dict` is not — they can only differ on a name looked up
    outside the block that binds it, which the front end rejects. -/
theorem window_dict_is_src_buf_partial {body : List KStmt}
    (hfresh : winFreshL body ⟨[], []⟩ = true) :
    (gwL body ⟨[], []⟩).dict = tcL body [] :=
  (flat_gwL body ⟨[], []⟩ dictFlat_nil hfresh).2.2

example : (gwL body ⟨[], []⟩).dict = tcL body [] := window_dict_is_src_buf_partial (by decide)

/-- the excluded case: `w = a[..]; a = b[..]; v = w[..]` — `GetWrites` chases `w → a → b`,
    `create_window_type` stops at `src_buf(w) = a`. -/
theorem window_dict_src_buf_witness :
    winFreshL [.window w a, .window a b, .window v w] ⟨[], []⟩ = false ∧
      (gwL [.window w a, .window a b, .window v w] ⟨[], []⟩).dict
        ≠ tcL [.window w a, .window a b, .window v w] [] := by
  decide

end Exo.CIndex.C08
