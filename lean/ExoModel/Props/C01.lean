/-
  Property C01 — scheduling rewrites preserve procedure semantics.
  Property theorems only (helper lemmas live in ExoModel/Lemmas).  Every theorem quantifies over
  all data algebras `V`, all interpretations `ext` of extern functions and all states.
-/
import ExoModel.Equiv
import ExoModel.Lemmas.Exec
import ExoModel.Lemmas.Rewrites
import ExoModel.DataLaws
import ExoModel.Lemmas.RewriteAt
import ExoModel.Lemmas.Reach

set_option linter.unusedSectionVars false
namespace Exo.C01
open Exo

/-! ### `Equiv` is a preorder; sets of possibly-changed configuration fields add up -/

theorem equiv_refl (p : Proc) : Equiv (fun _ => False) p p :=
  Exo.equiv_refl p

theorem equiv_trans {K₁ K₂ : String × String → Prop} {p q r : Proc}
    (h₁ : Equiv K₁ p q) (h₂ : Equiv K₂ q r) : Equiv (fun k => K₁ k ∨ K₂ k) p r :=
  Exo.equiv_trans h₁ h₂

/-! ### Equal blocks may be exchanged inside any context (congruence) -/

/-- replacing a block by one with the same behaviour, at any depth of loops and branches and with
    any statements around it, gives a block with the same behaviour -/
theorem congruence {B B' : List Stmt} (h : BlockEq B B') (C : Ctx) :
    BlockEq (C.fill B) (C.fill B') := ctx_congr h C

/-- one-directional version (rewrites that drop dead computation) -/
theorem congruence_le {B B' : List Stmt} (h : BlockLe B B') (C : Ctx) :
    BlockLe (C.fill B) (C.fill B') := ctx_le h C

/-- and the procedure around the context is then equivalent, with no configuration field changed -/
theorem equiv_of_block_rewrite {B B' : List Stmt} (h : BlockLe B B') (C : Ctx) (nm : String)
    (args : List FnArg) (preds : List Expr) :
    Equiv (fun _ => False) (.mk nm args preds (C.fill B)) (.mk nm args preds (C.fill B')) :=
  equiv_of_blockLe (ctx_le h C) nm args preds

example : Equiv (fun _ => False)
    (.mk "p" [] [] ((Ctx.loop ⟨"i", 1⟩ (.lit (.int 0)) (.lit (.int 3)) false .hole).fill [.pass]))
    (.mk "p" [] [] ((Ctx.loop ⟨"i", 1⟩ (.lit (.int 0)) (.lit (.int 3)) false .hole).fill [.pass])) :=
  equiv_of_block_rewrite (BlockLe.refl _) _ _ _ _

/-- the path-addressed applicator of `ExoModel.Rewrite` (the shape the real primitives' outputs are
    compared with on every run) preserves soundness of the local rewrite: a local rewrite that
    never loses behaviour, applied at ANY address of ANY procedure body, gives an equivalent
    procedure -/
theorem rewrite_at_address (f : Rw.Local) (hf : ∀ ss r, f ss = some r → BlockLe ss r)
    (path : Rw.Path) (nm : String) (args : List FnArg) (preds : List Expr) (body body' : List Stmt)
    (h : Rw.rewriteAt f path body = some body') :
    Equiv (fun _ => False) (.mk nm args preds body) (.mk nm args preds body') :=
  equiv_of_blockLe (Rw.rewriteAt_le f hf path body body' h) nm args preds

variable {V : Type} [DataAlg V] (ext : String → List V → V)

/-! ### insert_pass / delete_pass -/

theorem insert_pass (B : List Stmt) : BlockEq B (.pass :: B) := by
  intro V _ ext σ
  simp [execL, execS, bind, Except.bind, pure, Except.pure]
  exact ExEq.refl _

theorem delete_pass (B : List Stmt) : BlockEq (.pass :: B) B := (insert_pass B).symm

/-- `insert_pass` at any gap of any procedure: equivalent, no configuration field changed -/
theorem insert_pass_anywhere (before : Bool) (path : Rw.Path) (nm : String) (args : List FnArg)
    (preds : List Expr) (body body' : List Stmt)
    (h : Rw.rewriteAt (if before then Rw.insertPassBefore else Rw.insertPassAfter) path body = some body') :
    Equiv (fun _ => False) (.mk nm args preds body) (.mk nm args preds body') := by
  refine rewrite_at_address _ ?_ path nm args preds body body' h
  intro ss r hr
  cases before
  · -- after
    cases ss with
    | nil => simp [Rw.insertPassAfter] at hr
    | cons s t =>
      simp only [Rw.insertPassAfter, if_false, Bool.false_eq_true, Option.some.injEq] at hr
      subst hr
      have := BlockLe.seq (insert_pass t).le [s] []
      simpa using this
  · cases ss with
    | nil => simp [Rw.insertPassBefore] at hr
    | cons s t =>
      simp only [Rw.insertPassBefore, if_true, Option.some.injEq] at hr
      subst hr
      exact (insert_pass (s :: t)).le

example : Rw.rewriteAt Rw.insertPassBefore [.body 0, .body 0]
    [.loop ⟨"i", 1⟩ (.lit (.int 0)) (.lit (.int 3)) [.pass] false]
    = some [.loop ⟨"i", 1⟩ (.lit (.int 0)) (.lit (.int 3)) [.pass, .pass] false] := by rfl

/-! ### eliminate_dead_code -/

/-- an `if` whose condition is true in the current state is its `then` block (in its scope) -/
theorem dead_else (c : Expr) (t e : List Stmt) (σ : State V) (b : Int)
    (hc : evalC σ c = .ok b) (hb : b ≠ 0) :
    execS ext (.ite c t e) σ = execB ext t σ := by
  simp [execS, hc, hb, bind, Except.bind, execB]

theorem dead_then (c : Expr) (t e : List Stmt) (σ : State V)
    (hc : evalC σ c = .ok 0) :
    execS ext (.ite c t e) σ = execB ext e σ := by
  simp [execS, hc, bind, Except.bind, execB]

/-- a loop whose bounds coincide in the current state does nothing -/
theorem dead_loop (i : Sym) (lo hi : Expr) (body : List Stmt) (par : Bool) (σ : State V) (l : Int)
    (hl : evalC σ lo = .ok l) (hh : evalC σ hi = .ok l) :
    execS ext (.loop i lo hi body par) σ = .ok σ := by
  rw [execS_loop ext i lo hi body par σ l l hl hh (Int.le_refl _)]
  simp [iterate, pure, Except.pure]

/-! ### specialize: `if c: B else: B` is `B`, provided `B` introduces no name that is used later -/

theorem specialize (c : Expr) (B : List Stmt) (hn : noDefs B = true) (σ : State V) (b : Int)
    (hc : evalC σ c = .ok b) :
    execS ext (.ite c B B) σ = execL ext B σ := by
  have := execB_of_noDefs ext hn σ
  unfold execB at this
  by_cases hb : b = 0 <;> simp [execS, hc, hb, bind, Except.bind, this]

/-- the hypothesis is needed: wrapping a definition hides it from the statements that follow
    (this is the situation of the recorded finding `specialize:block-defines-window-used-later`) -/
example : noDefs [Stmt.window ⟨"w", 1⟩ (.win ⟨"a", 2⟩ [])] = false := by decide

/-! ### cut_loop / join_loops -/

/-- `for i in [lo,hi): B`  =  `for i in [lo,mid): B ; for i in [mid,hi): B`  whenever
    `lo ≤ mid ≤ hi` in the current state and `mid`, `hi` do not read configuration state
    (which the first loop might write).  `join_loops` is the same equation read right to left. -/
theorem cut_loop (i : Sym) (lo mid hi : Expr) (body : List Stmt) (par : Bool) (σ : State V)
    (l m h : Int) (hl : evalC σ lo = .ok l) (hm : evalC σ mid = .ok m) (hh : evalC σ hi = .ok h)
    (hlm : l ≤ m) (hmh : m ≤ h) (fm : mid.cfgFree = true) (fh : hi.cfgFree = true) :
    execL ext [.loop i lo hi body par] σ =
      execL ext [.loop i lo mid body par, .loop i mid hi body par] σ := by
  rw [execL_singleton, execS_loop ext i lo hi body par σ l h hl hh (by omega)]
  have e1 : (h - l).toNat = (m - l).toNat + (h - m).toNat := by omega
  rw [e1, iterate_add]
  simp only [execL, bind, Except.bind]
  rw [execS_loop ext i lo mid body par σ l m hl hm hlm]
  cases h1 : iterate (loopStep ext i body) (m - l).toNat l σ with
  | error e => rfl
  | ok σ1 =>
    have sc := iterate_scope _ (loopStep_scope ext i body) _ _ _ _ h1
    have hm1 : evalC σ1 mid = .ok m := by rw [evalC_cfgFree mid σ σ1 fm sc.1 sc.2]; exact hm
    have hh1 : evalC σ1 hi = .ok h := by rw [evalC_cfgFree hi σ σ1 fh sc.1 sc.2]; exact hh
    simp only []
    rw [execS_loop ext i mid hi body par σ1 m h hm1 hh1 hmh]
    have e2 : l + ((m - l).toNat : Int) = m := by omega
    rw [e2]
    cases iterate (loopStep ext i body) (h - m).toNat m σ1 <;> rfl

theorem join_loops (i : Sym) (lo mid hi : Expr) (body : List Stmt) (par : Bool) (σ : State V)
    (l m h : Int) (hl : evalC σ lo = .ok l) (hm : evalC σ mid = .ok m) (hh : evalC σ hi = .ok h)
    (hlm : l ≤ m) (hmh : m ≤ h) (fm : mid.cfgFree = true) (fh : hi.cfgFree = true) :
    execL ext [.loop i lo mid body par, .loop i mid hi body par] σ =
      execL ext [.loop i lo hi body par] σ :=
  (cut_loop ext i lo mid hi body par σ l m h hl hm hh hlm hmh fm fh).symm

/-! ### remove_loop / add_loop -/

/-- a loop that runs at least once, whose iterations do not depend on the iteration variable and
    whose body is idempotent, is one execution of its body.  The two semantic hypotheses are what
    `iter ∉ FV(body)` and `Check_IsIdempotent` are meant to establish. -/
theorem remove_loop (i : Sym) (lo hi : Expr) (body : List Stmt) (par : Bool) (σ : State V)
    (l h : Int) (hl : evalC σ lo = .ok l) (hh : evalC σ hi = .ok h) (hpos : l < h)
    (hind : ∀ v s, loopStep ext i body v s = loopStep ext i body l s)
    (hidem : ∀ s s', loopStep ext i body l s = .ok s' → loopStep ext i body l s' = .ok s') :
    execS ext (.loop i lo hi body par) σ = loopStep ext i body l σ := by
  rw [execS_loop ext i lo hi body par σ l h hl hh (by omega)]
  obtain ⟨n, hn⟩ : ∃ n, (h - l).toNat = n + 1 := ⟨(h - l).toNat - 1, by omega⟩
  rw [hn]
  exact iterate_idem _ l hind hidem n l σ

/-- `add_loop` is the same equation read right to left -/
theorem add_loop (i : Sym) (lo hi : Expr) (body : List Stmt) (par : Bool) (σ : State V)
    (l h : Int) (hl : evalC σ lo = .ok l) (hh : evalC σ hi = .ok h) (hpos : l < h)
    (hind : ∀ v s, loopStep ext i body v s = loopStep ext i body l s)
    (hidem : ∀ s s', loopStep ext i body l s = .ok s' → loopStep ext i body l s' = .ok s') :
    loopStep ext i body l σ = execS ext (.loop i lo hi body par) σ :=
  (remove_loop ext i lo hi body par σ l h hl hh hpos hind hidem).symm

/-- the positivity hypothesis cannot be replaced by `0 < hi` (the defect repaired by the
    `fix: remove_loop must prove hi > lo` commit): a loop from 3 to 3 is not its body -/
example : execS (V := Int) (fun _ _ => 0)
      (.loop ⟨"i", 1⟩ (.lit (.int 3)) (.lit (.int 3)) [.writecfg "c" "f" (.lit (.int 1)) false] false)
      ⟨[], [], [], []⟩
    ≠ loopStep (V := Int) (fun _ _ => 0) ⟨"i", 1⟩ [.writecfg "c" "f" (.lit (.int 1)) false] 3 ⟨[], [], [], []⟩ := by
  intro h
  have := congrArg (fun r => match r with | .ok s => s.cfg.length | .error _ => 99) h
  revert this
  decide

/-! ### fission / fuse (loops) -/

/-- `for i: A ; B`  ≈  `for i: A` then `for i: B`, if `A` defines no name `B` could use
    (`alloc_check`), the bounds do not read configuration state, and every `B`-iteration commutes
    with every later `A`-iteration (the semantic content of `Check_FissionLoop`).
    `fuse` on two loops with equal bounds is the same statement read right to left. -/
theorem fission (i : Sym) (lo hi : Expr) (A B : List Stmt) (par : Bool) (σ : State V)
    (l h : Int) (hl : evalC σ lo = .ok l) (hh : evalC σ hi = .ok h) (hle : l ≤ h)
    (fl : lo.cfgFree = true) (fh : hi.cfgFree = true) (hn : noDefs A = true)
    (hc : ∀ v w, v < w → ∀ s, ExEq (loopStep ext i B v s >>= loopStep ext i A w)
                                  (loopStep ext i A w s >>= loopStep ext i B v)) :
    ExEq (execL ext [.loop i lo hi (A ++ B) par] σ)
         (execL ext [.loop i lo hi A par, .loop i lo hi B par] σ) := by
  rw [execL_singleton, execS_loop ext i lo hi (A ++ B) par σ l h hl hh hle]
  have hstep : loopStep ext i (A ++ B) = fun v s => loopStep ext i A v s >>= loopStep ext i B v := by
    funext v s; exact loopStep_append ext i A B hn v s
  rw [hstep]
  refine (iterate_fission _ _ hc _ _ _).trans ?_
  simp only [execL, bind, Except.bind]
  rw [execS_loop ext i lo hi A par σ l h hl hh hle]
  cases h1 : iterate (loopStep ext i A) (h - l).toNat l σ with
  | error e => exact ExEq.refl _
  | ok σ1 =>
    have sc := iterate_scope _ (loopStep_scope ext i A) _ _ _ _ h1
    have hl1 : evalC σ1 lo = .ok l := by rw [evalC_cfgFree lo σ σ1 fl sc.1 sc.2]; exact hl
    have hh1 : evalC σ1 hi = .ok h := by rw [evalC_cfgFree hi σ σ1 fh sc.1 sc.2]; exact hh
    simp only []
    rw [execS_loop ext i lo hi B par σ1 l h hl1 hh1 hle]
    cases iterate (loopStep ext i B) (h - l).toNat l σ1 <;> exact ExEq.refl _

/-! ### conditional rewrites inside a context -/

/-- **conditional congruence**: a rewrite `B ↦ B'` that is sound on every state in which control
    reaches its position (the side conditions of scheduling rewrites — loop bounds, guards,
    assertions — are facts about exactly those states) yields an equivalent procedure, at any
    depth of loops and branches -/
theorem rewrite_in_context (C : Ctx) (B B' : List Stmt) (nm : String) (args : List FnArg)
    (preds : List Expr)
    (h : ∀ (V : Type) [DataAlg V] (ext : String → List V → V) (σ₀ σ : State V),
        Reach ext C B σ₀ σ → ExLe (execL ext B σ) (execL ext B' σ)) :
    Equiv (fun _ => False) (.mk nm args preds (C.fill B)) (.mk nm args preds (C.fill B')) :=
  equiv_of_reach_le C B B' nm args preds h

/-- `cut_loop` anywhere in a procedure: if in every state reaching the loop `lo ≤ mid ≤ hi`
    (what `Check_CompareExprs` is asked to establish) and the bounds do not read configuration
    state, the procedure with the loop cut at `mid` is equivalent to the original -/
theorem cut_loop_in_context (C : Ctx) (i : Sym) (lo mid hi : Expr) (body : List Stmt) (par : Bool)
    (nm : String) (args : List FnArg) (preds : List Expr)
    (fm : mid.cfgFree = true) (fh : hi.cfgFree = true)
    (side : ∀ (V : Type) [DataAlg V] (ext : String → List V → V) (σ₀ σ : State V),
        Reach ext C [.loop i lo hi body par] σ₀ σ →
        ∃ l m h, evalC σ lo = .ok l ∧ evalC σ mid = .ok m ∧ evalC σ hi = .ok h ∧ l ≤ m ∧ m ≤ h) :
    Equiv (fun _ => False)
      (.mk nm args preds (C.fill [.loop i lo hi body par]))
      (.mk nm args preds (C.fill [.loop i lo mid body par, .loop i mid hi body par])) := by
  refine rewrite_in_context C _ _ nm args preds (fun V _ ext σ₀ σ hr => ?_)
  obtain ⟨l, m, h, hl, hm, hh, hlm, hmh⟩ := side V ext σ₀ σ hr
  rw [cut_loop ext i lo mid hi body par σ l m h hl hm hh hlm hmh fm fh]
  exact ExLe.refl _

/-! ### fuse (ifs) -/

/-- `if c: T else: E ; if c: T' else: E'`  =  `if c: T;T' else: E;E'`  when the first statement
    does not change the value of `c` (the content of `Check_ExprEqvInContext` on the two
    conditions) and `T`, `E` define no name (their scope ends at the first `if`) -/
theorem fuse_if (c : Expr) (t e t' e' : List Stmt) (σ : State V) (b : Int)
    (hc : evalC σ c = .ok b) (hnt : noDefs t = true) (hne : noDefs e = true)
    (hstable : ∀ σ1, execS ext (.ite c t e) σ = .ok σ1 → evalC σ1 c = .ok b) :
    execL ext [.ite c t e, .ite c t' e'] σ = execS ext (.ite c (t ++ t') (e ++ e')) σ := by
  simp only [execL, bind, Except.bind]
  cases h1 : execS ext (.ite c t e) σ with
  | error err =>
    -- the first `if` fails: so does the fused one, at the same point
    simp only [execS, hc, bind, Except.bind] at h1 ⊢
    by_cases hb : b = 0
    · simp only [hb, ne_eq, not_true_eq_false, if_false] at h1 ⊢
      rw [execL_append]
      cases h2 : execL ext e σ with
      | error e2 => simp [Except.map, bind, Except.bind]; simp [h2, Except.map] at h1; exact h1.symm
      | ok s2 => simp [h2, Except.map] at h1
    · simp only [hb, ne_eq, not_false_eq_true, if_true] at h1 ⊢
      rw [execL_append]
      cases h2 : execL ext t σ with
      | error e2 => simp [Except.map, bind, Except.bind]; simp [h2, Except.map] at h1; exact h1.symm
      | ok s2 => simp [h2, Except.map] at h1
  | ok σ1 =>
    have hc1 := hstable σ1 h1
    simp only []
    simp only [execS, hc, hc1, bind, Except.bind] at h1 ⊢
    by_cases hb : b = 0
    · simp only [hb, ne_eq, not_true_eq_false, if_false] at h1 ⊢
      rw [execL_append]
      cases h2 : execL ext e σ with
      | error e2 => simp [h2, Except.map] at h1
      | ok s2 =>
        simp only [h2, Except.map, Except.ok.injEq] at h1
        have hl := leave_of_noDefs ext hne h2
        rw [hl] at h1; subst h1
        simp only [bind, Except.bind]
        have sc := execL_scope ext e σ s2 h2
        have h3 := sc.2.2 (by simp [hne])
        cases h4 : execL ext e' s2 with
        | error _ => simp [Except.map]
        | ok s3 =>
          simp only [Except.map, pure, Except.pure]
          simp [State.leave, sc.1, h3.1, h3.2]
    · simp only [hb, ne_eq, not_false_eq_true, if_true] at h1 ⊢
      rw [execL_append]
      cases h2 : execL ext t σ with
      | error e2 => simp [h2, Except.map] at h1
      | ok s2 =>
        simp only [h2, Except.map, Except.ok.injEq] at h1
        have hl := leave_of_noDefs ext hnt h2
        rw [hl] at h1; subst h1
        simp only [bind, Except.bind]
        have sc := execL_scope ext t σ s2 h2
        have h3 := sc.2.2 (by simp [hnt])
        cases h4 : execL ext t' s2 with
        | error _ => simp [Except.map]
        | ok s3 =>
          simp only [Except.map, pure, Except.pure]
          simp [State.leave, sc.1, h3.1, h3.2]

end Exo.C01
