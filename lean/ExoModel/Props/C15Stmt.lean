/-
  C15(a) on the mini-C — "every procedure that compiles yields valid C", the part that is visible on
  the tree `compL` produces.

  Model:   ExoModel.CTyping (typing judgement `wtS / wtL / wtC / wtFun`, decidable), ExoModel.CSem,
           ExoModel.CompileS.   Lemmas: ExoModel/Lemmas/CTypingSound.lean, CTypingSoundStmt.lean.

  PROVED
    * `wtC_never_stuck`, `wtFun_body_never_stuck` — type soundness in the weak form: a well-typed
      statement list / function body, run (with or without the allocation monitors) from ANY state
      that agrees with the typing environment (`Good`: every pointer / struct / scalar identifier
      is bound to a value of its kind, every config field holds a value of its kind), is never
      `stuck` — the kind errors of `CSem` (unknown pointer, `.data` of a plain pointer, `*x` of a
      struct, `free` of a non-pointer, config field of the wrong kind, actual of the wrong kind,
      non-arithmetic data operator) cannot occur, through blocks, loops and calls — and the final
      state agrees with the final environment.  All other monitors (`oobC`, `divZeroC`,
      `useAfterFree`, …) are untouched by typing: they are C02Stmt's subject.
    * kernel-checked witnesses: the outputs of `compL` on `exBody`, `ex2Body`, `ex3Body` (loop nest
      with malloc / window / reduce / free; scalar variant; a call with a window initialiser, a
      dense pointer and `&s`) are accepted; ill-typed shapes are rejected (`x[s]` with `float s;`,
      `w.strides[1]` of a rank-1 window, `.data` of a plain pointer, `free` of a struct, a rank-2
      struct passed for a rank-1 parameter, a redeclaration in the same scope — while a nested
      block may shadow).
    * F10: `x[4 / 2]` — `simplify_cir` folds `Const/Const` with Python's true division, the real
      text is `x[2.0]`.  The mini-C has no float literal in `CExpr`; on that program the model's
      `compL` answers `raise:simplify_cir:float` (`f10_compL_raises`): the program is OUTSIDE every
      theorem here, which is exactly where the real compiler emits invalid C.
    * `compL_welltyped_partial` — `compL Γ ss = ok (cs, Γ')`, the LoopIR is well-formed
      (`Exo.Wf.wfL W ss = some W'`: C04's scoping / rank checker), `Agree W Γ E` (every
      LoopIR-visible symbol is C-visible with the type the compiler's `envtyp` implies, nothing else
      is C-visible, …) and the config uses are consistent ⟹ `wtL E cs = some E'` with
      `Agree W' Γ' E'`.  Pieces: `simplify_leaves` (every identifier leaf of `simplify_cir c` is a
      leaf of `c`), `wtCE_compAst`, `lift_leaves`, `strides_wt`, `accessLV_wt`, `compC_wt`,
      `compD_wt`, `windowFields_wt`, and the invariant between the flat `envtyp` and C's nested
      scopes (`Agree`, `Stable`, `Agree.declare`; no global distinctness of binders is needed:
      `Wf`'s `fresh` at each declaration suffices).
      PARTIAL: statement lists WITHOUT calls (`noCallL`); for calls the typing of the actuals
      (`wtArgs`) and of the callee under `Wf.wfP` is not proved — `wtFun` is still computed for
      them by the tie and kernel-checked on `ex3`.
    * `compiled_never_stuck_partial` — pure typing argument: compiled code of well-formed LoopIR,
      started in ANY state that agrees with the typing environment, is never `stuck`, WITHOUT
      assuming that the reference run succeeds (same restriction: no calls).
  IGNORED by the judgement: `const` (finding F9), precision casts, `#pragma omp`, `EXO_ASSUME`,
  integer widths, the C identifiers (`new_varname` layer; the tree binds `Sym`s).
-/
import ExoModel.Lemmas.CTypingSoundStmt
import ExoModel.Lemmas.CTypedMain
import ExoModel.Props.C02Stmt

namespace Exo.CTyping.C15Stmt
open Exo Exo.CIndex Exo.CSem Exo.CTyping Exo.CompileS Exo.CompileS.C02Stmt

/-- **type soundness (weak form)**: a well-typed statement list never gets `stuck`, and if it
    terminates normally the final state agrees with the final typing environment -/
theorem wtC_never_stuck {V : Type} [DataAlg V] (mon : Bool) {E E' : CTyEnv} {cs : List CStmt}
    {c : CState V} (hwt : wtL E cs = some E') (hg : Good E c) :
    execCL mon cs c ≠ .error .stuck ∧ (∀ c', execCL mon cs c = .ok c' → Good E' c') := by
  have h := soundL mon cs hwt hg
  cases hr : execCL mon cs c with
  | error e => rw [hr] at h; exact ⟨fun he => h (by cases he; rfl), fun c' hc => (by cases hc)⟩
  | ok c1 =>
      rw [hr] at h
      exact ⟨fun he => (by cases he), fun c' hc => (by cases hc; exact h)⟩

/-- a whole function body `{ … }` whose parameters are bound to values of their kinds -/
theorem wtFun_body_never_stuck {V : Type} [DataAlg V] (mon : Bool) {ps : List (Sym × PKind)}
    {cs : List CStmt} {c : CState V} (hwt : wtFun ps cs = true)
    (hg : Good (tyEnvOfParams ps cs) c) : execCB mon cs c ≠ .error .stuck := by
  simp only [wtFun, Bool.and_eq_true] at hwt
  obtain ⟨E', hE'⟩ := isSomeB_some hwt.2
  have h := (soundL mon cs hE' hg).bind (E2 := tyEnvOfParams ps cs)
    (fun c1 h1 => leaveC_ns mon hg.1 (by
      have := h1.2; rw [wtL_cfgT cs hE'] at this; exact this))
  simp only [execCB]
  cases hr : (execCL mon cs c >>= fun c' => leaveC mon c c') with
  | error e => rw [hr] at h; exact fun he => h (by cases he; rfl)
  | ok c1 => exact fun he => by cases he

/-- **`compL` of well-formed LoopIR is well-typed mini-C.**
    PARTIAL: statement lists without calls. -/
theorem compL_welltyped_partial {Γ Γ' : CEnv} {ss : List Stmt} {cs : List CStmt}
    {W W' : Wf.Env} {E : CTyEnv} (hc : compL Γ ss = .ok (cs, Γ'))
    (hwf : Wf.wfL W ss = some W') (hnc : noCallL ss = true) (ha : Agree W Γ E)
    (hcfg : CfgOK E.cfgT (cfgL cs)) :
    ∃ E', wtL E cs = some E' ∧ Agree W' Γ' E' ∧ E'.cfgT = E.cfgT := by
  obtain ⟨E', h1, h2, _, h3, _⟩ := typedL ss hc hwf hnc ha hcfg
  exact ⟨E', h1, h2, h3⟩

/-- **compiled code never gets stuck** — a pure typing argument (no reference run is assumed to
    succeed): for a compiled body of well-formed LoopIR, from any C state that agrees with the
    typing environment (`Good`: pointers / structs / scalars bound to values of their kind, config
    fields hold values of their kind), with or without the allocation monitors.
    PARTIAL: no calls (see `compL_welltyped_partial`). -/
theorem compiled_never_stuck_partial {V : Type} [DataAlg V] (mon : Bool) {Γ Γ' : CEnv}
    {ss : List Stmt} {cs : List CStmt} {W W' : Wf.Env} {E : CTyEnv} {c : CState V}
    (hc : compL Γ ss = .ok (cs, Γ')) (hwf : Wf.wfL W ss = some W') (hnc : noCallL ss = true)
    (ha : Agree W Γ E) (hcfg : CfgOK E.cfgT (cfgL cs)) (hg : Good E c) :
    execCB mon cs c ≠ .error .stuck := by
  obtain ⟨E', hE', _, hcT⟩ := compL_welltyped_partial hc hwf hnc ha hcfg
  have h := (soundL mon cs hE' hg).bind (E2 := E)
    (fun c1 h1 => leaveC_ns mon hg.1 (by have := h1.2; rw [hcT] at this; exact this))
  simp only [execCB]
  cases hr : (execCL mon cs c >>= fun c' => leaveC mon c c') with
  | error e => rw [hr] at h; exact fun he => h (by cases he; rfl)
  | ok c1 => exact fun he => by cases he

/-! ## accepted: the compiled examples of Props/C02Stmt.lean -/

theorem ex_welltyped : wtFun (paramsOf exProc.args) exCs = true := by decide +kernel
theorem ex2_welltyped : wtFun (paramsOf exProc.args) ex2Cs = true := by decide +kernel
/-- caller and (embedded) callee `scale2` -/
theorem ex3_welltyped : wtFun (paramsOf exProc.args) ex3Cs = true := by decide +kernel

/-- the entry state of the examples agrees with the typing environment of the signature -/
theorem exGood : Good (tyEnvOfParams (paramsOf exProc.args) ex3Cs) exC := by
  have hcfg : cfgL ex3Cs = [] := by decide +kernel
  refine ⟨?_, fun k d hk => (by simp [tyEnvOfParams, hcfg, lookupCfg] at hk)⟩
  intro a t ha
  by_cases h1 : a = C02Stmt.n
  · subst h1
    have : t = .int := by
      simp [tyEnvOfParams, lookupSc, paramsOf, exProc, Proc.args, lookupSym, paramKind, kindTy] at ha
      exact ha.symm
    subst this; trivial
  · by_cases h2 : a = C02Stmt.x
    · subst h2
      have : t = .ptr := by
        simp [tyEnvOfParams, lookupSc, paramsOf, exProc, Proc.args, lookupSym, paramKind, kindTy,
          h1] at ha
        exact ha.symm
      subst this; exact ⟨0, 0, by decide⟩
    · by_cases h3 : a = C02Stmt.y
      · subst h3
        have : t = .ptr := by
          simp [tyEnvOfParams, lookupSc, paramsOf, exProc, Proc.args, lookupSym, paramKind, kindTy,
            h1, h2] at ha
          exact ha.symm
        subst this; exact ⟨1, 0, by decide⟩
      · simp [tyEnvOfParams, lookupSc, paramsOf, exProc, Proc.args, lookupSym, paramKind, kindTy,
          h1, h2, h3] at ha

example : execCB true ex3Cs exC ≠ .error .stuck :=
  wtFun_body_never_stuck true ex3_welltyped exGood

/-! ### `compL_welltyped_partial` / `compiled_never_stuck_partial` on `exBody` -/

/-- the LoopIR scoping environment of the signature `ex(n: size, x: f32[n], y: f32[n])` -/
def exW : Wf.Env := Wf.formalsEnv exProc.args
def exE : CTyEnv := tyEnvOfParams (paramsOf exProc.args) exCs

theorem exWf : (Wf.wfL exW exBody).isSome = true := by decide +kernel
theorem exNoCall : noCallL exBody = true := by decide

theorem exAgree : Agree exW exΓ exE := by
  have three : ∀ a, Wf.lookup a exW ≠ none → a = C02Stmt.n ∨ a = C02Stmt.x ∨ a = C02Stmt.y := by
    intro a h
    by_cases h1 : a = C02Stmt.n
    · exact Or.inl h1
    · by_cases h2 : a = C02Stmt.x
      · exact Or.inr (Or.inl h2)
      · by_cases h3 : a = C02Stmt.y
        · exact Or.inr (Or.inr h3)
        · exact absurd (by simp [exW, Wf.formalsEnv, exProc, Proc.args, Wf.lookup, h1, h2, h3]) h
  refine ⟨fun a k h => ?_, fun a h => ?_, fun a h => ?_, fun a sh h ht e he z hz => ?_,
    fun a n m h ht => ?_⟩
  · rcases three a (by rw [h]; simp) with rfl | rfl | rfl <;> decide +kernel
  · by_cases h1 : a = C02Stmt.n
    · subst h1; decide +kernel
    · by_cases h2 : a = C02Stmt.x
      · subst h2; decide +kernel
      · by_cases h3 : a = C02Stmt.y
        · subst h3; decide +kernel
        · exact absurd (by
            simp [exE, tyEnvOfParams, CTyEnv.get, lookupSc, paramsOf, exProc, Proc.args, lookupSym,
              h1, h2, h3]) h
  · have : exΓ.refs = [] := by decide +kernel
    rw [this] at h; simp at h
  · rcases three a h with rfl | rfl | rfl
    · have : lookupSym C02Stmt.n exΓ.typ = some .idx := by rfl
      rw [this] at ht; cases ht
    · have : lookupSym C02Stmt.x exΓ.typ = some (.tensor [.var C02Stmt.n]) := by rfl
      rw [this] at ht
      simp only [Option.some.injEq, Ty.tensor.injEq] at ht; subst ht
      simp only [List.mem_singleton] at he; subst he
      simp only [Range.IExpr.vars, List.mem_singleton] at hz; subst hz
      exact ⟨by decide +kernel, by rfl⟩
    · have : lookupSym C02Stmt.y exΓ.typ = some (.tensor [.var C02Stmt.n]) := by rfl
      rw [this] at ht
      simp only [Option.some.injEq, Ty.tensor.injEq] at ht; subst ht
      simp only [List.mem_singleton] at he; subst he
      simp only [Range.IExpr.vars, List.mem_singleton] at hz; subst hz
      exact ⟨by decide +kernel, by rfl⟩
  · rcases three a (by rw [h]; simp) with rfl | rfl | rfl
    · have : lookupSym C02Stmt.n exΓ.typ = some .idx := by rfl
      rw [this] at ht; cases ht
    · have : lookupSym C02Stmt.x exΓ.typ = some (.tensor [.var C02Stmt.n]) := by rfl
      rw [this] at ht; cases ht
    · have : lookupSym C02Stmt.y exΓ.typ = some (.tensor [.var C02Stmt.n]) := by rfl
      rw [this] at ht; cases ht

theorem exCfgOK : CfgOK exE.cfgT (cfgL exCs) := by
  have : cfgL exCs = [] := by decide +kernel
  rw [this]; intro p hp; cases hp

example : ∃ E', wtL exE exCs = some E' := by
  obtain ⟨W', hW'⟩ := Option.isSome_iff_exists.1 exWf
  obtain ⟨E', h, _⟩ := compL_welltyped_partial exHc hW' exNoCall exAgree exCfgOK
  exact ⟨E', h⟩

/-- no reference run is mentioned: ANY state that agrees with the signature's typing environment -/
example (c : CState Int) (hg : Good exE c) (mon : Bool) : execCB mon exCs c ≠ .error .stuck := by
  obtain ⟨W', hW'⟩ := Option.isSome_iff_exists.1 exWf
  exact compiled_never_stuck_partial mon exHc hW' exNoCall exAgree exCfgOK hg

/-! ## rejected -/

def E0 : CTyEnv :=
  { scopes := [[(C02Stmt.x, .ptr), (C02Stmt.w, .win 1), (C02Stmt.s, .data), (C02Stmt.i, .int)]],
    cfgT := [] }
def zero : CExpr := .lit 0

/-- the F10 shape nearest to `x[2.0]` that the tree can express: a `float` identifier as subscript -/
theorem reject_float_subscript :
    wtC E0 [.store (.idx C02Stmt.x false (.var C02Stmt.s)) (.lit 1 1)] = false ∧
    wtC E0 [.store (.idx C02Stmt.x false (.var C02Stmt.i)) (.lit 1 1)] = true := by decide
theorem reject_stride_out_of_rank :
    wtC E0 [.store (.idx C02Stmt.x false (.strideOf C02Stmt.w 1)) (.lit 1 1)] = false ∧
    wtC E0 [.store (.idx C02Stmt.x false (.strideOf C02Stmt.w 0)) (.lit 1 1)] = true := by decide
theorem reject_data_of_pointer :
    wtC E0 [.store (.idx C02Stmt.x true zero) (.lit 1 1)] = false ∧
    wtC E0 [.store (.idx C02Stmt.w true zero) (.lit 1 1)] = true := by decide
theorem reject_free_of_struct :
    wtC E0 [.free C02Stmt.w] = false ∧ wtC E0 [.free C02Stmt.x] = true := by decide
theorem reject_redeclaration_accept_shadowing :
    wtC E0 [.declScalar C02Stmt.x] = false ∧
    wtC E0 [.ite (.lit 1) [.declScalar C02Stmt.x, .store (.scalar C02Stmt.x false) (.lit 1 1)] []] = true := by
  decide
/-- a rank-2 window initialiser for a rank-1 struct parameter; too few arguments -/
theorem reject_wrong_rank_argument :
    let f : CFun := .mk "f" [(C02Stmt.m, .win 1)] [.nop]
    wtC E0 [.call f [.win C02Stmt.x false [zero, zero] [zero, zero] [true, true]]] = false ∧
    wtC E0 [.call f [.win C02Stmt.x false [zero, zero] [zero, zero] [false, true]]] = true ∧
    wtC E0 [.call f [.winVar C02Stmt.w]] = true ∧ wtC E0 [.call f []] = false ∧
    wtC E0 [.call f [.ptr C02Stmt.x false]] = false := by decide

/-- F10: `y[0] = x[4 / 2]` — the model's `simplify_cir` refuses the float the real code produces;
    `compL` yields no tree (so nothing is claimed), the real compiler prints `x[2.0]` -/
def f10Body : List Stmt :=
  [.assign C02Stmt.y [li 0] (.read C02Stmt.x [.binop .div (li 4) (li 2)])]
theorem f10_compL_raises :
    (match compL exΓ f10Body with
     | .error e => e == "raise:simplify_cir:float"
     | .ok _ => false) = true := by decide +kernel

end Exo.CTyping.C15Stmt
