/-
  Property C01 — `divide_with_recompute` (shape `Rw.divideWithRecompute` of ExoModel/RewriteData.lean,
  what `DoDivideWithRecompute` builds): the loop is covered by `M` overlapping tiles of `q + R`
  iterations; the iterations in the overlaps are executed again, AFTER later iterations of the
  previous tile.  Sound when the iterations pairwise commute and each is idempotent
  (`divide_with_recompute_partial`); the Python checks idempotence of the body only, does not
  require the lower bound to be 0 and does not check that the number of tiles is positive: the
  three recorded findings, as kernel-checked counter-examples.
-/
import ExoModel.RewriteData
import ExoModel.Props.C01
import ExoModel.Lemmas.RecomputeRun
import ExoModel.Lemmas.RecomputeShape
import ExoModel.Lemmas.ContextReach

set_option linter.unusedSectionVars false
namespace Exo.C01
open Exo Exo.Rw Exo.Ctx3

namespace RcEx
def i : Sym := ⟨"i", 1⟩
def io : Sym := ⟨"io", 2⟩
def ii : Sym := ⟨"ii", 3⟩
def x : Sym := ⟨"x", 4⟩
def y : Sym := ⟨"y", 5⟩
def n (k : Int) : Expr := .lit (.int k)
def W : Stmt := .writecfg "c" "x" (.lit (.int 1)) false
end RcEx

section
variable {V : Type} [DataAlg V] (ext : String → List V → V)

/-- `for io in [0, ohi): for ii in [0, ihi): B[i ↦ io * q + ii]`  =  `for i in [0, hi): B`
    when, in the current state, `ohi = M ≥ 1`, the inner bound has the value `q + R` throughout,
    `hi = M * q + R` (`R ≥ 0` is what `Check_IsNonNegativeExpr` establishes), the new iterators
    are fresh, and the iterations of the original loop PAIRWISE COMMUTE and are each IDEMPOTENT.
    `_partial`: lower bound 0 (with another lower bound the rewrite is wrong,
    `divide_with_recompute_lower_bound`); the inner bound is any expression with that value
    (for the expression the primitive builds, `q + (hi - N_before)`, this is a fact about `hi`
    and `ohi` being stable). -/
theorem divide_with_recompute_partial (i io ii : Sym) (hi ohi ihi : Expr) (B : List Stmt) (par : Bool)
    (q R M : Nat) (hM : 0 < M) (σ : State V)
    (hh : evalC σ hi = .ok ((M * q + R : Nat) : Int)) (hm : evalC σ ohi = .ok (M : Int))
    (hih : ∀ vo (t : State V), t.env = σ.env → t.views = σ.views →
      evalC (t.bind io vo) ihi = .ok ((q + R : Nat) : Int))
    (hio : occL io B = false) (hii : occL ii B = false) (hne : io ≠ ii)
    (hlv : ∀ k ∈ loopVarsL B, k ≠ io ∧ k ≠ ii)
    (hcomm : ∀ v w s, ExEq (loopStep ext i B v s >>= loopStep ext i B w)
                           (loopStep ext i B w s >>= loopStep ext i B v))
    (hidem : ∀ v s s', loopStep ext i B v s = .ok s' → loopStep ext i B v s' = .ok s') :
    ExEq (execS ext (.loop io (.lit (.int 0)) ohi
            [.loop ii (.lit (.int 0)) ihi
              (substL i (.binop .add (.binop .mul (.read io []) (.lit (.int q))) (.read ii [])) B) false]
            par) σ)
         (execS ext (.loop i (.lit (.int 0)) hi B par) σ) := by
  rw [execS_loop ext io _ ohi _ par σ 0 M rfl hm (by omega),
      execS_loop ext i _ hi B par σ 0 _ rfl hh (by omega)]
  simp only [Int.sub_zero, Int.toNat_natCast]
  have key := iterate_eq_of_inv (fun s : State V => s.env = σ.env ∧ s.views = σ.views)
    (loopStep ext io [.loop ii (.lit (.int 0)) ihi
      (substL i (.binop .add (.binop .mul (.read io []) (.lit (.int q))) (.read ii [])) B) false])
    (fun vo t => iterate (loopStep ext i B) (q + R) ((q : Int) * vo) t) 0
    (fun v s s' hs hstp => by
      have sc := iterate_heapLen _ (loopStep_scope ext i B) _ _ _ _ hstp
      exact ⟨sc.2.1.trans hs.1, sc.2.2.trans hs.2⟩)
    (fun v s hs => by
      rw [Int.add_zero]
      exact recompute_outer_step ext i io ii ihi B q (q + R) v s (hih v s hs.1 hs.2) hio hii hne hlv)
    M 0 σ ⟨rfl, rfl⟩
  rw [Int.add_zero] at key
  rw [key]
  exact tiles_eq_range (loopStep ext i B) q R M hM hcomm hidem σ

/-- the shape, with the inner bound the primitive builds (`outer_hi` not of the form `E / q`:
    `N_before = outer_hi * q`) -/
example : Rw.divideWithRecompute RcEx.io RcEx.ii (RcEx.n 2) 2
      [.loop RcEx.i (RcEx.n 0) (RcEx.n 5) [.pass] false]
    = some [.loop RcEx.io (RcEx.n 0) (RcEx.n 2)
      [.loop RcEx.ii (RcEx.n 0)
        (.binop .add (RcEx.n 2) (.binop .sub (RcEx.n 5) (.binop .mul (RcEx.n 2) (RcEx.n 2))))
        [.pass] false] false] := by rfl

/-- the hypotheses are satisfiable: 2 tiles of 2 + 1 iterations cover `[0, 5)` -/
example (σ : State V) :
    ExEq (execS ext (.loop RcEx.io (RcEx.n 0) (RcEx.n 2)
            [.loop RcEx.ii (RcEx.n 0)
              (.binop .add (RcEx.n 2) (.binop .sub (RcEx.n 5) (.binop .mul (RcEx.n 2) (RcEx.n 2))))
              (substL RcEx.i (.binop .add (.binop .mul (.read RcEx.io []) (.lit (.int (2 : Nat)))) (.read RcEx.ii []))
                [.pass]) false] false) σ)
         (execS ext (.loop RcEx.i (RcEx.n 0) (RcEx.n 5) [.pass] false) σ) :=
  divide_with_recompute_partial ext RcEx.i RcEx.io RcEx.ii (RcEx.n 5) (RcEx.n 2) _ [.pass] false 2 1 2
    (by omega) σ rfl rfl (fun _ _ _ _ => rfl) (by decide) (by decide) (by decide)
    (fun k hk => by simp [loopVarsL, Stmt.loopVars] at hk)
    (fun v w s => by simp only [loopStep_pass, bind, Except.bind]; exact ExEq.refl _)
    (fun v s s' _ => loopStep_pass ext _ v s')

end

/-- whole-procedure version: the hypotheses are required of the states reaching the loop -/
theorem divide_with_recompute_in_context_partial (C : Ctx) (i io ii : Sym) (hi ohi ihi : Expr)
    (B : List Stmt) (par : Bool) (q : Nat) (nm : String) (args : List FnArg) (preds : List Expr)
    (hio : occL io B = false) (hii : occL ii B = false) (hne : io ≠ ii)
    (hlv : ∀ k ∈ loopVarsL B, k ≠ io ∧ k ≠ ii)
    (side : ∀ (V : Type) [DataAlg V] (ext : String → List V → V) (σ₀ σ : State V),
        Reach ext C [.loop i (.lit (.int 0)) hi B par] σ₀ σ →
        (∃ R M : Nat, 0 < M ∧ evalC σ hi = .ok ((M * q + R : Nat) : Int) ∧ evalC σ ohi = .ok (M : Int) ∧
          ∀ vo (t : State V), t.env = σ.env → t.views = σ.views →
            evalC (t.bind io vo) ihi = .ok ((q + R : Nat) : Int)) ∧
        (∀ v w s, ExEq (loopStep ext i B v s >>= loopStep ext i B w)
                       (loopStep ext i B w s >>= loopStep ext i B v)) ∧
        (∀ v s s', loopStep ext i B v s = .ok s' → loopStep ext i B v s' = .ok s')) :
    Equiv (fun _ => False)
      (.mk nm args preds (C.fill [.loop i (.lit (.int 0)) hi B par]))
      (.mk nm args preds (C.fill [.loop io (.lit (.int 0)) ohi
        [.loop ii (.lit (.int 0)) ihi
          (substL i (.binop .add (.binop .mul (.read io []) (.lit (.int q))) (.read ii [])) B) false]
        par])) := by
  refine rewrite_in_context C _ _ nm args preds (fun V _ ext σ₀ σ hr => ?_)
  obtain ⟨⟨R, M, hM, hh, hm, hih⟩, hcomm, hidem⟩ := side V ext σ₀ σ hr
  rw [execL_singleton, execL_singleton]
  exact (divide_with_recompute_partial ext i io ii hi ohi ihi B par q R M hM σ hh hm hih hio hii hne
    hlv hcomm hidem).symm.le

example : Equiv (fun _ => False)
    (.mk "p" [] [] ((Ctx.seq [.pass] .hole []).fill [.loop RcEx.i (RcEx.n 0) (RcEx.n 5) [.pass] false]))
    (.mk "p" [] [] ((Ctx.seq [.pass] .hole []).fill [.loop RcEx.io (RcEx.n 0) (RcEx.n 2)
      [.loop RcEx.ii (RcEx.n 0)
        (.binop .add (RcEx.n 2) (.binop .sub (RcEx.n 5) (.binop .mul (RcEx.n 2) (RcEx.n 2))))
        (substL RcEx.i (.binop .add (.binop .mul (.read RcEx.io []) (.lit (.int (2 : Nat)))) (.read RcEx.ii []))
          [.pass]) false] false])) :=
  divide_with_recompute_in_context_partial _ RcEx.i RcEx.io RcEx.ii (RcEx.n 5) (RcEx.n 2) _ [.pass] false
    2 "p" [] [] (by decide) (by decide) (by decide)
    (fun k hk => by simp [loopVarsL, Stmt.loopVars] at hk)
    (fun V _ ext σ₀ σ _ => ⟨⟨1, 2, by omega, rfl, rfl, fun _ _ _ _ => rfl⟩,
      fun v w s => by simp only [loopStep_pass, bind, Except.bind]; exact ExEq.refl _,
      fun v s s' _ => loopStep_pass ext _ v s'⟩)

/-! ### the three recorded findings -/

/-- **`divide_with_recompute:outer-hi-not-positive-on-this-input`**: `for i in [0,1): c.x = 1`
    with `outer_hi = 1 / 2`, stride 2: the outer loop runs 0 times, the write is lost -/
theorem divide_with_recompute_no_tile :
    Rw.divideWithRecompute RcEx.io RcEx.ii (.binop .div (RcEx.n 1) (RcEx.n 2)) 2
        [.loop RcEx.i (RcEx.n 0) (RcEx.n 1) [RcEx.W] false]
      = some [.loop RcEx.io (RcEx.n 0) (.binop .div (RcEx.n 1) (RcEx.n 2))
        [.loop RcEx.ii (RcEx.n 0)
          (.binop .add (RcEx.n 2) (.binop .sub (RcEx.n 1) (.binop .sub (RcEx.n 1) (.binop .mod (RcEx.n 1) (RcEx.n 2)))))
          [RcEx.W] false] false] ∧
    ¬ Equiv (fun _ => False)
      (.mk "p" [] [] [.loop RcEx.i (RcEx.n 0) (RcEx.n 1) [RcEx.W] false])
      (.mk "p" [] [] [.loop RcEx.io (RcEx.n 0) (.binop .div (RcEx.n 1) (RcEx.n 2))
        [.loop RcEx.ii (RcEx.n 0)
          (.binop .add (RcEx.n 2) (.binop .sub (RcEx.n 1) (.binop .sub (RcEx.n 1) (.binop .mod (RcEx.n 1) (RcEx.n 2)))))
          [RcEx.W] false] false]) := by
  refine ⟨by rfl, fun h => ?_⟩
  obtain ⟨o', ho', r⟩ := h Int (fun _ _ => 0) ⟨[], [], [], []⟩ ⟨[], [], [], [(("c", "x"), .ctrl 1)]⟩ (by rfl)
  have e : execB (fun _ _ => (0 : Int)) (Proc.body (.mk "p" [] []
      [.loop RcEx.io (RcEx.n 0) (.binop .div (RcEx.n 1) (RcEx.n 2))
        [.loop RcEx.ii (RcEx.n 0)
          (.binop .add (RcEx.n 2) (.binop .sub (RcEx.n 1) (.binop .sub (RcEx.n 1) (.binop .mod (RcEx.n 1) (RcEx.n 2)))))
          [RcEx.W] false] false])) ⟨[], [], [], []⟩ = .ok ⟨[], [], [], []⟩ := by rfl
  rw [e] at ho'
  cases ho'
  obtain ⟨v', hv', _⟩ := r.cfg ("c", "x") (fun hk => hk) (.ctrl 1) (by rfl)
  simp [lookupCfg] at hv'

/-- **`divide_with_recompute:loop-lower-bound-not-zero`**: `for i in [2,4): c.x = 1` with
    `outer_hi = 4 / 2`: the lower bound 2 is kept for the outer loop, `for io in [2, 2)` -/
theorem divide_with_recompute_lower_bound :
    Rw.divideWithRecompute RcEx.io RcEx.ii (.binop .div (RcEx.n 4) (RcEx.n 2)) 2
        [.loop RcEx.i (RcEx.n 2) (RcEx.n 4) [RcEx.W] false]
      = some [.loop RcEx.io (RcEx.n 2) (.binop .div (RcEx.n 4) (RcEx.n 2))
        [.loop RcEx.ii (RcEx.n 0)
          (.binop .add (RcEx.n 2) (.binop .sub (RcEx.n 4) (.binop .sub (RcEx.n 4) (.binop .mod (RcEx.n 4) (RcEx.n 2)))))
          [RcEx.W] false] false] ∧
    ¬ Equiv (fun _ => False)
      (.mk "p" [] [] [.loop RcEx.i (RcEx.n 2) (RcEx.n 4) [RcEx.W] false])
      (.mk "p" [] [] [.loop RcEx.io (RcEx.n 2) (.binop .div (RcEx.n 4) (RcEx.n 2))
        [.loop RcEx.ii (RcEx.n 0)
          (.binop .add (RcEx.n 2) (.binop .sub (RcEx.n 4) (.binop .sub (RcEx.n 4) (.binop .mod (RcEx.n 4) (RcEx.n 2)))))
          [RcEx.W] false] false]) := by
  refine ⟨by rfl, fun h => ?_⟩
  obtain ⟨o', ho', r⟩ := h Int (fun _ _ => 0) ⟨[], [], [], []⟩ ⟨[], [], [], [(("c", "x"), .ctrl 1)]⟩ (by rfl)
  have e : execB (fun _ _ => (0 : Int)) (Proc.body (.mk "p" [] []
      [.loop RcEx.io (RcEx.n 2) (.binop .div (RcEx.n 4) (RcEx.n 2))
        [.loop RcEx.ii (RcEx.n 0)
          (.binop .add (RcEx.n 2) (.binop .sub (RcEx.n 4) (.binop .sub (RcEx.n 4) (.binop .mod (RcEx.n 4) (RcEx.n 2)))))
          [RcEx.W] false] false])) ⟨[], [], [], []⟩ = .ok ⟨[], [], [], []⟩ := by rfl
  rw [e] at ho'
  cases ho'
  obtain ⟨v', hv', _⟩ := r.cfg ("c", "x") (fun hk => hk) (.ctrl 1) (by rfl)
  simp [lookupCfg] at hv'

namespace RcEx
/-- `for i in [0,4): y[i] = x[i+1]; x[i] = 3` -/
def oldB : List Stmt :=
  [.loop i (n 0) (n 4)
    [.assign y [.read i []] (.read x [.binop .add (.read i []) (n 1)]),
     .assign x [.read i []] (.lit (.data 3 1))] false]
def newB : List Stmt :=
  [.loop io (n 0) (n 2)
    [.loop ii (n 0) (.binop .add (n 1) (.binop .sub (n 4) (.binop .mul (n 2) (n 1))))
      [.assign y [.binop .add (.binop .mul (.read io []) (n 1)) (.read ii [])]
        (.read x [.binop .add (.binop .add (.binop .mul (.read io []) (n 1)) (.read ii [])) (n 1)]),
       .assign x [.binop .add (.binop .mul (.read io []) (n 1)) (.read ii [])] (.lit (.data 3 1))]
      false] false]
/-- `x = [10..14]`, `y = [0,0,0,0]` -/
def σ4 : State Int :=
  ⟨[], [(x, ⟨0, 0, [(5, 1)]⟩), (y, ⟨1, 0, [(4, 1)]⟩)],
    [[some 10, some 11, some 12, some 13, some 14], [some 0, some 0, some 0, some 0]], []⟩
end RcEx

/-- **`divide_with_recompute:recomputed-iterations-see-writes-of-later-iterations`**: the body
    `y[i] = x[i+1]; x[i] = 3` is idempotent, but its iterations do not commute.  With
    `outer_hi = 2`, stride 1 over `[0, 4)` the tiles are `[0,3)` and `[1,4)`: iteration 1 is
    executed again after iteration 2 has overwritten `x[2]`, so `y[1]` is 3 instead of 12 -/
theorem divide_with_recompute_needs_commute :
    Rw.divideWithRecompute RcEx.io RcEx.ii (RcEx.n 2) 1 RcEx.oldB = some RcEx.newB ∧
    ¬ Equiv (fun _ => False) (.mk "p" [] [] RcEx.oldB) (.mk "p" [] [] RcEx.newB) := by
  refine ⟨by rfl, fun h => ?_⟩
  have hOld : (execB (fun _ _ => (0 : Int)) RcEx.oldB RcEx.σ4).toOption.map (·.heap)
      = some [[some 3, some 3, some 3, some 3, some 14], [some 11, some 12, some 13, some 14]] := by
    decide +kernel
  have hNew : (execB (fun _ _ => (0 : Int)) RcEx.newB RcEx.σ4).toOption.map (·.heap)
      = some [[some 3, some 3, some 3, some 3, some 14], [some 11, some 3, some 13, some 14]] := by
    decide +kernel
  cases hold : execB (fun _ _ => (0 : Int)) RcEx.oldB RcEx.σ4 with
  | error e => rw [hold] at hOld; simp [Except.toOption] at hOld
  | ok o =>
    rw [hold] at hOld
    simp only [Except.toOption, Option.map_some, Option.some.injEq] at hOld
    obtain ⟨o', ho', r⟩ := h Int (fun _ _ => 0) RcEx.σ4 o hold
    simp only [Proc.body] at ho'
    rw [ho'] at hNew
    simp only [Except.toOption, Option.map_some, Option.some.injEq] at hNew
    have := r.cells (1, 1)
    rw [hOld, hNew] at this
    simp [CellRefines, heapGet] at this

end Exo.C01
