/-
  Property C06 — block cursors under `Block._move`, beyond `move_block_partial` of Props/C06.lean.

  `move_block_same_list`: when a range `[lo, hi)` of a statement list is moved to a gap of THE SAME
  list (what `reorder_stmts` does, and every `_move` of `reorder_loops` / `lift_scope` / `fission`
  whose source and target lie in one body), every block cursor of that list that does not straddle
  the moved range or the target gap is forwarded COHERENTLY (`BlockCohAt`): the forwarded block is
  a valid non-empty block of the new tree and covers exactly the forwards of what the old block
  covered, in order.  "Does not straddle": the block is disjoint from the moved range and does not
  strictly contain the insertion point, or it lies inside the moved range.

  The straddling cases are incoherent in the real code (`_forward_move` forwards a block through
  its two end points): kernel-checked counter-examples below, real behaviour checked with
  repro/c06move/straddle.py.
-/
import ExoModel.CursorSpec
import ExoModel.Lemmas.CursorMoveBlock

namespace Exo.Cursor

theorem get?_child {t n : Tree} {bp : Path} {a : Attr} {k : Nat} (h : t.get? bp = some n)
    (hk : k < (n.children a).length) : (t.get? (bp ++ [(a, k)])).isSome = true := by
  rw [Tree.get?_append_of_get? h, Tree.get?_cons]
  simp [List.getElem?_eq_getElem hk]

theorem child_of_get? {t : Tree} {bp : Path} {a : Attr} {k : Nat}
    (h : (t.get? (bp ++ [(a, k)])).isSome = true) :
    ∃ n, t.get? bp = some n ∧ k < (n.children a).length := by
  rw [Tree.get?_append] at h
  cases hb : t.get? bp with
  | none => rw [hb] at h; simp at h
  | some n =>
    rw [hb] at h
    simp only [Option.bind_some, Tree.get?_cons] at h
    refine ⟨n, rfl, ?_⟩
    cases hc : (n.children a)[k]? with
    | none => rw [hc] at h; simp at h
    | some c =>
      rcases Nat.lt_or_ge k (n.children a).length with hlt | hge
      · exact hlt
      · rw [List.getElem?_eq_none_iff.mpr hge] at hc; cases hc

/-- **block cursors under a move inside one list**: for every tree, every list `(bp, ba)`, every
    moved range `[lo, hi)`, every target gap next to a statement `gj` of the same list that is not
    itself moved, and every valid block `[rlo, rhi)` of that list which
      * is disjoint from the moved range and does not strictly contain the insertion index `gi`, or
      * lies inside the moved range,
    the forwarded cursor is a valid non-empty block of the new tree that covers exactly the forwards
    of the statements the old block covered (members and everything below them), in order. -/
theorem move_block_same_list (t n : Tree) (bp : Path) (ba : Attr) (lo hi gj : Nat) (gTy : GapType)
    (pass : Tree) (rlo rhi : Nat)
    (hn : t.get? bp = some n) (hlt : lo < hi) (hhi : hi ≤ (n.children ba).length)
    (hgj : gj < (n.children ba).length) (hgm : gj < lo ∨ hi ≤ gj)
    (hr : rlo < rhi) (hrhi : rhi ≤ (n.children ba).length)
    (hns : ((rhi ≤ lo ∨ hi ≤ rlo) ∧
              (insertionIndex (bp ++ [(ba, gj)]) gTy ≤ rlo ∨ rhi ≤ insertionIndex (bp ++ [(ba, gj)]) gTy))
           ∨ (lo ≤ rlo ∧ rhi ≤ hi)) :
    BlockCohAt t (move t bp ba lo hi (bp ++ [(ba, gj)]) gTy pass).1
      (move t bp ba lo hi (bp ++ [(ba, gj)]) gTy pass).2 bp ba rlo rhi := by
  have hg : ValidNode t (bp ++ [(ba, gj)]) := get?_child hn hgj
  have hP1 : ∀ i s, lo ≤ i → i < hi → bp ++ [(ba, gj)] ≠ bp ++ (ba, i) :: s := by
    intro i s h1 h2 he
    have := List.append_cancel_left he
    simp only [List.cons.injEq, Prod.mk.injEq] at this
    omega
  have hbug : moveBug (bp ++ [(ba, lo)]) (gapPathOf (bp ++ [(ba, gj)]) gTy) = false := by
    rw [gapPathOf_snoc]; exact moveBug_same ba lo _ bp
  have hcoh := move_nodeCoh (t := t) (n := n) (bp := bp) (ba := ba) (lo := lo) (hi := hi) (gp := bp)
    (ga := ba) (gj := gj) gTy pass hn hlt hhi hg hP1 hbug
  -- the forwarding function
  have hfw : (move t bp ba lo hi (bp ++ [(ba, gj)]) gTy pass).2 =
      forwardMove bp ba lo hi (bp ++ [(ba, insertionIndex (bp ++ [(ba, gj)]) gTy)]) := by
    have hns' := move_not_inSelf hP1
    simp only [move, hns', Bool.false_eq_true, if_false, gapPathOf_snoc]
  generalize hgi : insertionIndex (bp ++ [(ba, gj)]) gTy = gi at hns hfw
  have hgi' : gi ≤ lo ∨ hi ≤ gi := by
    rcases insertionIndex_cases bp ba gj gTy with h | h <;> rw [hgi] at h <;> omega
  generalize hmv : move t bp ba lo hi (bp ++ [(ba, gj)]) gTy pass = mv at hcoh hfw ⊢
  right
  refine ⟨bp, ba, sigma lo hi gi rlo, sigma lo hi gi (rhi - 1) + 1, ?_, ?_, ?_⟩
  · rw [hfw]; exact forwardMove_block_same bp ba lo hi gi rlo rhi hlt hr hns hgi'
  · -- validity: the forward of the last member is a node of the new tree
    have hlast : (t.get? (bp ++ [(ba, rhi - 1)])).isSome = true := get?_child hn (by omega)
    obtain ⟨m, hm⟩ := Option.isSome_iff_exists.mp hlast
    rcases hcoh _ m hm with hinv | ⟨p', n', hf, hg', _, _⟩
    · rw [hfw] at hinv; simp [forwardMove] at hinv
    · rw [hfw] at hf
      simp only [forwardMove, Except.ok.injEq, Cursor.node.injEq] at hf
      have he := fwdMove_same bp ba lo hi gi (rhi - 1) []
      rw [he] at hf
      subst hf
      obtain ⟨n2, hn2, hk⟩ := child_of_get? (t := mv.1) (bp := bp) (a := ba)
        (k := sigma lo hi gi (rhi - 1)) (by simp [hg'])
      refine ⟨n2, hn2, ?_, by omega⟩
      have := (sigma_covers lo hi gi rlo rhi rlo hlt hr hns hgi').2 ⟨Nat.le_refl _, hr⟩
      omega
  · intro q q' _ hq
    rw [hfw] at hq
    simp only [forwardMove, Except.ok.injEq, Cursor.node.injEq] at hq
    subst hq
    cases hv : viewThrough bp ba q with
    | none =>
      rw [fwdMove_same_none bp ba lo hi gi q hv]
      exact ⟨fun h => absurd h (not_covers_of_view_none hv), fun h => absurd h (not_covers_of_view_none hv)⟩
    | some v =>
      obtain ⟨i, rest⟩ := v
      have hq := viewThrough_eq_some.mp hv
      subst hq
      rw [fwdMove_same, covers_through, covers_through]
      exact sigma_covers lo hi gi rlo rhi i hlt hr hns hgi'

/-! ### non-vacuity and the straddling cases -/

def leafM (l : Nat) : Tree := .mk l 3 [] []

/-- `proc: [for(1): [s2; s3; s4; s5; s6]; s9]` -/
def exM : Tree := .mk 0 0 [.mk 1 1 [leafM 2, leafM 3, leafM 4, leafM 5, leafM 6] [], leafM 9] []

/-- move `[s3; s4]` after `s5` (insertion index 4) inside the loop body -/
def exMv : Tree × Fwd := move exM [(.body, 0)] .body 1 3 [(.body, 0), (.body, 3)] .after (leafM 99)

/-- new order `[s2; s5; s3; s4; s6]`; the non-straddling blocks: the moved block `[s3; s4]`, a part
    of it `[s3]`, `[s6]` after the gap, `[s2]` before the range, `[s5]` between range and gap -/
example : insertionIndex ([(.body, 0)] ++ [(.body, 3)]) .after = 4 ∧
    exMv.2 (.block [(.body, 0)] .body 1 3) = .ok (.block [(.body, 0)] .body 2 4) ∧
    exMv.2 (.block [(.body, 0)] .body 1 2) = .ok (.block [(.body, 0)] .body 2 3) ∧
    exMv.2 (.block [(.body, 0)] .body 4 5) = .ok (.block [(.body, 0)] .body 4 5) ∧
    exMv.2 (.block [(.body, 0)] .body 0 1) = .ok (.block [(.body, 0)] .body 0 1) ∧
    exMv.2 (.block [(.body, 0)] .body 3 4) = .ok (.block [(.body, 0)] .body 1 2) := by decide

example : BlockCohAt exM exMv.1 exMv.2 [(.body, 0)] .body 1 3 :=
  move_block_same_list exM (.mk 1 1 [leafM 2, leafM 3, leafM 4, leafM 5, leafM 6] []) [(.body, 0)] .body
    1 3 3 .after (leafM 99) 1 3 rfl (by decide) (by decide) (by decide) (by decide) (by decide)
    (by decide) (by decide)

example : BlockCohAt exM exMv.1 exMv.2 [(.body, 0)] .body 3 4 :=
  move_block_same_list exM (.mk 1 1 [leafM 2, leafM 3, leafM 4, leafM 5, leafM 6] []) [(.body, 0)] .body
    1 3 3 .after (leafM 99) 3 4 rfl (by decide) (by decide) (by decide) (by decide) (by decide)
    (by decide) (by decide)

/-- **straddling the moved range**.  Block `[s2; s3]` (one end point in the moved range): `invalid`
    (`_intersects_partially`) — coherent.  Block `[s3; s4; s5]` (moved range plus the statement it
    jumps over): end points `s3 ↦ 2`, `s5 ↦ 1`, the assert `new_start <= new_end` fails — a CRASH.
    Block `[s2; s3; s4; s5]` (contains the moved range, insertion point at its end): forwarded
    through its end points `s2 ↦ 0`, `s5 ↦ 1` to `[s2; s5]` — it LOSES `s3` and `s4`, which are
    still there (at 2 and 3): not `BlockCohAt`.  (Real code: repro/c06move/straddle.py, identical.) -/
theorem move_block_straddle_counterexample :
    exMv.2 (.block [(.body, 0)] .body 0 2) = .error .invalid ∧
    exMv.2 (.block [(.body, 0)] .body 1 4) = .error .crash ∧
    exMv.2 (.block [(.body, 0)] .body 0 4) = .ok (.block [(.body, 0)] .body 0 2) ∧
    exMv.2 (.node [(.body, 0), (.body, 1)]) = .ok (.node [(.body, 0), (.body, 2)]) ∧
    ¬ BlockCohAt exM exMv.1 exMv.2 [(.body, 0)] .body 0 4 := by
  refine ⟨by decide, by decide, by decide, by decide, ?_⟩
  rintro (h | ⟨anchor', a', lo', hi', h1, _, h3⟩)
  · revert h; decide
  · have e : exMv.2 (.block [(.body, 0)] .body 0 4) = .ok (.block [(.body, 0)] .body 0 2) := by decide
    rw [e] at h1
    simp only [Except.ok.injEq, Cursor.block.injEq] at h1
    obtain ⟨rfl, rfl, rfl, rfl⟩ := h1
    have hq : exMv.2 (.node [(.body, 0), (.body, 1)]) = .ok (.node [(.body, 0), (.body, 2)]) := by decide
    have hval : ValidNode exM [(.body, 0), (.body, 1)] := by unfold ValidNode; decide
    have := (h3 [(.body, 0), (.body, 1)] [(.body, 0), (.body, 2)] hval hq).2
      ⟨1, [], by decide, by decide, rfl⟩
    obtain ⟨j, rest, _, hj2, hj3⟩ := this
    have := List.append_cancel_left (as := [(Attr.body, 0)]) hj3
    simp only [List.cons.injEq, Prod.mk.injEq] at this
    omega

/-- **straddling the target gap**: the block `[s5; s6]` strictly contains the insertion point
    (between `s5` and `s6`); it is forwarded to `[s5; s3; s4; s6]` shifted: `[1, 5)` — it GROWS
    around the moved statements (by design in the real code, but not `BlockCohAt`: the forwards of
    `s3`, `s4` are covered now and were not before) -/
theorem move_block_gap_straddle_counterexample :
    exMv.2 (.block [(.body, 0)] .body 3 5) = .ok (.block [(.body, 0)] .body 1 5) ∧
    exMv.2 (.node [(.body, 0), (.body, 1)]) = .ok (.node [(.body, 0), (.body, 2)]) ∧
    ¬ BlockCohAt exM exMv.1 exMv.2 [(.body, 0)] .body 3 5 := by
  refine ⟨by decide, by decide, ?_⟩
  rintro (h | ⟨anchor', a', lo', hi', h1, _, h3⟩)
  · revert h; decide
  · have e : exMv.2 (.block [(.body, 0)] .body 3 5) = .ok (.block [(.body, 0)] .body 1 5) := by decide
    rw [e] at h1
    simp only [Except.ok.injEq, Cursor.block.injEq] at h1
    obtain ⟨rfl, rfl, rfl, rfl⟩ := h1
    have hq : exMv.2 (.node [(.body, 0), (.body, 1)]) = .ok (.node [(.body, 0), (.body, 2)]) := by decide
    have hval : ValidNode exM [(.body, 0), (.body, 1)] := by unfold ValidNode; decide
    have := (h3 [(.body, 0), (.body, 1)] [(.body, 0), (.body, 2)] hval hq).1
      ⟨2, [], by decide, by decide, rfl⟩
    obtain ⟨j, rest, hj1, _, hj3⟩ := this
    have := List.append_cancel_left (as := [(Attr.body, 0)]) hj3
    simp only [List.cons.injEq, Prod.mk.injEq] at this
    omega

end Exo.Cursor
