/-
  Props/C15.lean — "inconsistent annotations are rejected" (part (b) of C15) for the models of
  ExoModel/Analyses.lean, and the window-struct fragment of part (a).

  Declarative side.  `Consistent p` for an annotated procedure `p`, with `Γ` the declarations in force
  (arguments, then every allocation / window statement in program order; names are `Sym`s, i.e. unique):

    precision  : all buffers / typed literals read in one right-hand side have ONE precision
                 (`OnePrec`, modulo `R` ↦ default), and every buffer mentioned in a call argument has the
                 precision of the callee's parameter (modulo `R` ↦ default on both sides)
    memory     : at every call, each data parameter receives a buffer whose memory is a subclass of the
                 parameter's memory
    window     : no window (window expression, or variable DECLARED as a window) is passed where the callee
                 declares a dense tensor
    capability : every buffer read directly in a right-hand side is in a readable memory, every assigned
                 buffer in a writable one, every reduced buffer in a reducible one

  Theorems.
    analyzeProc_ok_consistent_partial / analyses_ok_consistent_partial :
        `analyses ps = ok`  →  every non-instr procedure is `Consistent`, PROVIDED the type annotations on
        call-argument nodes agree with the declarations (`Fresh`).  The precision, memory and capability
        parts need no such hypothesis (`analyses_ok_consistent_except_window`, full strength).
    stale_annotation_accepted : without `Fresh` the implication is FALSE — witness = what
        `set_window(p, "x", True)` produces (the `Read` nodes keep their old dense type); finding
        "set_window:stale-read-type".
    window_expr_arg_struct_eq_partial + f9_witness : part (a), struct-type fragment only.
-/
import ExoModel.Analyses

namespace Exo.Props.C15
open Exo.Analyses Exo.Gen.Tables15

/-! ## table facts used by the proofs (re-checked whenever Gen/Tables15 changes) -/

theorem defaultPrec_ne_R : defaultPrec ≠ Prec.R := by decide

theorem dflt_ne_R (p : Prec) : dflt p ≠ Prec.R := by
  unfold dflt
  split
  · exact defaultPrec_ne_R
  · assumption

/-- the `issubclass` matrix is a preorder on the table: call chains compose -/
theorem mem_all : ∀ m : Mem, m ∈ Mem.all := by
  intro m
  cases m <;> decide

theorem subclass_refl (m : Mem) : m.subclass m = true := by
  have h : ∀ m ∈ Mem.all, m.subclass m = true := by decide
  exact h m (mem_all m)

theorem subclass_trans (a b c : Mem) : a.subclass b = true → b.subclass c = true → a.subclass c = true := by
  have h : ∀ a ∈ Mem.all, ∀ b ∈ Mem.all, ∀ c ∈ Mem.all,
      a.subclass b = true → b.subclass c = true → a.subclass c = true := by decide +kernel
  exact h a (mem_all a) b (mem_all b) c (mem_all c)

/-- pinned capabilities of the memories of the repository (a flipped `can_read` / a `write` that stops
    raising shows up here) -/
theorem capabilities_pinned :
    (Mem.DRAM.canRead && Mem.DRAM.canWrite && Mem.DRAM.canReduce) = true
    ∧ (Mem.DRAM_STACK.canRead && Mem.DRAM_STACK.canWrite && Mem.DRAM_STACK.canReduce) = true
    ∧ (Mem.DRAM_STATIC.canRead && Mem.DRAM_STATIC.canWrite && Mem.DRAM_STATIC.canReduce) = true
    ∧ (Mem.MDRAM.canRead && Mem.MDRAM.canWrite && Mem.MDRAM.canReduce) = true
    ∧ (Mem.AVX2.canRead || Mem.AVX2.canWrite || Mem.AVX2.canReduce) = false
    ∧ (Mem.AVX512.canRead || Mem.AVX512.canWrite || Mem.AVX512.canReduce) = false
    ∧ (Mem.AMX_TILE.canRead || Mem.AMX_TILE.canWrite || Mem.AMX_TILE.canReduce) = false
    ∧ (Mem.GEMM_SCRATCH.canRead || Mem.GEMM_SCRATCH.canWrite || Mem.GEMM_SCRATCH.canReduce) = false
    ∧ (Mem.GEMM_ACCUM.canRead || Mem.GEMM_ACCUM.canWrite || Mem.GEMM_ACCUM.canReduce) = false
    ∧ (Mem.T_WO.canRead = false ∧ Mem.T_WO.canWrite = true ∧ Mem.T_WO.canReduce = false)
    ∧ (Mem.T_RO.canRead = true ∧ Mem.T_RO.canWrite = false ∧ Mem.T_RO.canReduce = false)
    ∧ Mem.DRAM_STACK.subclass Mem.DRAM = true ∧ Mem.DRAM.subclass Mem.DRAM_STACK = false
    ∧ Mem.AVX2.subclass Mem.DRAM = false ∧ Mem.AVX2.subclass Mem.AVX512 = false := by
  decide

/-! ## environments -/

theorem lookup_mem {Γ : Env} {x : Name} {d : Decl} (h : lookup Γ x = some d) : (x, d) ∈ Γ := by
  induction Γ with
  | nil => simp [lookup] at h
  | cons a r ih =>
    obtain ⟨y, e⟩ := a
    simp only [lookup] at h
    split at h
    · rename_i hxy
      cases h
      subst hxy
      exact List.mem_cons_self
    · exact List.mem_cons_of_mem _ (ih h)

theorem lookup_of_mem_nodup {Γ : Env} {x : Name} {d : Decl} (hn : (keys Γ).Nodup) (h : (x, d) ∈ Γ) :
    lookup Γ x = some d := by
  induction Γ with
  | nil => cases h
  | cons a r ih =>
    obtain ⟨y, e⟩ := a
    simp only [keys, List.map_cons, List.nodup_cons] at hn
    simp only [lookup]
    rcases List.mem_cons.mp h with h | h
    · cases h
      simp
    · have hx : x ∈ List.map Prod.fst r := List.mem_map.mpr ⟨(x, d), h, rfl⟩
      have hne : x ≠ y := fun hxy => hn.1 (hxy ▸ hx)
      simp only [hne, if_false]
      exact ih hn.2 h

/-- a lookup that succeeds in a sub-environment succeeds with the same answer in a duplicate-free
    super-environment (ChainMap scope vs. flat dictionary) -/
theorem lookup_sublist {Γs Γf : Env} {x : Name} {d : Decl} (hs : Γs.Sublist Γf) (hn : (keys Γf).Nodup)
    (h : lookup Γs x = some d) : lookup Γf x = some d :=
  lookup_of_mem_nodup hn (hs.subset (lookup_mem h))

theorem lookup_none_not_mem_keys {Γ : Env} {x : Name} (h : lookup Γ x = none) : x ∉ keys Γ := by
  induction Γ with
  | nil => simp [keys]
  | cons a r ih =>
    obtain ⟨y, e⟩ := a
    simp only [lookup] at h
    split at h
    · cases h
    · rename_i hxy
      simp only [keys, List.map_cons, List.mem_cons, not_or]
      exact ⟨hxy, ih h⟩

theorem aliasDecl_sublist {Γs Γf : Env} {e : Expr} {d : Decl} (hs : Γs.Sublist Γf) (hn : (keys Γf).Nodup)
    (h : aliasDecl Γs e = some d) : aliasDecl Γf e = some d := by
  cases e <;> simp only [aliasDecl] at h ⊢ <;> try (cases h)
  all_goals
    rename_i x ann
    cases hl : lookup Γs x with
    | none => simp [hl] at h
    | some dx =>
      rw [lookup_sublist hs hn hl]
      simpa [hl] using h

/-! ## the declarations in force (flat, program order) -/

mutual
def declsS (Γ : Env) : Stmt → Env
  | .alloc x d _ => (x, d) :: Γ
  | .windowStmt x rhs =>
      match aliasDecl Γ rhs with
      | some d => (x, d) :: Γ
      | none => Γ
  | .for_ b => declsB Γ b
  | .if_ b1 b2 => declsB (declsB Γ b1) b2
  | .pass => Γ
  | .assign _ _ => Γ
  | .reduce _ _ => Γ
  | .call _ _ => Γ
def declsB (Γ : Env) : Block → Env
  | .nil => Γ
  | .cons s r => declsB (declsS Γ s) r
end

mutual
theorem declsS_suffix (Γ : Env) : ∀ s : Stmt, Γ <:+ declsS Γ s
  | .alloc x d _ => by simp only [declsS]; exact List.suffix_cons _ _
  | .windowStmt x rhs => by
      simp only [declsS]
      split
      · exact List.suffix_cons _ _
      · exact List.suffix_refl _
  | .for_ b => by simp only [declsS]; exact declsB_suffix Γ b
  | .if_ b1 b2 => by
      simp only [declsS]
      exact (declsB_suffix Γ b1).trans (declsB_suffix _ b2)
  | .pass => by simp only [declsS]; exact List.suffix_refl _
  | .assign _ _ => by simp only [declsS]; exact List.suffix_refl _
  | .reduce _ _ => by simp only [declsS]; exact List.suffix_refl _
  | .call _ _ => by simp only [declsS]; exact List.suffix_refl _
theorem declsB_suffix (Γ : Env) : ∀ b : Block, Γ <:+ declsB Γ b
  | .nil => by simp only [declsB]; exact List.suffix_refl _
  | .cons s r => by
      simp only [declsB]
      exact (declsS_suffix Γ s).trans (declsB_suffix _ r)
end

theorem nodup_of_suffix {Γ Γ' : Env} (h : Γ <:+ Γ') (hn : (keys Γ').Nodup) : (keys Γ).Nodup :=
  List.Nodup.sublist (h.sublist.map Prod.fst) hn

/-! ## precision -/

mutual
/-- (defaulted) precisions of the buffers and typed literals an expression mentions -/
def leafPrecs (Γ : Env) : Expr → List Prec
  | .ctrl => []
  | .const p => if p = Prec.R then [] else [p]
  | .read x _ =>
      match lookup Γ x with
      | some d => [dflt d.prec]
      | none => []
  | .window x _ =>
      match lookup Γ x with
      | some d => [dflt d.prec]
      | none => []
  | .usub e => leafPrecs Γ e
  | .binop l r => leafPrecs Γ l ++ leafPrecs Γ r
  | .extern as => leafPrecsArgs Γ as
def leafPrecsArgs (Γ : Env) : Args → List Prec
  | .nil => []
  | .cons e r => leafPrecs Γ e ++ leafPrecsArgs Γ r
end

/-- one precision per expression -/
def OnePrec (Γ : Env) (e : Expr) : Prop := ∀ p ∈ leafPrecs Γ e, ∀ q ∈ leafPrecs Γ e, p = q

/-- every buffer mentioned in an argument has the precision of the callee's parameter -/
def CallPrecOK (Γ : Env) : Args → List Param → Prop
  | .cons a r, ⟨_, .data dp⟩ :: ps => (∀ q ∈ leafPrecs Γ a, q = dflt dp.prec) ∧ CallPrecOK Γ r ps
  | .cons _ r, ⟨_, .ctrl⟩ :: ps => CallPrecOK Γ r ps
  | .nil, _ => True
  | .cons _ _, [] => True

mutual
def PrecConsS (Γ : Env) : Stmt → Prop
  | .assign _ rhs => OnePrec Γ rhs
  | .reduce _ rhs => OnePrec Γ rhs
  | .call f args => CallPrecOK Γ args f.params
  | .for_ b => PrecConsB Γ b
  | .if_ b1 b2 => PrecConsB Γ b1 ∧ PrecConsB (declsB Γ b1) b2
  | .pass => True
  | .alloc _ _ _ => True
  | .windowStmt _ _ => True
def PrecConsB (Γ : Env) : Block → Prop
  | .nil => True
  | .cons s r => PrecConsS Γ s ∧ PrecConsB (declsS Γ s) r
end

mutual
theorem leafPrecs_ne_R (Γ : Env) : ∀ e : Expr, ∀ q ∈ leafPrecs Γ e, q ≠ Prec.R
  | .ctrl, q, h => by simp [leafPrecs] at h
  | .const p, q, h => by
      simp only [leafPrecs] at h
      split at h
      · cases h
      · rename_i hp
        simp only [List.mem_singleton] at h
        exact h ▸ hp
  | .read x _, q, h => by
      simp only [leafPrecs] at h
      split at h
      · simp only [List.mem_singleton] at h
        exact h ▸ dflt_ne_R _
      · cases h
  | .window x _, q, h => by
      simp only [leafPrecs] at h
      split at h
      · simp only [List.mem_singleton] at h
        exact h ▸ dflt_ne_R _
      · cases h
  | .usub e, q, h => by
      simp only [leafPrecs] at h
      exact leafPrecs_ne_R Γ e q h
  | .binop l r, q, h => by
      simp only [leafPrecs, List.mem_append] at h
      rcases h with h | h
      · exact leafPrecs_ne_R Γ l q h
      · exact leafPrecs_ne_R Γ r q h
  | .extern as, q, h => by
      simp only [leafPrecs] at h
      exact leafPrecsArgs_ne_R Γ as q h
theorem leafPrecsArgs_ne_R (Γ : Env) : ∀ as : Args, ∀ q ∈ leafPrecsArgs Γ as, q ≠ Prec.R
  | .nil, q, h => by simp [leafPrecsArgs] at h
  | .cons e r, q, h => by
      simp only [leafPrecsArgs, List.mem_append] at h
      rcases h with h | h
      · exact leafPrecs_ne_R Γ e q h
      · exact leafPrecsArgs_ne_R Γ r q h
end

/-- what an error-free run of `precE` establishes about the type it returns -/
def Good (Γ : Env) (e : Expr) (t : ETy) : Prop :=
  t ≠ ETy.err ∧ ∀ q ∈ leafPrecs Γ e, ∃ s, t = ETy.data q s

theorem externTy_mem : ∀ (ts : List ETy) (acc : ETy), externTy ts acc = acc ∨ externTy ts acc ∈ ts
  | [], acc => by simp [externTy]
  | t :: r, acc => by
      simp only [externTy]
      split
      · rcases externTy_mem r acc with h | h
        · exact Or.inl h
        · exact Or.inr (List.mem_cons_of_mem _ h)
      · rcases externTy_mem r t with h | h
        · exact Or.inr (by rw [h]; exact List.mem_cons_self)
        · exact Or.inr (List.mem_cons_of_mem _ h)

theorem externErrs_nil {typ : ETy} : ∀ {ts : List ETy}, externErrs typ ts = [] → ∀ t ∈ ts, t = typ ∨ t.isR = true
  | [], _, t, ht => by cases ht
  | u :: r, h, t, ht => by
      simp only [externErrs, List.append_eq_nil_iff] at h
      rcases List.mem_cons.mp ht with rfl | ht
      · by_cases hu : t = typ
        · exact Or.inl hu
        · right
          have := h.1
          by_cases hr : t.isR = true
          · exact hr
          · simp [hu, hr] at this
      · exact externErrs_nil h.2 t ht

theorem isR_eq {t : ETy} (h : t.isR = true) : t = ETy.data Prec.R Shape.scalar := by
  unfold ETy.isR at h
  split at h
  · rfl
  · cases h

/-- all types of an argument list are good -/
def GoodArgs (Γ : Env) : Args → List ETy → Prop
  | .nil, [] => True
  | .cons e r, t :: ts => Good Γ e t ∧ GoodArgs Γ r ts
  | _, _ => False

theorem goodArgs_leaf {Γ : Env} : ∀ {as : Args} {ts : List ETy}, GoodArgs Γ as ts →
    ∀ q ∈ leafPrecsArgs Γ as, ∃ t ∈ ts, ∃ s, t = ETy.data q s
  | .nil, [], _, q, hq => by simp [leafPrecsArgs] at hq
  | .nil, _ :: _, h, _, _ => by simp [GoodArgs] at h
  | .cons _ _, [], h, _, _ => by simp [GoodArgs] at h
  | .cons e r, t :: ts, h, q, hq => by
      simp only [GoodArgs] at h
      simp only [leafPrecsArgs, List.mem_append] at hq
      rcases hq with hq | hq
      · obtain ⟨s, hs⟩ := h.1.2 q hq
        exact ⟨t, List.mem_cons_self, s, hs⟩
      · obtain ⟨t', ht', s, hs⟩ := goodArgs_leaf h.2 q hq
        exact ⟨t', List.mem_cons_of_mem _ ht', s, hs⟩

theorem goodArgs_ne_err {Γ : Env} : ∀ {as : Args} {ts : List ETy}, GoodArgs Γ as ts → ∀ t ∈ ts, t ≠ ETy.err
  | .nil, [], _, t, ht => by cases ht
  | .nil, _ :: _, h, _, _ => by simp [GoodArgs] at h
  | .cons _ _, [], h, _, _ => by simp [GoodArgs] at h
  | .cons e r, u :: ts, h, t, ht => by
      simp only [GoodArgs] at h
      rcases List.mem_cons.mp ht with rfl | ht
      · exact h.1.1
      · exact goodArgs_ne_err h.2 t ht

theorem binTy_good {Γ : Env} {l r : Expr} {a b : ETy} (ha : Good Γ l a) (hb : Good Γ r b)
    (h : (binTy a b).2 = []) : Good Γ (.binop l r) (binTy a b).1 := by
  unfold binTy at h ⊢
  split at h
  · simp at h
  · rename_i hcond
    rw [if_neg hcond]
    · cases a with
      | err => exact absurd rfl ha.1
      | ctrl => simp [ETy.scalarOrErr] at *
      | data p sa =>
        cases b with
        | err => exact absurd rfl hb.1
        | ctrl => simp [ETy.scalarOrErr] at *
        | data q sb =>
          simp only at h ⊢
          have la : ∀ x ∈ leafPrecs Γ l, x = p := fun x hx => by
            obtain ⟨s, hs⟩ := ha.2 x hx
            cases hs; rfl
          have lb : ∀ x ∈ leafPrecs Γ r, x = q := fun x hx => by
            obtain ⟨s, hs⟩ := hb.2 x hx
            cases hs; rfl
          have nl : p = Prec.R → leafPrecs Γ l = [] := fun hp => by
            apply List.eq_nil_iff_forall_not_mem.mpr
            intro x hx
            exact leafPrecs_ne_R Γ l x hx ((la x hx).trans hp)
          have nr : q = Prec.R → leafPrecs Γ r = [] := fun hq => by
            apply List.eq_nil_iff_forall_not_mem.mpr
            intro x hx
            exact leafPrecs_ne_R Γ r x hx ((lb x hx).trans hq)
          by_cases hpq : p = Prec.R ∧ q = Prec.R
          · simp only [hpq, and_self, if_true]
            refine ⟨by simp, ?_⟩
            intro x hx
            simp only [leafPrecs, nl hpq.1, nr hpq.2, List.append_nil] at hx
            cases hx
          · simp only [hpq, if_false] at h ⊢
            by_cases hp : p = Prec.R
            · simp only [hp, if_true]
              refine ⟨by simp, ?_⟩
              intro x hx
              simp only [leafPrecs, nl hp, List.nil_append] at hx
              exact ⟨sb, by rw [lb x hx]⟩
            · simp only [hp, if_false] at h ⊢
              by_cases hq : q = Prec.R
              · simp only [hq, if_true]
                refine ⟨by simp, ?_⟩
                intro x hx
                simp only [leafPrecs, nr hq, List.append_nil] at hx
                exact ⟨sa, by rw [la x hx]⟩
              · simp only [hq, if_false] at h ⊢
                by_cases hne : p ≠ q
                · simp [hne] at h
                · have heq : p = q := by simpa using hne
                  simp only [hne, if_false]
                  refine ⟨by simp, ?_⟩
                  intro x hx
                  simp only [leafPrecs, List.mem_append] at hx
                  rcases hx with hx | hx
                  · exact ⟨sa, by rw [la x hx]⟩
                  · exact ⟨sa, by rw [lb x hx, heq]⟩

mutual
theorem precE_good (Γ : Env) : ∀ e : Expr, (precE Γ e).2 = [] → Good Γ e (precE Γ e).1
  | .ctrl, _ => by simp [precE, Good, leafPrecs]
  | .const p, _ => by
      simp only [precE, Good, leafPrecs]
      refine ⟨by simp, ?_⟩
      intro q hq
      split at hq
      · cases hq
      · simp only [List.mem_singleton] at hq
        exact ⟨_, by rw [hq]⟩
  | .read x ann, h => by
      simp only [precE] at h ⊢
      simp only [Good, leafPrecs]
      cases hl : lookup Γ x with
      | none => simp [hl] at h
      | some d => simp
  | .window x ann, h => by
      simp only [precE] at h ⊢
      simp only [Good, leafPrecs]
      cases hl : lookup Γ x with
      | none => simp [hl] at h
      | some d => simp
  | .usub e, h => by
      simp only [precE] at h ⊢
      split at h
      · rename_i hs
        simp only [hs, if_true]
        have := precE_good Γ e h
        exact ⟨this.1, fun q hq => this.2 q (by simpa [leafPrecs] using hq)⟩
      · simp at h
  | .binop l r, h => by
      simp only [precE] at h ⊢
      simp only [List.append_eq_nil_iff] at h
      exact binTy_good (precE_good Γ l h.1.1) (precE_good Γ r h.1.2) h.2
  | .extern as, h => by
      simp only [precE] at h ⊢
      simp only [List.append_eq_nil_iff] at h
      have hg := precArgs_good Γ as h.1
      have hall := externErrs_nil h.2
      have hsel := externTy_mem (precArgs Γ as).1 (ETy.data Prec.R Shape.scalar)
      constructor
      · rcases hsel with hs | hs
        · rw [hs]; simp
        · exact goodArgs_ne_err hg _ hs
      · intro q hq
        simp only [leafPrecs] at hq
        obtain ⟨t, ht, s, hs⟩ := goodArgs_leaf hg q hq
        rcases hall t ht with h1 | h1
        · exact ⟨s, by rw [← h1, hs]⟩
        · have := isR_eq h1
          rw [hs] at this
          cases this
          exact absurd rfl (leafPrecsArgs_ne_R Γ as _ hq)
theorem precArgs_good (Γ : Env) : ∀ as : Args, (precArgs Γ as).2 = [] → GoodArgs Γ as (precArgs Γ as).1
  | .nil, _ => by simp [precArgs, GoodArgs]
  | .cons e r, h => by
      simp only [precArgs] at h ⊢
      simp only [List.append_eq_nil_iff] at h
      exact ⟨precE_good Γ e h.1, precArgs_good Γ r h.2⟩
end

theorem onePrec_of_good {Γ : Env} {e : Expr} {t : ETy} (h : Good Γ e t) : OnePrec Γ e := by
  intro p hp q hq
  obtain ⟨s, hs⟩ := h.2 p hp
  obtain ⟨s', hs'⟩ := h.2 q hq
  rw [hs] at hs'
  cases hs'
  rfl

theorem callPrec_of_good {Γ : Env} : ∀ {as : Args} {ts : List ETy} {ps : List Param},
    GoodArgs Γ as ts → callErrs ts ps = [] → CallPrecOK Γ as ps
  | .nil, _, _, _, _ => by simp [CallPrecOK]
  | .cons a r, [], _, h, _ => by simp [GoodArgs] at h
  | .cons a r, t :: ts, [], _, _ => by simp [CallPrecOK]
  | .cons a r, t :: ts, ⟨_, .ctrl⟩ :: ps, h, hc => by
      simp only [GoodArgs] at h
      simp only [callErrs] at hc
      simp only [CallPrecOK]
      exact callPrec_of_good h.2 hc
  | .cons a r, t :: ts, ⟨_, .data dp⟩ :: ps, h, hc => by
      simp only [GoodArgs] at h
      simp only [callErrs, List.append_eq_nil_iff] at hc
      simp only [CallPrecOK]
      refine ⟨?_, callPrec_of_good h.2 hc.2⟩
      intro q hq
      obtain ⟨s, hs⟩ := h.1.2 q hq
      have := hc.1
      rw [hs] at this
      simp only at this
      split at this
      · assumption
      · cases this

theorem bindNew_nil {Γ : Env} {x : Name} {d : Decl} (h : (bindNew Γ x d).2 = []) :
    (bindNew Γ x d).1 = (x, d) :: Γ ∧ x ∉ keys Γ := by
  unfold bindNew at h ⊢
  split at h
  · simp at h
  · rename_i hs
    rw [if_neg hs]
    refine ⟨rfl, lookup_none_not_mem_keys ?_⟩
    cases hl : lookup Γ x with
    | none => rfl
    | some _ => simp [hl] at hs

mutual
theorem precS_sound (Γ : Env) (hn : (keys Γ).Nodup) : ∀ s : Stmt, (precS Γ s).2 = [] →
    (precS Γ s).1 = declsS Γ s ∧ PrecConsS Γ s ∧ (keys (declsS Γ s)).Nodup
  | .pass, _ => by simp [precS, declsS, PrecConsS, hn]
  | .assign x rhs, h => by
      simp only [precS] at h ⊢
      simp only [declsS, PrecConsS]
      cases hl : lookup Γ x with
      | none => simp [hl] at h
      | some d =>
        simp only [hl, List.append_eq_nil_iff] at h ⊢
        exact ⟨by first | rfl | trivial, onePrec_of_good (precE_good Γ rhs h.1), hn⟩
  | .reduce x rhs, h => by
      simp only [precS] at h ⊢
      simp only [declsS, PrecConsS]
      cases hl : lookup Γ x with
      | none => simp [hl] at h
      | some d =>
        simp only [hl, List.append_eq_nil_iff] at h ⊢
        exact ⟨by first | rfl | trivial, onePrec_of_good (precE_good Γ rhs h.1), hn⟩
  | .call f args, h => by
      simp only [precS, List.append_eq_nil_iff] at h ⊢
      simp only [declsS, PrecConsS]
      exact ⟨by first | rfl | trivial, callPrec_of_good (precArgs_good Γ args h.1) h.2, hn⟩
  | .for_ b, h => by
      simp only [precS] at h ⊢
      simp only [declsS, PrecConsS]
      exact precB_sound Γ hn b h
  | .if_ b1 b2, h => by
      simp only [precS, List.append_eq_nil_iff] at h ⊢
      simp only [declsS, PrecConsS]
      obtain ⟨e1, c1, n1⟩ := precB_sound Γ hn b1 h.1
      rw [e1] at h ⊢
      obtain ⟨e2, c2, n2⟩ := precB_sound _ n1 b2 h.2
      exact ⟨e2, ⟨c1, c2⟩, n2⟩
  | .alloc x d shp, h => by
      simp only [precS] at h ⊢
      simp only [declsS, PrecConsS]
      obtain ⟨e, hx⟩ := bindNew_nil h
      refine ⟨e, trivial, ?_⟩
      simp only [keys, List.map_cons, List.nodup_cons]
      exact ⟨hx, hn⟩
  | .windowStmt x rhs, h => by
      simp only [precS] at h ⊢
      simp only [declsS, PrecConsS]
      cases ha : aliasDecl Γ rhs with
      | none => simp [ha] at h
      | some d =>
        simp only [ha, List.append_eq_nil_iff] at h ⊢
        obtain ⟨e, hx⟩ := bindNew_nil h.2
        refine ⟨e, trivial, ?_⟩
        simp only [keys, List.map_cons, List.nodup_cons]
        exact ⟨hx, hn⟩
theorem precB_sound (Γ : Env) (hn : (keys Γ).Nodup) : ∀ b : Block, (precB Γ b).2 = [] →
    (precB Γ b).1 = declsB Γ b ∧ PrecConsB Γ b ∧ (keys (declsB Γ b)).Nodup
  | .nil, _ => by simp [precB, declsB, PrecConsB, hn]
  | .cons s r, h => by
      simp only [precB, List.append_eq_nil_iff] at h ⊢
      simp only [declsB, PrecConsB]
      obtain ⟨e1, c1, n1⟩ := precS_sound Γ hn s h.1
      rw [e1] at h ⊢
      obtain ⟨e2, c2, n2⟩ := precB_sound _ n1 r h.2
      exact ⟨e2, ⟨c1, c2⟩, n2⟩
end

/-! ## memory -/

/-- each data parameter receives a declared buffer whose memory is a subclass of the parameter's -/
def CallMemOK (Γ : Env) : Args → List Param → Prop
  | .cons a r, ⟨_, .data dp⟩ :: ps =>
      (∃ x dx, argName a = some x ∧ lookup Γ x = some dx ∧ dx.mem.subclass dp.mem = true) ∧ CallMemOK Γ r ps
  | .cons _ r, ⟨_, .ctrl⟩ :: ps => CallMemOK Γ r ps
  | .nil, _ => True
  | .cons _ _, [] => True

mutual
def MemConsS (Γ : Env) : Stmt → Prop
  | .call f args => CallMemOK Γ args f.params
  | .for_ b => MemConsB Γ b
  | .if_ b1 b2 => MemConsB Γ b1 ∧ MemConsB (declsB Γ b1) b2
  | .pass => True
  | .assign _ _ => True
  | .reduce _ _ => True
  | .alloc _ _ _ => True
  | .windowStmt _ _ => True
def MemConsB (Γ : Env) : Block → Prop
  | .nil => True
  | .cons s r => MemConsS Γ s ∧ MemConsB (declsS Γ s) r
end

theorem memArgs_sound {Γs Γf : Env} (hs : Γs.Sublist Γf) (hn : (keys Γf).Nodup) :
    ∀ (as : Args) (ps : List Param), memArgs Γs as ps = .ok () → CallMemOK Γf as ps
  | .nil, _, _ => by simp [CallMemOK]
  | .cons a r, [], _ => by simp [CallMemOK]
  | .cons a r, ⟨_, .ctrl⟩ :: ps, h => by
      simp only [memArgs] at h
      simp only [CallMemOK]
      exact memArgs_sound hs hn r ps h
  | .cons a r, ⟨_, .data dp⟩ :: ps, h => by
      simp only [memArgs] at h
      simp only [CallMemOK]
      cases hx : argName a with
      | none => simp [hx] at h
      | some x =>
        simp only [hx] at h
        cases hl : lookup Γs x with
        | none => simp [hl] at h
        | some dx =>
          simp only [hl] at h
          split at h
          · rename_i hsub
            exact ⟨⟨x, dx, rfl, lookup_sublist hs hn hl, hsub⟩, memArgs_sound hs hn r ps h⟩
          · cases h

mutual
theorem memS_sound : ∀ (s : Stmt) (Γs Γf Γs' : Env), Γs.Sublist Γf → (keys (declsS Γf s)).Nodup →
    memS Γs s = .ok Γs' → MemConsS Γf s ∧ Γs'.Sublist (declsS Γf s)
  | .pass, Γs, Γf, Γs', hs, _, h => by
      simp only [memS] at h
      cases h
      simp only [MemConsS, declsS]
      exact ⟨trivial, hs⟩
  | .assign _ _, Γs, Γf, Γs', hs, _, h => by
      simp only [memS] at h
      cases h
      simp only [MemConsS, declsS]
      exact ⟨trivial, hs⟩
  | .reduce _ _, Γs, Γf, Γs', hs, _, h => by
      simp only [memS] at h
      cases h
      simp only [MemConsS, declsS]
      exact ⟨trivial, hs⟩
  | .call f args, Γs, Γf, Γs', hs, hn, h => by
      simp only [memS] at h
      simp only [declsS] at hn
      simp only [MemConsS, declsS]
      cases hm : memArgs Γs args f.params with
      | error e => simp [hm, bind, Except.bind] at h
      | ok u =>
        simp only [hm, bind, Except.bind, pure, Except.pure] at h
        cases h
        exact ⟨memArgs_sound hs hn args f.params hm, hs⟩
  | .for_ b, Γs, Γf, Γs', hs, hn, h => by
      simp only [memS] at h
      simp only [declsS] at hn
      simp only [MemConsS, declsS]
      cases hm : memB Γs b with
      | error e => simp [hm, bind, Except.bind] at h
      | ok Γ1 =>
        simp only [hm, bind, Except.bind, pure, Except.pure] at h
        cases h
        exact ⟨(memB_sound b Γs Γf Γ1 hs hn hm).1, hs.trans (declsB_suffix Γf b).sublist⟩
  | .if_ b1 b2, Γs, Γf, Γs', hs, hn, h => by
      simp only [memS] at h
      simp only [declsS] at hn
      simp only [MemConsS, declsS]
      cases hm1 : memB Γs b1 with
      | error e => simp [hm1, bind, Except.bind] at h
      | ok Γ1 =>
        simp only [hm1, bind, Except.bind] at h
        cases hm2 : memB Γs b2 with
        | error e => simp [hm2] at h
        | ok Γ2 =>
          simp only [hm2, pure, Except.pure] at h
          cases h
          have hn1 : (keys (declsB Γf b1)).Nodup := nodup_of_suffix (declsB_suffix _ b2) hn
          have hs1 : Γs.Sublist (declsB Γf b1) := hs.trans (declsB_suffix Γf b1).sublist
          exact ⟨⟨(memB_sound b1 Γs Γf Γ1 hs hn1 hm1).1, (memB_sound b2 Γs _ Γ2 hs1 hn hm2).1⟩,
            hs1.trans (declsB_suffix _ b2).sublist⟩
  | .alloc x d _, Γs, Γf, Γs', hs, _, h => by
      simp only [memS] at h
      cases h
      simp only [MemConsS, declsS]
      exact ⟨trivial, hs.cons_cons _⟩
  | .windowStmt x rhs, Γs, Γf, Γs', hs, hn, h => by
      simp only [memS] at h
      simp only [MemConsS]
      cases ha : aliasDecl Γs rhs with
      | none => simp [ha] at h
      | some d =>
        simp only [ha] at h
        cases h
        have hnf : (keys Γf).Nodup := nodup_of_suffix (declsS_suffix Γf (.windowStmt x rhs)) hn
        have := aliasDecl_sublist hs hnf ha
        simp only [declsS, this]
        exact ⟨trivial, hs.cons_cons _⟩
theorem memB_sound : ∀ (b : Block) (Γs Γf Γs' : Env), Γs.Sublist Γf → (keys (declsB Γf b)).Nodup →
    memB Γs b = .ok Γs' → MemConsB Γf b ∧ Γs'.Sublist (declsB Γf b)
  | .nil, Γs, Γf, Γs', hs, _, h => by
      simp only [memB] at h
      cases h
      simp only [MemConsB, declsB]
      exact ⟨trivial, hs⟩
  | .cons s r, Γs, Γf, Γs', hs, hn, h => by
      simp only [memB] at h
      simp only [declsB] at hn
      simp only [MemConsB, declsB]
      cases hm : memS Γs s with
      | error e => simp [hm, bind, Except.bind] at h
      | ok Γ1 =>
        simp only [hm, bind, Except.bind] at h
        have hn1 : (keys (declsS Γf s)).Nodup := nodup_of_suffix (declsB_suffix _ r) hn
        obtain ⟨c1, s1⟩ := memS_sound s Γs Γf Γ1 hs hn1 hm
        obtain ⟨c2, s2⟩ := memB_sound r Γ1 _ Γs' s1 hn h
        exact ⟨⟨c1, c2⟩, s2⟩
end

/-! ## window -/

/-- the argument is a window according to the DECLARATIONS -/
def declaredWin (Γ : Env) : Expr → Bool
  | .window _ _ => true
  | .read x _ =>
      match lookup Γ x with
      | some d => d.shape.isWin
      | none => false
  | _ => false

/-- no window where the callee declares a dense tensor -/
def CallWinOK (Γ : Env) : Args → List Param → Prop
  | .cons a r, ⟨_, .data dp⟩ :: ps => (dp.shape.isDense = true → declaredWin Γ a = false) ∧ CallWinOK Γ r ps
  | .cons _ r, ⟨_, .ctrl⟩ :: ps => CallWinOK Γ r ps
  | .nil, _ => True
  | .cons _ _, [] => True

/-- the annotation on an argument node agrees with the declaration of the variable -/
def FreshArg (Γ : Env) : Expr → Prop
  | .read x ann => ∀ d, lookup Γ x = some d → ann.isWin = d.shape.isWin
  | _ => True

def FreshArgs (Γ : Env) : Args → Prop
  | .nil => True
  | .cons a r => FreshArg Γ a ∧ FreshArgs Γ r

mutual
def WinConsS (Γ : Env) : Stmt → Prop
  | .call f args => CallWinOK Γ args f.params
  | .for_ b => WinConsB Γ b
  | .if_ b1 b2 => WinConsB Γ b1 ∧ WinConsB (declsB Γ b1) b2
  | .pass => True
  | .assign _ _ => True
  | .reduce _ _ => True
  | .alloc _ _ _ => True
  | .windowStmt _ _ => True
def WinConsB (Γ : Env) : Block → Prop
  | .nil => True
  | .cons s r => WinConsS Γ s ∧ WinConsB (declsS Γ s) r
end

mutual
def FreshS (Γ : Env) : Stmt → Prop
  | .call _ args => FreshArgs Γ args
  | .for_ b => FreshB Γ b
  | .if_ b1 b2 => FreshB Γ b1 ∧ FreshB (declsB Γ b1) b2
  | .pass => True
  | .assign _ _ => True
  | .reduce _ _ => True
  | .alloc _ _ _ => True
  | .windowStmt _ _ => True
def FreshB (Γ : Env) : Block → Prop
  | .nil => True
  | .cons s r => FreshS Γ s ∧ FreshB (declsS Γ s) r
end

theorem promoteArg_dense {p : Param} {dp : Decl} {a a' : Expr} {Γ : Env} (hp : p.ty = .data dp)
    (h : promoteArg p a = .ok a') (hf : FreshArg Γ a) (hd : dp.shape.isDense = true) :
    declaredWin Γ a = false := by
  have hnw : dp.shape.isWin = false := by
    cases hsh : dp.shape <;> simp [hsh, Shape.isDense, Shape.isWin] at hd ⊢
  have hw : argIsWin a = false := by
    cases hw : argIsWin a with
    | false => rfl
    | true =>
      unfold promoteArg at h
      rw [hp] at h
      simp [hnw, hd, hw] at h
  cases a with
  | read x ann =>
    simp only [argIsWin] at hw
    simp only [declaredWin]
    cases hl : lookup Γ x with
    | none => rfl
    | some d =>
      simp only [FreshArg] at hf
      show d.shape.isWin = false
      rw [← hf d hl]
      exact hw
  | window x ann => simp [argIsWin] at hw
  | ctrl => rfl
  | const _ => rfl
  | usub _ => rfl
  | binop _ _ => rfl
  | extern _ => rfl

theorem winArgs_sound {Γ : Env} : ∀ (as : Args) (ps : List Param) (as' : Args),
    winArgs as ps = .ok as' → FreshArgs Γ as → CallWinOK Γ as ps
  | .nil, _, _, _, _ => by simp [CallWinOK]
  | .cons a r, [], _, _, _ => by simp [CallWinOK]
  | .cons a r, ⟨n, .ctrl⟩ :: ps, as', h, hf => by
      simp only [winArgs] at h
      simp only [CallWinOK]
      simp only [FreshArgs] at hf
      cases h1 : promoteArg ⟨n, .ctrl⟩ a with
      | error e => simp [h1, bind, Except.bind] at h
      | ok a' =>
        simp only [h1, bind, Except.bind] at h
        cases h2 : winArgs r ps with
        | error e => simp [h2] at h
        | ok r' => exact winArgs_sound r ps r' h2 hf.2
  | .cons a r, ⟨n, .data dp⟩ :: ps, as', h, hf => by
      simp only [winArgs] at h
      simp only [CallWinOK]
      simp only [FreshArgs] at hf
      cases h1 : promoteArg ⟨n, .data dp⟩ a with
      | error e => simp [h1, bind, Except.bind] at h
      | ok a' =>
        simp only [h1, bind, Except.bind] at h
        cases h2 : winArgs r ps with
        | error e => simp [h2] at h
        | ok r' =>
          exact ⟨fun hd => promoteArg_dense rfl h1 hf.1 hd, winArgs_sound r ps r' h2 hf.2⟩

/-- `winB` only rewrites call arguments: the declarations are untouched -/
theorem promoteArg_argName {p : Param} {a a' : Expr} (h : promoteArg p a = .ok a') : argName a' = argName a := by
  unfold promoteArg at h
  split at h
  · cases h; rfl
  · split at h
    · split at h
      · cases h; rfl
      · cases h
    · split at h
      · cases h
      · cases h; rfl

mutual
theorem winS_decls : ∀ (s s' : Stmt) (Γ : Env), winS s = .ok s' → declsS Γ s' = declsS Γ s
  | .pass, s', Γ, h => by simp only [winS, pure, Except.pure] at h; cases h; rfl
  | .assign _ _, s', Γ, h => by simp only [winS, pure, Except.pure] at h; cases h; rfl
  | .reduce _ _, s', Γ, h => by simp only [winS, pure, Except.pure] at h; cases h; rfl
  | .alloc _ _ _, s', Γ, h => by simp only [winS, pure, Except.pure] at h; cases h; rfl
  | .windowStmt _ _, s', Γ, h => by simp only [winS, pure, Except.pure] at h; cases h; rfl
  | .call f args, s', Γ, h => by
      simp only [winS] at h
      cases h1 : winArgs args f.params with
      | error e => simp [h1, bind, Except.bind] at h
      | ok a =>
        simp only [h1, bind, Except.bind, pure, Except.pure] at h
        cases h
        simp only [declsS]
  | .for_ b, s', Γ, h => by
      simp only [winS] at h
      cases h1 : winB b with
      | error e => simp [h1, bind, Except.bind] at h
      | ok b' =>
        simp only [h1, bind, Except.bind, pure, Except.pure] at h
        cases h
        simp only [declsS]
        exact winB_decls b b' Γ h1
  | .if_ b1 b2, s', Γ, h => by
      simp only [winS] at h
      cases h1 : winB b1 with
      | error e => simp [h1, bind, Except.bind] at h
      | ok b1' =>
        simp only [h1, bind, Except.bind] at h
        cases h2 : winB b2 with
        | error e => simp [h2] at h
        | ok b2' =>
          simp only [h2, pure, Except.pure] at h
          cases h
          simp only [declsS]
          rw [winB_decls b1 b1' Γ h1, winB_decls b2 b2' _ h2]
theorem winB_decls : ∀ (b b' : Block) (Γ : Env), winB b = .ok b' → declsB Γ b' = declsB Γ b
  | .nil, b', Γ, h => by simp only [winB, pure, Except.pure] at h; cases h; rfl
  | .cons s r, b', Γ, h => by
      simp only [winB] at h
      cases h1 : winS s with
      | error e => simp [h1, bind, Except.bind] at h
      | ok s' =>
        simp only [h1, bind, Except.bind] at h
        cases h2 : winB r with
        | error e => simp [h2] at h
        | ok r' =>
          simp only [h2, pure, Except.pure] at h
          cases h
          simp only [declsB]
          rw [winS_decls s s' Γ h1, winB_decls r r' _ h2]
end

mutual
theorem winS_sound : ∀ (s s' : Stmt) (Γ : Env), winS s = .ok s' → FreshS Γ s → WinConsS Γ s
  | .pass, _, _, _, _ => by simp [WinConsS]
  | .assign _ _, _, _, _, _ => by simp [WinConsS]
  | .reduce _ _, _, _, _, _ => by simp [WinConsS]
  | .alloc _ _ _, _, _, _, _ => by simp [WinConsS]
  | .windowStmt _ _, _, _, _, _ => by simp [WinConsS]
  | .call f args, s', Γ, h, hf => by
      simp only [winS] at h
      simp only [WinConsS]
      simp only [FreshS] at hf
      cases h1 : winArgs args f.params with
      | error e => simp [h1, bind, Except.bind] at h
      | ok a => exact winArgs_sound args f.params a h1 hf
  | .for_ b, s', Γ, h, hf => by
      simp only [winS] at h
      simp only [WinConsS]
      simp only [FreshS] at hf
      cases h1 : winB b with
      | error e => simp [h1, bind, Except.bind] at h
      | ok b' => exact winB_sound b b' Γ h1 hf
  | .if_ b1 b2, s', Γ, h, hf => by
      simp only [winS] at h
      simp only [WinConsS]
      simp only [FreshS] at hf
      cases h1 : winB b1 with
      | error e => simp [h1, bind, Except.bind] at h
      | ok b1' =>
        simp only [h1, bind, Except.bind] at h
        cases h2 : winB b2 with
        | error e => simp [h2] at h
        | ok b2' => exact ⟨winB_sound b1 b1' Γ h1 hf.1, winB_sound b2 b2' _ h2 hf.2⟩
theorem winB_sound : ∀ (b b' : Block) (Γ : Env), winB b = .ok b' → FreshB Γ b → WinConsB Γ b
  | .nil, _, _, _, _ => by simp [WinConsB]
  | .cons s r, b', Γ, h, hf => by
      simp only [winB] at h
      simp only [WinConsB]
      simp only [FreshB] at hf
      cases h1 : winS s with
      | error e => simp [h1, bind, Except.bind] at h
      | ok s' =>
        simp only [h1, bind, Except.bind] at h
        cases h2 : winB r with
        | error e => simp [h2] at h
        | ok r' => exact ⟨winS_sound s s' Γ h1 hf.1, winB_sound r r' _ h2 hf.2⟩
end

/-- memory consistency of the rewritten program transfers back to the original one -/
theorem winArgs_mem {Γ : Env} : ∀ (as : Args) (ps : List Param) (as' : Args),
    winArgs as ps = .ok as' → CallMemOK Γ as' ps → CallMemOK Γ as ps
  | .nil, _, _, _, _ => by simp [CallMemOK]
  | .cons a r, [], _, _, _ => by simp [CallMemOK]
  | .cons a r, ⟨n, .ctrl⟩ :: ps, as', h, hc => by
      simp only [winArgs] at h
      cases h1 : promoteArg ⟨n, .ctrl⟩ a with
      | error e => simp [h1, bind, Except.bind] at h
      | ok a' =>
        simp only [h1, bind, Except.bind] at h
        cases h2 : winArgs r ps with
        | error e => simp [h2] at h
        | ok r' =>
          simp only [h2, pure, Except.pure] at h
          cases h
          simp only [CallMemOK] at hc ⊢
          exact winArgs_mem r ps r' h2 hc
  | .cons a r, ⟨n, .data dp⟩ :: ps, as', h, hc => by
      simp only [winArgs] at h
      cases h1 : promoteArg ⟨n, .data dp⟩ a with
      | error e => simp [h1, bind, Except.bind] at h
      | ok a' =>
        simp only [h1, bind, Except.bind] at h
        cases h2 : winArgs r ps with
        | error e => simp [h2] at h
        | ok r' =>
          simp only [h2, pure, Except.pure] at h
          cases h
          simp only [CallMemOK] at hc ⊢
          rw [promoteArg_argName h1] at hc
          exact ⟨hc.1, winArgs_mem r ps r' h2 hc.2⟩

mutual
theorem winS_mem : ∀ (s s' : Stmt) (Γ : Env), winS s = .ok s' → MemConsS Γ s' → MemConsS Γ s
  | .pass, _, _, _, _ => by simp [MemConsS]
  | .assign _ _, _, _, _, _ => by simp [MemConsS]
  | .reduce _ _, _, _, _, _ => by simp [MemConsS]
  | .alloc _ _ _, _, _, _, _ => by simp [MemConsS]
  | .windowStmt _ _, _, _, _, _ => by simp [MemConsS]
  | .call f args, s', Γ, h, hc => by
      simp only [winS] at h
      cases h1 : winArgs args f.params with
      | error e => simp [h1, bind, Except.bind] at h
      | ok a =>
        simp only [h1, bind, Except.bind, pure, Except.pure] at h
        cases h
        simp only [MemConsS] at hc ⊢
        exact winArgs_mem args f.params a h1 hc
  | .for_ b, s', Γ, h, hc => by
      simp only [winS] at h
      cases h1 : winB b with
      | error e => simp [h1, bind, Except.bind] at h
      | ok b' =>
        simp only [h1, bind, Except.bind, pure, Except.pure] at h
        cases h
        simp only [MemConsS] at hc ⊢
        exact winB_mem b b' Γ h1 hc
  | .if_ b1 b2, s', Γ, h, hc => by
      simp only [winS] at h
      cases h1 : winB b1 with
      | error e => simp [h1, bind, Except.bind] at h
      | ok b1' =>
        simp only [h1, bind, Except.bind] at h
        cases h2 : winB b2 with
        | error e => simp [h2] at h
        | ok b2' =>
          simp only [h2, pure, Except.pure] at h
          cases h
          simp only [MemConsS] at hc ⊢
          rw [winB_decls b1 b1' Γ h1] at hc
          exact ⟨winB_mem b1 b1' Γ h1 hc.1, winB_mem b2 b2' _ h2 hc.2⟩
theorem winB_mem : ∀ (b b' : Block) (Γ : Env), winB b = .ok b' → MemConsB Γ b' → MemConsB Γ b
  | .nil, _, _, _, _ => by simp [MemConsB]
  | .cons s r, b', Γ, h, hc => by
      simp only [winB] at h
      cases h1 : winS s with
      | error e => simp [h1, bind, Except.bind] at h
      | ok s' =>
        simp only [h1, bind, Except.bind] at h
        cases h2 : winB r with
        | error e => simp [h2] at h
        | ok r' =>
          simp only [h2, pure, Except.pure] at h
          cases h
          simp only [MemConsB] at hc ⊢
          rw [winS_decls s s' Γ h1] at hc
          exact ⟨winS_mem s s' Γ h1 hc.1, winB_mem r r' _ h2 hc.2⟩
end

/-! ## capability -/

mutual
/-- buffers read DIRECTLY (element reads; windows and whole-buffer call arguments are not accesses) -/
def directReads : Expr → List Name
  | .read x _ => [x]
  | .usub e => directReads e
  | .binop l r => directReads l ++ directReads r
  | .extern as => directReadsArgs as
  | .ctrl => []
  | .const _ => []
  | .window _ _ => []
def directReadsArgs : Args → List Name
  | .nil => []
  | .cons e r => directReads e ++ directReadsArgs r
end

def CapReads (Γ : Env) (xs : List Name) : Prop := ∀ x ∈ xs, ∀ d, lookup Γ x = some d → d.mem.canRead = true

mutual
def CapConsS (Γ : Env) : Stmt → Prop
  | .assign x rhs => CapReads Γ (directReads rhs) ∧ ∀ d, lookup Γ x = some d → d.mem.canWrite = true
  | .reduce x rhs => CapReads Γ (directReads rhs) ∧ ∀ d, lookup Γ x = some d → d.mem.canReduce = true
  | .for_ b => CapConsB Γ b
  | .if_ b1 b2 => CapConsB Γ b1 ∧ CapConsB (declsB Γ b1) b2
  | .pass => True
  | .call _ _ => True
  | .alloc _ _ _ => True
  | .windowStmt _ _ => True
def CapConsB (Γ : Env) : Block → Prop
  | .nil => True
  | .cons s r => CapConsS Γ s ∧ CapConsB (declsS Γ s) r
end

mutual
theorem gateE_sound (Γ : Env) : ∀ e : Expr, gateE Γ e = .ok () → CapReads Γ (directReads e)
  | .ctrl, _ => by simp [directReads, CapReads]
  | .const _, _ => by simp [directReads, CapReads]
  | .window _ _, _ => by simp [directReads, CapReads]
  | .read x _, h => by
      simp only [gateE] at h
      simp only [directReads, CapReads, List.mem_singleton]
      intro y hy d hl
      subst hy
      rw [hl] at h
      simp only at h
      split at h
      · assumption
      · cases h
  | .usub e, h => by
      simp only [gateE] at h
      simp only [directReads]
      exact gateE_sound Γ e h
  | .binop l r, h => by
      simp only [gateE] at h
      simp only [directReads]
      cases h1 : gateE Γ l with
      | error e => simp [h1, bind, Except.bind] at h
      | ok u =>
        simp only [h1, bind, Except.bind] at h
        intro x hx
        rcases List.mem_append.mp hx with hx | hx
        · exact gateE_sound Γ l h1 x hx
        · exact gateE_sound Γ r h x hx
  | .extern as, h => by
      simp only [gateE] at h
      simp only [directReads]
      exact gateArgs_sound Γ as h
theorem gateArgs_sound (Γ : Env) : ∀ as : Args, gateArgs Γ as = .ok () → CapReads Γ (directReadsArgs as)
  | .nil, _ => by simp [directReadsArgs, CapReads]
  | .cons e r, h => by
      simp only [gateArgs] at h
      simp only [directReadsArgs]
      cases h1 : gateE Γ e with
      | error e => simp [h1, bind, Except.bind] at h
      | ok u =>
        simp only [h1, bind, Except.bind] at h
        intro x hx
        rcases List.mem_append.mp hx with hx | hx
        · exact gateE_sound Γ e h1 x hx
        · exact gateArgs_sound Γ r h x hx
end

mutual
theorem gateS_sound : ∀ (s : Stmt) (Γ Γ' : Env), gateS Γ s = .ok Γ' → Γ' = declsS Γ s ∧ CapConsS Γ s
  | .pass, Γ, Γ', h => by
      simp only [gateS] at h
      cases h
      simp [declsS, CapConsS]
  | .assign x rhs, Γ, Γ', h => by
      simp only [gateS] at h
      simp only [declsS, CapConsS]
      cases hl : lookup Γ x with
      | none => simp [hl] at h
      | some d =>
        simp only [hl] at h
        cases h1 : gateE Γ rhs with
        | error e => simp [h1, bind, Except.bind] at h
        | ok u =>
          simp only [h1, bind, Except.bind] at h
          split at h
          · rename_i hw
            simp only [pure, Except.pure] at h
            cases h
            refine ⟨rfl, gateE_sound Γ rhs h1, ?_⟩
            intro d' hd'
            cases hd'
            exact hw
          · cases h
  | .reduce x rhs, Γ, Γ', h => by
      simp only [gateS] at h
      simp only [declsS, CapConsS]
      cases hl : lookup Γ x with
      | none => simp [hl] at h
      | some d =>
        simp only [hl] at h
        cases h1 : gateE Γ rhs with
        | error e => simp [h1, bind, Except.bind] at h
        | ok u =>
          simp only [h1, bind, Except.bind] at h
          split at h
          · rename_i hw
            simp only [pure, Except.pure] at h
            cases h
            refine ⟨rfl, gateE_sound Γ rhs h1, ?_⟩
            intro d' hd'
            cases hd'
            exact hw
          · cases h
  | .call f args, Γ, Γ', h => by
      simp only [gateS] at h
      simp only [declsS, CapConsS]
      split at h
      · cases h
      · cases h1 : gateCallArgs Γ args with
        | error e => simp [h1, bind, Except.bind] at h
        | ok u =>
          simp only [h1, bind, Except.bind, pure, Except.pure] at h
          cases h
          exact ⟨rfl, trivial⟩
  | .for_ b, Γ, Γ', h => by
      simp only [gateS] at h
      simp only [declsS, CapConsS]
      exact gateB_sound b Γ Γ' h
  | .if_ b1 b2, Γ, Γ', h => by
      simp only [gateS] at h
      simp only [declsS, CapConsS]
      cases h1 : gateB Γ b1 with
      | error e => simp [h1, bind, Except.bind] at h
      | ok Γ1 =>
        simp only [h1, bind, Except.bind] at h
        obtain ⟨e1, c1⟩ := gateB_sound b1 Γ Γ1 h1
        obtain ⟨e2, c2⟩ := gateB_sound b2 Γ1 Γ' h
        rw [e1] at e2 c2
        exact ⟨e2, c1, c2⟩
  | .alloc x d shp, Γ, Γ', h => by
      simp only [gateS] at h
      simp only [declsS, CapConsS]
      split at h
      · cases h
        exact ⟨rfl, trivial⟩
      · cases h
  | .windowStmt x rhs, Γ, Γ', h => by
      simp only [gateS] at h
      simp only [declsS, CapConsS]
      cases ha : aliasDecl Γ rhs with
      | none => simp [ha] at h
      | some d =>
        simp only [ha] at h
        cases h
        exact ⟨rfl, trivial⟩
theorem gateB_sound : ∀ (b : Block) (Γ Γ' : Env), gateB Γ b = .ok Γ' → Γ' = declsB Γ b ∧ CapConsB Γ b
  | .nil, Γ, Γ', h => by
      simp only [gateB] at h
      cases h
      simp [declsB, CapConsB]
  | .cons s r, Γ, Γ', h => by
      simp only [gateB] at h
      simp only [declsB, CapConsB]
      cases h1 : gateS Γ s with
      | error e => simp [h1, bind, Except.bind] at h
      | ok Γ1 =>
        simp only [h1, bind, Except.bind] at h
        obtain ⟨e1, c1⟩ := gateS_sound s Γ Γ1 h1
        obtain ⟨e2, c2⟩ := gateB_sound r Γ1 Γ' h
        rw [e1] at e2 c2
        exact ⟨e2, c1, c2⟩
end

mutual
theorem winS_cap : ∀ (s s' : Stmt) (Γ : Env), winS s = .ok s' → CapConsS Γ s' → CapConsS Γ s
  | .pass, s', Γ, h, hc => by simp only [winS, pure, Except.pure] at h; cases h; exact hc
  | .assign _ _, s', Γ, h, hc => by simp only [winS, pure, Except.pure] at h; cases h; exact hc
  | .reduce _ _, s', Γ, h, hc => by simp only [winS, pure, Except.pure] at h; cases h; exact hc
  | .alloc _ _ _, s', Γ, h, hc => by simp only [winS, pure, Except.pure] at h; cases h; exact hc
  | .windowStmt _ _, s', Γ, h, hc => by simp only [winS, pure, Except.pure] at h; cases h; exact hc
  | .call f args, s', Γ, h, hc => by simp [CapConsS]
  | .for_ b, s', Γ, h, hc => by
      simp only [winS] at h
      cases h1 : winB b with
      | error e => simp [h1, bind, Except.bind] at h
      | ok b' =>
        simp only [h1, bind, Except.bind, pure, Except.pure] at h
        cases h
        simp only [CapConsS] at hc ⊢
        exact winB_cap b b' Γ h1 hc
  | .if_ b1 b2, s', Γ, h, hc => by
      simp only [winS] at h
      cases h1 : winB b1 with
      | error e => simp [h1, bind, Except.bind] at h
      | ok b1' =>
        simp only [h1, bind, Except.bind] at h
        cases h2 : winB b2 with
        | error e => simp [h2] at h
        | ok b2' =>
          simp only [h2, pure, Except.pure] at h
          cases h
          simp only [CapConsS] at hc ⊢
          rw [winB_decls b1 b1' Γ h1] at hc
          exact ⟨winB_cap b1 b1' Γ h1 hc.1, winB_cap b2 b2' _ h2 hc.2⟩
theorem winB_cap : ∀ (b b' : Block) (Γ : Env), winB b = .ok b' → CapConsB Γ b' → CapConsB Γ b
  | .nil, _, _, _, _ => by simp [CapConsB]
  | .cons s r, b', Γ, h, hc => by
      simp only [winB] at h
      cases h1 : winS s with
      | error e => simp [h1, bind, Except.bind] at h
      | ok s' =>
        simp only [h1, bind, Except.bind] at h
        cases h2 : winB r with
        | error e => simp [h2] at h
        | ok r' =>
          simp only [h2, pure, Except.pure] at h
          cases h
          simp only [CapConsB] at hc ⊢
          rw [winS_decls s s' Γ h1] at hc
          exact ⟨winS_cap s s' Γ h1 hc.1, winB_cap r r' _ h2 hc.2⟩
end

/-! ## the property -/

/-- the declarations in force at the start of the body: the data arguments -/
def Γ0 (p : Proc) : Env := paramEnv p.params []

structure ConsistentExceptWindow (p : Proc) : Prop where
  prec : PrecConsB (Γ0 p) p.body
  mem : MemConsB (Γ0 p) p.body
  cap : CapConsB (Γ0 p) p.body

structure Consistent (p : Proc) : Prop extends ConsistentExceptWindow p where
  win : WinConsB (Γ0 p) p.body

/-- type annotations on call-argument nodes agree with the declarations -/
def Fresh (p : Proc) : Prop := FreshB (Γ0 p) p.body

theorem precVerdict_ok {errs : List PErr} (h : precVerdict errs = .ok ()) : errs = [] := by
  unfold precVerdict at h
  split at h
  · cases h
  · split at h
    · rename_i he
      exact List.isEmpty_iff.mp he
    · cases h

/-- what a successful run of the pipeline gives, stage by stage -/
theorem analyzeProc_stages {p : Proc} (hni : p.instr = false) (h : analyzeProc p = .ok ()) :
    precProc p = [] ∧ ∃ b', winB p.body = .ok b' ∧ (∃ Γm, memB (Γ0 p) b' = .ok Γm) ∧
      ∃ Γg, gateB (Γ0 p) b' = .ok Γg := by
  unfold analyzeProc at h
  simp only [hni, Bool.false_eq_true, if_false] at h
  cases h1 : precStage p with
  | error e => simp [h1, bind, Except.bind] at h
  | ok u1 =>
    simp only [h1, bind, Except.bind] at h
    cases h2 : winStage p with
    | error e => simp [h2] at h
    | ok b' =>
      simp only [h2] at h
      cases h3 : memStage p b' with
      | error e => simp [h3] at h
      | ok u3 =>
        simp only [h3] at h
        refine ⟨precVerdict_ok h1, b', h2, ?_, ?_⟩
        · unfold memStage at h3
          cases hm : memB (paramEnv p.params []) b' with
          | error e => simp [hm, Except.map] at h3
          | ok Γm => exact ⟨Γm, hm⟩
        · unfold gateStage at h
          split at h
          · cases h
          · cases hg : gateB (paramEnv p.params []) b' with
            | error e => simp [hg, Except.map] at h
            | ok Γg => exact ⟨Γg, hg⟩

/-- **Precision, memory and capability consistency need no hypothesis on the annotations.** -/
theorem analyzeProc_ok_consistent_except_window (p : Proc) (hni : p.instr = false)
    (h : analyzeProc p = .ok ()) : ConsistentExceptWindow p := by
  obtain ⟨hp, b', hw, ⟨Γm, hm⟩, ⟨Γg, hg⟩⟩ := analyzeProc_stages hni h
  unfold precProc at hp
  simp only [List.append_eq_nil_iff] at hp
  have hn0 : (keys (Γ0 p)).Nodup := by
    have := hp.1
    unfold Γ0
    split at this
    · assumption
    · cases this
  obtain ⟨_, cprec, hnod⟩ := precB_sound (Γ0 p) hn0 p.body hp.2
  have hd : declsB (Γ0 p) b' = declsB (Γ0 p) p.body := winB_decls p.body b' _ hw
  have cmem' := (memB_sound b' (Γ0 p) (Γ0 p) Γm (List.Sublist.refl _) (hd ▸ hnod) hm).1
  have ccap' := (gateB_sound b' (Γ0 p) Γg hg).2
  exact ⟨cprec, winB_mem p.body b' _ hw cmem', winB_cap p.body b' _ hw ccap'⟩

/-- **C15 (b), per procedure**: if the modelled PrecisionAnalysis, WindowAnalysis, MemoryAnalysis and the
    code generator's capability gates all accept `p`, and the argument-node annotations are fresh, then
    `p` is consistent.
    `_partial`: the property quantifies over everything reachable with `set_window`; `set_window` produces
    programs that are NOT `Fresh`, and for those the statement is false (`stale_annotation_accepted`). -/
theorem analyzeProc_ok_consistent_partial (p : Proc) (hni : p.instr = false) (hf : Fresh p)
    (h : analyzeProc p = .ok ()) : Consistent p := by
  obtain ⟨_, b', hw, _, _⟩ := analyzeProc_stages hni h
  exact { toConsistentExceptWindow := analyzeProc_ok_consistent_except_window p hni h
          win := winB_sound p.body b' _ hw hf }

theorem mem_insertByName {p q : Proc} : ∀ {l : List Proc}, p ∈ insertByName q l ↔ p = q ∨ p ∈ l
  | [] => by simp [insertByName]
  | r :: l => by
      simp only [insertByName]
      split
      · simp only [List.mem_cons, mem_insertByName (l := l)]
        constructor
        · rintro (h | h | h)
          · exact Or.inr (Or.inl h)
          · exact Or.inl h
          · exact Or.inr (Or.inr h)
        · rintro (h | h | h)
          · exact Or.inr (Or.inl h)
          · exact Or.inl h
          · exact Or.inr (Or.inr h)
      · simp [List.mem_cons]

theorem mem_sortByName {p : Proc} : ∀ {l : List Proc}, p ∈ sortByName l ↔ p ∈ l
  | [] => by simp [sortByName]
  | q :: l => by simp [sortByName, mem_insertByName, mem_sortByName (l := l)]

theorem analyzeSorted_ok : ∀ (l : List Proc) (seen : List Name), analyzeSorted l seen = .ok →
    ∀ p ∈ l, analyzeProc p = .ok ()
  | [], _, _, p, hp => by cases hp
  | q :: l, seen, h, p, hp => by
      simp only [analyzeSorted] at h
      split at h
      · cases h
      · split at h
        · rename_i u hq
          rcases List.mem_cons.mp hp with rfl | hp
          · cases u; exact hq
          · exact analyzeSorted_ok l _ h p hp
        · cases h

/-- **C15 (b)**: whatever `compile_to_strings` accepts (in the model) is consistent, for every program
    whose argument-node annotations are fresh.
    `_partial`: missing = programs with stale annotations on call-argument nodes (what `set_window` leaves
    behind); there the window clause fails, see `stale_annotation_accepted`. -/
theorem analyses_ok_consistent_partial (ps : List Proc) (hf : ∀ p ∈ ps, Fresh p) (h : analyses ps = .ok) :
    ∀ p ∈ ps, p.instr = false → Consistent p := by
  intro p hp hni
  have := analyzeSorted_ok _ _ h p (mem_sortByName.mpr hp)
  exact analyzeProc_ok_consistent_partial p hni (hf p hp) this

/-- … and, with no hypothesis at all, consistent in precision, memory and capability. -/
theorem analyses_ok_consistent_except_window (ps : List Proc) (h : analyses ps = .ok) :
    ∀ p ∈ ps, p.instr = false → ConsistentExceptWindow p := by
  intro p hp hni
  exact analyzeProc_ok_consistent_except_window p hni (analyzeSorted_ok _ _ h p (mem_sortByName.mpr hp))

/-! ## non-vacuity -/

namespace Ex

def dT (p : Prec) (m : Mem) : Decl := ⟨p, m, .dense 1⟩

/-- `def sub(n: size, a: [f32][n] @ DRAM, b: f32[n] @ DRAM): for i: b[i] = a[i]` -/
def sub : Proc :=
  ⟨"sub", [⟨"n", .ctrl⟩, ⟨"a", .data ⟨.f32, .DRAM, .win 1⟩⟩, ⟨"b", .data (dT .f32 .DRAM)⟩],
   .cons (.for_ (.cons (.assign "b" (.read "a" .scalar)) .nil)) .nil, false⟩

def subC : Callee := ⟨sub.name, sub.params, procWrites sub, false⟩

/-- `def main(n, x: R[n] @ DRAM_STACK, y: f32[n]): t: R[8]; for i: t[i] = x[i] * 2.0; sub(n, x, y)` -/
def main : Proc :=
  ⟨"main", [⟨"n", .ctrl⟩, ⟨"x", .data (dT .R .DRAM_STACK)⟩, ⟨"y", .data (dT .f32 .DRAM)⟩],
   .cons (.alloc "t" (dT .R .DRAM) .c8)
   (.cons (.for_ (.cons (.assign "t" (.binop (.read "x" .scalar) (.const .R))) .nil))
   (.cons (.call subC (.cons .ctrl (.cons (.read "x" (.dense 1)) (.cons (.read "y" (.dense 1)) .nil)))) .nil)),
   false⟩

/-- a consistent program: accepted, fresh, and the theorem applies -/
example : analyses [main, sub] = .ok := by decide

theorem main_fresh : Fresh main := by
  simp [Fresh, Γ0, main, dT, FreshB, FreshS, FreshArgs, FreshArg, declsS, declsB, paramEnv, lookup, Shape.isWin]

example : Consistent main :=
  analyses_ok_consistent_partial [main, sub]
    (by
      intro p hp
      simp only [List.mem_cons, List.not_mem_nil, or_false] at hp
      rcases hp with rfl | rfl
      · exact main_fresh
      · simp [Fresh, Γ0, sub, FreshB, FreshS])
    (by decide) main (by simp) rfl

/-- an inconsistent program (`z[i] = x[i] + y[i]` with `x : f32`, `y : f64`): rejected, and indeed not
    consistent -/
def mixed : Proc :=
  ⟨"mixed", [⟨"x", .data (dT .f32 .DRAM)⟩, ⟨"y", .data (dT .f64 .DRAM)⟩, ⟨"z", .data (dT .f32 .DRAM)⟩],
   .cons (.assign "z" (.binop (.read "x" .scalar) (.read "y" .scalar))) .nil, false⟩

example : analyses [mixed] = .err "mixed" (.precision 1) := by decide

example : ¬ Consistent mixed := by
  intro h
  have h1 := h.prec
  simp only [Γ0, mixed, PrecConsB, PrecConsS] at h1
  have := h1.1 (dflt Prec.f32) (by simp [leafPrecs, paramEnv, lookup, dT]) (dflt Prec.f64)
    (by simp [leafPrecs, paramEnv, lookup, dT])
  revert this
  decide

/-- a read of an `AVX2` buffer, a buffer in `DRAM` passed to an `AVX2` parameter, a window passed to a
    dense parameter: each rejected with its own class -/
def vec : Proc :=
  ⟨"vec", [⟨"x", .data (dT .f32 .AVX2)⟩, ⟨"z", .data (dT .f32 .DRAM)⟩],
   .cons (.assign "z" (.read "x" .scalar)) .nil, false⟩

example : analyses [vec] = .err "vec" .read := by decide

def leafV : Proc :=
  ⟨"leafv", [⟨"a", .data (dT .f32 .AVX2)⟩], .cons .pass .nil, false⟩

def leafVC : Callee := ⟨leafV.name, leafV.params, procWrites leafV, false⟩

def passDram : Proc :=
  ⟨"passdram", [⟨"x", .data (dT .f32 .DRAM)⟩], .cons (.call leafVC (.cons (.read "x" (.dense 1)) .nil)) .nil, false⟩

example : analyses [passDram, leafV] = .err "passdram" .memory := by decide

def leafD : Proc :=
  ⟨"leafd", [⟨"a", .data (dT .f32 .DRAM)⟩], .cons .pass .nil, false⟩

def leafDC : Callee := ⟨leafD.name, leafD.params, procWrites leafD, false⟩

def passWin : Proc :=
  ⟨"passwin", [⟨"x", .data ⟨.f32, .DRAM, .win 1⟩⟩],
   .cons (.call leafDC (.cons (.read "x" (.win 1)) .nil)) .nil, false⟩

example : analyses [passWin, leafD] = .err "passwin" .window := by decide

/-- what `set_window(passwin_dense, "x", True)` produces: `x` is DECLARED a window, the `Read` node in the
    call keeps the dense type it had -/
def passWinStale : Proc :=
  ⟨"passwin", [⟨"x", .data ⟨.f32, .DRAM, .win 1⟩⟩],
   .cons (.call leafDC (.cons (.read "x" (.dense 1)) .nil)) .nil, false⟩

end Ex

/-- **The window clause fails without `Fresh`** (finding `set_window:stale-read-type`): the analyses accept a
    program that passes a window where the callee declares a dense tensor. -/
theorem stale_annotation_accepted :
    analyses [Ex.passWinStale, Ex.leafD] = .ok ∧ ¬ Consistent Ex.passWinStale ∧ ¬ Fresh Ex.passWinStale := by
  refine ⟨by decide, ?_, ?_⟩
  · intro h
    have h1 := h.win
    simp [Γ0, Ex.passWinStale, Ex.leafDC, Ex.leafD, Ex.dT, WinConsB, WinConsS, CallWinOK, declaredWin, paramEnv,
      lookup, Shape.isDense, Shape.isWin] at h1
  · intro h
    simp [Fresh, Γ0, Ex.passWinStale, FreshB, FreshS, FreshArgs, FreshArg, paramEnv, lookup, Shape.isWin] at h

/-! ## part (a), window-struct fragment

  `_partial`: "a successful compile yields C that a C compiler accepts" needs a C typing model of the whole
  backend; only the struct type chosen at a call site is related to the callee's parameter type here.  The
  rest of (a) is covered by the gcc search of the harness. -/

/-- for a WINDOW-EXPRESSION argument (also a promoted tensor) the compound literal has exactly the struct
    type of the callee's parameter, given what the precision check establishes and equal ranks
    (ranks are checked by the front end only) -/
theorem window_expr_arg_struct_eq_partial {Γ : Env} {f : Callee} {n x : Name} {dp dx : Decl} {ann : Shape}
    {r : Args} {ps : List Param}
    (hc : CallPrecOK Γ (.cons (.window x ann) r) (⟨n, .data dp⟩ :: ps))
    (hl : lookup Γ x = some dx) (hdim : ann.ndim = dp.shape.ndim) :
    windowArgStruct Γ f ⟨n, .data dp⟩ x ann = paramStruct f.writes ⟨n, .data dp⟩ := by
  simp only [CallPrecOK, leafPrecs, hl, List.mem_singleton, forall_eq] at hc
  simp only [windowArgStruct, paramStruct, hl, Option.bind_some, hc.1, hdim]

namespace Ex

/-- F9: `def rd(n, x: [f32][n], y: f32[n]): y[i] = x[i]` ; `def f9(n, w: [f32][n], y): w[i] = 1.0; rd(n, w, y)` -/
def rd : Proc :=
  ⟨"rd", [⟨"n", .ctrl⟩, ⟨"x", .data ⟨.f32, .DRAM, .win 1⟩⟩, ⟨"y", .data (dT .f32 .DRAM)⟩],
   .cons (.for_ (.cons (.assign "y" (.read "x" .scalar)) .nil)) .nil, false⟩

def rdC : Callee := ⟨rd.name, rd.params, procWrites rd, false⟩

def f9 : Proc :=
  ⟨"f9", [⟨"n", .ctrl⟩, ⟨"w", .data ⟨.f32, .DRAM, .win 1⟩⟩, ⟨"y", .data (dT .f32 .DRAM)⟩],
   .cons (.for_ (.cons (.assign "w" (.const .R)) .nil))
   (.cons (.call rdC (.cons .ctrl (.cons (.read "w" (.win 1)) (.cons (.read "y" (.dense 1)) .nil)))) .nil), false⟩

end Ex

/-- F9 in the model: a window VARIABLE is passed by name, so the C argument has the struct type of the
    caller's variable; the caller writes `w` (non-const struct), the callee does not write `x` (const
    struct): accepted, fresh, yet the two struct types differ. -/
theorem f9_witness :
    analyses [Ex.f9, Ex.rd] = .ok
    ∧ paramStruct (procWrites Ex.f9) ⟨"w", .data ⟨.f32, .DRAM, .win 1⟩⟩ = some "exo_win_1f32"
    ∧ paramStruct Ex.rdC.writes ⟨"x", .data ⟨.f32, .DRAM, .win 1⟩⟩ = some "exo_win_1f32c" := by
  decide

end Exo.Props.C15
