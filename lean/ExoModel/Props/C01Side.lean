/-
  Tie B — soundness of the evaluator w.r.t. `Reach`, for `cut_loop`.

  `SideTie.check ext "cut_loop" … σ₀ = ok (n, n)` (the side condition held at every collected
  visit) implies the `side` hypothesis of `C01.cut_loop_in_context` / `cut_loop_renamed_in_context`
  for every state that reaches the loop in the run from the sampled initial state `σ₀`.
  Ingredients (Lemmas/SideReach): `pathCtx` (the context a statement address denotes),
  `reach_mem_visits` (`Fp.visits` covers `Reach`), `all_of_filter_length`.
-/
import ExoModel.SideCheck
import ExoModel.Lemmas.SideReach

set_option linter.unusedSectionVars false
set_option linter.unusedVariables false
namespace Exo.SideTie
open Exo

variable {V : Type} [DataAlg V] [BEq V] (ext : String → List V → V)

/-- what `condCutLoop` says about a state -/
theorem condCutLoop_spec {lo mid hi : Expr} {σ : State V} (h : condCutLoop lo mid hi σ = true) :
    ∃ l m h', evalC σ lo = .ok l ∧ evalC σ mid = .ok m ∧ evalC σ hi = .ok h' ∧ l ≤ m ∧ m ≤ h' := by
  unfold condCutLoop cval at h
  cases hl : evalC σ lo with
  | error e => simp [hl] at h
  | ok l =>
    cases hm : evalC σ mid with
    | error e => simp [hl, hm] at h
    | ok m =>
      cases hh : evalC σ hi with
      | error e => simp [hl, hm, hh] at h
      | ok h' =>
        simp only [hl, hm, hh, Bool.and_eq_true, decide_eq_true_eq] at h
        exact ⟨l, m, h', rfl, rfl, rfl, h.1, h.2⟩

/-- `condFor` at the name `"cut_loop"` is `cutLoopCase` on the two block suffixes -/
theorem condFor_cut_loop_eq (path : Rw.Path) (k : Nat) (flag : Bool) (before after : List Stmt)
    (sb : List Stmt) (hb : Rw.getAt path before = some sb) :
    condFor ext "cut_loop" path k flag before after
      = cutLoopCase sb ((Rw.getAt path after).getD []) := by
  have hv : visitPath "cut_loop" path k = path := by
    unfold visitPath
    rw [if_neg (by decide), if_neg (by decide)]
  unfold condFor
  rw [hv, hb]
  unfold condCases
  rfl

/-- **soundness of the `cut_loop` side check.**  If the check reports that the side condition held
    at every one of its `n` visits, then every state in which control reaches the loop — in the run
    of the original procedure from the sampled initial state `σ₀` — satisfies the state hypothesis
    of `cut_loop_in_context`: the bounds and the cut point evaluate and `lo ≤ mid ≤ hi`; and the
    static hypotheses `mid.cfgFree`, `hi.cfgFree` hold (`noCfg`). -/
theorem cut_loop_check_sound (path : Rw.Path) (k : Nat) (flag : Bool) (before after : List Stmt)
    (σ₀ : State V) (n : Nat)
    {i i' : Sym} {lo hi lo' mid : Expr} {body b' r r' : List Stmt} {par p' : Bool}
    (hb : Rw.getAt path before = some (.loop i lo hi body par :: r))
    (ha : Rw.getAt path after = some (.loop i' lo' mid b' p' :: r'))
    (hc : check ext "cut_loop" path k flag before after σ₀ = .ok (n, n))
    (C : Ctx) (hC : pathCtx path before = some (C, .loop i lo hi body par)) :
    before = C.fill [.loop i lo hi body par] ∧ (noCfg mid && noCfg hi) = true ∧
    ∀ σ, Reach ext C [.loop i lo hi body par] σ₀ σ →
      ∃ l m h, evalC σ lo = .ok l ∧ evalC σ mid = .ok m ∧ evalC σ hi = .ok h ∧ l ≤ m ∧ m ≤ h := by
  have hv : visitPath "cut_loop" path k = path := by
    unfold visitPath
    rw [if_neg (by decide), if_neg (by decide)]
  unfold check at hc
  rw [condFor_cut_loop_eq ext path k flag before after _ hb, ha, hv] at hc
  simp only [Option.getD_some, cutLoopCase] at hc
  by_cases hs : (noCfg mid && noCfg hi) = true
  · rw [if_pos hs] at hc
    simp only [bind, Except.bind, pure, Except.pure, Except.ok.injEq, checkCond, Prod.mk.injEq] at hc
    refine ⟨(pathCtx_fill path before C _ hC).symm, hs, fun σ hr => ?_⟩
    have hall := all_of_filter_length _ _ (hc.2.trans hc.1.symm)
    exact condCutLoop_spec (hall σ (reach_mem_visits ext path before C _ σ₀ σ hC hr))
  · rw [if_neg hs] at hc
    simp [bind, Except.bind] at hc

end Exo.SideTie
