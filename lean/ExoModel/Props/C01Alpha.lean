/-
  Property C01, part 3 — the reference semantics is invariant under renaming of bound symbols,
  i.e. the alpha comparison by which the tie `rwcheck` compares real outputs with model rewrites
  has a formal meaning.

  * `Rw.blockEq'` / `Rw.alphaEqBlocks'` (ExoModel/AlphaEq.lean) is the corrected comparison; the
    theorems about it are unconditional.
  * the existing `Rw.blockEq` / `Rw.alphaEqBlocks` is NOT sound as it stands: three
    counter-examples below (`procEq_unsound`, `blockEq_namespace_unsound`,
    `alphaEq_not_blockEq`).  The `_partial` theorems state what it does guarantee under the
    explicit side conditions `sortedL` and `sameCalleesL`.

  Property theorems only; helper lemmas are in ExoModel/Lemmas/Alpha{Rel,Exec,Bridge}.lean.
-/
import ExoModel.AlphaEq
import ExoModel.Lemmas.AlphaRel
import ExoModel.Lemmas.AlphaExec
import ExoModel.Lemmas.AlphaBridge
import ExoModel.Lemmas.AlphaRefl
import ExoModel.Lemmas.AlphaMultLoops
import ExoModel.Lemmas.Rewrites
import ExoModel.Lemmas.RewriteAt
import ExoModel.DataLaws

set_option linter.unusedSectionVars false
namespace Exo.C01
open Exo Exo.Rw

variable {V : Type} [DataAlg V] (ext : String → List V → V)

/-! ### concrete blocks used by the non-vacuity examples -/

namespace AlphaEx
def a : Sym := ⟨"a", 1⟩
def x : Sym := ⟨"x", 2⟩
def y : Sym := ⟨"y", 3⟩
def i : Sym := ⟨"i", 4⟩
def j : Sym := ⟨"j", 5⟩
def w : Sym := ⟨"w", 6⟩
def w' : Sym := ⟨"w", 7⟩
def three : Expr := .lit (.int 3)
def zero : Expr := .lit (.int 0)

/-- `x : R[3]; for i in seq(0,3): x[i] = a[i]; w = x[0:3]; a[0] += w[1]` -/
def B : List Stmt :=
  [.alloc x [three],
   .loop i zero three [.assign x [.read i []] (.read a [.read i []])] false,
   .window w (.win x [.interval zero three]),
   .reduce a [zero] (.read w [.lit (.int 1)])]

/-- the same block with `x`, `i`, `w` renamed -/
def B' : List Stmt :=
  [.alloc y [three],
   .loop j zero three [.assign y [.read j []] (.read a [.read j []])] false,
   .window w' (.win y [.interval zero three]),
   .reduce a [zero] (.read w' [.lit (.int 1)])]

/-- a state in which both run successfully: `a` is a buffer of 3 cells -/
def σ₀ : State Int :=
  ⟨[], [(a, ⟨0, 0, [(3, 1)]⟩)], [[some 1, some 2, some 3]], []⟩

/-- a callee and a block calling it under a renamed loop -/
def callee : Proc :=
  .mk "inc" [⟨⟨"n", 10⟩, .ctrl .size⟩, ⟨⟨"t", 11⟩, .tensor [.read ⟨"n", 10⟩ []] false⟩] []
    [.reduce ⟨"t", 11⟩ [zero] (.lit (.int 1))]
def C : List Stmt := [.loop i zero three [.call callee [three, .read a []]] false]
def C' : List Stmt := [.loop j zero three [.call callee [three, .read a []]] false]
end AlphaEx

/-! ### A. soundness of the corrected alpha comparison -/

/-- **general form.**  Two blocks accepted by the comparison under renamings `ρc` (control
    variables) and `ρv` (buffers), started in states that have the same heap and configuration
    and agree through `ρc`/`ρv` on every symbol the comparison identifies (`RenRel`), end with the
    same error, or end in states that are again related under renamings extended by the names
    the blocks define — in particular with the same heap and the same configuration. -/
theorem alpha_exec {ρc ρv : Ren} {B B' : List Stmt} (h : blockEq' ρc ρv B B' = true)
    {σ σ' : State V} (hr : RenRel ρc ρv σ σ') :
    (∃ ρ' : Ren × Ren, ExRel (RenRel ρ'.1 ρ'.2) (execL ext B σ) (execL ext B' σ')) ∧
      ExRel SameHC (execL ext B σ) (execL ext B' σ') :=
  ⟨execL_alpha_ren ext B B' ρc ρv σ σ' h hr, execL_alpha ext B B' ρc ρv σ σ' h hr⟩

example : blockEq' [(AlphaEx.i, AlphaEx.j)] [(AlphaEx.x, AlphaEx.y)]
    [.assign AlphaEx.x [.read AlphaEx.i []] (.lit (.int 1))]
    [.assign AlphaEx.y [.read AlphaEx.j []] (.lit (.int 1))] = true := by decide +kernel

/-- the hypothesis is satisfiable by states that really differ in their names -/
example : RenRel (V := Int) [(AlphaEx.i, AlphaEx.j)] [(AlphaEx.x, AlphaEx.y)]
    ⟨[(AlphaEx.i, 2)], [(AlphaEx.x, ⟨0, 0, [(3, 1)]⟩)], [[none, none, none]], []⟩
    ⟨[(AlphaEx.j, 2)], [(AlphaEx.y, ⟨0, 0, [(3, 1)]⟩)], [[none, none, none]], []⟩ :=
  ((RenRel.refl (V := Int) ⟨[], [], [[none, none, none]], []⟩).bind AlphaEx.i AlphaEx.j 2).bindView
    AlphaEx.x AlphaEx.y ⟨0, 0, [(3, 1)]⟩

/-- **scoped form** (what `Equiv`, `if` branches, loop bodies and callee bodies observe): two
    alpha-equal blocks run in a fresh scope from the same state have the same outcome — same
    error or same final state. -/
theorem alpha_execB {B B' : List Stmt} (h : alphaEqBlocks' B B' = true) (σ : State V) :
    execB ext B σ = execB ext B' σ :=
  execB_alpha ext h (RenRel.refl σ) σ

example : alphaEqBlocks' AlphaEx.B AlphaEx.B' = true := by decide +kernel

/-- … and the run of the example is a successful one that writes the heap -/
example : (execB (fun _ _ => (0 : Int)) AlphaEx.B AlphaEx.σ₀).toOption.map (·.heap)
    = some [[some 3, some 2, some 3]] := by decide +kernel

/-- **unscoped form**: alpha-equal blocks that define no name at top level (all their
    `alloc`/window statements are inside loops and branches) are equal blocks in the sense of
    `BlockEq`, so they may be exchanged inside any context (`congruence`). -/
theorem alpha_blockEq {B B' : List Stmt} (h : alphaEqBlocks' B B' = true)
    (hn : noDefs B = true) (hn' : noDefs B' = true) : BlockEq B B' := by
  intro V _ ext σ
  rw [← execB_of_noDefs ext hn σ, ← execB_of_noDefs ext hn' σ, alpha_execB ext h σ]
  exact ExEq.refl _

example : alphaEqBlocks' [.ite (.lit (.bool true)) AlphaEx.B []] [.ite (.lit (.bool true)) AlphaEx.B' []]
    = true ∧ noDefs [.ite (.lit (.bool true)) AlphaEx.B []] = true := by decide +kernel

/-- the side condition cannot be dropped — and `alphaEqBlocks B B' → BlockEq B B'` is false for
    the existing comparison as well: after `x : R[1]` the name `x` is visible, after `y : R[1]`
    the name `y`.  (`alpha_execB` is the true statement: the names die with the scope.) -/
theorem alphaEq_not_blockEq :
    alphaEqBlocks' [.alloc AlphaEx.x [.lit (.int 1)]] [.alloc AlphaEx.y [.lit (.int 1)]] = true ∧
    alphaEqBlocks [.alloc AlphaEx.x [.lit (.int 1)]] [.alloc AlphaEx.y [.lit (.int 1)]] = true ∧
    ¬ BlockEq [.alloc AlphaEx.x [.lit (.int 1)]] [.alloc AlphaEx.y [.lit (.int 1)]] := by
  refine ⟨by decide +kernel, by decide +kernel, fun h => ?_⟩
  have := h Int (fun _ _ => 0) ⟨[], [], [], []⟩
  unfold ExEq at this
  have := congrArg (fun o => o.map (fun s => s.views.map (·.1.name))) this
  revert this
  decide +kernel

/-- a loop whose copy has a fresh iterator and an alpha-renamed body (the check
    `blockEq [(i, i2)] b b2` of `rwcheck` for `cut_loop` / `fission` / `fuse`) is the same loop.
    Generalises `rename_loop_var` (Props/C01Subst.lean), which covers the iterator only. -/
theorem renamed_loop_copy (i i' : Sym) (lo hi : Expr) (b b' : List Stmt) (par par' : Bool)
    (h : blockEq' [(i, i')] [] b b' = true) (σ : State V) :
    execS ext (.loop i lo hi b par) σ = execS ext (.loop i' lo hi b' par') σ :=
  loop_alpha ext i i' lo hi b b' par par' h σ

example : blockEq' [(AlphaEx.i, AlphaEx.j)] []
    [.alloc AlphaEx.x [.read AlphaEx.i []], .assign AlphaEx.x [AlphaEx.zero] (.lit (.int 1))]
    [.alloc AlphaEx.y [.read AlphaEx.j []], .assign AlphaEx.y [AlphaEx.zero] (.lit (.int 1))]
    = true := by decide +kernel

/-- the corrected comparison accepts every block compared with itself (it is not vacuous, and
    calls of syntactically equal callees pass `procEq'`) -/
theorem alphaEq_refl (B : List Stmt) : alphaEqBlocks' B B = true :=
  blockEq'_refl B [] [] (fun _ h => by cases h) (fun _ h => by cases h)

example : alphaEqBlocks' AlphaEx.C AlphaEx.C' = true := by decide +kernel

/-! ### B. what a successful `rwcheck` establishes -/

/-- a procedure whose body is alpha-equal to the body of `p` is equivalent to `p`, with no
    configuration field changed (`Equiv` observes the bodies only, so names, formals and
    assertions need not even be compared) -/
theorem alphaEq_equiv (p p' : Proc) (h : alphaEqBlocks' p.body p'.body = true) :
    Equiv (fun _ => False) p p' := by
  intro V _ ext σ o ho
  rw [alpha_execB ext h σ] at ho
  exact ⟨o, ho, Refines.refl o⟩

example : Equiv (fun _ => False) (.mk "p" [] [] AlphaEx.B) (.mk "p" [] [] AlphaEx.B') :=
  alphaEq_equiv _ _ (by decide +kernel)

/-- any equivalence proved for the model output transfers to an alpha-equal real output -/
theorem equiv_alpha_right {K : String × String → Prop} (p : Proc) (nm nm' : String)
    (args args' : List FnArg) (preds preds' : List Expr) (model after : List Stmt)
    (he : Equiv K p (.mk nm args preds model)) (ha : alphaEqBlocks' model after = true) :
    Equiv K p (.mk nm' args' preds' after) := by
  intro V _ ext σ o ho
  obtain ⟨o', ho', r⟩ := he V ext σ o ho
  refine ⟨o', ?_, r⟩
  simp only [Proc.body] at ho' ⊢
  rw [← alpha_execB ext ha σ]
  exact ho'

/-- **`rwcheck_sound`.**  What the tie establishes when it succeeds with the corrected
    comparison: if the real primitive's output `after` is alpha-equal to the model rewrite
    `rewriteAt f path body` and the local rewrite `f` never loses behaviour (the per-shape
    theorems of Props/C01*.lean), then the real output procedure is equivalent to the input
    procedure, with no configuration field changed. -/
theorem rwcheck_sound (f : Rw.Local) (hf : ∀ ss r, f ss = some r → BlockLe ss r)
    (path : Rw.Path) (nm nm' : String) (args args' : List FnArg) (preds preds' : List Expr)
    (body model after : List Stmt) (hm : Rw.rewriteAt f path body = some model)
    (ha : alphaEqBlocks' model after = true) :
    Equiv (fun _ => False) (.mk nm args preds body) (.mk nm' args' preds' after) :=
  equiv_alpha_right _ nm nm' args args' preds preds' model after
    (equiv_of_blockLe (Rw.rewriteAt_le f hf path body model hm) nm args preds) ha

/-- `insert_pass` inside the renamed loop: the model inserts into the input, the "real output"
    has every binder renamed -/
example : Equiv (fun _ => False) (.mk "p" [] [] AlphaEx.B)
    (.mk "p" [] []
      [.alloc AlphaEx.y [AlphaEx.three],
       .loop AlphaEx.j AlphaEx.zero AlphaEx.three
         [.pass, .assign AlphaEx.y [.read AlphaEx.j []] (.read AlphaEx.a [.read AlphaEx.j []])] false,
       .window AlphaEx.w' (.win AlphaEx.y [.interval AlphaEx.zero AlphaEx.three]),
       .reduce AlphaEx.a [AlphaEx.zero] (.read AlphaEx.w' [.lit (.int 1)])]) :=
  rwcheck_sound Rw.insertPassBefore
    (fun ss r hr => by
      cases ss with
      | nil => simp [Rw.insertPassBefore] at hr
      | cons s t =>
        simp only [Rw.insertPassBefore, Option.some.injEq] at hr
        subst hr
        intro V _ ext σ
        simp [execL, execS, bind, Except.bind, pure, Except.pure]
        exact ExLe.refl _)
    [.body 1, .body 0] "p" "p" [] [] [] [] AlphaEx.B _ _ (by rfl) (by decide +kernel)

/-! ### the existing comparison `Rw.blockEq`: counter-examples and what holds under side conditions -/

/-- **hole 1: `Rw.procEq`.**  Callees are compared by name and arity only: the existing
    comparison accepts a call of `f` (which writes a configuration field) against a call of a
    different procedure that is also named `f` (which does nothing); the two procedures are not
    `Equiv`. -/
theorem procEq_unsound :
    alphaEqBlocks
      [.call (.mk "f" [] [] [.writecfg "c" "v" (.lit (.int 1)) false]) []]
      [.call (.mk "f" [] [] []) []] = true ∧
    ¬ Equiv (fun _ => False)
      (.mk "p" [] [] [.call (.mk "f" [] [] [.writecfg "c" "v" (.lit (.int 1)) false]) []])
      (.mk "p" [] [] [.call (.mk "f" [] [] []) []]) := by
  refine ⟨by decide +kernel, fun h => ?_⟩
  obtain ⟨o', ho', r⟩ := h Int (fun _ _ => 0) ⟨[], [], [], []⟩
    ⟨[], [], [], [(("c", "v"), .ctrl 1)]⟩ (by rfl)
  have e : o' = ⟨[], [], [], []⟩ := by
    have : execB (fun _ _ => (0 : Int)) (Proc.body (.mk "p" [] [] [.call (.mk "f" [] [] []) []]))
        ⟨[], [], [], []⟩ = .ok ⟨[], [], [], []⟩ := by rfl
    rw [this] at ho'
    cases ho'
    rfl
  subst e
  obtain ⟨v', hv', _⟩ := r.cfg ("c", "v") (fun hk => hk) (.ctrl 1) (by rfl)
  simp [lookupCfg] at hv'

/-- the corrected comparison rejects that pair -/
example : alphaEqBlocks'
    [.call (.mk "f" [] [] [.writecfg "c" "v" (.lit (.int 1)) false]) []]
    [.call (.mk "f" [] [] []) []] = false := by decide +kernel

/-- **hole 2: one renaming for two name spaces.**  `alloc x`/`alloc y` push the pair `(x, y)`,
    which the existing comparison then also applies to *control* reads: it accepts
    `x : R[1]; z : R[x]` against `y : R[1]; z : R[y]`, but from a state whose control environment
    binds `x` (and not `y`) the first runs and the second raises a scope error. -/
theorem blockEq_namespace_unsound :
    alphaEqBlocks
      [.alloc AlphaEx.x [.lit (.int 1)], .alloc AlphaEx.w [.read AlphaEx.x []]]
      [.alloc AlphaEx.y [.lit (.int 1)], .alloc AlphaEx.w [.read AlphaEx.y []]] = true ∧
    ¬ Equiv (fun _ => False)
      (.mk "p" [] [] [.alloc AlphaEx.x [.lit (.int 1)], .alloc AlphaEx.w [.read AlphaEx.x []]])
      (.mk "p" [] [] [.alloc AlphaEx.y [.lit (.int 1)], .alloc AlphaEx.w [.read AlphaEx.y []]]) := by
  refine ⟨by decide +kernel, fun h => ?_⟩
  obtain ⟨o', ho', _⟩ := h Int (fun _ _ => 0) ⟨[(AlphaEx.x, 5)], [], [], []⟩
    ⟨[(AlphaEx.x, 5)], [], [], []⟩ (by rfl)
  have : execB (fun _ _ => (0 : Int))
      (Proc.body (.mk "p" [] [] [.alloc AlphaEx.y [.lit (.int 1)], .alloc AlphaEx.w [.read AlphaEx.y []]]))
      ⟨[(AlphaEx.x, 5)], [], [], []⟩ = .error .scope := by rfl
  rw [this] at ho'
  cases ho'

/-- the corrected comparison rejects that pair (a control read of `x` is looked up in `ρc`,
    where `(x, y)` is not) -/
example : alphaEqBlocks'
    [.alloc AlphaEx.x [.lit (.int 1)], .alloc AlphaEx.w [.read AlphaEx.x []]]
    [.alloc AlphaEx.y [.lit (.int 1)], .alloc AlphaEx.w [.read AlphaEx.y []]] = false := by decide +kernel

/-- **general form for the existing comparison** (`_partial`: needs the side conditions).  If
    `ρ` is an interleaving of `ρc` and `ρv` (`Split`), the left block is sorted with respect to
    sets `LB` of iterator names and `VB` of buffer names (`sortedL`: no `VB` name is read as a
    control variable, no `LB` name is used as a buffer, binders are in the respective set, calls
    have the right number of arguments) and the callees of paired calls are alpha-equal
    (`sameCalleesL`), then what `blockEq ρ` accepts runs in lock step from related states.
    Missing for the full statement: the two side conditions, which `Rw.blockEq` does not check
    (see `procEq_unsound`, `blockEq_namespace_unsound`). -/
theorem alpha_exec_partial {LB VB : List Sym} {ρ ρc ρv : Ren} {B B' : List Stmt}
    (hsp : Split LB VB ρ ρc ρv) (hs : sortedL LB VB B = true) (hc : sameCalleesL B B' = true)
    (h : blockEq ρ B B' = true) {σ σ' : State V} (hr : RenRel ρc ρv σ σ') :
    ExRel SameHC (execL ext B σ) (execL ext B' σ') :=
  execL_alpha ext B B' ρc ρv σ σ' (blockEq_bridge B B' ρ ρc ρv hsp hs hc h) hr

example : Split [AlphaEx.i] [AlphaEx.x] [(AlphaEx.i, AlphaEx.j), (AlphaEx.x, AlphaEx.y)]
    [(AlphaEx.i, AlphaEx.j)] [(AlphaEx.x, AlphaEx.y)] :=
  .ctrl _ _ (by decide +kernel) (.view _ _ (by decide +kernel) .nil)

/-- **scoped form for the existing comparison** (`_partial`, same side conditions). -/
theorem alpha_execB_partial (LB VB : List Sym) {B B' : List Stmt}
    (hs : sortedL LB VB B = true) (hc : sameCalleesL B B' = true)
    (h : alphaEqBlocks B B' = true) (σ : State V) : execB ext B σ = execB ext B' σ :=
  alpha_execB ext (blockEq_bridge B B' [] [] [] .nil hs hc h) σ

example : sortedL [AlphaEx.i] [AlphaEx.x, AlphaEx.w] AlphaEx.B = true ∧
    sameCalleesL AlphaEx.B AlphaEx.B' = true ∧ alphaEqBlocks AlphaEx.B AlphaEx.B' = true := by
  decide +kernel

example : sortedL [AlphaEx.i] [] AlphaEx.C = true ∧
    sameCalleesL AlphaEx.C AlphaEx.C' = true ∧ alphaEqBlocks AlphaEx.C AlphaEx.C' = true := by
  decide +kernel

/-- `alphaEq_equiv` for the existing comparison (`_partial`, same side conditions) -/
theorem alphaEq_equiv_partial (LB VB : List Sym) (p p' : Proc)
    (hs : sortedL LB VB p.body = true) (hc : sameCalleesL p.body p'.body = true)
    (h : alphaEqBlocks p.body p'.body = true) : Equiv (fun _ => False) p p' :=
  alphaEq_equiv p p' (blockEq_bridge _ _ [] [] [] .nil hs hc h)

example : Equiv (fun _ => False) (.mk "p" [] [] AlphaEx.B) (.mk "p" [] [] AlphaEx.B') :=
  alphaEq_equiv_partial [AlphaEx.i] [AlphaEx.x, AlphaEx.w] _ _ (by decide +kernel) (by decide +kernel) (by decide +kernel)

/-- `rwcheck_sound` for the existing comparison (`_partial`): what today's `rwcheck` establishes,
    provided the model output is sorted and the callees of paired calls are alpha-equal. -/
theorem rwcheck_sound_partial (LB VB : List Sym) (f : Rw.Local)
    (hf : ∀ ss r, f ss = some r → BlockLe ss r)
    (path : Rw.Path) (nm nm' : String) (args args' : List FnArg) (preds preds' : List Expr)
    (body model after : List Stmt) (hm : Rw.rewriteAt f path body = some model)
    (hs : sortedL LB VB model = true) (hc : sameCalleesL model after = true)
    (ha : alphaEqBlocks model after = true) :
    Equiv (fun _ => False) (.mk nm args preds body) (.mk nm' args' preds' after) :=
  rwcheck_sound f hf path nm nm' args args' preds preds' body model after hm
    (blockEq_bridge model after [] [] [] .nil hs hc ha)

example : Equiv (fun _ => False) (.mk "p" [] [] AlphaEx.C)
    (.mk "p" [] []
      [.loop AlphaEx.j AlphaEx.zero AlphaEx.three
        [.call AlphaEx.callee [AlphaEx.three, .read AlphaEx.a []], .pass] false]) :=
  rwcheck_sound_partial [AlphaEx.i] [] Rw.insertPassAfter
    (fun ss r hr => by
      cases ss with
      | nil => simp [Rw.insertPassAfter] at hr
      | cons s t =>
        simp only [Rw.insertPassAfter, Option.some.injEq] at hr
        subst hr
        intro V _ ext σ
        simp [execL, execS, bind, Except.bind, pure, Except.pure]
        exact ExLe.refl _)
    [.body 0, .body 0] "p" "p" [] [] [] [] AlphaEx.C _ _ (by rfl) (by decide +kernel) (by decide +kernel) (by decide +kernel)

/-! ### C. mult_loops -/

/-- `mult_loops` (the shape `Rw.multLoops` that `DoProductLoop` builds):
    `for i in [0, hi): for j in [0, c): B`  =  `for k in [0, hi * c): B[i ↦ k / c][j ↦ k % c]`
    for a positive literal `c`, a non-negative value of `hi`, distinct iterators, and a new
    iterator `k` that does not occur in `B` and is not re-bound inside it.
    (`DoProductLoop` itself does not check `c > 0`; for `c ≤ 0` the two sides are not compared
    here.) -/
theorem mult_loops (i j k : Sym) (hi : Expr) (c : Int) (B : List Stmt) (par parj : Bool)
    (σ : State V) (N : Int) (hN : 0 ≤ N) (hh : evalC σ hi = .ok N) (hc : 0 < c)
    (hij : i ≠ j) (hki : k ≠ i) (hkj : k ≠ j) (hk : occL k B = false)
    (hlv : ∀ y ∈ loopVarsL B, y ≠ k) :
    execS ext (.loop k (.lit (.int 0)) (.binop .mul hi (.lit (.int c)))
        (substL j (.binop .mod (.read k []) (.lit (.int c)))
          (substL i (.binop .div (.read k []) (.lit (.int c))) B)) par) σ
      = execS ext (.loop i (.lit (.int 0)) hi [.loop j (.lit (.int 0)) (.lit (.int c)) B parj] par) σ := by
  obtain ⟨q, rfl⟩ : ∃ q : Nat, c = (q : Int) := ⟨c.toNat, by omega⟩
  obtain ⟨n, rfl⟩ : ∃ n : Nat, N = (n : Int) := ⟨N.toNat, by omega⟩
  have hmul : evalC σ (.binop .mul hi (.lit (.int (q : Int)))) = .ok ((n : Int) * (q : Int)) := by
    simp [evalC, hh, ctrlOp, bind, Except.bind, pure, Except.pure]
  rw [execS_loop ext k _ _ _ par σ 0 ((n : Int) * (q : Int)) rfl hmul
        (Int.mul_nonneg (by omega) (by omega)),
      execS_loop ext i _ hi _ par σ 0 (n : Int) rfl hh (by omega)]
  have hcnt : ((n : Int) * (q : Int) - 0).toNat = q * n := by
    rw [Int.sub_zero, ← Int.natCast_mul, Int.toNat_natCast, Nat.mul_comm]
  have hcnt' : ((n : Int) - 0).toNat = n := by omega
  rw [hcnt, hcnt', ← iterate_mul _ q n 0 σ]
  congr 1
  funext vo s
  rw [nest_outer_step ext i j (.lit (.int 0)) (.lit (.int (q : Int))) B parj vo s s 0 (q : Int)
        rfl rfl (by omega) rfl rfl rfl rfl rfl rfl]
  have hq : ((q : Int) - 0).toNat = q := by omega
  have hsh := iterate_shift (loopStep ext k
      (substL j (.binop .mod (.read k []) (.lit (.int (q : Int))))
        (substL i (.binop .div (.read k []) (.lit (.int (q : Int)))) B))) (0 + (q : Int) * vo) q 0 s
  rw [Int.add_zero] at hsh
  rw [hq, ← hsh]
  refine iterate_congr_range _ _ 0 (q : Int) (fun b t hb0 hbq => ?_) q 0 s (by omega) (by omega)
  rw [mult_step ext i j k (q : Int) hc B _ t hij hki hkj hk hlv]
  have e1 : (0 + (q : Int) * vo + b) / (q : Int) = vo := by
    rw [Int.zero_add, Int.add_comm, Int.add_mul_ediv_left _ _ (by omega),
        Int.ediv_eq_zero_of_lt hb0 hbq]
    omega
  have e2 : (0 + (q : Int) * vo + b) % (q : Int) = b := by
    rw [Int.zero_add, Int.add_comm, Int.add_mul_emod_self_left, Int.emod_eq_of_lt hb0 hbq]
  rw [e1, e2]

/-- the model rewrite applies to a nest with a positive constant inner bound, and the
    hypotheses of `mult_loops` hold for it -/
example : Rw.multLoops ⟨"k", 9⟩
    [.loop AlphaEx.i AlphaEx.zero AlphaEx.three
      [.loop AlphaEx.j AlphaEx.zero (.lit (.int 4))
        [.assign AlphaEx.a [.binop .add (.binop .mul (.lit (.int 4)) (.read AlphaEx.i [])) (.read AlphaEx.j [])]
          (.lit (.int 1))] false] false]
    = some [.loop ⟨"k", 9⟩ AlphaEx.zero (.binop .mul AlphaEx.three (.lit (.int 4)))
      [.assign AlphaEx.a
        [.binop .add (.binop .mul (.lit (.int 4)) (.binop .div (.read ⟨"k", 9⟩ []) (.lit (.int 4))))
          (.binop .mod (.read ⟨"k", 9⟩ []) (.lit (.int 4)))]
        (.lit (.int 1))] false] := by rfl

example : occL ⟨"k", 9⟩
    [.assign AlphaEx.a [.binop .add (.binop .mul (.lit (.int 4)) (.read AlphaEx.i [])) (.read AlphaEx.j [])]
      (.lit (.int 1))] = false ∧ AlphaEx.i ≠ AlphaEx.j := by decide

end Exo.C01
