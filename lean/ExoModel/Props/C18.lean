/-
  C18 — scheduling and compilation are deterministic.

  "The same Exo source and schedule always produce byte-identical printed procedures, C and header
   text, independent of Python hash seeds, of how many symbols or procedures were created earlier
   in the process, and of the definition order of unrelated procedures."

  The run-time causes are adversarial parameters of the model (ExoModel.Order): every iteration
  over a Python `set` is an arbitrary permutation, the numbering of `Sym`s is an arbitrary strictly
  monotone renumbering.  Three groups of statements:

   (1) sorted emission: for every site of `compile_to_strings` that goes through `sorted(…, key)`
       the emitted order is the same for ALL iteration orders of the underlying set, given that
       the key is injective on the collection; where the code guarantees that (it raises on a
       duplicate, or the elements are frozen dataclass values determined by the key) the
       statement is unconditional; where it does not (memories, externs) the theorem is
       `…_partial` and a witness shows that the hypothesis is needed (known finding);
   (2) `Sym`: `==`, `<`, `sorted` and the two naming machines commute with renumbering;
   (3) the per-run obligation: every site of the table regenerated from the source tree
       (`Gen/SortSites.lean`) is sorted with a recognised key, or has at most one element, or is
       absorbed by sorted sites — `decide` over the whole table.

  NOT modelled (the property is observed for them by the multi-seed search of
  harness/props/c18.py, not proved): see `unmodelled` at the end of the file.
-/
import ExoModel.Order
import ExoModel.Gen.SortSites

namespace Exo.Order.C18
open Exo Exo.Order List

/-! ## concrete values for the examples -/

def mA : Mem := ⟨"AVX2", "#include <immintrin.h>"⟩
def mB : Mem := ⟨"DRAM_STATIC", ""⟩
def mC : Mem := ⟨"Neon", "#include <arm_neon.h>"⟩
/-- a second memory class whose `__name__` is also `AVX2` (e.g. produced by a class factory) -/
def mA' : Mem := ⟨"AVX2", "#include <my_avx2_shim.h>"⟩

def p1 : Proc := ⟨"gemm", false, true, "void gemm();", "void gemm() {}", none⟩
def p2 : Proc := ⟨"axpy", false, false, "static void axpy();", "static void axpy() {}", none⟩
def p3 : Proc := ⟨"mm256_fmadd_ps", true, false, "", "/* fmadd */", some "#include <immintrin.h>"⟩
/-- another procedure named `axpy` -/
def p2' : Proc := ⟨"axpy", false, false, "static void axpy();", "static void axpy() { /*v2*/ }", none⟩

def w1 : WStruct := ⟨"exo_win_1f32", "struct exo_win_1f32{…};"⟩
def w2 : WStruct := ⟨"exo_win_2f32c", "struct exo_win_2f32c{…};"⟩
def wdef (n : String) : String := "struct " ++ n ++ "{…};"

def c1 : Cfg := ⟨"ConfigAB", ["struct ConfigAB {", "} ConfigAB;"]⟩
def c2 : Cfg := ⟨"Ctl", ["struct Ctl {", "} Ctl;"]⟩

def e1 : Ext := ⟨"sin", "float", "#include <math.h>"⟩
def e2 : Ext := ⟨"relu", "float", "static float _relu_float(float x) {…}"⟩
/-- `fu`/`int8_t` and `f`/`uint8_t`: different externs, same key `"fuint8_t"` -/
def e3 : Ext := ⟨"fu", "int8_t", "A"⟩
def e4 : Ext := ⟨"f", "uint8_t", "B"⟩

def sx : Sym := ⟨"x", 3⟩
def sx' : Sym := ⟨"x", 9⟩
def sy : Sym := ⟨"y", 5⟩
/-! ## 1. sorted emission -/

/-- (1) Any two iteration orders of a collection sort to the same list when the key is injective
    on the collection (Python's stable `sorted`). -/
theorem sorted_site_order_invariant {κ α} (o : KeyOrder κ) (key : α → κ) {l₁ l₂ : List α}
    (h : l₁ ~ l₂) (inj : InjOn key l₁) : pySorted o key l₁ = pySorted o key l₂ :=
  pySorted_eq_of_perm o key h inj

example : pySorted strOrder Mem.name [mC, mA, mB] = pySorted strOrder Mem.name [mB, mC, mA] :=
  sorted_site_order_invariant strOrder Mem.name (by decide) (by unfold InjOn; decide)

/-- … and therefore the emitted concatenation is equal. -/
theorem sorted_site_text_invariant {κ α} (o : KeyOrder κ) (key : α → κ) (emit : α → String)
    {l₁ l₂ : List α} (h : l₁ ~ l₂) (inj : InjOn key l₁) :
    emitSorted o key emit l₁ = emitSorted o key emit l₂ :=
  emitSorted_eq_of_perm o key emit h inj

example : emitSorted strOrder Mem.name Mem.global [mC, mA, mB]
    = emitSorted strOrder Mem.name Mem.global [mA, mB, mC] :=
  sorted_site_text_invariant strOrder Mem.name Mem.global (by decide) (by unfold InjOn; decide)

/-- The sequence of sorted KEYS never depends on the iteration order, repeated keys or not. -/
theorem sorted_site_keys_invariant {κ α} (o : KeyOrder κ) (key : α → κ) {l₁ l₂ : List α}
    (h : l₁ ~ l₂) : (pySorted o key l₁).map key = (pySorted o key l₂).map key :=
  pySorted_keys_eq_of_perm o key h

example : (pySorted strOrder Mem.name [mA', mC, mA]).map Mem.name
    = (pySorted strOrder Mem.name [mA, mA', mC]).map Mem.name :=
  sorted_site_keys_invariant strOrder Mem.name (by decide)

/-- `sorted(...)` followed by the loop that raises on a repeated name
    (`distinct = raises`: procs in `compile_to_strings`, configs in `_compile_context_struct`) -/
def sortChecked (what : String) (key : α → String) (l : List α) : Except String (List α) :=
  let s := pySorted strOrder key l
  match firstDup (s.map key) with
  | some d => .error s!"multiple {what} named {d}"
  | none => .ok s

/-- Sites that raise on a duplicate: the outcome (the sorted list, or the exception and its
    message) is the same for ALL iteration orders — no hypothesis. -/
theorem raising_site_deterministic (what : String) (key : α → String) {l₁ l₂ : List α}
    (h : l₁ ~ l₂) : sortChecked what key l₁ = sortChecked what key l₂ := by
  unfold sortChecked
  have hk := pySorted_keys_eq_of_perm strOrder key h
  simp only [← hk]
  cases hd : firstDup ((pySorted strOrder key l₁).map key) with
  | some d => rfl
  | none =>
    simp only []
    rw [pySorted_eq_of_perm strOrder key h (injOn_of_check_passes strOrder key l₁ hd)]

example : sortChecked "procs" Proc.name [p1, p2, p3] = sortChecked "procs" Proc.name [p3, p1, p2] :=
  raising_site_deterministic "procs" Proc.name (by decide)

/-- the duplicate is reported identically whatever the order -/
example : sortChecked "procs" Proc.name [p2', p1, p2] = sortChecked "procs" Proc.name [p2, p2', p1] :=
  raising_site_deterministic "procs" Proc.name (by decide)

/-- Sites whose elements are frozen-dataclass values (`WindowStruct(name, definition)` in the set
    `struct_defns`): a set holds no two equal objects, so if `definition` is a function of `name`
    (run-time tie of harness/props/c18.py on the real `window_struct`) the emission order is the
    same for all iteration orders. -/
theorem dataclass_site_deterministic (g : String → String) {l₁ l₂ : List WStruct} (h : l₁ ~ l₂)
    (fn : ∀ w ∈ l₁, w.definition = g w.name) :
    pySorted strOrder WStruct.name l₁ = pySorted strOrder WStruct.name l₂ :=
  pySorted_eq_of_perm strOrder WStruct.name h
    (injOn_of_functional WStruct.name WStruct.definition g
      (fun a b h₁ h₂ => by cases a; cases b; simp_all) l₁ fn)

example : pySorted strOrder WStruct.name [w2, w1] = pySorted strOrder WStruct.name [w1, w2] :=
  dataclass_site_deterministic wdef (by decide) (by decide)

/-- An unsorted iteration over a collection of at most one element (`needed_helpers`: the only
    key of `_static_helpers` is `exo_floor_div`) has one order. -/
theorem singleton_site_deterministic {l₁ l₂ : List α} (h : l₁ ~ l₂) (hc : l₁.length ≤ 1) : l₁ = l₂ :=
  eq_of_perm_of_length_le_one h hc

example : ["exo_floor_div"] = ["exo_floor_div"] :=
  singleton_site_deterministic (Perm.refl _) (by decide)

/-- PARTIAL (memories in `_compile_memories`, externs in `_compile_externs`): the code sorts but
    nothing forces distinct keys — two `Memory` classes may share `__name__`, two `Extern`
    instances may share a name, and `name() + ctype` is a concatenation.  Determinism of these
    sites needs `InjOn`, which is a property of the USER's compilation unit, not of the code.
    Missing for the full property: enforcement in the code (cf. `raising_site_deterministic`). -/
theorem unenforced_site_deterministic_partial (key : α → String) (emit : α → String)
    {l₁ l₂ : List α} (h : l₁ ~ l₂) (userKeysDistinct : InjOn key l₁) :
    emitSorted strOrder key emit l₁ = emitSorted strOrder key emit l₂ :=
  emitSorted_eq_of_perm strOrder key emit h userKeysDistinct

example : emitSorted strOrder Ext.key Ext.globl [e1, e2] = emitSorted strOrder Ext.key Ext.globl [e2, e1] :=
  unenforced_site_deterministic_partial Ext.key Ext.globl (by decide) (by unfold InjOn; decide)

/-- WITNESS that the hypothesis of `unenforced_site_deterministic_partial` is needed: two memory
    classes named `AVX2` are emitted in the order the set happened to yield them (stable sort).
    Reproduced on the real code: known finding `compile:memories-same-name-order`. -/
theorem unenforced_memories_witness :
    emitSorted strOrder Mem.name Mem.global [mA, mA'] ≠ emitSorted strOrder Mem.name Mem.global [mA', mA] := by
  unfold emitSorted
  rw [pySorted_of_sorted _ _ [mA, mA'] (by decide), pySorted_of_sorted _ _ [mA', mA] (by decide)]
  decide

/-- … and for externs even different names can collide: `"fu" ++ "int8_t" = "f" ++ "uint8_t"`.
    Known finding `compile:externs-same-key-order`. -/
theorem unenforced_externs_witness :
    e3.key = e4.key ∧
    emitSorted strOrder Ext.key Ext.globl [e3, e4] ≠ emitSorted strOrder Ext.key Ext.globl [e4, e3] := by
  refine ⟨by decide, ?_⟩
  unfold emitSorted
  rw [pySorted_of_sorted _ _ [e3, e4] (by decide), pySorted_of_sorted _ _ [e4, e3] (by decide)]
  decide

/-- PARTIAL: the whole of `compile_to_strings` (model `compileUnit`: sort procs, context struct
    with duplicate check, memories, proc loop with duplicate check, structs, externs, helpers,
    assembly of header and body) gives the same result — text or exception — for all iteration
    orders of all its sets.
    Missing for the full property: (a) `memKeys`/`extKeys` are not enforced by the code (see the
    witnesses above); (b) the text of each procedure (`Proc.decl`, `Proc.body`) is a field, i.e.
    the per-procedure compiler is assumed to be a function of the procedure — covered for naming
    by `c_names_renum`, otherwise observed by the search. -/
theorem compile_unit_deterministic_partial (prelude lib : String) {u v : CUnit} (h : u.SameUpToOrder v)
    (memKeys : InjOn Mem.name u.mems) (extKeys : InjOn Ext.key u.exts)
    (g : String → String) (structFn : ∀ w ∈ u.structs, w.definition = g w.name)
    (helpers : u.helpers.length ≤ 1) :
    compileUnit prelude lib u = compileUnit prelude lib v := by
  have hck := pySorted_keys_eq_of_perm strOrder Cfg.name h.cfgs
  have hpk := pySorted_keys_eq_of_perm strOrder Proc.name h.procs
  have hm := pySorted_eq_of_perm strOrder Mem.name h.mems memKeys
  have he := pySorted_eq_of_perm strOrder Ext.key h.exts extKeys
  have hs := dataclass_site_deterministic g h.structs structFn
  have hh := eq_of_perm_of_length_le_one h.helpers helpers
  unfold compileUnit
  simp only [← hck, ← hpk, ← hm, ← he, ← hs, ← hh]
  cases hc : firstDup ((pySorted strOrder Cfg.name u.cfgs).map Cfg.name) with
  | some d => rfl
  | none =>
    have hcs := pySorted_eq_of_perm strOrder Cfg.name h.cfgs (injOn_of_check_passes strOrder Cfg.name _ hc)
    simp only [← hcs]
    cases hp : firstDup ((pySorted strOrder Proc.name u.procs).map Proc.name) with
    | some d => rfl
    | none =>
      have hps := pySorted_eq_of_perm strOrder Proc.name h.procs (injOn_of_check_passes strOrder Proc.name _ hp)
      simp only [← hps]

def u1 : CUnit := ⟨[p1, p2, p3], [mC, mA, mB], [e1, e2], [c2, c1], [w2, w1], ["exo_floor_div"]⟩
def u2 : CUnit := ⟨[p3, p1, p2], [mA, mB, mC], [e2, e1], [c1, c2], [w1, w2], ["exo_floor_div"]⟩

example : compileUnit "#include <stdint.h>\n" "lib" u1 = compileUnit "#include <stdint.h>\n" "lib" u2 :=
  compile_unit_deterministic_partial _ _
    ⟨by decide, by decide, by decide, by decide, by decide, by decide⟩
    (by unfold InjOn; decide) (by unfold InjOn; decide) wdef (by decide) (by decide)

/-! ## 2. symbols -/

/-- `Sym.__eq__` is invariant under renumbering -/
theorem sym_eq_renum {f} (h : StrictMono f) (a b : Sym) : (renum f a == renum f b) = (a == b) :=
  renum_beq h.injective a b

example : (renum stretch sx == renum stretch sx') = (sx == sx') := sym_eq_renum stretch_mono sx sx'

/-- `Sym.__lt__` (`(name, id) <`) is invariant under order-preserving renumbering -/
theorem sym_lt_renum {f} (h : StrictMono f) (a b : Sym) : symLt (renum f a) (renum f b) = symLt a b :=
  symLt_renum h a b

example : symLt (renum stretch sx) (renum stretch sx') = symLt sx sx' := sym_lt_renum stretch_mono sx sx'

/-- sorting by `Sym` commutes with order-preserving renumbering -/
theorem sorted_syms_renum {f} (h : StrictMono f) (l : List Sym) :
    (l.map (renum f)).mergeSort symLe = (l.mergeSort symLe).map (renum f) :=
  sort_syms_renum h l

example : ([sy, sx', sx].map (renum shift)).mergeSort symLe = ([sy, sx', sx].mergeSort symLe).map (renum shift) :=
  sorted_syms_renum shift_mono _

/-- the term order of `simplify`'s `generate_loopIR` (`sorted(normalization_list)` over
    `(coeff, Sym)` tuples) commutes with order-preserving renumbering -/
theorem term_order_renum {f} (h : StrictMono f) (l : List (Int × Sym)) :
    (l.map (renumTerm f)).mergeSort termLe = (l.mergeSort termLe).map (renumTerm f) :=
  sort_terms_renum h l

example : ([(2, sx'), (2, sx), (-1, sy)].map (renumTerm stretch)).mergeSort termLe
    = ([(2, sx'), (2, sx), (-1, sy)].mergeSort termLe).map (renumTerm stretch) :=
  term_order_renum stretch_mono _

/-- C identifiers chosen by `Compiler.new_varname` / looked up through `self.env` are the same
    after any injective renumbering of symbol ids (they depend on names and `==` only) -/
theorem c_names_renum {f} (h : Injective f) (fuel : Nat) (names : StrMap String) (e : SymEnv) (evs : List Ev) :
    run (cNamer fuel) (names, renumEnv f e) (evs.map (Ev.renum f)) = run (cNamer fuel) (names, e) evs :=
  run_renum h (cNamer fuel) names e evs

def evs0 : List Ev := [.bind sx, .push, .bind sx', .use sx, .use sx', .bind sy, .pop, .use sx, .bind sx']

example : run (cNamer 10) ([[]], renumEnv stretch [[]]) (evs0.map (Ev.renum stretch))
    = run (cNamer 10) ([[]], [[]]) evs0 :=
  c_names_renum stretch_mono.injective 10 _ _ _

/-- the model really disambiguates: second `x` becomes `x_1` -/
example : run (cNamer 10) ([[]], [[]]) [.bind sx, .bind sx', .use sx, .use sx']
    = [some "x", some "x_1", some "x", some "x_1"] := by decide

/-- names printed by `PrintEnv.get_name` are the same after any injective renumbering -/
theorem printed_names_renum {f} (h : Injective f) (fuel : Nat) (names : StrMap Nat) (e : SymEnv) (evs : List Ev) :
    run (printNamer fuel) (names, renumEnv f e) (evs.map (Ev.renum f)) = run (printNamer fuel) (names, e) evs :=
  run_renum h (printNamer fuel) names e evs

example : run (printNamer 10) ([[]], renumEnv shift [[]]) (evs0.map (Ev.renum shift))
    = run (printNamer 10) ([[]], [[]]) evs0 :=
  printed_names_renum shift_mono.injective 10 _ _ _

example : run (printNamer 10) ([[]], [[]]) [.use sx, .use sx', .use sx, .use sy]
    = [some "x", some "x_1", some "x", some "y"] := by decide

/-! ## 3. the per-run obligation over the regenerated table -/

/-- (3) every place where the iteration order of a set can reach the text emitted by
    `compile_to_strings` (as found by harness/translate/sort_sites.py in the tree under test)
    sorts with a recognised key, or has at most one element, or only feeds sorted sites. -/
theorem sites_ok : tableOk Gen.SortSites.sites = true := by decide

/-- the table is not vacuous: it has the five sorted emission sites -/
example : (Gen.SortSites.sites.filter (·.role == .sorted)).length = 5 := by decide

/-- the rows the check REJECTS: an unsorted iteration that reaches the text, an escape -/
example : tableOk
    [{ id := "r", func := "_compile_memories", line := 1, src := "mems", coll := .set, role := .producer,
       sorted := false, key := "", keyKind := .none, distinct := .unenforced, maxCard := none,
       insensitive := false, contained := true, origins := [], how := "for loop" },
     { id := "c", func := "from_lines", line := 2, src := "x", coll := .taintedList, role := .consumer,
       sorted := false, key := "", keyKind := .none, distinct := .unenforced, maxCard := none,
       insensitive := false, contained := false, origins := ["r"], how := "str.join" }] = false := by decide

/-- PARTIAL: distinctness of the sort keys is enforced by the code at every sorted site except
    the memories and the externs (for which see `unenforced_site_deterministic_partial` and the
    witnesses).  Missing for the full property: a duplicate check at these two sites. -/
theorem sites_distinct_enforced_partial :
    ∀ s ∈ unenforcedSorted Gen.SortSites.sites, s.func ∈ ["_compile_memories", "_compile_externs"] := by
  decide

/-- the only key that is not a plain name is the externs' concatenation -/
theorem sites_plain_keys_partial :
    ∀ s ∈ Gen.SortSites.sites, s.role = .sorted → s.keyKind = .concat → s.func = "_compile_externs" := by
  decide

/-! ## 4. what is not modelled -/

/-- sources of nondeterminism that the model does not cover; for these the property is observed by
    the multi-seed / multi-history search, not proved -/
def unmodelled : List String :=
  [ "LoopIR_unification.Unification: `for x in FV_set` iterates a set of id-hashed Syms; the order \
     of `knowns` reaches the SMT query and Z3's model picks among equally valid window placements \
     (DESIGN F17, known finding replace:window-placement-choice-nondeterministic)",
    "the bodies of the scheduling rewrites (LoopIR_scheduling.py): sets of Syms are used for \
     membership only except `used_allocs` in DoUnrollBuffer (a set of small ints, whose CPython \
     iteration order is a function of the insertion sequence — assumption)",
    "the front end (parser, type checker), pattern matching, the SMT-backed analyses",
    "the text of a procedure body beyond the choice of names (`Compiler.comp_s/comp_e`, `_print_*`)" ]

/-- PARTIAL: a session is a sequence of stages; if every stage is a function of its input (for
    the modelled stages this is what sections 1–3 prove up to the adversarial parameters; for the
    stages in `unmodelled` it is a HYPOTHESIS, and F17 shows it false for `replace`), two runs
    of the session agree.  Missing: the stages listed in `unmodelled`. -/
theorem session_deterministic_partial {α : Type} (stages : List (α → α → Prop))
    (functional : ∀ R ∈ stages, ∀ a b c, R a b → R a c → b = c)
    (runs : List (α → α → Prop) → α → α → Prop)
    (runs_nil : ∀ a b, runs [] a b ↔ a = b)
    (runs_cons : ∀ R Rs a c, runs (R :: Rs) a c ↔ ∃ b, R a b ∧ runs Rs b c)
    (a b c : α) (h₁ : runs stages a b) (h₂ : runs stages a c) : b = c := by
  induction stages generalizing a with
  | nil => rw [runs_nil] at h₁ h₂; rw [← h₁, ← h₂]
  | cons R Rs ih =>
    rw [runs_cons] at h₁ h₂
    obtain ⟨x, hx, hxb⟩ := h₁
    obtain ⟨y, hy, hyc⟩ := h₂
    have hxy : x = y := functional R mem_cons_self a x y hx hy
    subst hxy
    exact ih (fun R' hR' => functional R' (mem_cons_of_mem _ hR')) x hxb hyc

/-- two deterministic stages on `Nat` -/
example : (6 : Nat) = 6 :=
  session_deterministic_partial (α := Nat) [fun a b => b = a + 1, fun a b => b = 2 * a]
    (by intro R hR a b c h₁ h₂; simp only [mem_cons, not_mem_nil, or_false] at hR
        rcases hR with rfl | rfl <;> omega)
    (fun Rs a b => Rs.foldr (fun R acc => fun a c => ∃ x, R a x ∧ acc x c) (fun a b => a = b) a b)
    (fun _ _ => Iff.rfl) (fun _ _ _ _ => Iff.rfl)
    2 6 6 ⟨3, rfl, 6, rfl, rfl⟩ ⟨3, rfl, 6, rfl, rfl⟩

end Exo.Order.C18
