/-
  C14 — library instructions do what their Exo bodies say (part 3: composite AVX2 operations, conversions).

  One theorem per instruction of ExoModel/Gen/X86Instrs.lean (REGENERATED from exo.platforms.x86 on
  every run), stated with `Exo.X86.InstrCorrect` (ExoModel/X86.lean):

      ∀ lawful data algebra V, extern meaning fixed on relu/select, control values cv, placements
        pl (buffer, offset, stride of every operand), heap, cfg:
        Admissible I.proc σ  →  execB ext I.proc.body σ = execCInstr I σ        (σ = stateOf I.proc cv pl heap cfg)

  `Admissible` = what `execP` checks before it runs the body (sizes positive, declared shapes,
  the instruction's assertions, no aliasing) + every operand window lies inside its buffer.
  Variants: `InstrCorrectInit` additionally assumes every operand cell initialised (blendv reads
  a lane the `select` extern would poison); `InstrCorrectWhen` adds a condition on control values
  (theorems named `_partial`).  `X_refuted : ¬ InstrCorrect X.instr` is a machine-checked
  counterexample: the C fragment of X does NOT do what X's body says (recorded findings).
  After each theorem an `example` shows its hypotheses are satisfiable (state cv0/pl0/heap0).
-/
import ExoModel.Lemmas.C14Tactic

set_option maxRecDepth 8000
namespace Exo.C14
open Exo Exo.X86 Exo.Lane Exo.X86Instrs


theorem avx2_set0_ps_correct : InstrCorrect avx2_set0_ps.instr := by c14_lane avx2_set0_ps
example : Admissible avx2_set0_ps.proc (stateOf avx2_set0_ps.proc cv0 pl0 heap0 []) := by c14_adm avx2_set0_ps

theorem avx2_fmadd_memu_ps_correct : InstrCorrect avx2_fmadd_memu_ps.instr := by c14_lane avx2_fmadd_memu_ps
example : Admissible avx2_fmadd_memu_ps.proc (stateOf avx2_fmadd_memu_ps.proc cv0 pl0 heap0 []) := by c14_adm avx2_fmadd_memu_ps

theorem avx2_select_ps_correct : InstrCorrectInit avx2_select_ps.instr := by c14_init avx2_select_ps
example : Admissible avx2_select_ps.proc (stateOf avx2_select_ps.proc cv0 pl0 heap0 []) := by c14_adm avx2_select_ps
example : allViewsInit heap0 (stateOf avx2_select_ps.proc cv0 pl0 heap0 []).views := by c14_init_adm avx2_select_ps

theorem avx2_select_pd_correct : InstrCorrectInit avx2_select_pd.instr := by c14_init avx2_select_pd
example : Admissible avx2_select_pd.proc (stateOf avx2_select_pd.proc cv0 pl0 heap0 []) := by c14_adm avx2_select_pd
example : allViewsInit heap0 (stateOf avx2_select_pd.proc cv0 pl0 heap0 []).views := by c14_init_adm avx2_select_pd

/-- uses associativity and commutativity of `add` (the C fragment adds pairwise) -/
theorem avx2_assoc_reduce_add_ps_correct : InstrCorrect avx2_assoc_reduce_add_ps.instr := by c14_acc avx2_assoc_reduce_add_ps
example : Admissible avx2_assoc_reduce_add_ps.proc (stateOf avx2_assoc_reduce_add_ps.proc cv0 pl0 heap0 []) := by c14_adm avx2_assoc_reduce_add_ps

/-- uses associativity and commutativity of `add` (the C fragment adds pairwise) -/
theorem avx2_assoc_reduce_add_pd_correct : InstrCorrect avx2_assoc_reduce_add_pd.instr := by c14_acc avx2_assoc_reduce_add_pd
example : Admissible avx2_assoc_reduce_add_pd.proc (stateOf avx2_assoc_reduce_add_pd.proc cv0 pl0 heap0 []) := by c14_adm avx2_assoc_reduce_add_pd

theorem avx2_sign_ps_correct : InstrCorrect avx2_sign_ps.instr := by c14_lane avx2_sign_ps
example : Admissible avx2_sign_ps.proc (stateOf avx2_sign_ps.proc cv0 pl0 heap0 []) := by c14_adm avx2_sign_ps

theorem avx2_sign_pd_correct : InstrCorrect avx2_sign_pd.instr := by c14_lane avx2_sign_pd
example : Admissible avx2_sign_pd.proc (stateOf avx2_sign_pd.proc cv0 pl0 heap0 []) := by c14_adm avx2_sign_pd

theorem avx2_reduce_add_wide_ps_correct : InstrCorrect avx2_reduce_add_wide_ps.instr := by c14_lane avx2_reduce_add_wide_ps
example : Admissible avx2_reduce_add_wide_ps.proc (stateOf avx2_reduce_add_wide_ps.proc cv0 pl0 heap0 []) := by c14_adm avx2_reduce_add_wide_ps

theorem avx2_reduce_add_wide_pd_correct : InstrCorrect avx2_reduce_add_wide_pd.instr := by c14_lane avx2_reduce_add_wide_pd
example : Admissible avx2_reduce_add_wide_pd.proc (stateOf avx2_reduce_add_wide_pd.proc cv0 pl0 heap0 []) := by c14_adm avx2_reduce_add_wide_pd

theorem avx2_reg_copy_ps_correct : InstrCorrect avx2_reg_copy_ps.instr := by c14_lane avx2_reg_copy_ps
example : Admissible avx2_reg_copy_ps.proc (stateOf avx2_reg_copy_ps.proc cv0 pl0 heap0 []) := by c14_adm avx2_reg_copy_ps

theorem avx2_reg_copy_pd_correct : InstrCorrect avx2_reg_copy_pd.instr := by c14_lane avx2_reg_copy_pd
example : Admissible avx2_reg_copy_pd.proc (stateOf avx2_reg_copy_pd.proc cv0 pl0 heap0 []) := by c14_adm avx2_reg_copy_pd

theorem avx2_convert_f32_lower_to_f64_correct : InstrCorrect avx2_convert_f32_lower_to_f64.instr := by c14_lane avx2_convert_f32_lower_to_f64
example : Admissible avx2_convert_f32_lower_to_f64.proc (stateOf avx2_convert_f32_lower_to_f64.proc cv0 pl0 heap0 []) := by c14_adm avx2_convert_f32_lower_to_f64

theorem avx2_convert_f32_upper_to_f64_correct : InstrCorrect avx2_convert_f32_upper_to_f64.instr := by c14_lane avx2_convert_f32_upper_to_f64
example : Admissible avx2_convert_f32_upper_to_f64.proc (stateOf avx2_convert_f32_upper_to_f64.proc cv0 pl0 heap0 []) := by c14_adm avx2_convert_f32_upper_to_f64

end Exo.C14
