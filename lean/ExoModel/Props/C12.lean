/-
  C12 — simplify preserves the value of every index expression.

  Model: `ExoModel.Simplify` (literal mirror of `_DoNormalize` + `DoSimplify`).
  The range analysis enters as an oracle assumed sound (`Oracle.Sound`; C13 proves the analysis).

  `modulo_simplification` asks the range analysis for `0 ≤ e < m` since commit d86c98ae (finding F2 fixed);
  `prefix_modulo_rewrite_without_lower_bound_false` records why the lower bound is needed.

  The property at full strength is still FALSE for the faithful model, for three reasons, each proved
  below on a concrete witness and replayed on the real code by harness/props/c12.py:
    * the fact table is keyed by printed text: a shadowing name hits it      (finding F14)
    * `is_quotient_remainder` compares by printed text as well               (found while building C12)
    * a fact about a config field survives a write to that field             (found while building C12)
  The `_partial` theorems carry exactly the hypotheses that exclude these: `NoClash` / `Scoped`
  (no two symbols in scope print alike; no config write inside a then-branch).
-/
import ExoModel.Lemmas.SimplifyWitness

namespace Exo.Simplify
open Exo (Sym)

/-! ## 1. the linear normal form -/

/-- `get_normalized_expr` + `generate_loopIR`: rewriting an affine expression as
    `c + k₁·x₁ ± …` (terms sorted by `(coeff, Sym)`) preserves its value — for all expressions, valuations. -/
theorem normal_form_preserves_value (ρ : Val) (e e' : Expr) (h : normalForm e = some e') :
    eval ρ e' = eval ρ e :=
  normalForm_sound ρ e e' h

example : normalForm (.bin .sub (.bin .mul (.const 3) (.bin .sub (.var wi) (.var wn))) (.usub (.var wi)))
    = some (.bin .add (.bin .sub (.const 0) (.bin .mul (.const 3) (.var wn))) (.bin .mul (.const 4) (.var wi))) := by
  decide

/-! ## 2. division and modulo rewrites -/

/-- `division_simplification` (all four exits) and the denominator-splitting loop: `lhs / d` is replaced
    by an expression with the same value, for every valuation the (sound) range oracle speaks about. -/
theorem division_rewrite_preserves_value (O : Oracle) (P : Val → Prop) (hS : O.Sound P) (ρ : Val) (hρ : P ρ)
    (lhs : Expr) (d : Int) (hd : 0 < d) (e' : Expr) (h : divSplit O lhs d = some e') :
    eval ρ e' = eval ρ lhs / d :=
  divSplit_sound O P hS ρ hρ lhs d hd e' h

/-- `division_denominator_simplification`: `(x / c₁) / c₂ ↦ x / (c₁·c₂)` for positive literals. -/
theorem denominator_merge_preserves_value (ρ : Val) (x : Expr) (c : Int) (hx : x.WF) :
    eval ρ (denomLoop x c) = eval ρ x / c :=
  denomLoop_sound ρ x c hx

example : denomLoop (.bin .div (.bin .div (.var wn) (.const 2)) (.const 3)) 4 = .bin .div (.var wn) (.const 24) := by
  decide

/-- `modulo_simplification`: `lhs % m` is replaced by an expression of the same value (multiples of `m`
    dropped; `% m` dropped only when the sound oracle answers `0 ≤ e < m`). -/
theorem modulo_rewrite_preserves_value (O : Oracle) (P : Val → Prop) (hS : O.Sound P)
    (ρ : Val) (hρ : P ρ) (lhs : Expr) (m : Int) (hm : 0 < m) (e' : Expr)
    (h : modSimp O lhs m = some e') : eval ρ e' = eval ρ lhs % m :=
  modSimp_sound O P hS ρ hρ lhs m hm e' h

/-- the fixed code keeps the `%` of the old F2 witness even for an oracle that answers `-3 + i < 8` -/
example : modSimp (wOracle wScope) (.bin .sub (.var wi) (.const 3)) 8 = some (.bin .mod wTarget (.const 8)) := by
  decide

/-- About the PRE-FIX code (before d86c98ae, finding F2), kept to document why the query needs `0 ≤ e`:
    with only `e < m` asked (`modSimpPreFix`), a sound oracle, `(i - 3) % 8` with `i ∈ [0,4)` became `-3 + i`. -/
theorem prefix_modulo_rewrite_without_lower_bound_false :
    ¬ (∀ (O : Oracle) (P : Val → Prop), O.Sound P → ∀ (ρ : Val), P ρ → ∀ (lhs : Expr) (m : Int), 0 < m →
        ∀ e', modSimpPreFix O lhs m = some e' → eval ρ e' = eval ρ lhs % m) := by
  intro H
  have hS : (wOracle wScope).Sound (Reach (fun _ => True) wScope) := wOracle_sound wScope
  have hR : Reach (fun _ => True) wScope ⟨setSym (fun _ => 0) wi 0, fun _ _ => 0⟩ :=
    Reach.bind (ρ := ⟨fun _ => 0, fun _ _ => 0⟩) wi (.const 0) (.const 4) 0 (Reach.base trivial) (by decide) (by decide)
  have := H _ _ hS _ hR (.bin .sub (.var wi) (.const 3)) 8 (by decide) wTarget (by decide)
  revert this
  decide

/-! ## 3. constant folding, unit laws, quotient–remainder recombination -/

/-- `cfold` (integer `/` is floor division) and every rule of `map_binop` preserve the value;
    `is_quotient_remainder` (`N % K + K * (N / K) ↦ N`, compared by printed text) does so when no two
    symbols of the scope `V` print alike. -/
theorem map_binop_preserves_value (nodeEq : Expr → Expr → Bool) (hEq : ∀ a b, nodeEq a b = true → a = b)
    (V : List Sym) (hV : NoClash V) (ρ : Val) (op : Op) (l r e' : Expr) (hl : Over V l) (hr : Over V r)
    (h : mapBinop nodeEq op l r = some e') : eval ρ e' = evalOp op (eval ρ l) (eval ρ r) :=
  (mapBinop_sound nodeEq hEq V hV ρ op l r e' hl hr h).1

example : mapBinop noEq .add (.bin .mod (.var wn) (.const 4)) (.bin .mul (.const 4) (.bin .div (.var wn) (.const 4)))
    = some (.var wn) := by decide

example : mapBinop noEq .div (.const (-7)) (.const 2) = some (.const (-4)) := by decide

/-- mismatched divisors are not recombined -/
example : mapBinop noEq .add (.bin .mod (.var wn) (.const 4)) (.bin .mul (.const 4) (.bin .div (.var wn) (.const 8)))
    = some (.bin .add (.bin .mod (.var wn) (.const 4)) (.bin .mul (.const 4) (.bin .div (.var wn) (.const 8)))) := by
  decide

/-- FALSE without `NoClash`: `i % 4 + 4 * (i' / 4)` with two different symbols both named `i`
    (what `inline` produces from a callee that uses the same loop name) is recombined to `i`. -/
theorem quotient_remainder_unscoped_false_same_name :
    ¬ (∀ (nodeEq : Expr → Expr → Bool), (∀ a b, nodeEq a b = true → a = b) →
        ∀ (ρ : Val) (op : Op) (l r e' : Expr), mapBinop nodeEq op l r = some e' →
        eval ρ e' = evalOp op (eval ρ l) (eval ρ r)) := by
  intro H
  have := H noEq noEq_ok ⟨fun s => if s = wi then 1 else 5, fun _ _ => 0⟩ .add
    (.bin .mod (.var wi) (.const 4)) (.bin .mul (.const 4) (.bin .div (.var wi2) (.const 4))) (.var wi) (by decide)
  revert this
  decide

/-! ## 4. the fact table -/

/-- a hit in the fact table replaces an expression by one of the same value, provided the facts hold at
    the valuation and no two symbols in scope print alike. -/
theorem fact_lookup_preserves_value (V : List Sym) (hV : NoClash V) (ρ : Val) (F : Facts) (hF : FactsOK V ρ F)
    (e c : Expr) (ho : Over V e) (h : isKnown F e = some c) : eval ρ c = eval ρ e :=
  (isKnown_sound V hV ρ F hF e c ho h).1

/-- the facts `add_fact` derives from a branch condition hold wherever the condition holds
    (`X == c`, `c == X`, and `X / M == 0 ⟹ X % M == X`). -/
theorem add_fact_sound (V : List Sym) (ρ : Val) (F : Facts) (hF : FactsOK V ρ F) (cond : Expr)
    (ho : Over V cond) (hc : eval ρ cond ≠ 0) : FactsOK V ρ (addFact cond F) :=
  addFact_ok V ρ F hF cond ho hc

example : isKnown (addFact (.bin .eq (.bin .div (.var wn) (.const 4)) (.const 0)) []) (.bin .mod (.var wn) (.const 4))
    = some (.var wn) := by decide

/-! ## 5. one expression through the whole pipeline -/

/-- `simplify` on an index / bound / size / condition expression: `_DoNormalize.map_e` then
    `DoSimplify.map_e` with branch facts `F`.  For ALL expressions, oracles, fact tables, valuations.
    `_partial`: needs `NoClash` (F14, same-name recombination); `FactsOK` is the invariant the statement layer
    maintains (it fails to under a config write, see `simplifyB_unscoped_false_cfg_write`). -/
theorem simplifyE_preserves_value_partial (O : Oracle) (P : Val → Prop) (hS : O.Sound P)
    (nodeEq : Expr → Expr → Bool) (hEq : ∀ a b, nodeEq a b = true → a = b)
    (V : List Sym) (hV : NoClash V) (F : Facts) (ρ : Val) (hρ : P ρ) (hF : FactsOK V ρ F)
    (e e' : Expr) (hw : e.WF) (ho : Over V e) (h : simplifyE O nodeEq F e = some e') :
    eval ρ e' = eval ρ e := by
  unfold simplifyE at h
  split at h
  · rename_i e1 h1
    obtain ⟨a, _⟩ := normE_sound_WF O P hS ρ hρ e e1 hw h1
    have o1 := normE_over V O e e1 ho h1
    rw [(simpE_sound nodeEq hEq V hV ρ F hF e1 e' o1 h).1, a]
  · cases h

example : simplifyE (xOracle wScope) noEq (addFact (.bin .eq (.var wn) (.const 4)) [])
    (.bin .add (.bin .mod (.bin .add (.var wi) (.const 8)) (.const 8)) (.bin .div (.var wn) (.const 2)))
    = some (.bin .add (.var wi) (.const 2)) := by decide

/-- a branch is removed only if its condition has the same truth value for every admitted valuation -/
theorem dead_branch_never_taken_partial (O : Oracle) (P : Val → Prop) (hS : O.Sound P)
    (nodeEq : Expr → Expr → Bool) (hEq : ∀ a b, nodeEq a b = true → a = b)
    (V : List Sym) (hV : NoClash V) (F : Facts) (ρ : Val) (hρ : P ρ) (hF : FactsOK V ρ F)
    (c c' : Expr) (hw : c.WF) (ho : Over V c) (h : simplifyE O nodeEq F c = some c') (b : Bool)
    (hb : constCond c' = some b) : (eval ρ c ≠ 0) ↔ b = true := by
  rw [← simplifyE_preserves_value_partial O P hS nodeEq hEq V hV F ρ hρ hF c c' hw ho h]
  exact constCond_eval ρ c' b hb

/-- a loop is removed only if its trip count is zero for every admitted valuation -/
theorem dead_loop_never_runs_partial (O : Oracle) (P : Val → Prop) (hS : O.Sound P)
    (nodeEq : Expr → Expr → Bool) (hEq : ∀ a b, nodeEq a b = true → a = b)
    (V : List Sym) (hV : NoClash V) (F : Facts) (ρ : Val) (hρ : P ρ) (hF : FactsOK V ρ F)
    (lo hi lo' hi' : Expr) (hwl : lo.WF) (hwh : hi.WF) (hol : Over V lo) (hoh : Over V hi)
    (hl : simplifyE O nodeEq F lo = some lo') (hh : simplifyE O nodeEq F hi = some hi')
    (hc : constEq lo' hi' = true) : (eval ρ hi - eval ρ lo).toNat = 0 := by
  have a := simplifyE_preserves_value_partial O P hS nodeEq hEq V hV F ρ hρ hF lo lo' hwl hol hl
  have b := simplifyE_preserves_value_partial O P hS nodeEq hEq V hV F ρ hρ hF hi hi' hwh hoh hh
  have := constEq_eval ρ lo' hi' hc
  omega

/-! ## 6. whole procedure bodies -/

/-- `simplify` on a procedure body leaves the sequence of observed index tuples (every index of every
    executed access, allocation size, call argument) and the final configuration unchanged, for every
    valuation of the arguments in `P`: hence every index/bound/size/condition expression that is evaluated
    keeps its value, a removed branch is never taken and a removed loop never runs.
    `_partial`: `Scoped` excludes name clashes at loop binders (F14) and config writes inside
    then-branches; without it the statement is false (two witnesses below). -/
theorem simplifyB_preserves_trace_partial (O : OracleS) (P : Val → Prop)
    (hS : ∀ sc, (O sc).Sound (Reach P sc))
    (nodeEq : Expr → Expr → Bool) (hEq : ∀ a b, nodeEq a b = true → a = b)
    (V : List Sym) (hV : NoClash V) (b b2 : Block) (hw : b.WF) (hs : b.Scoped V false)
    (h : simplifyB O nodeEq b = some b2) (r : Sym → Int) (σ : CfgSt) (hP : P ⟨r, σ⟩) :
    execB b2 r σ = execB b r σ := by
  unfold simplifyB at h
  split at h
  · rename_i b1 h1
    have e1 := normB_sound O P hS b [] b1 hw h1 r σ (Reach.base hP)
    have s1 := normB_scoped O V false b [] b1 hs h1
    simp only [simpB, Option.map_eq_some_iff] at h
    obtain ⟨b3, h3, rfl⟩ := h
    rw [execB_orPass, ← e1]
    refine simpL_sound nodeEq hEq b1 V false [] b3 hV s1 h3 r σ ?_
    simp only [FInv, Bool.false_eq_true, if_false]
    intro σ' k v hm; cases hm
  · cases h

/-- non-vacuity: a program on which the oracle, both passes, the fact table, dead-branch and dead-loop
    removal all do something, and all hypotheses hold -/
example : simplifyB xOracle noEq xProg = some
    (.cons (.loop wi (.const 0) (.const 4)
      (.cons (.obs [.var wi, .var wi])
      (.cons (.ite (.bin .eq (.var wn) (.const 4)) (.cons (.obs [.const 1]) .nil) (.cons .pass .nil)) .nil))) .nil) := by
  decide

example (r : Sym → Int) (σ : CfgSt) (hn : 1 ≤ r wn) (b2 : Block) (h : simplifyB xOracle noEq xProg = some b2) :
    execB b2 r σ = execB xProg r σ :=
  simplifyB_preserves_trace_partial xOracle (fun ρ => 1 ≤ ρ.sym wn) xOracle_sound noEq noEq_ok
    [wn] noClash_wn xProg b2 xProg_WF xProg_scoped h r σ hn

/-- the old F2 witness `for i in seq(0,4): x[(i - 3) % 8]` under the oracle that answers `-3 + i < 8`:
    the fixed code keeps the `%`, and the theorem applies (all hypotheses hold) -/
example : simplifyB wOracle noEq wProgF2 = some (.cons (.loop wi (.const 0) (.const 4)
    (.cons (.obs [.bin .mod (.bin .add (.const (-3)) (.var wi)) (.const 8)]) .nil)) .nil) := by decide

example (r : Sym → Int) (σ : CfgSt) (b2 : Block) (h : simplifyB wOracle noEq wProgF2 = some b2) :
    execB b2 r σ = execB wProgF2 r σ :=
  simplifyB_preserves_trace_partial wOracle (fun _ => True) wOracle_sound noEq noEq_ok [] (by intro a ha; cases ha)
    wProgF2 b2 wProgF2_WF wProgF2_scoped h r σ trivial

/-- FALSE without the scoping discipline, witness 1 (finding F14): the oracle never answers, there is no
    `%`; `if i == 0:` rewrites the inner, shadowing `i` to `0`. -/
theorem simplifyB_unscoped_false_shadowed_name :
    ¬ (∀ (O : OracleS) (P : Val → Prop), (∀ sc, (O sc).Sound (Reach P sc)) →
        ∀ (nodeEq : Expr → Expr → Bool), (∀ a b, nodeEq a b = true → a = b) →
        ∀ (b b2 : Block), b.WF →
        simplifyB O nodeEq b = some b2 → ∀ (r : Sym → Int) (σ : CfgSt), P ⟨r, σ⟩ →
        execB b2 r σ = execB b r σ) := by
  intro H
  have := H noOracle (fun _ => True) (noOracle_sound _) noEq noEq_ok
    wProgF14 _ wProgF14_WF (by decide :
      simplifyB noOracle noEq wProgF14 = some (.cons (.loop wi (.const 0) (.const 4)
        (.cons (.ite (.bin .eq (.var wi) (.const 0))
          (.cons (.loop wi2 (.const 0) (.const 8) (.cons (.obs [.const 0]) .nil)) .nil) .nil) .nil)) .nil))
    (fun _ => 0) (fun _ _ => 0) trivial
  have := congrArg Prod.fst this
  revert this
  decide

/-- FALSE without the scoping discipline, witness 2: `if Cfg.a == 3: Cfg.a = 4; x[Cfg.a]` becomes `…; x[3]`. -/
theorem simplifyB_unscoped_false_cfg_write :
    ¬ (∀ (O : OracleS) (P : Val → Prop), (∀ sc, (O sc).Sound (Reach P sc)) →
        ∀ (nodeEq : Expr → Expr → Bool), (∀ a b, nodeEq a b = true → a = b) →
        ∀ (b b2 : Block), b.WF →
        simplifyB O nodeEq b = some b2 → ∀ (r : Sym → Int) (σ : CfgSt), P ⟨r, σ⟩ →
        execB b2 r σ = execB b r σ) := by
  intro H
  have := H noOracle (fun _ => True) (noOracle_sound _) noEq noEq_ok
    wProgCfg _ wProgCfg_WF (by decide :
      simplifyB noOracle noEq wProgCfg = some (.cons (.ite (.bin .eq (.cfg "Cfg" "a") (.const 3))
        (.cons (.wcfg "Cfg" "a" (.const 4)) (.cons (.obs [.const 3]) .nil)) .nil) .nil))
    (fun _ => 0) (fun _ _ => 3) trivial
  have := congrArg Prod.fst this
  revert this
  decide

end Exo.Simplify
