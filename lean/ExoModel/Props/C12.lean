import ExoModel.Simplify
namespace Exo.Simplify
theorem stub : True := trivial
end Exo.Simplify
