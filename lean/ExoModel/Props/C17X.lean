/-
  C17X — cross-check of the LoopIR export: the translation `toPProc` from the exported syntax
  (`ExoModel.Syntax`, what every semantic check sees) to the printer model (`ExoModel.PrintStmt`).

  The check itself is a correspondence run (harness/exportcheck.py: the text printed from the
  export must equal the text the real printer prints from the real LoopIR with the blind fields
  masked).  Proved here: the translation is defined on every procedure without the three listed
  untranslatable forms, and it keeps the statement tree.
-/
import ExoModel.Lemmas.PrintOfSyntaxTotal

namespace Exo.PrintStmt.C17X
open Exo Exo.Print Exo.PrintStmt

/-- PARTIAL (what is missing w.r.t. "the translation loses nothing the semantics uses": the
    statement says nothing about NAMES and about the contents of EXPRESSIONS — `toPProc` cannot be
    injective on symbols in general because the literal `get_name` it uses is not (finding F15,
    `Exo.Print.C17.getName_not_injective`); names and expressions are compared with the real
    printer's text by the correspondence run instead.  Blind by construction: precisions,
    memories, literal spelling, `@instr`).
    For every procedure without `Free`, `int` arguments and misplaced window expressions
    (`okProc`), `toPProc` succeeds, and the result has the procedure's name, as many arguments and
    predicates, and the SAME STATEMENT TREE: statement kinds, loop modes (`seq`/`par`), the
    `if`/`else` branch structure with all nested blocks in order, and the arities of subscripts,
    shapes, call arguments and window accesses. -/
theorem toPProc_faithful_partial (p : Proc) (h : okProc p = true) :
    ∃ q, toPProc p = .ok q ∧ q.name = p.name ∧ q.args.length = p.args.length ∧
      q.preds.length = p.preds.length ∧ shapePL q.body = shapeL p.body := by
  obtain ⟨q, hq⟩ := toPProc_total p h
  exact ⟨q, hq, toPProc_shape p q hq⟩

/-- whenever the translation succeeds (also outside `okProc`) the tree is kept -/
theorem toPProc_keeps_tree (p : Proc) (q : PProc) (h : toPProc p = .ok q) :
    shapePL q.body = shapeL p.body :=
  (toPProc_shape p q h).2.2.2

private def n : Sym := ⟨"n", 1⟩
private def x : Sym := ⟨"x", 2⟩
private def i1 : Sym := ⟨"i", 3⟩
private def i2 : Sym := ⟨"i", 4⟩
private def w : Sym := ⟨"w", 5⟩
private def t : Sym := ⟨"t", 6⟩
private def rd (s : Sym) : Expr := .read s []
private def callee : Proc := .mk "callee" [⟨⟨"m", 7⟩, .ctrl .size⟩, ⟨⟨"y", 8⟩, .tensor [.read ⟨"m", 7⟩ []] true⟩] []
  [.pass]

/-- a procedure with a shadowing loop nest (two symbols `i`), if/else, allocation, window,
    reduction with a data literal, and a call with a window argument -/
def demo : Proc := .mk "demo"
  [⟨n, .ctrl .size⟩, ⟨x, .tensor [rd n, rd n] false⟩]
  [.binop .gt (rd n) (.lit (.int 2))]
  [.alloc t [rd n],
   .loop i1 (.lit (.int 0)) (rd n) [
     .loop i2 (.lit (.int 0)) (rd n) [
       .ite (.binop .lt (rd i1) (rd i2))
         [.reduce x [rd i1, rd i2] (.lit (.data (-3) 2))]
         [.assign t [rd i2] (.usub (.read x [rd i1, rd i2]))]] true,
     .window w (.win x [.point (rd i1), .interval (.lit (.int 0)) (rd n)]),
     .call callee [rd n, .win x [.interval (.lit (.int 0)) (rd n), .point (rd i1)]]] false]

example : okProc demo = true := by decide

/-- the text printed from the exported syntax: names by the model of `get_name` (`i`, `i_1`),
    placeholders `R` / `@DRAM` / `-3/2` at the blind positions -/
example : (match toPProc demo with
    | .ok q => ppProcS .raw 0 q
    | .error e => [e]) =
  ["def demo(n : size, x : R[n, n] @DRAM):",
   "  assert n > 2",
   "  t : R[n] @DRAM",
   "  for i in seq(0, n):",
   "    for i_1 in par(0, n):",
   "      if i < i_1:",
   "        x[i, i_1] += -3/2",
   "      else:",
   "        t[i_1] = -x[i, i_1]",
   "    w = x[i, 0:n]",
   "    callee(n, x[0:n, i])"] := by decide

example : ∃ q, toPProc demo = .ok q ∧ shapePL q.body = shapeL demo.body := by
  obtain ⟨q, h, _, _, _, hs⟩ := toPProc_faithful_partial demo (by decide)
  exact ⟨q, h, hs⟩

/-- outside `okProc` the translation reports the form -/
example : toPProc (.mk "f" [] [] [.free x]) = .error "free" := rfl

end Exo.PrintStmt.C17X
