/-
  C14 — library instructions do what their Exo bodies say (part 4: prefix-masked AVX2 operations).

  One theorem per instruction of ExoModel/Gen/X86Instrs.lean (REGENERATED from exo.platforms.x86 on
  every run), stated with `Exo.X86.InstrCorrect` (ExoModel/X86.lean):

      ∀ lawful data algebra V, extern meaning fixed on relu/select, control values cv, placements
        pl (buffer, offset, stride of every operand), heap, cfg:
        Admissible I.proc σ  →  execB ext I.proc.body σ = execCInstr I σ        (σ = stateOf I.proc cv pl heap cfg)

  `Admissible` = what `execP` checks before it runs the body (sizes positive, declared shapes,
  the instruction's assertions, no aliasing) + every operand window lies inside its buffer.
  Variants: `InstrCorrectInit` additionally assumes every operand cell initialised (blendv reads
  a lane the `select` extern would poison); `InstrCorrectWhen` adds a condition on control values
  (theorems named `_partial`).  `X_refuted : ¬ InstrCorrect X.instr` is a machine-checked
  counterexample: the C fragment of X does NOT do what X's body says (recorded findings).
  After each theorem an `example` shows its hypotheses are satisfiable (state cv0/pl0/heap0).
-/
import ExoModel.Lemmas.C14Tactic

set_option maxRecDepth 8000
namespace Exo.C14
open Exo Exo.X86 Exo.Lane Exo.X86Instrs


theorem mm256_prefix_store_ps_correct : InstrCorrect mm256_prefix_store_ps.instr := by c14_mask mm256_prefix_store_ps
example : Admissible mm256_prefix_store_ps.proc (stateOf mm256_prefix_store_ps.proc cv0 pl0 heap0 []) := by c14_adm mm256_prefix_store_ps

theorem mm256_prefix_add_ps_correct : InstrCorrect mm256_prefix_add_ps.instr := by c14_mask mm256_prefix_add_ps
example : Admissible mm256_prefix_add_ps.proc (stateOf mm256_prefix_add_ps.proc cv0 pl0 heap0 []) := by c14_adm mm256_prefix_add_ps

theorem mm256_prefix_mul_ps_correct : InstrCorrect mm256_prefix_mul_ps.instr := by c14_mask mm256_prefix_mul_ps
example : Admissible mm256_prefix_mul_ps.proc (stateOf mm256_prefix_mul_ps.proc cv0 pl0 heap0 []) := by c14_adm mm256_prefix_mul_ps

theorem mm256_prefix_sub_ps_correct : InstrCorrect mm256_prefix_sub_ps.instr := by c14_mask mm256_prefix_sub_ps
example : Admissible mm256_prefix_sub_ps.proc (stateOf mm256_prefix_sub_ps.proc cv0 pl0 heap0 []) := by c14_adm mm256_prefix_sub_ps

theorem mm256_prefix_div_ps_correct : InstrCorrect mm256_prefix_div_ps.instr := by c14_mask mm256_prefix_div_ps
example : Admissible mm256_prefix_div_ps.proc (stateOf mm256_prefix_div_ps.proc cv0 pl0 heap0 []) := by c14_adm mm256_prefix_div_ps

theorem mm256_prefix_broadcast_ss_correct : InstrCorrect mm256_prefix_broadcast_ss.instr := by c14_mask mm256_prefix_broadcast_ss
example : Admissible mm256_prefix_broadcast_ss.proc (stateOf mm256_prefix_broadcast_ss.proc cv0 pl0 heap0 []) := by c14_adm mm256_prefix_broadcast_ss

theorem mm256_prefix_load_ps_refuted : ¬ InstrCorrect mm256_prefix_load_ps.instr := by c14_refute mm256_prefix_load_ps
example : Admissible mm256_prefix_load_ps.proc (stateOf mm256_prefix_load_ps.proc cv0 pl0 heap0 []) := by c14_adm mm256_prefix_load_ps

theorem avx2_mask_storeu_ps_refuted : ¬ InstrCorrect avx2_mask_storeu_ps.instr := by c14_refute avx2_mask_storeu_ps
example : Admissible avx2_mask_storeu_ps.proc (stateOf avx2_mask_storeu_ps.proc cv0 pl0 heap0 []) := by c14_adm avx2_mask_storeu_ps

theorem mm256_fmadd_ps_broadcast_refuted : ¬ InstrCorrect mm256_fmadd_ps_broadcast.instr := by c14_refute mm256_fmadd_ps_broadcast
example : Admissible mm256_fmadd_ps_broadcast.proc (stateOf mm256_fmadd_ps_broadcast.proc cv0 pl0 heap0 []) := by c14_adm mm256_fmadd_ps_broadcast

end Exo.C14
