/-
  Property C01, part 4 — whole-procedure versions of the conditional rewrite theorems.

  Every per-state theorem of Props/C01.lean, C01Subst.lean, C01Data.lean, C01Alpha.lean is lifted
  through `rewrite_in_context`: the hypotheses about the state are required only of the states
  in which control REACHES the rewritten position (`Reach`), inside any nest of loops, branches
  and surrounding statements; the conclusion is `Equiv ∅` of the two procedures.  Hypotheses about
  the syntax (no configuration reads in bounds, no definitions in a duplicated block, freshness of
  new iterators) stay outside `side`.

  After each theorem: a concrete context and block for which `side` is discharged; where the
  rewrite needs an ordering of loop bounds the fact is available only BECAUSE of the enclosing
  guard `if 0 < n:` (`reach_guardPos`) or loop range (`reach_loopRange`).
-/
import ExoModel.Props.C01
import ExoModel.Props.C01Subst
import ExoModel.Props.C01Data
import ExoModel.Props.C01Alpha
import ExoModel.Lemmas.ContextReach
import ExoModel.Lemmas.ContextData
import ExoModel.Lemmas.ContextChain
import ExoModel.Lemmas.ContextLift

set_option linter.unusedSectionVars false
namespace Exo.C01
open Exo Exo.Rw

/-! ### the contexts and names of the examples -/

namespace CtxEx
def n : Sym := ⟨"n", 1⟩
def i : Sym := ⟨"i", 2⟩
def i2 : Sym := ⟨"i", 3⟩
def j : Sym := ⟨"j", 4⟩
def a : Sym := ⟨"a", 5⟩
def io : Sym := ⟨"io", 6⟩
def ii : Sym := ⟨"ii", 7⟩
def i3 : Sym := ⟨"i3", 8⟩
def k : Sym := ⟨"k", 9⟩
def zero : Expr := .lit (.int 0)
def one : Expr := .lit (.int 1)
def rn : Expr := .read n []
/-- `a[i] = 1` / `a[i2] = 1` -/
def wr (x : Sym) : List Stmt := [.assign a [.read x []] (.lit (.int 1))]
/-- `stmt; if 0 < n: □; pass` — the hole is guarded by `0 < n` -/
def G : Ctx := .seq [.pass] (guardPos n) [.pass]

/-- what every state reaching the hole of `G` knows -/
theorem G_fact {V : Type} [DataAlg V] (ext : String → List V → V) {B : List Stmt} {σ₀ σ : State V}
    (h : Reach ext G B σ₀ σ) :
    evalC σ zero = .ok 0 ∧ evalC σ one = .ok 1 ∧ ∃ v, evalC σ rn = .ok v ∧ 0 < v := by
  obtain ⟨σ₁, _, hr⟩ := reach_seq ext h
  exact ⟨rfl, rfl, reach_guardPos ext hr⟩
end CtxEx

/-! ### cut_loop / join_loops (with the renamed copy the real primitives build) -/

/-- `cut_loop` as the real primitive builds it: the second loop has a fresh iterator `i2` and an
    alpha-renamed copy `body2` of the body (`cut_loop_in_context` of Props/C01.lean has the same
    iterator and body twice) -/
theorem cut_loop_renamed_in_context (C : Ctx) (i i2 : Sym) (lo mid hi : Expr) (body body2 : List Stmt)
    (par : Bool) (nm : String) (args : List FnArg) (preds : List Expr)
    (fm : mid.cfgFree = true) (fh : hi.cfgFree = true)
    (hα : blockEq' [(i, i2)] [] body body2 = true)
    (side : ∀ (V : Type) [DataAlg V] (ext : String → List V → V) (σ₀ σ : State V),
        Reach ext C [.loop i lo hi body par] σ₀ σ →
        ∃ l m h, evalC σ lo = .ok l ∧ evalC σ mid = .ok m ∧ evalC σ hi = .ok h ∧ l ≤ m ∧ m ≤ h) :
    Equiv (fun _ => False)
      (.mk nm args preds (C.fill [.loop i lo hi body par]))
      (.mk nm args preds (C.fill [.loop i lo mid body par, .loop i2 mid hi body2 par])) := by
  refine rewrite_in_context C _ _ nm args preds (fun V _ ext σ₀ σ hr => ?_)
  obtain ⟨l, m, h, hl, hm, hh, hlm, hmh⟩ := side V ext σ₀ σ hr
  rw [cut_loop ext i lo mid hi body par σ l m h hl hm hh hlm hmh fm fh,
    execL_congr_snd ext _ _ _ (fun s => loop_alpha ext i i2 mid hi body body2 par par hα s) σ]
  exact ExLe.refl _

/-- `for i in [0, n)` cut at `1` under the guard `0 < n`: `0 ≤ 1 ≤ n` holds only because of the
    guard -/
example : Equiv (fun _ => False)
    (.mk "p" [] [] (CtxEx.G.fill [.loop CtxEx.i CtxEx.zero CtxEx.rn (CtxEx.wr CtxEx.i) false]))
    (.mk "p" [] [] (CtxEx.G.fill [.loop CtxEx.i CtxEx.zero CtxEx.one (CtxEx.wr CtxEx.i) false,
      .loop CtxEx.i2 CtxEx.one CtxEx.rn (CtxEx.wr CtxEx.i2) false])) :=
  cut_loop_renamed_in_context CtxEx.G _ _ _ _ _ _ _ _ _ _ _ rfl rfl (by decide +kernel)
    (fun V _ ext σ₀ σ hr => by
      obtain ⟨h0, h1, v, hv, hpos⟩ := CtxEx.G_fact ext hr
      exact ⟨0, 1, v, h0, h1, hv, by omega, by omega⟩)

/-- `join_loops`: two adjacent loops over `[lo, mid)` and `[mid, hi)` whose bodies are equal up
    to the renaming of the iterator (and of the names they define) become one loop, if
    `lo ≤ mid ≤ hi` in every state reaching them -/
theorem join_loops_in_context (C : Ctx) (i i2 : Sym) (lo mid hi : Expr) (body body2 : List Stmt)
    (par par2 : Bool) (nm : String) (args : List FnArg) (preds : List Expr)
    (fm : mid.cfgFree = true) (fh : hi.cfgFree = true)
    (hα : blockEq' [(i, i2)] [] body body2 = true)
    (side : ∀ (V : Type) [DataAlg V] (ext : String → List V → V) (σ₀ σ : State V),
        Reach ext C [.loop i lo mid body par, .loop i2 mid hi body2 par2] σ₀ σ →
        ∃ l m h, evalC σ lo = .ok l ∧ evalC σ mid = .ok m ∧ evalC σ hi = .ok h ∧ l ≤ m ∧ m ≤ h) :
    Equiv (fun _ => False)
      (.mk nm args preds (C.fill [.loop i lo mid body par, .loop i2 mid hi body2 par2]))
      (.mk nm args preds (C.fill [.loop i lo hi body par])) := by
  refine rewrite_in_context C _ _ nm args preds (fun V _ ext σ₀ σ hr => ?_)
  obtain ⟨l, m, h, hl, hm, hh, hlm, hmh⟩ := side V ext σ₀ σ hr
  rw [← execL_congr_snd ext _ _ _ (fun s => loop_alpha ext i i2 mid hi body body2 par par2 hα s) σ,
    join_loops ext i lo mid hi body par σ l m h hl hm hh hlm hmh fm fh]
  exact ExLe.refl _

example : Equiv (fun _ => False)
    (.mk "p" [] [] (CtxEx.G.fill [.loop CtxEx.i CtxEx.zero CtxEx.one (CtxEx.wr CtxEx.i) false,
      .loop CtxEx.i2 CtxEx.one CtxEx.rn (CtxEx.wr CtxEx.i2) false]))
    (.mk "p" [] [] (CtxEx.G.fill [.loop CtxEx.i CtxEx.zero CtxEx.rn (CtxEx.wr CtxEx.i) false])) :=
  join_loops_in_context CtxEx.G _ _ _ _ _ _ _ _ _ _ _ _ rfl rfl (by decide +kernel)
    (fun V _ ext σ₀ σ hr => by
      obtain ⟨h0, h1, v, hv, hpos⟩ := CtxEx.G_fact ext hr
      exact ⟨0, 1, v, h0, h1, hv, by omega, by omega⟩)

/-! ### remove_loop / add_loop -/

/-- `remove_loop`: a loop whose body does not mention the iterator, defines no name and is
    idempotent (run in its scope) is its body, if the loop runs at least once in every state
    reaching it -/
theorem remove_loop_in_context (C : Ctx) (i : Sym) (lo hi : Expr) (body : List Stmt) (par : Bool)
    (nm : String) (args : List FnArg) (preds : List Expr)
    (hocc : occL i body = false) (hn : noDefs body = true)
    (side : ∀ (V : Type) [DataAlg V] (ext : String → List V → V) (σ₀ σ : State V),
        Reach ext C [.loop i lo hi body par] σ₀ σ →
        (∃ l h, evalC σ lo = .ok l ∧ evalC σ hi = .ok h ∧ l < h) ∧
        (∀ s s' : State V, execB ext body s = .ok s' → execB ext body s' = .ok s')) :
    Equiv (fun _ => False)
      (.mk nm args preds (C.fill [.loop i lo hi body par]))
      (.mk nm args preds (C.fill body)) := by
  refine rewrite_in_context C _ _ nm args preds (fun V _ ext σ₀ σ hr => ?_)
  obtain ⟨⟨l, h, hl, hh, hlt⟩, hidem⟩ := side V ext σ₀ σ hr
  rw [execL_singleton, remove_loop ext i lo hi body par σ l h hl hh hlt
      (fun v s => by rw [loopStep_const ext i body hocc, loopStep_const ext i body hocc])
      (fun s s' hs => by rw [loopStep_const ext i body hocc] at hs ⊢; exact hidem s s' hs),
    loopStep_const ext i body hocc, execB_of_noDefs ext hn]
  exact ExLe.refl _

/-- `for i in [0, n): pass` under `0 < n` is `pass` -/
example : Equiv (fun _ => False)
    (.mk "p" [] [] (CtxEx.G.fill [.loop CtxEx.i CtxEx.zero CtxEx.rn [.pass] false]))
    (.mk "p" [] [] (CtxEx.G.fill [.pass])) :=
  remove_loop_in_context CtxEx.G _ _ _ _ _ _ _ _ (by decide) (by decide)
    (fun V _ ext σ₀ σ hr => by
      obtain ⟨h0, _, v, hv, hpos⟩ := CtxEx.G_fact ext hr
      exact ⟨⟨0, v, h0, hv, hpos⟩, fun s s' _ => by rw [execB_pass]⟩)

/-- the guarded form `if hi > lo: body` that `remove_loop` builds when it cannot prove that the
    loop runs: no positivity needed (only `lo ≤ hi`), no `noDefs` needed (the `if` is a scope) -/
theorem remove_loop_guarded_in_context (C : Ctx) (i : Sym) (lo hi : Expr) (body : List Stmt)
    (par : Bool) (nm : String) (args : List FnArg) (preds : List Expr)
    (hocc : occL i body = false)
    (side : ∀ (V : Type) [DataAlg V] (ext : String → List V → V) (σ₀ σ : State V),
        Reach ext C [.loop i lo hi body par] σ₀ σ →
        (∃ l h, evalC σ lo = .ok l ∧ evalC σ hi = .ok h ∧ l ≤ h) ∧
        (∀ s s' : State V, execB ext body s = .ok s' → execB ext body s' = .ok s')) :
    Equiv (fun _ => False)
      (.mk nm args preds (C.fill [.loop i lo hi body par]))
      (.mk nm args preds (C.fill [.ite (.binop .gt hi lo) body []])) := by
  refine rewrite_in_context C _ _ nm args preds (fun V _ ext σ₀ σ hr => ?_)
  obtain ⟨⟨l, h, hl, hh, hle⟩, hidem⟩ := side V ext σ₀ σ hr
  rw [execL_singleton, execL_singleton]
  by_cases hlt : l < h
  · rw [remove_loop ext i lo hi body par σ l h hl hh hlt
      (fun v s => by rw [loopStep_const ext i body hocc, loopStep_const ext i body hocc])
      (fun s s' hs => by rw [loopStep_const ext i body hocc] at hs ⊢; exact hidem s s' hs),
      loopStep_const ext i body hocc]
    have hc : evalC σ (.binop .gt hi lo) = .ok 1 := by
      simp [evalC, hl, hh, bind, Except.bind, ctrlOp, pure, Except.pure, b2i, hlt]
    rw [dead_else ext _ body [] σ 1 hc (by decide)]
    exact ExLe.refl _
  · have e : h = l := by omega
    subst e
    rw [dead_loop ext i lo hi body par σ h hl hh]
    have hc : evalC σ (.binop .gt hi lo) = .ok 0 := by
      simp [evalC, hl, hh, bind, Except.bind, ctrlOp, pure, Except.pure, b2i]
    rw [dead_then ext _ body [] σ hc]
    simp only [execB, execL, pure, Except.pure, Except.map, State.leave, List.take_length]
    exact ExLe.refl _

example : Equiv (fun _ => False)
    (.mk "p" [] [] (CtxEx.G.fill [.loop CtxEx.i CtxEx.zero CtxEx.rn [.pass] false]))
    (.mk "p" [] [] (CtxEx.G.fill [.ite (.binop .gt CtxEx.rn CtxEx.zero) [.pass] []])) :=
  remove_loop_guarded_in_context CtxEx.G _ _ _ _ _ _ _ _ (by decide)
    (fun V _ ext σ₀ σ hr => by
      obtain ⟨h0, _, v, hv, hpos⟩ := CtxEx.G_fact ext hr
      exact ⟨⟨0, v, h0, hv, by omega⟩, fun s s' _ => by rw [execB_pass]⟩)

/-- `add_loop` (unguarded shape `Rw.addLoop i hi false`): a statement that does not mention `i`,
    defines no name and is idempotent may be wrapped in `for i in [0, hi)`, if `hi > 0` in every
    state reaching it -/
theorem add_loop_in_context (C : Ctx) (i : Sym) (hi : Expr) (s : Stmt)
    (nm : String) (args : List FnArg) (preds : List Expr)
    (hocc : occL i [s] = false) (hn : noDefs [s] = true)
    (side : ∀ (V : Type) [DataAlg V] (ext : String → List V → V) (σ₀ σ : State V),
        Reach ext C [s] σ₀ σ →
        (∃ h, evalC σ hi = .ok h ∧ 0 < h) ∧
        (∀ t t' : State V, execB ext [s] t = .ok t' → execB ext [s] t' = .ok t')) :
    Equiv (fun _ => False)
      (.mk nm args preds (C.fill [s]))
      (.mk nm args preds (C.fill [.loop i (.lit (.int 0)) hi [s] false])) := by
  refine rewrite_in_context C _ _ nm args preds (fun V _ ext σ₀ σ hr => ?_)
  obtain ⟨⟨h, hh, hpos⟩, hidem⟩ := side V ext σ₀ σ hr
  rw [execL_singleton (s := .loop _ _ _ _ _),
    remove_loop ext i (.lit (.int 0)) hi [s] false σ 0 h rfl hh hpos
      (fun v t => by rw [loopStep_const ext i [s] hocc, loopStep_const ext i [s] hocc])
      (fun t t' ht => by rw [loopStep_const ext i [s] hocc] at ht ⊢; exact hidem t t' ht),
    loopStep_const ext i [s] hocc, execB_of_noDefs ext hn]
  exact ExLe.refl _

example : Equiv (fun _ => False)
    (.mk "p" [] [] (CtxEx.G.fill [.pass]))
    (.mk "p" [] [] (CtxEx.G.fill [.loop CtxEx.i (.lit (.int 0)) CtxEx.rn [.pass] false])) :=
  add_loop_in_context CtxEx.G _ _ _ _ _ _ (by decide) (by decide)
    (fun V _ ext σ₀ σ hr => by
      obtain ⟨_, _, v, hv, hpos⟩ := CtxEx.G_fact ext hr
      exact ⟨⟨v, hv, hpos⟩, fun s s' _ => by rw [execB_pass]⟩)

/-! ### fission / fuse -/

/-- `fission` as the real primitive builds it (second loop with fresh iterator `i2` and the
    alpha-renamed tail `B2` of the body) -/
theorem fission_in_context (C : Ctx) (i i2 : Sym) (lo hi : Expr) (A B B2 : List Stmt) (par : Bool)
    (nm : String) (args : List FnArg) (preds : List Expr)
    (fl : lo.cfgFree = true) (fh : hi.cfgFree = true) (hn : noDefs A = true)
    (hα : blockEq' [(i, i2)] [] B B2 = true)
    (side : ∀ (V : Type) [DataAlg V] (ext : String → List V → V) (σ₀ σ : State V),
        Reach ext C [.loop i lo hi (A ++ B) par] σ₀ σ →
        (∃ l h, evalC σ lo = .ok l ∧ evalC σ hi = .ok h ∧ l ≤ h) ∧
        (∀ v w, v < w → ∀ s : State V,
          ExEq (loopStep ext i B v s >>= loopStep ext i A w)
               (loopStep ext i A w s >>= loopStep ext i B v))) :
    Equiv (fun _ => False)
      (.mk nm args preds (C.fill [.loop i lo hi (A ++ B) par]))
      (.mk nm args preds (C.fill [.loop i lo hi A par, .loop i2 lo hi B2 par])) := by
  refine rewrite_in_context C _ _ nm args preds (fun V _ ext σ₀ σ hr => ?_)
  obtain ⟨⟨l, h, hl, hh, hle⟩, hc⟩ := side V ext σ₀ σ hr
  rw [← execL_congr_snd ext _ _ _ (fun s => loop_alpha ext i i2 lo hi B B2 par par hα s) σ]
  exact (fission ext i lo hi A B par σ l h hl hh hle fl fh hn hc).le

example : Equiv (fun _ => False)
    (.mk "p" [] [] (CtxEx.G.fill [.loop CtxEx.i CtxEx.zero CtxEx.rn ([.pass] ++ [.pass]) false]))
    (.mk "p" [] [] (CtxEx.G.fill [.loop CtxEx.i CtxEx.zero CtxEx.rn [.pass] false,
      .loop CtxEx.i2 CtxEx.zero CtxEx.rn [.pass] false])) :=
  fission_in_context CtxEx.G _ _ _ _ _ _ _ _ _ _ _ rfl rfl (by decide) (by decide +kernel)
    (fun V _ ext σ₀ σ hr => by
      obtain ⟨h0, _, v, hv, hpos⟩ := CtxEx.G_fact ext hr
      exact ⟨⟨0, v, h0, hv, by omega⟩, fun _ _ _ s => by
        simp only [loopStep_pass, bind, Except.bind]; exact ExEq.refl _⟩)

/-- `fuse` of two loops with the same bounds (the second with its own iterator `i2`; its body
    `B2`, renamed to the first iterator, is the tail `B` of the fused body) -/
theorem fuse_loops_in_context (C : Ctx) (i i2 : Sym) (lo hi : Expr) (A B B2 : List Stmt)
    (par par2 : Bool) (nm : String) (args : List FnArg) (preds : List Expr)
    (fl : lo.cfgFree = true) (fh : hi.cfgFree = true) (hn : noDefs A = true)
    (hα : blockEq' [(i2, i)] [] B2 B = true)
    (side : ∀ (V : Type) [DataAlg V] (ext : String → List V → V) (σ₀ σ : State V),
        Reach ext C [.loop i lo hi A par, .loop i2 lo hi B2 par2] σ₀ σ →
        (∃ l h, evalC σ lo = .ok l ∧ evalC σ hi = .ok h ∧ l ≤ h) ∧
        (∀ v w, v < w → ∀ s : State V,
          ExEq (loopStep ext i B v s >>= loopStep ext i A w)
               (loopStep ext i A w s >>= loopStep ext i B v))) :
    Equiv (fun _ => False)
      (.mk nm args preds (C.fill [.loop i lo hi A par, .loop i2 lo hi B2 par2]))
      (.mk nm args preds (C.fill [.loop i lo hi (A ++ B) par])) := by
  refine rewrite_in_context C _ _ nm args preds (fun V _ ext σ₀ σ hr => ?_)
  obtain ⟨⟨l, h, hl, hh, hle⟩, hc⟩ := side V ext σ₀ σ hr
  rw [execL_congr_snd ext _ _ _ (fun s => loop_alpha ext i2 i lo hi B2 B par2 par hα s) σ]
  exact (fission ext i lo hi A B par σ l h hl hh hle fl fh hn hc).symm.le

example : Equiv (fun _ => False)
    (.mk "p" [] [] (CtxEx.G.fill [.loop CtxEx.i CtxEx.zero CtxEx.rn [.pass] false,
      .loop CtxEx.i2 CtxEx.zero CtxEx.rn [.pass] true]))
    (.mk "p" [] [] (CtxEx.G.fill [.loop CtxEx.i CtxEx.zero CtxEx.rn ([.pass] ++ [.pass]) false])) :=
  fuse_loops_in_context CtxEx.G _ _ _ _ _ _ _ _ _ _ _ _ rfl rfl (by decide) (by decide +kernel)
    (fun V _ ext σ₀ σ hr => by
      obtain ⟨h0, _, v, hv, hpos⟩ := CtxEx.G_fact ext hr
      exact ⟨⟨0, v, h0, hv, by omega⟩, fun _ _ _ s => by
        simp only [loopStep_pass, bind, Except.bind]; exact ExEq.refl _⟩)

/-- `fuse` of two `if`s with the same condition: the first must leave the condition unchanged
    and its branches must define no name -/
theorem fuse_if_in_context (C : Ctx) (c : Expr) (t e t' e' : List Stmt)
    (nm : String) (args : List FnArg) (preds : List Expr)
    (hnt : noDefs t = true) (hne : noDefs e = true)
    (side : ∀ (V : Type) [DataAlg V] (ext : String → List V → V) (σ₀ σ : State V),
        Reach ext C [.ite c t e, .ite c t' e'] σ₀ σ →
        ∃ b, evalC σ c = .ok b ∧ ∀ σ1, execS ext (.ite c t e) σ = .ok σ1 → evalC σ1 c = .ok b) :
    Equiv (fun _ => False)
      (.mk nm args preds (C.fill [.ite c t e, .ite c t' e']))
      (.mk nm args preds (C.fill [.ite c (t ++ t') (e ++ e')])) := by
  refine rewrite_in_context C _ _ nm args preds (fun V _ ext σ₀ σ hr => ?_)
  obtain ⟨b, hc, hst⟩ := side V ext σ₀ σ hr
  rw [fuse_if ext c t e t' e' σ b hc hnt hne hst, execL_singleton]
  exact ExLe.refl _

/-- two `if 0 < n` inside the guard `if 0 < n`: the condition is evaluable because of the guard,
    and `pass` does not change it -/
example : Equiv (fun _ => False)
    (.mk "p" [] [] (CtxEx.G.fill [.ite (.binop .lt CtxEx.zero CtxEx.rn) [.pass] [],
      .ite (.binop .lt CtxEx.zero CtxEx.rn) (CtxEx.wr CtxEx.n) []]))
    (.mk "p" [] [] (CtxEx.G.fill [.ite (.binop .lt CtxEx.zero CtxEx.rn) ([.pass] ++ CtxEx.wr CtxEx.n)
      ([] ++ [])])) :=
  fuse_if_in_context CtxEx.G _ _ _ _ _ _ _ _ (by decide) (by decide)
    (fun V _ ext σ₀ σ hr => by
      obtain ⟨h0, _, v, hv, hpos⟩ := CtxEx.G_fact ext hr
      have hc : evalC σ (.binop .lt CtxEx.zero CtxEx.rn) = .ok 1 := by
        simp [evalC, h0, hv, bind, Except.bind, ctrlOp, pure, Except.pure, b2i, hpos]
      refine ⟨1, hc, fun σ1 h1 => ?_⟩
      rw [dead_else ext _ _ _ σ 1 hc (by decide), execB_pass] at h1
      cases h1
      exact hc)

/-! ### specialize / eliminate_dead_code -/

/-- `specialize`: a block that defines no name may be duplicated under `if c:` / `else:`, if `c`
    is evaluable in every state reaching it -/
theorem specialize_in_context (C : Ctx) (c : Expr) (B : List Stmt)
    (nm : String) (args : List FnArg) (preds : List Expr) (hn : noDefs B = true)
    (side : ∀ (V : Type) [DataAlg V] (ext : String → List V → V) (σ₀ σ : State V),
        Reach ext C B σ₀ σ → ∃ b, evalC σ c = .ok b) :
    Equiv (fun _ => False)
      (.mk nm args preds (C.fill B)) (.mk nm args preds (C.fill [.ite c B B])) := by
  refine rewrite_in_context C _ _ nm args preds (fun V _ ext σ₀ σ hr => ?_)
  obtain ⟨b, hc⟩ := side V ext σ₀ σ hr
  rw [execL_singleton, specialize ext c B hn σ b hc]
  exact ExLe.refl _

/-- `n == 1` is evaluable under the guard that mentions `n` (in a state that does not bind `n`
    the specialised procedure would raise `scope` where the original ran) -/
example : Equiv (fun _ => False)
    (.mk "p" [] [] (CtxEx.G.fill (CtxEx.wr CtxEx.n)))
    (.mk "p" [] [] (CtxEx.G.fill [.ite (.binop .eq CtxEx.rn CtxEx.one) (CtxEx.wr CtxEx.n)
      (CtxEx.wr CtxEx.n)])) :=
  specialize_in_context CtxEx.G _ _ _ _ _ (by decide)
    (fun V _ ext σ₀ σ hr => by
      obtain ⟨_, h1, v, hv, _⟩ := CtxEx.G_fact ext hr
      exact ⟨b2i (v = 1), by
        simp only [evalC, h1, hv, bind, Except.bind, ctrlOp, pure, Except.pure]⟩)

/-- `eliminate_dead_code`, condition true in every state reaching the `if`: the `then` block
    (which must define no name: it is spliced into the enclosing block) -/
theorem dead_else_in_context (C : Ctx) (c : Expr) (t e : List Stmt)
    (nm : String) (args : List FnArg) (preds : List Expr) (hn : noDefs t = true)
    (side : ∀ (V : Type) [DataAlg V] (ext : String → List V → V) (σ₀ σ : State V),
        Reach ext C [.ite c t e] σ₀ σ → ∃ b, evalC σ c = .ok b ∧ b ≠ 0) :
    Equiv (fun _ => False)
      (.mk nm args preds (C.fill [.ite c t e])) (.mk nm args preds (C.fill t)) := by
  refine rewrite_in_context C _ _ nm args preds (fun V _ ext σ₀ σ hr => ?_)
  obtain ⟨b, hc, hb⟩ := side V ext σ₀ σ hr
  rw [execL_singleton, dead_else ext c t e σ b hc hb, execB_of_noDefs ext hn]
  exact ExLe.refl _

/-- `if 0 < n` is always taken inside the guard `if 0 < n` -/
example : Equiv (fun _ => False)
    (.mk "p" [] [] (CtxEx.G.fill [.ite (.binop .lt CtxEx.zero CtxEx.rn) (CtxEx.wr CtxEx.n) [.pass]]))
    (.mk "p" [] [] (CtxEx.G.fill (CtxEx.wr CtxEx.n))) :=
  dead_else_in_context CtxEx.G _ _ _ _ _ _ (by decide)
    (fun V _ ext σ₀ σ hr => by
      obtain ⟨h0, _, v, hv, hpos⟩ := CtxEx.G_fact ext hr
      exact ⟨1, by
        simp [evalC, h0, hv, bind, Except.bind, ctrlOp, pure, Except.pure, b2i, hpos],
        by decide⟩)

/-- … condition false in every state reaching the `if`: the `else` block -/
theorem dead_then_in_context (C : Ctx) (c : Expr) (t e : List Stmt)
    (nm : String) (args : List FnArg) (preds : List Expr) (hn : noDefs e = true)
    (side : ∀ (V : Type) [DataAlg V] (ext : String → List V → V) (σ₀ σ : State V),
        Reach ext C [.ite c t e] σ₀ σ → evalC σ c = .ok 0) :
    Equiv (fun _ => False)
      (.mk nm args preds (C.fill [.ite c t e])) (.mk nm args preds (C.fill e)) := by
  refine rewrite_in_context C _ _ nm args preds (fun V _ ext σ₀ σ hr => ?_)
  rw [execL_singleton, dead_then ext c t e σ (side V ext σ₀ σ hr), execB_of_noDefs ext hn]
  exact ExLe.refl _

/-- `if n <= 0` is never taken inside the guard `if 0 < n` -/
example : Equiv (fun _ => False)
    (.mk "p" [] [] (CtxEx.G.fill [.ite (.binop .le CtxEx.rn CtxEx.zero) [.pass] (CtxEx.wr CtxEx.n)]))
    (.mk "p" [] [] (CtxEx.G.fill (CtxEx.wr CtxEx.n))) :=
  dead_then_in_context CtxEx.G _ _ _ _ _ _ (by decide)
    (fun V _ ext σ₀ σ hr => by
      obtain ⟨h0, _, v, hv, hpos⟩ := CtxEx.G_fact ext hr
      have : ¬ v ≤ 0 := by omega
      simp [evalC, h0, hv, bind, Except.bind, ctrlOp, pure, Except.pure, b2i, this])

/-- … a loop whose bounds coincide in every state reaching it disappears -/
theorem dead_loop_in_context (C : Ctx) (i : Sym) (lo hi : Expr) (body : List Stmt) (par : Bool)
    (nm : String) (args : List FnArg) (preds : List Expr)
    (side : ∀ (V : Type) [DataAlg V] (ext : String → List V → V) (σ₀ σ : State V),
        Reach ext C [.loop i lo hi body par] σ₀ σ → ∃ l, evalC σ lo = .ok l ∧ evalC σ hi = .ok l) :
    Equiv (fun _ => False)
      (.mk nm args preds (C.fill [.loop i lo hi body par])) (.mk nm args preds (C.fill [])) := by
  refine rewrite_in_context C _ _ nm args preds (fun V _ ext σ₀ σ hr => ?_)
  obtain ⟨l, hl, hh⟩ := side V ext σ₀ σ hr
  rw [execL_singleton, dead_loop ext i lo hi body par σ l hl hh]
  exact ExLe.refl _

example : Equiv (fun _ => False)
    (.mk "p" [] [] (CtxEx.G.fill [.loop CtxEx.i CtxEx.rn CtxEx.rn (CtxEx.wr CtxEx.i) false]))
    (.mk "p" [] [] (CtxEx.G.fill [])) :=
  dead_loop_in_context CtxEx.G _ _ _ _ _ _ _ _
    (fun V _ ext σ₀ σ hr => by
      obtain ⟨_, _, v, hv, _⟩ := CtxEx.G_fact ext hr
      exact ⟨v, hv, hv⟩)

/-! ### rewrites that re-express the iteration variable -/

/-- `shift_loop` (shape `Rw.shiftLoop nlo`) -/
theorem shift_loop_in_context (C : Ctx) (i : Sym) (lo hi nlo : Expr) (B : List Stmt) (par : Bool)
    (nm : String) (args : List FnArg) (preds : List Expr)
    (elo : lo.envOnly = true) (enlo : nlo.envOnly = true)
    (ilo : lo.occC i = false) (inlo : nlo.occC i = false)
    (hlv : ∀ j ∈ loopVarsL B, (Expr.binop .add (.read i []) (.binop .sub lo nlo)).occC j = false)
    (side : ∀ (V : Type) [DataAlg V] (ext : String → List V → V) (σ₀ σ : State V),
        Reach ext C [.loop i lo hi B par] σ₀ σ →
        ∃ l h n, evalC σ lo = .ok l ∧ evalC σ hi = .ok h ∧ evalC σ nlo = .ok n ∧ l ≤ h) :
    Equiv (fun _ => False)
      (.mk nm args preds (C.fill [.loop i lo hi B par]))
      (.mk nm args preds (C.fill [.loop i nlo (.binop .add nlo (.binop .sub hi lo))
        (substL i (.binop .add (.read i []) (.binop .sub lo nlo)) B) par])) := by
  refine rewrite_in_context C _ _ nm args preds (fun V _ ext σ₀ σ hr => ?_)
  obtain ⟨l, h, n, hl, hh, hn, hle⟩ := side V ext σ₀ σ hr
  rw [execL_singleton, execL_singleton]
  exact ExLe.of_eq (shift_loop ext i lo hi nlo B par σ l h n hl hh hn hle elo enlo ilo inlo hlv).symm

example : Equiv (fun _ => False)
    (.mk "p" [] [] (CtxEx.G.fill [.loop CtxEx.i CtxEx.zero CtxEx.rn (CtxEx.wr CtxEx.i) false]))
    (.mk "p" [] [] (CtxEx.G.fill [.loop CtxEx.i CtxEx.one
      (.binop .add CtxEx.one (.binop .sub CtxEx.rn CtxEx.zero))
      (substL CtxEx.i (.binop .add (.read CtxEx.i []) (.binop .sub CtxEx.zero CtxEx.one))
        (CtxEx.wr CtxEx.i)) false])) :=
  shift_loop_in_context CtxEx.G _ _ _ _ _ _ _ _ _ rfl rfl (by decide) (by decide)
    (fun j hj => by simp [CtxEx.wr, loopVarsL, Stmt.loopVars] at hj)
    (fun V _ ext σ₀ σ hr => by
      obtain ⟨h0, h1, v, hv, hpos⟩ := CtxEx.G_fact ext hr
      exact ⟨0, v, 1, h0, hv, h1, by omega⟩)

/-- `divide_loop(perfect=True)`: the bound is `q * m` and the new outer bound `ohi` has value `m`
    in every state reaching the loop -/
theorem divide_loop_perfect_in_context (C : Ctx) (i io ii : Sym) (hi ohi : Expr) (B : List Stmt)
    (par : Bool) (q : Nat) (nm : String) (args : List FnArg) (preds : List Expr)
    (hio : occL io B = false) (hii : occL ii B = false) (hne : io ≠ ii)
    (hlv : ∀ k ∈ loopVarsL B, k ≠ io ∧ k ≠ ii)
    (side : ∀ (V : Type) [DataAlg V] (ext : String → List V → V) (σ₀ σ : State V),
        Reach ext C [.loop i (.lit (.int 0)) hi B par] σ₀ σ →
        ∃ m : Nat, evalC σ hi = .ok ((q : Int) * m) ∧ evalC σ ohi = .ok (m : Int)) :
    Equiv (fun _ => False)
      (.mk nm args preds (C.fill [.loop i (.lit (.int 0)) hi B par]))
      (.mk nm args preds (C.fill [.loop io (.lit (.int 0)) ohi
        [.loop ii (.lit (.int 0)) (.lit (.int q))
          (substL i (.binop .add (.binop .mul (.lit (.int q)) (.read io [])) (.read ii [])) B) par]
        par])) := by
  refine rewrite_in_context C _ _ nm args preds (fun V _ ext σ₀ σ hr => ?_)
  obtain ⟨m, hh, hm⟩ := side V ext σ₀ σ hr
  rw [execL_singleton, execL_singleton]
  exact ExLe.of_eq (divide_loop_perfect ext i io ii hi ohi B par q m σ hh hm hio hii hne hlv).symm

/-- `for i in [0, 4 * n)` divided by 4 with outer bound `n`, under the guard that makes `n`
    evaluable and non-negative -/
example : Equiv (fun _ => False)
    (.mk "p" [] [] (CtxEx.G.fill [.loop CtxEx.i CtxEx.zero (.binop .mul (.lit (.int 4)) CtxEx.rn)
      (CtxEx.wr CtxEx.i) false]))
    (.mk "p" [] [] (CtxEx.G.fill [.loop CtxEx.io CtxEx.zero CtxEx.rn
      [.loop CtxEx.ii CtxEx.zero (.lit (.int (4 : Nat)))
        (substL CtxEx.i (.binop .add (.binop .mul (.lit (.int (4 : Nat))) (.read CtxEx.io []))
          (.read CtxEx.ii [])) (CtxEx.wr CtxEx.i)) false] false])) :=
  divide_loop_perfect_in_context CtxEx.G _ _ _ _ _ _ _ 4 _ _ _ (by decide) (by decide) (by decide)
    (fun j hj => by simp [CtxEx.wr, loopVarsL, Stmt.loopVars] at hj)
    (fun V _ ext σ₀ σ hr => by
      obtain ⟨_, _, v, hv, hpos⟩ := CtxEx.G_fact ext hr
      refine ⟨v.toNat, ?_, ?_⟩
      · simp only [evalC, hv, bind, Except.bind, ctrlOp, pure, Except.pure]
        congr 2; omega
      · rw [hv]; congr 1; omega)

/-- `divide_loop(tail="guard")` -/
theorem divide_loop_guard_in_context (C : Ctx) (i io ii : Sym) (hi : Expr) (B : List Stmt)
    (par : Bool) (q : Nat) (hq : 0 < q) (nm : String) (args : List FnArg) (preds : List Expr)
    (ehi : hi.envOnly = true) (hi_i : hi.occC i = false) (hi_io : hi.occC io = false)
    (hi_ii : hi.occC ii = false) (hio : occL io B = false) (hii : occL ii B = false)
    (hne : io ≠ ii) (hio_i : io ≠ i) (hii_i : ii ≠ i)
    (hlv : ∀ k ∈ loopVarsL B, k ≠ io ∧ k ≠ ii)
    (side : ∀ (V : Type) [DataAlg V] (ext : String → List V → V) (σ₀ σ : State V),
        Reach ext C [.loop i (.lit (.int 0)) hi B par] σ₀ σ → ∃ N, evalC σ hi = .ok N ∧ 0 ≤ N) :
    Equiv (fun _ => False)
      (.mk nm args preds (C.fill [.loop i (.lit (.int 0)) hi B par]))
      (.mk nm args preds (C.fill [.loop io (.lit (.int 0))
        (.binop .div (.binop .add hi (.lit (.int ((q : Int) - 1)))) (.lit (.int q)))
        [.loop ii (.lit (.int 0)) (.lit (.int q))
          [.ite (.binop .lt (.binop .add (.binop .mul (.lit (.int q)) (.read io [])) (.read ii [])) hi)
            (substL i (.binop .add (.binop .mul (.lit (.int q)) (.read io [])) (.read ii [])) B) []]
          par] par])) := by
  refine rewrite_in_context C _ _ nm args preds (fun V _ ext σ₀ σ hr => ?_)
  obtain ⟨N, hh, hN⟩ := side V ext σ₀ σ hr
  rw [execL_singleton, execL_singleton]
  exact ExLe.of_eq (divide_loop_guard ext i io ii hi B par q hq σ N hN hh ehi hi_i hi_io hi_ii
    hio hii hne hio_i hii_i hlv).symm

example : ∃ B' : List Stmt, Equiv (fun _ => False)
    (.mk "p" [] [] (CtxEx.G.fill [.loop CtxEx.i CtxEx.zero CtxEx.rn (CtxEx.wr CtxEx.i) false]))
    (.mk "p" [] [] (CtxEx.G.fill B')) :=
  ⟨_, divide_loop_guard_in_context CtxEx.G CtxEx.i CtxEx.io CtxEx.ii CtxEx.rn (CtxEx.wr CtxEx.i) false
    4 (by decide) "p" [] [] rfl (by decide) (by decide) (by decide) (by decide) (by decide)
    (by decide) (by decide) (by decide)
    (fun j hj => by simp [CtxEx.wr, loopVarsL, Stmt.loopVars] at hj)
    (fun V _ ext σ₀ σ hr => by
      obtain ⟨_, _, v, hv, hpos⟩ := CtxEx.G_fact ext hr
      exact ⟨v, hv, by omega⟩)⟩

/-- `divide_loop(tail="cut")` -/
theorem divide_loop_cut_in_context (C : Ctx) (i io ii i3 : Sym) (hi : Expr) (B : List Stmt)
    (par : Bool) (q : Nat) (hq : 0 < q) (nm : String) (args : List FnArg) (preds : List Expr)
    (ehi : hi.envOnly = true) (hi3 : hi.occC i3 = false)
    (hio : occL io B = false) (hii : occL ii B = false) (hne : io ≠ ii) (h3 : occL i3 B = false)
    (hlv : ∀ k ∈ loopVarsL B, k ≠ io ∧ k ≠ ii ∧ k ≠ i3 ∧ hi.occC k = false)
    (side : ∀ (V : Type) [DataAlg V] (ext : String → List V → V) (σ₀ σ : State V),
        Reach ext C [.loop i (.lit (.int 0)) hi B par] σ₀ σ → ∃ N, evalC σ hi = .ok N ∧ 0 ≤ N) :
    Equiv (fun _ => False)
      (.mk nm args preds (C.fill [.loop i (.lit (.int 0)) hi B par]))
      (.mk nm args preds (C.fill [.loop io (.lit (.int 0)) (.binop .div hi (.lit (.int q)))
        [.loop ii (.lit (.int 0)) (.lit (.int q))
          (substL i (.binop .add (.binop .mul (.lit (.int q)) (.read io [])) (.read ii [])) B) par] par,
        .loop i3 (.lit (.int 0)) (.binop .mod hi (.lit (.int q)))
          (substL i (.binop .add (.read i3 []) (.binop .mul (.binop .div hi (.lit (.int q))) (.lit (.int q)))) B)
          par])) := by
  refine rewrite_in_context C _ _ nm args preds (fun V _ ext σ₀ σ hr => ?_)
  obtain ⟨N, hh, hN⟩ := side V ext σ₀ σ hr
  rw [execL_singleton]
  exact ExLe.of_eq (divide_loop_cut ext i io ii i3 hi B par q hq σ N hN hh ehi hi3 hio hii hne h3
    hlv).symm

example : ∃ B' : List Stmt, Equiv (fun _ => False)
    (.mk "p" [] [] (CtxEx.G.fill [.loop CtxEx.i CtxEx.zero CtxEx.rn (CtxEx.wr CtxEx.i) false]))
    (.mk "p" [] [] (CtxEx.G.fill B')) :=
  ⟨_, divide_loop_cut_in_context CtxEx.G CtxEx.i CtxEx.io CtxEx.ii CtxEx.i3 CtxEx.rn
    (CtxEx.wr CtxEx.i) false 4 (by decide) "p" [] [] rfl (by decide) (by decide) (by decide)
    (by decide) (by decide)
    (fun j hj => by simp [CtxEx.wr, loopVarsL, Stmt.loopVars] at hj)
    (fun V _ ext σ₀ σ hr => by
      obtain ⟨_, _, v, hv, hpos⟩ := CtxEx.G_fact ext hr
      exact ⟨v, hv, by omega⟩)⟩

/-- `unroll_loop` (shape `Rw.unrollLoop`): no condition on the state at all -/
theorem unroll_loop_in_context (C : Ctx) (i : Sym) (B : List Stmt) (par : Bool) (lo : Int) (n : Nat)
    (nm : String) (args : List FnArg) (preds : List Expr) (hn : noDefs B = true) :
    Equiv (fun _ => False)
      (.mk nm args preds (C.fill [.loop i (.lit (.int lo)) (.lit (.int (lo + n))) B par]))
      (.mk nm args preds (C.fill (Rw.unrolledCopies i B n lo))) := by
  refine rewrite_in_context C _ _ nm args preds (fun V _ ext σ₀ σ _ => ?_)
  rw [execL_singleton, unroll_loop ext i B par hn lo n σ, unrolled_eq]
  exact ExLe.refl _

example : Equiv (fun _ => False)
    (.mk "p" [] [] (CtxEx.G.fill [.loop CtxEx.i (.lit (.int 1)) (.lit (.int (1 + (2 : Nat))))
      (CtxEx.wr CtxEx.i) false]))
    (.mk "p" [] [] (CtxEx.G.fill (Rw.unrolledCopies CtxEx.i (CtxEx.wr CtxEx.i) 2 1))) :=
  unroll_loop_in_context CtxEx.G _ _ _ _ _ _ _ _ (by decide)

/-- `reorder_loops` (= `lift_scope` of a loop directly inside a loop) -/
theorem reorder_loops_in_context (C : Ctx) (i j : Sym) (hij : i ≠ j) (lo1 hi1 lo2 hi2 : Expr)
    (B : List Stmt) (par1 par2 : Bool) (nm : String) (args : List FnArg) (preds : List Expr)
    (f1 : lo1.cfgFree = true ∧ hi1.cfgFree = true) (f2 : lo2.cfgFree = true ∧ hi2.cfgFree = true)
    (o1 : lo1.occC j = false ∧ hi1.occC j = false) (o2 : lo2.occC i = false ∧ hi2.occC i = false)
    (side : ∀ (V : Type) [DataAlg V] (ext : String → List V → V) (σ₀ σ : State V),
        Reach ext C [.loop i lo1 hi1 [.loop j lo2 hi2 B par2] par1] σ₀ σ →
        (∃ l1 h1 l2 h2, evalC σ lo1 = .ok l1 ∧ evalC σ hi1 = .ok h1 ∧ evalC σ lo2 = .ok l2 ∧
          evalC σ hi2 = .ok h2 ∧ l1 ≤ h1 ∧ l2 ≤ h2) ∧
        (∀ a a' b b', a < a' → b' < b → ∀ s : State V,
          ExEq (stepIJ ext i j B a b s >>= stepIJ ext i j B a' b')
               (stepIJ ext i j B a' b' s >>= stepIJ ext i j B a b))) :
    Equiv (fun _ => False)
      (.mk nm args preds (C.fill [.loop i lo1 hi1 [.loop j lo2 hi2 B par2] par1]))
      (.mk nm args preds (C.fill [.loop j lo2 hi2 [.loop i lo1 hi1 B par1] par2])) := by
  refine rewrite_in_context C _ _ nm args preds (fun V _ ext σ₀ σ hr => ?_)
  obtain ⟨⟨l1, h1, l2, h2, hl1, hh1, hl2, hh2, hle1, hle2⟩, hc⟩ := side V ext σ₀ σ hr
  rw [execL_singleton, execL_singleton]
  exact (reorder_loops ext i j hij lo1 hi1 lo2 hi2 B par1 par2 σ l1 h1 l2 h2 hl1 hh1 hl2 hh2
    hle1 hle2 f1 f2 o1 o2 hc).le

example : Equiv (fun _ => False)
    (.mk "p" [] [] (CtxEx.G.fill [.loop CtxEx.i CtxEx.zero CtxEx.rn
      [.loop CtxEx.j CtxEx.zero CtxEx.rn [.pass] false] false]))
    (.mk "p" [] [] (CtxEx.G.fill [.loop CtxEx.j CtxEx.zero CtxEx.rn
      [.loop CtxEx.i CtxEx.zero CtxEx.rn [.pass] false] false])) :=
  reorder_loops_in_context CtxEx.G _ _ (by decide) _ _ _ _ _ _ _ _ _ _ ⟨rfl, rfl⟩ ⟨rfl, rfl⟩
    ⟨by decide, by decide⟩ ⟨by decide, by decide⟩
    (fun V _ ext σ₀ σ hr => by
      obtain ⟨h0, _, v, hv, hpos⟩ := CtxEx.G_fact ext hr
      exact ⟨⟨0, v, 0, v, h0, hv, h0, hv, by omega, by omega⟩, fun _ _ _ _ _ _ s => by
        simp only [stepIJ_pass, bind, Except.bind]; exact ExEq.refl _⟩)

/-- `lift_scope`, `if` directly inside `for`: the condition must not read configuration state,
    must not mention the iterator and must be evaluable, and `lo ≤ hi`, in every state reaching
    the loop -/
theorem lift_if_out_of_loop_in_context (C : Ctx) (i : Sym) (lo hi c : Expr) (B E : List Stmt)
    (par : Bool) (nm : String) (args : List FnArg) (preds : List Expr)
    (fc : c.cfgFree = true) (ic : c.occC i = false)
    (side : ∀ (V : Type) [DataAlg V] (ext : String → List V → V) (σ₀ σ : State V),
        Reach ext C [.loop i lo hi [.ite c B E] par] σ₀ σ →
        ∃ l h b, evalC σ lo = .ok l ∧ evalC σ hi = .ok h ∧ l ≤ h ∧ evalC σ c = .ok b) :
    Equiv (fun _ => False)
      (.mk nm args preds (C.fill [.loop i lo hi [.ite c B E] par]))
      (.mk nm args preds (C.fill [.ite c [.loop i lo hi B par] [.loop i lo hi E par]])) := by
  refine rewrite_in_context C _ _ nm args preds (fun V _ ext σ₀ σ hr => ?_)
  obtain ⟨l, h, b, hl, hh, hle, hc⟩ := side V ext σ₀ σ hr
  rw [execL_singleton, execL_singleton]
  exact ExLe.of_eq (lift_if_out_of_loop ext i lo hi c B E par σ l h b hl hh hle hc fc ic)

example : Equiv (fun _ => False)
    (.mk "p" [] [] (CtxEx.G.fill [.loop CtxEx.i CtxEx.zero CtxEx.rn
      [.ite (.binop .eq CtxEx.rn CtxEx.one) (CtxEx.wr CtxEx.i) [.pass]] false]))
    (.mk "p" [] [] (CtxEx.G.fill [.ite (.binop .eq CtxEx.rn CtxEx.one)
      [.loop CtxEx.i CtxEx.zero CtxEx.rn (CtxEx.wr CtxEx.i) false]
      [.loop CtxEx.i CtxEx.zero CtxEx.rn [.pass] false]])) :=
  lift_if_out_of_loop_in_context CtxEx.G _ _ _ _ _ _ _ _ _ _ rfl (by decide)
    (fun V _ ext σ₀ σ hr => by
      obtain ⟨h0, h1, v, hv, hpos⟩ := CtxEx.G_fact ext hr
      exact ⟨0, v, b2i (v = 1), h0, hv, by omega, by
        simp only [evalC, h1, hv, bind, Except.bind, ctrlOp, pure, Except.pure]⟩)

/-- `mult_loops` (shape `Rw.multLoops k`) -/
theorem mult_loops_in_context (C : Ctx) (i j k : Sym) (hi : Expr) (c : Int) (B : List Stmt)
    (par parj : Bool) (nm : String) (args : List FnArg) (preds : List Expr)
    (hc : 0 < c) (hij : i ≠ j) (hki : k ≠ i) (hkj : k ≠ j) (hk : occL k B = false)
    (hlv : ∀ y ∈ loopVarsL B, y ≠ k)
    (side : ∀ (V : Type) [DataAlg V] (ext : String → List V → V) (σ₀ σ : State V),
        Reach ext C [.loop i (.lit (.int 0)) hi [.loop j (.lit (.int 0)) (.lit (.int c)) B parj] par]
          σ₀ σ → ∃ N, evalC σ hi = .ok N ∧ 0 ≤ N) :
    Equiv (fun _ => False)
      (.mk nm args preds (C.fill
        [.loop i (.lit (.int 0)) hi [.loop j (.lit (.int 0)) (.lit (.int c)) B parj] par]))
      (.mk nm args preds (C.fill [.loop k (.lit (.int 0)) (.binop .mul hi (.lit (.int c)))
        (substL j (.binop .mod (.read k []) (.lit (.int c)))
          (substL i (.binop .div (.read k []) (.lit (.int c))) B)) par])) := by
  refine rewrite_in_context C _ _ nm args preds (fun V _ ext σ₀ σ hr => ?_)
  obtain ⟨N, hh, hN⟩ := side V ext σ₀ σ hr
  rw [execL_singleton, execL_singleton]
  exact ExLe.of_eq (mult_loops ext i j k hi c B par parj σ N hN hh hc hij hki hkj hk hlv).symm

example : ∃ B' : List Stmt, Equiv (fun _ => False)
    (.mk "p" [] [] (CtxEx.G.fill [.loop CtxEx.i CtxEx.zero CtxEx.rn
      [.loop CtxEx.j CtxEx.zero (.lit (.int 4))
        [.assign CtxEx.a [.binop .add (.binop .mul (.lit (.int 4)) (.read CtxEx.i [])) (.read CtxEx.j [])]
          (.lit (.int 1))] false] false]))
    (.mk "p" [] [] (CtxEx.G.fill B')) :=
  ⟨_, mult_loops_in_context CtxEx.G CtxEx.i CtxEx.j CtxEx.k CtxEx.rn 4 _ false false "p" [] []
    (by decide) (by decide) (by decide) (by decide) (by decide)
    (fun y hy => by simp [loopVarsL, Stmt.loopVars] at hy)
    (fun V _ ext σ₀ σ hr => by
      obtain ⟨_, _, v, hv, hpos⟩ := CtxEx.G_fact ext hr
      exact ⟨v, hv, by omega⟩)⟩

/-- renaming the iterator of a loop: no condition on the state -/
theorem rename_loop_var_in_context (C : Ctx) (i i' : Sym) (lo hi : Expr) (B : List Stmt) (par : Bool)
    (nm : String) (args : List FnArg) (preds : List Expr)
    (hocc : occL i' B = false) (hlv : ∀ k ∈ loopVarsL B, k ≠ i') :
    Equiv (fun _ => False)
      (.mk nm args preds (C.fill [.loop i lo hi B par]))
      (.mk nm args preds (C.fill [.loop i' lo hi (substL i (.read i' []) B) par])) := by
  refine rewrite_in_context C _ _ nm args preds (fun V _ ext σ₀ σ _ => ?_)
  rw [execL_singleton, execL_singleton]
  exact ExLe.of_eq (rename_loop_var ext i i' lo hi B par σ hocc hlv).symm

example : Equiv (fun _ => False)
    (.mk "p" [] [] (CtxEx.G.fill [.loop CtxEx.i CtxEx.zero CtxEx.rn (CtxEx.wr CtxEx.i) false]))
    (.mk "p" [] [] (CtxEx.G.fill [.loop CtxEx.i2 CtxEx.zero CtxEx.rn
      (substL CtxEx.i (.read CtxEx.i2 []) (CtxEx.wr CtxEx.i)) false])) :=
  rename_loop_var_in_context CtxEx.G _ _ _ _ _ _ _ _ _ (by decide)
    (fun j hj => by simp [CtxEx.wr, loopVarsL, Stmt.loopVars] at hj)

/-! ### single writes -/

/-- `fold_into_reduce`: `x[idx] = x[idx] + e` becomes `x[idx] += e` anywhere, for every data
    algebra (no ring law is needed, no condition on the state) -/
theorem fold_into_reduce_in_context (C : Ctx) (x : Sym) (idx : List Expr) (e : Expr)
    (nm : String) (args : List FnArg) (preds : List Expr) :
    Equiv (fun _ => False)
      (.mk nm args preds (C.fill [.assign x idx (.binop .add (.read x idx) e)]))
      (.mk nm args preds (C.fill [.reduce x idx e])) := by
  refine rewrite_in_context C _ _ nm args preds (fun V _ ext σ₀ σ _ => ?_)
  rw [execL_singleton, execL_singleton]
  exact (fold_into_reduce_nolaws ext x idx e σ).le

example : Equiv (fun _ => False)
    (.mk "p" [] [] (CtxEx.G.fill [.assign CtxEx.a [CtxEx.zero]
      (.binop .add (.read CtxEx.a [CtxEx.zero]) (.lit (.int 1)))]))
    (.mk "p" [] [] (CtxEx.G.fill [.reduce CtxEx.a [CtxEx.zero] (.lit (.int 1))])) :=
  fold_into_reduce_in_context CtxEx.G _ _ _ _ _ _

/-- `merge_writes`, assign/assign: the first write is dead if, in every state reaching the pair,
    the value of the second right-hand side is the same before and after the first write -/
theorem merge_assign_assign_in_context (C : Ctx) (x : Sym) (idx : List Expr) (e1 e2 : Expr)
    (nm : String) (args : List FnArg) (preds : List Expr)
    (side : ∀ (V : Type) [DataAlg V] (ext : String → List V → V) (σ₀ σ : State V),
        Reach ext C [.assign x idx e1, .assign x idx e2] σ₀ σ →
        ∀ σ1, execS ext (.assign x idx e1) σ = .ok σ1 → evalD ext σ1 e2 = evalD ext σ e2) :
    Equiv (fun _ => False)
      (.mk nm args preds (C.fill [.assign x idx e1, .assign x idx e2]))
      (.mk nm args preds (C.fill [.assign x idx e2])) := by
  refine rewrite_in_context C _ _ nm args preds (fun V _ ext σ₀ σ hr => ?_)
  rw [execL_singleton]
  exact merge_assign_assign ext x idx e1 e2 σ (side V ext σ₀ σ hr)

example : Equiv (fun _ => False)
    (.mk "p" [] [] (CtxEx.G.fill [.assign CtxEx.a [CtxEx.zero] (.lit (.int 1)),
      .assign CtxEx.a [CtxEx.zero] (.lit (.int 2))]))
    (.mk "p" [] [] (CtxEx.G.fill [.assign CtxEx.a [CtxEx.zero] (.lit (.int 2))])) :=
  merge_assign_assign_in_context CtxEx.G _ _ _ _ _ _ _ (fun _ _ _ _ _ _ _ _ => rfl)

/-! ### a fact that holds because of the enclosing LOOP RANGE -/

/-- `for i in [0, 4): for j in [0, i + 1): a[j] = 1` — the inner loop may be cut at `1` because
    `0 ≤ 1 ≤ i + 1` for every `i` of the outer range (`cut_loop_in_context` of Props/C01.lean;
    the side condition is discharged from `reach_loopRange`) -/
example : Equiv (fun _ => False)
    (.mk "p" [] [] ((Ctx.loop CtxEx.i CtxEx.zero (.lit (.int 4)) false .hole).fill
      [.loop CtxEx.j CtxEx.zero (.binop .add (.read CtxEx.i []) CtxEx.one) (CtxEx.wr CtxEx.j) false]))
    (.mk "p" [] [] ((Ctx.loop CtxEx.i CtxEx.zero (.lit (.int 4)) false .hole).fill
      [.loop CtxEx.j CtxEx.zero CtxEx.one (CtxEx.wr CtxEx.j) false,
       .loop CtxEx.j CtxEx.one (.binop .add (.read CtxEx.i []) CtxEx.one) (CtxEx.wr CtxEx.j) false])) :=
  cut_loop_in_context _ _ _ _ _ _ _ _ _ _ rfl rfl
    (fun V _ ext σ₀ σ hr => by
      obtain ⟨v, hv, h0, _⟩ := reach_loopRange ext hr
      refine ⟨0, 1, v + 1, rfl, rfl, ?_, by omega, by omega⟩
      rw [evalC, hv]
      rfl)

/-! ### schedules: composition of steps -/

/-- a schedule starting at `p`: every step names the configuration fields it may change and the
    procedure it produces, and is an `Equiv` step from the previous procedure -/
def EquivChain : Proc → List ((String × String → Prop) × Proc) → Prop
  | _, [] => True
  | p, (K, q) :: r => Equiv K p q ∧ EquivChain q r

/-- the union of the fields named by the steps -/
def chainFields (steps : List ((String × String → Prop) × Proc)) : String × String → Prop :=
  fun k => ∃ s ∈ steps, s.1 k

/-- the procedure the schedule ends with -/
def chainLast : Proc → List ((String × String → Prop) × Proc) → Proc
  | p, [] => p
  | _, (_, q) :: r => chainLast q r

/-- **composition of a schedule**: `p₀ ≈[K₁] p₁ ≈[K₂] … ≈[Kₙ] pₙ` gives `p₀ ≈[⋃ Kᵢ] pₙ` -/
theorem equiv_chain : ∀ (steps : List ((String × String → Prop) × Proc)) (p : Proc),
    EquivChain p steps → Equiv (chainFields steps) p (chainLast p steps)
  | [], p, _ => (Exo.equiv_refl p).mono (fun _ h => h.elim)
  | (K, q) :: r, p, h => by
    refine (Exo.equiv_trans h.1 (equiv_chain r q h.2)).mono (fun k hk => ?_)
    rcases hk with hk | ⟨s, hs, hk⟩
    · exact ⟨(K, q), List.mem_cons_self .., hk⟩
    · exact ⟨s, List.mem_cons_of_mem _ hs, hk⟩

/-- one step of a schedule as the tie sees it: the model output `model` (for which an `Equiv`
    theorem is available, conditional or not) and the real output `after`, alpha-equal to it -/
structure SchedStep where
  K : String × String → Prop
  model : List Stmt
  after : List Stmt

def SchedChain : List Stmt → List SchedStep → Prop
  | _, [] => True
  | body, s :: r =>
    Equiv s.K (.mk "" [] [] body) (.mk "" [] [] s.model) ∧ alphaEqBlocks' s.model s.after = true ∧
      SchedChain s.after r

def schedLast : List Stmt → List SchedStep → List Stmt
  | body, [] => body
  | _, s :: r => schedLast s.after r

def schedFields (steps : List SchedStep) : String × String → Prop := fun k => ∃ s ∈ steps, s.K k

/-- schedules whose steps are justified by any `Equiv` theorem for the model shape (in
    particular the `…_in_context` theorems) and a successful alpha comparison -/
theorem sched_chain : ∀ (steps : List SchedStep) (body : List Stmt), SchedChain body steps →
    ∀ (nm nm' : String) (args args' : List FnArg) (preds preds' : List Expr),
      Equiv (schedFields steps) (.mk nm args preds body) (.mk nm' args' preds' (schedLast body steps))
  | [], body, _, nm, nm', args, args', preds, preds' =>
    ((Exo.equiv_refl (.mk nm args preds body)).mono (fun _ h => h.elim)).of_bodies rfl rfl
  | s :: r, body, h, nm, nm', args, args', preds, preds' => by
    have h1 : Equiv s.K (.mk nm args preds body) (.mk nm args preds s.after) :=
      equiv_alpha_right _ "" nm [] args [] preds s.model s.after (h.1.of_bodies rfl rfl) h.2.1
    have h2 := sched_chain r s.after h.2.2 nm nm' args args' preds preds'
    refine (Exo.equiv_trans h1 h2).mono (fun k hk => ?_)
    rcases hk with hk | ⟨t, ht, hk⟩
    · exact ⟨s, List.mem_cons_self .., hk⟩
    · exact ⟨t, List.mem_cons_of_mem _ ht, hk⟩

/-- one step of a schedule that satisfies the hypotheses of `rwcheck_sound` -/
structure RwStep where
  f : Rw.Local
  path : Rw.Path
  model : List Stmt
  after : List Stmt

def RwChain : List Stmt → List RwStep → Prop
  | _, [] => True
  | body, s :: r =>
    (∀ ss r', s.f ss = some r' → BlockLe ss r') ∧ Rw.rewriteAt s.f s.path body = some s.model ∧
      alphaEqBlocks' s.model s.after = true ∧ RwChain s.after r

def rwLast : List Stmt → List RwStep → List Stmt
  | body, [] => body
  | _, s :: r => rwLast s.after r

/-- **a schedule accepted step by step by `rwcheck`**: every step's real output is alpha-equal
    to the model rewrite of the previous real output and the local rewrites never lose behaviour;
    then the last procedure is equivalent to the first, with no configuration field changed -/
theorem rwcheck_chain : ∀ (steps : List RwStep) (body : List Stmt), RwChain body steps →
    ∀ (nm nm' : String) (args args' : List FnArg) (preds preds' : List Expr),
      Equiv (fun _ => False) (.mk nm args preds body) (.mk nm' args' preds' (rwLast body steps))
  | [], body, _, nm, nm', args, args', preds, preds' =>
    (Exo.equiv_refl (.mk nm args preds body)).of_bodies rfl rfl
  | s :: r, body, h, nm, nm', args, args', preds, preds' => by
    have h1 := rwcheck_sound s.f h.1 s.path nm nm args args preds preds body s.model s.after
      h.2.1 h.2.2.1
    have h2 := rwcheck_chain r s.after h.2.2.2 nm nm' args args' preds preds'
    exact (Exo.equiv_trans h1 h2).mono (fun k hk => hk.elim id id)

namespace CtxEx
def two : Expr := .lit (.int 2)
def four : Expr := .lit (.int 4)
/-- `for i in [0, 4): a[i] = 1` -/
def body0 : List Stmt := [.loop i zero four (wr i) false]
/-- model output of `cut_loop` at 2 (second iterator `i2` read off the real output) … -/
def model1 : List Stmt := [.loop i zero two (wr i) false, .loop i2 two four (wr i2) false]
/-- … and a real output that is alpha-equal to it -/
def after1 : List Stmt := [.loop i zero two (wr i) false, .loop j two four (wr j) false]
/-- model output of `insert_pass` before the second loop of `after1`, and a renamed real output -/
def model2 : List Stmt := [.loop i zero two (wr i) false, .pass, .loop j two four (wr j) false]
def after2 : List Stmt := [.loop i zero two (wr i) false, .pass, .loop i3 two four (wr i3) false]

theorem step1 : Equiv (fun _ => False) (.mk "" [] [] body0) (.mk "" [] [] model1) :=
  cut_loop_renamed_in_context .hole i i2 zero two four (wr i) (wr i2) false "" [] [] rfl rfl
    (by decide +kernel) (fun _ _ _ _ _ _ => ⟨0, 2, 4, rfl, rfl, rfl, by omega, by omega⟩)

theorem step2 : Equiv (fun _ => False) (.mk "" [] [] after1) (.mk "" [] [] model2) :=
  insert_pass_anywhere true [.body 1] "" [] [] after1 model2 (by rfl)
end CtxEx

/-- `equiv_chain` on the two-step schedule *cut_loop, insert_pass* (procedures of the models) -/
example : Equiv (fun _ => False) (.mk "" [] [] CtxEx.body0) (.mk "" [] [] CtxEx.after2) :=
  (equiv_chain
    [(fun _ => False, .mk "" [] [] CtxEx.after1), (fun _ => False, .mk "" [] [] CtxEx.after2)]
    (.mk "" [] [] CtxEx.body0)
    ⟨equiv_alpha_right _ "" "" [] [] [] [] _ _ CtxEx.step1 (by decide +kernel),
     equiv_alpha_right _ "" "" [] [] [] [] _ _ CtxEx.step2 (by decide +kernel), trivial⟩).mono
    (fun k hk => by
      obtain ⟨s, hs, hk⟩ := hk
      simp only [List.mem_cons, List.not_mem_nil, or_false] at hs
      rcases hs with rfl | rfl <;> exact hk)

/-- `sched_chain` on the same schedule: the conditional theorem `cut_loop_renamed_in_context`
    justifies step 1, `insert_pass_anywhere` step 2, the alpha comparison links models and real
    outputs -/
example : Equiv (fun _ => False) (.mk "p" [] [] CtxEx.body0) (.mk "p_2" [] [] CtxEx.after2) :=
  (sched_chain
    [⟨fun _ => False, CtxEx.model1, CtxEx.after1⟩, ⟨fun _ => False, CtxEx.model2, CtxEx.after2⟩]
    CtxEx.body0
    ⟨CtxEx.step1, by decide +kernel, CtxEx.step2, by decide +kernel, trivial⟩
    "p" "p_2" [] [] [] []).mono
    (fun k hk => by
      obtain ⟨s, hs, hk⟩ := hk
      simp only [List.mem_cons, List.not_mem_nil, or_false] at hs
      rcases hs with rfl | rfl <;> exact hk)

theorem insertPassBefore_le : ∀ ss r, Rw.insertPassBefore ss = some r → BlockLe ss r := by
  intro ss r hr
  cases ss with
  | nil => simp [Rw.insertPassBefore] at hr
  | cons s t =>
    simp only [Rw.insertPassBefore, Option.some.injEq] at hr
    subst hr
    exact (insert_pass (s :: t)).le

/-- `rwcheck_chain` on a two-step schedule of unconditional rewrites (`insert_pass` twice, the
    real outputs with renamed iterators) -/
example : Equiv (fun _ => False) (.mk "p" [] [] CtxEx.after1)
    (.mk "p_2" [] []
      [.loop CtxEx.i2 CtxEx.zero CtxEx.two [.pass, .assign CtxEx.a [.read CtxEx.i2 []] (.lit (.int 1))] false,
       .pass, .loop CtxEx.i3 CtxEx.two CtxEx.four (CtxEx.wr CtxEx.i3) false]) :=
  rwcheck_chain
    [⟨Rw.insertPassBefore, [.body 1], CtxEx.model2, CtxEx.after2⟩,
     ⟨Rw.insertPassBefore, [.body 0, .body 0],
      [.loop CtxEx.i CtxEx.zero CtxEx.two [.pass, .assign CtxEx.a [.read CtxEx.i []] (.lit (.int 1))] false,
       .pass, .loop CtxEx.i3 CtxEx.two CtxEx.four (CtxEx.wr CtxEx.i3) false],
      [.loop CtxEx.i2 CtxEx.zero CtxEx.two [.pass, .assign CtxEx.a [.read CtxEx.i2 []] (.lit (.int 1))] false,
       .pass, .loop CtxEx.i3 CtxEx.two CtxEx.four (CtxEx.wr CtxEx.i3) false]⟩]
    CtxEx.after1
    ⟨insertPassBefore_le, by rfl, by decide +kernel, insertPassBefore_le, by rfl, by decide +kernel,
      trivial⟩
    "p" "p_2" [] [] [] []

/-! ### lift_scope (`DoLiftScope`): the shapes of ExoModel/RewriteMore.lean

  for-in-for is `reorder_loops_in_context`.  Three of the other four shapes are UNSOUND as
  implemented (`lift_if_then_unsound`, `lift_if_else_unsound`, `lift_for_out_of_if_unsound`,
  `lift_for_out_of_if_new_failure`, `lift_if_out_of_loop_unsound`: kernel-checked
  counter-examples, reproduced on the real code by /tmp/alpha/ls/ls_test.py); the theorems state
  the hypotheses under which each shape is sound. -/

section LiftScope
variable {V : Type} [DataAlg V] (ext : String → List V → V)

/-- if-in-if, `then` position (shape `Rw.liftIfThen`): sound when both conditions are evaluable
    and the inner `if` HAS an `else` block or the outer one has none -/
theorem lift_if_then (a b : Expr) (A B C : List Stmt) (σ : State V) (va vb : Int)
    (ha : evalC σ a = .ok va) (hb : evalC σ b = .ok vb) (hBC : B ≠ [] ∨ C = []) :
    execS ext (.ite b [.ite a A C] (if B.isEmpty then [] else [.ite a B C])) σ
      = execS ext (.ite a [.ite b A B] C) σ := by
  rw [ite_eval ext b _ _ σ vb hb, ite_eval ext a _ _ σ va ha, execB_ite, execB_ite,
    ite_eval ext a _ _ σ va ha, ite_eval ext b _ _ σ vb hb]
  cases B with
  | nil =>
    have hC : C = [] := by rcases hBC with h | h; exact absurd rfl h; exact h
    subst hC
    by_cases h1 : va = 0 <;> by_cases h2 : vb = 0 <;> simp [h1, h2]
  | cons s B' =>
    simp only [List.isEmpty_cons, Bool.false_eq_true, if_false]
    rw [execB_ite, ite_eval ext a _ _ σ va ha]
    by_cases h1 : va = 0 <;> by_cases h2 : vb = 0 <;> simp [h1, h2]

theorem lift_if_then_in_context (Cx : Ctx) (a b : Expr) (A B C : List Stmt)
    (nm : String) (args : List FnArg) (preds : List Expr) (hBC : B ≠ [] ∨ C = [])
    (side : ∀ (V : Type) [DataAlg V] (ext : String → List V → V) (σ₀ σ : State V),
        Reach ext Cx [.ite a [.ite b A B] C] σ₀ σ → ∃ va vb, evalC σ a = .ok va ∧ evalC σ b = .ok vb) :
    Equiv (fun _ => False)
      (.mk nm args preds (Cx.fill [.ite a [.ite b A B] C]))
      (.mk nm args preds (Cx.fill [.ite b [.ite a A C] (if B.isEmpty then [] else [.ite a B C])])) := by
  refine rewrite_in_context Cx _ _ nm args preds (fun V _ ext σ₀ σ hr => ?_)
  obtain ⟨va, vb, ha, hb⟩ := side V ext σ₀ σ hr
  rw [execL_singleton, execL_singleton]
  exact ExLe.of_eq (lift_if_then ext a b A B C σ va vb ha hb hBC).symm

/-- `if 0 < n: (if n == 1: A else: B) else: C` inside the guard that makes `n` evaluable -/
example : Rw.liftIfThen [.ite (.binop .lt CtxEx.zero CtxEx.rn)
      [.ite (.binop .eq CtxEx.rn CtxEx.one) (CtxEx.wr CtxEx.n) [.pass]] [.pass]]
    = some [.ite (.binop .eq CtxEx.rn CtxEx.one)
      [.ite (.binop .lt CtxEx.zero CtxEx.rn) (CtxEx.wr CtxEx.n) [.pass]]
      [.ite (.binop .lt CtxEx.zero CtxEx.rn) [.pass] [.pass]]] := by rfl

example : Equiv (fun _ => False)
    (.mk "p" [] [] (CtxEx.G.fill [.ite (.binop .lt CtxEx.zero CtxEx.rn)
      [.ite (.binop .eq CtxEx.rn CtxEx.one) (CtxEx.wr CtxEx.n) [.pass]] [.pass]]))
    (.mk "p" [] [] (CtxEx.G.fill [.ite (.binop .eq CtxEx.rn CtxEx.one)
      [.ite (.binop .lt CtxEx.zero CtxEx.rn) (CtxEx.wr CtxEx.n) [.pass]]
      (if [Stmt.pass].isEmpty then [] else [.ite (.binop .lt CtxEx.zero CtxEx.rn) [.pass] [.pass]])])) :=
  lift_if_then_in_context CtxEx.G _ _ _ _ _ _ _ _ (Or.inl (by simp))
    (fun V _ ext σ₀ σ hr => by
      obtain ⟨h0, h1, v, hv, _⟩ := CtxEx.G_fact ext hr
      exact ⟨b2i (0 < v), b2i (v = 1),
        by simp only [evalC, h0, hv, bind, Except.bind, ctrlOp, pure, Except.pure],
        by simp only [evalC, h1, hv, bind, Except.bind, ctrlOp, pure, Except.pure]⟩)

/-- **defect.**  Without the hypothesis: `if a: (if b: x = 1) else: y = 2` becomes
    `if b: (if a: x = 1 else: y = 2)` — with `a` and `b` false the original writes `y`, the result
    does nothing (`DoLiftScope` wraps the inner `orelse` only `if inner_s.orelse:`) -/
theorem lift_if_then_unsound :
    Rw.liftIfThen [.ite (.read CtxEx.a []) [.ite (.read CtxEx.n []) [.writecfg "c" "x" (.lit (.int 1)) false] []]
        [.writecfg "c" "y" (.lit (.int 2)) false]]
      = some [.ite (.read CtxEx.n []) [.ite (.read CtxEx.a []) [.writecfg "c" "x" (.lit (.int 1)) false]
        [.writecfg "c" "y" (.lit (.int 2)) false]] []] ∧
    ¬ Equiv (fun _ => False)
      (.mk "p" [] [] [.ite (.read CtxEx.a []) [.ite (.read CtxEx.n []) [.writecfg "c" "x" (.lit (.int 1)) false] []]
        [.writecfg "c" "y" (.lit (.int 2)) false]])
      (.mk "p" [] [] [.ite (.read CtxEx.n []) [.ite (.read CtxEx.a []) [.writecfg "c" "x" (.lit (.int 1)) false]
        [.writecfg "c" "y" (.lit (.int 2)) false]] []]) := by
  refine ⟨by rfl, fun h => ?_⟩
  obtain ⟨o', ho', r⟩ := h Int (fun _ _ => 0) ⟨[(CtxEx.a, 0), (CtxEx.n, 0)], [], [], []⟩
    ⟨[(CtxEx.a, 0), (CtxEx.n, 0)], [], [], [(("c", "y"), .ctrl 2)]⟩ (by rfl)
  have e : execB (fun _ _ => (0 : Int)) (Proc.body (.mk "p" [] []
      [.ite (.read CtxEx.n []) [.ite (.read CtxEx.a []) [.writecfg "c" "x" (.lit (.int 1)) false]
        [.writecfg "c" "y" (.lit (.int 2)) false]] []]))
      ⟨[(CtxEx.a, 0), (CtxEx.n, 0)], [], [], []⟩
      = .ok ⟨[(CtxEx.a, 0), (CtxEx.n, 0)], [], [], []⟩ := by rfl
  rw [e] at ho'
  cases ho'
  obtain ⟨v', hv', _⟩ := r.cfg ("c", "y") (fun hk => hk) (.ctrl 2) (by rfl)
  simp [lookupCfg] at hv'

/-- if-in-if, `else` position (shape `Rw.liftIfElse`): sound when both conditions are evaluable
    and the inner `if` HAS an `else` block -/
theorem lift_if_else (a b : Expr) (A B C : List Stmt) (σ : State V) (va vb : Int)
    (ha : evalC σ a = .ok va) (hb : evalC σ b = .ok vb) (hC : C ≠ []) :
    execS ext (.ite b [.ite a A B] (if C.isEmpty then [] else [.ite a A C])) σ
      = execS ext (.ite a A [.ite b B C]) σ := by
  rw [ite_eval ext b _ _ σ vb hb, ite_eval ext a _ _ σ va ha, execB_ite, execB_ite,
    ite_eval ext a _ _ σ va ha, ite_eval ext b _ _ σ vb hb]
  cases C with
  | nil => exact absurd rfl hC
  | cons s C' =>
    simp only [List.isEmpty_cons, Bool.false_eq_true, if_false]
    rw [execB_ite, ite_eval ext a _ _ σ va ha]
    by_cases h1 : va = 0 <;> by_cases h2 : vb = 0 <;> simp [h1, h2]

theorem lift_if_else_in_context (Cx : Ctx) (a b : Expr) (A B C : List Stmt)
    (nm : String) (args : List FnArg) (preds : List Expr) (hC : C ≠ [])
    (side : ∀ (V : Type) [DataAlg V] (ext : String → List V → V) (σ₀ σ : State V),
        Reach ext Cx [.ite a A [.ite b B C]] σ₀ σ → ∃ va vb, evalC σ a = .ok va ∧ evalC σ b = .ok vb) :
    Equiv (fun _ => False)
      (.mk nm args preds (Cx.fill [.ite a A [.ite b B C]]))
      (.mk nm args preds (Cx.fill [.ite b [.ite a A B] (if C.isEmpty then [] else [.ite a A C])])) := by
  refine rewrite_in_context Cx _ _ nm args preds (fun V _ ext σ₀ σ hr => ?_)
  obtain ⟨va, vb, ha, hb⟩ := side V ext σ₀ σ hr
  rw [execL_singleton, execL_singleton]
  exact ExLe.of_eq (lift_if_else ext a b A B C σ va vb ha hb hC).symm

example : Equiv (fun _ => False)
    (.mk "p" [] [] (CtxEx.G.fill [.ite (.binop .lt CtxEx.zero CtxEx.rn) (CtxEx.wr CtxEx.n)
      [.ite (.binop .eq CtxEx.rn CtxEx.one) [.pass] [.pass]]]))
    (.mk "p" [] [] (CtxEx.G.fill [.ite (.binop .eq CtxEx.rn CtxEx.one)
      [.ite (.binop .lt CtxEx.zero CtxEx.rn) (CtxEx.wr CtxEx.n) [.pass]]
      (if [Stmt.pass].isEmpty then [] else [.ite (.binop .lt CtxEx.zero CtxEx.rn) (CtxEx.wr CtxEx.n) [.pass]])])) :=
  lift_if_else_in_context CtxEx.G _ _ _ _ _ _ _ _ (by simp)
    (fun V _ ext σ₀ σ hr => by
      obtain ⟨h0, h1, v, hv, _⟩ := CtxEx.G_fact ext hr
      exact ⟨b2i (0 < v), b2i (v = 1),
        by simp only [evalC, h0, hv, bind, Except.bind, ctrlOp, pure, Except.pure],
        by simp only [evalC, h1, hv, bind, Except.bind, ctrlOp, pure, Except.pure]⟩)

/-- **defect.**  `if a: x = 1 else: (if b: y = 2)` becomes `if b: (if a: x = 1 else: y = 2)` —
    with `a` true and `b` false the original writes `x`, the result does nothing -/
theorem lift_if_else_unsound :
    Rw.liftIfElse [.ite (.read CtxEx.a []) [.writecfg "c" "x" (.lit (.int 1)) false]
        [.ite (.read CtxEx.n []) [.writecfg "c" "y" (.lit (.int 2)) false] []]]
      = some [.ite (.read CtxEx.n []) [.ite (.read CtxEx.a []) [.writecfg "c" "x" (.lit (.int 1)) false]
        [.writecfg "c" "y" (.lit (.int 2)) false]] []] ∧
    ¬ Equiv (fun _ => False)
      (.mk "p" [] [] [.ite (.read CtxEx.a []) [.writecfg "c" "x" (.lit (.int 1)) false]
        [.ite (.read CtxEx.n []) [.writecfg "c" "y" (.lit (.int 2)) false] []]])
      (.mk "p" [] [] [.ite (.read CtxEx.n []) [.ite (.read CtxEx.a []) [.writecfg "c" "x" (.lit (.int 1)) false]
        [.writecfg "c" "y" (.lit (.int 2)) false]] []]) := by
  refine ⟨by rfl, fun h => ?_⟩
  obtain ⟨o', ho', r⟩ := h Int (fun _ _ => 0) ⟨[(CtxEx.a, 1), (CtxEx.n, 0)], [], [], []⟩
    ⟨[(CtxEx.a, 1), (CtxEx.n, 0)], [], [], [(("c", "x"), .ctrl 1)]⟩ (by rfl)
  have e : execB (fun _ _ => (0 : Int)) (Proc.body (.mk "p" [] []
      [.ite (.read CtxEx.n []) [.ite (.read CtxEx.a []) [.writecfg "c" "x" (.lit (.int 1)) false]
        [.writecfg "c" "y" (.lit (.int 2)) false]] []]))
      ⟨[(CtxEx.a, 1), (CtxEx.n, 0)], [], [], []⟩
      = .ok ⟨[(CtxEx.a, 1), (CtxEx.n, 0)], [], [], []⟩ := by rfl
  rw [e] at ho'
  cases ho'
  obtain ⟨v', hv', _⟩ := r.cfg ("c", "x") (fun hk => hk) (.ctrl 1) (by rfl)
  simp [lookupCfg] at hv'

/-- `for` out of an `if` without `else` (shape `Rw.liftForOutOfIf`): sound when the condition
    reads no configuration state, does not mention the iterator, is evaluable, and the bounds are
    evaluable and ordered — also in the states where the condition is FALSE (the original does
    not evaluate the bounds there) -/
theorem lift_for_out_of_if (i : Sym) (lo hi c : Expr) (A : List Stmt) (par : Bool) (σ : State V)
    (l h b : Int) (hl : evalC σ lo = .ok l) (hh : evalC σ hi = .ok h) (hle : l ≤ h)
    (hc : evalC σ c = .ok b) (fc : c.cfgFree = true) (ic : c.occC i = false) :
    execS ext (.loop i lo hi [.ite c A []] par) σ = execS ext (.ite c [.loop i lo hi A par] []) σ := by
  rw [lift_if_out_of_loop ext i lo hi c A [] par σ l h b hl hh hle hc fc ic,
    ite_eval ext c _ _ σ b hc, ite_eval ext c _ _ σ b hc,
    execB_empty_loop ext i lo hi par σ l h hl hh hle]

theorem lift_for_out_of_if_in_context (Cx : Ctx) (i : Sym) (lo hi c : Expr) (A : List Stmt)
    (par : Bool) (nm : String) (args : List FnArg) (preds : List Expr)
    (fc : c.cfgFree = true) (ic : c.occC i = false)
    (side : ∀ (V : Type) [DataAlg V] (ext : String → List V → V) (σ₀ σ : State V),
        Reach ext Cx [.ite c [.loop i lo hi A par] []] σ₀ σ →
        ∃ l h b, evalC σ lo = .ok l ∧ evalC σ hi = .ok h ∧ l ≤ h ∧ evalC σ c = .ok b) :
    Equiv (fun _ => False)
      (.mk nm args preds (Cx.fill [.ite c [.loop i lo hi A par] []]))
      (.mk nm args preds (Cx.fill [.loop i lo hi [.ite c A []] par])) := by
  refine rewrite_in_context Cx _ _ nm args preds (fun V _ ext σ₀ σ hr => ?_)
  obtain ⟨l, h, b, hl, hh, hle, hc⟩ := side V ext σ₀ σ hr
  rw [execL_singleton, execL_singleton]
  exact ExLe.of_eq (lift_for_out_of_if ext i lo hi c A par σ l h b hl hh hle hc fc ic).symm

/-- `if n == 1: for i in [0, n): a[i] = 1` under the guard `0 < n`: the bounds are ordered
    because of the guard, whatever the value of `n == 1` -/
example : Equiv (fun _ => False)
    (.mk "p" [] [] (CtxEx.G.fill [.ite (.binop .eq CtxEx.rn CtxEx.one)
      [.loop CtxEx.i CtxEx.zero CtxEx.rn (CtxEx.wr CtxEx.i) false] []]))
    (.mk "p" [] [] (CtxEx.G.fill [.loop CtxEx.i CtxEx.zero CtxEx.rn
      [.ite (.binop .eq CtxEx.rn CtxEx.one) (CtxEx.wr CtxEx.i) []] false])) :=
  lift_for_out_of_if_in_context CtxEx.G _ _ _ _ _ _ _ _ _ rfl (by decide)
    (fun V _ ext σ₀ σ hr => by
      obtain ⟨h0, h1, v, hv, hpos⟩ := CtxEx.G_fact ext hr
      exact ⟨0, v, b2i (v = 1), h0, hv, by omega, by
        simp only [evalC, h1, hv, bind, Except.bind, ctrlOp, pure, Except.pure]⟩)

/-- **defect** (`DoLiftScope` checks nothing for this shape): the guard reads a configuration
    field that the loop body writes.  `if c.x == 0: for i in [0,3): c.x = 1; c.n = c.n + 1`
    counts to 3; `for i in [0,3): if c.x == 0: c.x = 1; c.n = c.n + 1` counts to 1 -/
theorem lift_for_out_of_if_unsound :
    Rw.liftForOutOfIf [.ite (.binop .eq (.readcfg "c" "x") (.lit (.int 0)))
        [.loop CtxEx.i (.lit (.int 0)) (.lit (.int 3))
          [.writecfg "c" "x" (.lit (.int 1)) false,
           .writecfg "c" "n" (.binop .add (.readcfg "c" "n") (.lit (.int 1))) false] false] []]
      = some [.loop CtxEx.i (.lit (.int 0)) (.lit (.int 3))
        [.ite (.binop .eq (.readcfg "c" "x") (.lit (.int 0)))
          [.writecfg "c" "x" (.lit (.int 1)) false,
           .writecfg "c" "n" (.binop .add (.readcfg "c" "n") (.lit (.int 1))) false] []] false] ∧
    ¬ Equiv (fun _ => False)
      (.mk "p" [] [] [.ite (.binop .eq (.readcfg "c" "x") (.lit (.int 0)))
        [.loop CtxEx.i (.lit (.int 0)) (.lit (.int 3))
          [.writecfg "c" "x" (.lit (.int 1)) false,
           .writecfg "c" "n" (.binop .add (.readcfg "c" "n") (.lit (.int 1))) false] false] []])
      (.mk "p" [] [] [.loop CtxEx.i (.lit (.int 0)) (.lit (.int 3))
        [.ite (.binop .eq (.readcfg "c" "x") (.lit (.int 0)))
          [.writecfg "c" "x" (.lit (.int 1)) false,
           .writecfg "c" "n" (.binop .add (.readcfg "c" "n") (.lit (.int 1))) false] []] false]) := by
  refine ⟨by rfl, fun h => ?_⟩
  obtain ⟨o', ho', r⟩ := h Int (fun _ _ => 0)
    ⟨[], [], [], [(("c", "x"), .ctrl 0), (("c", "n"), .ctrl 0)]⟩
    ⟨[], [], [], [(("c", "x"), .ctrl 1), (("c", "n"), .ctrl 3)]⟩ (by rfl)
  have e : execB (fun _ _ => (0 : Int)) (Proc.body (.mk "p" [] []
      [.loop CtxEx.i (.lit (.int 0)) (.lit (.int 3))
        [.ite (.binop .eq (.readcfg "c" "x") (.lit (.int 0)))
          [.writecfg "c" "x" (.lit (.int 1)) false,
           .writecfg "c" "n" (.binop .add (.readcfg "c" "n") (.lit (.int 1))) false] []] false]))
      ⟨[], [], [], [(("c", "x"), .ctrl 0), (("c", "n"), .ctrl 0)]⟩
      = .ok ⟨[], [], [], [(("c", "x"), .ctrl 1), (("c", "n"), .ctrl 1)]⟩ := by rfl
  rw [e] at ho'
  cases ho'
  obtain ⟨v', hv', hr⟩ := r.cfg ("c", "n") (fun hk => hk) (.ctrl 3) (by rfl)
  simp [lookupCfg] at hv'
  subst hv'
  simp [CfgValRefines] at hr

/-- **new monitor trip**: `if false: for i in [2, 1): pass` runs; `for i in [2, 1): if false: pass`
    raises `badLoop` (the bounds of the loop are now evaluated although the guard is false) -/
theorem lift_for_out_of_if_new_failure :
    Rw.liftForOutOfIf [.ite (.lit (.bool false))
        [.loop CtxEx.i (.lit (.int 2)) (.lit (.int 1)) [.pass] false] []]
      = some [.loop CtxEx.i (.lit (.int 2)) (.lit (.int 1)) [.ite (.lit (.bool false)) [.pass] []] false] ∧
    ¬ Equiv (fun _ => False)
      (.mk "p" [] [] [.ite (.lit (.bool false))
        [.loop CtxEx.i (.lit (.int 2)) (.lit (.int 1)) [.pass] false] []])
      (.mk "p" [] [] [.loop CtxEx.i (.lit (.int 2)) (.lit (.int 1))
        [.ite (.lit (.bool false)) [.pass] []] false]) := by
  refine ⟨by rfl, fun h => ?_⟩
  obtain ⟨o', ho', _⟩ := h Int (fun _ _ => 0) ⟨[], [], [], []⟩ ⟨[], [], [], []⟩ (by rfl)
  have e : execB (fun _ _ => (0 : Int)) (Proc.body (.mk "p" [] []
      [.loop CtxEx.i (.lit (.int 2)) (.lit (.int 1)) [.ite (.lit (.bool false)) [.pass] []] false]))
      ⟨[], [], [], []⟩ = .error .badLoop := by rfl
  rw [e] at ho'
  cases ho'

/-- `if` out of a `for` exactly as `DoLiftScope` builds it (shape `Rw.liftIfOutOfLoop`: no `else`
    block when the inner `if` has none); same hypotheses as `lift_if_out_of_loop` -/
theorem lift_if_out_of_loop_shape (i : Sym) (lo hi c : Expr) (A B : List Stmt) (par : Bool)
    (σ : State V) (l h b : Int) (hl : evalC σ lo = .ok l) (hh : evalC σ hi = .ok h) (hle : l ≤ h)
    (hc : evalC σ c = .ok b) (fc : c.cfgFree = true) (ic : c.occC i = false) :
    execS ext (.loop i lo hi [.ite c A B] par) σ
      = execS ext (.ite c [.loop i lo hi A par] (if B.isEmpty then [] else [.loop i lo hi B par])) σ := by
  rw [lift_if_out_of_loop ext i lo hi c A B par σ l h b hl hh hle hc fc ic]
  cases B with
  | nil =>
    simp only [List.isEmpty_nil, if_true]
    rw [ite_eval ext c _ _ σ b hc, ite_eval ext c _ _ σ b hc,
      execB_empty_loop ext i lo hi par σ l h hl hh hle]
  | cons s B' => simp only [List.isEmpty_cons, Bool.false_eq_true, if_false]

theorem lift_if_out_of_loop_shape_in_context (Cx : Ctx) (i : Sym) (lo hi c : Expr) (A B : List Stmt)
    (par : Bool) (nm : String) (args : List FnArg) (preds : List Expr)
    (fc : c.cfgFree = true) (ic : c.occC i = false)
    (side : ∀ (V : Type) [DataAlg V] (ext : String → List V → V) (σ₀ σ : State V),
        Reach ext Cx [.loop i lo hi [.ite c A B] par] σ₀ σ →
        ∃ l h b, evalC σ lo = .ok l ∧ evalC σ hi = .ok h ∧ l ≤ h ∧ evalC σ c = .ok b) :
    Equiv (fun _ => False)
      (.mk nm args preds (Cx.fill [.loop i lo hi [.ite c A B] par]))
      (.mk nm args preds (Cx.fill
        [.ite c [.loop i lo hi A par] (if B.isEmpty then [] else [.loop i lo hi B par])])) := by
  refine rewrite_in_context Cx _ _ nm args preds (fun V _ ext σ₀ σ hr => ?_)
  obtain ⟨l, h, b, hl, hh, hle, hc⟩ := side V ext σ₀ σ hr
  rw [execL_singleton, execL_singleton]
  exact ExLe.of_eq (lift_if_out_of_loop_shape ext i lo hi c A B par σ l h b hl hh hle hc fc ic)

example : Equiv (fun _ => False)
    (.mk "p" [] [] (CtxEx.G.fill [.loop CtxEx.i CtxEx.zero CtxEx.rn
      [.ite (.binop .eq CtxEx.rn CtxEx.one) (CtxEx.wr CtxEx.i) []] false]))
    (.mk "p" [] [] (CtxEx.G.fill [.ite (.binop .eq CtxEx.rn CtxEx.one)
      [.loop CtxEx.i CtxEx.zero CtxEx.rn (CtxEx.wr CtxEx.i) false]
      (if ([] : List Stmt).isEmpty then [] else [.loop CtxEx.i CtxEx.zero CtxEx.rn [] false])])) :=
  lift_if_out_of_loop_shape_in_context CtxEx.G _ _ _ _ _ _ _ _ _ _ rfl (by decide)
    (fun V _ ext σ₀ σ hr => by
      obtain ⟨h0, h1, v, hv, hpos⟩ := CtxEx.G_fact ext hr
      exact ⟨0, v, b2i (v = 1), h0, hv, by omega, by
        simp only [evalC, h1, hv, bind, Except.bind, ctrlOp, pure, Except.pure]⟩)

/-- **defect** (`DoLiftScope` only checks that the condition does not mention the iterator): the
    condition reads a configuration field that the body writes.
    `for i in [0,3): if c.x == 0: c.x = 1; c.n = c.n + 1` counts to 1, the result
    `if c.x == 0: for i in [0,3): c.x = 1; c.n = c.n + 1` counts to 3 -/
theorem lift_if_out_of_loop_unsound :
    Rw.liftIfOutOfLoop [.loop CtxEx.i (.lit (.int 0)) (.lit (.int 3))
        [.ite (.binop .eq (.readcfg "c" "x") (.lit (.int 0)))
          [.writecfg "c" "x" (.lit (.int 1)) false,
           .writecfg "c" "n" (.binop .add (.readcfg "c" "n") (.lit (.int 1))) false] []] false]
      = some [.ite (.binop .eq (.readcfg "c" "x") (.lit (.int 0)))
        [.loop CtxEx.i (.lit (.int 0)) (.lit (.int 3))
          [.writecfg "c" "x" (.lit (.int 1)) false,
           .writecfg "c" "n" (.binop .add (.readcfg "c" "n") (.lit (.int 1))) false] false] []] ∧
    ¬ Equiv (fun _ => False)
      (.mk "p" [] [] [.loop CtxEx.i (.lit (.int 0)) (.lit (.int 3))
        [.ite (.binop .eq (.readcfg "c" "x") (.lit (.int 0)))
          [.writecfg "c" "x" (.lit (.int 1)) false,
           .writecfg "c" "n" (.binop .add (.readcfg "c" "n") (.lit (.int 1))) false] []] false])
      (.mk "p" [] [] [.ite (.binop .eq (.readcfg "c" "x") (.lit (.int 0)))
        [.loop CtxEx.i (.lit (.int 0)) (.lit (.int 3))
          [.writecfg "c" "x" (.lit (.int 1)) false,
           .writecfg "c" "n" (.binop .add (.readcfg "c" "n") (.lit (.int 1))) false] false] []]) := by
  refine ⟨by rfl, fun h => ?_⟩
  obtain ⟨o', ho', r⟩ := h Int (fun _ _ => 0)
    ⟨[], [], [], [(("c", "x"), .ctrl 0), (("c", "n"), .ctrl 0)]⟩
    ⟨[], [], [], [(("c", "x"), .ctrl 1), (("c", "n"), .ctrl 1)]⟩ (by rfl)
  have e : execB (fun _ _ => (0 : Int)) (Proc.body (.mk "p" [] []
      [.ite (.binop .eq (.readcfg "c" "x") (.lit (.int 0)))
        [.loop CtxEx.i (.lit (.int 0)) (.lit (.int 3))
          [.writecfg "c" "x" (.lit (.int 1)) false,
           .writecfg "c" "n" (.binop .add (.readcfg "c" "n") (.lit (.int 1))) false] false] []]))
      ⟨[], [], [], [(("c", "x"), .ctrl 0), (("c", "n"), .ctrl 0)]⟩
      = .ok ⟨[], [], [], [(("c", "x"), .ctrl 1), (("c", "n"), .ctrl 3)]⟩ := by rfl
  rw [e] at ho'
  cases ho'
  obtain ⟨v', hv', hr⟩ := r.cfg ("c", "n") (fun hk => hk) (.ctrl 1) (by rfl)
  simp [lookupCfg] at hv'
  subst hv'
  simp [CfgValRefines] at hr

end LiftScope

end Exo.C01
