/-
  Property C10 — configuration rewrites report every field they may change.

  `Equiv K p p'` (ExoModel.Equiv): every run of `p` that trips no monitor is matched by a run of
  `p'` from the same initial state (arguments, buffers, configuration) whose final state has the
  same buffers (up to poison refinement) and the same configuration *outside `K`*.  The theorems
  below derive `Equiv K` for the four configuration rewrites, with `K` the set the real code
  reports, from explicit semantic side conditions — the facts `Check_DeleteConfigWrite` and
  `Check_ExtendEqv` (src/exo/rewrite/new_eff.py) ask the SMT solver for:

    only globals modified      ⇝  frame lemma `writecfg_only_changes_its_field` (a theorem, no hypothesis)
    changed value never read   ⇝  `CtxInsens0 … K C` / `Insensitive K tail`  (what runs after the rewritten
                                   place runs the same from states that differ only in `K`)
    visible = ¬(unchanged ∨ overwritten)
                               ⇝  `Overwrites K K' tail` shrinks the reported set from `K` to `K'`;
                                   an unchanged write gives `Equiv ∅` (`delete_config_unchanged…`)

  All statements quantify over all programs, contexts (any depth of loops and branches), states,
  data algebras and interpretations of externs; proofs are by induction over contexts and over the
  iteration count of loops (Lemmas/ConfigSim), expressions (Lemmas/ConfigBind) and the whole
  mutual syntax (Lemmas/ConfigAvoid).
-/
import ExoModel.Config
import ExoModel.Lemmas.Rewrites
import ExoModel.DataLaws
import ExoModel.Lemmas.ConfigSim
import ExoModel.Lemmas.ConfigBind
import ExoModel.Lemmas.ConfigCall
import ExoModel.Lemmas.ConfigBindStmt
import ExoModel.Lemmas.ConfigAvoid
import ExoModel.Lemmas.ConfigEvalOk

set_option linter.unusedSectionVars false
set_option linter.unusedVariables false
namespace Exo.C10
open Exo Exo.Config

/-! ### 0. reported sets compose -/

/-- a chain of rewrites reports the union of the sets of its steps
    (`derive_proc` records one edge per step; `get_strictest_eqv_proc` returns the union along
    the path — C11 proves that part) -/
theorem reported_sets_compose {K₁ K₂ : FieldSet} {p q r : Proc}
    (h₁ : Equiv K₁ p q) (h₂ : Equiv K₂ q r) : Equiv (union K₁ K₂) p r :=
  Exo.equiv_trans h₁ h₂

/-- a larger reported set is still correct -/
theorem reported_set_mono {K K' : FieldSet} {p q : Proc} (h : Equiv K p q) (hK : ∀ k, K k → K' k) :
    Equiv K' p q := by
  intro V _ ext σ o ho
  obtain ⟨o', ho', r⟩ := h V ext σ o ho
  exact ⟨o', ho', ⟨r.heapLen, r.cells, fun k hk => r.cfg k (fun h => hk (hK k h))⟩⟩

example : Equiv (union (single ("c", "f")) (single ("c", "g"))) (.mk "p" [] [] [.pass])
    (.mk "p" [] [] [.pass]) :=
  reported_sets_compose
    (reported_set_mono (equiv_refl _) (fun _ h => h.elim))
    (reported_set_mono (equiv_refl _) (fun _ h => h.elim))

/-! ### 1. frame lemma: "only globals modified" -/

/-- a configuration write leaves the control environment, the views, every buffer and every
    other configuration field untouched -/
theorem writecfg_only_changes_its_field {V : Type} [DataAlg V] (ext : String → List V → V)
    (c f : String) (rhs : Expr) (d : Bool) (σ o : State V)
    (h : execS ext (.writecfg c f rhs d) σ = .ok o) :
    o.env = σ.env ∧ o.views = σ.views ∧ o.heap = σ.heap ∧
      ∀ k, k ≠ (c, f) → lookupCfg k o.cfg = lookupCfg k σ.cfg :=
  let fr := writecfg_frame ext h
  ⟨fr.env, fr.views, fr.heap, fr.cfg⟩

example : execS (V := Int) (fun _ _ => 0) (.writecfg "c" "f" (.lit (.int 7)) false)
    ⟨[], [], [[some 1]], [(("c", "g"), .ctrl 3)]⟩
    = Except.ok ⟨[], [], [[some 1]], [(("c", "g"), .ctrl 3), (("c", "f"), .ctrl 7)]⟩ := by
  simp [execS, evalC, setCfg, bind, Except.bind, pure, Except.pure]

/-! ### material for the non-vacuity examples -/

macro "avoid" : tactic =>
  `(tactic| simp [StmtsAvoid, StmtAvoids, ExprsAvoid, ExprAvoids, ProcAvoids, FnArgsAvoid, ArgTyAvoids,
      single, noField])

def xS : Sym := ⟨"x", 1⟩
def iS : Sym := ⟨"i", 2⟩
def bS : Sym := ⟨"b", 3⟩
def aS : Sym := ⟨"a", 4⟩
abbrev one : Expr := .lit (.data 1 1)

/-- `pass; for i in [0,3): (□ ; x = 1.0) ; x = c.g`  — the hole is below a loop, something runs
    after it in the loop body and after the loop, another field is read -/
def C1 : Ctx := .seq [.pass] (.loop iS (.lit (.int 0)) (.lit (.int 3)) false
  (.seq [] .hole [.assign xS [] one])) [.assign xS [] (.readcfg "c" "g")]

/-- `if b: x = 1.0` -/
def sIf : Stmt := .ite (.read bS []) [.assign xS [] one] []
/-- `x = a + 1.0` -/
def sAdd : Stmt := .assign xS [] (.binop .add (.read aS []) one)

/-! ### 1b. the side conditions are inhabited: code that does not mention a field is insensitive to it -/

/-- syntactic sufficient condition for every `Insensitive` hypothesis above -/
theorem insensitive_of_no_read {K : FieldSet} {B : List Stmt} (h : StmtsAvoid K B) : Insensitive K B :=
  insensitive_of_avoids h

/-- a literal write to `(c,f)` overwrites it -/
theorem overwrites_of_lit_write (c f : String) (n : Int) :
    OverwrittenBy (c, f) [.writecfg c f (.lit (.int n)) false] := by
  have := sim_overwrite noField c f (.lit (.int n)) false (fun _ _ _ _ => by simp [evalC])
    (fun _ _ _ _ _ _ => by simp [evalD])
  exact sim_weaken this (fun k hk => Or.inr hk) (fun _ h => h)

/-- the cursor-path form of the rewrites is the context form used above -/
theorem path_is_context (rw : List Stmt → Option (List Stmt)) (p : List Step) (B B' : List Stmt)
    (h : applyAt rw p B = some B') :
    ∃ (C : Ctx) (H H' : List Stmt), B = C.fill H ∧ B' = C.fill H' ∧ rw H = some H' :=
  applyAt_ctx rw p B B' h

theorem ex_C1_insens : CtxInsens0 agreeFam (single ("c", "f")) C1 := by
  refine ⟨⟨sim_refl_none _ _, trivial, insensitive_of_no_read (by avoid)⟩,
    insensitive_of_no_read (by avoid)⟩

/-! ### 2. the general shape: a rewrite at a hole, a context, a tail -/

/-- If the blocks `H`, `H'` at the hole simulate each other modulo `K`, everything the context
    runs after the hole is insensitive to `K`, and the tail of the procedure maps states that
    differ in `K` to states that differ in `K'` (it overwrites `K ∖ K'` before reading it), then
    the procedures are equivalent modulo `K'`. -/
theorem equiv_of_hole_sim (R : RelFam) {K K' : FieldSet} {H H' tail : List Stmt} (C : Ctx)
    (h0 : Sim0 R K H H') (hl : inLoop C = true → Sim R K K H H')
    (hC : CtxInsens0 R K C) (htail : Sim R K K' tail tail)
    (nm : String) (args : List FnArg) (preds : List Expr) :
    Equiv K' (.mk nm args preds (C.fill H ++ tail)) (.mk nm args preds (C.fill H' ++ tail)) := by
  have := sim0_seq (pre := []) (sim0_ctx h0 C hl hC) htail
  simp only [List.nil_append] at this
  exact equiv_of_sim0 this nm args preds

/-- the same with exact agreement of the final states (buffers equal, not merely refined) -/
theorem equivExact_of_hole_sim {K K' : FieldSet} {H H' tail : List Stmt} (C : Ctx)
    (h0 : Sim0 agreeFam K H H') (hl : inLoop C = true → Sim agreeFam K K H H')
    (hC : CtxInsens0 agreeFam K C) (htail : Overwrites K K' tail)
    (nm : String) (args : List FnArg) (preds : List Expr) :
    EquivExact K' (.mk nm args preds (C.fill H ++ tail)) (.mk nm args preds (C.fill H' ++ tail)) := by
  have := sim0_seq (pre := []) (sim0_ctx h0 C hl hC) htail
  simp only [List.nil_append] at this
  exact equivExact_of_sim0 this nm args preds

/-! ### 3. delete_config -/

/-- **delete_config.**  Deleting `c.f = rhs` anywhere (below any loops and branches) gives a
    procedure equivalent modulo `K'`, where `K ∋ (c,f)` is a set of fields the rest of the enclosing
    statements does not read (`CtxInsens0`) and the tail of the procedure takes `K` to `K'`.
    * `tail` insensitive to `K = {(c,f)}`           ⇒ `Equiv {(c,f)}`  (field reported)
    * `tail` overwrites `(c,f)` on every path       ⇒ `Equiv ∅`        (field not reported) -/
theorem delete_config {K K' : FieldSet} (C : Ctx) (c f : String) (rhs : Expr) (d : Bool)
    (tail : List Stmt) (hK : K (c, f)) (hC : CtxInsens0 agreeFam K C) (htail : Overwrites K K' tail)
    (nm : String) (args : List FnArg) (preds : List Expr) :
    EquivExact K' (.mk nm args preds (C.fill [.writecfg c f rhs d] ++ tail))
                  (.mk nm args preds (C.fill [] ++ tail)) := by
  have hs : Sim agreeFam K K [.writecfg c f rhs d] [] :=
    sim_weaken (sim_delete_write agreeFam K c f rhs d) (fun _ h => h) (add_of_mem hK)
  exact equivExact_of_hole_sim C (sim0_of_sim hs) (fun _ => hs) hC htail nm args preds

/-- the same when the deleted write was the only statement of its block and `pass` is left in
    its place (what the cursor deletion does; `deleteWrite` mirrors it) -/
theorem delete_config_leaving_pass {K K' : FieldSet} (C : Ctx) (c f : String) (rhs : Expr) (d : Bool)
    (tail : List Stmt) (hK : K (c, f)) (hC : CtxInsens0 agreeFam K C) (htail : Overwrites K K' tail)
    (nm : String) (args : List FnArg) (preds : List Expr) :
    EquivExact K' (.mk nm args preds (C.fill [.writecfg c f rhs d] ++ tail))
                  (.mk nm args preds (C.fill [.pass] ++ tail)) := by
  have hs : Sim agreeFam K K [.writecfg c f rhs d] [.pass] :=
    sim_weaken (sim_delete_write_pass agreeFam K c f rhs d) (fun _ h => h) (add_of_mem hK)
  exact equivExact_of_hole_sim C (sim0_of_sim hs) (fun _ => hs) hC htail nm args preds

example : EquivExact (single ("c", "f"))
    (.mk "p" [] [] ((Ctx.loop iS (.lit (.int 0)) (.lit (.int 3)) false .hole).fill
        [.writecfg "c" "f" (.lit (.int 1)) false] ++ [.pass]))
    (.mk "p" [] [] ((Ctx.loop iS (.lit (.int 0)) (.lit (.int 3)) false .hole).fill [.pass] ++ [.pass])) :=
  delete_config_leaving_pass (K := single ("c", "f"))
    (Ctx.loop iS (.lit (.int 0)) (.lit (.int 3)) false .hole) "c" "f" _ _ [.pass] rfl
    (by simp [CtxInsens0, CtxInsens]) (insensitive_of_no_read (by avoid)) _ _ _

/-- the executable model `deleteWrite` produces exactly the two shapes covered above -/
theorem deleteWrite_shapes {B B' : List Stmt} {i : Nat} {k : Field}
    (h : deleteWrite B i = some (k, B')) :
    ∃ pre post rhs d, B = pre ++ [.writecfg k.1 k.2 rhs d] ++ post ∧
      (B' = pre ++ post ∨ (pre = [] ∧ post = [] ∧ B' = [.pass])) :=
  deleteWrite_spec h

example : deleteWrite [.writecfg "c" "f" (.lit (.int 1)) false] 0 = some (("c", "f"), [.pass]) := by
  simp [deleteWrite, orPass]

/-- clause "field is visible": the rest does not read `(c,f)`; the result differs at most in `(c,f)` -/
theorem delete_config_reports_field (C : Ctx) (c f : String) (rhs : Expr) (d : Bool)
    (tail : List Stmt) (hC : CtxInsens0 agreeFam (single (c, f)) C) (htail : NotReadBy (c, f) tail)
    (nm : String) (args : List FnArg) (preds : List Expr) :
    Equiv (single (c, f)) (.mk nm args preds (C.fill [.writecfg c f rhs d] ++ tail))
                          (.mk nm args preds (C.fill [] ++ tail)) :=
  equiv_of_equivExact (delete_config (K := single (c, f)) C c f rhs d tail rfl hC htail nm args preds)

example : Equiv (single ("c", "f"))
    (.mk "p" [] [] (C1.fill [.writecfg "c" "f" (.lit (.int 1)) false] ++ [.pass]))
    (.mk "p" [] [] (C1.fill [] ++ [.pass])) :=
  delete_config_reports_field C1 "c" "f" _ _ [.pass] ex_C1_insens (insensitive_of_no_read (by avoid)) _ _ _

/-- clause "overwritten": if the tail overwrites `(c,f)` on every path before reading it, nothing
    at all is observable -/
theorem delete_config_overwritten (C : Ctx) (c f : String) (rhs : Expr) (d : Bool)
    (tail : List Stmt) (hC : CtxInsens0 agreeFam (single (c, f)) C) (htail : OverwrittenBy (c, f) tail)
    (nm : String) (args : List FnArg) (preds : List Expr) :
    Equiv noField (.mk nm args preds (C.fill [.writecfg c f rhs d] ++ tail))
               (.mk nm args preds (C.fill [] ++ tail)) :=
  equiv_of_equivExact (delete_config (K := single (c, f)) C c f rhs d tail rfl hC htail nm args preds)

example : Equiv noField
    (.mk "p" [] [] (C1.fill [.writecfg "c" "f" (.lit (.int 1)) false] ++ [.writecfg "c" "f" (.lit (.int 5)) false]))
    (.mk "p" [] [] (C1.fill [] ++ [.writecfg "c" "f" (.lit (.int 5)) false])) :=
  delete_config_overwritten C1 "c" "f" _ _ _ ex_C1_insens (overwrites_of_lit_write "c" "f" 5) _ _ _

/-- clause "unchanged", any position: a write that never changes the value of its field may be
    deleted in any context with nothing observable.  (Satisfiable for all states only by writes like
    `c.f = c.f`; the dataflow version is `delete_config_unchanged_toplevel_partial`.) -/
theorem delete_config_unchanged (C : Ctx) (c f : String) (rhs : Expr) (d : Bool)
    (hsame : ∀ (V : Type) [DataAlg V] (ext : String → List V → V) (σ o : State V),
      execS ext (.writecfg c f rhs d) σ = .ok o → lookupCfg (c, f) o.cfg = lookupCfg (c, f) σ.cfg)
    (nm : String) (args : List FnArg) (preds : List Expr) :
    Equiv noField (.mk nm args preds (C.fill [.writecfg c f rhs d]))
               (.mk nm args preds (C.fill [])) := by
  have hle : BlockLe [.writecfg c f rhs d] [] := by
    intro V _ ext σ o ho
    rw [execL_singleton] at ho
    have hs := hsame V ext σ o ho
    obtain ⟨v, rfl, _⟩ := writecfg_ok ext ho
    simp only [execL, pure, Except.pure]
    have : lookupCfg (c, f) σ.cfg = some v := by
      rw [← hs]; exact lookupCfg_setCfg_same (c, f) v σ.cfg
    rw [setCfg_same (c, f) v σ.cfg this]
  exact equiv_of_blockLe (ctx_le hle C) nm args preds

example : Equiv noField
    (.mk "p" [] [] (C1.fill [.writecfg "c" "f" (.readcfg "c" "f") false]))
    (.mk "p" [] [] (C1.fill [])) := by
  refine delete_config_unchanged C1 "c" "f" _ _ ?_ _ _ _
  intro V _ ext σ o h
  obtain ⟨v, rfl, hv⟩ := writecfg_ok ext h
  rcases hv with ⟨hd, _⟩ | ⟨_, n, hn, rfl⟩
  · cases hd
  · simp only [evalC] at hn
    split at hn
    · rename_i m hm
      cases hn
      show lookupCfg ("c", "f") (setCfg ("c", "f") _ σ.cfg) = _
      rw [lookupCfg_setCfg_same, hm]
    · cases hn
    · cases hn

/-- clause "unchanged", dataflow version: if on every run the deleted write stores the value the
    field already has at that point, nothing is observable — whatever the rest does.
    PARTIAL: the deleted write sits at the top level of the body (`pre ++ [w] ++ post`); below a
    loop or branch the hypothesis would have to range over the states reaching the hole. -/
theorem delete_config_unchanged_toplevel_partial (pre post : List Stmt) (c f : String) (rhs : Expr)
    (d : Bool)
    (hsame : ∀ (V : Type) [DataAlg V] (ext : String → List V → V) (σ σ1 σ2 : State V),
      execL ext pre σ = .ok σ1 → execS ext (.writecfg c f rhs d) σ1 = .ok σ2 →
      lookupCfg (c, f) σ2.cfg = lookupCfg (c, f) σ1.cfg)
    (nm : String) (args : List FnArg) (preds : List Expr) :
    Equiv noField (.mk nm args preds (pre ++ [.writecfg c f rhs d] ++ post))
               (.mk nm args preds (pre ++ post)) := by
  refine equiv_of_blockLe ?_ nm args preds
  intro V _ ext σ o ho
  rw [execL_append, execL_append] at ho
  rw [execL_append]
  cases hp : execL ext pre σ with
  | error e => rw [hp] at ho; simp [bind, Except.bind] at ho
  | ok σ1 =>
    rw [hp] at ho
    simp only [bind, Except.bind] at ho ⊢
    rw [execL_singleton] at ho
    cases hw : execS ext (.writecfg c f rhs d) σ1 with
    | error e => rw [hw] at ho; cases ho
    | ok σ2 =>
      rw [hw] at ho
      have hs := hsame V ext σ σ1 σ2 hp hw
      obtain ⟨v, rfl, _⟩ := writecfg_ok ext hw
      have : lookupCfg (c, f) σ1.cfg = some v := by
        rw [← hs]; exact lookupCfg_setCfg_same (c, f) v σ1.cfg
      rw [setCfg_same (c, f) v σ1.cfg this] at ho
      exact ho

example : Equiv noField
    (.mk "p" [] [] ([.writecfg "c" "f" (.lit (.int 2)) false] ++ [.writecfg "c" "f" (.lit (.int 2)) false]
       ++ [.assign xS [] (.readcfg "c" "f")]))
    (.mk "p" [] [] ([.writecfg "c" "f" (.lit (.int 2)) false] ++ [.assign xS [] (.readcfg "c" "f")])) := by
  refine delete_config_unchanged_toplevel_partial _ _ "c" "f" _ _ ?_ _ _ _
  intro V _ ext σ σ1 σ2 h1 h2
  rw [execL_singleton] at h1
  obtain ⟨v, rfl, hv⟩ := writecfg_ok ext h1
  obtain ⟨v2, rfl, hv2⟩ := writecfg_ok ext h2
  rcases hv with ⟨hd, _⟩ | ⟨_, n, hn, rfl⟩
  · cases hd
  rcases hv2 with ⟨hd, _⟩ | ⟨_, n2, hn2, rfl⟩
  · cases hd
  simp only [evalC, pure, Except.pure] at hn hn2
  cases hn; cases hn2
  show lookupCfg _ (setCfg _ _ (setCfg _ _ _)) = lookupCfg _ (setCfg _ _ _)
  rw [lookupCfg_setCfg_same, lookupCfg_setCfg_same]

/-! ### 4. write_config -/

/-- **write_config.**  Inserting `c.f = rhs` at any gap, for a right-hand side that can be
    evaluated in every state (a literal), is the mirror image of `delete_config`. -/
theorem write_config {K K' : FieldSet} (C : Ctx) (c f : String) (rhs : Expr) (d : Bool)
    (tail : List Stmt) (hK : K (c, f))
    (htotal : ∀ (V : Type) [DataAlg V] (ext : String → List V → V) (σ : State V),
      ∃ o, execS ext (.writecfg c f rhs d) σ = .ok o)
    (hC : CtxInsens0 agreeFam K C) (htail : Overwrites K K' tail)
    (nm : String) (args : List FnArg) (preds : List Expr) :
    EquivExact K' (.mk nm args preds (C.fill [] ++ tail))
                  (.mk nm args preds (C.fill [.writecfg c f rhs d] ++ tail)) := by
  have hs : Sim agreeFam K K [] [.writecfg c f rhs d] :=
    sim_weaken (sim_insert_write agreeFam K c f rhs d (fun V _ ext _ σ' _ => htotal V ext σ'))
      (fun _ h => h) (add_of_mem hK)
  exact equivExact_of_hole_sim C (sim0_of_sim hs) (fun _ => hs) hC htail nm args preds

/-- literal right-hand sides are total -/
theorem lit_write_total (c f : String) (n : Int) (V : Type) [DataAlg V] (ext : String → List V → V)
    (σ : State V) : ∃ o, execS ext (.writecfg c f (.lit (.int n)) false) σ = .ok o :=
  ⟨{ σ with cfg := setCfg (c, f) (.ctrl n) σ.cfg },
    by simp [execS, evalC, bind, Except.bind, pure, Except.pure]⟩

theorem data_lit_write_total (c f : String) (n : Int) (m : Nat) (V : Type) [DataAlg V]
    (ext : String → List V → V) (σ : State V) :
    ∃ o, execS ext (.writecfg c f (.lit (.data n m)) true) σ = .ok o :=
  ⟨{ σ with cfg := setCfg (c, f) (.data (some (DataAlg.ofRat n m))) σ.cfg },
    by simp [execS, evalD, bind, Except.bind, pure, Except.pure]⟩

example : EquivExact (single ("c", "f"))
    (.mk "p" [] [] (C1.fill [] ++ [.pass]))
    (.mk "p" [] [] (C1.fill [.writecfg "c" "f" (.lit (.int 1)) false] ++ [.pass])) :=
  write_config (K := single ("c", "f")) C1 "c" "f" _ _ [.pass] rfl (lit_write_total "c" "f" 1) ex_C1_insens
    (insensitive_of_no_read (by avoid)) _ _ _

/-- **write_config** with an arbitrary right-hand side (a variable of the procedure), under the
    precondition `Pre` on initial states that makes it evaluable where it is inserted.
    PARTIAL: insertion at the top level of the body only (`pre ++ post ↦ pre ++ [w] ++ post`). -/
theorem write_config_toplevel_partial {K' : FieldSet} (pre post : List Stmt) (c f : String)
    (rhs : Expr) (d : Bool) (Pre : ∀ (V : Type), State V → Prop)
    (hsafe : ∀ (V : Type) [DataAlg V] (ext : String → List V → V) (σ σ1 : State V), Pre V σ →
      execL ext pre σ = .ok σ1 → ∃ σ2, execS ext (.writecfg c f rhs d) σ1 = .ok σ2)
    (hpost : Overwrites (single (c, f)) K' post)
    (nm : String) (args : List FnArg) (preds : List Expr) :
    EquivOn Pre K' (.mk nm args preds (pre ++ post))
                   (.mk nm args preds (pre ++ [.writecfg c f rhs d] ++ post)) := by
  intro V _ ext σ o hP ho
  simp only [execB, Proc.body] at ho ⊢
  obtain ⟨s, hs, rfl⟩ := map_leave_ok ho
  rw [execL_append] at hs
  cases hp : execL ext pre σ with
  | error e => rw [hp] at hs; cases hs
  | ok σ1 =>
    rw [hp] at hs
    simp only [bind, Except.bind] at hs
    obtain ⟨σ2, hw⟩ := hsafe V ext σ σ1 hP hp
    have hr : CfgAgreeOutside (single (c, f)) σ1 σ2 :=
      agreeFam.mono (fun k hk => hk.elim (fun h => h.elim) id)
        (agreeFam.frameR (K := noField) (agreeFam.refl noField σ1) (writecfg_frame ext hw))
    obtain ⟨s', hs', r⟩ := hpost V ext σ1 σ2 s hr hs
    refine ⟨State.leave σ s', ?_, refines_leave (agreeFam.toRefines r)⟩
    rw [execL_append, execL_append, hp]
    simp only [bind, Except.bind, execL_singleton, hw, hs']
    rfl

example : EquivOn (fun V σ => ∃ v, lookupSym bS σ.env = some v) (single ("c", "f"))
    (.mk "p" [] [] ([] ++ [.pass]))
    (.mk "p" [] [] ([] ++ [.writecfg "c" "f" (.read bS []) false] ++ [.pass])) := by
  refine write_config_toplevel_partial [] [.pass] "c" "f" (.read bS []) false _ ?_
    (insensitive_of_no_read (by avoid)) _ _ _
  intro V _ ext σ σ1 hP h
  simp only [execL, pure, Except.pure] at h
  cases h
  obtain ⟨v, hv⟩ := hP
  exact ⟨_, by simp [execS, evalC, hv, bind, Except.bind, pure, Except.pure]; rfl⟩

/-! ### 5. bind_config -/

/-- **bind_config.**  `s[e] ↦ c.f = e ; s[c.f]` (the model `bindStmt` of `DoBindConfig`) anywhere in
    a procedure.  Side conditions: `s` does not read the fields of `K ∋ (c,f)`; the value of `e`
    does not depend on `c.f` (so the read right after the write yields `e`'s value — for the plain
    variable reads `bind_config` accepts this is `stable_read`, see `bind_config_var`); context
    and tail as for `delete_config`.  That the inserted write cannot fail where `s` ran is proved
    (`bindStmt_safe`: the occurrence is evaluated by `s` itself), not assumed. -/
theorem bind_config {K K' : FieldSet} (C : Ctx) {s : Stmt} {slot : Slot} {path : EPath}
    {c f : String} {d : Bool} {e : Expr} {ws : List Stmt} (tail : List Stmt)
    (hb : bindStmt s slot path c f d = some (e, ws)) (hK : K (c, f))
    (hself : Insensitive K [s]) (hst : StableUnder (c, f) e)
    (hC : CtxInsens0 agreeFam K C) (htail : Overwrites K K' tail)
    (nm : String) (args : List FnArg) (preds : List Expr) :
    EquivExact K' (.mk nm args preds (C.fill [s] ++ tail)) (.mk nm args preds (C.fill ws ++ tail)) := by
  have hs : Sim agreeFam K K [s] ws :=
    bindStmt_sim agreeFam K hb hK hself (fun V _ ext σ o h => bindStmt_safe ext hb σ o h) hst
  exact equivExact_of_hole_sim C (sim0_of_sim hs) (fun _ => hs) hC htail nm args preds

/-- the case the API admits: the bound expression is a variable read -/
theorem bind_config_var {K K' : FieldSet} (C : Ctx) {s : Stmt} {slot : Slot} {path : EPath}
    {c f : String} {d : Bool} {x : Sym} {ws : List Stmt} (tail : List Stmt)
    (hb : bindStmt s slot path c f d = some (.read x [], ws)) (hK : K (c, f))
    (hself : Insensitive K [s])
    (hC : CtxInsens0 agreeFam K C) (htail : Overwrites K K' tail)
    (nm : String) (args : List FnArg) (preds : List Expr) :
    Equiv K' (.mk nm args preds (C.fill [s] ++ tail)) (.mk nm args preds (C.fill ws ++ tail)) :=
  equiv_of_equivExact
    (bind_config C tail hb hK hself (stable_read (c, f) x) hC htail nm args preds)

example : Equiv (single ("c", "f"))
    (.mk "p" [] [] (C1.fill [sIf] ++ [.pass]))
    (.mk "p" [] [] (C1.fill [.writecfg "c" "f" (.read bS []) false,
                             .ite (.readcfg "c" "f") [.assign xS [] one] []] ++ [.pass])) := by
  have hb : bindStmt sIf .cond [] "c" "f" false =
      some (.read bS [], [.writecfg "c" "f" (.read bS []) false,
                          .ite (.readcfg "c" "f") [.assign xS [] one] []]) := by
    simp [bindStmt, sIf, exprAt, subAt, occMode, setExpr, replaceAt]
  exact bind_config_var (K := single ("c", "f")) C1 [.pass] hb rfl
    (insensitive_of_no_read (by simp [sIf]; avoid)) ex_C1_insens (insensitive_of_no_read (by avoid)) _ _ _

/-- data-valued binding inside an arithmetic expression, below a loop -/
example : Equiv (single ("c", "s"))
    (.mk "p" [] [] ((Ctx.loop iS (.lit (.int 0)) (.lit (.int 3)) false .hole).fill [sAdd] ++ []))
    (.mk "p" [] [] ((Ctx.loop iS (.lit (.int 0)) (.lit (.int 3)) false .hole).fill
       [.writecfg "c" "s" (.read aS []) true, .assign xS [] (.binop .add (.readcfg "c" "s") one)] ++ [])) := by
  have hb : bindStmt sAdd .rhs [0] "c" "s" true =
      some (.read aS [], [.writecfg "c" "s" (.read aS []) true,
                          .assign xS [] (.binop .add (.readcfg "c" "s") one)]) := by
    simp [bindStmt, sAdd, exprAt, subAt, occMode, setExpr, replaceAt]
  exact bind_config_var (K := single ("c", "s"))
    (Ctx.loop iS (.lit (.int 0)) (.lit (.int 3)) false .hole) [] hb rfl
    (insensitive_of_no_read (by simp [sAdd]; avoid)) (by simp [CtxInsens0, CtxInsens])
    (sim_refl_none _ _) _ _ _

example : bindStmt sIf .cond [] "c" "f" false =
    some (.read bS [], [.writecfg "c" "f" (.read bS []) false,
                        .ite (.readcfg "c" "f") [.assign xS [] one] []]) := by
  simp [bindStmt, sIf, exprAt, subAt, occMode, setExpr, replaceAt]

/-- data-valued binding inside an arithmetic expression: `x = a + 1.0 ↦ c.s = a ; x = c.s + 1.0` -/
example : bindStmt sAdd .rhs [0] "c" "s" true =
    some (.read aS [], [.writecfg "c" "s" (.read aS []) true,
                        .assign xS [] (.binop .add (.readcfg "c" "s") one)]) := by
  simp [bindStmt, sAdd, exprAt, subAt, occMode, setExpr, replaceAt]

/-- a field kind that does not match the occurrence is refused, as by the type check of bind_config -/
example : bindStmt sAdd .rhs [0] "c" "s" false = none := by
  simp [bindStmt, sAdd, exprAt, subAt, occMode]

/-! ### 6. call_eqv -/

/-- **call_eqv.**  If the callees are equivalent modulo `K₀` (and have the same signature), then
    replacing `f(args)` by `g(args)` anywhere in a caller gives callers equivalent modulo `K₁`,
    provided what runs after the call is monotone for states related modulo `K₀` — i.e. it does
    not read a field of `K₀` (`CtxInsens0 refineFam K₀ C`; below a loop this includes the call
    itself, `hself`) — and the tail takes `K₀` to `K₁ ⊆ K₀` by overwriting.  This is the fact
    `Check_ExtendEqv` is meant to establish ("not read subsequently" / "shadowed"). -/
theorem call_eqv {K₀ K₁ : FieldSet} {f g : Proc} (C : Ctx) (args : List Expr) (tail : List Stmt)
    (h : Equiv K₀ f g) (hargs : g.args = f.args)
    (hpreds : ∀ (V : Type) (σ : State V), checkPreds σ f.preds = .ok () → checkPreds σ g.preds = .ok ())
    (hself : inLoop C = true → Sim refineFam K₀ K₀ [.call f args] [.call f args])
    (hC : CtxInsens0 refineFam K₀ C) (htail : Sim refineFam K₀ K₁ tail tail)
    (nm : String) (pargs : List FnArg) (preds : List Expr) :
    Equiv K₁ (.mk nm pargs preds (C.fill [.call f args] ++ tail))
             (.mk nm pargs preds (C.fill [.call g args] ++ tail)) := by
  have h0 : Sim0 refineFam K₀ [.call f args] [.call g args] := call_sim0_refine h hargs hpreds args
  exact equiv_of_hole_sim refineFam C h0 (fun hl => sim_trans (hself hl) h0 (fun _ hk => hk)) hC htail
    nm pargs preds

/-- the same when the callee equivalence is exact (as produced by sections 3–5): the side
    conditions are then pure insensitivity (`CfgAgreeOutside`, no poison order involved) -/
theorem call_eqv_exact {K₀ K₁ : FieldSet} {f g : Proc} (C : Ctx) (args : List Expr) (tail : List Stmt)
    (h : EquivExact K₀ f g) (hargs : g.args = f.args)
    (hpreds : ∀ (V : Type) (σ : State V), checkPreds σ f.preds = .ok () → checkPreds σ g.preds = .ok ())
    (hself : inLoop C = true → Insensitive K₀ [.call f args])
    (hC : CtxInsens0 agreeFam K₀ C) (htail : Overwrites K₀ K₁ tail)
    (nm : String) (pargs : List FnArg) (preds : List Expr) :
    EquivExact K₁ (.mk nm pargs preds (C.fill [.call f args] ++ tail))
                  (.mk nm pargs preds (C.fill [.call g args] ++ tail)) := by
  have h0 : Sim0 agreeFam K₀ [.call f args] [.call g args] := call_sim0_exact h hargs hpreds args
  exact equivExact_of_hole_sim C h0 (fun hl => sim_trans (hself hl) h0 (fun _ hk => hk)) hC htail
    nm pargs preds

def fP : Proc := .mk "f" [] [] (Ctx.hole.fill [.writecfg "c" "f" (.lit (.int 1)) false] ++ [])
def gP : Proc := .mk "f" [] [] (Ctx.hole.fill [] ++ [])

theorem ex_fg_exact : EquivExact (single ("c", "f")) fP gP :=
  delete_config (K := single ("c", "f")) .hole "c" "f" _ _ [] rfl trivial (sim_refl_none _ _) _ _ _

example : EquivExact noField
    (.mk "p" [] [] (C1.fill [.call fP []] ++ [.writecfg "c" "f" (.lit (.int 5)) false]))
    (.mk "p" [] [] (C1.fill [.call gP []] ++ [.writecfg "c" "f" (.lit (.int 5)) false])) :=
  call_eqv_exact C1 [] _ ex_fg_exact rfl (fun _ _ h => h)
    (fun _ => insensitive_of_no_read (by simp [fP, Ctx.fill]; avoid)) ex_C1_insens
    (overwrites_of_lit_write "c" "f" 5) _ _ _

example : Equiv (single ("c", "f"))
    (.mk "p" [] [] ((Ctx.seq [.pass] .hole []).fill [.call fP []] ++ []))
    (.mk "p" [] [] ((Ctx.seq [.pass] .hole []).fill [.call gP []] ++ [])) :=
  call_eqv (Ctx.seq [.pass] .hole []) [] [] (equiv_of_equivExact ex_fg_exact) rfl (fun _ _ h => h)
    (fun h => by simp [inLoop] at h) ⟨trivial, sim_refl_none _ _⟩ (sim_refl_none _ _) _ _ _

end Exo.C10
