/-
  Property C01, wave 3 — data-statement primitives: split_write, merge_writes (the full
  assign/reduce matrix), lift_reduce_constant, inline_assign, rewrite_expr.  For each: the
  per-state theorem about the shape of ExoModel/RewriteData.lean, its whole-procedure
  (`…_in_context`) lift, non-vacuity examples, and kernel-checked counter-examples showing that
  the semantic hypotheses are needed (= what the real primitives fail to check).

  "Up to real-number algebra" (re-association, distributivity) = `EquivLaws`: `Equiv` over the
  data algebras satisfying `DataLaws`.
-/
import ExoModel.RewriteData
import ExoModel.Props.C01
import ExoModel.Props.C01Data
import ExoModel.Lemmas.DataStmtCell
import ExoModel.Lemmas.DataStmtLift
import ExoModel.Lemmas.DataStmtExpr
import ExoModel.Lemmas.DataStmtCommute
import ExoModel.Lemmas.FootprintFrame
import ExoModel.Lemmas.ContextReach

set_option linter.unusedSectionVars false
namespace Exo.C01
open Exo Exo.Rw Exo.Ctx3

namespace DsEx
def x : Sym := ⟨"x", 1⟩
def y : Sym := ⟨"y", 2⟩
def z : Sym := ⟨"z", 3⟩
def w : Sym := ⟨"w", 4⟩
def i : Sym := ⟨"i", 5⟩
def cS : Sym := ⟨"c", 6⟩
def zero : Expr := .lit (.int 0)
def d (n : Int) : Expr := .lit (.data n 1)
/-- `y`, `z` : one-cell buffers 0 and 1 -/
def σ₂ (a b : Int) : State Int :=
  ⟨[], [(y, ⟨0, 0, [(1, 1)]⟩), (z, ⟨1, 0, [(1, 1)]⟩)], [[some a], [some b]], []⟩
end DsEx

section NoLaws
variable {V : Type} [DataAlg V] (ext : String → List V → V)

/-! ### split_write -/

/-- `x[idx] = a + b`  ↦  `x[idx] = a; x[idx] += b`, if the value of `b` does not depend on the
    content of the cell being written (`IndepOfCell`: through ANY view) -/
theorem split_write_assign (x : Sym) (idx : List Expr) (a b : Expr) (σ : State V)
    (hb : IndepOfCell ext σ x idx b) :
    ExLe (execS ext (.assign x idx (.binop .add a b)) σ)
         (execL ext [.assign x idx a, .reduce x idx b] σ) := by
  intro o ho
  obtain ⟨v, c, hv, hc, rfl⟩ := assign_ok ext ho
  obtain ⟨va, vb, ha, hvb, rfl⟩ := evalD_add_ok ext hv
  refine pair_of ext (assign_of ext ha hc) ?_
  rw [reduce_of ext (σ := setCell σ c va) (v := vb) (c := c) (by rw [hb c va hc]; exact hvb)
    (by rw [cellAt_setCell]; exact hc), heapGet_setCell hc, setCell_setCell]

example : Rw.splitWrite [.assign DsEx.y [DsEx.zero] (.binop .add (DsEx.d 1) (.read DsEx.z [DsEx.zero]))]
    = some [.assign DsEx.y [DsEx.zero] (DsEx.d 1), .reduce DsEx.y [DsEx.zero] (.read DsEx.z [DsEx.zero])] :=
  rfl

theorem split_write_assign_in_context (C : Ctx) (x : Sym) (idx : List Expr) (a b : Expr)
    (nm : String) (args : List FnArg) (preds : List Expr)
    (side : ∀ (V : Type) [DataAlg V] (ext : String → List V → V) (σ₀ σ : State V),
        Reach ext C [.assign x idx (.binop .add a b)] σ₀ σ → IndepOfCell ext σ x idx b) :
    Equiv (fun _ => False)
      (.mk nm args preds (C.fill [.assign x idx (.binop .add a b)]))
      (.mk nm args preds (C.fill [.assign x idx a, .reduce x idx b])) := by
  refine rewrite_in_context C _ _ nm args preds (fun V _ ext σ₀ σ hr => ?_)
  rw [execL_singleton]
  exact split_write_assign ext x idx a b σ (side V ext σ₀ σ hr)

/-- a literal second operand depends on no cell -/
example : Equiv (fun _ => False)
    (.mk "p" [] [] ((Ctx.seq [.pass] .hole []).fill
      [.assign DsEx.y [DsEx.zero] (.binop .add (.read DsEx.z [DsEx.zero]) (DsEx.d 2))]))
    (.mk "p" [] [] ((Ctx.seq [.pass] .hole []).fill
      [.assign DsEx.y [DsEx.zero] (.read DsEx.z [DsEx.zero]), .reduce DsEx.y [DsEx.zero] (DsEx.d 2)])) :=
  split_write_assign_in_context _ _ _ _ _ _ _ _ (fun _ _ _ _ _ _ _ _ _ => rfl)

/-- **needed** (finding `split_write:second-operand-reads-lhs`): `y[0] = z[0] + y[0]` with
    `y[0] = 1`, `z[0] = 10` gives 11; `y[0] = z[0]; y[0] += y[0]` gives 20 -/
theorem split_write_assign_needs_indep :
    Rw.splitWrite [.assign DsEx.y [DsEx.zero] (.binop .add (.read DsEx.z [DsEx.zero]) (.read DsEx.y [DsEx.zero]))]
      = some [.assign DsEx.y [DsEx.zero] (.read DsEx.z [DsEx.zero]),
              .reduce DsEx.y [DsEx.zero] (.read DsEx.y [DsEx.zero])] ∧
    ¬ ExLe
      (execL (fun _ _ => (0 : Int))
        [.assign DsEx.y [DsEx.zero] (.binop .add (.read DsEx.z [DsEx.zero]) (.read DsEx.y [DsEx.zero]))]
        (DsEx.σ₂ 1 10))
      (execL (fun _ _ => (0 : Int))
        [.assign DsEx.y [DsEx.zero] (.read DsEx.z [DsEx.zero]),
         .reduce DsEx.y [DsEx.zero] (.read DsEx.y [DsEx.zero])] (DsEx.σ₂ 1 10)) := by
  refine ⟨rfl, fun h => ?_⟩
  have h1 := h (DsEx.σ₂ 11 10) (by rfl)
  have h2 : execL (fun _ _ => (0 : Int))
      [.assign DsEx.y [DsEx.zero] (.read DsEx.z [DsEx.zero]),
       .reduce DsEx.y [DsEx.zero] (.read DsEx.y [DsEx.zero])] (DsEx.σ₂ 1 10)
      = .ok (DsEx.σ₂ 20 10) := by rfl
  rw [h2] at h1
  simp [DsEx.σ₂] at h1

/-! ### merge_writes: the two forms that need no algebra -/

/-- `x[i] = a; x[j] = b`  ↦  `x[j] = b`: same cell, `b` independent of its content -/
theorem merge_assign_assign_cell (x : Sym) (i j : List Expr) (a b : Expr) (σ : State V)
    (hcell : cellAt σ x j = cellAt σ x i) (hb : IndepOfCell ext σ x i b) :
    ExLe (execL ext [.assign x i a, .assign x j b] σ) (execS ext (.assign x j b) σ) := by
  intro o ho
  obtain ⟨σ1, h1, h2⟩ := pair_ok ext ho
  obtain ⟨va, c, _, hc, rfl⟩ := assign_ok ext h1
  obtain ⟨vb, c', hvb, hc', rfl⟩ := assign_ok ext h2
  rw [cellAt_setCell, hcell, hc] at hc'
  cases hc'
  rw [hb c va hc] at hvb
  rw [assign_of ext hvb (hcell.trans hc), setCell_setCell]

/-- `x[i] += a; x[j] = b`  ↦  `x[j] = b` -/
theorem merge_reduce_assign_cell (x : Sym) (i j : List Expr) (a b : Expr) (σ : State V)
    (hcell : cellAt σ x j = cellAt σ x i) (hb : IndepOfCell ext σ x i b) :
    ExLe (execL ext [.reduce x i a, .assign x j b] σ) (execS ext (.assign x j b) σ) := by
  intro o ho
  obtain ⟨σ1, h1, h2⟩ := pair_ok ext ho
  obtain ⟨va, c, _, hc, rfl⟩ := reduce_ok ext h1
  obtain ⟨vb, c', hvb, hc', rfl⟩ := assign_ok ext h2
  rw [cellAt_setCell, hcell, hc] at hc'
  cases hc'
  rw [hb c _ hc] at hvb
  rw [assign_of ext hvb (hcell.trans hc), setCell_setCell]

/-- `x[i] = a; x[j] += b`  ↦  `x[i] = a + b` -/
theorem merge_assign_reduce_cell (x : Sym) (i j : List Expr) (a b : Expr) (σ : State V)
    (hcell : cellAt σ x j = cellAt σ x i) (hb : IndepOfCell ext σ x i b) :
    ExLe (execL ext [.assign x i a, .reduce x j b] σ) (execS ext (.assign x i (.binop .add a b)) σ) := by
  intro o ho
  obtain ⟨σ1, h1, h2⟩ := pair_ok ext ho
  obtain ⟨va, c, hva, hc, rfl⟩ := assign_ok ext h1
  obtain ⟨vb, c', hvb, hc', rfl⟩ := reduce_ok ext h2
  rw [cellAt_setCell, hcell, hc] at hc'
  cases hc'
  rw [hb c va hc] at hvb
  rw [assign_of ext (evalD_add ext hva hvb) hc, heapGet_setCell hc, setCell_setCell]

theorem merge_writes_in_context (C : Ctx) (x : Sym) (i j : List Expr) (a b : Expr)
    (nm : String) (args : List FnArg) (preds : List Expr)
    (side : ∀ (V : Type) [DataAlg V] (ext : String → List V → V) (σ₀ σ : State V),
        (Reach ext C [.assign x i a, .assign x j b] σ₀ σ ∨ Reach ext C [.reduce x i a, .assign x j b] σ₀ σ ∨
          Reach ext C [.assign x i a, .reduce x j b] σ₀ σ) →
        cellAt σ x j = cellAt σ x i ∧ IndepOfCell ext σ x i b) :
    Equiv (fun _ => False) (.mk nm args preds (C.fill [.assign x i a, .assign x j b]))
      (.mk nm args preds (C.fill [.assign x j b])) ∧
    Equiv (fun _ => False) (.mk nm args preds (C.fill [.reduce x i a, .assign x j b]))
      (.mk nm args preds (C.fill [.assign x j b])) ∧
    Equiv (fun _ => False) (.mk nm args preds (C.fill [.assign x i a, .reduce x j b]))
      (.mk nm args preds (C.fill [.assign x i (.binop .add a b)])) := by
  refine ⟨rewrite_in_context C _ _ nm args preds (fun V _ ext σ₀ σ hr => ?_),
    rewrite_in_context C _ _ nm args preds (fun V _ ext σ₀ σ hr => ?_),
    rewrite_in_context C _ _ nm args preds (fun V _ ext σ₀ σ hr => ?_)⟩
  · obtain ⟨h1, h2⟩ := side V ext σ₀ σ (Or.inl hr)
    rw [execL_singleton]; exact merge_assign_assign_cell ext x i j a b σ h1 h2
  · obtain ⟨h1, h2⟩ := side V ext σ₀ σ (Or.inr (Or.inl hr))
    rw [execL_singleton]; exact merge_reduce_assign_cell ext x i j a b σ h1 h2
  · obtain ⟨h1, h2⟩ := side V ext σ₀ σ (Or.inr (Or.inr hr))
    rw [execL_singleton]; exact merge_assign_reduce_cell ext x i j a b σ h1 h2

example : Rw.mergeWrites [.assign DsEx.y [DsEx.zero] (DsEx.d 1), .reduce DsEx.y [DsEx.zero] (DsEx.d 2)]
    = some [.assign DsEx.y [DsEx.zero] (.binop .add (DsEx.d 1) (DsEx.d 2))] := by rfl

example : Equiv (fun _ => False)
    (.mk "p" [] [] (Ctx.hole.fill [.assign DsEx.y [DsEx.zero] (DsEx.d 1), .reduce DsEx.y [DsEx.zero] (DsEx.d 2)]))
    (.mk "p" [] [] (Ctx.hole.fill [.assign DsEx.y [DsEx.zero] (.binop .add (DsEx.d 1) (DsEx.d 2))])) :=
  (merge_writes_in_context .hole DsEx.y [DsEx.zero] [DsEx.zero] (DsEx.d 1) (DsEx.d 2) "p" [] []
    (fun _ _ _ _ _ _ => ⟨rfl, fun _ _ _ => rfl⟩)).2.2

/-- **needed** (finding `merge_writes:second-rhs-reads-lhs-through-window-alias`): the Python
    checks that the second right-hand side does not read the NAME of the buffer; through an
    alias `w` of `y` the first write is visible.  `y[0] = 1; y[0] = w[0]` leaves 1,
    the merged `y[0] = w[0]` leaves the old value 7 -/
theorem merge_writes_needs_indep :
    Rw.mergeWrites [.assign DsEx.y [DsEx.zero] (DsEx.d 1), .assign DsEx.y [DsEx.zero] (.read DsEx.w [DsEx.zero])]
      = some [.assign DsEx.y [DsEx.zero] (.read DsEx.w [DsEx.zero])] ∧
    ¬ ExLe
      (execL (fun _ _ => (0 : Int))
        [.assign DsEx.y [DsEx.zero] (DsEx.d 1), .assign DsEx.y [DsEx.zero] (.read DsEx.w [DsEx.zero])]
        ⟨[], [(DsEx.y, ⟨0, 0, [(1, 1)]⟩), (DsEx.w, ⟨0, 0, [(1, 1)]⟩)], [[some 7]], []⟩)
      (execL (fun _ _ => (0 : Int)) [.assign DsEx.y [DsEx.zero] (.read DsEx.w [DsEx.zero])]
        ⟨[], [(DsEx.y, ⟨0, 0, [(1, 1)]⟩), (DsEx.w, ⟨0, 0, [(1, 1)]⟩)], [[some 7]], []⟩) := by
  refine ⟨by rfl, fun h => ?_⟩
  have h1 := h ⟨[], [(DsEx.y, ⟨0, 0, [(1, 1)]⟩), (DsEx.w, ⟨0, 0, [(1, 1)]⟩)], [[some 1]], []⟩ (by rfl)
  have h2 : execL (fun _ _ => (0 : Int)) [.assign DsEx.y [DsEx.zero] (.read DsEx.w [DsEx.zero])]
      ⟨[], [(DsEx.y, ⟨0, 0, [(1, 1)]⟩), (DsEx.w, ⟨0, 0, [(1, 1)]⟩)], [[some 7]], []⟩
      = .ok ⟨[], [(DsEx.y, ⟨0, 0, [(1, 1)]⟩), (DsEx.w, ⟨0, 0, [(1, 1)]⟩)], [[some 7]], []⟩ := by rfl
  rw [h2] at h1
  simp at h1

end NoLaws

section Laws
variable {V : Type} [DataAlg V] [DataLaws V] (ext : String → List V → V)

/-- `x[idx] += a + b`  ↦  `x[idx] += a; x[idx] += b`: `b` independent of the cell, and addition
    associative -/
theorem split_write_reduce (x : Sym) (idx : List Expr) (a b : Expr) (σ : State V)
    (hb : IndepOfCell ext σ x idx b) :
    ExLe (execS ext (.reduce x idx (.binop .add a b)) σ)
         (execL ext [.reduce x idx a, .reduce x idx b] σ) := by
  intro o ho
  obtain ⟨v, c, hv, hc, rfl⟩ := reduce_ok ext ho
  obtain ⟨va, vb, ha, hvb, rfl⟩ := evalD_add_ok ext hv
  refine pair_of ext (reduce_of ext ha hc) ?_
  rw [reduce_of ext (σ := setCell σ c _) (v := vb) (c := c) (by rw [hb c _ hc]; exact hvb)
    (by rw [cellAt_setCell]; exact hc), heapGet_setCell hc, setCell_setCell,
    lift2_assoc _ DataLaws.add_assoc]

/-- `x[i] += a; x[j] += b`  ↦  `x[i] += a + b` -/
theorem merge_reduce_reduce_cell (x : Sym) (i j : List Expr) (a b : Expr) (σ : State V)
    (hcell : cellAt σ x j = cellAt σ x i) (hb : IndepOfCell ext σ x i b) :
    ExLe (execL ext [.reduce x i a, .reduce x j b] σ) (execS ext (.reduce x i (.binop .add a b)) σ) := by
  intro o ho
  obtain ⟨σ1, h1, h2⟩ := pair_ok ext ho
  obtain ⟨va, c, hva, hc, rfl⟩ := reduce_ok ext h1
  obtain ⟨vb, c', hvb, hc', rfl⟩ := reduce_ok ext h2
  rw [cellAt_setCell, hcell, hc] at hc'
  cases hc'
  rw [hb c _ hc] at hvb
  rw [reduce_of ext (evalD_add ext hva hvb) hc, heapGet_setCell hc, setCell_setCell,
    lift2_assoc _ DataLaws.add_assoc]

end Laws

theorem split_write_reduce_in_context (C : Ctx) (x : Sym) (idx : List Expr) (a b : Expr)
    (nm : String) (args : List FnArg) (preds : List Expr)
    (side : ∀ (V : Type) [DataAlg V] [DataLaws V] (ext : String → List V → V) (σ₀ σ : State V),
        Reach ext C [.reduce x idx (.binop .add a b)] σ₀ σ → IndepOfCell ext σ x idx b) :
    EquivLaws (fun _ => False)
      (.mk nm args preds (C.fill [.reduce x idx (.binop .add a b)]))
      (.mk nm args preds (C.fill [.reduce x idx a, .reduce x idx b])) := by
  refine equivLaws_of_reach_le C _ _ nm args preds (fun V _ _ ext σ₀ σ hr => ?_)
  rw [execL_singleton]
  exact split_write_reduce ext x idx a b σ (side V ext σ₀ σ hr)

example : EquivLaws (fun _ => False)
    (.mk "p" [] [] (Ctx.hole.fill [.reduce DsEx.y [DsEx.zero] (.binop .add (.read DsEx.z [DsEx.zero]) (DsEx.d 2))]))
    (.mk "p" [] [] (Ctx.hole.fill [.reduce DsEx.y [DsEx.zero] (.read DsEx.z [DsEx.zero]),
      .reduce DsEx.y [DsEx.zero] (DsEx.d 2)])) :=
  split_write_reduce_in_context _ _ _ _ _ _ _ _ (fun _ _ _ _ _ _ _ _ _ _ => rfl)

/-- **needed** (new: the reduce form of the recorded finding): `y[0] += z[0] + y[0]` from
    `y[0] = 1, z[0] = 10` gives 12; `y[0] += z[0]; y[0] += y[0]` gives 22 -/
theorem split_write_reduce_needs_indep :
    Rw.splitWrite [.reduce DsEx.y [DsEx.zero] (.binop .add (.read DsEx.z [DsEx.zero]) (.read DsEx.y [DsEx.zero]))]
      = some [.reduce DsEx.y [DsEx.zero] (.read DsEx.z [DsEx.zero]),
              .reduce DsEx.y [DsEx.zero] (.read DsEx.y [DsEx.zero])] ∧
    ¬ ExLe
      (execL (fun _ _ => (0 : Int))
        [.reduce DsEx.y [DsEx.zero] (.binop .add (.read DsEx.z [DsEx.zero]) (.read DsEx.y [DsEx.zero]))]
        (DsEx.σ₂ 1 10))
      (execL (fun _ _ => (0 : Int))
        [.reduce DsEx.y [DsEx.zero] (.read DsEx.z [DsEx.zero]),
         .reduce DsEx.y [DsEx.zero] (.read DsEx.y [DsEx.zero])] (DsEx.σ₂ 1 10)) := by
  refine ⟨rfl, fun h => ?_⟩
  have h1 := h (DsEx.σ₂ 12 10) (by rfl)
  have h2 : execL (fun _ _ => (0 : Int))
      [.reduce DsEx.y [DsEx.zero] (.read DsEx.z [DsEx.zero]),
       .reduce DsEx.y [DsEx.zero] (.read DsEx.y [DsEx.zero])] (DsEx.σ₂ 1 10)
      = .ok (DsEx.σ₂ 22 10) := by rfl
  rw [h2] at h1
  simp [DsEx.σ₂] at h1

theorem merge_reduce_reduce_in_context (C : Ctx) (x : Sym) (i j : List Expr) (a b : Expr)
    (nm : String) (args : List FnArg) (preds : List Expr)
    (side : ∀ (V : Type) [DataAlg V] [DataLaws V] (ext : String → List V → V) (σ₀ σ : State V),
        Reach ext C [.reduce x i a, .reduce x j b] σ₀ σ →
        cellAt σ x j = cellAt σ x i ∧ IndepOfCell ext σ x i b) :
    EquivLaws (fun _ => False)
      (.mk nm args preds (C.fill [.reduce x i a, .reduce x j b]))
      (.mk nm args preds (C.fill [.reduce x i (.binop .add a b)])) := by
  refine equivLaws_of_reach_le C _ _ nm args preds (fun V _ _ ext σ₀ σ hr => ?_)
  obtain ⟨h1, h2⟩ := side V ext σ₀ σ hr
  rw [execL_singleton]
  exact merge_reduce_reduce_cell ext x i j a b σ h1 h2

example : EquivLaws (fun _ => False)
    (.mk "p" [] [] (Ctx.hole.fill [.reduce DsEx.y [DsEx.zero] (DsEx.d 1), .reduce DsEx.y [DsEx.zero] (DsEx.d 2)]))
    (.mk "p" [] [] (Ctx.hole.fill [.reduce DsEx.y [DsEx.zero] (.binop .add (DsEx.d 1) (DsEx.d 2))])) :=
  merge_reduce_reduce_in_context .hole _ _ _ _ _ "p" [] [] (fun _ _ _ _ _ _ _ => ⟨rfl, fun _ _ _ => rfl⟩)

/-! ### lift_reduce_constant -/

section LiftConstant
variable {V : Type} [DataAlg V] [DataLaws V] (ext : String → List V → V)

/-- `x[idx] = r₀; for i: x[idx] += c * e`  ↦  `x[idx] = r₀; for i: x[idx] += e; x[idx] = c * x[idx]`
    (`_partial`: proved for a loop body that consists of the one scaled reduction; `DoLiftConstant`
    also accepts scaled reductions nested in `if`/`for` and other statements that do not read `x`).
    Hypotheses, all about the state reaching the block: the access `x[idx]` denotes one cell `X`
    throughout the loop; the factor `c` has one value `vc`, independent of the iteration and of the
    content of `X`; `e` does not depend on the content of `X`; the bounds are evaluable and ordered
    (zero-trip loops included); and the initial value `z` of `r₀` is absorbed by the factor,
    `c * z = z` — what "`x = 0.0`" is for, and what the Python never checks
    (`lift_reduce_constant_needs_zero_init`).  Needs distributivity (`DataLaws.mul_add`). -/
theorem lift_reduce_constant_partial (i x : Sym) (idx : List Expr) (rhs0 c e lo hi : Expr) (par : Bool)
    (σ : State V) (l h : Int) (hl : evalC σ lo = .ok l) (hh : evalC σ hi = .ok h) (hle : l ≤ h)
    (hyp : ∀ X z, cellAt σ x idx = .ok X → evalD ext σ rhs0 = .ok z →
      (∀ v, cellAt (σ.bind i v) x idx = .ok X) ∧
      ∃ vc, lift2 DataAlg.mul vc z = z ∧
        (∀ v w, evalD ext ((setCell σ X w).bind i v) c = .ok vc) ∧
        (∀ w, evalD ext (setCell σ X w) c = .ok vc) ∧
        (∀ v w w', evalD ext ((setCell σ X w).bind i v) e = evalD ext ((setCell σ X w').bind i v) e)) :
    ExLe (execL ext [.assign x idx rhs0, .loop i lo hi [.reduce x idx (.binop .mul c e)] par] σ)
         (execL ext [.assign x idx rhs0, .loop i lo hi [.reduce x idx e] par,
                     .assign x idx (.binop .mul c (.read x idx))] σ) := by
  intro o ho
  obtain ⟨σ1, h1, h2⟩ := pair_ok ext ho
  obtain ⟨z, X, hz, hσ, rfl⟩ := assign_ok ext h1
  obtain ⟨hX, vc, hinit, hc, hc', he⟩ := hyp X z hσ hz
  have hl1 : evalC (setCell σ X z) lo = .ok l := by rw [← hl]; exact evalC_heap _ lo σ
  have hh1 : evalC (setCell σ X z) hi = .ok h := by rw [← hh]; exact evalC_heap _ hi σ
  rw [execS_loop ext i lo hi _ par _ l h hl1 hh1 hle] at h2
  rw [← hinit] at h2
  obtain ⟨w2', hnew, rfl⟩ := scaled_iterate ext i x idx c e σ X vc hσ hX hc he _ _ z o h2
  have hfin : execS ext (.assign x idx (.binop .mul c (.read x idx))) (setCell σ X w2')
      = .ok (setCell σ X (lift2 DataAlg.mul vc w2')) := by
    have hcx : cellAt (setCell σ X w2') x idx = .ok X := by rw [cellAt_setCell]; exact hσ
    have hr : evalD ext (setCell σ X w2') (.read x idx) = .ok w2' := by
      rw [evalD_read_eq, hcx]
      simp only [bind, Except.bind, pure, Except.pure]
      rw [heapGet_setCell hσ]
    have hv : evalD ext (setCell σ X w2') (.binop .mul c (.read x idx))
        = .ok (lift2 DataAlg.mul vc w2') := by
      rw [evalD, hc', hr]
      rfl
    rw [assign_of ext hv hcx, setCell_setCell]
  simp only [execL, bind, Except.bind, h1]
  rw [execS_loop ext i lo hi _ par _ l h hl1 hh1 hle, hnew]
  simp only [hfin]
  rfl

/-- the shape is what `Rw.liftConstant` builds -/
example : Rw.liftConstant [.assign DsEx.y [] (DsEx.d 0),
      .loop DsEx.i DsEx.zero (.lit (.int 3)) [.reduce DsEx.y [] (.binop .mul (DsEx.d 2) (.read DsEx.z [DsEx.zero]))] false]
    = some [.assign DsEx.y [] (DsEx.d 0),
      .loop DsEx.i DsEx.zero (.lit (.int 3)) [.reduce DsEx.y [] (.read DsEx.z [DsEx.zero])] false,
      .assign DsEx.y [] (.binop .mul (DsEx.d 2) (.read DsEx.y []))] := by rfl

end LiftConstant

/-- the hypotheses are satisfiable: `y = 0; for i in [0,3): y += 2 * 5` over the integers, from
    every state in which `y` is a scalar -/
example (σ : State Int) :
    ExLe (execL (fun _ _ => 0) [.assign DsEx.y [] (DsEx.d 0),
        .loop DsEx.i DsEx.zero (.lit (.int 3)) [.reduce DsEx.y [] (.binop .mul (DsEx.d 2) (DsEx.d 5))] false] σ)
      (execL (fun _ _ => 0) [.assign DsEx.y [] (DsEx.d 0),
        .loop DsEx.i DsEx.zero (.lit (.int 3)) [.reduce DsEx.y [] (DsEx.d 5)] false,
        .assign DsEx.y [] (.binop .mul (DsEx.d 2) (.read DsEx.y []))] σ) :=
  lift_reduce_constant_partial _ _ _ _ _ _ _ _ _ _ σ 0 3 rfl rfl (by omega)
    (fun X z hX hz => by
      simp only [DsEx.d, evalD, pure, Except.pure, Except.ok.injEq] at hz
      subst hz
      exact ⟨fun v => hX, some 2, by decide, fun _ _ => rfl, fun _ => rfl, fun _ _ _ => rfl⟩)

theorem lift_reduce_constant_in_context_partial (C : Ctx) (i x : Sym) (idx : List Expr)
    (rhs0 c e lo hi : Expr) (par : Bool) (nm : String) (args : List FnArg) (preds : List Expr)
    (side : ∀ (V : Type) [DataAlg V] [DataLaws V] (ext : String → List V → V) (σ₀ σ : State V),
        Reach ext C [.assign x idx rhs0, .loop i lo hi [.reduce x idx (.binop .mul c e)] par] σ₀ σ →
        (∃ l h, evalC σ lo = .ok l ∧ evalC σ hi = .ok h ∧ l ≤ h) ∧
        ∀ X z, cellAt σ x idx = .ok X → evalD ext σ rhs0 = .ok z →
          (∀ v, cellAt (σ.bind i v) x idx = .ok X) ∧
          ∃ vc, lift2 DataAlg.mul vc z = z ∧
            (∀ v w, evalD ext ((setCell σ X w).bind i v) c = .ok vc) ∧
            (∀ w, evalD ext (setCell σ X w) c = .ok vc) ∧
            (∀ v w w', evalD ext ((setCell σ X w).bind i v) e = evalD ext ((setCell σ X w').bind i v) e)) :
    EquivLaws (fun _ => False)
      (.mk nm args preds (C.fill [.assign x idx rhs0, .loop i lo hi [.reduce x idx (.binop .mul c e)] par]))
      (.mk nm args preds (C.fill [.assign x idx rhs0, .loop i lo hi [.reduce x idx e] par,
        .assign x idx (.binop .mul c (.read x idx))])) := by
  refine equivLaws_of_reach_le C _ _ nm args preds (fun V _ _ ext σ₀ σ hr => ?_)
  obtain ⟨⟨l, h, hl, hh, hle⟩, hyp⟩ := side V ext σ₀ σ hr
  exact lift_reduce_constant_partial ext i x idx rhs0 c e lo hi par σ l h hl hh hle hyp

/-- a block that no state reaches satisfies the side condition (the per-state example above is
    the non-vacuous one: `DataLaws` has no law about `0`, so `c * 0 = 0` cannot be discharged for
    every lawful data algebra) -/
example : EquivLaws (fun _ => False)
    (.mk "p" [] [] ((Ctx.iteT (.lit (.bool false)) .hole []).fill [.assign DsEx.y [] (DsEx.d 0),
      .loop DsEx.i DsEx.zero (.lit (.int 3)) [.reduce DsEx.y [] (.binop .mul (DsEx.d 2) (DsEx.d 5))] false]))
    (.mk "p" [] [] ((Ctx.iteT (.lit (.bool false)) .hole []).fill [.assign DsEx.y [] (DsEx.d 0),
      .loop DsEx.i DsEx.zero (.lit (.int 3)) [.reduce DsEx.y [] (DsEx.d 5)] false,
      .assign DsEx.y [] (.binop .mul (DsEx.d 2) (.read DsEx.y []))])) :=
  lift_reduce_constant_in_context_partial _ _ _ _ _ _ _ _ _ _ _ _ _
    (fun V _ _ ext σ₀ σ hr => by
      obtain ⟨b, hb, hne, _⟩ := reach_iteT ext hr
      simp only [evalC, pure, Except.pure, Except.ok.injEq] at hb
      exact absurd hb.symm hne)

/-- **defect (new).**  Neither `lift_reduce_constant` nor `DoLiftConstant` looks at the first
    statement's right-hand side: `y = 5; for i in [0,2): y += 3 * 1` leaves 11, the result
    `y = 5; for i in [0,2): y += 1; y = 3 * y` leaves 21 -/
theorem lift_reduce_constant_needs_zero_init :
    Rw.liftConstant [.assign DsEx.y [DsEx.zero] (DsEx.d 5),
        .loop DsEx.i DsEx.zero (.lit (.int 2)) [.reduce DsEx.y [DsEx.zero] (.binop .mul (DsEx.d 3) (DsEx.d 1))] false]
      = some [.assign DsEx.y [DsEx.zero] (DsEx.d 5),
        .loop DsEx.i DsEx.zero (.lit (.int 2)) [.reduce DsEx.y [DsEx.zero] (DsEx.d 1)] false,
        .assign DsEx.y [DsEx.zero] (.binop .mul (DsEx.d 3) (.read DsEx.y [DsEx.zero]))] ∧
    ¬ ExLe
      (execL (fun _ _ => (0 : Int)) [.assign DsEx.y [DsEx.zero] (DsEx.d 5),
        .loop DsEx.i DsEx.zero (.lit (.int 2)) [.reduce DsEx.y [DsEx.zero] (.binop .mul (DsEx.d 3) (DsEx.d 1))] false]
        (DsEx.σ₂ 0 0))
      (execL (fun _ _ => (0 : Int)) [.assign DsEx.y [DsEx.zero] (DsEx.d 5),
        .loop DsEx.i DsEx.zero (.lit (.int 2)) [.reduce DsEx.y [DsEx.zero] (DsEx.d 1)] false,
        .assign DsEx.y [DsEx.zero] (.binop .mul (DsEx.d 3) (.read DsEx.y [DsEx.zero]))] (DsEx.σ₂ 0 0)) := by
  refine ⟨by rfl, fun h => ?_⟩
  have h1 := h (DsEx.σ₂ 11 0) (by rfl)
  have h2 : execL (fun _ _ => (0 : Int)) [.assign DsEx.y [DsEx.zero] (DsEx.d 5),
        .loop DsEx.i DsEx.zero (.lit (.int 2)) [.reduce DsEx.y [DsEx.zero] (DsEx.d 1)] false,
        .assign DsEx.y [DsEx.zero] (.binop .mul (DsEx.d 3) (.read DsEx.y [DsEx.zero]))] (DsEx.σ₂ 0 0)
      = .ok (DsEx.σ₂ 21 0) := by rfl
  rw [h2] at h1
  simp [DsEx.σ₂] at h1

/-- **defect (new).**  The first statement may even be a reduction; the inserted statement is
    then a reduction too (`assign_s.update(rhs=…)`): `y += 5; for …: y += 3 * 1` from 0 leaves 11,
    the result `y += 5; for …: y += 1; y += 3 * y` leaves 28 -/
theorem lift_reduce_constant_first_is_reduce :
    Rw.liftConstant [.reduce DsEx.y [DsEx.zero] (DsEx.d 5),
        .loop DsEx.i DsEx.zero (.lit (.int 2)) [.reduce DsEx.y [DsEx.zero] (.binop .mul (DsEx.d 3) (DsEx.d 1))] false]
      = some [.reduce DsEx.y [DsEx.zero] (DsEx.d 5),
        .loop DsEx.i DsEx.zero (.lit (.int 2)) [.reduce DsEx.y [DsEx.zero] (DsEx.d 1)] false,
        .reduce DsEx.y [DsEx.zero] (.binop .mul (DsEx.d 3) (.read DsEx.y [DsEx.zero]))] ∧
    ¬ ExLe
      (execL (fun _ _ => (0 : Int)) [.reduce DsEx.y [DsEx.zero] (DsEx.d 5),
        .loop DsEx.i DsEx.zero (.lit (.int 2)) [.reduce DsEx.y [DsEx.zero] (.binop .mul (DsEx.d 3) (DsEx.d 1))] false]
        (DsEx.σ₂ 0 0))
      (execL (fun _ _ => (0 : Int)) [.reduce DsEx.y [DsEx.zero] (DsEx.d 5),
        .loop DsEx.i DsEx.zero (.lit (.int 2)) [.reduce DsEx.y [DsEx.zero] (DsEx.d 1)] false,
        .reduce DsEx.y [DsEx.zero] (.binop .mul (DsEx.d 3) (.read DsEx.y [DsEx.zero]))] (DsEx.σ₂ 0 0)) := by
  refine ⟨by rfl, fun h => ?_⟩
  have h1 := h (DsEx.σ₂ 11 0) (by rfl)
  have h2 : execL (fun _ _ => (0 : Int)) [.reduce DsEx.y [DsEx.zero] (DsEx.d 5),
        .loop DsEx.i DsEx.zero (.lit (.int 2)) [.reduce DsEx.y [DsEx.zero] (DsEx.d 1)] false,
        .reduce DsEx.y [DsEx.zero] (.binop .mul (DsEx.d 3) (.read DsEx.y [DsEx.zero]))] (DsEx.σ₂ 0 0)
      = .ok (DsEx.σ₂ 28 0) := by rfl
  rw [h2] at h1
  simp [DsEx.σ₂] at h1

/-! ### rewrite_expr -/

/-- `rewrite_expr`: a statement may be replaced by one with the same symbols and nested blocks
    whose top-level expressions have the same values in every state reaching it
    (`ExprsAgree`: what `Check_ExprEqvInContext` is asked to establish for the replaced
    sub-expression, propagated to the enclosing top-level expression by congruence, e.g.
    `evalD_read_idx_congr`, `evalD_binop_congr`) -/
theorem rewrite_expr_in_context (C : Ctx) (s s'' : Stmt) (nm : String) (args : List FnArg)
    (preds : List Expr)
    (side : ∀ (V : Type) [DataAlg V] (ext : String → List V → V) (σ₀ σ : State V),
        Reach ext C [s] σ₀ σ → ExprsAgree ext σ s s'') :
    Equiv (fun _ => False) (.mk nm args preds (C.fill [s])) (.mk nm args preds (C.fill [s''])) := by
  refine rewrite_in_context C _ _ nm args preds (fun V _ ext σ₀ σ hr => ?_)
  rw [execL_singleton, execL_singleton, execS_of_exprsAgree ext s s'' σ (side V ext σ₀ σ hr)]
  exact ExLe.refl _

/-- the shape: the model keeps the input statement and takes the expressions of the output -/
example : Rw.rewriteExprWith (.assign DsEx.w [DsEx.zero] (.read DsEx.z [.read DsEx.i []]))
      [.assign DsEx.y [DsEx.zero] (.read DsEx.z [.binop .add (.read DsEx.i []) (.lit (.int 0))]), .pass]
    = some [.assign DsEx.y [DsEx.zero] (.read DsEx.z [.read DsEx.i []]), .pass] := rfl

/-- `y[0] = z[i + 0]`  ↦  `y[0] = z[i]` inside `for i in [0,3)` -/
example : Equiv (fun _ => False)
    (.mk "p" [] [] ((Ctx.loop DsEx.i DsEx.zero (.lit (.int 3)) false .hole).fill
      [.assign DsEx.y [DsEx.zero] (.read DsEx.z [.binop .add (.read DsEx.i []) (.lit (.int 0))])]))
    (.mk "p" [] [] ((Ctx.loop DsEx.i DsEx.zero (.lit (.int 3)) false .hole).fill
      [.assign DsEx.y [DsEx.zero] (.read DsEx.z [.read DsEx.i []])])) :=
  rewrite_expr_in_context _ _ _ _ _ _ (fun V _ ext σ₀ σ _ => by
    refine ⟨rfl, rfl, evalD_read_idx_congr ext _ _ _ σ ?_⟩
    simp only [evalCs, evalC, bind, Except.bind, pure, Except.pure, ctrlOp]
    cases lookupSym DsEx.i σ.env with
    | none => rfl
    | some v => simp)

/-- **needed**: `y[0] = z[i + 1]` is not `y[0] = z[i]` (the expressions must agree in value) -/
example : ¬ ExprsAgree (fun _ _ => (0 : Int))
    ⟨[(DsEx.i, 0)], [(DsEx.y, ⟨0, 0, [(1, 1)]⟩), (DsEx.z, ⟨1, 0, [(2, 1)]⟩)], [[some 0], [some 1, some 2]], []⟩
    (.assign DsEx.y [DsEx.zero] (.read DsEx.z [.read DsEx.i []]))
    (.assign DsEx.y [DsEx.zero] (.read DsEx.z [.binop .add (.read DsEx.i []) (.lit (.int 1))])) := by
  intro h
  have := congrArg (fun r => match r with | .ok (some v) => v | _ => (99 : Int)) h.2.2
  revert this
  decide

/-! ### inline_assign -/

section Inline
variable {V : Type} [DataAlg V] (ext : String → List V → V)

/-- `x[idx] = e; y[jdx] = rhs`  ↦  `y[jdx] = rhs[x[idx] ↦ e]` (`_partial`: the rest of the block is
    ONE assignment; `DoInlineAssign` substitutes in every statement of the rest, at any depth).
    If the substituted right-hand side evaluates in `σ` to what the original evaluates to after
    the write (`hsub`), and the two statements write different cells, then the result is the
    result of the original block EXCEPT FOR THE CONTENT OF THE CELL `x[idx]`, which keeps its old
    value: the deleted assignment must be dead.  It is not when `x` is an argument, a window
    into one, or read after the rest of the block — the three recorded findings, below. -/
theorem inline_assign_assign_partial (x y : Sym) (idx jdx : List Expr) (e rhs : Expr) (σ : State V)
    (hsub : ∀ X v, cellAt σ x idx = .ok X → evalD ext σ e = .ok v →
      evalD ext (setCell σ X v) rhs = evalD ext σ (Rw.inlineE x idx e rhs))
    (hne : ∀ X Y, cellAt σ x idx = .ok X → cellAt σ y jdx = .ok Y → X ≠ Y) (o : State V)
    (ho : execL ext [.assign x idx e, .assign y jdx rhs] σ = .ok o) :
    ∃ o' X v, execL ext (Rw.inlineL x idx e [.assign y jdx rhs]) σ = .ok o' ∧
      cellAt σ x idx = .ok X ∧ o = setCell o' X v := by
  obtain ⟨σ1, h1, h2⟩ := pair_ok ext ho
  obtain ⟨v, X, hv, hX, rfl⟩ := assign_ok ext h1
  obtain ⟨r, Y, hr, hY, rfl⟩ := assign_ok ext h2
  rw [cellAt_setCell] at hY
  rw [hsub X v hX hv] at hr
  refine ⟨setCell σ Y r, X, v, ?_, hX, setCell_comm σ X Y v r (hne X Y hX hY)⟩
  simp only [Rw.inlineL, Rw.inlineS]
  rw [execL_singleton, assign_of ext hr hY]

/-- the same with a reduction as the rest of the block -/
theorem inline_assign_reduce_partial (x y : Sym) (idx jdx : List Expr) (e rhs : Expr) (σ : State V)
    (hsub : ∀ X v, cellAt σ x idx = .ok X → evalD ext σ e = .ok v →
      evalD ext (setCell σ X v) rhs = evalD ext σ (Rw.inlineE x idx e rhs))
    (hne : ∀ X Y, cellAt σ x idx = .ok X → cellAt σ y jdx = .ok Y → X ≠ Y) (o : State V)
    (ho : execL ext [.assign x idx e, .reduce y jdx rhs] σ = .ok o) :
    ∃ o' X v, execL ext (Rw.inlineL x idx e [.reduce y jdx rhs]) σ = .ok o' ∧
      cellAt σ x idx = .ok X ∧ o = setCell o' X v := by
  obtain ⟨σ1, h1, h2⟩ := pair_ok ext ho
  obtain ⟨v, X, hv, hX, rfl⟩ := assign_ok ext h1
  obtain ⟨r, Y, hr, hY, rfl⟩ := reduce_ok ext h2
  rw [cellAt_setCell] at hY
  rw [hsub X v hX hv] at hr
  have hXY := hne X Y hX hY
  refine ⟨setCell σ Y (lift2 DataAlg.add (heapGet σ.heap Y) r), X, v, ?_, hX, ?_⟩
  · simp only [Rw.inlineL, Rw.inlineS]
    rw [execL_singleton, reduce_of ext hr hY]
  · have : heapGet (setCell σ X v).heap Y = heapGet σ.heap Y :=
      heapGet_heapSet_other σ.heap X Y v hXY
    rw [this]
    exact setCell_comm σ X Y v _ hXY

/-- `hsub` holds when the right-hand side IS the read `x[idx]` -/
theorem inline_read_self (x : Sym) (idx : List Expr) (e : Expr) (σ : State V)
    (hm : Rw.exprsEqN idx idx = true) (X : Nat × Nat) (v : Option V)
    (hX : cellAt σ x idx = .ok X) (hv : evalD ext σ e = .ok v) :
    evalD ext (setCell σ X v) (.read x idx) = evalD ext σ (Rw.inlineE x idx e (.read x idx)) := by
  have : Rw.inlineE x idx e (.read x idx) = e := by simp [Rw.inlineE, hm]
  rw [this, hv, evalD_read_eq, cellAt_setCell, hX]
  simp only [bind, Except.bind, pure, Except.pure]
  rw [heapGet_setCell hX]

end Inline

/-- the shape, and the hypotheses discharged for `y[0] = 3; z[0] = y[0]` in the two-buffer state -/
example : Rw.inlineAssign [.assign DsEx.y [DsEx.zero] (DsEx.d 3), .assign DsEx.z [DsEx.zero] (.read DsEx.y [DsEx.zero])]
    = some [.assign DsEx.z [DsEx.zero] (DsEx.d 3)] := by simp [Rw.rewriteAt, Rw.Step.idx, Rw.inlineAssign, Rw.inlineL, Rw.inlineS, Rw.inlineE, Rw.exprsEqN, Rw.exprEqN, DsEx.y, DsEx.z, DsEx.w, DsEx.x, DsEx.zero, DsEx.d]

example : ∃ o' X v, execL (fun _ _ => (0 : Int))
      (Rw.inlineL DsEx.y [DsEx.zero] (DsEx.d 3) [.assign DsEx.z [DsEx.zero] (.read DsEx.y [DsEx.zero])]) (DsEx.σ₂ 7 8)
        = .ok o' ∧ cellAt (DsEx.σ₂ 7 8) DsEx.y [DsEx.zero] = .ok X ∧ DsEx.σ₂ 3 3 = setCell o' X v :=
  inline_assign_assign_partial (fun _ _ => 0) DsEx.y DsEx.z [DsEx.zero] [DsEx.zero] (DsEx.d 3)
    (.read DsEx.y [DsEx.zero]) (DsEx.σ₂ 7 8)
    (fun X v hX hv => inline_read_self _ _ _ _ _ (by decide +kernel) X v hX hv)
    (fun X Y hX hY => by
      have h1 : cellAt (DsEx.σ₂ 7 8) DsEx.y [DsEx.zero] = .ok (0, 0) := by rfl
      have h2 : cellAt (DsEx.σ₂ 7 8) DsEx.z [DsEx.zero] = .ok (1, 0) := by rfl
      rw [h1] at hX; rw [h2] at hY
      cases hX; cases hY; decide)
    (DsEx.σ₂ 3 3) (by rfl)

/-- **finding `inline_assign:assigned-buffer-is-an-argument`**: `y[0] = 1; z[0] = y[0]` with `y`
    a buffer of the caller becomes `z[0] = 1`; the caller's `y[0]` keeps its old value 7 -/
theorem inline_assign_argument_unsound :
    Rw.inlineAssign [.assign DsEx.y [DsEx.zero] (DsEx.d 1), .assign DsEx.z [DsEx.zero] (.read DsEx.y [DsEx.zero])]
      = some [.assign DsEx.z [DsEx.zero] (DsEx.d 1)] ∧
    ¬ Equiv (fun _ => False)
      (.mk "p" [] [] [.assign DsEx.y [DsEx.zero] (DsEx.d 1), .assign DsEx.z [DsEx.zero] (.read DsEx.y [DsEx.zero])])
      (.mk "p" [] [] [.assign DsEx.z [DsEx.zero] (DsEx.d 1)]) := by
  refine ⟨by simp [Rw.rewriteAt, Rw.Step.idx, Rw.inlineAssign, Rw.inlineL, Rw.inlineS, Rw.inlineE, Rw.exprsEqN, Rw.exprEqN, DsEx.y, DsEx.z, DsEx.w, DsEx.x, DsEx.zero, DsEx.d], fun h => ?_⟩
  obtain ⟨o', ho', r⟩ := h Int (fun _ _ => 0) (DsEx.σ₂ 7 7) (DsEx.σ₂ 1 1) (by rfl)
  have e : execB (fun _ _ => (0 : Int)) (Proc.body (.mk "p" [] [] [.assign DsEx.z [DsEx.zero] (DsEx.d 1)]))
      (DsEx.σ₂ 7 7) = .ok (DsEx.σ₂ 7 1) := by rfl
  rw [e] at ho'
  cases ho'
  have := r.cells (0, 0)
  simp [CellRefines, heapGet, DsEx.σ₂] at this

/-- **finding `inline_assign:assigned-buffer-is-a-window`**: the same through a window `w` into
    the caller's buffer `y` -/
theorem inline_assign_window_unsound :
    Rw.rewriteAt Rw.inlineAssign [.body 1]
      [.window DsEx.w (.win DsEx.y [.interval DsEx.zero (.lit (.int 1))]),
       .assign DsEx.w [DsEx.zero] (DsEx.d 1), .assign DsEx.z [DsEx.zero] (.read DsEx.w [DsEx.zero])]
      = some [.window DsEx.w (.win DsEx.y [.interval DsEx.zero (.lit (.int 1))]),
              .assign DsEx.z [DsEx.zero] (DsEx.d 1)] ∧
    ¬ Equiv (fun _ => False)
      (.mk "p" [] [] [.window DsEx.w (.win DsEx.y [.interval DsEx.zero (.lit (.int 1))]),
       .assign DsEx.w [DsEx.zero] (DsEx.d 1), .assign DsEx.z [DsEx.zero] (.read DsEx.w [DsEx.zero])])
      (.mk "p" [] [] [.window DsEx.w (.win DsEx.y [.interval DsEx.zero (.lit (.int 1))]),
              .assign DsEx.z [DsEx.zero] (DsEx.d 1)]) := by
  refine ⟨by simp [Rw.rewriteAt, Rw.Step.idx, Rw.inlineAssign, Rw.inlineL, Rw.inlineS, Rw.inlineE, Rw.exprsEqN, Rw.exprEqN, DsEx.y, DsEx.z, DsEx.w, DsEx.x, DsEx.zero, DsEx.d], fun h => ?_⟩
  obtain ⟨o', ho', r⟩ := h Int (fun _ _ => 0) (DsEx.σ₂ 7 7) (DsEx.σ₂ 1 1) (by rfl)
  have e : execB (fun _ _ => (0 : Int)) (Proc.body (.mk "p" [] []
      [.window DsEx.w (.win DsEx.y [.interval DsEx.zero (.lit (.int 1))]),
       .assign DsEx.z [DsEx.zero] (DsEx.d 1)])) (DsEx.σ₂ 7 7) = .ok (DsEx.σ₂ 7 1) := by rfl
  rw [e] at ho'
  cases ho'
  have := r.cells (0, 0)
  simp [CellRefines, heapGet, DsEx.σ₂] at this

/-- **finding `inline_assign:assigned-buffer-read-outside-rest-of-block`**: the assignment to the
    local `x` sits in an `if` block, `x` is read after the `if`:
    `x : R; if true: (x = 1; z[0] = x); y[0] = x` leaves `y[0] = 1`; after inlining in the `if` block
    `y[0]` is uninitialised -/
theorem inline_assign_read_outside_unsound :
    Rw.rewriteAt Rw.inlineAssign [.body 1, .body 0]
      [.alloc DsEx.x [], .ite (.lit (.bool true))
        [.assign DsEx.x [] (DsEx.d 1), .assign DsEx.z [DsEx.zero] (.read DsEx.x [])] [],
       .assign DsEx.y [DsEx.zero] (.read DsEx.x [])]
      = some [.alloc DsEx.x [], .ite (.lit (.bool true)) [.assign DsEx.z [DsEx.zero] (DsEx.d 1)] [],
       .assign DsEx.y [DsEx.zero] (.read DsEx.x [])] ∧
    ¬ Equiv (fun _ => False)
      (.mk "p" [] [] [.alloc DsEx.x [], .ite (.lit (.bool true))
        [.assign DsEx.x [] (DsEx.d 1), .assign DsEx.z [DsEx.zero] (.read DsEx.x [])] [],
       .assign DsEx.y [DsEx.zero] (.read DsEx.x [])])
      (.mk "p" [] [] [.alloc DsEx.x [], .ite (.lit (.bool true)) [.assign DsEx.z [DsEx.zero] (DsEx.d 1)] [],
       .assign DsEx.y [DsEx.zero] (.read DsEx.x [])]) := by
  refine ⟨by simp [Rw.rewriteAt, Rw.Step.idx, Rw.inlineAssign, Rw.inlineL, Rw.inlineS, Rw.inlineE, Rw.exprsEqN, Rw.exprEqN, DsEx.y, DsEx.z, DsEx.w, DsEx.x, DsEx.zero, DsEx.d], fun h => ?_⟩
  obtain ⟨o', ho', r⟩ := h Int (fun _ _ => 0) (DsEx.σ₂ 7 7) (DsEx.σ₂ 1 1) (by rfl)
  have e : execB (fun _ _ => (0 : Int)) (Proc.body (.mk "p" [] []
      [.alloc DsEx.x [], .ite (.lit (.bool true)) [.assign DsEx.z [DsEx.zero] (DsEx.d 1)] [],
       .assign DsEx.y [DsEx.zero] (.read DsEx.x [])])) (DsEx.σ₂ 7 7)
      = .ok ⟨[], [(DsEx.y, ⟨0, 0, [(1, 1)]⟩), (DsEx.z, ⟨1, 0, [(1, 1)]⟩)], [[none], [some 1]], []⟩ := by rfl
  rw [e] at ho'
  cases ho'
  have := r.cells (0, 0)
  simp [CellRefines, heapGet, DsEx.σ₂] at this

/-! ### commute_expr / left_reassociate_expr: one node rewritten at any data position -/

section ExprRewrites
variable {V : Type} [DataAlg V] [DataLaws V] (ext : String → List V → V)

/-- a statement whose data right-hand side is exchanged for one of the same value (up to which
    error) behaves the same -/
theorem dataRhsWith_sound (P : Expr → Expr → Bool)
    (hP : ∀ e e', P e e' = true → ∀ σ : State V, ExEq (evalD ext σ e) (evalD ext σ e'))
    (s s' s'' : Stmt) (hshape : Rw.dataRhsWith P s' [s] = some [s'']) (σ : State V) :
    ExEq (execS ext s σ) (execS ext s'' σ) := by
  cases s with
  | assign x idx rhs =>
    cases s' <;> simp only [Rw.dataRhsWith] at hshape <;> try cases hshape
    rename_i y jdx rhs'
    split at hshape
    · rename_i hp
      simp only [Option.some.injEq, List.cons.injEq, and_true] at hshape
      subst hshape
      simp only [execS]
      exact ExEq.bind_congr (hP _ _ hp σ) (fun _ => ExEq.refl _)
    · cases hshape
  | reduce x idx rhs =>
    cases s' <;> simp only [Rw.dataRhsWith] at hshape <;> try cases hshape
    rename_i y jdx rhs'
    split at hshape
    · rename_i hp
      simp only [Option.some.injEq, List.cons.injEq, and_true] at hshape
      subst hshape
      simp only [execS]
      exact ExEq.bind_congr (hP _ _ hp σ) (fun _ => ExEq.refl _)
    · cases hshape
  | writecfg c f rhs d =>
    cases d with
    | false => simp [Rw.dataRhsWith] at hshape
    | true =>
      cases s' <;> simp only [Rw.dataRhsWith] at hshape <;> try cases hshape
      rename_i c' f' rhs' d'
      split at hshape
      · rename_i hp
        simp only [Option.some.injEq, List.cons.injEq, and_true] at hshape
        subst hshape
        simp only [execS, if_true]
        exact ExEq.bind_congr (hP _ _ hp σ) (fun _ => ExEq.refl _)
      · cases hshape
  | _ => simp [Rw.dataRhsWith] at hshape

end ExprRewrites

/-- `commute_expr`: the statement at the position differs from the original by swapping the
    operands of one `+`/`*` node of its right-hand side (shape `Rw.commuteExprWith`, which is what
    the tie checks) ⇒ equivalent procedures, up to real-number algebra -/
theorem commute_expr_in_context (C : Ctx) (s s' s'' : Stmt) (nm : String) (args : List FnArg)
    (preds : List Expr) (hshape : Rw.commuteExprWith s' [s] = some [s'']) :
    EquivLaws (fun _ => False) (.mk nm args preds (C.fill [s])) (.mk nm args preds (C.fill [s''])) := by
  refine equivLaws_of_reach_le C _ _ nm args preds (fun V _ _ ext σ₀ σ _ => ?_)
  rw [execL_singleton, execL_singleton]
  exact (dataRhsWith_sound ext Rw.commuteOnce (fun e e' h σ => commuteOnce_sound ext e e' h σ)
    s s' s'' hshape σ).le

/-- `y[0] = z[0] * (y[0] + 2)` with the inner `+` commuted, inside a loop -/
example : EquivLaws (fun _ => False)
    (.mk "p" [] [] ((Ctx.loop DsEx.i DsEx.zero (.lit (.int 3)) false .hole).fill
      [.assign DsEx.y [DsEx.zero] (.binop .mul (.read DsEx.z [DsEx.zero])
        (.binop .add (.read DsEx.y [DsEx.zero]) (DsEx.d 2)))]))
    (.mk "p" [] [] ((Ctx.loop DsEx.i DsEx.zero (.lit (.int 3)) false .hole).fill
      [.assign DsEx.y [DsEx.zero] (.binop .mul (.read DsEx.z [DsEx.zero])
        (.binop .add (DsEx.d 2) (.read DsEx.y [DsEx.zero])))])) :=
  commute_expr_in_context _ _
    (.assign DsEx.y [DsEx.zero] (.binop .mul (.read DsEx.z [DsEx.zero])
        (.binop .add (DsEx.d 2) (.read DsEx.y [DsEx.zero])))) _ _ _ _ (by
    have h : Rw.commuteOnce (.binop .mul (.read DsEx.z [DsEx.zero])
        (.binop .add (.read DsEx.y [DsEx.zero]) (DsEx.d 2))) (.binop .mul (.read DsEx.z [DsEx.zero])
        (.binop .add (DsEx.d 2) (.read DsEx.y [DsEx.zero]))) = true := by decide +kernel
    simp only [Rw.commuteExprWith, Rw.dataRhsWith, h, if_true])

/-- the comparison rejects a `-` node and two swaps at once -/
example : Rw.commuteOnce (.binop .sub (DsEx.d 1) (DsEx.d 2)) (.binop .sub (DsEx.d 2) (DsEx.d 1)) = false ∧
    Rw.commuteOnce (.binop .add (.binop .add (DsEx.d 1) (DsEx.d 2)) (DsEx.d 3))
      (.binop .add (DsEx.d 3) (.binop .add (DsEx.d 2) (DsEx.d 1))) = false := by decide +kernel

/-- `left_reassociate_expr`: one node `a op (b op c)` turned into `(a op b) op c` -/
theorem left_reassociate_expr_in_context (C : Ctx) (s s' s'' : Stmt) (nm : String)
    (args : List FnArg) (preds : List Expr) (hshape : Rw.reassocExprWith s' [s] = some [s'']) :
    EquivLaws (fun _ => False) (.mk nm args preds (C.fill [s])) (.mk nm args preds (C.fill [s''])) := by
  refine equivLaws_of_reach_le C _ _ nm args preds (fun V _ _ ext σ₀ σ _ => ?_)
  rw [execL_singleton, execL_singleton]
  exact (dataRhsWith_sound ext Rw.reassocOnce (fun e e' h σ => reassocOnce_sound ext e e' h σ)
    s s' s'' hshape σ).le

example : EquivLaws (fun _ => False)
    (.mk "p" [] [] (Ctx.hole.fill
      [.reduce DsEx.y [DsEx.zero] (.binop .add (DsEx.d 1) (.binop .add (.read DsEx.z [DsEx.zero]) (DsEx.d 2)))]))
    (.mk "p" [] [] (Ctx.hole.fill
      [.reduce DsEx.y [DsEx.zero] (.binop .add (.binop .add (DsEx.d 1) (.read DsEx.z [DsEx.zero])) (DsEx.d 2))])) :=
  left_reassociate_expr_in_context .hole _
    (.reduce DsEx.y [DsEx.zero] (.binop .add (.binop .add (DsEx.d 1) (.read DsEx.z [DsEx.zero])) (DsEx.d 2)))
    _ "p" [] [] (by
    have h : Rw.reassocOnce (.binop .add (DsEx.d 1) (.binop .add (.read DsEx.z [DsEx.zero]) (DsEx.d 2)))
        (.binop .add (.binop .add (DsEx.d 1) (.read DsEx.z [DsEx.zero])) (DsEx.d 2)) = true := by
      decide +kernel
    simp only [Rw.reassocExprWith, Rw.dataRhsWith, h, if_true])

/-- **needed** (`DataLaws`): without commutativity the rewrite is wrong — a data algebra whose
    `+` is "take the left operand" distinguishes `a + b` from `b + a` -/
theorem commute_expr_needs_laws :
    ∃ (inst : DataAlg Int), ¬ ExEq
      (@evalD Int inst (fun _ _ => 0) ⟨[], [], [], []⟩ (.binop .add (DsEx.d 1) (DsEx.d 2)))
      (@evalD Int inst (fun _ _ => 0) ⟨[], [], [], []⟩ (.binop .add (DsEx.d 2) (DsEx.d 1))) := by
  refine ⟨⟨fun n _ => n, fun a _ => a, fun a _ => a, fun a _ => a, fun a _ => a, fun a => a⟩, fun h => ?_⟩
  have := congrArg (fun o => match o with | some (some v) => v | _ => (99 : Int)) h
  revert this
  decide

end Exo.C01
