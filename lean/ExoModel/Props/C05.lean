/-
  Property C05 — `replace` only substitutes true instances of the callee.

  The unifier is not modelled; a validator `checkReplace` is proved sound once and run on every
  call a real `replace` produces (harness/props/c05.py).  All theorems quantify over all data
  algebras `V`, all interpretations `ext` of extern functions, all procedures, arguments, blocks
  and states.  Helper lemmas: ExoModel/Lemmas/Inline*.lean.
-/
import ExoModel.Lemmas.InlineInline

set_option linter.unusedSectionVars false
namespace Exo.C05
open Exo Exo.Inline

variable {V : Type} [DataAlg V] (ext : String → List V → V)

/-! ### example data: `cp(n, dst, src)` against `for j in seq(0, 8): B[2 + j, i] = x[j + 0]` -/

private def sN : Sym := ⟨"n", 1⟩
private def sDst : Sym := ⟨"dst", 2⟩
private def sSrc : Sym := ⟨"src", 3⟩
private def sI : Sym := ⟨"i", 4⟩
private def sB : Sym := ⟨"B", 10⟩
private def sX : Sym := ⟨"x", 11⟩
private def sJ : Sym := ⟨"j", 12⟩
private def sK : Sym := ⟨"k", 13⟩
private def rd (s : Sym) : Expr := .read s []
private def num (n : Int) : Expr := .lit (.int n)

/-- `def cp(n: size, dst: [f32][n], src: [f32][n]): assert n == 8; for i in seq(0, n): dst[i] = src[i]` -/
private def cp : Proc :=
  .mk "cp" [⟨sN, .ctrl .size⟩, ⟨sDst, .tensor [rd sN] true⟩, ⟨sSrc, .tensor [rd sN] true⟩]
    [.binop .eq (rd sN) (num 8)]
    [.loop sI (num 0) (rd sN) [.assign sDst [rd sI] (.read sSrc [rd sI])] false]

/-- the arguments `replace` infers: `cp(8, B[2:10, k + 0], x[0:8])` -/
private def cpArgs : List Expr :=
  [num 8, .win sB [.interval (num 2) (num 10), .point (.binop .add (rd sK) (num 0))],
   .win sX [.interval (num 0) (num 8)]]

/-- the block it replaces: `for j in seq(0, 8): B[j + 2, k] = x[j]` -/
private def blk : List Stmt :=
  [.loop sJ (num 0) (num 8)
    [.assign sB [.binop .add (rd sJ) (num 2), rd sK] (.read sX [rd sJ])] false]

/-- a near miss: the block copies from `x[j + 1]` -/
private def blkOff : List Stmt :=
  [.loop sJ (num 0) (num 8)
    [.assign sB [.binop .add (rd sJ) (num 2), rd sK] (.read sX [.binop .add (rd sJ) (num 1)])] false]

/-! ### the normaliser preserves values -/

/-- the linear normal form evaluates (same success, same value) like the expression -/
theorem lin_value_preserving (σ : State V) (e : Expr) : ExEq (evalLF σ (lin e)) (evalC σ e) :=
  lin_sound σ e

/-- expressions the validator identifies have the same value in every state -/
theorem eqC_value_preserving (σ : State V) (a b : Expr) (h : eqC a b = true) :
    ExEq (evalC σ a) (evalC σ b) :=
  eqC_sound σ a b h

example : eqC (.binop .add (.binop .mul (num 2) (.binop .add (rd sJ) (num 1))) (rd sK))
              (.binop .add (rd sK) (.binop .add (.binop .mul (rd sJ) (num 2)) (num 2))) = true := by decide +kernel

example : eqC (.binop .lt (rd sJ) (rd sN)) (.binop .le (.binop .add (rd sJ) (num 1)) (rd sN)) = true := by
  decide +kernel

/-! ### THEOREM 1 — inlining a call is correct -/

/-- `DoInline` (model: `Inline.inline`) is correct: in every state in which the call's monitors
    pass (`bindArgs` succeeds, no two numeric arguments share a buffer, declared shapes and
    assertions hold), the call and the inlined statements, run in a scope of their own, agree:
    both fail, or both succeed with the same state.

    `_partial`: `inline` (hence the theorem) covers actuals that are control expressions, whole
    buffers or windows; a point access `y[i]` passed for a scalar formal is not covered
    (`replace` never produces it, and the real `DoInline` asserts when such a formal is written).
    Callee bodies are arbitrary (loops, branches, allocations, window statements, configuration
    reads and writes, nested calls).  Well-formedness needed (`inlineWf`, a decidable
    syntactic condition; the driver evaluates it on every real instance): formals pairwise
    distinct; no formal mentioned by an actual; no actual reads the configuration; every name
    bound in the callee's body (loop variable, allocation, window) is fresh where it is bound:
    mentioned neither by an actual nor by an enclosing binder (`bindersFreshL`).  The real
    `DoInline` renames the bound names to fresh copies (`Alpha_Rename`); the model keeps them. -/
theorem inline_correct_partial {f : Proc} {args : List Expr} {B : List Stmt}
    (hi : inline f args = some B) (hwf : inlineWf f args = true) (σ : State V)
    {ce : List (Sym × Int)} {cv : List (Sym × View)}
    (hb : bindArgs σ f.args args [] [] = .ok (ce, cv)) (hna : noAlias cv = true)
    (hs : checkShapes (calleeState σ ce cv) f.args = .ok ())
    (hp : checkPreds (calleeState σ ce cv) f.preds = .ok ()) :
    ExEq (execS ext (.call f args) σ) (execB ext B σ) :=
  inline_sound ext hi hwf σ hb hna hs hp

example : inlineWf cp cpArgs = true ∧ (inline cp cpArgs).isSome = true := by decide +kernel

/-! ### THEOREM 2 — the validator is sound -/

/-- (a) exactness: if `checkReplace` accepts, every successful run of the call `f(args)` is a
    run of the replaced block (in its own scope) with the same final state — in every state,
    with no further hypothesis -/
theorem replace_call_refines_block {blk : List Stmt} {f : Proc} {args : List Expr}
    (hc : checkReplace blk f args = true) (σ : State V) :
    ExLe (execS ext (.call f args) σ) (execB ext blk σ) :=
  call_le_block ext hc σ

/-- (b) if `checkReplace` accepts, every successful run of the block is a successful run of the
    call with the same final state, in every state in which the call's monitors pass — the
    arguments bind, no aliasing, and the instantiated signature and assertions hold — and the
    callee's body does not leave its windows (`hoob`; guaranteed for callees accepted by the
    front end's bounds check, which checks the body against the declared shapes and assertions:
    property C03).  Without `hoob` the statement is false: a callee may read `src[9]` of a window
    `src = x[0:8]` where the block reads `x[9]`. -/
theorem replace_sound {blk : List Stmt} {f : Proc} {args : List Expr}
    (hc : checkReplace blk f args = true) (σ : State V)
    {ce : List (Sym × Int)} {cv : List (Sym × View)}
    (hb : bindArgs σ f.args args [] [] = .ok (ce, cv)) (hna : noAlias cv = true)
    (hs : checkShapes (calleeState σ ce cv) f.args = .ok ())
    (hp : checkPreds (calleeState σ ce cv) f.preds = .ok ())
    (hoob : execL ext f.body (calleeState σ ce cv) ≠ .error .oob) :
    ExLe (execB ext blk σ) (execS ext (.call f args) σ) :=
  block_le_call ext hc σ hb hna hs hp hoob

/-- both directions together -/
theorem replace_exact {blk : List Stmt} {f : Proc} {args : List Expr}
    (hc : checkReplace blk f args = true) (σ : State V)
    {ce : List (Sym × Int)} {cv : List (Sym × View)}
    (hb : bindArgs σ f.args args [] [] = .ok (ce, cv)) (hna : noAlias cv = true)
    (hs : checkShapes (calleeState σ ce cv) f.args = .ok ())
    (hp : checkPreds (calleeState σ ce cv) f.preds = .ok ())
    (hoob : execL ext f.body (calleeState σ ce cv) ≠ .error .oob) :
    ExEq (execB ext blk σ) (execS ext (.call f args) σ) :=
  ExEq.of_le_le (block_le_call ext hc σ hb hna hs hp hoob) (call_le_block ext hc σ)

example : checkReplace blk cp cpArgs = true := by decide +kernel
example : checkReplace blkOff cp cpArgs = false := by decide +kernel
example (σ : State V) : ExLe (execS ext (.call cp cpArgs) σ) (execB ext blk σ) :=
  replace_call_refines_block ext (by decide +kernel) σ

/-- the assertion monitor passes when the instantiated assertions (`predsObligations`) hold at
    the call: they are the callee's assertions with the formals replaced by the actuals
    (`stride(dst, 0)` of a window `B[2:10, i]` becomes `stride(B, 0)`) -/
theorem assertions_of_obligations {blk : List Stmt} {f : Proc} {args : List Expr} {θ : Subst}
    (hθ : mkSubst f.args args [] = some θ) (σ : State V)
    {ce : List (Sym × Int)} {cv : List (Sym × View)}
    (hb : bindArgs σ f.args args [] [] = .ok (ce, cv))
    (ho : ObligationsHold σ (predsObligations blk f args)) :
    checkPreds (calleeState σ ce cv) f.preds = .ok () := by
  refine checkPreds_of_obligations (rel_of_bindArgs σ f.args args θ ce cv hθ hb) f.preds ?_
  intro e he
  refine ho e ?_
  simp only [predsObligations, predsObligationsD, hθ, List.mem_append]
  exact Or.inr he

/-- F13 in the model: the instantiated assertion `n == 8` of `cp(4, …)` is `4 == 8` -/
example : eqEs
    (predsObligations [] cp [num 4, .win sB [.interval (num 0) (num 4)], .win sX [.interval (num 0) (num 4)]])
    [.binop .lt (num 0) (num 4),
     .binop .eq (.binop .sub (num 4) (num 0)) (num 4),
     .binop .eq (.binop .sub (num 4) (num 0)) (num 4),
     .binop .eq (num 4) (num 8)] = true := by decide +kernel

/-! ### the procedure around the call -/

/-- the procedure after `replace` computes exactly what the procedure before computed, or stops
    at a monitor: for every context around the block (loops, branches, statements before and
    after), every run of the original that succeeds is matched by the same successful run of
    the rewritten procedure unless the latter fails — and by `replace_sound` the inserted call
    can only fail at its own monitors (binding, aliasing, shapes, assertions, window bounds).
    (`noDefs blk`: the block does not itself leave allocations or windows in scope.) -/
theorem replace_agrees_or_stops {blk : List Stmt} {f : Proc} {args : List Expr}
    (hc : checkReplace blk f args = true) (hn : noDefs blk = true) (C : Ctx) (σ o : State V)
    (h : execB ext (C.fill blk) σ = .ok o) :
    execB ext (C.fill [.call f args]) σ = .ok o ∨ ∃ e, execB ext (C.fill [.call f args]) σ = .error e :=
  ExLeF.map_congr (State.leave σ) (ctx_leF (blockLeF_of_check hc hn) C V ext σ) o h

/-- if moreover the call's monitors pass wherever the block itself runs, the procedures are
    equivalent (no configuration field excepted) -/
theorem replace_equiv {blk : List Stmt} {f : Proc} {args : List Expr}
    (hc : checkReplace blk f args = true) (hn : noDefs blk = true)
    (hmon : ∀ (V : Type) [DataAlg V] (ext : String → List V → V) (σ o : State V),
      execL ext blk σ = .ok o → ∃ ce cv, bindArgs σ f.args args [] [] = .ok (ce, cv) ∧
        noAlias cv = true ∧ checkShapes (calleeState σ ce cv) f.args = .ok () ∧
        checkPreds (calleeState σ ce cv) f.preds = .ok () ∧
        execL ext f.body (calleeState σ ce cv) ≠ .error .oob)
    (C : Ctx) (nm : String) (pargs : List FnArg) (preds : List Expr) :
    Equiv (fun _ => False) (.mk nm pargs preds (C.fill blk)) (.mk nm pargs preds (C.fill [.call f args])) := by
  refine equiv_of_blockLe (ctx_le ?_ C) nm pargs preds
  intro V _ ext σ o ho
  obtain ⟨ce, cv, hb, hna, hs, hp, hoob⟩ := hmon V ext σ o ho
  rw [execL_singleton]
  refine block_le_call ext hc σ hb hna hs hp hoob o ?_
  rw [execB_of_noDefs ext hn σ]; exact ho

example : noDefs blk = true := by decide +kernel

end Exo.C05
