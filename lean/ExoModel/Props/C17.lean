/-
  C17 — the printed procedure denotes the procedure.

  (a) `PrintEnv.get_name` (model: `Exo.Print.getName`, driven by the operations the printer
      performs): are two distinct live symbols ever shown with the same name?
      * FALSE for the code as written (finding F15): `getName_not_injective`.
      * `getName_injective_partial`: it is true on every run none of whose steps shows a symbol
        under its own name while that text is the generated name `x_k` of a live symbol —
        and that hypothesis is necessary step by step (`getName_clash_collides`).
      * `getName_injective_static_partial`: a syntactic sufficient condition.
      * `getNameFixed_injective`: the repaired loop condition makes it true for all runs.
  (b) expressions: `parse (ppT 0 e) = some (norm e)` for every expression over the operators of
      the precedence table, unary minus, literals, variables with subscripts, in which no
      comparison is the direct left operand of a comparison; `norm` turns a negative literal into
      `-` applied to the positive one (what Python reads).  For comparison-in-comparison the
      statement is false (`comparison_chain_misread`).

  The theorems about text are stated on the token lists `ppT`; that the characters `ppS` lex to
  these tokens is checked by the correspondence run, not proved.
-/
import ExoModel.Lemmas.PrintName
import ExoModel.Lemmas.PrintExpr

namespace Exo.Print.C17
open Exo Exo.Print

/-! ## (a) names -/

/-- unrolled `x`, `x` next to a user variable literally called `x_1` -/
def witness : List Op := [.get ⟨"x", 1⟩, .get ⟨"x", 2⟩, .get ⟨"x_1", 3⟩]

/-- the literal `get_name` shows the second `x` and the user's `x_1` both as `x_1` -/
theorem getName_collision_witness :
    (run PEnv.init witness).2 = ["x", "x_1", "x_1"] ∧ injB (run PEnv.init witness).1 = false := by
  decide

/-- property (a) is FALSE for `get_name` as written -/
theorem getName_not_injective : ¬ ∀ ops : List Op, Inj (run PEnv.init ops).1 := by
  intro h
  have := (injB_iff _).mpr (h witness)
  rw [getName_collision_witness.2] at this
  exact absurd this (by decide)

/-- PARTIAL (what is missing: the hypothesis `Safe`; without it the statement is false, see
    above).  At every moment of every run that never shows a symbol under its own name while
    that text is in use as a generated name, distinct live symbols have distinct printed names. -/
theorem getName_injective_partial (ops : List Op) (h : Safe PEnv.init ops) :
    ∀ E ∈ statesWith getName PEnv.init ops, Inj E :=
  inj_states inv_init inj_init h

example : Safe PEnv.init
    [.get ⟨"x", 1⟩, .push, .get ⟨"x", 2⟩, .get ⟨"x", 3⟩, .get ⟨"x_3", 4⟩, .pop, .get ⟨"x", 5⟩,
     .get ⟨"x", 1⟩] := by decide
example : (run PEnv.init
    [.get ⟨"x", 1⟩, .push, .get ⟨"x", 2⟩, .get ⟨"x", 3⟩, .get ⟨"x_3", 4⟩, .pop, .get ⟨"x", 5⟩,
     .get ⟨"x", 1⟩]).2 = ["x", "x_1", "x_2", "x_3", "x_1", "x"] := by decide

/-- the hypothesis of `getName_injective_partial` cannot be weakened: a step it excludes (a new
    symbol whose own name is free in `names` but is the printed name of a live symbol) yields
    two live symbols with one name -/
theorem getName_clash_collides {E : PEnv} {s s₂ : Sym} (hs : envGet E s = none)
    (hn : namesHas E s.name = false) (hm : (s₂, s.name) ∈ flatEnv E) :
    ¬ Inj (step E (.get s)).1 :=
  clash_step hs hn hm

example : envGet (run PEnv.init [.get ⟨"x", 1⟩, .get ⟨"x", 2⟩]).1 ⟨"x_1", 3⟩ = none ∧
    namesHas (run PEnv.init [.get ⟨"x", 1⟩, .get ⟨"x", 2⟩]).1 "x_1" = false ∧
    ((⟨"x", 2⟩ : Sym), "x_1") ∈ flatEnv (run PEnv.init [.get ⟨"x", 1⟩, .get ⟨"x", 2⟩]).1 := by
  decide

/-- PARTIAL (hypothesis `NoGenNames`): if no symbol of the run is itself named `n_k` for the
    name `n` of a symbol of the run and a number `k`, the printed names are injective -/
theorem getName_injective_static_partial (ops : List Op) (h : NoGenNames (opsSyms ops)) :
    ∀ E ∈ statesWith getName PEnv.init ops, Inj E :=
  getName_injective_partial ops
    (safe_of_noGenNames h inv_init (by intro p hp; simp [PEnv.init, flatEnv] at hp) (fun _ hs => hs))

example : NoGenNames (opsSyms [.get ⟨"x", 1⟩, .push, .get ⟨"x", 2⟩, .get ⟨"y1", 3⟩]) := by
  intro s hs s' hs' k e
  have hk := congrArg String.toList e
  rw [candName_toList] at hk
  simp only [opsSyms, List.mem_cons, List.not_mem_nil, or_false] at hs hs'
  have hmem : '_' ∈ s.name.toList := by rw [hk]; simp
  rcases hs with rfl | rfl | rfl <;> simp at hmem

/-- with the loop condition `candidate in self.names or candidate in self.env.values()` the
    property holds for ALL runs -/
theorem getNameFixed_injective (ops : List Op) :
    ∀ E ∈ statesWith getNameFixed PEnv.init ops, Inj E :=
  inj_statesFixed inj_init

example : (runFixed PEnv.init witness).2 = ["x", "x_1", "x_1_1"] := by decide

/-- names handed out are stable: a symbol that is live keeps its name (second lookup) -/
theorem getName_stable (E : PEnv) (s : Sym) (r : String) (h : envGet E s = some r)
    (hne : r.isEmpty = false) : getName E s = (r, E) := by
  simp [getName, h, hne]

example : envGet (run PEnv.init witness).1 ⟨"x", 2⟩ = some "x_1" := by decide

/-! ## (b) expressions -/

/-- the printed tokens of every well-formed expression parse back to the expression, negative
    literals becoming `-` applied to the literal -/
theorem parse_print (e : PExpr) (h : wf e = true) : parse (ppT 0 e) = some (norm e) :=
  parse_ppT e h

/-- … and to the expression itself when it has no negative literal -/
theorem parse_print_exact (e : PExpr) (h : wf e = true) (hn : noNegConst e = true) :
    parse (ppT 0 e) = some e := by
  rw [parse_ppT e h, norm_id e hn]

private def a : PExpr := .var "a" []
private def b : PExpr := .var "b" []
private def c : PExpr := .var "c" []
private def x : PExpr := .var "x" [.bin .add (.var "i" []) (.const false "1"), .neg (.var "j" [])]

-- non-vacuity, and how the cases named in the property print
example : wf (.bin .sub a (.bin .sub b c)) = true ∧
    ppS 0 (.bin .sub a (.bin .sub b c)) = "a - (b - c)" ∧
    ppS 0 (.bin .sub (.bin .sub a b) c) = "a - b - c" := by decide
example : ppS 0 (.neg (.neg x)) = "--x[i + 1, -j]" := by decide
example : ppS 0 (.bin .mul a (.neg b)) = "a * -b" ∧ ppS 0 (.bin .mul (.neg a) b) = "-a * b" ∧
    ppS 0 (.neg (.bin .mul a b)) = "-(a * b)" := by decide
example : ppS 0 (.bin .sub a (.const true "3")) = "a - -3" ∧
    ppS 0 (.neg (.const true "2.5")) = "--2.5" := by decide
example : ppS 0 (.bin .mod (.bin .mul a b) (.bin .div a (.bin .mod b c))) = "a * b % (a / (b % c))" := by
  decide
example : ppS 0 (.bin .and (.bin .lt a b) (.bin .or (.bin .eq a c) (.bin .le b c)))
    = "a < b and (a == c or b <= c)" := by decide
example : parse (ppT 0 (.bin .sub a (.bin .mul (.const true "3") (.neg (.neg x)))))
    = some (.bin .sub a (.bin .mul (.neg (.const false "3")) (.neg (.neg x)))) :=
  parse_print _ (by decide)

/-- outside the class: `(a < b) < c` is printed `a < b < c`, which Python reads as a chain -/
theorem comparison_chain_misread :
    ppS 0 (.bin .lt (.bin .lt a b) c) = "a < b < c" ∧
    parse (ppT 0 (.bin .lt (.bin .lt a b) c)) = some (.bin .and (.bin .lt a b) (.bin .lt b c)) := by
  constructor
  · decide
  · rfl

end Exo.Print.C17
