/-
  Property C11 — "Procedure-equivalence tracking is a sound congruence"   (src/exo/core/proc_eqv.py)

  Model      : ExoModel/ProcEqv.lean      (literal state machine `step`, `run h` = state after history h)
  Spec       : ExoModel/ProcEqvSpec.lean  (`edges h` = recorded steps, `Conn k` / `ConnAll` / `ConnStrict`)
  Refinement : ExoModel/Lemmas/ProcEqvState.lean (`run_inv : ∀ h, SInv (run h) (spec h)`, by induction
               over the history; every theorem below is a corollary)

  All theorems quantify over ALL histories `h : List Op` (any interleaving of decl / derive / assert /
  queries, any modulo-sets, calls on undeclared procs included) and over the infinite field universe
  `Field = Nat`.  `checkAfter h p q K` / `strictestAfter h p q` / `reprAfter h p` are the answers the
  module gives when queried after `h`.
-/
import ExoModel.Lemmas.ProcEqvState
import ExoModel.Lemmas.ProcEqvForest
namespace Exo.ProcEqv

/-! ## (0) the fuel of `find` is never exhausted; `KeyError` exactly on undeclared procs -/

/-- **Termination of `find`.**  In no reachable state does any API call run out of the fuel
    `links + 1` that the model gives to the `while val is not parent` loop: the model's fuelled loop
    and Python's unbounded loop coincide on every history. -/
theorem find_fuel_never_exhausted (h : List Op) :
    Out.error .fuel ∉ outs State.init h := by
  have gen : ∀ (h : List Op) (s : State) (sp : Spec), SInv s sp → Out.error .fuel ∉ outs s h := by
    intro h
    induction h with
    | nil => intro s sp _; simp [outs]
    | cons op h ih =>
      intro s sp hs
      simp only [outs, List.mem_cons, not_or]
      exact ⟨fun e => step_out_ne_fuel hs op e.symm, ih _ _ (step_inv hs op)⟩
  exact gen h _ _ SInv.init

example : outs State.init [.decl 1, .derive 1 2 [7], .derive 2 3 [], .assertEqv 3 1 [8], .check 1 3 [7],
    .check 1 9 []] = [.unit, .unit, .unit, .unit, .bool true, .error .keyError] := by decide

/-- a query that mentions a never-declared proc raises `KeyError`, and only such a query does -/
theorem check_keyError_iff (h : List Op) (p q : Proc) (K : List Field) :
    checkAfter h p q K = .error .keyError ↔ ¬ (declared h p ∧ declared h q) := by
  by_cases hpq : declared h p ∧ declared h q
  · obtain ⟨b, s', he, _⟩ := checkEqvProc_ok (run_inv h) K hpq.1 hpq.2
    simp [checkAfter, step, he, hpq]
  · obtain ⟨s', he, _⟩ := checkEqvProc_err (run_inv h) K hpq
    simp [checkAfter, step, he, hpq]

example : checkAfter [.decl 1, .derive 1 2 [7]] 1 5 [] = .error .keyError ∧
    ¬ (declared [.decl 1, .derive 1 2 [7]] 1 ∧ declared [.decl 1, .derive 1 2 [7]] 5) := by decide

/-! ## (1) `check_eqv_proc` decides the per-field closure, over the infinite field universe -/

/-- **C11 (1).**  After any history, for declared procs, `check_eqv_proc(p, q, K)` returns a Boolean,
    and it is `True` exactly when `p` and `q` are connected, for EVERY field `k` outside `K` (fields
    mentioned early, late, or never), by recorded steps none of which disturbed `k`. -/
theorem check_eqv_iff (h : List Op) (p q : Proc) (K : List Field)
    (hp : declared h p) (hq : declared h q) :
    (∃ b, checkAfter h p q K = .bool b) ∧
    (checkAfter h p q K = .bool true ↔ ∀ k, k ∉ K → Conn k (edges h) p q) := by
  obtain ⟨b, s', he, _, hb⟩ := checkEqvProc_ok (run_inv h) K hp hq
  have hout : checkAfter h p q K = .bool b := by simp [checkAfter, step, he]
  refine ⟨⟨b, hout⟩, ?_⟩
  rw [hout]
  simp only [Out.bool.injEq]
  exact hb

/-- the history used by the examples: fields 4 and 5 are first mentioned by the 3rd step, field 8
    later still; two `assert`s join the second root `2` and close a cycle 1-3-6-7-1; queries are
    interleaved; field 9 is never mentioned.  Recorded steps:
      (1,3,{4,5}) (3,6,{}) (2,6,{5}) (6,7,{8}) (7,1,{4})
    classes when field 4 is observed: {1} {2,3,6,7};  field 5: {1,3,6,7} {2};  any other field: one class -/
def h0 : List Op :=
  [.decl 1, .decl 2, .derive 1 3 [4, 5], .check 1 3 [9], .derive 3 6 [], .assertEqv 2 6 [5],
   .strictest 1 2, .derive 6 7 [8], .assertEqv 7 1 [4]]

example : declared h0 1 ∧ declared h0 6 := by decide
-- 1 and 6 are reported equivalent modulo {4}, hence connected for every other field (5 via 7, 8 via 3)
example : checkAfter h0 1 6 [4] = .bool true := by decide
example : ∀ k, k ∉ [4] → Conn k (edges h0) 1 6 :=
  (check_eqv_iff h0 1 6 [4] (by decide) (by decide)).2.1 (by decide)
-- ... but not modulo {} (every route from 1 disturbs field 4)
example : checkAfter h0 1 6 [] = .bool false := by decide
example : ¬ ∀ k, k ∉ [] → Conn k (edges h0) 1 6 := fun hc =>
  absurd ((check_eqv_iff h0 1 6 [] (by decide) (by decide)).2.2 hc) (by decide)
-- a never-mentioned field in the modulo set does not help
example : checkAfter h0 1 6 [9] = .bool false := by decide

/-! ## (2) `get_strictest_eqv_proc` returns the least modulo-set -/

/-- **C11 (2).**  `get_strictest_eqv_proc(p, q)` returns `(is_eqv, keys)` where `is_eqv` says whether
    the procs are connected by recorded steps at all, and — when they are — `keys` is EXACTLY the set
    of fields `k` (of the whole infinite universe) for which they are not connected by steps that
    leave `k` alone.  When they are not connected, Python returns `(False, set())`, and then no field
    at all connects them. -/
theorem get_strictest_exact (h : List Op) (p q : Proc) (hp : declared h p) (hq : declared h q) :
    ∃ b ks, strictestAfter h p q = .strictest b ks ∧
      (b = true ↔ ConnAll (edges h) p q) ∧
      (b = true → ∀ k, k ∈ ks ↔ ¬ Conn k (edges h) p q) ∧
      (b = false → ks = [] ∧ ∀ k, ¬ Conn k (edges h) p q) := by
  obtain ⟨b, ks, s', he, _, hb, hks, hemp⟩ := getStrictest_ok (run_inv h) hp hq
  refine ⟨b, ks, by simp [strictestAfter, step, he], hb, hks, fun hf => ⟨hemp hf, fun k hc => ?_⟩⟩
  have := hb.2 (Conn.toAll hc)
  simp [hf] at this

/-- **C11 (2'), leastness.**  The returned key set is the least modulo-set under which
    `check_eqv_proc` answers `True`. -/
theorem get_strictest_least (h : List Op) (p q : Proc) (ks : List Field)
    (hs : strictestAfter h p q = .strictest true ks) (K : List Field) :
    checkAfter h p q K = .bool true ↔ ∀ k ∈ ks, k ∈ K := by
  by_cases hpq : declared h p ∧ declared h q
  · obtain ⟨b, ks', he, _, hks, _⟩ := get_strictest_exact h p q hpq.1 hpq.2
    rw [hs] at he
    simp only [Out.strictest.injEq] at he
    obtain ⟨rfl, rfl⟩ := he
    rw [(check_eqv_iff h p q K hpq.1 hpq.2).2]
    constructor
    · intro hc k hk
      by_cases hkK : k ∈ K
      · exact hkK
      · exact absurd (hc k hkK) ((hks rfl k).1 hk)
    · intro hsub k hkK
      by_cases hc : Conn k (edges h) p q
      · exact hc
      · exact absurd (hsub k ((hks rfl k).2 hc)) hkK
  · obtain ⟨s', he, _⟩ := getStrictest_err (run_inv h) hpq
    simp [strictestAfter, step, he] at hs

example : strictestAfter h0 1 6 = .strictest true [4] := by decide
example : strictestAfter h0 1 2 = .strictest true [4, 5] := by decide
example : ∀ k, k ∈ [4, 5] ↔ ¬ Conn k (edges h0) 1 2 := by
  obtain ⟨b, ks, he, _, hks, _⟩ := get_strictest_exact h0 1 2 (by decide) (by decide)
  have h2 : strictestAfter h0 1 2 = .strictest true [4, 5] := by decide
  rw [h2] at he
  simp only [Out.strictest.injEq] at he
  obtain ⟨rfl, rfl⟩ := he
  exact hks rfl
example : checkAfter h0 1 2 [5, 4, 1000] = .bool true ∧ checkAfter h0 1 2 [5] = .bool false :=
  ⟨(get_strictest_least h0 1 2 [4, 5] (by decide) [5, 4, 1000]).2 (by decide), by decide⟩

/-! ## (3) semantic soundness -/

/-- **C11 (3).**  If every recorded step is semantically what it claims to be, then an equivalence
    reported modulo `K` is semantically true on every field outside `K`. -/
theorem soundness_check {Val : Type} (I : Proc → Field → Val) (h : List Op)
    (hI : Respects I (edges h)) (p q : Proc) (K : List Field)
    (hr : checkAfter h p q K = .bool true) : ∀ k, k ∉ K → I p k = I q k := by
  by_cases hpq : declared h p ∧ declared h q
  · intro k hk
    exact Conn.sound hI ((check_eqv_iff h p q K hpq.1 hpq.2).2.1 hr k hk)
  · rw [(check_keyError_iff h p q K).2 hpq] at hr
    simp at hr

/-- **C11 (3').**  The same for the key set computed by `get_strictest_eqv_proc` (what `call_eqv`
    uses as the set of possibly disturbed fields). -/
theorem soundness_strictest {Val : Type} (I : Proc → Field → Val) (h : List Op)
    (hI : Respects I (edges h)) (p q : Proc) (ks : List Field)
    (hr : strictestAfter h p q = .strictest true ks) : ∀ k, k ∉ ks → I p k = I q k := by
  by_cases hpq : declared h p ∧ declared h q
  · obtain ⟨b, ks', he, _, hks, _⟩ := get_strictest_exact h p q hpq.1 hpq.2
    rw [hr] at he
    simp only [Out.strictest.injEq] at he
    obtain ⟨rfl, rfl⟩ := he
    intro k hk
    by_cases hc : Conn k (edges h) p q
    · exact Conn.sound hI hc
    · exact absurd ((hks rfl k).2 hc) hk
  · obtain ⟨s', he, _⟩ := getStrictest_err (run_inv h) hpq
    simp [strictestAfter, step, he] at hr

/-- an interpretation for `h0`: field 4 tells proc 1 from the others, field 5 tells proc 2 from the
    others, every other field is the same for all procs -/
def I0 (p : Proc) (k : Field) : Nat :=
  if k = 4 then (if p = 1 then 1 else 0)
  else if k = 5 then (if p = 2 then 1 else 0)
  else 0

example : edges h0 = [⟨7, 1, [4]⟩, ⟨6, 7, [8]⟩, ⟨2, 6, [5]⟩, ⟨3, 6, []⟩, ⟨1, 3, [4, 5]⟩] := by decide

example : Respects I0 (edges h0) ∧ I0 1 4 ≠ I0 6 4 ∧ I0 1 5 ≠ I0 2 5 := by
  refine ⟨?_, by decide, by decide⟩
  have he : edges h0 = [⟨7, 1, [4]⟩, ⟨6, 7, [8]⟩, ⟨2, 6, [5]⟩, ⟨3, 6, []⟩, ⟨1, 3, [4, 5]⟩] := by decide
  rw [he]
  intro e hmem k hk
  simp only [List.mem_cons, List.not_mem_nil, or_false] at hmem
  rcases hmem with rfl | rfl | rfl | rfl | rfl <;> simp [I0] at hk ⊢ <;> simp_all

-- the hypotheses of (3) are satisfiable on `h0`, with an interpretation that does distinguish procs
example (hI : Respects I0 (edges h0)) : ∀ k, k ∉ [4] → I0 1 k = I0 6 k :=
  soundness_check I0 h0 hI 1 6 [4] (by decide)
example (hI : Respects I0 (edges h0)) : ∀ k, k ∉ [4, 5] → I0 1 k = I0 2 k :=
  soundness_strictest I0 h0 hI 1 2 [4, 5] (by decide)

/-! ## (4) no connecting recorded step ⇒ never reported equivalent -/

/-- **C11 (4).**  Two procs that are not connected by recorded steps (different roots of the
    derivation forest and no `unsafe_assert_eq` joining them) are never reported equivalent, whatever
    modulo-set is offered, and `get_strictest_eqv_proc` says `False`. -/
theorem unconnected_never_equivalent (h : List Op) (p q : Proc) (hn : ¬ ConnAll (edges h) p q) :
    (∀ K, checkAfter h p q K ≠ .bool true) ∧ (∀ ks, strictestAfter h p q ≠ .strictest true ks) := by
  constructor
  · intro K hr
    by_cases hpq : declared h p ∧ declared h q
    · obtain ⟨k, hk⟩ := exists_fresh K
      exact hn (Conn.toAll ((check_eqv_iff h p q K hpq.1 hpq.2).2.1 hr k hk))
    · rw [(check_keyError_iff h p q K).2 hpq] at hr
      simp at hr
  · intro ks hr
    by_cases hpq : declared h p ∧ declared h q
    · obtain ⟨b, ks', he, hb, _⟩ := get_strictest_exact h p q hpq.1 hpq.2
      rw [hr] at he
      simp only [Out.strictest.injEq] at he
      obtain ⟨rfl, rfl⟩ := he
      exact hn (hb.1 rfl)
    · obtain ⟨s', he, _⟩ := getStrictest_err (run_inv h) hpq
      simp [strictestAfter, step, he] at hr

/-- **C11 (4'), new origin.**  A proc entered with `decl_new_proc` (what `Procedure(...)` does for a
    fresh `@proc` and after every signature-changing operation — `partial_eval`, `transpose`,
    `add_assertion`) is, right after that call, not reported equivalent to any other proc. -/
theorem fresh_decl_not_equivalent (h : List Op) (p q : Proc) (hp : ¬ declared h p) (hq : q ≠ p)
    (K : List Field) :
    checkAfter (h ++ [.decl p]) p q K ≠ .bool true ∧
    ∀ ks, strictestAfter (h ++ [.decl p]) p q ≠ .strictest true ks := by
  have hn : ¬ ConnAll (edges (h ++ [.decl p])) p q := by
    intro hc
    have hE : edges (h ++ [.decl p]) = edges h := by simp [edges, spec_append, Spec.step]
    rw [hE] at hc
    rcases ConnP.support (D := fun x => x ∈ (spec h).decl) (run_inv h).supp hc with e | ⟨h1, _⟩
    · exact hq e.symm
    · exact hp h1
  exact ⟨(unconnected_never_equivalent _ p q hn).1 K, (unconnected_never_equivalent _ p q hn).2⟩

-- two roots never joined: 10 is declared late in `h0 ++ [decl 10]`
example : ¬ declared h0 10 := by decide
example : checkAfter (h0 ++ [.decl 10]) 10 1 [4, 5, 8] = .bool false := by decide
example : strictestAfter (h0 ++ [.decl 10]) 10 1 = .strictest false [] := by decide
-- the hypothesis of (4) holds for the two roots 1, 2 of this history
example : ¬ ConnAll (edges [.decl 1, .decl 2, .derive 1 3 [4]]) 2 3 := by
  obtain ⟨b, ks, he, hb, _⟩ :=
    get_strictest_exact [.decl 1, .decl 2, .derive 1 3 [4]] 2 3 (by decide) (by decide)
  have h2 : strictestAfter [.decl 1, .decl 2, .derive 1 3 [4]] 2 3 = .strictest false [] := by decide
  rw [h2] at he
  simp only [Out.strictest.injEq] at he
  obtain ⟨rfl, rfl⟩ := he
  intro hc
  exact absurd (hb.2 hc) (by simp)

/-! ## (5) `get_repr_proc` and the literal "single path" reading -/

/-- `get_repr_proc(p)` returns a declared proc strictly equivalent to `p` (connected by steps with
    empty modulo-set), and it is canonical: two procs get the same representative iff they are
    strictly equivalent. -/
theorem get_repr_canonical (h : List Op) (p q : Proc) (hp : declared h p) (hq : declared h q) :
    ∃ r1 r2, reprAfter h p = .proc r1 ∧ reprAfter h q = .proc r2 ∧
      ConnStrict (edges h) p r1 ∧ declared h r1 ∧ (r1 = r2 ↔ ConnStrict (edges h) p q) := by
  have hs := run_inv h
  obtain ⟨r1, s1, he1, _, hc1, hd1, hroot1⟩ := getRepr_ok hs hp
  obtain ⟨r2, s2, he2, _, hc2, _, hroot2⟩ := getRepr_ok hs hq
  refine ⟨r1, r2, by simp [reprAfter, step, he1], by simp [reprAfter, step, he2], hc1, hd1, ?_⟩
  constructor
  · rintro rfl; exact .trans hc1 (.symm hc2)
  · intro hpq
    obtain ⟨rk, hi⟩ := hs.strict
    exact hi.uniq r1 r2 hroot1 hroot2 (.trans (.symm hc1) (.trans hpq hc2))

example : reprAfter h0 6 = .proc 3 ∧ reprAfter h0 3 = .proc 3 ∧ reprAfter h0 1 = .proc 1 := by decide

/-- one direction of the literal reading holds for every history: a single walk whose steps disturb
    only `K` is always reported. -/
theorem single_path_reported (h : List Op) (p q : Proc) (K : List Field)
    (hp : declared h p) (hq : declared h q) (hpath : PathWithin K (edges h) p q) :
    checkAfter h p q K = .bool true :=
  (check_eqv_iff h p q K hp hq).2.2 (fun k hk => hpath.conn k hk)

/-- **C11 (5), the literal reading in a forest.**  When the only recording steps are `derive_proc`s
    of fresh procs (no `unsafe_assert_eq`; the recorded steps form a forest), an equivalence reported
    modulo `K` is witnessed by a SINGLE walk of recorded steps each of which disturbed only fields of
    `K` — "connected by steps each of which disturbed only fields in K", literally. -/
theorem forest_single_path (h : List Op) (hF : Forest h) (p q : Proc) (K : List Field)
    (hr : checkAfter h p q K = .bool true) : PathWithin K (edges h) p q := by
  by_cases hpq : declared h p ∧ declared h q
  · exact (forest_inv h hF).path p q K ((check_eqv_iff h p q K hpq.1 hpq.2).2.1 hr)
  · rw [(check_keyError_iff h p q K).2 hpq] at hr
    simp at hr

def hForest : List Op :=
  [.decl 1, .derive 1 2 [4], .check 1 2 [], .derive 1 3 [5], .decl 7, .derive 2 4 [], .strictest 3 4]

example : Forest hForest := by simp [hForest, Forest, ForestFrom, Spec.step]
example : checkAfter hForest 3 4 [5, 4] = .bool true ∧ checkAfter hForest 3 4 [5] = .bool false := by decide
example : PathWithin [5, 4] (edges hForest) 3 4 :=
  forest_single_path hForest (by simp [hForest, Forest, ForestFrom, Spec.step]) 3 4 [5, 4] (by decide)

/-
  Without the forest hypothesis the converse of `single_path_reported` is FALSE: as soon as
  `assert_eqv_proc` (`unsafe_assert_eq`) closes a cycle, two routes may each preserve what the other
  disturbs.  In `hDiamond` the two routes from 1 to 2 disturb {4} and {5} respectively; the module
  reports 1 ≡ 2 modulo {} — which is semantically right (field 4 is preserved along one route, field
  5 along the other: theorem `soundness_check`) although no single route disturbs nothing.  The
  per-field statement (1) is the sound and complete one.
-/
def hDiamond : List Op := [.decl 1, .derive 1 2 [4], .derive 1 3 [5], .assertEqv 3 2 []]

/-- counter-witness to the converse of `single_path_reported` once an assert closes a cycle -/
theorem single_path_converse_fails_on_cycle :
    checkAfter hDiamond 1 2 [] = .bool true ∧ ¬ PathWithin [] (edges hDiamond) 1 2 := by
  refine ⟨by decide, ?_⟩
  have he : edges hDiamond = [⟨3, 2, []⟩, ⟨1, 3, [5]⟩, ⟨1, 2, [4]⟩] := by decide
  rw [he]
  -- with K = {} only the assert step may be used, and it does not touch proc 1
  have key : ∀ a b, PathWithin [] [⟨3, 2, []⟩, ⟨1, 3, [5]⟩, ⟨1, 2, [4]⟩] a b → a = 1 → b = 1 := by
    intro a b hp
    induction hp with
    | nil a => exact id
    | fwd e he hK _ ih =>
      simp only [List.mem_cons, List.not_mem_nil, or_false] at he
      rcases he with rfl | rfl | rfl <;> simp at hK ⊢
    | bwd e he hK _ ih =>
      simp only [List.mem_cons, List.not_mem_nil, or_false] at he
      rcases he with rfl | rfl | rfl <;> simp at hK ⊢
  intro hp
  exact absurd (key 1 2 hp rfl) (by decide)

end Exo.ProcEqv
