/-
  ExoModel.CTyping — a typing judgement for the mini-C of `ExoModel.CSem`, as a decidable checker
  (`wtS / wtL / wtBlock / wtC`).  It is the static part of "the emitted text is valid C" that is
  visible at the level of the tree (property C15(a)).

  Types of identifiers: `int` (`int_fast32_t`, `bool`), `ptr` (`T*`: dense tensor, scalar by
  reference, `malloc`ed buffer), `win k` (`struct exo_win_kT`), `data` (`T x;`, a scalar by value).
  Scopes mirror C: a list of scopes, innermost first; a declaration goes into the innermost scope and
  must not be there already; a nested block may shadow.  The iterator of a `for` lives in a scope of
  its own around the body block (`for (int_fast32_t i = …) { … }`).  The parameters of a function
  are in the same scope as the top-level declarations of its body.

  Checked:
    * every identifier is declared before use, with the kind the use needs: integer variables in
      index / bound / condition expressions, `x[…]` only on `ptr`, `w.data[…]` and `w.strides[k]`
      only on `win r` with `k < r`, `*x` only on `ptr`, `x` as a value and `&x` only on `data`,
      `free(x)` only on `ptr`
    * subscripts, `malloc` sizes, loop bounds and conditions are integer expressions: in this tree
      they are `CExpr` / `CI`, whose leaves are integer literals, identifiers (must be `int`) and
      strides.  A FLOAT LITERAL CANNOT OCCUR in a subscript of the tree: finding F10
      (`simplify_cir` folds `4 / 2` to the Python float `2.0`, the text is `x[2.0]`) is exactly the
      case in which the model's `simplify` answers `.error .floatDiv` and `compL` does not
      produce a tree (`raise:simplify_cir:float`); the nearest representable shape, a data-typed
      identifier in a subscript (`x[s]`, `float s;`), is rejected
    * data expressions: `+ - * /` and unary minus over reads and literals (one element type)
    * window initialisers: as many `lo`s as strides as interval flags; a window source of rank `r`
      has `r` strides; the declared struct has rank = number of interval dimensions ≥ 1
    * calls: as many actuals as parameters; `int` ↔ integer expression, `T*` ↔ a `ptr` variable or
      `&x` of a `data` variable, `struct exo_win_k` ↔ a `win k` variable or a window initialiser of
      rank `k`; the callee body is well-typed in the scope of its parameters
    * config fields are used consistently as control or as data (`cfgT`)
  Ignored (say so in every report): `const` qualifiers (finding F9 lives there: a `const` pointer
  passed to a non-`const` parameter), precision casts (one element type only), `#pragma omp`,
  `EXO_ASSUME` lines, integer widths, and the C identifiers themselves (the tree binds `Sym`s; the
  printer's `new_varname` layer is C02's name theorems).
  No Mathlib.
-/
import ExoModel.CSem

namespace Exo.CTyping
open Exo Exo.CIndex Exo.CSem
open Exo.Range (Op)

inductive CTy
  | int
  | ptr
  | win (rank : Nat)
  | data
deriving DecidableEq, Repr, Inhabited

abbrev Scope := List (Sym × CTy)

structure CTyEnv where
  scopes : List Scope                       -- innermost first
  cfgT : List ((String × String) × Bool)    -- config field ↦ is it a data field?
deriving Repr, Inhabited

def lookupSc (x : Sym) : List Scope → Option CTy
  | [] => none
  | s :: r => match lookupSym x s with
      | some t => some t
      | none => lookupSc x r

def CTyEnv.get (E : CTyEnv) (x : Sym) : Option CTy := lookupSc x E.scopes

/-- declare `x` in the innermost scope; `none` = redeclaration in the same scope -/
def CTyEnv.declare (E : CTyEnv) (x : Sym) (t : CTy) : Option CTyEnv :=
  match E.scopes with
  | [] => some { E with scopes := [[(x, t)]] }
  | s :: r => match lookupSym x s with
      | some _ => none
      | none => some { E with scopes := ((x, t) :: s) :: r }

def CTyEnv.push (E : CTyEnv) (s : Scope := []) : CTyEnv := { E with scopes := s :: E.scopes }

/-! ## expressions -/

def wtCE (E : CTyEnv) : CExpr → Bool
  | .var x => E.get x == some .int
  | .lit _ => true
  | .bin _ a b => wtCE E a && wtCE E b
  | .floorDiv a b => wtCE E a && wtCE E b
  | .neg a => wtCE E a
  | .strideOf x d => match E.get x with
      | some (.win r) => decide (d < r)
      | _ => false

def wtCI (E : CTyEnv) : CI → Bool
  | .ix e => wtCE E e
  | .var x => E.get x == some .int
  | .lit _ => true
  | .blit _ => true
  | .bin _ a b => wtCI E a && wtCI E b
  | .floorDiv a b => wtCI E a && wtCI E b
  | .neg a => wtCI E a
  | .cfg c f => lookupCfg (c, f) E.cfgT == some false

def wtLV (E : CTyEnv) : LVal → Bool
  | .idx x isWin off =>
      wtCE E off &&
        (match E.get x, isWin with
         | some .ptr, false => true
         | some (.win _), true => true
         | _, _ => false)
  | .scalar x byRef =>
      match E.get x, byRef with
      | some .ptr, true => true
      | some .data, false => true
      | _, _ => false

def isArith : BinOp → Bool
  | .add | .sub | .mul | .div => true
  | _ => false

def wtCD (E : CTyEnv) : CD → Bool
  | .rd lv => wtLV E lv
  | .lit _ _ => true
  | .bin op a b => isArith op && wtCD E a && wtCD E b
  | .neg a => wtCD E a
  | .cfg c f => lookupCfg (c, f) E.cfgT == some true

def wtWinOK (E : CTyEnv) (src : Sym) (isW : Bool) (los strs : List CExpr) (ivs : List Bool) : Bool :=
  los.all (wtCE E) && strs.all (wtCE E) && los.length == strs.length &&
    ivs.length == strs.length && decide (0 < (ivs.filter id).length) &&
    (match E.get src, isW with
     | some .ptr, false => true
     | some (.win r), true => strs.length == r
     | _, _ => false)

/-- a window initialiser `{ &src[Σ lo·stride], { kept strides } }`: its rank, if well-typed -/
def wtWin (E : CTyEnv) (src : Sym) (isW : Bool) (los strs : List CExpr) (ivs : List Bool) :
    Option Nat :=
  if wtWinOK E src isW los strs ivs then some (ivs.filter id).length else none

def wtArg (E : CTyEnv) : PKind → CArg → Bool
  | .int, .int e => wtCI E e
  | .ptr, .ptr x addr => E.get x == some (if addr then .data else .ptr)
  | .win r, .winVar x => E.get x == some (.win r)
  | .win r, .win src isW los strs ivs => wtWin E src isW los strs ivs == some r
  | _, _ => false

def wtArgs (E : CTyEnv) : List (Sym × PKind) → List CArg → Bool
  | [], [] => true
  | (_, k) :: ps, a :: as => wtArg E k a && wtArgs E ps as
  | _, _ => false

def kindTy : PKind → CTy
  | .int => .int
  | .ptr => .ptr
  | .win r => .win r

/-- distinct parameter names -/
def distinctParams : List (Sym × PKind) → Bool
  | [] => true
  | (x, _) :: r => !(r.map (·.1)).contains x && distinctParams r

def isSomeB {α : Type} : Option α → Bool
  | some _ => true
  | none => false

/-! ## statements -/

mutual
def wtS (E : CTyEnv) : CStmt → Option CTyEnv
  | .nop => some E
  | .store lv e => if wtLV E lv && wtCD E e then some E else none
  | .accum lv e => if wtLV E lv && wtCD E e then some E else none
  | .cfgWriteI c f e =>
      if wtCI E e && (lookupCfg (c, f) E.cfgT == some false) then some E else none
  | .cfgWriteD c f e =>
      if wtCD E e && (lookupCfg (c, f) E.cfgT == some true) then some E else none
  | .ite c t e =>
      if wtCI E c && isSomeB (wtL (E.push) t) && isSomeB (wtL (E.push) e) then some E else none
  | .for_ i lo hi body _ =>
      if wtCI E lo && wtCI E hi && isSomeB (wtL ((E.push [(i, .int)]).push) body) then some E
      else none
  | .malloc x dims => if dims.all (wtCE E) then E.declare x .ptr else none
  | .declScalar x => E.declare x .data
  | .free x => if E.get x == some .ptr then some E else none
  | .winInit w src isW los strs ivs =>
      match wtWin E src isW los strs ivs with
      | some r => E.declare w (.win r)
      | none => none
  | .call (.mk _ ps body) args =>
      if wtArgs E ps args && distinctParams ps &&
         isSomeB (wtL { scopes := [ps.map (fun p => (p.1, kindTy p.2))], cfgT := E.cfgT } body)
      then some E else none
def wtL (E : CTyEnv) : List CStmt → Option CTyEnv
  | [] => some E
  | s :: r => match wtS E s with
      | some E1 => wtL E1 r
      | none => none
end

/-- a function body in the scope of its parameters -/
def wtC (E : CTyEnv) (cs : List CStmt) : Bool := isSomeB (wtL E cs)

/-! ## the config fields a tree uses, with the kind each use needs -/

def ciCfg : CI → List ((String × String) × Bool)
  | .cfg c f => [((c, f), false)]
  | .bin _ a b => ciCfg a ++ ciCfg b
  | .floorDiv a b => ciCfg a ++ ciCfg b
  | .neg a => ciCfg a
  | _ => []

def cdCfg : CD → List ((String × String) × Bool)
  | .cfg c f => [((c, f), true)]
  | .bin _ a b => cdCfg a ++ cdCfg b
  | .neg a => cdCfg a
  | _ => []

def argCfg : List CArg → List ((String × String) × Bool)
  | [] => []
  | .int e :: r => ciCfg e ++ argCfg r
  | _ :: r => argCfg r

mutual
def cfgS : CStmt → List ((String × String) × Bool)
  | .store _ e => cdCfg e
  | .accum _ e => cdCfg e
  | .cfgWriteI c f e => ((c, f), false) :: ciCfg e
  | .cfgWriteD c f e => ((c, f), true) :: cdCfg e
  | .ite c t e => ciCfg c ++ cfgL t ++ cfgL e
  | .for_ _ lo hi b _ => ciCfg lo ++ ciCfg hi ++ cfgL b
  | .call (.mk _ _ body) args => argCfg args ++ cfgL body
  | _ => []
def cfgL : List CStmt → List ((String × String) × Bool)
  | [] => []
  | s :: r => cfgS s ++ cfgL r
end

/-- the typing environment of a function body: its parameters, and the config fields with the
    kind of their FIRST use (a later use of the other kind is then ill-typed) -/
def tyEnvOfParams (ps : List (Sym × PKind)) (cs : List CStmt) : CTyEnv :=
  { scopes := [ps.map (fun p => (p.1, kindTy p.2))], cfgT := cfgL cs }

/-- `wtC` of a whole function -/
def wtFun (ps : List (Sym × PKind)) (cs : List CStmt) : Bool :=
  distinctParams ps && wtC (tyEnvOfParams ps cs) cs

end Exo.CTyping
