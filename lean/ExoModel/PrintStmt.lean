/-
  ExoModel.PrintStmt — literal executable model of the STATEMENT level of the LoopIR pretty
  printer (src/exo/core/LoopIR_pprint.py: `_print_proc` :379, `_print_block` :401, `_print_stmt`
  :408, `_print_fnarg` :469, `_print_type` :522, `_print_w_access` :571) and of the front end that
  reads such text back (CPython's tokenizer/grammar followed by
  src/exo/frontend/pyparser.py: `parse_fdef` :743, `parse_arg_type` :870, `parse_alloc_typmem` :923,
  `parse_num_type` :935, `parse_stmt_block` :1010, `parse_loop_cond` :1336, `parse_array_indexing`
  :1374, `parse_slice` :1474) on the sub-language the printer emits.

  Names are already resolved to strings (what `PrintEnv.get_name` returns: `ExoModel.Print` (a)).
  Expressions are the `XExpr` of `ExoModel.PrintExprX`: those of `ExoModel.Print` (b) plus
  configuration reads `Cfg.f` and calls `f(a, …)` (extern calls, `stride(x, d)`).

  * `PStmt`/`PProc`        what the surface syntax has
  * `ppStmt`/`ppBlock`     `_print_stmt`/`_print_block` as TOKEN lines (`Line` = column + tokens);
                           `w` is the indentation step (`_print_*` use 2 blanks, `str(p)` — after
                           yapf's `FormatCode` — shows 4)
  * `ppStmtS`/`ppBlockS`   the same as text, in the two styles `raw` (the characters `_print_proc`
                           returns: `x : f32[n] @DRAM`, step 2) and `fmt` (the characters `str(p)`
                           shows when yapf does not have to wrap a line: `x: f32[n] @ DRAM`, step 4)
  * `lexLine`              lexer of one such text line (column = number of leading blanks)
  * `parseBlock`           indentation-driven statement parser on token lines (fuel-indexed):
                           a compound statement's body is the run of following lines that are
                           deeper than its header, all at the column of the first of them;
                           a line shallower than the block ends it (DEDENT); a line deeper than
                           the block where no block is opened is an error ("unexpected indent")
  * `parseProc`            `def name(args):` + body

  Quirks mirrored: an `If` with an empty `orelse` prints no `else:`; a nested `if` in an `else`
  is printed as `else:` + indented `if` (never `elif`); an EMPTY body prints the header alone
  (which is not Python: yapf raises on it, so `str(p)` raises); `_print_fnarg` appends the memory
  annotation to every argument that is not `size`/`index` — also to `bool` and `stride`, which
  `parse_arg_type` rejects (recorded finding).

  Everything is a total function over lists; no Mathlib.
-/
import ExoModel.PrintExprX

namespace Exo.PrintStmt
open Exo Exo.Print

/-! ## syntax -/

/-- `_print_type` for the numeric base types (`T.Num` … `T.INT32`) -/
inductive Ty
  | R | f16 | f32 | f64 | i8 | i32 | ui8 | ui16
deriving DecidableEq, Repr, Inhabited

def Ty.name : Ty → String
  | .R => "R" | .f16 => "f16" | .f32 => "f32" | .f64 => "f64"
  | .i8 => "i8" | .i32 => "i32" | .ui8 => "ui8" | .ui16 => "ui16"

def Ty.all : List Ty := [.R, .f16, .f32, .f64, .i8, .i32, .ui8, .ui16]

/-- `_prim_types` lookup of pyparser -/
def Ty.ofName (s : String) : Option Ty := Ty.all.find? (fun t => t.name == s)

/-- `LoopIR.w_access` -/
inductive WAcc
  | pt (e : XExpr)
  | iv (lo hi : XExpr)
deriving Repr, Inhabited

/-- an argument of a call: an expression or a window expression `x[lo:hi, pt, …]` -/
inductive PArg
  | e (e : XExpr)
  | win (x : String) (accs : List WAcc)
deriving Repr, Inhabited

/-- statements of the surface syntax, names resolved.  (`Free`, instruction bodies, `stride(…)`,
    extern calls and config reads inside expressions are not covered.) -/
inductive PStmt where
  | pass
  | assign (x : String) (idx : List XExpr) (rhs : XExpr)
  | reduce (x : String) (idx : List XExpr) (rhs : XExpr)
  | writeCfg (cfg fld : String) (rhs : XExpr)
  /-- `x : T[shape] @MEM`; `shape = []` is a scalar; `mem = none` prints no annotation -/
  | alloc (x : String) (ty : Ty) (shape : List XExpr) (mem : Option String)
  /-- `WindowStmt`: `w = x[accs]` -/
  | window (w x : String) (accs : List WAcc)
  | loop (par : Bool) (i : String) (lo hi : XExpr) (body : List PStmt)
  | ite (c : XExpr) (body orelse : List PStmt)
  | call (f : String) (args : List PArg)
deriving Repr, Inhabited

/-- control argument kinds to which `_print_fnarg` appends the memory annotation -/
inductive CtrlK
  | bool | stride
deriving DecidableEq, Repr, Inhabited

def CtrlK.name : CtrlK → String
  | .bool => "bool" | .stride => "stride"

/-- type of a procedure argument as `_print_fnarg` sees it -/
inductive FnTy
  | size
  | index
  | ctrl (k : CtrlK) (mem : Option String)
  /-- scalar (`shape = []`), tensor, or window (`isWin`, printed `[T][shape]`) -/
  | num (ty : Ty) (shape : List XExpr) (isWin : Bool) (mem : Option String)
deriving Repr, Inhabited

structure PFnArg where
  name : String
  ty : FnTy
deriving Repr, Inhabited

/-- a procedure (the `# @instr` comment is not syntax and is not represented) -/
structure PProc where
  name : String
  args : List PFnArg
  /-- `p.preds`: printed as `assert e` lines directly after the header -/
  preds : List XExpr
  body : List PStmt
deriving Repr, Inhabited

/-! ## tokens and lines -/

/-- a logical line: column of its first token and its tokens -/
structure Line where
  ind : Nat
  toks : List STok
deriving Repr, DecidableEq, Inhabited

/-! ## printer, as token lines -/

def ppAccT : WAcc → List STok
  | .pt e => (ppX 0 e)
  | .iv lo hi => (ppX 0 lo) ++ .colon :: (ppX 0 hi)

/-- `", ".join(...)` after the first access -/
def ppAccsTailT : List WAcc → List STok
  | [] => []
  | a :: as => .t .comma :: (ppAccT a ++ ppAccsTailT as)

def ppAccsT : List WAcc → List STok
  | [] => []
  | a :: as => ppAccT a ++ ppAccsTailT as

/-- `_print_expr` of a `WindowExpr`: `name[acc, …]` -/
def ppWinT (x : String) (accs : List WAcc) : List STok :=
  .t (.id x) :: .t .lb :: (ppAccsT accs ++ [.t .rb])

def ppArgT : PArg → List STok
  | .e e => (ppX 0 e)
  | .win x accs => ppWinT x accs

def ppArgsTailT : List PArg → List STok
  | [] => []
  | a :: as => .t .comma :: (ppArgT a ++ ppArgsTailT as)

def ppArgsT : List PArg → List STok
  | [] => []
  | a :: as => ppArgT a ++ ppArgsTailT as

/-- ` @MEM` -/
def ppMemT : Option String → List STok
  | none => []
  | some m => [.at, .t (.id m)]

def loopKw (par : Bool) : String := if par then "par" else "seq"

def forHeadT (par : Bool) (i : String) (lo hi : XExpr) : List STok :=
  .kwFor :: .t (.id i) :: .kwIn :: .t (.id (loopKw par)) :: .t .lp ::
    ((ppX 0 lo) ++ .t .comma :: ((ppX 0 hi) ++ [.t .rp, .colon]))

def ifHeadT (c : XExpr) : List STok := .kwIf :: ((ppX 0 c) ++ [.colon])

def elseT : List STok := [.kwElse, .colon]

/-- the tokens of the one-line statements -/
def simpleT : PStmt → List STok
  | .pass => [.kwPass]
  | .assign x idx rhs => (ppX 0 (.var x idx)) ++ .assign :: (ppX 0 rhs)
  | .reduce x idx rhs => (ppX 0 (.var x idx)) ++ .pluseq :: (ppX 0 rhs)
  | .writeCfg c f rhs => .t (.id c) :: .dot :: .t (.id f) :: .assign :: (ppX 0 rhs)
  | .alloc x ty shape mem =>
    .t (.id x) :: .colon :: ((ppX 0 (.var ty.name shape)) ++ ppMemT mem)
  | .window w x accs => .t (.id w) :: .assign :: ppWinT x accs
  | .call f args => .t (.id f) :: .t .lp :: (ppArgsT args ++ [.t .rp])
  | .loop par i lo hi _ => forHeadT par i lo hi
  | .ite c _ _ => ifHeadT c

mutual
/-- `_print_stmt(stmt, env, indent)` with `indent` = `ind` blanks and step `w` -/
def ppStmt (w : Nat) : Nat → PStmt → List Line
  | ind, .loop par i lo hi body =>
    ⟨ind, forHeadT par i lo hi⟩ :: ppBlock w (ind + w) body
  | ind, .ite c body orelse =>
    ⟨ind, ifHeadT c⟩ ::
      (ppBlock w (ind + w) body ++
        (if orelse.isEmpty then [] else ⟨ind, elseT⟩ :: ppBlock w (ind + w) orelse))
  | ind, .pass => [⟨ind, simpleT .pass⟩]
  | ind, .assign x idx rhs => [⟨ind, simpleT (.assign x idx rhs)⟩]
  | ind, .reduce x idx rhs => [⟨ind, simpleT (.reduce x idx rhs)⟩]
  | ind, .writeCfg c f rhs => [⟨ind, simpleT (.writeCfg c f rhs)⟩]
  | ind, .alloc x ty shape mem => [⟨ind, simpleT (.alloc x ty shape mem)⟩]
  | ind, .window v x accs => [⟨ind, simpleT (.window v x accs)⟩]
  | ind, .call f args => [⟨ind, simpleT (.call f args)⟩]
/-- `_print_block` -/
def ppBlock (w : Nat) : Nat → List PStmt → List Line
  | _, [] => []
  | ind, s :: ss => ppStmt w ind s ++ ppBlock w ind ss
end

/-- `_print_type` of an argument type -/
def fnTyT : FnTy → List STok
  | .size => [.t (.id "size")]
  | .index => [.t (.id "index")]
  | .ctrl k mem => .t (.id k.name) :: ppMemT mem
  | .num ty shape false mem => (ppX 0 (.var ty.name shape)) ++ ppMemT mem
  | .num ty [] true mem => .t .lb :: .t (.id ty.name) :: .t .rb :: .t .lb :: .t .rb :: ppMemT mem
  | .num ty (i :: is) true mem =>
    .t .lb :: .t (.id ty.name) :: .t .rb :: .t .lb ::
      ((ppX 0 i ++ (ppTailX is ++ [.t .rb])) ++ ppMemT mem)

/-- `_print_fnarg` -/
def fnArgT (a : PFnArg) : List STok := .t (.id a.name) :: .colon :: fnTyT a.ty

def fnArgsTailT : List PFnArg → List STok
  | [] => []
  | a :: as => .t .comma :: (fnArgT a ++ fnArgsTailT as)

def fnArgsT : List PFnArg → List STok
  | [] => []
  | a :: as => fnArgT a ++ fnArgsTailT as

def defHeadT (name : String) (args : List PFnArg) : List STok :=
  .kwDef :: .t (.id name) :: .t .lp :: (fnArgsT args ++ [.t .rp, .colon])

/-- `lines.append(f"{indent}assert {_print_expr(pred, env)}")` -/
def ppAsserts (ind : Nat) : List XExpr → List Line
  | [] => []
  | e :: es => ⟨ind, .kwAssert :: ppX 0 e⟩ :: ppAsserts ind es

/-- `_print_proc` (without the `# @instr` comment lines) -/
def ppProc (w ind : Nat) (p : PProc) : List Line :=
  ⟨ind, defHeadT p.name p.args⟩ :: (ppAsserts (ind + w) p.preds ++ ppBlock w (ind + w) p.body)

/-! ## printer, as text -/

/-- `raw`: the strings `_print_proc` returns.  `fmt`: what `str(p)` shows, i.e. the same after
    yapf's `FormatCode` when no line has to be wrapped. -/
inductive Style
  | raw | fmt
deriving DecidableEq, Repr, Inhabited

/-- indentation step of the style -/
def Style.step : Style → Nat
  | .raw => 2
  | .fmt => 4

/-- `name : type` (yapf: `name: type`) -/
def Style.colon : Style → String
  | .raw => " : "
  | .fmt => ": "

/-- ` @MEM` (yapf: ` @ MEM`) -/
def ppMemS (sty : Style) : Option String → String
  | none => ""
  | some m => match sty with
    | .raw => " @" ++ m
    | .fmt => " @ " ++ m

def ppAccS : WAcc → String
  | .pt e => ppXS 0 e
  | .iv lo hi => ppXS 0 lo ++ ":" ++ ppXS 0 hi

def ppAccsTailS : List WAcc → String
  | [] => ""
  | a :: as => ", " ++ ppAccS a ++ ppAccsTailS as

def ppAccsS : List WAcc → String
  | [] => ""
  | a :: as => ppAccS a ++ ppAccsTailS as

def ppWinS (x : String) (accs : List WAcc) : String := x ++ "[" ++ ppAccsS accs ++ "]"

def ppArgS : PArg → String
  | .e e => ppXS 0 e
  | .win x accs => ppWinS x accs

def ppArgsTailS : List PArg → String
  | [] => ""
  | a :: as => ", " ++ ppArgS a ++ ppArgsTailS as

def ppArgsS : List PArg → String
  | [] => ""
  | a :: as => ppArgS a ++ ppArgsTailS as

def blanks (n : Nat) : String := String.ofList (List.replicate n ' ')

/-- the text of the first line of a statement, without indentation -/
def simpleS (sty : Style) : PStmt → String
  | .pass => "pass"
  | .assign x idx rhs => ppXS 0 (.var x idx) ++ " = " ++ ppXS 0 rhs
  | .reduce x idx rhs => ppXS 0 (.var x idx) ++ " += " ++ ppXS 0 rhs
  | .writeCfg c f rhs => c ++ "." ++ f ++ " = " ++ ppXS 0 rhs
  | .alloc x ty shape mem => x ++ sty.colon ++ ppXS 0 (.var ty.name shape) ++ ppMemS sty mem
  | .window w x accs => w ++ " = " ++ ppWinS x accs
  | .call f args => f ++ "(" ++ ppArgsS args ++ ")"
  | .loop par i lo hi _ =>
    "for " ++ i ++ " in " ++ loopKw par ++ "(" ++ ppXS 0 lo ++ ", " ++ ppXS 0 hi ++ "):"
  | .ite c _ _ => "if " ++ ppXS 0 c ++ ":"

mutual
def ppStmtS (sty : Style) : Nat → PStmt → List String
  | ind, .loop par i lo hi body =>
    (blanks ind ++ simpleS sty (.loop par i lo hi [])) :: ppBlockS sty (ind + sty.step) body
  | ind, .ite c body orelse =>
    (blanks ind ++ simpleS sty (.ite c [] [])) ::
      (ppBlockS sty (ind + sty.step) body ++
        (if orelse.isEmpty then [] else (blanks ind ++ "else:") :: ppBlockS sty (ind + sty.step) orelse))
  | ind, .pass => [blanks ind ++ simpleS sty .pass]
  | ind, .assign x idx rhs => [blanks ind ++ simpleS sty (.assign x idx rhs)]
  | ind, .reduce x idx rhs => [blanks ind ++ simpleS sty (.reduce x idx rhs)]
  | ind, .writeCfg c f rhs => [blanks ind ++ simpleS sty (.writeCfg c f rhs)]
  | ind, .alloc x ty shape mem => [blanks ind ++ simpleS sty (.alloc x ty shape mem)]
  | ind, .window v x accs => [blanks ind ++ simpleS sty (.window v x accs)]
  | ind, .call f args => [blanks ind ++ simpleS sty (.call f args)]
def ppBlockS (sty : Style) : Nat → List PStmt → List String
  | _, [] => []
  | ind, s :: ss => ppStmtS sty ind s ++ ppBlockS sty ind ss
end

def fnTyS (sty : Style) : FnTy → String
  | .size => "size"
  | .index => "index"
  | .ctrl k mem => k.name ++ ppMemS sty mem
  | .num ty shape false mem => ppXS 0 (.var ty.name shape) ++ ppMemS sty mem
  | .num ty [] true mem => "[" ++ ty.name ++ "][]" ++ ppMemS sty mem
  | .num ty (i :: is) true mem =>
    "[" ++ ty.name ++ "][" ++ ppXS 0 i ++ ppTailXS is ++ "]" ++ ppMemS sty mem

def fnArgS (sty : Style) (a : PFnArg) : String := a.name ++ sty.colon ++ fnTyS sty a.ty

def fnArgsTailS (sty : Style) : List PFnArg → String
  | [] => ""
  | a :: as => ", " ++ fnArgS sty a ++ fnArgsTailS sty as

def fnArgsS (sty : Style) : List PFnArg → String
  | [] => ""
  | a :: as => fnArgS sty a ++ fnArgsTailS sty as

def defHeadS (sty : Style) (name : String) (args : List PFnArg) : String :=
  "def " ++ name ++ "(" ++ fnArgsS sty args ++ "):"

def ppAssertsS (ind : Nat) : List XExpr → List String
  | [] => []
  | e :: es => (blanks ind ++ "assert " ++ ppXS 0 e) :: ppAssertsS ind es

def ppProcS (sty : Style) (ind : Nat) (p : PProc) : List String :=
  (blanks ind ++ defHeadS sty p.name p.args) ::
    (ppAssertsS (ind + sty.step) p.preds ++ ppBlockS sty (ind + sty.step) p.body)

/-! ## what reading back yields: the expression normalisation inside statements -/

def normAcc : WAcc → WAcc
  | .pt e => .pt (normX e)
  | .iv lo hi => .iv (normX lo) (normX hi)

def normAccs : List WAcc → List WAcc
  | [] => []
  | a :: as => normAcc a :: normAccs as

def normArg : PArg → PArg
  | .e e => .e (normX e)
  | .win x accs => .win x (normAccs accs)

def normArgs : List PArg → List PArg
  | [] => []
  | a :: as => normArg a :: normArgs as

mutual
def normStmt : PStmt → PStmt
  | .pass => .pass
  | .assign x idx rhs => .assign x (normXL idx) (normX rhs)
  | .reduce x idx rhs => .reduce x (normXL idx) (normX rhs)
  | .writeCfg c f rhs => .writeCfg c f (normX rhs)
  | .alloc x ty shape mem => .alloc x ty (normXL shape) mem
  | .window w x accs => .window w x (normAccs accs)
  | .loop par i lo hi body => .loop par i (normX lo) (normX hi) (normS body)
  | .ite c body orelse => .ite (normX c) (normS body) (normS orelse)
  | .call f args => .call f (normArgs args)
def normS : List PStmt → List PStmt
  | [] => []
  | s :: ss => normStmt s :: normS ss
end

def normFnTy : FnTy → FnTy
  | .num ty shape isWin mem => .num ty (normXL shape) isWin mem
  | t => t

def normFnArgs : List PFnArg → List PFnArg
  | [] => []
  | a :: as => ⟨a.name, normFnTy a.ty⟩ :: normFnArgs as

def normProc (p : PProc) : PProc := ⟨p.name, normFnArgs p.args, normXL p.preds, normS p.body⟩

/-! ## parser -/

/-- one expression at the front of the tokens (CPython + `parse_expr`): the expression parser of
    `ExoModel.PrintExprX`; it stops at the first token that cannot continue the expression
    (`:`, `=`, `+=`, `@`, a keyword, an unmatched `)`/`]`, `,`) and gives the rest back -/
def parseES (ts : List STok) : Option (XExpr × List STok) := parseExprX (fuelX ts) 0 ts

/-- an expression that is the whole remainder of the line -/
def parseFull (ts : List STok) : Option XExpr :=
  match parseES ts with
  | some (e, []) => some e
  | _ => none

/-- one element of a subscript: `lo:hi` (`pyast.Slice`, `parse_slice`) or an expression -/
def parseAcc (ts : List STok) : Option (WAcc × List STok) :=
  match parseES ts with
  | some (lo, .colon :: r) =>
    match parseES r with
    | some (hi, r') => some (.iv lo hi, r')
    | none => none
  | some (e, r) => some (.pt e, r)
  | none => none

/-- `acc (, acc)* ]` -/
def parseAccs : Nat → List STok → Option (List WAcc × List STok)
  | 0, _ => none
  | f + 1, ts =>
    match parseAcc ts with
    | some (a, .t .comma :: r) =>
      match parseAccs f r with
      | some (as, r') => some (a :: as, r')
      | none => none
    | some (a, .t .rb :: r) => some ([a], r)
    | _ => none

def isIv : WAcc → Bool
  | .iv _ _ => true
  | .pt _ => false

/-- `x[acc, …]` with at least one slice (`is_window = any(Interval)` in
    `parse_array_indexing`) -/
def parseWin (ts : List STok) : Option (PArg × List STok) :=
  match ts with
  | .t (.id x) :: .t .lb :: r =>
    match parseAccs (r.length + 1) r with
    | some (accs, r') => if accs.any isIv then some (.win x accs, r') else none
    | none => none
  | _ => none

/-- an argument / right-hand side: an expression, or else a window expression -/
def parseArg (ts : List STok) : Option (PArg × List STok) :=
  match parseES ts with
  | some (e, r) => some (.e e, r)
  | none => parseWin ts

def parseArgsTail : Nat → List STok → Option (List PArg × List STok)
  | 0, _ => none
  | f + 1, .t .comma :: r =>
    match parseArg r with
    | some (a, r') =>
      match parseArgsTail f r' with
      | some (as, r'') => some (a :: as, r'')
      | none => none
    | none => none
  | _ + 1, ts => some ([], ts)

/-- what follows `f(`: the arguments and the closing parenthesis, end of line -/
def parseCallArgs (ts : List STok) : Option (List PArg) :=
  match ts with
  | [.t .rp] => some []
  | _ =>
    match parseArg ts with
    | some (a, r) =>
      match parseArgsTail (r.length + 1) r with
      | some (as, [.t .rp]) => some (a :: as)
      | _ => none
    | none => none

def parseMem (ts : List STok) : Option (Option String × List STok) :=
  match ts with
  | .at :: .t (.id m) :: r => some (some m, r)
  | .at :: _ => none
  | r => some (none, r)

/-- `x : T`, `x : T[e, …]`, each optionally followed by `@ MEM` (`parse_alloc_typmem`,
    `parse_num_type`) -/
def parseAlloc (x : String) (ts : List STok) : Option PStmt :=
  match parseES ts with
  | some (.var nm shape, r) =>
    match Ty.ofName nm, parseMem r with
    | some ty, some (mem, []) => some (.alloc x ty shape mem)
    | _, _ => none
  | _ => none

/-- `lhs = rhs`, `lhs += rhs` (`parse_lvalue`: `x` or `x[…]`) -/
def parseLv (ts : List STok) : Option PStmt :=
  match parseES ts with
  | some (.var x idx, .assign :: r) =>
    match parseES r with
    | some (e, []) => some (.assign x idx e)
    | some _ => none
    | none =>
      if idx.isEmpty then
        match parseWin r with
        | some (.win y accs, []) => some (.window x y accs)
        | _ => none
      else none
  | some (.var x idx, .pluseq :: r) =>
    match parseFull r with
    | some e => some (.reduce x idx e)
    | none => none
  | _ => none

/-- the one-line statements of `parse_stmt_block` -/
def parseSimple (ts : List STok) : Option PStmt :=
  match ts with
  | .kwPass :: r => if r.isEmpty then some .pass else none
  | .t (.id x) :: r1 =>
    match r1 with
    | .dot :: .t (.id f) :: .assign :: r =>
      match parseFull r with
      | some e => some (.writeCfg x f e)
      | none => none
    | .dot :: _ => none
    | .t .lp :: r =>
      match parseCallArgs r with
      | some args => some (.call x args)
      | none => none
    | .colon :: r => parseAlloc x r
    | _ => parseLv ts
  | _ => none

def loopMode (m : String) : Option Bool :=
  if m == "seq" then some false else if m == "par" then some true else none

/-- `for i in seq(lo, hi):` / `par` (`parse_loop_cond`) -/
def parseForHead (ts : List STok) : Option (Bool × String × XExpr × XExpr) :=
  match ts with
  | .kwFor :: .t (.id i) :: .kwIn :: .t (.id m) :: .t .lp :: r =>
    match loopMode m with
    | none => none
    | some par =>
      match parseES r with
      | some (lo, .t .comma :: r2) =>
        match parseES r2 with
        | some (hi, [.t .rp, .colon]) => some (par, i, lo, hi)
        | _ => none
      | _ => none
  | _ => none

def parseIfHead (ts : List STok) : Option XExpr :=
  match ts with
  | .kwIf :: r =>
    match parseES r with
    | some (c, [.colon]) => some c
    | _ => none
  | _ => none

/-- the indented block after a header at column `col`: at least one line, deeper than `col`;
    its column is the column of its first line (`pb` = the block parser one fuel unit down) -/
def bodyWith (pb : Nat → List Line → Option (List PStmt × List Line)) (col : Nat) :
    List Line → Option (List PStmt × List Line)
  | [] => none
  | b :: ls => if col < b.ind then pb b.ind (b :: ls) else none

mutual
/-- statements at column `col` until the first shallower line (which is left in the rest) -/
def parseBlock : Nat → Nat → List Line → Option (List PStmt × List Line)
  | 0, _, _ => none
  | _ + 1, _, [] => some ([], [])
  | f + 1, col, l :: ls =>
    if l.ind < col then some ([], l :: ls)
    else if col < l.ind then none
    else
      match parseStmt f col l ls with
      | none => none
      | some (s, rest) =>
        match parseBlock f col rest with
        | none => none
        | some (ss, rest') => some (s :: ss, rest')
/-- one statement whose first line is `l` (at column `col`), `ls` = the lines after it -/
def parseStmt : Nat → Nat → Line → List Line → Option (PStmt × List Line)
  | 0, _, _, _ => none
  | f + 1, col, l, ls =>
    match l.toks with
    | .kwFor :: _ =>
      match parseForHead l.toks with
      | none => none
      | some (par, i, lo, hi) =>
        match bodyWith (parseBlock f) col ls with
        | none => none
        | some (body, rest) => some (.loop par i lo hi body, rest)
    | .kwIf :: _ =>
      match parseIfHead l.toks with
      | none => none
      | some c =>
        match bodyWith (parseBlock f) col ls with
        | none => none
        | some (body, rest) =>
          match rest with
          | [] => some (.ite c body [], [])
          | e :: rest2 =>
            if e.ind == col && e.toks == elseT then
              match bodyWith (parseBlock f) col rest2 with
              | none => none
              | some (orelse, rest3) => some (.ite c body orelse, rest3)
            else some (.ite c body [], e :: rest2)
    | _ =>
      match parseSimple l.toks with
      | some s => some (s, ls)
      | none => none
end

def blockFuel (ls : List Line) : Nat := 4 * ls.length + 4

/-- a complete block: all lines are consumed -/
def parseLines (ls : List Line) : Option (List PStmt) :=
  match ls with
  | [] => some []
  | l :: _ =>
    match parseBlock (blockFuel ls) l.ind ls with
    | some (ss, []) => some ss
    | _ => none

/-! ### procedure header -/

/-- the type of an argument (`parse_arg_type`): `size`/`index`/`bool`/`stride` must NOT carry a
    memory annotation -/
def parseFnTy (ts : List STok) : Option (FnTy × List STok) :=
  match ts with
  | .t .lb :: .t (.id nm) :: .t .rb :: r =>
    match Ty.ofName nm, parseES (.t (.id nm) :: r) with
    | some ty, some (.var _ (i :: is), r') =>
      match parseMem r' with
      | some (mem, r'') => some (.num ty (i :: is) true mem, r'')
      | none => none
    | _, _ => none
  | _ =>
    match parseES ts with
    | some (.var nm shape, r) =>
      let noAt : Bool := match r with | .at :: _ => false | _ => true
      if nm == "size" && shape.isEmpty then (if noAt then some (.size, r) else none)
      else if nm == "index" && shape.isEmpty then (if noAt then some (.index, r) else none)
      else if nm == "bool" && shape.isEmpty then (if noAt then some (.ctrl .bool none, r) else none)
      else if nm == "stride" && shape.isEmpty then
        (if noAt then some (.ctrl .stride none, r) else none)
      else
        match Ty.ofName nm, parseMem r with
        | some ty, some (mem, r') => some (.num ty shape false mem, r')
        | _, _ => none
    | _ => none

def parseFnArg (ts : List STok) : Option (PFnArg × List STok) :=
  match ts with
  | .t (.id a) :: .colon :: r =>
    match parseFnTy r with
    | some (ty, r') => some (⟨a, ty⟩, r')
    | none => none
  | _ => none

def parseFnArgsTail : Nat → List STok → Option (List PFnArg × List STok)
  | 0, _ => none
  | f + 1, .t .comma :: r =>
    match parseFnArg r with
    | some (a, r') =>
      match parseFnArgsTail f r' with
      | some (as, r'') => some (a :: as, r'')
      | none => none
    | none => none
  | _ + 1, ts => some ([], ts)

/-- `def name(args):` -/
def parseDefHead (ts : List STok) : Option (String × List PFnArg) :=
  match ts with
  | .kwDef :: .t (.id name) :: .t .lp :: r =>
    match r with
    | [.t .rp, .colon] => some (name, [])
    | _ =>
      match parseFnArg r with
      | some (a, r') =>
        match parseFnArgsTail (r'.length + 1) r' with
        | some (as, [.t .rp, .colon]) => some (name, a :: as)
        | _ => none
      | none => none
  | _ => none

/-- the `assert e` lines at the front of the body block (`parse_fdef`: "parse out any assertions
    at the front of the statement block"; an assertion with a message is rejected) -/
def parseAsserts (col : Nat) : List Line → Option (List XExpr × List Line)
  | [] => some ([], [])
  | l :: ls =>
    if l.ind == col then
      match l.toks with
      | .kwAssert :: r =>
        match parseFull r with
        | none => none
        | some e =>
          match parseAsserts col ls with
          | none => none
          | some (es, rest) => some (e :: es, rest)
      | _ => some ([], l :: ls)
    else some ([], l :: ls)

/-- a complete procedure: header line, then its (non-empty, deeper) block: the leading `assert`
    lines, then statements — all remaining lines.  An `assert` anywhere else is not a statement
    (`parseSimple` has no such form: "predicate assert should happen at the beginning"). -/
def parseProc (ls : List Line) : Option PProc :=
  match ls with
  | [] => none
  | l :: rest =>
    match parseDefHead l.toks with
    | none => none
    | some (name, args) =>
      match rest with
      | [] => none
      | b :: _ =>
        if l.ind < b.ind then
          match parseAsserts b.ind rest with
          | none => none
          | some (preds, rest') =>
            match parseBlock (blockFuel rest') b.ind rest' with
            | some (body, []) => some ⟨name, args, preds, body⟩
            | _ => none
        else none

/-! ### lexer of a text line (driver and correspondence only; the theorems are on tokens) -/

def keywordTok (w : String) : Option STok :=
  if w == "for" then some .kwFor else if w == "in" then some .kwIn
  else if w == "if" then some .kwIf else if w == "else" then some .kwElse
  else if w == "pass" then some .kwPass else if w == "def" then some .kwDef
  else if w == "assert" then some .kwAssert
  else none

def wordSTok (w : String) : STok :=
  match keywordTok w with
  | some k => k
  | none => .t (wordTok w)

def lexSAux : Nat → List Char → Option (List STok)
  | 0, _ => none
  | _ + 1, [] => some []
  | f + 1, c :: cs =>
    if c == ' ' then lexSAux f cs
    else if isIdStart c then
      let (acc, rest) := lexId [c] cs
      (lexSAux f rest).map (wordSTok (String.ofList acc.reverse) :: ·)
    else if c.isDigit then
      let (acc, rest) := lexNum false [c] cs
      (lexSAux f rest).map (.t (.num (String.ofList acc.reverse)) :: ·)
    else
      let one (t : STok) (rest : List Char) := (lexSAux f rest).map (t :: ·)
      match c, cs with
      | '<', '=' :: r => one (.t (.op .le)) r
      | '>', '=' :: r => one (.t (.op .ge)) r
      | '=', '=' :: r => one (.t (.op .eq)) r
      | '+', '=' :: r => one .pluseq r
      | '=', r => one .assign r
      | '<', r => one (.t (.op .lt)) r
      | '>', r => one (.t (.op .gt)) r
      | '+', r => one (.t (.op .add)) r
      | '-', r => one (.t (.op .sub)) r
      | '*', r => one (.t (.op .mul)) r
      | '/', r => one (.t (.op .div)) r
      | '%', r => one (.t (.op .mod)) r
      | '(', r => one (.t .lp) r
      | ')', r => one (.t .rp) r
      | '[', r => one (.t .lb) r
      | ']', r => one (.t .rb) r
      | ',', r => one (.t .comma) r
      | ':', r => one .colon r
      | '@', r => one .at r
      | '.', r => one .dot r
      | _, _ => none

def leadingBlanks : List Char → Nat
  | ' ' :: cs => leadingBlanks cs + 1
  | _ => 0

/-- one physical line → a logical line (`none`: a character outside the language) -/
def lexLine (s : String) : Option Line :=
  (lexSAux (s.length + 1) s.toList).map (fun ts => ⟨leadingBlanks s.toList, ts⟩)

def isBlankOrComment (s : String) : Bool :=
  match s.toList.dropWhile (· == ' ') with
  | [] => true
  | c :: _ => c == '#'

/-- all lines of a text; blank lines and comment lines are dropped (as Python's tokenizer does) -/
def lexLines (ss : List String) : Option (List Line) :=
  (ss.filter (fun s => !isBlankOrComment s)).mapM lexLine

def parseTextBlock (ss : List String) : Option (List PStmt) := (lexLines ss).bind parseLines
def parseTextProc (ss : List String) : Option PProc := (lexLines ss).bind parseProc

/-! ### identifiers the lexer reads back as identifiers -/

def reservedWords : List String :=
  ["for", "in", "if", "else", "pass", "def", "and", "or", "True", "False", "not", "is", "elif",
   "while", "with", "as", "assert", "return", "lambda", "None", "import", "from", "class", "del",
   "try", "except", "finally", "raise", "global", "nonlocal", "yield", "break", "continue",
   "async", "await"]

/-- a Python identifier (ASCII) that is not a keyword -/
def identOK (s : String) : Bool :=
  match s.toList with
  | [] => false
  | c :: cs => isIdStart c && cs.all isIdChar && !reservedWords.contains s

end Exo.PrintStmt
