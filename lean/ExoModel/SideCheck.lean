/-
  ExoModel.SideCheck — "tie B" for the scheduling primitives of C01: the SEMANTIC side condition
  of the `…_in_context` theorem of a primitive (Props/C01Context, C01Storage, C01Recompute, …),
  evaluated in every state in which control reaches the rewritten position when the ORIGINAL
  procedure is run from a given initial state (`Fp.visits`, the executable `Reach`).

    Side.check ext name path k flag before after σ₀ = ok (visits, visits in which the condition holds)
                                                   | error "static: …"   a syntactic hypothesis fails
                                                   | error "…"           unexpected shape / no condition

  `name`, `path`, `k`, `flag` follow the conventions of `Rw.check'` / `Rw.checkStorage` /
  `Rw.checkData`; parameters the primitive chose (cut point, new bounds, which branch survived,
  guarded or not) are read off `after`, as there.

  Clauses of a hypothesis that quantify over ALL states (`∀ s, …`: idempotence of a body, commutation
  of iterations) are sampled at the visit state, for a bounded number of iterator values
  (`sampleN` values from the start and the end of the range).  Comparison of outcomes is `ExEq`
  (both fail, or both succeed with equal states; configuration compared extensionally).
-/
import ExoModel.FootprintAt
import ExoModel.RwCheck
import ExoModel.AlphaEq
import ExoModel.Inline
import ExoModel.RewriteData
import ExoModel.RwCheckStorage

namespace Exo.SideTie
open Exo

variable {V : Type}

/-! ### comparing outcomes -/

def cfgValEq [BEq V] : CfgVal V → CfgVal V → Bool
  | .ctrl a, .ctrl b => a == b
  | .data a, .data b => a == b
  | _, _ => false

def optCfgEq [BEq V] : Option (CfgVal V) → Option (CfgVal V) → Bool
  | some a, some b => cfgValEq a b
  | none, none => true
  | _, _ => false

/-- configurations compared extensionally (`lookupCfg`): the order in which fields were first
    written is not observable -/
def cfgEq [BEq V] (a b : List ((String × String) × CfgVal V)) : Bool :=
  (a.map (·.1) ++ b.map (·.1)).all (fun k => optCfgEq (lookupCfg k a) (lookupCfg k b))

def stEq [BEq V] (a b : State V) : Bool :=
  a.env == b.env && a.views == b.views && a.heap == b.heap && cfgEq a.cfg b.cfg

/-- `ExEq` on outcomes, decidable form -/
def exEqB [BEq V] (r r' : Except Err (State V)) : Bool :=
  match r, r' with
  | .ok a, .ok b => stEq a b
  | .error _, .error _ => true
  | _, _ => false

/-- poison refinement on cells: an undefined cell may become defined -/
def cellRefB [BEq V] (a b : Option V) : Bool := a.isNone || a == b

def bufRefB [BEq V] : List (Option V) → List (Option V) → Bool
  | [], [] => true
  | a :: r, b :: s => cellRefB a b && bufRefB r s
  | _, _ => false

def heapRefB [BEq V] : List (List (Option V)) → List (List (Option V)) → Bool
  | [], [] => true
  | a :: r, b :: s => bufRefB a b && heapRefB r s
  | _, _ => false

def cfgValRefB [BEq V] : CfgVal V → CfgVal V → Bool
  | .ctrl a, .ctrl b => a == b
  | .data a, .data b => cellRefB a b
  | _, _ => false

def cfgRefB [BEq V] (a b : List ((String × String) × CfgVal V)) : Bool :=
  a.all (fun p => match lookupCfg p.1 a, lookupCfg p.1 b with
    | some x, some y => cfgValRefB x y
    | _, _ => false)

/-- the second outcome refines the first (`Refines ∅` on the final states; a failing original is
    refined by anything) -/
def exRefB [BEq V] (r r' : Except Err (State V)) : Bool :=
  match r, r' with
  | .ok a, .ok b => a.env == b.env && a.views == b.views && heapRefB a.heap b.heap && cfgRefB a.cfg b.cfg
  | .error _, _ => true
  | _, _ => false

def cval (σ : State V) (e : Expr) : Option Int :=
  match evalC σ e with
  | .ok v => some v
  | .error _ => none

/-- how many iterator values are sampled from each end of a range -/
def sampleN : Nat := 3

/-- up to `sampleN` values from the start and from the end of `[l, h)` -/
def sampleVals (l h : Int) : List Int :=
  let n := (h - l).toNat
  if n ≤ 2 * sampleN then (List.range n).map (fun (k : Nat) => l + (k : Int))
  else (List.range sampleN).map (fun (k : Nat) => l + (k : Int)) ++
    (List.range sampleN).map (fun (k : Nat) => h - (sampleN : Int) + (k : Int))

/-- all pairs `(v, w)` with `v` before `w` in the list -/
def orderedPairs : List Int → List (Int × Int)
  | [] => []
  | v :: r => r.map (fun w => (v, w)) ++ orderedPairs r

section
variable [DataAlg V] [BEq V] (ext : String → List V → V)

/-- one iteration of a loop body in its own scope (`loopStep` of Lemmas/Rewrites) -/
def loopStep (i : Sym) (body : List Stmt) (v : Int) (s : State V) : Except Err (State V) :=
  (execL ext body (s.bind i v)).map (State.leave s)

/-- iteration `(i, j) = (a, b)` of a doubly nested loop (`stepIJ` of Lemmas/LoopSubst) -/
def stepIJ (i j : Sym) (B : List Stmt) (a b : Int) (s : State V) : Except Err (State V) :=
  (execL ext B ((s.bind i a).bind j b)).map (State.leave s)

/-- `f ; g` and `g ; f` have the same outcome from `s` -/
def commutesAt (f g : State V → Except Err (State V)) (s : State V) : Bool :=
  exEqB (f s >>= g) (g s >>= f)

/-- running `f` a second time changes nothing (if the first run succeeds) -/
def idemAt (f : State V → Except Err (State V)) (s : State V) : Bool :=
  match f s with
  | .ok s' => exEqB (f s') (.ok s')
  | .error _ => true

/-- bounds of a loop evaluate, `lo ≤ hi` -/
def boundsOk (σ : State V) (lo hi : Expr) : Option (Int × Int) :=
  match cval σ lo, cval σ hi with
  | some l, some h => if l ≤ h then some (l, h) else none
  | _, _ => none

/-- every B-iteration `v` commutes with every later A-iteration `w` (sampled `v < w` in range) -/
def laterCommute (fA fB : Int → State V → Except Err (State V)) (l h : Int) (σ : State V) : Bool :=
  (orderedPairs (sampleVals l h)).all (fun p => commutesAt (fB p.1) (fA p.2) σ)

/-! ### the side condition of each primitive, as a predicate on the visit state -/

def noCfg (e : Expr) : Bool := Inline.noCfgE e

def isDefS : Stmt → Bool
  | .alloc _ _ => true
  | .window _ _ => true
  | _ => false

def noDefsB (ss : List Stmt) : Bool := ss.all (fun s => !isDefS s)

def static (b : Bool) (msg : String) : Except String Unit :=
  if b then pure () else throw ("static: " ++ msg)

/-- the data value an expression has, as an outcome (for comparing two evaluations) -/
def dvalEq (r r' : Except Err (Option V)) : Bool :=
  match r, r' with
  | .ok a, .ok b => a == b
  | .error _, .error _ => true
  | _, _ => false

/-- the position whose dynamic visits are examined: the addressed statement, except for
    `lift_scope` (the parent of the addressed inner statement) and `lift_alloc` (the statement the
    allocation is lifted out of: `k` levels up) -/
def visitPath (name : String) (path : Rw.Path) (k : Nat) : Rw.Path :=
  if name == "lift_scope" then path.dropLast
  else if name == "lift_alloc" then path.take (path.length - k)
  else path

def setCell (σ : State V) (c : Nat × Nat) (w : Option V) : State V :=
  { σ with heap := heapSet σ.heap c w }

/-- contents a cell is perturbed to when independence of the cell is sampled -/
def probes : List (Option V) := [none, some (DataAlg.ofRat 12345 7), some (DataAlg.ofRat (-3) 1)]

/-- `IndepOfCell ext σ x idx b` (Lemmas/DataStmtCell), sampled: the value of `b` does not change
    when the cell `x[idx]` denotes is overwritten -/
def indepOfCell (σ : State V) (x : Sym) (idx : List Expr) (b : Expr) : Bool :=
  match Fp.target σ x idx with
  | .ok c => (probes (V := V)).all (fun w => dvalEq (evalD ext (setCell σ c w) b) (evalD ext σ b))
  | .error _ => true

def sameCell (σ : State V) (x : Sym) (i j : List Expr) : Bool :=
  match Fp.target σ x i, Fp.target σ x j with
  | .ok c, .ok c' => c == c'
  | _, _ => false

/-- outcomes equal except for the content of one cell -/
def exEqExcept (c : Nat × Nat) (r r' : Except Err (State V)) : Bool :=
  match r, r' with
  | .ok a, .ok b => stEq (setCell a c none) (setCell b c none)
  | .error _, .error _ => true
  | _, _ => false

/-- the state hypothesis of `cut_loop_in_context` / `join_loops_in_context`: the three bounds
    evaluate and `lo ≤ mid ≤ hi` -/
def condCutLoop (lo mid hi : Expr) (σ : State V) : Bool :=
  match cval σ lo, cval σ mid, cval σ hi with
  | some l, some m, some h => decide (l ≤ m) && decide (m ≤ h)
  | _, _, _ => false

def cutLoopCase (sb sa : List Stmt) : Except String (State V → Bool) :=
  match sb, sa with
  | .loop _ lo hi _ _ :: _, .loop _ _ mid _ _ :: _ =>
    if noCfg mid && noCfg hi then .ok (condCutLoop lo mid hi)
    else .error "static: cut point or upper bound reads configuration"
  | _, _ => .error "cut_loop: unexpected shape"

/-- the condition, given the block suffixes `sb` / `sa` at the visited position before / after -/
def condCases (name : String) (path : Rw.Path) (k : Nat) (flag : Bool) (before after : List Stmt)
    (sb sa : List Stmt) : Except String (State V → Bool) := do
  match name with
  | "cut_loop" => cutLoopCase sb sa
  | "join_loops" =>
    match sb with
    | .loop _ lo mid _ _ :: .loop _ mid2 hi _ _ :: _ =>
      static (noCfg mid && noCfg hi) "middle or upper bound reads configuration"
      pure (fun σ => match cval σ lo, cval σ mid, cval σ mid2, cval σ hi with
        | some l, some m, some m2, some h => decide (l ≤ m) && decide (m ≤ h) && m == m2
        | _, _, _, _ => false)
    | _ => throw "join_loops: unexpected shape"
  | "shift_loop" =>
    match sb, sa with
    | .loop _ lo hi _ _ :: _, .loop _ nlo _ _ _ :: _ =>
      pure (fun σ => match boundsOk σ lo hi, cval σ nlo with
        | some _, some n => decide (0 ≤ n)
        | _, _ => false)
    | _, _ => throw "shift_loop: unexpected shape"
  | "divide_loop_perfect" =>
    match sb, sa with
    | .loop _ _ hi _ _ :: _, .loop _ _ ohi _ _ :: _ =>
      static (decide (0 < k)) "quotient must be positive"
      pure (fun σ => match cval σ hi, cval σ ohi with
        | some h, some m => decide (0 ≤ m) && h == (k : Int) * m
        | _, _ => false)
    | _, _ => throw "divide_loop: unexpected shape"
  | "divide_loop_guard" | "divide_loop_cut" | "divide_loop_cut_and_guard" =>
    match sb with
    | .loop _ _ hi _ _ :: _ =>
      static (decide (0 < k)) "quotient must be positive"
      pure (fun σ => match cval σ hi with
        | some h => decide (0 ≤ h)
        | none => false)
    | _ => throw "divide_loop: unexpected shape"
  | "remove_loop" =>
    match sb with
    | .loop i lo hi body _ :: _ =>
      let guarded := match Rw.rewriteAt (Rw.removeLoop true) path before with
        | some m => Rw.alphaEqBlocks' m after
        | none => false
      static (!occL i body) "the iterator occurs in the body"
      static (guarded || noDefsB body) "unguarded removal of a loop whose body defines a name"
      pure (fun σ => match cval σ lo, cval σ hi with
        | some l, some h =>
          (if guarded then decide (l ≤ h) else decide (l < h)) &&
          idemAt (loopStep ext i body l) σ &&
          exEqB (loopStep ext i body l σ) (loopStep ext i body (l + 1) σ)
        | _, _ => false)
    | _ => throw "remove_loop: unexpected shape"
  | "add_loop" =>
    match sb, sa with
    | s :: _, .loop i _ hi _ _ :: _ =>
      static (!occL i [s]) "the new iterator occurs in the statement"
      static (flag || !isDefS s) "unguarded loop around a definition"
      pure (fun σ => match cval σ hi with
        | some h => decide (0 < h) && (flag || idemAt (loopStep ext i [s] 0) σ)
        | none => false)
    | _, _ => throw "add_loop: unexpected shape"
  | "fission" =>
    match sb with
    | .loop i lo hi body _ :: _ =>
      let A := body.take k
      let B := body.drop k
      static (noCfg lo && noCfg hi) "a loop bound reads configuration"
      static (noDefsB A) "the first part defines a name"
      pure (fun σ => match boundsOk σ lo hi with
        | some (l, h) => laterCommute (loopStep ext i A) (loopStep ext i B) l h σ
        | none => false)
    | _ => throw "fission: unexpected shape"
  | "fuse" =>
    match sb with
    | .loop i lo hi A _ :: .loop i2 lo2 hi2 B2 _ :: _ =>
      static (noCfg lo && noCfg hi) "a loop bound reads configuration"
      static (noDefsB A) "the first body defines a name"
      pure (fun σ => match boundsOk σ lo hi, cval σ lo2, cval σ hi2 with
        | some (l, h), some l2, some h2 =>
          l == l2 && h == h2 && laterCommute (loopStep ext i A) (loopStep ext i2 B2) l h σ
        | _, _, _ => false)
    | .ite c t e :: .ite c2 _ _ :: _ =>
      static (noDefsB t && noDefsB e) "a branch of the first `if` defines a name"
      pure (fun σ => match cval σ c, cval σ c2 with
        | some b, some b2 =>
          decide ((b ≠ 0) = (b2 ≠ 0)) &&
          (match execS ext (.ite c t e) σ with
           | .ok σ1 => (match cval σ1 c2 with
              | some b3 => decide ((b3 ≠ 0) = (b ≠ 0))
              | none => false)
           | .error _ => true)
        | _, _ => false)
    | _ => throw "fuse: unexpected shape"
  | "eliminate_dead_code" =>
    match sb with
    | .ite c _ _ :: _ =>
      let keptThen := match Rw.rewriteAt (Rw.deadCode true) path before with
        | some m => Rw.alphaEqBlocks' m after
        | none => false
      let keptElse := match Rw.rewriteAt (Rw.deadCode false) path before with
        | some m => Rw.alphaEqBlocks' m after
        | none => false
      pure (fun σ => match cval σ c with
        | some b => (keptThen && decide (b ≠ 0)) || (keptElse && decide (b = 0))
        | none => false)
    | .loop _ lo hi _ _ :: _ =>
      pure (fun σ => match cval σ lo, cval σ hi with
        | some l, some h => l == h
        | _, _ => false)
    | _ => throw "eliminate_dead_code: unexpected shape"
  | "specialize" =>
    match sa with
    | .ite c _ _ :: _ => pure (fun σ => (cval σ c).isSome)
    | _ => throw "specialize: unexpected shape"
  | "unroll_loop" =>
    match sb with
    | .loop _ (.lit (.int lo)) (.lit (.int hi)) body _ :: _ =>
      static (decide (lo ≤ hi)) "literal bounds out of order"
      static (noDefsB body) "the body defines a name"
      pure (fun _ => true)
    | _ => throw "static: unroll_loop needs literal bounds"
  | "mult_loops" =>
    match sb with
    | .loop _ (.lit (.int 0)) hi [.loop _ (.lit (.int 0)) (.lit (.int c)) _ _] _ :: _ =>
      static (decide (0 < c)) "inner bound must be a positive literal"
      pure (fun σ => match cval σ hi with
        | some h => decide (0 ≤ h)
        | none => false)
    | _ => throw "static: mult_loops needs `for i in [0, hi): for j in [0, c)` with a literal c"
  | "reorder_loops" | "lift_scope" =>
    match sb with
    | .loop i lo1 hi1 [.loop j lo2 hi2 B _] _ :: _ =>
      static (noCfg lo1 && noCfg hi1 && noCfg lo2 && noCfg hi2) "a loop bound reads configuration"
      static (!lo2.occC i && !hi2.occC i) "an inner bound mentions the outer iterator"
      pure (fun σ => match boundsOk σ lo1 hi1, boundsOk σ lo2 hi2 with
        | some (l1, h1), some (l2, h2) =>
          let as := orderedPairs (sampleVals l1 h1)
          let bs := orderedPairs (sampleVals l2 h2)
          as.all (fun pa => bs.all (fun pb =>
            -- (a, b) then (a', b') with a < a', b' < b
            commutesAt (stepIJ ext i j B pa.1 pb.2) (stepIJ ext i j B pa.2 pb.1) σ))
        | _, _ => false)
    | .ite a [.ite b _ _] _ :: _ =>
      if name == "lift_scope" then pure (fun σ => (cval σ a).isSome && (cval σ b).isSome)
      else throw "reorder_loops: unexpected shape"
    | .ite a _ [.ite b _ _] :: _ =>
      if name == "lift_scope" then pure (fun σ => (cval σ a).isSome && (cval σ b).isSome)
      else throw "reorder_loops: unexpected shape"
    | .ite c [.loop i lo hi _ _] [] :: _ =>
      if name == "lift_scope" then do
        static (noCfg c) "the condition reads configuration"
        static (!c.occC i) "the condition mentions the iterator"
        pure (fun σ => (boundsOk σ lo hi).isSome && (cval σ c).isSome)
      else throw "reorder_loops: unexpected shape"
    | .loop i lo hi [.ite c _ _] _ :: _ =>
      if name == "lift_scope" then do
        static (noCfg c) "the condition reads configuration"
        static (!c.occC i) "the condition mentions the iterator"
        pure (fun σ => (boundsOk σ lo hi).isSome && (cval σ c).isSome)
      else throw "reorder_loops: unexpected shape"
    | _ => throw s!"{name}: unexpected shape"
  | "divide_with_recompute" =>
    match sb, sa with
    | .loop i (.lit (.int 0)) hi B _ :: _, .loop io _ ohi [.loop _ _ ihi _ _] _ :: _ =>
      pure (fun σ => match cval σ hi, cval σ ohi, cval (σ.bind io 0) ihi with
        | some h, some m, some ih =>
          let r := h - m * (k : Int)
          decide (1 ≤ m) && decide (0 ≤ r) && ih == (k : Int) + r &&
          (orderedPairs (sampleVals 0 h)).all (fun p =>
            commutesAt (loopStep ext i B p.1) (loopStep ext i B p.2) σ) &&
          (sampleVals 0 h).all (fun v => idemAt (loopStep ext i B v) σ)
        | _, _, _ => false)
    | _, _ => throw "static: divide_with_recompute needs a loop from 0"
  | "rewrite_expr" | "commute_expr" | "left_reassociate_expr" =>
    -- the statement before and after evaluate alike in the visit state
    match sb, sa with
    | s :: _, s' :: _ => pure (fun σ => exEqB (execB ext [s] σ) (execB ext [s'] σ))
    | _, _ => throw s!"{name}: unexpected shape"
  | "merge_writes" =>
    -- both statements write the same cell, and the second right-hand side does not depend on it
    -- (`merge_writes_in_context`, `merge_reduce_reduce_in_context`)
    let acc : Stmt → Option (Sym × List Expr × Expr) := fun s => match s with
      | .assign x i e => some (x, i, e)
      | .reduce x i e => some (x, i, e)
      | _ => none
    match sb with
    | s1 :: s2 :: _ =>
      match acc s1, acc s2 with
      | some (x, i, _), some (_, j, b) =>
        pure (fun σ => sameCell σ x i j && indepOfCell ext σ x i b)
      | _, _ => throw "merge_writes: unexpected shape"
    | _ => throw "merge_writes: unexpected shape"
  | "split_write" =>
    -- `x[idx] (+)= a + b`: `b` does not depend on the cell written (`split_write_*_in_context`)
    match sb with
    | .assign x idx (.binop .add _ b) :: _ | .reduce x idx (.binop .add _ b) :: _ =>
      pure (fun σ => indepOfCell ext σ x idx b)
    | _ => throw "split_write: unexpected shape"
  | "inline_assign" =>
    -- the rest of the block with the right-hand side inlined computes what the block computes,
    -- EXCEPT for the content of the assigned cell (`inline_assign_*_partial`: the deleted
    -- assignment must be dead — that part is not a local fact and is left to the behaviour check)
    match sb with
    | .assign x idx _ :: _ =>
      pure (fun σ => match Fp.target σ x idx with
        | .ok c => exEqExcept c (execB ext sb σ) (execB ext sa σ)
        | .error _ => true)
    | _ => throw "inline_assign: unexpected shape"
  | "fold_into_reduce" | "lift_reduce_constant" =>
    -- local rewrites: the block suffix before and after run alike from the visit state
    pure (fun σ => exEqB (execB ext sb σ) (execB ext sa σ))
  | "sink_alloc" | "lift_alloc" | "expand_dim" | "resize_dim" | "divide_dim" | "mult_dim"
  | "rearrange_dim" | "delete_buffer" | "unroll_buffer" | "bind_expr" | "stage_mem" =>
    -- storage rewrites: the block suffix that holds the buffer's scope, before and after, run from
    -- the visit state in a scope of its own: the derived outcome refines the original one
    -- (`BlockRefW` of the storage theorems, sampled)
    pure (fun σ => exRefB (execB ext sb σ) (execB ext sa σ))
  | _ => throw s!"no side condition for {name}"

def condFor (name : String) (path : Rw.Path) (k : Nat) (flag : Bool) (before after : List Stmt) :
    Except String (State V → Bool) :=
  match Rw.getAt (visitPath name path k) before with
  | some sb =>
    condCases ext name path k flag before after sb ((Rw.getAt (visitPath name path k) after).getD [])
  | none => .error "path invalid in input"

/-- (dynamic visits of the position `vpath`, visits in which `cond` holds) -/
def checkCond (cond : State V → Bool) (vpath : Rw.Path) (before : List Stmt) (σ₀ : State V) :
    Nat × Nat :=
  let vs := Fp.visits ext vpath before σ₀
  (vs.length, (vs.filter cond).length)

/-- (dynamic visits of the rewritten position, visits in which the side condition holds) -/
def check (name : String) (path : Rw.Path) (k : Nat) (flag : Bool) (before after : List Stmt)
    (σ₀ : State V) : Except String (Nat × Nat) := do
  let cond ← condFor ext name path k flag before after
  pure (checkCond ext cond (visitPath name path k) before σ₀)

end

end Exo.SideTie

namespace Exo.Side
/-- the name under which the harness documentation refers to the evaluator -/
abbrev check := @Exo.SideTie.check
end Exo.Side
