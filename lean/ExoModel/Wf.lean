/-
  ExoModel.Wf — static well-formedness of a LoopIR procedure (C04): every use of a symbol lies
  in the scope of a declaration of it with the right kind and rank, no symbol is declared twice
  in overlapping scopes, calls have the callee's arity and argument kinds.

  The static environment maps a symbol to `none` (control variable) or `some n` (buffer / window /
  scalar of rank n).
-/
import ExoModel.Syntax

namespace Exo.Wf
open Exo

abbrev Env := List (Sym × Option Nat)

def lookup (x : Sym) : Env → Option (Option Nat)
  | [] => none
  | (y, k) :: r => if x = y then some k else lookup x r

def isCtrl (Γ : Env) (x : Sym) : Bool := lookup x Γ == some none
def rankOf (Γ : Env) (x : Sym) : Option Nat := (lookup x Γ).join
def fresh (Γ : Env) (x : Sym) : Bool := (lookup x Γ).isNone

mutual
/-- control expression: only control variables, literals, arithmetic, strides of buffers, config -/
def wfC (Γ : Env) : Expr → Bool
  | .read x idx => isCtrl Γ x && idx.isEmpty
  | .lit (.int _) => true
  | .lit (.bool _) => true
  | .lit (.data _ _) => false
  | .usub e => wfC Γ e
  | .binop _ a b => wfC Γ a && wfC Γ b
  | .stride x d => match rankOf Γ x with
      | some n => d < n
      | none => false
  | .readcfg _ _ => true
  | .extern _ _ => false
  | .win _ _ => false
end

def wfCs (Γ : Env) : List Expr → Bool
  | [] => true
  | e :: r => wfC Γ e && wfCs Γ r

mutual
/-- data expression: buffer reads with exactly as many indices as the buffer has dimensions -/
def wfD (Γ : Env) : Expr → Bool
  | .read x idx => match rankOf Γ x with
      | some n => idx.length == n && wfCs Γ idx
      | none => false
  | .lit (.data _ _) => true
  | .lit (.int _) => true
  | .lit (.bool _) => false
  | .usub e => wfD Γ e
  | .binop op a b => (op == .add || op == .sub || op == .mul || op == .div) && wfD Γ a && wfD Γ b
  | .extern _ args => wfDs Γ args
  | .readcfg _ _ => true
  | .win _ _ => false
  | .stride _ _ => false
def wfDs (Γ : Env) : List Expr → Bool
  | [] => true
  | e :: r => wfD Γ e && wfDs Γ r
end

def wfAcc (Γ : Env) : WAcc → Bool
  | .point e => wfC Γ e
  | .interval lo hi => wfC Γ lo && wfC Γ hi

def wfAccs (Γ : Env) : List WAcc → Bool
  | [] => true
  | a :: r => wfAcc Γ a && wfAccs Γ r

def accRank : List WAcc → Nat
  | [] => 0
  | .point _ :: r => accRank r
  | .interval _ _ :: r => accRank r + 1

/-- rank of a view expression (call argument / window right-hand side), if well formed -/
def viewRank (Γ : Env) : Expr → Option Nat
  | .read x [] => rankOf Γ x
  | .read x idx => match rankOf Γ x with
      | some n => if idx.length == n && wfCs Γ idx then some 0 else none
      | none => none
  | .win x acc => match rankOf Γ x with
      | some n => if acc.length == n && wfAccs Γ acc then some (accRank acc) else none
      | none => none
  | _ => none

def argRank : ArgTy → Option Nat
  | .ctrl _ => none
  | .scalar => some 0
  | .tensor sh _ => some sh.length

def wfCallArgs (Γ : Env) : List FnArg → List Expr → Bool
  | [], [] => true
  | ⟨_, .ctrl _⟩ :: fs, a :: as => wfC Γ a && wfCallArgs Γ fs as
  | ⟨_, ty⟩ :: fs, a :: as => (viewRank Γ a == argRank ty) && wfCallArgs Γ fs as
  | _, _ => false

/-- environment of a procedure's formals; shapes and preds may mention all control formals -/
def formalsEnv : List FnArg → Env
  | [] => []
  | ⟨x, ty⟩ :: r => (x, argRank ty) :: formalsEnv r

def distinctFormals : List FnArg → Bool
  | [] => true
  | ⟨x, _⟩ :: r => r.all (fun a => a.name != x) && distinctFormals r

def wfFormalShapes (Γ : Env) : List FnArg → Bool
  | [] => true
  | ⟨_, .tensor sh _⟩ :: r => wfCs Γ sh && wfFormalShapes Γ r
  | _ :: r => wfFormalShapes Γ r

mutual
/-- returns the environment after the statement (definitions extend it) or `none` if ill formed -/
def wfS (Γ : Env) : Stmt → Option Env
  | .assign x idx e => match rankOf Γ x with
      | some n => if idx.length == n && wfCs Γ idx && wfD Γ e then some Γ else none
      | none => none
  | .reduce x idx e => match rankOf Γ x with
      | some n => if idx.length == n && wfCs Γ idx && wfD Γ e then some Γ else none
      | none => none
  | .writecfg _ _ e isData => if (if isData then wfD Γ e else wfC Γ e) then some Γ else none
  | .pass => some Γ
  | .ite c t e => if wfC Γ c && (wfL Γ t).isSome && (wfL Γ e).isSome then some Γ else none
  | .loop i lo hi b _ =>
      if fresh Γ i && wfC Γ lo && wfC Γ hi && (wfL ((i, none) :: Γ) b).isSome then some Γ else none
  | .alloc x sh => if fresh Γ x && wfCs Γ sh then some ((x, some sh.length) :: Γ) else none
  | .free x => if (rankOf Γ x).isSome then some Γ else none
  | .call f args => if wfP f && wfCallArgs Γ f.args args then some Γ else none
  | .window x e => match viewRank Γ e with
      | some n => if fresh Γ x then some ((x, some n) :: Γ) else none
      | none => none
def wfL (Γ : Env) : List Stmt → Option Env
  | [] => some Γ
  | s :: r => match wfS Γ s with
      | some Γ' => wfL Γ' r
      | none => none
def wfP : Proc → Bool
  | .mk _ args preds body =>
      let Γ := formalsEnv args
      distinctFormals args && wfFormalShapes Γ args && wfCs Γ preds && (wfL Γ body).isSome
end

end Exo.Wf
